/-
Generic model of the traversal that `#[derive(Visit, VisitMut)]` (derive/src/lib.rs) generates,
together with the container impls of src/ast/visitor.rs:46-99.

A value is a tree:
* `node ty data hook kids` – a value of a derived struct/enum: `hook` is the type-level
  `visit(with = …)` of its type (a function of the type in Rust; cached in the tree here),
  `kids` are the fields of the struct / of the active variant in declaration order, each with its
  optional field-level hook.  `data` stands for everything else the node stores (variant index,
  payload) so that a mutating callback has something to change.
  A `Vec` field carrying a field-level hook is also a `node`, without type-level hook, whose `kids`
  are the elements, each with that hook: for such a field the derive emits
  `for item in field { pre_fh(item)?; item.visit(visitor)?; post_fh(item)?; }`, which is the body below
  with no `pre_h`/`post_h` (built by `Model/Reflect.lean: hookedVec`).
* `seq xs` – `Option` (0 or 1 element), `Vec`, `Box` (1 element): elements visited in order.
* `leaf d` – the `visit_noop!` types (numbers, `String`, `bool`, `char`): no callbacks.

The generated body is   `pre_h(self)?;  (pre_fh(f)?; f.visit(visitor)?; post_fh(f)?;)*  post_h(self)?;  Continue`.
A visitor is given extensionally: `brk k = true` iff the k-th callback (0-based, counted over the
whole walk) returns `Break`.  `walk` threads the callback counter and the delivered events and
returns `(true, _)` for `Break`, mirroring `?` on `ControlFlow`.
-/
namespace SqlVerif.Visit

inductive Val where
  | leaf (data : Nat)
  | node (ty : Nat) (data : Nat) (hook : Option Nat) (kids : List (Option Nat × Val))
  | seq (xs : List Val)
  deriving Repr, Inhabited

/-- where a callback fires: the hook id, whether it is a field-level hook (fires around the field,
    in the parent's generated code) and the path of the value it is given (child indices,
    innermost first) -/
structure Pos where
  hook : Nat
  field : Bool
  path : List Nat
  deriving DecidableEq, Repr

structure Ev where
  pos : Pos
  post : Bool
  deriving DecidableEq, Repr

structure St where
  n : Nat          -- callbacks delivered so far
  tr : List Ev     -- the callbacks delivered so far, oldest first
  deriving Repr

def St.init : St := ⟨0, []⟩

/-- one callback: it is recorded, then the visitor decides -/
def call (brk : Nat → Bool) (e : Ev) (s : St) : Bool × St := (brk s.n, ⟨s.n + 1, s.tr ++ [e]⟩)

/-- `a?; b` on `ControlFlow` -/
def andThen (a b : St → Bool × St) : St → Bool × St :=
  fun s => let r := a s; if r.1 then r else b r.2

/-- the optional `visitor.pre_/post_<hook>(x)?` the derive emits when a `with` attribute is present -/
def optCall (brk : Nat → Bool) (h : Option Nat) (post field : Bool) (rp : List Nat) (s : St) : Bool × St :=
  match h with
  | none => (false, s)
  | some h => call brk ⟨⟨h, field, rp⟩, post⟩ s

mutual
/-- the read-only walk (`Visit::visit`) -/
def walk (brk : Nat → Bool) : List Nat → Val → St → Bool × St
  | _, .leaf _, s => (false, s)
  | rp, .node _ _ hk kids, s =>
    andThen (optCall brk hk false false rp)
      (andThen (fun s => walkKids brk rp 0 kids s) (optCall brk hk true false rp)) s
  | rp, .seq xs, s => walkSeq brk rp 0 xs s
/-- the fields of a struct / variant, in declaration order -/
def walkKids (brk : Nat → Bool) : List Nat → Nat → List (Option Nat × Val) → St → Bool × St
  | _, _, [], s => (false, s)
  | rp, i, (fh, v) :: rest, s =>
    andThen (optCall brk fh false true (i :: rp))
      (andThen (fun s => walk brk (i :: rp) v s)
        (andThen (optCall brk fh true true (i :: rp)) (fun s => walkKids brk rp (i + 1) rest s))) s
/-- `Option` / `Vec` / `Box` -/
def walkSeq (brk : Nat → Bool) : List Nat → Nat → List Val → St → Bool × St
  | _, _, [], s => (false, s)
  | rp, i, v :: rest, s =>
    andThen (fun s => walk brk (i :: rp) v s) (fun s => walkSeq brk rp (i + 1) rest s) s
end

/-- what `v.visit(&mut visitor)` delivers and returns -/
def run (brk : Nat → Bool) (v : Val) : Bool × St := walk brk [] v St.init

def never : Nat → Bool := fun _ => false

/-- the complete callback sequence (visitor never breaks) -/
def fullTrace (v : Val) : List Ev := (run never v).2.tr

/-! ### the callback sequence as a pure function of the tree -/

def optEv (h : Option Nat) (post field : Bool) (rp : List Nat) : List Ev :=
  match h with
  | none => []
  | some h => [⟨⟨h, field, rp⟩, post⟩]

mutual
def events : List Nat → Val → List Ev
  | _, .leaf _ => []
  | rp, .node _ _ hk kids => optEv hk false false rp ++ (eventsKids rp 0 kids ++ optEv hk true false rp)
  | rp, .seq xs => eventsSeq rp 0 xs
def eventsKids : List Nat → Nat → List (Option Nat × Val) → List Ev
  | _, _, [] => []
  | rp, i, (fh, v) :: rest =>
    optEv fh false true (i :: rp) ++ (events (i :: rp) v ++ (optEv fh true true (i :: rp) ++ eventsKids rp (i + 1) rest))
def eventsSeq : List Nat → Nat → List Val → List Ev
  | _, _, [] => []
  | rp, i, v :: rest => events (i :: rp) v ++ eventsSeq rp (i + 1) rest
end

/-- deliver a list of callbacks until one breaks -/
def deliver (brk : Nat → Bool) : List Ev → St → Bool × St
  | [], s => (false, s)
  | e :: es, s => andThen (call brk e) (deliver brk es) s

/-! ### specification side: which positions are hooked, in pre-order / post-order -/

def optPos (h : Option Nat) (field : Bool) (rp : List Nat) : List Pos :=
  match h with
  | none => []
  | some h => [⟨h, field, rp⟩]

mutual
/-- hooked nodes and hooked fields, parents before children, siblings in declaration order -/
def hookedPreorder : List Nat → Val → List Pos
  | _, .leaf _ => []
  | rp, .node _ _ hk kids => optPos hk false rp ++ hookedPreKids rp 0 kids
  | rp, .seq xs => hookedPreSeq rp 0 xs
def hookedPreKids : List Nat → Nat → List (Option Nat × Val) → List Pos
  | _, _, [] => []
  | rp, i, (fh, v) :: rest => optPos fh true (i :: rp) ++ (hookedPreorder (i :: rp) v ++ hookedPreKids rp (i + 1) rest)
def hookedPreSeq : List Nat → Nat → List Val → List Pos
  | _, _, [] => []
  | rp, i, v :: rest => hookedPreorder (i :: rp) v ++ hookedPreSeq rp (i + 1) rest
end

mutual
/-- the same positions, children before parents -/
def hookedPostorder : List Nat → Val → List Pos
  | _, .leaf _ => []
  | rp, .node _ _ hk kids => hookedPostKids rp 0 kids ++ optPos hk false rp
  | rp, .seq xs => hookedPostSeq rp 0 xs
def hookedPostKids : List Nat → Nat → List (Option Nat × Val) → List Pos
  | _, _, [] => []
  | rp, i, (fh, v) :: rest => hookedPostorder (i :: rp) v ++ (optPos fh true (i :: rp) ++ hookedPostKids rp (i + 1) rest)
def hookedPostSeq : List Nat → Nat → List Val → List Pos
  | _, _, [] => []
  | rp, i, v :: rest => hookedPostorder (i :: rp) v ++ hookedPostSeq rp (i + 1) rest
end

/-- positions of the `pre` callbacks of a trace, in delivery order -/
def pres (es : List Ev) : List Pos := (es.filter (fun e => !e.post)).map (·.pos)
/-- positions of the `post` callbacks of a trace, in delivery order -/
def posts (es : List Ev) : List Pos := (es.filter (fun e => e.post)).map (·.pos)

/-- well-nested over positions: every `post` closes the most recent open `pre` of the same position -/
def dyck : List Pos → List Ev → Bool
  | st, [] => st.isEmpty
  | st, e :: es =>
    if e.post then
      match st with
      | top :: st' => decide (top = e.pos) && dyck st' es
      | [] => false
    else dyck (e.pos :: st) es

/-! ### the mutating walk (`VisitMut::visit`)

A callback of hook family `h` (pre or post) receives the value and may replace it: `cb h post v`.
After a type-level `pre` callback the generated code matches on the value *as it is now*, so the
children of the replaced value are walked; the `post` callback called is that of the static type
(the same hook).  A callback can grow the tree it is given, so the walk takes fuel (`none` = out of
fuel; the Rust code would not terminate either). -/

abbrev Cb := Nat → Bool → Val → Val

def cbId : Cb := fun _ _ v => v

def callM (cb : Cb) (brk : Nat → Bool) (h : Nat) (post field : Bool) (rp : List Nat) (v : Val) (s : St) :
    Bool × Val × St :=
  (brk s.n, cb h post v, ⟨s.n + 1, s.tr ++ [⟨⟨h, field, rp⟩, post⟩]⟩)

def optCallM (cb : Cb) (brk : Nat → Bool) (h : Option Nat) (post field : Bool) (rp : List Nat) (v : Val) (s : St) :
    Bool × Val × St :=
  match h with
  | none => (false, v, s)
  | some h => callM cb brk h post field rp v s

def kidsOf : Val → List (Option Nat × Val)
  | .node _ _ _ ks => ks
  | _ => []

def setKids : Val → List (Option Nat × Val) → Val
  | .node t d h _, ks => .node t d h ks
  | v, _ => v

mutual
def walkM (cb : Cb) (brk : Nat → Bool) : Nat → List Nat → Val → St → Option (Bool × Val × St)
  | 0, _, _, _ => none
  | _ + 1, _, .leaf d, s => some (false, .leaf d, s)
  | f + 1, rp, .seq xs, s =>
    match walkSeqM cb brk f rp 0 xs s with
    | none => none
    | some (b, xs', s') => some (b, .seq xs', s')
  | f + 1, rp, .node t d hk kids, s =>
    let r1 := optCallM cb brk hk false false rp (.node t d hk kids) s
    if r1.1 then some r1 else
    match walkKidsM cb brk f rp 0 (kidsOf r1.2.1) r1.2.2 with
    | none => none
    | some (b, ks', s2) =>
      let v2 := setKids r1.2.1 ks'
      if b then some (true, v2, s2) else some (optCallM cb brk hk true false rp v2 s2)
def walkKidsM (cb : Cb) (brk : Nat → Bool) : Nat → List Nat → Nat → List (Option Nat × Val) → St →
    Option (Bool × List (Option Nat × Val) × St)
  | 0, _, _, _, _ => none
  | _ + 1, _, _, [], s => some (false, [], s)
  | f + 1, rp, i, (fh, v) :: rest, s =>
    let r1 := optCallM cb brk fh false true (i :: rp) v s
    if r1.1 then some (true, (fh, r1.2.1) :: rest, r1.2.2) else
    match walkM cb brk f (i :: rp) r1.2.1 r1.2.2 with
    | none => none
    | some (b, v2, s2) =>
      if b then some (true, (fh, v2) :: rest, s2) else
      let r3 := optCallM cb brk fh true true (i :: rp) v2 s2
      if r3.1 then some (true, (fh, r3.2.1) :: rest, r3.2.2) else
      match walkKidsM cb brk f rp (i + 1) rest r3.2.2 with
      | none => none
      | some (b, rest', s4) => some (b, (fh, r3.2.1) :: rest', s4)
def walkSeqM (cb : Cb) (brk : Nat → Bool) : Nat → List Nat → Nat → List Val → St →
    Option (Bool × List Val × St)
  | 0, _, _, _, _ => none
  | _ + 1, _, _, [], s => some (false, [], s)
  | f + 1, rp, i, v :: rest, s =>
    match walkM cb brk f (i :: rp) v s with
    | none => none
    | some (b, v2, s2) =>
      if b then some (true, v2 :: rest, s2) else
      match walkSeqM cb brk f rp (i + 1) rest s2 with
      | none => none
      | some (b, rest', s3) => some (b, v2 :: rest', s3)
end

mutual
/-- number of constructors: enough fuel for the mutating walk with callbacks that do not grow the tree -/
def size : Val → Nat
  | .leaf _ => 1
  | .node _ _ _ kids => 1 + sizeKids kids
  | .seq xs => 1 + sizeSeq xs
def sizeKids : List (Option Nat × Val) → Nat
  | [] => 1
  | (_, v) :: rest => 1 + size v + sizeKids rest
def sizeSeq : List Val → Nat
  | [] => 1
  | v :: rest => 1 + size v + sizeSeq rest
end

def runM (cb : Cb) (brk : Nat → Bool) (v : Val) : Option (Bool × Val × St) :=
  walkM cb brk (size v + 1) [] v St.init

mutual
/-- structural equality (the driver prints whether an identity walk left the tree equal) -/
def beq : Val → Val → Bool
  | .leaf a, .leaf b => a == b
  | .node t d h ks, .node t' d' h' ks' => t == t' && d == d' && h == h' && beqKids ks ks'
  | .seq xs, .seq ys => beqSeq xs ys
  | _, _ => false
def beqKids : List (Option Nat × Val) → List (Option Nat × Val) → Bool
  | [], [] => true
  | (h, v) :: r, (h', v') :: r' => h == h' && beq v v' && beqKids r r'
  | _, _ => false
def beqSeq : List Val → List Val → Bool
  | [], [] => true
  | v :: r, v' :: r' => beq v v' && beqSeq r r'
  | _, _ => false
end

end SqlVerif.Visit

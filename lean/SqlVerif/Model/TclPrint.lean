import SqlVerif.Model.Tcl
import SqlVerif.Model.DdlPrint
/-!
What `sqlparser::ast` holds of the trees of `Model/Tcl.lean` (canonical S-expression, the same rendering
as `stmt_sexp` in `rust/harness/src/tcl.rs`) and `Display` of `Statement::{StartTransaction, Commit,
Rollback, Savepoint, ReleaseSavepoint, SetRole, SetVariable, SetTimeZone, SetNames, SetNamesDefault,
SetTransaction, Use, Discard, Deallocate, Close, Assert}`, `TransactionMode`, `OneOrManyWithParens`, as
lists of pieces (`Model/ExprPrint.lean`).

Normal forms of the printer (beyond those of `Model/DdlPrint.lean`): `BEGIN [WORK]` prints
`BEGIN TRANSACTION`, the noise words `TRANSACTION | WORK` of COMMIT / ROLLBACK / END are dropped, `END`
prints `COMMIT`, `AND NO CHAIN` is dropped, `TO name` prints `TO SAVEPOINT name`, `RELEASE name` prints
`RELEASE SAVEPOINT name`; transaction modes are printed with `, ` between them whether or not the source
had commas; `SET SESSION x = …` loses `SESSION`, `TO` prints `=`, `SET TIME ZONE = v` prints
`SET TIMEZONE = v`, `SET TIMEZONE v` prints `SET TIME ZONE v`; `SET … NAMES` prints the words `SET NAMES`
(modifier dropped, `NAMES` upper-cased although it is no keyword) and the charset / collation names through
`fmt_set_names_part`: a name that is one plain non-keyword word is written as it is (whatever quotes the source
had), any other name as a single-quoted string (`escape_single_quote_string`); `SET [LOCAL] CHARACTERISTICS AS TRANSACTION` prints
`SET SESSION CHARACTERISTICS AS TRANSACTION`; `DISCARD TEMPORARY` prints `DISCARD TEMP`; trailing commas of
the SET lists are dropped.
-/
namespace SqlVerif.Tcl
open SqlVerif.Pratt SqlVerif.Query SqlVerif.Dml SqlVerif.Ddl SqlVerif.Gen

-- ------------------------------------------------------------------ what the AST holds
def IsoLevel.name : IsoLevel → String
  | .readUncommitted => "iso-ru"
  | .readCommitted => "iso-rc"
  | .repeatableRead => "iso-rr"
  | .serializable => "iso-s"

def TMode.sexp : TMode → String
  | .iso _ l => l.name
  | .readOnly _ => "ro"
  | .readWrite _ => "rw"

def modesSexp (ms : Sep TMode) : String := "(modes" ++ sepSexp TMode.sexp ms ++ ")"

/-- the keyword of the first token, `dflt` when there is none -/
def headKwText (dflt : String) (toks : List Tok) : String :=
  match toks with
  | t :: _ => kwText t
  | [] => dflt

/-- `commit.chain` / `rollback.chain`: `AND CHAIN` (two tokens), not `AND NO CHAIN` -/
def isChain (ch : List Tok) : Bool := ch.length == 2

/-- `ContextModifier` -/
def ctxName (md : List Tok) : String :=
  if isLocal md then "local" else if md.any (fun t => t.isKw TK.SESSION) then "session" else "none"

def SetTarget.sexp : SetTarget → String
  | .one name => "(one " ++ nameSexp name ++ ")"
  | .timeZone _ => "(one (name (id " ++ hx (str "TIMEZONE") ++ " -)))"
  | .many _ ids _ => "(many" ++ sepSexp idSexp ids ++ ")"

/-- the `String` that `parse_literal_string` returns -/
def litValue : Tok → W
  | .word v _ _ => v
  | .sqs s => s
  | .dqs s => s
  | _ => []

def optLitSexp (toks : List Tok) : String :=
  match toks.getLast? with
  | some t => hx (litValue t)
  | none => "none"

def Stmt.sexp : Stmt → String
  | .startTx _ _ ms => "(starttx 0 none " ++ modesSexp ms ++ ")"
  | .begin _ md _ ms => "(starttx 1 " ++ headKwText "none" md ++ " " ++ modesSexp ms ++ ")"
  | .commit _ _ ch => "(commit " ++ b01 (isChain ch) ++ ")"
  | .rollback _ _ ch sp => "(rollback " ++ b01 (isChain ch) ++ " " ++ optIdSexp sp ++ ")"
  | .savepoint _ n => "(savepoint " ++ idSexp n ++ ")"
  | .release _ _ n => "(release " ++ idSexp n ++ ")"
  | .setRole _ md _ n => "(setrole " ++ ctxName md ++ " " ++ (if n.isKw TK.NONE then "none" else idSexp n) ++ ")"
  | .setVar _ md _ tg _ _ vs _ =>
    "(setvar " ++ b01 (isLocal md) ++ " " ++ b01 (isHivevar md) ++ " " ++ tg.sexp ++ " (values" ++ sepSexp Expr.sexp vs ++ "))"
  | .setTimeZone _ md _ _ e => "(settz " ++ b01 (isLocal md) ++ " " ++ e.sexp ++ ")"
  | .setNamesDefault _ _ _ _ _ => "(setnamesdefault)"
  | .setNames _ _ _ _ cs co => "(setnames " ++ hx (litValue cs) ++ " " ++ optLitSexp co ++ ")"
  | .setTx _ _ _ _ session ms => "(settx " ++ b01 session ++ " " ++ modesSexp ms ++ ")"
  | .useObj _ kind name => "(use " ++ headKwText "OBJECT" kind ++ " " ++ nameSexp name ++ ")"
  | .useDefault _ _ => "(use DEFAULT)"
  | .discard _ o => "(discard " ++ (if o.isKw TK.TEMPORARY then "TEMP" else kwText o) ++ ")"
  | .deallocate _ p n => "(deallocate " ++ b01 (!p.isEmpty) ++ " " ++ idSexp n ++ ")"
  | .close _ w => "(close " ++ (if w.isKw TK.ALL then "all" else idSexp w) ++ ")"
  | .assert _ e _ m => "(assert " ++ e.sexp ++ " " ++ optExprSexp m ++ ")"
  | .ddl s => s.sexp

-- ------------------------------------------------------------------ Display
def IsoLevel.pieces : IsoLevel → List Piece
  | .readUncommitted => [kwP true "READ", kwP true "UNCOMMITTED"]
  | .readCommitted => [kwP true "READ", kwP true "COMMITTED"]
  | .repeatableRead => [kwP true "REPEATABLE", kwP true "READ"]
  | .serializable => [kwP true "SERIALIZABLE"]

/-- `Display for TransactionMode`; first piece without a blank -/
def TMode.pieces : TMode → List Piece
  | .iso _ l => [kwP false "ISOLATION", kwP true "LEVEL"] ++ l.pieces
  | .readOnly _ => [kwP false "READ", kwP true "ONLY"]
  | .readWrite _ => [kwP false "READ", kwP true "WRITE"]

/-- ` {display_comma_separated(modes)}` when there are modes -/
def modesPieces (ms : Sep TMode) : List Piece := spaced (sepPieces TMode.pieces ms)

/-- ` AND CHAIN` -/
def chainPieces (ch : List Tok) : List Piece := if isChain ch then [kwP true "AND", kwP true "CHAIN"] else []

/-- ` TO SAVEPOINT name` -/
def savepointPieces (sp : List Tok) : List Piece :=
  match sp.getLast? with
  | some n => [kwP true "TO", kwP true "SAVEPOINT", idPiece true n]
  | none => []

/-- `Display for ContextModifier` -/
def ctxPieces (md : List Tok) : List Piece :=
  if isLocal md then [kwP true "LOCAL"] else if md.any (fun t => t.isKw TK.SESSION) then [kwP true "SESSION"] else []

/-- `LOCAL ` of `SetVariable` / `SetTimeZone` -/
def localPieces (md : List Tok) : List Piece := if isLocal md then [kwP true "LOCAL"] else []

/-- `Display for OneOrManyWithParens<ObjectName>`; first piece without a blank -/
def SetTarget.pieces : SetTarget → List Piece
  | .one name => namePieces name
  | .timeZone _ => [kwP false "TIMEZONE"]
  | .many _ ids _ => [symP false .LParen] ++ glued (sepPieces (fun t => [idPiece false t]) ids) ++ [symP false .RParen]

/-- a word that `Display` writes in upper case although it is no keyword (`NAMES`, `CHARACTERISTICS`) -/
def plainWordP (sp : Bool) (name : String) : Piece := ⟨sp, .word (str name) none none, some (str name)⟩

/-- ASCII letter or `_` (`c.is_ascii_alphabetic() || c == '_'`) -/
def isNameStart (c : Nat) : Bool := (65 ≤ c && c ≤ 90) || (97 ≤ c && c ≤ 122) || c == 95

/-- ASCII letter, digit or `_` (`c.is_ascii_alphanumeric() || c == '_'`) -/
def isNameChar (c : Nat) : Bool := isNameStart c || (48 ≤ c && c ≤ 57)

/-- the test of `fmt_set_names_part`: the name is ONE plain word (an ASCII letter or `_`, then ASCII letters,
digits, `_`) that is no keyword (`ALL_KEYWORDS.binary_search(&name.to_ascii_uppercase())` fails) -/
def plainName (v : W) : Bool :=
  match v with
  | [] => false
  | c :: r => isNameStart c && r.all isNameChar && (kwLookup v).isNone

/-- `fmt_set_names_part(f, name)` on the `String` the parser kept of the token (`litValue`): a plain name is
written as it is (it lexes as one unquoted non-keyword word), anything else as a single-quoted string through
`escape_single_quote_string` -/
def namesPartPiece (sp : Bool) (t : Tok) : Piece :=
  if plainName (litValue t) then ⟨sp, .word (litValue t) none none, some (litValue t)⟩
  else ⟨sp, .sqs (litValue t), some ([39] ++ SqlVerif.Escape.escapeQ 39 (litValue t) ++ [39])⟩

/-- ` COLLATE collation` -/
def collatePieces (co : List Tok) : List Piece :=
  match co.getLast? with
  | some t => [kwP true "COLLATE", namesPartPiece true t]
  | none => []

def setVarPieces (md : List Tok) (tg : SetTarget) (vs : Sep Expr) : List Piece :=
  [kwP false "SET"] ++ localPieces md ++
    (if isHivevar md then [kwP true "HIVEVAR", symP false .Colon] ++ glued tg.pieces else spaced tg.pieces) ++
    [symP true .Eq] ++
    (if tg.isMany then [symP true .LParen] ++ glued (sepPieces Expr.pieces vs) ++ [symP false .RParen]
     else spaced (sepPieces Expr.pieces vs))

def setTxPieces (session : Bool) (ms : Sep TMode) : List Piece :=
  (if session then
      [kwP false "SET", kwP true "SESSION", plainWordP true "CHARACTERISTICS", kwP true "AS", kwP true "TRANSACTION"]
    else [kwP false "SET", kwP true "TRANSACTION"]) ++ modesPieces ms

def assertMsgPieces : Option Expr → List Piece
  | some m => [kwP true "AS"] ++ spaced m.pieces
  | none => []

def Stmt.pieces : Stmt → List Piece
  | .startTx _ _ ms => [kwP false "START", kwP true "TRANSACTION"] ++ modesPieces ms
  | .begin _ md _ ms => [kwP false "BEGIN"] ++ md.map (kwTokP true) ++ [kwP true "TRANSACTION"] ++ modesPieces ms
  | .commit _ _ ch => [kwP false "COMMIT"] ++ chainPieces ch
  | .rollback _ _ ch sp => [kwP false "ROLLBACK"] ++ chainPieces ch ++ savepointPieces sp
  | .savepoint _ n => [kwP false "SAVEPOINT", idPiece true n]
  | .release _ _ n => [kwP false "RELEASE", kwP true "SAVEPOINT", idPiece true n]
  | .setRole _ md _ n =>
    [kwP false "SET"] ++ ctxPieces md ++ [kwP true "ROLE", if n.isKw TK.NONE then kwP true "NONE" else idPiece true n]
  | .setVar _ md _ tg _ _ vs _ => setVarPieces md tg vs
  | .setTimeZone _ md _ _ e => [kwP false "SET"] ++ localPieces md ++ [kwP true "TIME", kwP true "ZONE"] ++ spaced e.pieces
  | .setNamesDefault _ _ _ _ _ => [kwP false "SET", plainWordP true "NAMES", kwP true "DEFAULT"]
  | .setNames _ _ _ _ cs co => [kwP false "SET", plainWordP true "NAMES", namesPartPiece true cs] ++ collatePieces co
  | .setTx _ _ _ _ session ms => setTxPieces session ms
  | .useObj _ kind name => [kwP false "USE"] ++ kind.map (kwTokP true) ++ spaced (namePieces name)
  | .useDefault _ _ => [kwP false "USE", kwP true "DEFAULT"]
  | .discard _ o => [kwP false "DISCARD", if o.isKw TK.TEMPORARY then kwP true "TEMP" else kwTokP true o]
  | .deallocate _ p n => [kwP false "DEALLOCATE"] ++ (if p.isEmpty then [] else [kwP true "PREPARE"]) ++ [idPiece true n]
  | .close _ w => [kwP false "CLOSE", if w.isKw TK.ALL then kwP true "ALL" else idPiece true w]
  | .assert _ e _ m => [kwP false "ASSERT"] ++ spaced e.pieces ++ assertMsgPieces m
  | .ddl s => s.pieces

/-- the printed token list of a statement -/
def Stmt.showToks (s : Stmt) : List Tok := s.pieces.map (·.tok)

/-- `to_string()`; `none` where `Display` panics or the statement holds something outside the printable fragment -/
def Stmt.showText (s : Stmt) : Option W := joinPieces s.pieces

end SqlVerif.Tcl

import SqlVerif.Model.Tok
import SqlVerif.Model.Escape
/-!
Model of data-type printing and parsing (property C18).

* `DT` mirrors `enum DataType` of `src/ast/data_type.rs` (constructors grouped by shape; every
  real constructor is representable and distinguished; `ArrayElemTypeDef` is flattened into four
  constructors; `StructField` / `UnionField` / `ColumnDef` lists are the mutual type `Fields`;
  a `ColumnDef` of `Nested` is restricted to name + type: no collation, no options).
* `pre` is the token sequence of `Display for DataType` BEFORE the lexer merges adjacent `>` `>`;
  `retok` is that merge (greedy, left to right, exactly `Tokenizer::next_token` on `>`), and
  `printDT = retok ∘ pre`.  TOKEN-LEVEL choice: nothing of the tokenizer model is reused.  Payload
  texts (identifiers, labels, time zones) are printed as the token the lexer gives back for the
  well-behaved payloads (C06's predicates); custom-type modifiers are stored as SQL text (a word's
  `Display`, a number's text, a string literal's spelling `sqSpell`) and printed verbatim, i.e.
  through the parameter `Env.lexMod` (the real tokens of the modifier text travel with each
  request).
* `parseHelper` mirrors `Parser::parse_data_type_helper` branch by branch in source order, with
  the recursion guard (`depth`), the `MatchedTrailingBracket` bookkeeping (`Bool` component) and
  the `dialect_of!` tests (`Cfg`, built from the dialect's name); `parseDataType` is
  `Parser::parse_data_type`.
* the lists inside a type: the field lists of `UNION(..)` / `Nested(..)` / DuckDB `STRUCT(..)`
  (`namedLoop`, `nestedLoop`, end test `commaEnd`) and the label list of `ENUM(..)` / `SET(..)`
  (`parse_string_values` = `stringValues` / `strVals`, end test `afterCommaEnds`) are
  `parse_comma_separated` lists and follow `ParserOptions::trailing_commas` (`Cfg.trailingCommas`);
  `Props/C13Types.lean` proves `strVals` equal to `Lists.commaSep` of `Model/Lists.lean`.  The field
  loops of `STRUCT<..>` and `Tuple(..)` are ad-hoc loops of the parser (`structLoop`, `tupleLoop`).
-/
set_option linter.constructorNameAsVariable false
namespace SqlVerif.DTy
open SqlVerif.Pratt (W Sym str wordDisplay)

-- ------------------------------------------------------------------ tokens
/-- `Keyword` restricted to what the data-type grammar discriminates on.
`colOpt`: a keyword that can start a column option / constraint / COLLATE (`parse_column_def`);
`otherRca`: any other member of `RESERVED_FOR_COLUMN_ALIAS`; `other`: any other keyword;
`noKw`: `Keyword::NoKeyword` (also every quoted word). -/
inductive DKw
  | BOOLEAN | BOOL | FLOAT | REAL | FLOAT4 | FLOAT32 | FLOAT64 | FLOAT8 | DOUBLE | TINYINT | INT2
  | SMALLINT | MEDIUMINT | INT | INT4 | INT8 | INT16 | INT32 | INT64 | INT128 | INT256 | INTEGER
  | BIGINT | UINT8 | UINT16 | UINT32 | UINT64 | UINT128 | UINT256 | VARCHAR | NVARCHAR | CHARACTER
  | CHAR | CLOB | BINARY | VARBINARY | BLOB | BYTES | UUID | DATE | DATE32 | DATETIME | DATETIME64
  | TIMESTAMP | TIMESTAMPTZ | TIME | TIMETZ | INTERVAL | JSON | JSONB | REGCLASS | STRING
  | FIXEDSTRING | TEXT | BYTEA | NUMERIC | DECIMAL | DEC | BIGNUMERIC | BIGDECIMAL | ENUM | SET
  | ARRAY | STRUCT | UNION | NULLABLE | LOWCARDINALITY | MAP | NESTED | TUPLE | TRIGGER
  | PRECISION | VARYING | LARGE | OBJECT | UNSIGNED | WITH | WITHOUT | ZONE | MAX | CHARACTERS
  | OCTETS
  | colOpt | otherRca | other | noKw
deriving DecidableEq, Repr

/-- membership in `keywords::RESERVED_FOR_COLUMN_ALIAS` -/
def DKw.rca : DKw → Bool
  | .WITH | .UNION | .otherRca => true
  | _ => false

inductive Tok
  | word (value : W) (quote : Option Nat) (kw : DKw)
  | number (s : W) (long : Bool)
  | sqs (s : W)
  | dqs (s : W)
  | escs (s : W)
  | unis (s : W)
  | sym (s : Sym)
  | customOp (s : W)
  /-- any other token; its `Display` text when the driver knows it -/
  | other (disp : Option W)
deriving DecidableEq, Repr

def Tok.isSym (t : Tok) (s : Sym) : Bool :=
  match t with
  | .sym x => x == s
  | _ => false

def Tok.isWord : Tok → Bool
  | .word _ _ _ => true
  | _ => false

/-- `Display for Token` (`none`: panics or unknown to the model) -/
def Tok.display : Tok → Option W
  | .word v q _ => wordDisplay v q
  | .number s l => some (s ++ (if l then [76] else []))
  | .sqs s => some ([39] ++ s ++ [39])
  | .dqs s => some ([34] ++ s ++ [34])
  | .escs s => some ([69, 39] ++ s ++ [39])
  | .unis s => some ([85, 38, 39] ++ s ++ [39])
  | .sym s => some (str s.display)
  | .customOp s => some s
  | .other d => d

inductive Err
  | rle
  /-- `self.expected(what, found)`; `found = none` is EOF -/
  | expected (what : W) (found : Option Tok)
  /-- `Parser::parse::<u64>` failed: 0 = invalid digit, 1 = too large, 2 = empty -/
  | badU64 (s : W) (kind : Nat)
  /-- "unmatched > after parsing data type …" -/
  | unmatchedDT
  /-- "unmatched > in STRUCT definition" -/
  | unmatchedStruct
  | unsupported
  | fuel
deriving DecidableEq, Repr

-- ------------------------------------------------------------------ dialect
/-- what the data-type parser consults of a dialect -/
structure Cfg where
  isGeneric : Bool
  isBigQuery : Bool
  isClickHouse : Bool
  isDuckDb : Bool
  isPostgres : Bool
  isSnowflake : Bool
  /-- `ParserOptions::trailing_commas` (`Parser::new`: `supports_trailing_commas`) -/
  trailingCommas : Bool
  /-- the lexer reads `"a"` as a delimited identifier (printing only) -/
  dqWord : Bool
  /-- the lexer reads `[a]` as a delimited identifier, so `t[3]` lexes as `t` + word (printing only) -/
  lbWord : Bool
deriving DecidableEq, Repr

/-- printing parameters: `make_word`'s keyword class of an unquoted word, and the real tokens
(whitespace dropped) of a raw custom-type modifier text (the driver refuses a value one of whose
modifiers does not lex on its own) -/
structure Env where
  kwOf : W → DKw
  lexMod : W → List Tok

-- ------------------------------------------------------------------ the AST
inductive SimpleKind
  | uuid | int16 | int32 | int64 | int128 | int256 | uint8 | uint16 | uint32 | uint64 | uint128
  | uint256 | float4 | float32 | float64 | real | float8 | double | doublePrecision | bool
  | boolean | date | date32 | interval | json | jsonb | regclass | text | bytea | unspecified
  | trigger
deriving DecidableEq, Repr

/-- `T(Option<u64>)` printed by `format_type_with_optional_length(.., false)` -/
inductive LenKind
  | characterLargeObject | charLargeObject | clob | binary | varbinary | blob | bytes | float
  | datetime | string
deriving DecidableEq, Repr

/-- integer types with display width; `unsigned` selects the `Unsigned…` constructor -/
inductive IntKind
  | tinyInt | int2 | smallInt | mediumInt | int | int4 | int8 | integer | bigInt
deriving DecidableEq, Repr

inductive CharKind
  | character | char | characterVarying | charVarying | varchar | nvarchar
deriving DecidableEq, Repr

inductive NumKind
  | numeric | decimal | bigNumeric | bigDecimal | dec
deriving DecidableEq, Repr

inductive TimeKind
  | time | timestamp
deriving DecidableEq, Repr

inductive TzInfo
  | none | withTz | withoutTz | tz
deriving DecidableEq, Repr

inductive CharUnit
  | characters | octets
deriving DecidableEq, Repr

inductive CharLen
  | int (n : Nat) (unit : Option CharUnit)
  | max
deriving DecidableEq, Repr

inductive NumInfo
  | none
  | prec (p : Nat)
  | precScale (p s : Nat)
deriving DecidableEq, Repr

inductive Bracket
  | paren | angle
deriving DecidableEq, Repr

structure Ident where
  value : W
  quote : Option Nat
deriving DecidableEq, Repr

mutual
inductive DT
  | simple (k : SimpleKind)
  | withLen (k : LenKind) (len : Option Nat)
  | int (k : IntKind) (len : Option Nat) (unsigned : Bool)
  | charLike (k : CharKind) (len : Option CharLen)
  | exactNum (k : NumKind) (info : NumInfo)
  | time (k : TimeKind) (prec : Option Nat) (tz : TzInfo)
  | datetime64 (prec : Nat) (tz : Option W)
  | fixedString (n : Nat)
  | custom (name : List Ident) (mods : List W)
  | enum (labels : List W)
  | set (labels : List W)
  /-- `Array(ArrayElemTypeDef::None)` -/
  | arrayNone
  /-- `Array(AngleBracket(t))` -/
  | arrayAngle (t : DT)
  /-- `Array(SquareBracket(t, size))` -/
  | arraySquare (t : DT) (size : Option Nat)
  /-- `Array(Parenthesis(t))` -/
  | arrayParen (t : DT)
  | map (k v : DT)
  | tuple (fs : Fields)
  /-- `Nested(Vec<ColumnDef>)`, columns restricted to name + type (names are `some`) -/
  | nested (fs : Fields)
  | struct (fs : Fields) (b : Bracket)
  /-- `Union(Vec<UnionField>)` (names are `some`) -/
  | union (fs : Fields)
  | nullable (t : DT)
  | lowCardinality (t : DT)
inductive Fields
  | nil
  | cons (name : Option Ident) (ty : DT) (rest : Fields)
end

-- ------------------------------------------------------------------ numbers
/-- decimal digits of `n` (`Display for u64`) -/
def digitsAux : Nat → Nat → W
  | 0, n => [48 + n]
  | fuel + 1, n => if n < 10 then [48 + n] else digitsAux fuel (n / 10) ++ [48 + n % 10]

def digits (n : Nat) : W := digitsAux n n

def u64Max : Nat := 18446744073709551615

/-- one step of `u64::from_str`: invalid digit is detected before the overflow of this step -/
def u64Step (acc : Except Nat Nat) (ch : Nat) : Except Nat Nat :=
  match acc with
  | .error e => .error e
  | .ok a =>
    if 48 ≤ ch ∧ ch ≤ 57 then
      let v := a * 10 + (ch - 48)
      if v ≤ u64Max then .ok v else .error 1
    else .error 0

/-- `s.parse::<u64>()` on a `Token::Number` payload -/
def parseU64 (s : W) : Except Err Nat :=
  if s.isEmpty then .error (.badU64 s 2) else
  match s.foldl u64Step (.ok 0) with
  | .ok n => .ok n
  | .error k => .error (.badU64 s k)

-- ------------------------------------------------------------------ printing (pre-tokens)
def kwTok (s : String) (k : DKw) : Tok := .word (str s) none k

def numTok (n : Nat) : Tok := .number (digits n) false

def LParen : Tok := .sym .LParen
def RParen : Tok := .sym .RParen
def Comma : Tok := .sym .Comma
def GtT : Tok := .sym .Gt
def LtT : Tok := .sym .Lt
def ShrT : Tok := .sym .ShiftRight

/-- token of `Display for Ident` under the dialect -/
def identTok (c : Cfg) (env : Env) (i : Ident) : Tok :=
  match i.quote with
  | none => .word i.value none (env.kwOf i.value)
  | some q =>
    if q = 39 then .sqs i.value
    else if q = 34 ∧ ¬ c.dqWord then .dqs i.value
    else .word i.value (some q) .noKw

def SimpleKind.toks : SimpleKind → List Tok
  | .uuid => [kwTok "UUID" .UUID]
  | .int16 => [kwTok "Int16" .INT16]
  | .int32 => [kwTok "Int32" .INT32]
  | .int64 => [kwTok "INT64" .INT64]
  | .int128 => [kwTok "Int128" .INT128]
  | .int256 => [kwTok "Int256" .INT256]
  | .uint8 => [kwTok "UInt8" .UINT8]
  | .uint16 => [kwTok "UInt16" .UINT16]
  | .uint32 => [kwTok "UInt32" .UINT32]
  | .uint64 => [kwTok "UInt64" .UINT64]
  | .uint128 => [kwTok "UInt128" .UINT128]
  | .uint256 => [kwTok "UInt256" .UINT256]
  | .float4 => [kwTok "FLOAT4" .FLOAT4]
  | .float32 => [kwTok "Float32" .FLOAT32]
  | .float64 => [kwTok "FLOAT64" .FLOAT64]
  | .real => [kwTok "REAL" .REAL]
  | .float8 => [kwTok "FLOAT8" .FLOAT8]
  | .double => [kwTok "DOUBLE" .DOUBLE]
  | .doublePrecision => [kwTok "DOUBLE" .DOUBLE, kwTok "PRECISION" .PRECISION]
  | .bool => [kwTok "BOOL" .BOOL]
  | .boolean => [kwTok "BOOLEAN" .BOOLEAN]
  | .date => [kwTok "DATE" .DATE]
  | .date32 => [kwTok "Date32" .DATE32]
  | .interval => [kwTok "INTERVAL" .INTERVAL]
  | .json => [kwTok "JSON" .JSON]
  | .jsonb => [kwTok "JSONB" .JSONB]
  | .regclass => [kwTok "REGCLASS" .REGCLASS]
  | .text => [kwTok "TEXT" .TEXT]
  | .bytea => [kwTok "BYTEA" .BYTEA]
  | .unspecified => []
  | .trigger => [kwTok "TRIGGER" .TRIGGER]

def LenKind.toks : LenKind → List Tok
  | .characterLargeObject => [kwTok "CHARACTER" .CHARACTER, kwTok "LARGE" .LARGE, kwTok "OBJECT" .OBJECT]
  | .charLargeObject => [kwTok "CHAR" .CHAR, kwTok "LARGE" .LARGE, kwTok "OBJECT" .OBJECT]
  | .clob => [kwTok "CLOB" .CLOB]
  | .binary => [kwTok "BINARY" .BINARY]
  | .varbinary => [kwTok "VARBINARY" .VARBINARY]
  | .blob => [kwTok "BLOB" .BLOB]
  | .bytes => [kwTok "BYTES" .BYTES]
  | .float => [kwTok "FLOAT" .FLOAT]
  | .datetime => [kwTok "DATETIME" .DATETIME]
  | .string => [kwTok "STRING" .STRING]

def IntKind.tok : IntKind → Tok
  | .tinyInt => kwTok "TINYINT" .TINYINT
  | .int2 => kwTok "INT2" .INT2
  | .smallInt => kwTok "SMALLINT" .SMALLINT
  | .mediumInt => kwTok "MEDIUMINT" .MEDIUMINT
  | .int => kwTok "INT" .INT
  | .int4 => kwTok "INT4" .INT4
  | .int8 => kwTok "INT8" .INT8
  | .integer => kwTok "INTEGER" .INTEGER
  | .bigInt => kwTok "BIGINT" .BIGINT

def CharKind.toks : CharKind → List Tok
  | .character => [kwTok "CHARACTER" .CHARACTER]
  | .char => [kwTok "CHAR" .CHAR]
  | .characterVarying => [kwTok "CHARACTER" .CHARACTER, kwTok "VARYING" .VARYING]
  | .charVarying => [kwTok "CHAR" .CHAR, kwTok "VARYING" .VARYING]
  | .varchar => [kwTok "VARCHAR" .VARCHAR]
  | .nvarchar => [kwTok "NVARCHAR" .NVARCHAR]

def NumKind.tok : NumKind → Tok
  | .numeric => kwTok "NUMERIC" .NUMERIC
  | .decimal => kwTok "DECIMAL" .DECIMAL
  | .bigNumeric => kwTok "BIGNUMERIC" .BIGNUMERIC
  | .bigDecimal => kwTok "BIGDECIMAL" .BIGDECIMAL
  | .dec => kwTok "DEC" .DEC

/-- `(len)` of `format_type_with_optional_length` -/
def optLenToks : Option Nat → List Tok
  | none => []
  | some n => [LParen, numTok n, RParen]

def CharUnit.tok : CharUnit → Tok
  | .characters => kwTok "CHARACTERS" .CHARACTERS
  | .octets => kwTok "OCTETS" .OCTETS

def charLenToks : Option CharLen → List Tok
  | none => []
  | some .max => [LParen, kwTok "MAX" .MAX, RParen]
  | some (.int n none) => [LParen, numTok n, RParen]
  | some (.int n (some u)) => [LParen, numTok n, u.tok, RParen]

def numInfoToks : NumInfo → List Tok
  | .none => []
  | .prec p => [LParen, numTok p, RParen]
  | .precScale p s => [LParen, numTok p, Comma, numTok s, RParen]

def tzWords : TzInfo → List Tok
  | .withTz => [kwTok "WITH" .WITH, kwTok "TIME" .TIME, kwTok "ZONE" .ZONE]
  | .withoutTz => [kwTok "WITHOUT" .WITHOUT, kwTok "TIME" .TIME, kwTok "ZONE" .ZONE]
  | _ => []

/-- `format_datetime_precision_and_tz` (`TZ` glues to the type name: `TIMETZ`, `TIMESTAMPTZ`) -/
def timeToks (k : TimeKind) (p : Option Nat) (tz : TzInfo) : List Tok :=
  match tz, k with
  | .tz, .time => kwTok "TIMETZ" .TIMETZ :: optLenToks p
  | .tz, .timestamp => kwTok "TIMESTAMPTZ" .TIMESTAMPTZ :: optLenToks p
  | _, .time => kwTok "TIME" .TIME :: (optLenToks p ++ tzWords tz)
  | _, .timestamp => kwTok "TIMESTAMP" .TIMESTAMP :: (optLenToks p ++ tzWords tz)

def intersperse (sep : Tok) : List (List Tok) → List Tok
  | [] => []
  | [x] => x
  | x :: y :: r => x ++ sep :: intersperse sep (y :: r)

def nameToks (c : Cfg) (env : Env) (name : List Ident) : List Tok :=
  intersperse (.sym .Period) (name.map fun i => [identTok c env i])

/-- the `[size]` suffix of `SquareBracket`; where `[` opens a delimited identifier the lexer
reads it as one quoted word -/
def sqToks (c : Cfg) (sz : Option Nat) : List Tok :=
  if c.lbWord then [.word (match sz with | none => [] | some n => digits n) (some 91) .noKw]
  else match sz with
    | none => [.sym .LBracket, .sym .RBracket]
    | some n => [.sym .LBracket, numTok n, .sym .RBracket]

/-- the optional field name of a `StructField` / the name of a `UnionField` or column -/
def nameTok (c : Cfg) (env : Env) : Option Ident → List Tok
  | none => []
  | some i => [identTok c env i]

def labelsToks (ls : List W) : List Tok :=
  intersperse Comma (ls.map fun l => [Tok.sqs l])

mutual
/-- tokens of `Display for DataType`, closing angle brackets still separate -/
def pre (c : Cfg) (env : Env) : DT → List Tok
  | .simple k => k.toks
  | .withLen k l => k.toks ++ optLenToks l
  | .int k l u => k.tok :: (optLenToks l ++ (if u then [kwTok "UNSIGNED" .UNSIGNED] else []))
  | .charLike k l => k.toks ++ charLenToks l
  | .exactNum k i => k.tok :: numInfoToks i
  | .time k p z => timeToks k p z
  | .datetime64 p z =>
    [kwTok "DateTime64" .DATETIME64, LParen, numTok p] ++
      (match z with | none => [] | some x => [Comma, Tok.sqs x]) ++ [RParen]
  | .fixedString n => [kwTok "FixedString" .FIXEDSTRING, LParen, numTok n, RParen]
  | .custom name mods =>
    if mods.isEmpty then nameToks c env name
    else nameToks c env name ++ LParen :: (intersperse Comma (mods.map env.lexMod) ++ [RParen])
  | .enum ls => kwTok "ENUM" .ENUM :: LParen :: (labelsToks ls ++ [RParen])
  | .set ls => kwTok "SET" .SET :: LParen :: (labelsToks ls ++ [RParen])
  | .arrayNone => [kwTok "ARRAY" .ARRAY]
  | .arrayAngle t => kwTok "ARRAY" .ARRAY :: LtT :: (pre c env t ++ [GtT])
  | .arraySquare t sz => pre c env t ++ sqToks c sz
  | .arrayParen t => kwTok "Array" .ARRAY :: LParen :: (pre c env t ++ [RParen])
  | .map k v => kwTok "Map" .MAP :: LParen :: (pre c env k ++ Comma :: (pre c env v ++ [RParen]))
  | .tuple fs => kwTok "Tuple" .TUPLE :: LParen :: (preFields c env fs ++ [RParen])
  | .nested fs => kwTok "Nested" .NESTED :: LParen :: (preFields c env fs ++ [RParen])
  | .struct fs b =>
    match fs with
    | .nil => [kwTok "STRUCT" .STRUCT]
    | .cons n t r =>
      match b with
      | .paren => kwTok "STRUCT" .STRUCT :: LParen :: (preFields c env (.cons n t r) ++ [RParen])
      | .angle => kwTok "STRUCT" .STRUCT :: LtT :: (preFields c env (.cons n t r) ++ [GtT])
  | .union fs => kwTok "UNION" .UNION :: LParen :: (preFields c env fs ++ [RParen])
  | .nullable t => kwTok "Nullable" .NULLABLE :: LParen :: (pre c env t ++ [RParen])
  | .lowCardinality t => kwTok "LowCardinality" .LOWCARDINALITY :: LParen :: (pre c env t ++ [RParen])
/-- `display_comma_separated` of `[name] type` items -/
def preFields (c : Cfg) (env : Env) : Fields → List Tok
  | .nil => []
  | .cons n t .nil => nameTok c env n ++ pre c env t
  | .cons n t (.cons n2 t2 r) => nameTok c env n ++ pre c env t ++ Comma :: preFields c env (.cons n2 t2 r)
end

/-- the tokens the lexer makes of a run of `n` adjacent `>`: pairs become `ShiftRight` greedily from
the left; where `>` is a custom-operator character (PostgreSQL) a run of three or more is ONE
custom operator.  `gtOp` = `is_custom_operator_part('>')` of the dialect. -/
def run (gtOp : Bool) (n : Nat) : List Tok :=
  if gtOp && 3 ≤ n then [.customOp (List.replicate n 62)]
  else List.replicate (n / 2) ShrT ++ (if n % 2 = 1 then [GtT] else [])

/-- the lexer on the closing angle brackets of a printed type; `n` = length of the run of `>`
read so far -/
def retokGo (gtOp : Bool) : Nat → List Tok → List Tok
  | n, [] => run gtOp n
  | n, x :: r => if x = GtT then retokGo gtOp (n + 1) r else run gtOp n ++ x :: retokGo gtOp 0 r

def retok (gtOp : Bool) (ts : List Tok) : List Tok := retokGo gtOp 0 ts

/-- the non-whitespace tokens the lexer produces on `to_string()` of the type -/
def printDT (c : Cfg) (env : Env) (gtOp : Bool) (t : DT) : List Tok := retok gtOp (pre c env t)

-- ------------------------------------------------------------------ parsing: leaves

def expectedAt {α : Type} (what : String) (ts : List Tok) : Except Err α :=
  .error (.expected (str what) ts.head?)

/-- `expect_token(&sym)` -/
def expectSym (s : Sym) (ts : List Tok) : Except Err (List Tok) :=
  match ts with
  | t :: r => if t.isSym s then .ok r else expectedAt s.display ts
  | [] => expectedAt s.display ts

/-- `consume_token(&sym)` -/
def consumeSym (s : Sym) (ts : List Tok) : Option (List Tok) :=
  match ts with
  | t :: r => if t.isSym s then some r else none
  | [] => none

def peekKw (ts : List Tok) (k : DKw) : Bool :=
  match ts with
  | .word _ _ kw :: _ => kw == k
  | _ => false

/-- `expect_keyword(k)`; `name` = `format!("{:?}", k)` -/
def expectKw (k : DKw) (name : String) (ts : List Tok) : Except Err (List Tok) :=
  if peekKw ts k then .ok ts.tail else expectedAt name ts

/-- `parse_literal_uint` -/
def literalUint (ts : List Tok) : Except Err (Nat × List Tok) :=
  match ts with
  | .number s _ :: r => do let n ← parseU64 s; pure (n, r)
  | _ => expectedAt "literal int" ts

/-- `parse_optional_precision` -/
def optPrecision (ts : List Tok) : Except Err (Option Nat × List Tok) :=
  match consumeSym .LParen ts with
  | some r => do
    let (n, r1) ← literalUint r
    let r2 ← expectSym .RParen r1
    pure (some n, r2)
  | none => pure (none, ts)

/-- `parse_optional_character_length` / `parse_character_length` -/
def optCharLen (ts : List Tok) : Except Err (Option CharLen × List Tok) :=
  match consumeSym .LParen ts with
  | some r =>
    if peekKw r .MAX then do
      let r2 ← expectSym .RParen r.tail
      pure (some .max, r2)
    else do
      let (n, r1) ← literalUint r
      let (u, r2) : Option CharUnit × List Tok :=
        if peekKw r1 .CHARACTERS then (some .characters, r1.tail)
        else if peekKw r1 .OCTETS then (some .octets, r1.tail)
        else (none, r1)
      let r3 ← expectSym .RParen r2
      pure (some (.int n u), r3)
  | none => pure (none, ts)

/-- `parse_exact_number_optional_precision_scale` -/
def optNumInfo (ts : List Tok) : Except Err (NumInfo × List Tok) :=
  match consumeSym .LParen ts with
  | some r => do
    let (p, r1) ← literalUint r
    match consumeSym .Comma r1 with
    | some r2 => do
      let (s, r3) ← literalUint r2
      let r4 ← expectSym .RParen r3
      pure (.precScale p s, r4)
    | none => do
      let r4 ← expectSym .RParen r1
      pure (.prec p, r4)
  | none => pure (.none, ts)

/-- the `WITH TIME ZONE` / `WITHOUT TIME ZONE` tail of `TIME` and `TIMESTAMP` -/
def optTz (ts : List Tok) : Except Err (TzInfo × List Tok) :=
  if peekKw ts .WITH then do
    let r1 ← expectKw .TIME "TIME" ts.tail
    let r2 ← expectKw .ZONE "ZONE" r1
    pure (.withTz, r2)
  else if peekKw ts .WITHOUT then do
    let r1 ← expectKw .TIME "TIME" ts.tail
    let r2 ← expectKw .ZONE "ZONE" r1
    pure (.withoutTz, r2)
  else pure (.none, ts)

/-- `parse_literal_string` -/
def literalString (c : Cfg) (ts : List Tok) : Except Err (W × List Tok) :=
  match ts with
  | .word v _ .noKw :: r => pure (v, r)
  | .sqs s :: r => pure (s, r)
  | .dqs s :: r => pure (s, r)
  | .escs s :: r => if c.isPostgres || c.isGeneric then pure (s, r) else expectedAt "literal string" ts
  | .unis s :: r => pure (s, r)
  | _ => expectedAt "literal string" ts

/-- the peeked token after a consumed comma ends a `parse_comma_separated` list: the option is on and
the token is a closer, `;`, EOF or a word of `RESERVED_FOR_COLUMN_ALIAS` (`is_parse_comma_separated_end`) -/
def afterCommaEnds (tc : Bool) : List Tok → Bool
  | [] => tc
  | .word _ _ kw :: _ => tc && kw.rca
  | .sym .RParen :: _ | .sym .SemiColon :: _ | .sym .RBracket :: _ | .sym .RBrace :: _ => tc
  | _ => false

/-- `parse_comma_separated(|p| match p.next_token() { SingleQuotedString(v) => Ok(v), _ => expected("a string") })`:
the label list of `parse_string_values` between the parentheses.  After a label,
`is_parse_comma_separated_end`: no comma = the list ends; a comma is consumed, and the list ends
behind it when `afterCommaEnds` -/
def strVals (c : Cfg) : List Tok → Except Err (List W × List Tok)
  | .sqs v :: .sym .Comma :: r =>
    if afterCommaEnds c.trailingCommas r then pure ([v], r)
    else do
      let (vs, r') ← strVals c r
      pure (v :: vs, r')
  | .sqs v :: r => pure ([v], r)
  | ts => expectedAt "a string" ts

/-- `parse_string_values`: `(`, the `parse_comma_separated` label list, `)` -/
def stringValues (c : Cfg) (ts : List Tok) : Except Err (List W × List Tok) := do
  let r ← expectSym .LParen ts
  let (vs, r1) ← strVals c r
  let r2 ← expectSym .RParen r1
  pure (vs, r2)

/-- `parse_identifier(false)` -/
def parseIdent (ts : List Tok) : Except Err (Ident × List Tok) :=
  match ts with
  | .word v q _ :: r => pure ({ value := v, quote := q }, r)
  | .sqs s :: r => pure ({ value := s, quote := some 39 }, r)
  | .dqs s :: r => pure ({ value := s, quote := some 34 }, r)
  | _ => expectedAt "identifier" ts

/-- the loop of `parse_object_name` -/
def objName : List Tok → Except Err (List Ident × List Tok)
  | [] => expectedAt "identifier" []
  | t :: r =>
    match parseIdent [t] with
    | .error _ => expectedAt "identifier" (t :: r)
    | .ok (i, _) =>
      match r with
      | .sym .Period :: r' => do
        let (is, r'') ← objName r'
        pure (i :: is, r'')
      | _ => pure ([i], r)

def splitOnDot (w : W) : List W :=
  (w.foldr (fun ch (acc : W × List W) => if ch = 46 then ([], acc.1 :: acc.2) else (ch :: acc.1, acc.2))
    ([], [])) |> fun p => p.1 :: p.2

/-- the BigQuery post-processing of `parse_object_name` -/
def bqSplit (c : Cfg) (is : List Ident) : List Ident :=
  if c.isBigQuery && is.any (fun i => i.value.contains 46) then
    is.flatMap fun i => (splitOnDot i.value).map fun v => { value := v, quote := i.quote }
  else is

/-- `Value::SingleQuotedString(s).to_string()`: the SQL spelling of a string literal, quotes
included, embedded quotes doubled by `escape_single_quote_string` (the printer of `Model/Escape`,
with its quirks: an already doubled `''` and a quote after a backslash are left alone) -/
def sqSpell (s : W) : W := SqlVerif.Escape.showValue .singleQuoted s

/-- the loop of `parse_optional_type_modifiers` after the `(`: a word is stored as it prints (quotes
of a quoted identifier included), a number by its text, a string literal in its SQL spelling -/
def modLoop : List Tok → Except Err (List W × List Tok)
  | [] => expectedAt "type modifiers" []
  | t :: r =>
    match t with
    | .word v q _ =>
      match wordDisplay v q with
      | none => .error .unsupported
      | some s => do let (ms, r') ← modLoop r; pure (s :: ms, r')
    | .number n _ => do let (ms, r') ← modLoop r; pure (n :: ms, r')
    | .sqs s => do let (ms, r') ← modLoop r; pure (sqSpell s :: ms, r')
    | .sym .Comma => modLoop r
    | .sym .RParen => pure ([], r)
    | _ => expectedAt "type modifiers" (t :: r)

/-- the `_` arm: `parse_object_name(false)` + `parse_optional_type_modifiers` -/
def parseCustom (c : Cfg) (ts : List Tok) : Except Err (DT × List Tok) := do
  let (name, r) ← objName ts
  let name := bqSplit c name
  match consumeSym .LParen r with
  | some r1 => do
    let (ms, r2) ← modLoop r1
    pure (.custom name ms, r2)
  | none => pure (.custom name [], r)

def simpleOfKw : DKw → Option SimpleKind
  | .BOOLEAN => some .boolean | .BOOL => some .bool | .REAL => some .real | .FLOAT4 => some .float4
  | .FLOAT32 => some .float32 | .FLOAT64 => some .float64 | .FLOAT8 => some .float8
  | .INT16 => some .int16 | .INT32 => some .int32 | .INT64 => some .int64 | .INT128 => some .int128
  | .INT256 => some .int256 | .UINT8 => some .uint8 | .UINT16 => some .uint16 | .UINT32 => some .uint32
  | .UINT64 => some .uint64 | .UINT128 => some .uint128 | .UINT256 => some .uint256
  | .UUID => some .uuid | .DATE => some .date | .DATE32 => some .date32 | .INTERVAL => some .interval
  | .JSON => some .json | .JSONB => some .jsonb | .REGCLASS => some .regclass | .TEXT => some .text
  | .BYTEA => some .bytea | .TRIGGER => some .trigger
  | _ => none

def lenOfKw : DKw → Option LenKind
  | .FLOAT => some .float | .CLOB => some .clob | .BINARY => some .binary
  | .VARBINARY => some .varbinary | .BLOB => some .blob | .BYTES => some .bytes
  | .DATETIME => some .datetime | .STRING => some .string
  | _ => none

def intOfKw : DKw → Option IntKind
  | .TINYINT => some .tinyInt | .INT2 => some .int2 | .SMALLINT => some .smallInt
  | .MEDIUMINT => some .mediumInt | .INT => some .int | .INT4 => some .int4 | .INT8 => some .int8
  | .INTEGER => some .integer | .BIGINT => some .bigInt
  | _ => none

def numOfKw : DKw → Option NumKind
  | .NUMERIC => some .numeric | .DECIMAL => some .decimal | .DEC => some .dec
  | .BIGNUMERIC => some .bigNumeric | .BIGDECIMAL => some .bigDecimal
  | _ => none

/-- `CHARACTER` / `CHAR`: `VARYING`, `LARGE OBJECT`, or plain -/
def charFamily (plain varying : CharKind) (large : LenKind) (ts : List Tok) : Except Err (DT × List Tok) :=
  if peekKw ts .VARYING then do
    let (l, r) ← optCharLen ts.tail
    pure (.charLike varying l, r)
  else if peekKw ts .LARGE && peekKw ts.tail .OBJECT then do
    let (l, r) ← optPrecision ts.tail.tail
    pure (.withLen large l, r)
  else do
    let (l, r) ← optCharLen ts
    pure (.charLike plain l, r)

/-- the non-recursive keyword arms of `parse_data_type_helper`; `ts` follows the keyword.
`none`: the keyword has no such arm. -/
def parseLeaf (c : Cfg) (kw : DKw) (ts : List Tok) : Option (Except Err (DT × List Tok)) :=
  match kw with
  | .DOUBLE =>
    some (if peekKw ts .PRECISION then pure (.simple .doublePrecision, ts.tail) else pure (.simple .double, ts))
  | .VARCHAR => some do let (l, r) ← optCharLen ts; pure (.charLike .varchar l, r)
  | .NVARCHAR => some do let (l, r) ← optCharLen ts; pure (.charLike .nvarchar l, r)
  | .CHARACTER => some (charFamily .character .characterVarying .characterLargeObject ts)
  | .CHAR => some (charFamily .char .charVarying .charLargeObject ts)
  | .DATETIME64 => some do
    let r ← expectSym .LParen ts
    let (p, r1) ← literalUint r
    match consumeSym .Comma r1 with
    | some r2 => do
      let (z, r3) ← literalString c r2
      let r4 ← expectSym .RParen r3
      pure (.datetime64 p (some z), r4)
    | none => do
      let r4 ← expectSym .RParen r1
      pure (.datetime64 p none, r4)
  | .TIMESTAMP => some do
    let (p, r) ← optPrecision ts
    let (tz, r1) ← optTz r
    pure (.time .timestamp p tz, r1)
  | .TIMESTAMPTZ => some do let (p, r) ← optPrecision ts; pure (.time .timestamp p .tz, r)
  | .TIME => some do
    let (p, r) ← optPrecision ts
    let (tz, r1) ← optTz r
    pure (.time .time p tz, r1)
  | .TIMETZ => some do let (p, r) ← optPrecision ts; pure (.time .time p .tz, r)
  | .FIXEDSTRING => some do
    let r ← expectSym .LParen ts
    let (n, r1) ← literalUint r
    let r2 ← expectSym .RParen r1
    pure (.fixedString n, r2)
  | .ENUM => some do let (vs, r) ← stringValues c ts; pure (.enum vs, r)
  | .SET => some do let (vs, r) ← stringValues c ts; pure (.set vs, r)
  | _ =>
    match simpleOfKw kw with
    | some k => some (pure (.simple k, ts))
    | none =>
      match lenOfKw kw with
      | some k => some do let (l, r) ← optPrecision ts; pure (.withLen k l, r)
      | none =>
        match intOfKw kw with
        | some k => some do
          let (l, r) ← optPrecision ts
          if peekKw r .UNSIGNED then pure (.int k l true, r.tail) else pure (.int k l false, r)
        | none =>
          match numOfKw kw with
          | some k => some do let (i, r) ← optNumInfo ts; pure (.exactNum k i, r)
          | none => none

/-- which recursive arm a keyword selects under the dialect (`none`: falls to the `_` arm) -/
inductive Head
  | arrNone | arrParen | arrAngle | structDuck | structAngle | union | nullable | lowCard | map
  | nested | tuple
deriving DecidableEq, Repr

def headOf (c : Cfg) : DKw → Option Head
  | .ARRAY => some (if c.isSnowflake then .arrNone else if c.isClickHouse then .arrParen else .arrAngle)
  | .STRUCT => if c.isDuckDb then some .structDuck else if c.isBigQuery || c.isGeneric then some .structAngle else none
  | .UNION => if c.isDuckDb || c.isGeneric then some .union else none
  | .NULLABLE => if c.isClickHouse || c.isGeneric then some .nullable else none
  | .LOWCARDINALITY => if c.isClickHouse || c.isGeneric then some .lowCard else none
  | .MAP => if c.isClickHouse || c.isGeneric then some .map else none
  | .NESTED => if c.isClickHouse || c.isGeneric then some .nested else none
  | .TUPLE => if c.isClickHouse || c.isGeneric then some .tuple else none
  | _ => none

/-- `expect_closing_angle_bracket(trailing)` -/
def expectClosing (trailing : Bool) (ts : List Tok) : Except Err (Bool × List Tok) :=
  if trailing then .ok (false, ts) else
  match ts with
  | .sym .Gt :: r => .ok (false, r)
  | .sym .ShiftRight :: r => .ok (true, r)
  | _ => expectedAt ">" ts

/-- the check of `parse_data_type` after the helper: a pending `>` is an error -/
def noTrailing (tr : Bool) : Except Err Unit := if tr then .error .unmatchedDT else pure ()

/-- the `while self.consume_token(&Token::LBracket)` loop at the end of the helper -/
def suffixLoop (c : Cfg) : Nat → DT → List Tok → Except Err (DT × List Tok)
  | 0, _, _ => .error .fuel
  | fuel + 1, t, ts =>
    match consumeSym .LBracket ts with
    | none => pure (t, ts)
    | some r =>
      let (size, r1) : Option Nat × List Tok :=
        if c.isGeneric || c.isDuckDb || c.isPostgres then
          match literalUint r with
          | .ok (n, r') => (some n, r')
          | .error _ => (none, r)
        else (none, r)
      match expectSym .RBracket r1 with
      | .error e => .error e
      | .ok r2 => suffixLoop c fuel (.arraySquare t size) r2

/-- `is_parse_comma_separated_end`: `none` = there is a next element (tokens after the comma),
`some r` = the list ended, continue at `r` -/
def commaEnd (c : Cfg) (ts : List Tok) : Option (List Tok) × List Tok :=
  match consumeSym .Comma ts with
  | none => (some ts, ts)
  | some r =>
    if c.trailingCommas then
      match r with
      | [] => (some r, r)
      | .word _ _ kw :: _ => if kw.rca then (some r, r) else (none, r)
      | .sym .RParen :: _ | .sym .SemiColon :: _ | .sym .RBracket :: _ | .sym .RBrace :: _ => (some r, r)
      | _ => (none, r)
    else (none, r)

/-- the look-ahead of `parse_struct_field_def`: a field has a name iff two words follow -/
def fieldHasName (ts : List Tok) : Bool :=
  match ts with
  | a :: b :: _ => a.isWord && b.isWord
  | _ => false

/-- a keyword after a `Nested` column's type that `parse_column_def` would read as COLLATE,
CONSTRAINT or a column option: outside the model -/
def startsColOpt (ts : List Tok) : Bool :=
  peekKw ts .colOpt || peekKw ts .CHARACTER

-- ------------------------------------------------------------------ parsing: the recursive part
mutual
/-- `parse_data_type_helper`: (type, MatchedTrailingBracket, rest).  `depth` = remaining
recursion depth before the guard of this call. -/
def parseHelper (c : Cfg) : Nat → Nat → List Tok → Except Err (DT × Bool × List Tok)
  | 0, _, _ => .error .fuel
  | fuel + 1, depth, ts =>
    match depth with
    | 0 => .error .rle
    | d + 1 =>
      match ts with
      | .word v q kw :: r =>
        let core : Except Err (DT × Bool × List Tok) :=
          match headOf c kw with
          | some .arrNone => pure (.arrayNone, false, r)
          | some .arrParen => do
            let r1 ← expectSym .LParen r
            let (t, tr, r2) ← parseHelper c fuel d r1
            noTrailing tr
            let r3 ← expectSym .RParen r2
            pure (.arrayParen t, false, r3)
          | some .arrAngle => do
            let r1 ← expectSym .Lt r
            let (t, tr, r2) ← parseHelper c fuel d r1
            let (tr', r3) ← expectClosing tr r2
            pure (.arrayAngle t, tr', r3)
          | some .structDuck => do
            let r1 ← expectSym .LParen r
            match namedLoop c fuel d r1 with
            | .error .rle => .error .rle
            | .error .fuel => .error .fuel
            | .error _ => .error .unsupported   -- the body's error is replaced when `)` is missing too
            | .ok (fs, r2) => do
              let r3 ← expectSym .RParen r2
              pure (.struct fs .paren, false, r3)
          | some .structAngle =>
            match consumeSym .Lt r with
            | none => pure (.struct .nil .angle, false, r)
            | some r1 => do
              let (fs, tr, r2) ← structLoop c fuel d r1
              pure (.struct fs .angle, tr, r2)
          | some .union => do
            let r1 ← expectSym .LParen r
            let (fs, r2) ← namedLoop c fuel d r1
            let r3 ← expectSym .RParen r2
            pure (.union fs, false, r3)
          | some .nullable => do
            let r1 ← expectSym .LParen r
            let (t, tr, r2) ← parseHelper c fuel d r1
            noTrailing tr
            let r3 ← expectSym .RParen r2
            pure (.nullable t, false, r3)
          | some .lowCard => do
            let r1 ← expectSym .LParen r
            let (t, tr, r2) ← parseHelper c fuel d r1
            noTrailing tr
            let r3 ← expectSym .RParen r2
            pure (.lowCardinality t, false, r3)
          | some .map => do
            let r1 ← expectSym .LParen r
            let (k, tr, r2) ← parseHelper c fuel d r1
            noTrailing tr
            let r3 ← expectSym .Comma r2
            let (v, tr2, r4) ← parseHelper c fuel d r3
            noTrailing tr2
            let r5 ← expectSym .RParen r4
            pure (.map k v, false, r5)
          | some .nested => do
            let r1 ← expectSym .LParen r
            let (fs, r2) ← nestedLoop c fuel d r1
            let r3 ← expectSym .RParen r2
            pure (.nested fs, false, r3)
          | some .tuple => do
            let r1 ← expectSym .LParen r
            let (fs, r2) ← tupleLoop c fuel d r1
            let r3 ← expectSym .RParen r2
            pure (.tuple fs, false, r3)
          | none =>
            match parseLeaf c kw r with
            | some res => do let (t, r1) ← res; pure (t, false, r1)
            | none => do let (t, r1) ← parseCustom c (.word v q kw :: r); pure (t, false, r1)
        match core with
        | .error e => .error e
        | .ok (t, tr, r1) =>
          match suffixLoop c fuel t r1 with
          | .error e => .error e
          | .ok (t', r2) => .ok (t', tr, r2)
      | _ => expectedAt "a data type name" ts
/-- the loop of `parse_struct_type_def` after `<` (element parser `parse_struct_field_def`) -/
def structLoop (c : Cfg) : Nat → Nat → List Tok → Except Err (Fields × Bool × List Tok)
  | 0, _, _ => .error .fuel
  | fuel + 1, d, ts => do
    let (name, r) ← (if fieldHasName ts then (do let (i, r) ← parseIdent ts; pure (some i, r)) else pure (none, ts) : Except Err (Option Ident × List Tok))
    let (t, tr, r1) ← parseHelper c fuel d r
    match consumeSym .Comma r1 with
    | none => do
      let (tr', r2) ← expectClosing tr r1
      pure (.cons name t .nil, tr', r2)
    | some r2 =>
      if tr then .error .unmatchedStruct else do
        let (fs, tr', r3) ← structLoop c fuel d r2
        pure (.cons name t fs, tr', r3)
/-- the loop of `parse_click_house_tuple_def` after `(` -/
def tupleLoop (c : Cfg) : Nat → Nat → List Tok → Except Err (Fields × List Tok)
  | 0, _, _ => .error .fuel
  | fuel + 1, d, ts => do
    let (name, r) ← (if fieldHasName ts then (do let (i, r) ← parseIdent ts; pure (some i, r)) else pure (none, ts) : Except Err (Option Ident × List Tok))
    let (t, _, r1) ← parseHelper c fuel d r
    match consumeSym .Comma r1 with
    | none => pure (.cons name t .nil, r1)
    | some r2 => do
      let (fs, r3) ← tupleLoop c fuel d r2
      pure (.cons name t fs, r3)
/-- `parse_comma_separated(|p| name: parse_identifier, type: parse_data_type)` (DuckDB struct, UNION) -/
def namedLoop (c : Cfg) : Nat → Nat → List Tok → Except Err (Fields × List Tok)
  | 0, _, _ => .error .fuel
  | fuel + 1, d, ts => do
    let (i, r) ← parseIdent ts
    let (t, tr, r1) ← parseHelper c fuel d r
    noTrailing tr
    match commaEnd c r1 with
    | (some r2, _) => pure (.cons (some i) t .nil, r2)
    | (none, r2) => do
      let (fs, r3) ← namedLoop c fuel d r2
      pure (.cons (some i) t fs, r3)
/-- `parse_comma_separated(Parser::parse_column_def)` restricted to `name type` columns -/
def nestedLoop (c : Cfg) : Nat → Nat → List Tok → Except Err (Fields × List Tok)
  | 0, _, _ => .error .fuel
  | fuel + 1, d, ts => do
    let (i, r) ← parseIdent ts
    let (t, tr, r1) ← parseHelper c fuel d r
    noTrailing tr
    if startsColOpt r1 then .error .unsupported else
    match commaEnd c r1 with
    | (some r2, _) => pure (.cons (some i) t .nil, r2)
    | (none, r2) => do
      let (fs, r3) ← nestedLoop c fuel d r2
      pure (.cons (some i) t fs, r3)
end

/-- `Parser::parse_data_type` -/
def parseDataType (c : Cfg) (fuel depth : Nat) (ts : List Tok) : Except Err (DT × List Tok) :=
  match parseHelper c fuel depth ts with
  | .error e => .error e
  | .ok (t, tr, r) => if tr then .error .unmatchedDT else .ok (t, r)

/-- the name used in the task statement -/
abbrev parseDT := parseDataType

-- ------------------------------------------------------------------ canonical S-expression
def hexDigits (n : Nat) : String := String.ofList (Nat.toDigits 16 n)

def wSexp (w : W) : String := if w.isEmpty then "-" else "_".intercalate (w.map hexDigits)

def optNatSexp : Option Nat → String
  | none => "none"
  | some n => toString n

def Ident.sexp (i : Ident) : String :=
  "(id " ++ wSexp i.value ++ " " ++ (match i.quote with | none => "-" | some q => hexDigits q) ++ ")"

def SimpleKind.name : SimpleKind → String
  | .uuid => "Uuid" | .int16 => "Int16" | .int32 => "Int32" | .int64 => "Int64" | .int128 => "Int128"
  | .int256 => "Int256" | .uint8 => "UInt8" | .uint16 => "UInt16" | .uint32 => "UInt32"
  | .uint64 => "UInt64" | .uint128 => "UInt128" | .uint256 => "UInt256" | .float4 => "Float4"
  | .float32 => "Float32" | .float64 => "Float64" | .real => "Real" | .float8 => "Float8"
  | .double => "Double" | .doublePrecision => "DoublePrecision" | .bool => "Bool" | .boolean => "Boolean"
  | .date => "Date" | .date32 => "Date32" | .interval => "Interval" | .json => "JSON" | .jsonb => "JSONB"
  | .regclass => "Regclass" | .text => "Text" | .bytea => "Bytea" | .unspecified => "Unspecified"
  | .trigger => "Trigger"

def LenKind.name : LenKind → String
  | .characterLargeObject => "CharacterLargeObject" | .charLargeObject => "CharLargeObject"
  | .clob => "Clob" | .binary => "Binary" | .varbinary => "Varbinary" | .blob => "Blob"
  | .bytes => "Bytes" | .float => "Float" | .datetime => "Datetime" | .string => "String"

def IntKind.name : IntKind → String
  | .tinyInt => "TinyInt" | .int2 => "Int2" | .smallInt => "SmallInt" | .mediumInt => "MediumInt"
  | .int => "Int" | .int4 => "Int4" | .int8 => "Int8" | .integer => "Integer" | .bigInt => "BigInt"

def CharKind.name : CharKind → String
  | .character => "Character" | .char => "Char" | .characterVarying => "CharacterVarying"
  | .charVarying => "CharVarying" | .varchar => "Varchar" | .nvarchar => "Nvarchar"

def NumKind.name : NumKind → String
  | .numeric => "Numeric" | .decimal => "Decimal" | .bigNumeric => "BigNumeric"
  | .bigDecimal => "BigDecimal" | .dec => "Dec"

def TzInfo.name : TzInfo → String
  | .none => "None" | .withTz => "WithTimeZone" | .withoutTz => "WithoutTimeZone" | .tz => "Tz"

def CharLen.sexp : CharLen → String
  | .max => "max"
  | .int n none => s!"(len {n} none)"
  | .int n (some .characters) => s!"(len {n} Characters)"
  | .int n (some .octets) => s!"(len {n} Octets)"

def NumInfo.sexp : NumInfo → String
  | .none => "none"
  | .prec p => s!"(p {p})"
  | .precScale p s => s!"(ps {p} {s})"

def wsSexp (ws : List W) : String := " ".intercalate (ws.map wSexp)

mutual
def DT.sexp : DT → String
  | .simple k => "(" ++ k.name ++ ")"
  | .withLen k l => "(" ++ k.name ++ " " ++ optNatSexp l ++ ")"
  | .int k l u => "(" ++ (if u then "Unsigned" else "") ++ k.name ++ " " ++ optNatSexp l ++ ")"
  | .charLike k l => "(" ++ k.name ++ " " ++ (match l with | none => "none" | some x => x.sexp) ++ ")"
  | .exactNum k i => "(" ++ k.name ++ " " ++ i.sexp ++ ")"
  | .time k p tz =>
    "(" ++ (match k with | .time => "Time" | .timestamp => "Timestamp") ++ " " ++ optNatSexp p ++ " " ++ tz.name ++ ")"
  | .datetime64 p tz =>
    "(Datetime64 " ++ toString p ++ " " ++ (match tz with | none => "none" | some z => "(s " ++ wSexp z ++ ")") ++ ")"
  | .fixedString n => "(FixedString " ++ toString n ++ ")"
  | .custom name mods =>
    "(Custom (name" ++ String.join (name.map fun i => " " ++ i.sexp) ++ ") (mods" ++
      String.join (mods.map fun m => " " ++ wSexp m) ++ "))"
  | .enum ls => "(Enum" ++ String.join (ls.map fun m => " " ++ wSexp m) ++ ")"
  | .set ls => "(Set" ++ String.join (ls.map fun m => " " ++ wSexp m) ++ ")"
  | .arrayNone => "(Array None)"
  | .arrayAngle t => "(Array (Angle " ++ t.sexp ++ "))"
  | .arraySquare t sz => "(Array (Square " ++ t.sexp ++ " " ++ optNatSexp sz ++ "))"
  | .arrayParen t => "(Array (Paren " ++ t.sexp ++ "))"
  | .map k v => "(Map " ++ k.sexp ++ " " ++ v.sexp ++ ")"
  | .tuple fs => "(Tuple" ++ fs.sexp "f" ++ ")"
  | .nested fs => "(Nested" ++ fs.sexp "col" ++ ")"
  | .struct fs b => "(Struct " ++ (match b with | .paren => "Paren" | .angle => "Angle") ++ fs.sexp "f" ++ ")"
  | .union fs => "(Union" ++ fs.sexp "u" ++ ")"
  | .nullable t => "(Nullable " ++ t.sexp ++ ")"
  | .lowCardinality t => "(LowCardinality " ++ t.sexp ++ ")"
def Fields.sexp : Fields → String → String
  | .nil, _ => ""
  | .cons n t rest, tag =>
    " (" ++ tag ++ " " ++ (match n with | none => "none" | some i => i.sexp) ++ " " ++ t.sexp ++ ")" ++
      rest.sexp tag
end

end SqlVerif.DTy

import SqlVerif.Model.Dml
import SqlVerif.Model.QueryPrint
/-!
What `sqlparser::ast` holds of the trees of `Model/Dml.lean` (canonical S-expression, the same
rendering as `stmt_sexp` in `rust/harness/src/dml.rs`) and `Display` of `Statement::{Query, Insert,
Update, Delete, CreateTable, Drop}`, `Values`, `Assignment`, `ColumnDef`, `ColumnOption` and of the
non-recursive `DataType`s, as lists of pieces (`Model/ExprPrint.lean`): `showToks` = the printed
tokens, `showText` = the text.

Normal forms of the printer (beyond those of `Model/QueryPrint.lean`): keywords in upper case;
`TEMP` prints `TEMPORARY`; `ROW` is printed in front of every row of a `VALUES` as soon as one row
had it; a table without columns prints ` ()` whether or not the parentheses were written; trailing
commas, the `FROM` that `UPDATE` swallows in dialects without `UPDATE … FROM`, the keyword that a
column option swallows before its dialect test fails, and `LIMIT ALL` of `DELETE` are dropped;
numbers inside data types are re-rendered in decimal (`VARCHAR(010)` prints `VARCHAR(10)`), type
names in the spelling of `Display for DataType`, custom-type modifiers as the SQL text they are stored as.
-/
namespace SqlVerif.Dml
open SqlVerif.Pratt SqlVerif.Query SqlVerif.Gen

-- ------------------------------------------------------------------ what the AST holds
def nameSexp (name : List Tok) : String := "(name" ++ idsSexp name ++ ")"

def Row.sexp (r : Row) : String := "(row" ++ sepSexp Expr.sexp r.exprs ++ ")"

/-- `Values::explicit_row`: one row had the keyword -/
def explicitRow (rows : Sep Row) : Bool := rows.any fun p => !p.1.rowKw.isEmpty

def ValuesQ.sexp (v : ValuesQ) : String :=
  "(query (values " ++ b01 (explicitRow v.rows) ++ sepSexp Row.sexp v.rows ++ ")" ++ v.tail.sexp ++ ")"

def Source.sexp : Source → String
  | .query q => q.sexp
  | .values v => v.sexp

def InsSource.sexp : InsSource → String
  | .defaultValues _ => "default"
  | .source s => s.sexp

def Insert.sexp (i : Insert) : String :=
  "(insert " ++ b01 (!i.into.isEmpty) ++ " " ++ b01 (!i.tableKw.isEmpty) ++ " " ++ nameSexp i.name ++ " (cols" ++
    sepSexp idSexp i.cols.ids ++ ") " ++ i.src.sexp ++ " (returning" ++ sepSexp SelectItem.sexp i.returning ++ "))"

def AssignTarget.sexp : AssignTarget → String
  | .col name => "(col " ++ nameSexp name ++ ")"
  | .tuple _ names _ => "(tuple" ++ sepSexp nameSexp names ++ ")"

def Assign.sexp (a : Assign) : String := "(assign " ++ a.target.sexp ++ " " ++ a.value.sexp ++ ")"

/-- a list of `TableWithJoins` (flat FROM items); `""` when empty -/
def twjsSexp (n : QNode) : String := if n.isFnil then "" else n.sexp ++ ")"

def Update.sexp (u : Update) : String :=
  "(update (target" ++ twjsSexp u.table ++ ") (set" ++ sepSexp Assign.sexp u.assigns ++ ") (from" ++ twjsSexp u.frm ++
    ") (where " ++ optExprSexp u.selection ++ ") (returning" ++ sepSexp SelectItem.sexp u.returning ++ "))"

def Delete.sexp (d : Delete) : String :=
  "(delete (tables" ++ sepSexp nameSexp d.tables ++ ") (from" ++ twjsSexp d.frm ++ ") (using" ++ twjsSexp d.usng ++
    ") (where " ++ optExprSexp d.selection ++ ") (returning" ++ sepSexp SelectItem.sexp d.returning ++ ") (order" ++
    sepSexp OrderByExpr.sexp d.order ++ ") (limit " ++ optExprSexp d.limit ++ "))"

/-- the table spelling of a keyword token -/
def kwText (t : Tok) : String :=
  match t with
  | .word _ _ (some k) => String.ofList ((kwName k).map Char.ofNat)
  | _ => "?"

def ColOpt.sexp : ColOpt → String
  | .null _ => "null"
  | .notNull _ => "notnull"
  | .default _ e => "(default " ++ e.sexp ++ ")"
  | .primaryKey _ => "primary"
  | .unique _ => "unique"
  | .check _ _ e _ => "(check " ++ e.sexp ++ ")"
  | .comment _ s => "(comment " ++ (match s with | .sqs v => hx v | _ => "?") ++ ")"
  | .dialect t => "(dialect " ++ kwText t ++ ")"
  | .references _ name cols => "(references " ++ nameSexp name ++ " (cols" ++ sepSexp idSexp cols.ids ++ "))"

def ColDef.sexp (cd : ColDef) : String :=
  "(col " ++ idSexp cd.name ++ " " ++ cd.ty.sexp ++ " (opts" ++ String.join (cd.opts.map fun o => " " ++ o.sexp) ++ "))"

def CreateTable.sexp (ct : CreateTable) : String :=
  "(create " ++ b01 (!ct.temp.isEmpty) ++ " " ++ b01 (!ct.ifne.isEmpty) ++ " " ++ nameSexp ct.name ++ " (cols" ++
    sepSexp ColDef.sexp ct.cols ++ "))"

def Drop.sexp (d : Drop) : String :=
  "(drop " ++ b01 (!d.ifExists.isEmpty) ++ " (names" ++ sepSexp nameSexp d.names ++ ") " ++ b01 (!d.cascade.isEmpty) ++ " " ++
    b01 (!d.restrict.isEmpty) ++ " " ++ b01 (!d.purge.isEmpty) ++ ")"

def Stmt.sexp : Stmt → String
  | .query s => s.sexp
  | .insert i => i.sexp
  | .update u => u.sexp
  | .delete d => d.sexp
  | .createTable ct => ct.sexp
  | .drop d => d.sexp

-- ------------------------------------------------------------------ Display: data types
/-- a word of a type name as `Display for DataType` spells it -/
def tyWordP (sp : Bool) (v : W) : Piece := ⟨sp, .word v none (kwLookup v), some v⟩

def dtWord : SqlVerif.DTy.Tok → W
  | .word v _ _ => v
  | _ => []

/-- the words of a type name, separated by blanks -/
def tyWords (ts : List SqlVerif.DTy.Tok) : List Piece :=
  match ts with
  | [] => []
  | t :: rest => tyWordP false (dtWord t) :: rest.map fun x => tyWordP true (dtWord x)

def natP (sp : Bool) (n : Nat) : Piece := ⟨sp, .number (SqlVerif.DTy.digits n) false, some (SqlVerif.DTy.digits n)⟩

/-- `(n)` glued to what precedes -/
def optLenP : Option Nat → List Piece
  | none => []
  | some n => [symP false .LParen, natP false n, symP false .RParen]

def charLenP : Option SqlVerif.DTy.CharLen → List Piece
  | none => []
  | some .max => [symP false .LParen, tyWordP false (str "MAX"), symP false .RParen]
  | some (.int n none) => [symP false .LParen, natP false n, symP false .RParen]
  | some (.int n (some u)) => [symP false .LParen, natP false n, tyWordP true (dtWord u.tok), symP false .RParen]

/-- `Display for ExactNumberInfo`: `(p)` / `(p,s)` (no blank after the comma) -/
def numInfoP : SqlVerif.DTy.NumInfo → List Piece
  | .none => []
  | .prec p => [symP false .LParen, natP false p, symP false .RParen]
  | .precScale p s => [symP false .LParen, natP false p, symP false .Comma, natP false s, symP false .RParen]

/-- ` WITH TIME ZONE` / ` WITHOUT TIME ZONE` -/
def tzP (tzi : SqlVerif.DTy.TzInfo) : List Piece := (SqlVerif.DTy.tzWords tzi).map fun t => tyWordP true (dtWord t)

/-- `Display for Ident` of a part of a custom type name -/
def dtIdentP (sp : Bool) (i : SqlVerif.DTy.Ident) : Piece :=
  match i.quote with
  | none => ⟨sp, .word i.value none (kwLookup i.value), some i.value⟩
  | some q => ⟨sp, (if q = 39 then .sqs i.value else .word i.value (some q) none), identText i.value (some q)⟩

def dtNameP : List SqlVerif.DTy.Ident → List Piece
  | [] => []
  | [i] => [dtIdentP false i]
  | i :: rest => dtIdentP false i :: symP false .Period :: dtNameP rest

/-- the token a custom-type modifier (stored as SQL text) is read back as: a number when it consists of
digits, a string literal when it is written between single quotes (payload without embedded quotes
assumed), else a word -/
def modTok (m : W) : Tok :=
  if !m.isEmpty && m.all (fun ch => 48 ≤ ch && ch ≤ 57) then .number m false
  else if 2 ≤ m.length && m.head? == some 39 && m.getLast? == some 39 then .sqs ((m.drop 1).dropLast)
  else .word m none (kwLookup m)

/-- raw custom-type modifiers, `", "` between them -/
def modsP : List W → List Piece
  | [] => []
  | [m] => [⟨false, modTok m, some m⟩]
  | m :: rest => ⟨false, modTok m, some m⟩ :: symP false .Comma :: spaced (modsP rest)

/-- `'label'` list of ENUM / SET -/
def labelsP : List W → List Piece
  | [] => []
  | [l] => [⟨false, .sqs l, some ([39] ++ SqlVerif.Escape.escapeQ 39 l ++ [39])⟩]
  | l :: rest => ⟨false, .sqs l, some ([39] ++ SqlVerif.Escape.escapeQ 39 l ++ [39])⟩ :: symP false .Comma :: spaced (labelsP rest)

/-- `Display for DataType` on the non-recursive types (`none`: outside the fragment) -/
def dtPieces : SqlVerif.DTy.DT → Option (List Piece)
  | .simple k => some (tyWords k.toks)
  | .withLen k l => some (tyWords k.toks ++ optLenP l)
  | .int k l u => some (tyWords [k.tok] ++ optLenP l ++ (if u then [tyWordP true (str "UNSIGNED")] else []))
  | .charLike k l => some (tyWords k.toks ++ charLenP l)
  | .exactNum k i => some (tyWords [k.tok] ++ numInfoP i)
  | .time k p tzi =>
    match tzi, k with
    | .tz, .time => some (tyWordP false (str "TIMETZ") :: optLenP p)
    | .tz, .timestamp => some (tyWordP false (str "TIMESTAMPTZ") :: optLenP p)
    | _, .time => some (tyWordP false (str "TIME") :: (optLenP p ++ tzP tzi))
    | _, .timestamp => some (tyWordP false (str "TIMESTAMP") :: (optLenP p ++ tzP tzi))
  | .fixedString n => some ([tyWordP false (str "FixedString"), symP false .LParen, natP false n, symP false .RParen])
  | .custom name mods =>
    some (dtNameP name ++ (if mods.isEmpty then [] else [symP false .LParen] ++ modsP mods ++ [symP false .RParen]))
  | .enum ls => some ([tyWordP false (str "ENUM"), symP false .LParen] ++ labelsP ls ++ [symP false .RParen])
  | .set ls => some ([tyWordP false (str "SET"), symP false .LParen] ++ labelsP ls ++ [symP false .RParen])
  | .arraySquare t sz =>
    match dtPieces t with
    | none => none
    | some ps =>
      some (ps ++ [symP false .LBracket] ++ (match sz with | none => [] | some n => [natP false n]) ++ [symP false .RBracket])
  | _ => none

/-- a piece that makes the text `none` (outside the printable fragment) -/
def noText : Piece := ⟨false, .other "?" "", none⟩

def dtPiecesD (t : SqlVerif.DTy.DT) : List Piece := (dtPieces t).getD [noText]

-- ------------------------------------------------------------------ Display: statements
/-- replace the first piece (the connector keyword of a FROM item) by the keyword `name` -/
def headKw (sp : Bool) (name : String) : List Piece → List Piece
  | [] => []
  | _ :: rest => kwP sp name :: rest

def Row.pieces (explicit : Bool) (r : Row) : List Piece :=
  (if explicit then [kwP false "ROW", symP false .LParen] else [symP false .LParen]) ++
    glued (sepPieces Expr.pieces r.exprs) ++ [symP false .RParen]

def ValuesQ.pieces (v : ValuesQ) : List Piece :=
  [kwP false "VALUES"] ++ spaced (sepPieces (Row.pieces (explicitRow v.rows)) v.rows) ++ v.tail.pieces

def Source.pieces : Source → List Piece
  | .query q => q.pieces
  | .values v => v.pieces

/-- ` RETURNING items` -/
def retPieces (items : Sep SelectItem) : List Piece :=
  if items.isEmpty then [] else [kwP true "RETURNING"] ++ spaced (sepPieces SelectItem.pieces items)

/-- `(a, b)` of an identifier list; first piece without a blank -/
def idsParenP (ids : Sep Tok) : List Piece :=
  [symP false .LParen] ++ glued (sepPieces (fun t => [idPiece false t]) ids) ++ [symP false .RParen]

def Insert.pieces (i : Insert) : List Piece :=
  [kwP false "INSERT"] ++ (if i.into.isEmpty then [] else [kwP true "INTO"]) ++
    (if i.tableKw.isEmpty then [] else [kwP true "TABLE"]) ++ spaced (namePieces i.name) ++
    (if i.cols.ids.isEmpty then [] else spaced (idsParenP i.cols.ids)) ++
    (match i.src with
     | .defaultValues _ => [kwP true "DEFAULT", kwP true "VALUES"]
     | .source s => spaced s.pieces) ++
    retPieces i.returning

def AssignTarget.pieces : AssignTarget → List Piece
  | .col name => namePieces name
  | .tuple _ names _ => [symP false .LParen] ++ glued (sepPieces namePieces names) ++ [symP false .RParen]

def Assign.pieces (a : Assign) : List Piece := a.target.pieces ++ [symP true .Eq] ++ spaced a.value.pieces

def wherePieces : Option Expr → List Piece
  | some e => [kwP true "WHERE"] ++ spaced e.pieces
  | none => []

def Update.pieces (u : Update) : List Piece :=
  headKw false "UPDATE" u.table.pieces ++ [kwP true "SET"] ++ spaced (sepPieces Assign.pieces u.assigns) ++
    u.frm.pieces ++ wherePieces u.selection ++ retPieces u.returning

def Delete.pieces (d : Delete) : List Piece :=
  [kwP false "DELETE"] ++ (if d.tables.isEmpty then [] else spaced (sepPieces namePieces d.tables)) ++
    d.frm.pieces ++ headKw true "USING" d.usng.pieces ++ wherePieces d.selection ++ retPieces d.returning ++
    (if d.order.isEmpty then [] else [kwP true "ORDER", kwP true "BY"] ++ spaced (sepPieces OrderByExpr.pieces d.order)) ++
    (match d.limit with | some e => [kwP true "LIMIT"] ++ spaced e.pieces | none => [])

def ColOpt.pieces : ColOpt → List Piece
  | .null _ => [kwP true "NULL"]
  | .notNull _ => [kwP true "NOT", kwP true "NULL"]
  | .default _ e => [kwP true "DEFAULT"] ++ spaced e.pieces
  | .primaryKey _ => [kwP true "PRIMARY", kwP true "KEY"]
  | .unique _ => [kwP true "UNIQUE"]
  | .check _ _ e _ => [kwP true "CHECK", symP true .LParen] ++ glued e.pieces ++ [symP false .RParen]
  | .comment _ s =>
    [kwP true "COMMENT",
      (match s with
       | .sqs v => ⟨true, .sqs v, some ([39] ++ SqlVerif.Escape.escapeQ 39 v ++ [39])⟩
       | _ => { noText with sp := true })]
  | .dialect t =>
    (match t with
     | .word _ _ (some k) => [⟨true, kwTi k, some (kwName k)⟩]
     | _ => [noText])
  | .references _ name cols =>
    [kwP true "REFERENCES"] ++ spaced (namePieces name) ++ (if cols.ids.isEmpty then [] else spaced (idsParenP cols.ids))

/-- `Display for ColumnDef`; first piece without a blank -/
def ColDef.pieces (cd : ColDef) : List Piece :=
  [idPiece false cd.name] ++ spaced (dtPiecesD cd.ty) ++ (cd.opts.map ColOpt.pieces).flatten

def CreateTable.pieces (ct : CreateTable) : List Piece :=
  [kwP false "CREATE"] ++ (if ct.temp.isEmpty then [] else [kwP true "TEMPORARY"]) ++ [kwP true "TABLE"] ++
    (if ct.ifne.isEmpty then [] else [kwP true "IF", kwP true "NOT", kwP true "EXISTS"]) ++ spaced (namePieces ct.name) ++
    [symP true .LParen] ++ glued (sepPieces ColDef.pieces ct.cols) ++ [symP false .RParen]

def Drop.pieces (d : Drop) : List Piece :=
  [kwP false "DROP", kwP true "TABLE"] ++ (if d.ifExists.isEmpty then [] else [kwP true "IF", kwP true "EXISTS"]) ++
    spaced (sepPieces namePieces d.names) ++ (if d.cascade.isEmpty then [] else [kwP true "CASCADE"]) ++
    (if d.restrict.isEmpty then [] else [kwP true "RESTRICT"]) ++ (if d.purge.isEmpty then [] else [kwP true "PURGE"])

def Stmt.pieces : Stmt → List Piece
  | .query s => s.pieces
  | .insert i => i.pieces
  | .update u => u.pieces
  | .delete d => d.pieces
  | .createTable ct => ct.pieces
  | .drop d => d.pieces

/-- the printed token list of a statement -/
def Stmt.showToks (s : Stmt) : List Tok := s.pieces.map (·.tok)

/-- `to_string()`; `none` where `Display` panics or the statement holds a type outside the printable fragment -/
def Stmt.showText (s : Stmt) : Option W := joinPieces s.pieces

end SqlVerif.Dml

/-
Model of set-operator climbing: `parse_query_body` / `parse_remaining_set_exprs` /
`parse_boxed_query_body` (`src/parser/mod.rs` ~9073-9131) over a token alphabet of atoms
(`SELECT n`, standing for any non-set-operation body), the three set operators and "anything else".
Besides the tree it returns the nesting depth of `parse_query_body` activations that were reached
through the loop (the call cycle that carries no depth guard).
-/
namespace SqlVerif.SetOps

inductive Op | union | except | intersect
deriving Repr, DecidableEq

inductive STok
  | atom (n : Nat)
  | op (o : Op) (quantifier : Nat)   -- quantifier: 0 none, 1 ALL, 2 DISTINCT, … (opaque)
  | other (n : Nat)
deriving Repr, DecidableEq

inductive SetExpr
  | atom (n : Nat)
  | setOp (left : SetExpr) (o : Op) (q : Nat) (right : SetExpr)
deriving Repr, DecidableEq

/-- `next_precedence` of the loop -/
def precOf : Op → Nat
  | .union => 10
  | .except => 10
  | .intersect => 20

mutual
/-- `parse_query_body(precedence)`; result: tree, remaining tokens, activation depth -/
def queryBody : Nat → Nat → List STok → Option (SetExpr × List STok × Nat)
  | 0, _, _ => none
  | fuel + 1, prec, ts =>
    match ts with
    | .atom n :: rest =>
      match remaining fuel (.atom n) prec rest with
      | some (e, rest', d) => some (e, rest', d + 1)
      | none => none
    | _ => none
/-- `parse_remaining_set_exprs(expr, precedence)`; depth = max depth of the activations it starts -/
def remaining : Nat → SetExpr → Nat → List STok → Option (SetExpr × List STok × Nat)
  | 0, _, _, _ => none
  | fuel + 1, e, prec, ts =>
    match ts with
    | .op o q :: rest =>
      if prec ≥ precOf o then some (e, ts, 0)
      else
        match queryBody fuel (precOf o) rest with
        | none => none
        | some (r, rest', d) =>
          match remaining fuel (.setOp e o q r) prec rest' with
          | none => none
          | some (e', rest'', d') => some (e', rest'', max d d')
    | _ => some (e, ts, 0)
end

/-- number of precedence levels strictly above `prec` -/
def levelsAbove (prec : Nat) : Nat := if prec < 10 then 2 else if prec < 20 then 1 else 0

end SqlVerif.SetOps

import SqlVerif.Model.Stmts
/- Concrete instance of the statements-loop model used by the `stmts` stream: statements are `SELECT n`. -/
namespace SqlVerif.Stmts

inductive STok | select | num (n : Nat) | semi | endKw | other
deriving Repr, DecidableEq

/-- a script (`parse_statements`): the top-level loop does not stop at END -/
def sqlClass : TokClass STok where
  isSemi t := t == .semi
  isEndKw _ := false

/-- a block body (`BEGIN … END` of CREATE PROCEDURE): the loop stops in front of END -/
def sqlBlockClass : TokClass STok where
  isSemi t := t == .semi
  isEndKw t := t == .endKw

/-- the real statement parser restricted to this alphabet: `SELECT <n | SELECT | END>` (a keyword
in expression position is read as an identifier) and `END` alone (= COMMIT); value = printed item -/
def parseSelect : List STok → Except Unit (String × List STok)
  | .endKw :: rest => .ok ("COMMIT", rest)
  | .select :: .num n :: rest => .ok (toString n, rest)
  | .select :: .select :: rest => .ok ("SELECT", rest)
  | .select :: .endKw :: rest => .ok ("END", rest)
  | _ => .error ()

end SqlVerif.Stmts

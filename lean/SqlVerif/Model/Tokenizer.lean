import SqlVerif.Model.Keywords
import SqlVerif.Model.Scan
import SqlVerif.Gen.Keywords
import SqlVerif.Gen.Dialects
/-
Executable model of `Tokenizer` (`src/tokenizer.rs` 500-1881): `State`, `tokenize_with_location`,
`next_token` branch by branch in source order, and the helpers it calls.  Literal scanners live in
`Model/Scan.lean`, keyword recognition in `Model/Keywords.lean`.

* `dialect_of!(self is A | B)` is a test on the name of the tabulated dialect row;
* capability methods are fields of `env.row.flags`;
* Unicode-table predicates and the four `char -> bool` dialect methods are fields of `Env`;
* `nextToken` gets the remaining input and returns the token with the input left after it; it
  never sees line/column.  `tokLoop` threads `(line, col)` exactly as `State::next` does.
-/
namespace SqlVerif.Tok
open SqlVerif.Scan SqlVerif.Keywords SqlVerif.Gen

/-- everything the tokenizer asks its surroundings -/
structure Env where
  row : DialectRow
  /-- `Tokenizer::unescape` -/
  unescape : Bool
  isWhitespace : Nat → Bool
  isAlphabetic : Nat → Bool
  isNumeric : Nat → Bool
  isAlphanumeric : Nat → Bool
  /-- `char::to_uppercase` (`str::to_uppercase` is char-wise) -/
  toUpper : Nat → List Nat
  isIdentStart : Nat → Bool
  isIdentPart : Nat → Bool
  isDelimStart : Nat → Bool
  isCustomOpPart : Nat → Bool

namespace Env
def isGeneric (e : Env) : Bool := e.row.name == "generic"
def isBigQuery (e : Env) : Bool := e.row.name == "bigquery"
def isSnowflake (e : Env) : Bool := e.row.name == "snowflake"
def isDuckDb (e : Env) : Bool := e.row.name == "duckdb"
def isPostgres (e : Env) : Bool := e.row.name == "postgresql"
def isRedshift (e : Env) : Bool := e.row.name == "redshift"

/-- `str::to_uppercase` -/
def upper (e : Env) (w : List Nat) : List Nat := w.flatMap e.toUpper

/-- `Dialect::is_proper_identifier_inside_quotes` on a clone of the input that starts at the quote.
Default `true`; only Redshift overrides it (src/dialect/redshift.rs 43-50): drop the quote, skip
whitespace, the next character must start an identifier. -/
def properIdentInsideQuotes (e : Env) (s : List Nat) : Bool :=
  if e.isRedshift then
    match (s.drop 1).dropWhile e.isWhitespace with
    | c :: _ => e.isIdentStart c
    | [] => false
  else true
end Env

/-- `enum Whitespace` -/
inductive Whitespace where
  | space | newline | tab
  | singleLineComment (comment : List Nat) (pfx : List Nat)
  | multiLineComment (s : List Nat)
deriving Repr, DecidableEq

/-- `enum Token`, same constructors in the same order -/
inductive Token where
  | eof
  | word (w : Word)
  | number (s : List Nat) (long : Bool)
  | char (c : Nat)
  | singleQuotedString (s : List Nat)
  | doubleQuotedString (s : List Nat)
  | tripleSingleQuotedString (s : List Nat)
  | tripleDoubleQuotedString (s : List Nat)
  | dollarQuotedString (value : List Nat) (tag : Option (List Nat))
  | singleQuotedByteStringLiteral (s : List Nat)
  | doubleQuotedByteStringLiteral (s : List Nat)
  | tripleSingleQuotedByteStringLiteral (s : List Nat)
  | tripleDoubleQuotedByteStringLiteral (s : List Nat)
  | singleQuotedRawStringLiteral (s : List Nat)
  | doubleQuotedRawStringLiteral (s : List Nat)
  | tripleSingleQuotedRawStringLiteral (s : List Nat)
  | tripleDoubleQuotedRawStringLiteral (s : List Nat)
  | nationalStringLiteral (s : List Nat)
  | escapedStringLiteral (s : List Nat)
  | unicodeStringLiteral (s : List Nat)
  | hexStringLiteral (s : List Nat)
  | comma
  | whitespace (w : Whitespace)
  | doubleEq | eq | neq | lt | gt | ltEq | gtEq | spaceship
  | plus | minus | mul | div | duckIntDiv | mod | stringConcat
  | lParen | rParen | period | colon | doubleColon | assignment | semiColon | backslash
  | lBracket | rBracket | ampersand | pipe | caret | lBrace | rBrace | rArrow | sharp
  | tilde | tildeAsterisk | exclamationMarkTilde | exclamationMarkTildeAsterisk
  | doubleTilde | doubleTildeAsterisk | exclamationMarkDoubleTilde
  | exclamationMarkDoubleTildeAsterisk
  | shiftLeft | shiftRight | overlap | exclamationMark | doubleExclamationMark | atSign
  | caretAt | pgSquareRoot | pgCubeRoot
  | placeholder (s : List Nat)
  | arrow | longArrow | hashArrow | hashLongArrow | atArrow | arrowAt | hashMinus
  | atQuestion | atAt | question | questionAnd | questionPipe
  | customBinaryOperator (s : List Nat)
deriving Repr, DecidableEq

/-- error of `next_token`: a located message, or a Rust panic (`Word::matching_end_quote` on a
delimiter other than `"`, `[`, backquote; no built-in dialect has one) -/
inductive LexErr where
  | err (e : ScanErr)
  | panic (site : List Nat)
deriving Repr, DecidableEq

/-- result of one branch of `next_token`: the token and the input left -/
abbrev Res := Except LexErr (Token × List Nat)

def ofScan (f : List Nat → Token) : Except ScanErr (List Nat × List Nat) → Res
  | .error e => .error (.err e)
  | .ok (p, r) => .ok (f p, r)

/-- `Token::make_word` on the crate's keyword table -/
def mkWord (env : Env) (w : List Nat) (quote : Option Nat) : Token :=
  .word (makeWord keywords env.upper w quote)

/-- `tokenize_word` (1396-1402); `cs` = input after the characters already in `first` -/
def tokenizeWord (env : Env) (first : List Nat) (cs : List Nat) : List Nat × List Nat :=
  (first ++ cs.takeWhile env.isIdentPart, cs.dropWhile env.isIdentPart)

/-- the "regular identifier starting with …" fallbacks (740-741 and friends) -/
def wordFrom (env : Env) (first : List Nat) (cs : List Nat) : Res :=
  .ok (mkWord env (tokenizeWord env first cs).1 none, (tokenizeWord env first cs).2)

def isDigitOrDot (c : Nat) : Bool := isAsciiDigit c || c == 46

/-- `tokenize_identifier_or_keyword` (666-689); `cs` = input after `chars.next()` took the last
character of `first` -/
def identOrKeyword (env : Env) (first : List Nat) (cs : List Nat) : Res :=
  let w := (tokenizeWord env first cs).1
  let r := (tokenizeWord env first cs).2
  if w.all isDigitOrDot then
    .ok (.number (w.takeWhile isDigitOrDot ++ r.takeWhile isDigitOrDot) false, r.dropWhile isDigitOrDot)
  else .ok (mkWord env w none, r)

/-- `start_binop` (1252-1271) -/
def startBinop (env : Env) (pfx : List Nat) (dflt : Token) (cs : List Nat) : Res :=
  let k := cs.takeWhile env.isCustomOpPart
  .ok (if k.isEmpty then dflt else .customBinaryOperator (pfx ++ k), cs.dropWhile env.isCustomOpPart)

def binop (env : Env) (pfx : String) (dflt : Token) (cs : List Nat) : Res :=
  startBinop env (str pfx) dflt cs

/-- a `SingleLineComment` token with the given prefix; `cs` = input after the prefix -/
def lineComment (pfx : String) (cs : List Nat) : Res :=
  .ok (.whitespace (.singleLineComment (singleLineComment cs).1 (str pfx)), (singleLineComment cs).2)

/-- string literal that may be triple-quoted (`tokenize_single_or_triple_quoted_string`) -/
def singleOrTriple (env : Env) (q : Nat) (bs : Bool) (single triple : List Nat → Token)
    (s : List Nat) : Res :=
  match scanSingleOrTriple q bs env.unescape s with
  | .error e => .error (.err e)
  | .ok (false, p, r) => .ok (single p, r)
  | .ok (true, p, r) => .ok (triple p, r)

/-- 707-744: `cs` = input after `b`/`B` -/
def lexByte (env : Env) (b : Nat) (cs : List Nat) : Res :=
  match cs with
  | 39 :: _ =>
    if env.row.flags.supports_triple_quoted_string then
      singleOrTriple env 39 false .singleQuotedByteStringLiteral .tripleSingleQuotedByteStringLiteral cs
    else ofScan .singleQuotedByteStringLiteral (scanSingleQuoted 39 false env.unescape cs)
  | 34 :: _ =>
    if env.row.flags.supports_triple_quoted_string then
      singleOrTriple env 34 false .doubleQuotedByteStringLiteral .tripleDoubleQuotedByteStringLiteral cs
    else ofScan .doubleQuotedByteStringLiteral (scanSingleQuoted 34 false env.unescape cs)
  | _ => wordFrom env [b] cs

/-- 746-771 -/
def lexRaw (env : Env) (b : Nat) (cs : List Nat) : Res :=
  match cs with
  | 39 :: _ =>
    singleOrTriple env 39 false .singleQuotedRawStringLiteral .tripleSingleQuotedRawStringLiteral cs
  | 34 :: _ =>
    singleOrTriple env 34 false .doubleQuotedRawStringLiteral .tripleDoubleQuotedRawStringLiteral cs
  | _ => wordFrom env [b] cs

/-- 773-787 and 824-838: `N'…'` / `X'…'`, backslash escapes switched on in every dialect -/
def lexPrefixed (env : Env) (mk : List Nat → Token) (c : Nat) (cs : List Nat) : Res :=
  match cs with
  | 39 :: _ => ofScan mk (scanSingleQuoted 39 true env.unescape cs)
  | _ => wordFrom env [c] cs

/-- 789-804: `E'…'`; the error is reported at the `E` -/
def lexEscaped (env : Env) (c : Nat) (cs : List Nat) : Res :=
  match cs with
  | 39 :: _ =>
    match scanEscaped cs with
    | some (p, r) => .ok (.escapedStringLiteral p, r)
    | none => .error (.err ⟨str "Unterminated encoded string literal", c :: cs⟩)
  | _ => wordFrom env [c] cs

/-- 806-821: `U&'…'` -/
def lexUnicode (env : Env) (c : Nat) (cs : List Nat) : Res :=
  match cs with
  | 38 :: 39 :: r => ofScan .unicodeStringLiteral (scanUnicode (39 :: r))
  | _ => wordFrom env [c] cs

/-- 840-858 and 860-880: `s` starts at the quote -/
def lexQuote (env : Env) (q : Nat) (single triple : List Nat → Token) (s : List Nat) : Res :=
  let bs := env.row.flags.supports_string_literal_backslash_escape
  if env.row.flags.supports_triple_quoted_string then singleOrTriple env q bs single triple s
  else ofScan single (scanSingleQuoted q bs env.unescape s)

/-- 882-901: delimited identifier; `cs` = input after the opening quote `c` -/
def lexQuotedIdent (env : Env) (c : Nat) (cs : List Nat) : Res :=
  match matchingEndQuote c with
  | none => .error (.panic (str "unexpected quoting style!"))
  | some qe =>
    match quotedIdentBody qe env.unescape cs with
    | some (p, r) => .ok (mkWord env p (some c), r)
    | none => .error (.err ⟨str "Expected close delimiter '" ++ [qe] ++ str "' before EOF.", c :: cs⟩)

/-- 931-938: the optional sign of an exponent, read on the cloned iterator -/
def expSign (r : List Nat) : List Nat :=
  match r with
  | sg :: _ => if sg = 43 ∨ sg = 45 then [sg] else []
  | [] => []

/-- 925-953: returns `exponent_part` (non-empty as soon as an `e`/`E` was seen, even when the
exponent is then discarded), the number text and the input left -/
def scanExponent (s3 r3 : List Nat) : List Nat × List Nat × List Nat :=
  match r3 with
  | [] => ([], s3, r3)
  | e :: r =>
    if e = 101 ∨ e = 69 then
      let part := e :: expSign r
      let r' := r.drop (expSign r).length
      match r' with
      | d :: _ =>
        if isAsciiDigit d then
          (part ++ r'.takeWhile isAsciiDigit, s3 ++ (part ++ r'.takeWhile isAsciiDigit),
            r'.dropWhile isAsciiDigit)
        else (part, s3, r3)
      | [] => (part, s3, r3)
    else ([], s3, r3)

/-- 918-973: after the optional period; `s2` = text so far, `r2` = input left -/
def lexNumberTail (env : Env) (s2 r2 : List Nat) : Res :=
  let s3 := s2 ++ r2.takeWhile isAsciiDigit
  let r3 := r2.dropWhile isAsciiDigit
  if s3 = [46] then .ok (.period, r3)
  else
    let part := (scanExponent s3 r3).1
    let s4 := (scanExponent s3 r3).2.1
    let r4 := (scanExponent s3 r3).2.2
    let word := r4.takeWhile env.isIdentPart
    if env.row.flags.supports_numeric_prefix ∧ part.isEmpty ∧ ¬ word.isEmpty then
      .ok (mkWord env (s4 ++ word) none, r4.dropWhile env.isIdentPart)
    else match r4 with
      | 76 :: r5 => .ok (.number s4 true, r5)
      | _ => .ok (.number s4 false, r4)

/-- 903-974: numbers, `0x…`, period, MySQL/Hive numeric-prefix identifiers; `s` starts at the digit
or period -/
def lexNumber (env : Env) (s : List Nat) : Res :=
  let s1 := s.takeWhile isAsciiDigit
  let r1 := s.dropWhile isAsciiDigit
  match (if s1 = [48] then r1 else []) with
  | 120 :: r2 => .ok (.hexStringLiteral (r2.takeWhile isAsciiHexdigit), r2.dropWhile isAsciiHexdigit)
  | _ =>
    match r1 with
    | 46 :: r => lexNumberTail env (s1 ++ [46]) r
    | _ => lexNumberTail env s1 r1

/-- 1274-1372: `cs` = input after the `$` -/
def lexDollar (env : Env) (cs : List Nat) : Res :=
  match cs with
  | 36 :: r =>
    match dollarUntaggedBody none r with
    | none => .error (.err ⟨str "Unterminated dollar-quoted string", []⟩)
    | some (p, r') => .ok (.dollarQuotedString p none, r')
  | _ =>
    let isTag := fun c => env.isAlphanumeric c || c == 95
    let value := cs.takeWhile isTag
    match cs.dropWhile isTag with
    | 36 :: r =>
      match dollarTaggedBody value none r with
      | .error e => .error (.err e)
      | .ok (p, r') => .ok (.dollarQuotedString p (if value.isEmpty then none else some value), r')
    | r1 => .ok (.placeholder (36 :: value), r1)

/-- 1594-1625 -/
def lexMultiLineComment (cs : List Nat) : Res :=
  ofScan (fun p => .whitespace (.multiLineComment p)) (scanMultiLineComment cs)

/-! The arms of `next_token` for one leading character; `cs` = input after that character. -/

def lexMinus (env : Env) (cs : List Nat) : Res :=
  match cs with
  | 45 :: r => lineComment "--" r
  | 62 :: r =>
    match r with
    | 62 :: r2 => binop env "->>" .longArrow r2
    | _ => binop env "->" .arrow r
  | _ => binop env "-" .minus cs

def lexSlash (env : Env) (cs : List Nat) : Res :=
  match cs with
  | 42 :: r => lexMultiLineComment r
  | 47 :: r =>
    if env.isSnowflake then lineComment "//" r
    else if env.isDuckDb || env.isGeneric then .ok (.duckIntDiv, r)
    else .ok (.div, cs)
  | _ => .ok (.div, cs)

def lexPercent (env : Env) (cs : List Nat) : Res :=
  match cs with
  | sch :: r =>
    if env.isWhitespace sch then .ok (.mod, cs)
    else if env.isIdentStart 37 then identOrKeyword env [37, sch] r
    else binop env "%" .mod cs
  | [] => binop env "%" .mod cs

def lexPipe (env : Env) (cs : List Nat) : Res :=
  match cs with
  | 47 :: r => binop env "|/" .pgSquareRoot r
  | 124 :: r =>
    match r with
    | 47 :: r2 => binop env "||/" .pgCubeRoot r2
    | _ => binop env "||" .stringConcat r
  | _ => binop env "|" .pipe cs

def lexEq (cs : List Nat) : Res :=
  match cs with
  | 62 :: r => .ok (.rArrow, r)
  | 61 :: r => .ok (.doubleEq, r)
  | _ => .ok (.eq, cs)

def lexBang (cs : List Nat) : Res :=
  match cs with
  | 61 :: r => .ok (.neq, r)
  | 33 :: r => .ok (.doubleExclamationMark, r)
  | 126 :: r =>
    match r with
    | 42 :: r2 => .ok (.exclamationMarkTildeAsterisk, r2)
    | 126 :: r2 =>
      match r2 with
      | 42 :: r3 => .ok (.exclamationMarkDoubleTildeAsterisk, r3)
      | _ => .ok (.exclamationMarkDoubleTilde, r2)
    | _ => .ok (.exclamationMarkTilde, r)
  | _ => .ok (.exclamationMark, cs)

def lexLt (env : Env) (cs : List Nat) : Res :=
  match cs with
  | 61 :: r =>
    match r with
    | 62 :: r2 => binop env "<=>" .spaceship r2
    | _ => binop env "<=" .ltEq r
  | 62 :: r => binop env "<>" .neq r
  | 60 :: r => binop env "<<" .shiftLeft r
  | 64 :: r => binop env "<@" .arrowAt r
  | _ => binop env "<" .lt cs

def lexGt (env : Env) (cs : List Nat) : Res :=
  match cs with
  | 61 :: r => binop env ">=" .gtEq r
  | 62 :: r => binop env ">>" .shiftRight r
  | _ => binop env ">" .gt cs

def lexColon (cs : List Nat) : Res :=
  match cs with
  | 58 :: r => .ok (.doubleColon, r)
  | 61 :: r => .ok (.assignment, r)
  | _ => .ok (.colon, cs)

def lexAmp (env : Env) (cs : List Nat) : Res :=
  match cs with
  | 38 :: r => binop env "&&" .overlap r
  | _ => binop env "&" .ampersand cs

def lexCaret (cs : List Nat) : Res :=
  match cs with
  | 64 :: r => .ok (.caretAt, r)
  | _ => .ok (.caret, cs)

def lexTilde (env : Env) (cs : List Nat) : Res :=
  match cs with
  | 42 :: r => binop env "~*" .tildeAsterisk r
  | 126 :: r =>
    match r with
    | 42 :: r2 => binop env "~~*" .doubleTildeAsterisk r2
    | _ => binop env "~~" .doubleTilde r
  | _ => binop env "~" .tilde cs

def lexSharp (env : Env) (cs : List Nat) : Res :=
  match cs with
  | 45 :: r => binop env "#-" .hashMinus r
  | 62 :: r =>
    match r with
    | 62 :: r2 => binop env "#>>" .hashLongArrow r2
    | _ => binop env "#>" .hashArrow r
  | sch :: r =>
    if env.isWhitespace sch then .ok (.sharp, cs)
    else if env.isIdentStart 35 then identOrKeyword env [35, sch] r
    else binop env "#" .sharp cs
  | [] => binop env "#" .sharp cs

def lexAt (env : Env) (cs : List Nat) : Res :=
  match cs with
  | 62 :: r => .ok (.atArrow, r)
  | 63 :: r => .ok (.atQuestion, r)
  | 64 :: r =>
    match r with
    | tch :: r2 =>
      if env.isWhitespace tch then .ok (.atAt, r)
      else if env.isIdentStart 64 then identOrKeyword env [64, 64, tch] r2
      else .ok (.atAt, r)
    | [] => .ok (.atAt, r)
  | sch :: r =>
    if env.isWhitespace sch then .ok (.atSign, cs)
    else if env.isIdentStart 64 then identOrKeyword env [64, sch] r
    else .ok (.atSign, cs)
  | [] => .ok (.atSign, cs)

def lexQuestionPg (cs : List Nat) : Res :=
  match cs with
  | 124 :: r => .ok (.questionPipe, r)
  | 38 :: r => .ok (.questionAnd, r)
  | _ => .ok (.question, cs)

def lexQuestion (env : Env) (cs : List Nat) : Res :=
  .ok (.placeholder (63 :: cs.takeWhile env.isNumeric), cs.dropWhile env.isNumeric)

/-- arms 1002-1238 (operators after `-`, identifiers, `$`, Unicode whitespace, `Char`) -/
def lexOp (env : Env) (c : Nat) (cs : List Nat) : Res :=
  if c = 47 then lexSlash env cs
  else if c = 43 then .ok (.plus, cs)
  else if c = 42 then .ok (.mul, cs)
  else if c = 37 then lexPercent env cs
  else if c = 124 then lexPipe env cs
  else if c = 61 then lexEq cs
  else if c = 33 then lexBang cs
  else if c = 60 then lexLt env cs
  else if c = 62 then lexGt env cs
  else if c = 58 then lexColon cs
  else if c = 59 then .ok (.semiColon, cs)
  else if c = 92 then .ok (.backslash, cs)
  else if c = 91 then .ok (.lBracket, cs)
  else if c = 93 then .ok (.rBracket, cs)
  else if c = 38 then lexAmp env cs
  else if c = 94 then lexCaret cs
  else if c = 123 then .ok (.lBrace, cs)
  else if c = 125 then .ok (.rBrace, cs)
  else if c = 35 ∧ (env.isSnowflake || env.isBigQuery) = true then lineComment "#" cs
  else if c = 126 then lexTilde env cs
  else if c = 35 then lexSharp env cs
  else if c = 64 then lexAt env cs
  else if c = 63 ∧ env.isPostgres = true then lexQuestionPg cs
  else if c = 63 then lexQuestion env cs
  else if env.isIdentStart c then identOrKeyword env [c] cs
  else if c = 36 then lexDollar env cs
  else if env.isWhitespace c then .ok (.whitespace .space, cs)
  else .ok (.char c, cs)

/-- arms 695-1001 (whitespace, literal prefixes, quotes, numbers, `( ) ,`, `-`), then `lexOp` -/
def lexHead (env : Env) (c : Nat) (cs : List Nat) : Res :=
  if c = 32 then .ok (.whitespace .space, cs)
  else if c = 9 then .ok (.whitespace .tab, cs)
  else if c = 10 then .ok (.whitespace .newline, cs)
  else if c = 13 then
    match cs with
    | 10 :: r => .ok (.whitespace .newline, r)
    | _ => .ok (.whitespace .newline, cs)
  else if (c = 66 ∨ c = 98) ∧ (env.isBigQuery || env.isGeneric) = true then lexByte env c cs
  else if (c = 82 ∨ c = 114) ∧ (env.isBigQuery || env.isGeneric) = true then lexRaw env c cs
  else if c = 78 ∨ c = 110 then lexPrefixed env .nationalStringLiteral c cs
  else if c = 101 ∨ c = 69 then lexEscaped env c cs
  else if (c = 117 ∨ c = 85) ∧ env.row.flags.supports_unicode_string_literal = true then
    lexUnicode env c cs
  else if c = 120 ∨ c = 88 then lexPrefixed env .hexStringLiteral c cs
  else if c = 39 then lexQuote env 39 .singleQuotedString .tripleSingleQuotedString (c :: cs)
  else if c = 34 ∧ env.isDelimStart c = false ∧ env.isIdentStart c = false then
    lexQuote env 34 .doubleQuotedString .tripleDoubleQuotedString (c :: cs)
  else if env.isDelimStart c = true ∧ env.properIdentInsideQuotes (c :: cs) = true then
    lexQuotedIdent env c cs
  else if isDigitOrDot c = true then lexNumber env (c :: cs)
  else if c = 40 then .ok (.lParen, cs)
  else if c = 41 then .ok (.rParen, cs)
  else if c = 44 then .ok (.comma, cs)
  else if c = 45 then lexMinus env cs
  else lexOp env c cs

/-- `next_token` (692-1238): `none` at end of input -/
def nextToken (env : Env) (s : List Nat) : Except LexErr (Option (Token × List Nat)) :=
  match s with
  | [] => .ok none
  | c :: cs =>
    match lexHead env c cs with
    | .error e => .error e
    | .ok r => .ok (some r)

/-! ## `State` and `tokenize_with_location` -/

/-- `Location` -/
structure Loc where
  line : Nat
  col : Nat
deriving Repr, DecidableEq

/-- the bookkeeping of `State::next` (508-521) for one character -/
def stepLoc (l : Loc) (c : Nat) : Loc :=
  if c = 10 then ⟨l.line + 1, 1⟩ else ⟨l.line, l.col + 1⟩

/-- `State::next` over a consumed stretch of input -/
def advance (l : Loc) (cs : List Nat) : Loc := cs.foldl stepLoc l

/-- `TokenizerError` (or a panic, or the loop's fuel running out, which never happens when `next`
makes progress: see `Lemmas/TokLemmas.lean`) -/
inductive TokErr where
  | lex (msg : List Nat) (loc : Loc)
  | panic (site : List Nat)
  | fuel
deriving Repr, DecidableEq

/-- what `s` looked like before `rest` was left: the consumed prefix -/
def consumed (s rest : List Nat) : List Nat := s.take (s.length - rest.length)

/-- locate an error of `next` called on `s` at location `loc` -/
def LexErr.locate (s : List Nat) (loc : Loc) : LexErr → TokErr
  | .err e => .lex e.msg (advance loc (consumed s e.rest))
  | .panic m => .panic m

/-- the loop of `tokenize_with_location_into_buf` (646-663), generic in the token function.
Each token is returned with the location before it and the slice of input it consumed. -/
def tokLoop {T : Type} (next : List Nat → Except LexErr (Option (T × List Nat))) :
    Nat → List Nat → Loc → Except TokErr (List (T × Loc × List Nat))
  | 0, _, _ => .error .fuel
  | fuel + 1, s, loc =>
    match next s with
    | .error e => .error (e.locate s loc)
    | .ok none => .ok []
    | .ok (some (t, rest)) =>
      match tokLoop next fuel rest (advance loc (consumed s rest)) with
      | .error e => .error e
      | .ok ts => .ok ((t, loc, consumed s rest) :: ts)

/-- tokens with their location and the input slice each one consumed -/
def tokenizeSpans (env : Env) (s : List Nat) : Except TokErr (List (Token × Loc × List Nat)) :=
  tokLoop (nextToken env) (s.length + 1) s ⟨1, 1⟩

def forgetSpan {T : Type} (x : T × Loc × List Nat) : T × Loc := (x.1, x.2.1)

/-- `Tokenizer::tokenize_with_location` -/
def tokenize (env : Env) (s : List Nat) : Except TokErr (List (Token × Loc)) :=
  match tokenizeSpans env s with
  | .error e => .error e
  | .ok ts => .ok (ts.map forgetSpan)

end SqlVerif.Tok

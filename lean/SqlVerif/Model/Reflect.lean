import SqlVerif.Model.SchemaTy
import SqlVerif.Model.Serde
import SqlVerif.Model.Visit
/-
Glue between the two generic models: a typed value of a schema (`Serde.Val`, what the harness
reflects out of the real AST through `serde::Serializer`) seen as the tree the derived `Visit`
impls walk (`Visit.Val`).  Hooks are looked up in the schema: the type-level hook of the
definition, the field-level hook of each field of the active variant; `Option`/`Vec`/`Box` are
`seq`; primitives are leaves.  The node's `data` is the variant index.

A field-level hook on a field of type `Vec<T>` is emitted by the derive once per ELEMENT
(`for item in &self.f { pre_h(item)?; item.visit(visitor)?; post_h(item)?; }`, derive/src/lib.rs
`visit_field`), not around the field.  That loop is, statement for statement, the body the derive
generates for a hook-less struct whose fields are the elements, each carrying the hook `h`; so such a
field is reflected as `(none, eachNode …)`: a node without type-level hook whose kids are the
elements, each with the field-level hook (`hookedVec`).  The generic walk of `Model/Visit.lean` and its
theorems apply unchanged.  A hooked field of any other type keeps the hook around the field.
-/
namespace SqlVerif.Reflect
open SqlVerif.Schema

/-- the `ty` of the node standing for a hooked `Vec` field: the first id that is not a type of the schema -/
def eachTy (sch : Schema) : Nat := sch.defs.length

/-- a `Vec` whose elements are each visited between the `pre`/`post` callbacks of the field-level
    hook `h`; `data` is the number of elements -/
def hookedVec (sch : Schema) (h : Nat) (elems : List Visit.Val) : Visit.Val :=
  .node (eachTy sch) elems.length none (elems.map fun e => (some h, e))

/-- a reflected field with its field-level hook: around each element for a `Vec` field (whose
    reflection is the `seq` of its elements), around the field otherwise -/
def hookField (sch : Schema) : Option Nat → Ty → Visit.Val → Option Nat × Visit.Val
  | some h, .vec _, .seq elems => (none, hookedVec sch h elems)
  | hk, _, x => (hk, x)

mutual
def toVisit (sch : Schema) : Ty → Serde.Val → Visit.Val
  | .opt _, .none => .seq []
  | .opt t, .some v => .seq [toVisit sch t v]
  | .vec t, .vec vs => .seq (toVisitList sch t vs)
  | .box t, .box v => .seq [toVisit sch t v]
  | .tup ts, .tup vs => .seq (toVisitTup sch ts vs)
  | .named id, .struct fs =>
    match sch.get? id with
    | some (.struct _ hk _ sh) => .node id 0 hk (toVisitFields sch sh.fields fs)
    | _ => .leaf 0
  | .named id, .variant k fs =>
    match sch.get? id with
    | some (.enum _ hk _ vs) =>
      match vs[k]? with
      | some v => .node id k hk (toVisitFields sch v.shape.fields fs)
      | none => .leaf 0
    | _ => .leaf 0
  | _, _ => .leaf 0
def toVisitList (sch : Schema) (t : Ty) : List Serde.Val → List Visit.Val
  | [] => []
  | v :: r => toVisit sch t v :: toVisitList sch t r
def toVisitTup (sch : Schema) : List Ty → List Serde.Val → List Visit.Val
  | t :: ts, v :: vs => toVisit sch t v :: toVisitTup sch ts vs
  | _, _ => []
def toVisitFields (sch : Schema) : List Field → List Serde.Val → List (Option Nat × Visit.Val)
  | f :: fs, v :: vs => hookField sch f.hook f.ty (toVisit sch f.ty v) :: toVisitFields sch fs vs
  | _, _ => []
end

mutual
/-- structural equality of typed values (the serde driver reports whether the model round trip
    returned the value it started from) -/
def beq : Serde.Val → Serde.Val → Bool
  | .unit, .unit => true
  | .bool a, .bool b => a == b
  | .uint a, .uint b => a == b
  | .sint a, .sint b => a == b
  | .char a, .char b => a == b
  | .str a, .str b => a == b
  | .none, .none => true
  | .some a, .some b => beq a b
  | .vec a, .vec b => beqList a b
  | .box a, .box b => beq a b
  | .tup a, .tup b => beqList a b
  | .struct a, .struct b => beqList a b
  | .variant i a, .variant j b => i == j && beqList a b
  | _, _ => false
def beqList : List Serde.Val → List Serde.Val → Bool
  | [], [] => true
  | a :: r, b :: r' => beq a b && beqList r r'
  | _, _ => false
end

end SqlVerif.Reflect

import SqlVerif.Model.Lists
import SqlVerif.Gen.Reserved
/-
Concrete instance of the list model for SQL tokens as the stream `lists` uses them: the only
things the helpers look at are "comma", the four closers and whether a word's keyword is in
`RESERVED_FOR_COLUMN_ALIAS` (dumped from the running crate into `Gen/Reserved.lean`).
-/
namespace SqlVerif.Lists

inductive STok
  | word (spelling : List Nat) (kw : Option Nat)   -- kw = keyword table index
  | comma | rparen | semi | rbracket | rbrace | lparen | number
deriving Repr, DecidableEq

def sqlClass : TokClass STok where
  isComma t := match t with | .comma => true | _ => false
  endsList t := match t with
    | .rparen | .semi | .rbracket | .rbrace => true
    | .word _ (some k) => SqlVerif.Gen.reservedForColumnAlias.contains k
    | _ => false

/-- `parse_identifier(false)` restricted to this alphabet: any word is an identifier -/
def parseIdent : List STok → Option (List Nat × List STok)
  | .word s _ :: rest => some (s, rest)
  | _ => none

end SqlVerif.Lists

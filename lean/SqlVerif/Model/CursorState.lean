import SqlVerif.Model.Cursor
/-
Cursor programs WITH the parser's mutable flags.

Besides `tokens`/`index` a `Parser` value carries three pieces of mutable state that survive a
call: `state : ParserState` (`Normal` | `ConnectBy`), `options.trailing_commas : bool` and the
remaining recursion depth (`recursion_counter`, an `Rc<Cell<usize>>`).  Reading `src/parser/mod.rs`
shows exactly three idioms that write them:

* `parse_projection` (~3394): `old = options.trailing_commas; options.trailing_commas |= v;
  ret = <one call>; options.trailing_commas = old; ret`  — restored on `Ok` and `Err` alike;
* `with_state` (~9360): `cur = state; state = s; res = f(self); state = cur; res` — ditto;
* `let _guard = recursion_counter.try_decrease()?; …` (~95): limit error when the depth is 0,
  otherwise depth − 1 for the rest of the function and `DepthGuard::drop` adds 1 back on every exit.

`ProgS` extends the deep embedding `Cursor.Prog` by these three idioms as *scoped* constructors
(`withTrailing`, `withState`, `withGuard`: body, then continuation), by `getFlags` (the flags can
be read anywhere: `is_parse_comma_separated_end`, `parse_actions_list`, the `PRIOR` arm of
`parse_prefix`) and by `attempt` (an error of the body is swallowed: `maybe_parse`, `.ok()`,
`if let Ok(..)`; the recursion-limit error is swallowed or not according to a flag — `maybe_parse`
propagates it, the `.ok()` sites swallow it).  `unescape` is never written after construction and is
not modelled.

One value type `α` is used for bodies and continuations (take a sum type when needed).
-/
namespace SqlVerif.CursorState
open SqlVerif.Cursor

/-- the parser fields that outlive a call -/
structure Flags where
  stateNormal : Bool
  trailingCommas : Bool
  depth : Nat
deriving Repr, DecidableEq

inductive ProgS (τ : Type) (α : Type) where
  | ret (a : α)
  | err (msg : Nat) (locRef : Option Nat)
  | peek (n : Nat) (k : Option τ → ProgS τ α)
  | next (k : Option τ → ProgS τ α)
  | prev (p : ProgS τ α)
  | save (slot : Nat) (p : ProgS τ α)
  | restore (slot : Nat) (p : ProgS τ α)
  | peekNoSkip (n : Nat) (k : Option τ → ProgS τ α)
  | nextNoSkip (k : Option τ → ProgS τ α)
  /-- read `state`, `options.trailing_commas`, remaining depth -/
  | getFlags (k : Flags → ProgS τ α)
  /-- `parse_projection`: `old = tc; tc |= v; r = body; tc = old; r?; k` -/
  | withTrailing (v : Bool) (body : ProgS τ α) (k : α → ProgS τ α)
  /-- `with_state`: `cur = state; state = …; r = body; state = cur; r?; k` -/
  | withState (normal : Bool) (body : ProgS τ α) (k : α → ProgS τ α)
  /-- `let _g = try_decrease()?; body` inside a function whose caller continues with `k` -/
  | withGuard (body : ProgS τ α) (k : α → ProgS τ α)
  /-- run `body`; an ordinary error is swallowed (`k none`, cursor left where the error occurred);
  the limit error is swallowed iff `swallowLimit` -/
  | attempt (swallowLimit : Bool) (body : ProgS τ α) (k : Option α → ProgS τ α)

/-- machine state: cursor, flags, saved indices, locations handed over so far -/
structure St (τ : Type) where
  cur : CState τ
  flags : Flags
  regs : Nat → Nat
  log : List Loc

/-- outcome with the machine state at the point where the run ended; the location reference of an
error is resolved by `Out.toRes` against the final log (the log only grows) -/
inductive Out (τ : Type) (α : Type) where
  | ok (a : α) (s : St τ)
  | err (msg : Nat) (locRef : Option Nat) (s : St τ)
  | limit (s : St τ)
  | panic

variable {τ α : Type}

def St.setTrailing (s : St τ) (b : Bool) : St τ := { s with flags := { s.flags with trailingCommas := b } }
def St.setNormal (s : St τ) (b : Bool) : St τ := { s with flags := { s.flags with stateNormal := b } }
def St.setDepth (s : St τ) (d : Nat) : St τ := { s with flags := { s.flags with depth := d } }

/-- the interpreter: cursor operations exactly as `Cursor.runC`, flags as the three idioms -/
def run (isWs : τ → Bool) : ProgS τ α → St τ → Out τ α
  | .ret a, s => .ok a s
  | .err m h, s => .err m h s
  | .peek n k, s =>
    let t := peekNth isWs s.cur n
    run isWs (k (t.map (·.tok))) { s with log := s.log ++ [locOf t] }
  | .next k, s =>
    let r := next isWs s.cur
    run isWs (k (r.1.map (·.tok))) { s with cur := r.2, log := s.log ++ [locOf r.1] }
  | .prev p, s =>
    match prev isWs s.cur with
    | none => .panic
    | some c => run isWs p { s with cur := c }
  | .save slot p, s => run isWs p { s with regs := fun x => if x = slot then s.cur.index else s.regs x }
  | .restore slot p, s => run isWs p { s with cur := { s.cur with index := s.regs slot } }
  | .peekNoSkip n k, s =>
    let t := peekNthNoSkip s.cur n
    run isWs (k (t.map (·.tok))) { s with log := s.log ++ [locOf t] }
  | .nextNoSkip k, s =>
    let r := nextNoSkip s.cur
    run isWs (k (r.1.map (·.tok))) { s with cur := r.2, log := s.log ++ [locOf r.1] }
  | .getFlags k, s => run isWs (k s.flags) s
  | .withTrailing v body k, s =>
    let old := s.flags.trailingCommas
    match run isWs body (s.setTrailing (old || v)) with
    | .ok a s' => run isWs (k a) (s'.setTrailing old)
    | .err m h s' => .err m h (s'.setTrailing old)
    | .limit s' => .limit (s'.setTrailing old)
    | .panic => .panic
  | .withState normal body k, s =>
    let old := s.flags.stateNormal
    match run isWs body (s.setNormal normal) with
    | .ok a s' => run isWs (k a) (s'.setNormal old)
    | .err m h s' => .err m h (s'.setNormal old)
    | .limit s' => .limit (s'.setNormal old)
    | .panic => .panic
  | .withGuard body k, s =>
    match s.flags.depth with
    | 0 => .limit s
    | d + 1 =>
      match run isWs body (s.setDepth d) with
      | .ok a s' => run isWs (k a) (s'.setDepth (s'.flags.depth + 1))
      | .err m h s' => .err m h (s'.setDepth (s'.flags.depth + 1))
      | .limit s' => .limit (s'.setDepth (s'.flags.depth + 1))
      | .panic => .panic
  | .attempt swallowLimit body k, s =>
    match run isWs body s with
    | .ok a s' => run isWs (k (some a)) s'
    | .err _ _ s' => run isWs (k none) s'
    | .limit s' => if swallowLimit then run isWs (k none) s' else .limit s'
    | .panic => .panic

/-- public outcome: value / positioned error / limit error, each with the final index and flags -/
inductive ResS (α : Type) where
  | ok (a : α) (pos : Nat) (f : Flags)
  | err (msg : Nat) (loc : Loc) (pos : Nat) (f : Flags)
  | limit (pos : Nat) (f : Flags)
  | panic
deriving Repr, DecidableEq

def resolve (log : List Loc) : Option Nat → Loc
  | none => eofLoc
  | some h => log.getD h eofLoc

def Out.toRes : Out τ α → ResS α
  | .ok a s => .ok a s.cur.index s.flags
  | .err m h s => .err m (resolve s.log h) s.cur.index s.flags
  | .limit s => .limit s.cur.index s.flags
  | .panic => .panic

/-- flags after the run; `none` = panic -/
def Out.flags? : Out τ α → Option Flags
  | .ok _ s => some s.flags
  | .err _ _ s => some s.flags
  | .limit s => some s.flags
  | .panic => none

def ResS.flags? : ResS α → Option Flags
  | .ok _ _ f => some f
  | .err _ _ _ f => some f
  | .limit _ f => some f
  | .panic => none

/-- outcome up to the reported location and the final index: value / error message / limit error,
each with the final flags -/
inductive ShapeS (α : Type) where
  | ok (a : α) (f : Flags)
  | err (msg : Nat) (f : Flags)
  | limit (f : Flags)
  | panic
deriving Repr, DecidableEq

def ResS.shape : ResS α → ShapeS α
  | .ok a _ f => .ok a f
  | .err m _ _ f => .err m f
  | .limit _ f => .limit f
  | .panic => .panic

/-- a parser positioned at `c` with flags `f` runs `p` -/
def runS (isWs : τ → Bool) (p : ProgS τ α) (c : CState τ) (f : Flags) : ResS α :=
  (run isWs p ⟨c, f, fun _ => 0, []⟩).toRes

/-- every `Cursor.Prog` is a `ProgS` that never touches the flags -/
def lift : Prog τ α → ProgS τ α
  | .ret a => .ret a
  | .err m h => .err m h
  | .peek n k => .peek n fun t => lift (k t)
  | .next k => .next fun t => lift (k t)
  | .prev p => .prev (lift p)
  | .save slot p => .save slot (lift p)
  | .restore slot p => .restore slot (lift p)
  | .peekNoSkip n k => .peekNoSkip n fun t => lift (k t)
  | .nextNoSkip k => .nextNoSkip fun t => lift (k t)

/-- the program never looks at whitespace tokens -/
inductive SkippingS : ProgS τ α → Prop
  | ret (a) : SkippingS (.ret a)
  | err (m h) : SkippingS (.err m h)
  | peek (n k) : (∀ t, SkippingS (k t)) → SkippingS (.peek n k)
  | next (k) : (∀ t, SkippingS (k t)) → SkippingS (.next k)
  | prev (p) : SkippingS p → SkippingS (.prev p)
  | save (slot p) : SkippingS p → SkippingS (.save slot p)
  | restore (slot p) : SkippingS p → SkippingS (.restore slot p)
  | getFlags (k) : (∀ f, SkippingS (k f)) → SkippingS (.getFlags k)
  | withTrailing (v body k) : SkippingS body → (∀ a, SkippingS (k a)) → SkippingS (.withTrailing v body k)
  | withState (n body k) : SkippingS body → (∀ a, SkippingS (k a)) → SkippingS (.withState n body k)
  | withGuard (body k) : SkippingS body → (∀ a, SkippingS (k a)) → SkippingS (.withGuard body k)
  | attempt (b body k) : SkippingS body → (∀ a, SkippingS (k a)) → SkippingS (.attempt b body k)


/-! ## Model programs of the three real functions that write the flags

Used by the correspondence stream `cursorstate` (Driver/CursorState.lean against the real
`parse_projection`, `parse_expr`, `parse_connect_by`, `parse_query`).  Token alphabet of the stream:
whitespace, words (with a keyword class and the answer of
`RESERVED_FOR_COLUMN_ALIAS.contains(&w.keyword)`, computed by the real code), `,` `(` `)` `;`.

What is simplified (everything else follows the Rust text line by line):
* the element parser `parse_expr` knows only: a word (identifier), `PRIOR e` when the state is
  `ConnectBy`, a parenthesised comma list; any other first token is the error "an expression".
  No operators, literals or function calls: a word directly followed by `(` is answered
  `UNSUPPORTED` (message 98), as is `(` followed by `SELECT`/`WITH` (sub-query).
* the typed-string probe at the head of `parse_prefix`
  (`maybe_parse(|p| match p.parse_data_type()? {…})`) is a guarded body that always fails: on the
  alphabet (no string literals) it cannot succeed; it takes one depth level, and `maybe_parse`
  restores the index unless the limit error comes out (which it propagates without restoring).
* `parse_query` is `SELECT <word> FROM <word>` consumed token by token under its own depth guard,
  then the `START`/`CONNECT` test of `parse_select`; nothing after the clause is consumed (a bare
  `BY` right after the clause, which Generic/ClickHouse read as `LIMIT BY`, is `UNSUPPORTED`).
* error locations are not reported (message numbers only).
-/
namespace Real

inductive FTok where
  | ws
  | word (kw : Nat) (resv : Bool)
  | comma | lparen | rparen | semi
deriving Repr, DecidableEq

def FTok.isWs : FTok → Bool
  | .ws => true
  | _ => false

/-- keyword classes of the alphabet (0 = not a keyword / quoted) -/
def kFROM := 1
def kPRIOR := 2
def kCONNECT := 3
def kBY := 4
def kSTART := 5
def kWITH := 6
def kAS := 7
def kSELECT := 8

abbrev P := ProgS FTok Nat

def kwIs (t : Option FTok) (kw : Nat) : Bool :=
  match t with
  | some (.word k _) => k == kw
  | _ => false

/-- message numbers: 1 expected token, 2 an expression, 3 expected keyword, 4 `FROM` as select
item, 5 identifier after AS, 98 outside the modelled fragment, 99 out of fuel (never with
fuel > number of tokens) -/
def unsupported : P := .err 98 none

/-- `parse_keyword` -/
def parseKeyword (kw : Nat) (k : Bool → P) : P :=
  .peek 0 fun t => if kwIs t kw then .next fun _ => k true else k false

/-- `parse_keywords(&[a, b])` -/
def parseKeywords2 (a b : Nat) (k : Bool → P) : P :=
  .save 1 (parseKeyword a fun ok => if !ok then .restore 1 (k false) else
    parseKeyword b fun ok => if !ok then .restore 1 (k false) else k true)

/-- `expect_keyword` -/
def expectKeyword (kw : Nat) (k : P) : P :=
  parseKeyword kw fun ok => if ok then k else .peek 0 fun _ => .err 3 none

/-- `expect_token` -/
def expectTok (t : FTok) (k : P) : P :=
  .peek 0 fun x => if x = some t then .next fun _ => k else .peek 0 fun _ => .err 1 none

/-- `is_parse_comma_separated_end` -/
def isEnd (k : Bool → P) : P :=
  .peek 0 fun x =>
    if x = some .comma then
      .next fun _ => .getFlags fun f =>
        if f.trailingCommas then
          .peek 0 fun y =>
            match y with
            | some (.word _ true) => k true
            | some .rparen | some .semi | none => k true
            | _ => k false
        else k false
    else k true

/-- `parse_comma_separated(item)`; value = number of items -/
def listOf (item : (Nat → P) → P) : Nat → (Nat → P) → P
  | 0, _ => .err 99 none
  | fuel + 1, k => item fun _ => isEnd fun e => if e then k 1 else listOf item fuel fun n => k (n + 1)

/-- the typed-string probe of `parse_prefix` -/
def probe (k : P) : P :=
  .peek 0 fun _ => .save 2 (.attempt false (.withGuard (.err 0 none) .ret) fun _ => .restore 2 k)

/-- `parse_subexpr`; value 2 = a bare unquoted identifier that is the keyword FROM, 1 = anything else -/
def expr : Nat → (Nat → P) → P
  | 0, _ => .err 99 none
  | fuel + 1, k =>
    .withGuard (probe (.next fun t =>
      (match t with
      | some (.word kw _) =>
        .getFlags fun f =>
          if kw == kPRIOR && !f.stateNormal then expr fuel fun _ => .ret 1
          else .peek 0 fun y => if y = some .lparen then unsupported else .ret (if kw == kFROM then 2 else 1)
      | some .lparen =>
        .peek 0 fun y => if kwIs y kSELECT || kwIs y kWITH then unsupported else
          listOf (expr fuel) fuel fun _ => expectTok .rparen (.peek 0 fun _ => .ret 1)
      | _ => .err 2 none)))
      -- the precedence loop: one look at the next token, which binds nothing on this alphabet
      (fun v => .peek 0 fun _ => k v)

/-- `parse_optional_alias(RESERVED_FOR_COLUMN_ALIAS)` -/
def optionalAlias (k : P) : P :=
  parseKeyword kAS fun afterAs => .next fun t =>
    match t with
    | some (.word _ resv) => if afterAs || !resv then k else if afterAs then .err 5 none else .prev k
    | _ => if afterAs then .err 5 none else .prev k

/-- `parse_select_item` (through `parse_wildcard_expr`) -/
def selectItem (fuel : Nat) (k : Nat → P) : P :=
  let rest : P := .restore 0 (expr fuel fun v => if v == 2 then .err 4 none else optionalAlias (k 1))
  .peek 0 fun _ => .save 0 (.next fun t =>
    match t with
    | some (.word _ _) => .peek 0 fun _ => rest
    | _ => rest)

/-- `parse_projection`; `v` = `dialect.supports_projection_trailing_commas()` -/
def projection (v : Bool) (fuel : Nat) : P :=
  .withTrailing v (listOf (selectItem fuel) fuel .ret) .ret

/-- `parse_expr` -/
def exprTop (fuel : Nat) : P := expr fuel fun _ => .ret 1

def connectByList (fuel : Nat) (k : Nat → P) : P :=
  .withState false (listOf (expr fuel) fuel .ret) k

/-- `parse_connect_by`; value = number of relationships -/
def connectBy (fuel : Nat) (k : Nat → P) : P :=
  parseKeywords2 kCONNECT kBY fun ok =>
    if ok then
      connectByList fuel fun n => expectKeyword kSTART (expectKeyword kWITH (expr fuel fun _ => k n))
    else
      expectKeyword kSTART (expectKeyword kWITH (expr fuel fun _ =>
        expectKeyword kCONNECT (expectKeyword kBY (connectByList fuel k))))

/-- `parse_query` on `SELECT w FROM w <clause>` -/
def queryCB (fuel : Nat) : P :=
  .withGuard (.next fun _ => .next fun _ => .next fun _ => .next fun _ => .peek 0 fun t =>
    if kwIs t kSTART || kwIs t kCONNECT then
      .next fun _ => .prev (connectBy fuel fun n =>
        -- the tail of `parse_query` looks for ORDER BY, LIMIT, … ; on this alphabet only a bare `BY`
        -- (ClickHouse/Generic `LIMIT … BY`, tested without a preceding LIMIT) would be consumed
        .peek 0 fun y => if kwIs y kBY then unsupported else .ret n)
    else unsupported) .ret

end Real

end SqlVerif.CursorState

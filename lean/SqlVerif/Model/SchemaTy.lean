/-
The shape of the AST schema that `translator schema` extracts from the Rust sources
(`Gen/Schema.lean` is a value of `Schema`).  Everything a `decide` has to reduce is a `Nat`:
type ids are positions in `Schema.defs`, names (type, variant, field names) are ids into the
generated name table, hook ids are 0 query, 1 relation, 2 table_factor, 3 expr, 4 statement.
Shared by the traversal model (C16, `Model/Visit.lean`) and the serde model (C17, `Model/Serde.lean`).
-/
namespace SqlVerif.Schema

/-- a field type expression; generic definitions are monomorphised by the translator -/
inductive Ty where
  | unit                      -- `()`
  | bool
  | uint                      -- u8 … u64, usize
  | sint                      -- i8 … i64, isize
  | char
  | str                       -- String
  | float                     -- f32 / f64: outside the serde model (never `SerdeSafe`)
  | other                     -- anything the translator could not classify
  | opt (t : Ty)
  | vec (t : Ty)
  | box (t : Ty)
  | tup (ts : List Ty)
  | named (id : Nat)
  deriving Repr, Inhabited

/-- one field of a struct / variant: name id (or position for unnamed fields), type,
    field-level `visit(with = …)` hook, number of `serde(…)` attributes on it -/
structure Field where
  name : Nat
  ty : Ty
  hook : Option Nat
  attrs : Nat
  deriving Repr, Inhabited

/-- the four shapes serde_derive distinguishes (one unnamed field = newtype) -/
inductive Shape where
  | unit
  | newtype (f : Field)
  | tuple (fs : List Field)
  | struct (fs : List Field)
  deriving Repr, Inhabited

structure Variant where
  name : Nat
  shape : Shape
  attrs : Nat
  deriving Repr, Inhabited

/-- `name` = name id of the Rust identifier (what serde calls the type), `hook` = type-level
    `visit(with = …)`, `attrs` = number of `serde(…)` attributes on the definition -/
inductive TypeDef where
  | struct (name : Nat) (hook : Option Nat) (attrs : Nat) (shape : Shape)
  | enum (name : Nat) (hook : Option Nat) (attrs : Nat) (variants : List Variant)
  deriving Repr, Inhabited

structure Schema where
  defs : List TypeDef
  deriving Repr, Inhabited

def Schema.get? (s : Schema) (id : Nat) : Option TypeDef := s.defs[id]?

def Shape.fields : Shape → List Field
  | .unit => []
  | .newtype f => [f]
  | .tuple fs => fs
  | .struct fs => fs

def TypeDef.hook : TypeDef → Option Nat
  | .struct _ h _ _ => h
  | .enum _ h _ _ => h

def TypeDef.name : TypeDef → Nat
  | .struct n _ _ _ => n
  | .enum n _ _ _ => n

def TypeDef.attrs : TypeDef → Nat
  | .struct _ _ a _ => a
  | .enum _ _ a _ => a

/-- the variants of a definition; a struct counts as one variant -/
def TypeDef.shapes : TypeDef → List Shape
  | .struct _ _ _ sh => [sh]
  | .enum _ _ _ vs => vs.map (·.shape)

end SqlVerif.Schema

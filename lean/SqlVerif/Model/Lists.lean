/-
Model of the comma-separated list helpers of `src/parser/mod.rs`:
`is_parse_comma_separated_end`, `parse_comma_separated`, `parse_comma_separated0`,
`parse_projection` (option flip).  The token stream is the list of non-whitespace tokens; the
empty list is EOF.  The token type and its classification are parameters.
-/
namespace SqlVerif.Lists

/-- what the helpers look at in a token -/
structure TokClass (τ : Type) where
  isComma : τ → Bool
  /-- `)`, `;`, `]`, `}` or a word whose keyword is in `RESERVED_FOR_COLUMN_ALIAS` -/
  endsList : τ → Bool

/-- the peeked token ends the list (EOF included) -/
def peekEnds {τ : Type} (c : TokClass τ) : List τ → Bool
  | [] => true
  | t :: _ => c.endsList t

/-- `is_parse_comma_separated_end`: (list is finished, remaining tokens) -/
def commaSepEnd {τ : Type} (c : TokClass τ) (tc : Bool) : List τ → Bool × List τ
  | [] => (true, [])
  | t :: rest =>
    if c.isComma t then
      if tc then (peekEnds c rest, rest) else (false, rest)
    else (true, t :: rest)

/-- `parse_comma_separated(f)`; `f` parses one element and returns the remaining tokens.
Fuel bounds the number of elements (every element is followed by a consumed comma). -/
def commaSep {τ α : Type} (c : TokClass τ) (tc : Bool) (f : List τ → Option (α × List τ)) :
    Nat → List τ → Option (List α × List τ)
  | 0, _ => none
  | fuel + 1, ts =>
    match f ts with
    | none => none
    | some (v, rest) =>
      match commaSepEnd c tc rest with
      | (true, rest') => some ([v], rest')
      | (false, rest') =>
        match commaSep c tc f fuel rest' with
        | none => none
        | some (vs, rest'') => some (v :: vs, rest'')

/-- `parse_comma_separated0(f, end_token)` -/
def commaSep0 {τ α : Type} [DecidableEq τ] (c : TokClass τ) (tc : Bool) (f : List τ → Option (α × List τ))
    (endTok : τ) (fuel : Nat) (ts : List τ) : Option (List α × List τ) :=
  match ts with
  | t :: rest =>
    if t = endTok then some ([], ts)
    else if tc && c.isComma t && (match rest with | e :: _ => decide (e = endTok) | [] => false) then some ([], rest)
    else commaSep c tc f fuel ts
  | [] => commaSep c tc f fuel ts

/-- `parse_projection`: the option is widened for the projection list only and restored after;
the state component is returned explicitly -/
def projection {τ α : Type} (c : TokClass τ) (dialectProjectionCommas : Bool)
    (f : List τ → Option (α × List τ)) (fuel : Nat) (tc : Bool) (ts : List τ) :
    Option (List α × List τ) × Bool :=
  let old := tc
  let ret := commaSep c (tc || dialectProjectionCommas) f fuel ts
  (ret, old)

end SqlVerif.Lists

/-!
Model of the precedence climbing over set operations (`src/parser/mod.rs`: `parse_query`,
`parse_query_body`, `parse_remaining_set_exprs`, `parse_set_operator`, `parse_set_quantifier`)
for property C04, with parentheses and the recursion counter.

Token alphabet: `sel n` stands for the two tokens `SELECT n` (any body without set operations),
the three operators, the four quantifier keywords, parentheses; `other` is anything else and makes
the model answer `unsupported`.  `depth` is `RecursionCounter::remaining_depth`: `parse_query`
keeps one level while it runs, the expression of `SELECT n` takes two more for a moment.
(`Model/SetOps.lean` is an older, parenthesis-free variant used by C03 for the activation depth.)
-/
namespace SqlVerif.SetClimb

inductive Op | union | except | intersect
deriving Repr, DecidableEq

/-- `ast::SetQuantifier` -/
inductive SQuant | all | distinct | byName | allByName | distinctByName | none
deriving Repr, DecidableEq

inductive STok
  | sel (n : Nat)
  | op (o : Op)
  | all | distinct | by_ | name
  | lparen | rparen
  | other
deriving Repr, DecidableEq

inductive SetExpr
  /-- `SetExpr::Select` (`SELECT n`) -/
  | sel (n : Nat)
  /-- `SetExpr::Query`: `( body )` -/
  | query (e : SetExpr)
  /-- `SetExpr::SetOperation`; `ops` = the operator token and its quantifier tokens -/
  | setOp (l : SetExpr) (o : Op) (q : SQuant) (ops : List STok) (r : SetExpr)
deriving Repr, DecidableEq

inductive Err
  | rle
  /-- `Expected: <what>, found: <token>` -/
  | expected (what : String) (found : Option STok)
  | unsupported
  | fuel
deriving Repr, DecidableEq

abbrev Res := Except Err (SetExpr × List STok)

/-- `next_precedence` of the loop in `parse_remaining_set_exprs` -/
def precOf : Op → Nat
  | .union => 10
  | .except => 10
  | .intersect => 20

/-- precedence of the next token as the loop sees it (`None => break` is level 0) -/
def nextPrec : List STok → Nat
  | .op o :: _ => precOf o
  | _ => 0

/-- `parse_set_quantifier`: quantifier, its tokens, the rest -/
def quantTail (ts : List STok) : SQuant × List STok × List STok :=
  match ts with
  | .distinct :: .by_ :: .name :: rest => (.distinctByName, [.distinct, .by_, .name], rest)
  | .by_ :: .name :: rest => (.byName, [.by_, .name], rest)
  | .all :: .by_ :: .name :: rest => (.allByName, [.all, .by_, .name], rest)
  | .all :: rest => (.all, [.all], rest)
  | .distinct :: rest => (.distinct, [.distinct], rest)
  | rest => (.none, [], rest)

/-- tokens the model does not follow after a complete body (they could be absorbed by the real
`SELECT`, e.g. as an alias, or start a clause) -/
def strayAhead : List STok → Bool
  | .all :: _ | .distinct :: _ | .by_ :: _ | .name :: _ | .other :: _ => true
  | _ => false

mutual

/-- `parse_query`: one guard level, body at precedence 0 -/
def parseQuery : Nat → Nat → List STok → Res
  | 0, _, _ => .error .fuel
  | _ + 1, 0, _ => .error .rle
  | f + 1, d + 1, ts => queryBody f d 0 ts

/-- `parse_query_body(prec)` -/
def queryBody : Nat → Nat → Nat → List STok → Res
  | 0, _, _, _ => .error .fuel
  | f + 1, d, prec, ts =>
    match ts with
    | .sel n :: rest =>
      -- the projection expression takes two levels for a moment (parse_subexpr + the probe of parse_prefix)
      if d < 2 then .error .rle
      else if strayAhead rest then .error .unsupported
      else remaining f d (.sel n) prec rest
    | .lparen :: rest =>
      match parseQuery f d rest with
      | .error e => .error e
      | .ok (e, rest') =>
        match rest' with
        | .rparen :: rest'' => if strayAhead rest'' then .error .unsupported else remaining f d (.query e) prec rest''
        | .other :: _ => .error .unsupported
        | _ => .error (.expected ")" rest'.head?)
    | .other :: _ => .error .unsupported
    | _ => .error (.expected "SELECT, VALUES, or a subquery in the query body" ts.head?)

/-- `parse_remaining_set_exprs(e, prec)` -/
def remaining : Nat → Nat → SetExpr → Nat → List STok → Res
  | 0, _, _, _, _ => .error .fuel
  | f + 1, d, e, prec, ts =>
    match ts with
    | .op o :: rest =>
      if prec ≥ precOf o then .ok (e, ts)
      else
        match queryBody f d (precOf o) (quantTail rest).2.2 with
        | .error er => .error er
        | .ok (r, rest') =>
          remaining f d (.setOp e o (quantTail rest).1 (.op o :: (quantTail rest).2.1) r) prec rest'
    | _ => .ok (e, ts)

end

end SqlVerif.SetClimb

import SqlVerif.Model.Dml
/-!
Executable model of a SECOND statement fragment of `src/parser/mod.rs`, on top of the statement
model `Model/Dml.lean` (whose column-definition parser, name / identifier lists and helpers are
re-used, not copied), the query model, the expression model and the data-type model:

* `parse_create` → `parse_create_view`: `CREATE [OR REPLACE] [TEMP|TEMPORARY] [MATERIALIZED] VIEW
  [IF NOT EXISTS] name [(cols)] AS query` (`parse_view_columns` / `parse_view_column`; the options
  `WITH (…)`, `CLUSTER BY`, `OPTIONS (…)`, `TO name`, `COMMENT = '…'`, `WITH NO SCHEMA BINDING` are
  outside the fragment at the keyword where the real code branches, under its dialect test);
* `parse_create` → `parse_create_index`: `CREATE [TEMP] [UNIQUE] INDEX [CONCURRENTLY] [IF NOT EXISTS]
  [name] ON table [USING m] (order-by exprs) [INCLUDE (ids)] [NULLS [NOT] DISTINCT] [WHERE e]`
  (`WITH (…)` outside the fragment in the dialects that have it);
* `parse_alter` → `ALTER TABLE [IF EXISTS] [ONLY] name op, …` with `parse_alter_table_operation`
  for `ADD [COLUMN] [IF NOT EXISTS] coldef`, `DROP [COLUMN] [IF EXISTS] name [CASCADE]`,
  `RENAME [COLUMN] a TO b`, `RENAME TO name`, `ALTER [COLUMN] c SET NOT NULL | DROP NOT NULL |
  SET DEFAULT e | DROP DEFAULT`; every other operation is outside the fragment;
* `parse_truncate`: `TRUNCATE [TABLE] [ONLY] names [RESTART|CONTINUE IDENTITY] [CASCADE|RESTRICT]`
  (the last two in PostgreSQL / Generic only; `PARTITION (…)`, `ON CLUSTER` outside);
* `parse_drop` for the object kinds VIEW, INDEX, ROLE, SCHEMA, DATABASE, SEQUENCE, STAGE, TYPE;
* every other statement is handed to `Dml.parseStmt`, so the fragment is an extension of the one
  of `Model/Dml.lean` and scripts may mix both.

Oddities of the real code that are mirrored: `ADD IF NOT EXISTS` is consumed in every dialect and
kept in four; `DROP PRIMARY KEY` / `DROP PROJECTION` are consumed BEFORE their dialect test, so in the
other dialects `ALTER TABLE t DROP PRIMARY KEY x` drops the column `x`; `CREATE TEMP INDEX` accepts
and forgets `TEMP`; `CREATE INDEX IF NOT EXISTS ON …` takes `ON` as the index name.
Conventions are those of `Model/Dml.lean`.
-/
namespace SqlVerif.Ddl
open SqlVerif.Pratt SqlVerif.Query SqlVerif.Dml SqlVerif.Gen

-- ------------------------------------------------------------------ configuration
structure XCfg where
  d : DCfg
  isClickHouse : Bool
  isRedshift : Bool
  /-- `dialect_of!(self is BigQueryDialect|SQLiteDialect|GenericDialect)`: `CREATE VIEW IF NOT EXISTS` -/
  viewIfne : Bool
  /-- `dialect_of!(self is PostgreSqlDialect | BigQueryDialect | DuckDbDialect | GenericDialect)`:
  `ADD [COLUMN] IF NOT EXISTS` is kept -/
  addIne : Bool
  /-- `supports_create_index_with_clause` -/
  indexWith : Bool

def XCfg.ofRow (r : DialectRow) : XCfg :=
  { d := DCfg.ofRow r
    isClickHouse := r.name == "clickhouse"
    isRedshift := r.name == "redshift"
    viewIfne := ["bigquery", "sqlite", "generic"].contains r.name
    addIne := ["postgresql", "bigquery", "duckdb", "generic"].contains r.name
    indexWith := r.flags.supports_create_index_with_clause }

/-- the same dialect with `ParserOptions::trailing_commas` set explicitly -/
def XCfg.withTrailing (c : XCfg) (tc : Bool) : XCfg := { c with d := c.d.withTrailing tc }

/-- `self.options.trailing_commas` -/
def XCfg.tc (c : XCfg) : Bool := c.d.tc

namespace XK
def CREATE := kwIndex "CREATE"
def OR := kwIndex "OR"
def REPLACE := kwIndex "REPLACE"
def LOCAL := kwIndex "LOCAL"
def GLOBAL := kwIndex "GLOBAL"
def TRANSIENT := kwIndex "TRANSIENT"
def MATERIALIZED := kwIndex "MATERIALIZED"
def VIEW := kwIndex "VIEW"
def IF := kwIndex "IF"
def NOT := kwIndex "NOT"
def EXISTS := kwIndex "EXISTS"
def WITH := kwIndex "WITH"
def CLUSTER := kwIndex "CLUSTER"
def OPTIONS := kwIndex "OPTIONS"
def TO := kwIndex "TO"
def COMMENT := kwIndex "COMMENT"
def AS := kwIndex "AS"
def NO := kwIndex "NO"
def SCHEMA := kwIndex "SCHEMA"
def BINDING := kwIndex "BINDING"
def INDEX := kwIndex "INDEX"
def UNIQUE := kwIndex "UNIQUE"
def CONCURRENTLY := kwIndex "CONCURRENTLY"
def ON := kwIndex "ON"
def USING := kwIndex "USING"
def INCLUDE := kwIndex "INCLUDE"
def NULLS := kwIndex "NULLS"
def DISTINCT := kwIndex "DISTINCT"
def WHERE := kwIndex "WHERE"
def ALTER := kwIndex "ALTER"
def TABLE := kwIndex "TABLE"
def ROLE := kwIndex "ROLE"
def POLICY := kwIndex "POLICY"
def ONLY := kwIndex "ONLY"
def LOCATION := kwIndex "LOCATION"
def SET := kwIndex "SET"
def ADD := kwIndex "ADD"
def CONSTRAINT := kwIndex "CONSTRAINT"
def PRIMARY := kwIndex "PRIMARY"
def FOREIGN := kwIndex "FOREIGN"
def CHECK := kwIndex "CHECK"
def KEY := kwIndex "KEY"
def FULLTEXT := kwIndex "FULLTEXT"
def SPATIAL := kwIndex "SPATIAL"
def PROJECTION := kwIndex "PROJECTION"
def PARTITION := kwIndex "PARTITION"
def COLUMN := kwIndex "COLUMN"
def FIRST := kwIndex "FIRST"
def AFTER := kwIndex "AFTER"
def RENAME := kwIndex "RENAME"
def DISABLE := kwIndex "DISABLE"
def ENABLE := kwIndex "ENABLE"
def CLEAR := kwIndex "CLEAR"
def MATERIALIZE := kwIndex "MATERIALIZE"
def DROP := kwIndex "DROP"
def CASCADE := kwIndex "CASCADE"
def RESTRICT := kwIndex "RESTRICT"
def PURGE := kwIndex "PURGE"
def CHANGE := kwIndex "CHANGE"
def MODIFY := kwIndex "MODIFY"
def NULL := kwIndex "NULL"
def DEFAULT := kwIndex "DEFAULT"
def DATA := kwIndex "DATA"
def TYPE := kwIndex "TYPE"
def GENERATED := kwIndex "GENERATED"
def SWAP := kwIndex "SWAP"
def OWNER := kwIndex "OWNER"
def ATTACH := kwIndex "ATTACH"
def DETACH := kwIndex "DETACH"
def FREEZE := kwIndex "FREEZE"
def UNFREEZE := kwIndex "UNFREEZE"
def TBLPROPERTIES := kwIndex "TBLPROPERTIES"
def TRUNCATE := kwIndex "TRUNCATE"
def RESTART := kwIndex "RESTART"
def CONTINUE := kwIndex "CONTINUE"
def IDENTITY := kwIndex "IDENTITY"
def DATABASE := kwIndex "DATABASE"
def SEQUENCE := kwIndex "SEQUENCE"
def STAGE := kwIndex "STAGE"
end XK

/-- `IF NOT EXISTS` -/
def ineKws : List Nat := [XK.IF, XK.NOT, XK.EXISTS]
/-- `IF EXISTS` -/
def ieKws : List Nat := [XK.IF, XK.EXISTS]

-- ------------------------------------------------------------------ AST (every node keeps its tokens)
/-- `ViewColumnDef`: the name and (ClickHouse) the data type with the tokens it was read from -/
structure ViewCol where
  name : Tok
  ty : Option SqlVerif.DTy.DT
  tyToks : List Tok
deriving Repr, DecidableEq

structure CreateView where
  kw : Tok
  /-- `[OR, REPLACE]` or `[]` -/
  orReplace : List Tok
  /-- `[TEMP]` / `[TEMPORARY]` / `[]` -/
  temp : List Tok
  /-- `[MATERIALIZED]` or `[]` -/
  mat : List Tok
  viewKw : Tok
  /-- `[IF, NOT, EXISTS]` or `[]` -/
  ifne : List Tok
  name : List Tok
  /-- `(` or `[]` -/
  lp : List Tok
  cols : Sep ViewCol
  /-- `)` or `[]` -/
  rp : List Tok
  asKw : Tok
  query : Source
deriving Repr, DecidableEq

/-- `CREATE INDEX` from `CONCURRENTLY` to the `(` of the column list -/
structure IdxHead where
  conc : List Tok
  ifne : List Tok
  /-- the index name, `[]` when absent -/
  name : List Tok
  onKw : Tok
  table : List Tok
  /-- `[USING, method]` or `[]` -/
  usingToks : List Tok
  lp : Tok
deriving Repr, DecidableEq

/-- `CREATE INDEX` after the `)` of the column list -/
structure IdxTail where
  /-- `[INCLUDE]` or `[]` -/
  inclKw : List Tok
  incl : ParenIds
  /-- `[]`, `[NULLS, DISTINCT]`, `[NULLS, NOT, DISTINCT]` -/
  nulls : List Tok
  whereKw : List Tok
  pred : Option Expr
deriving Repr, DecidableEq

structure CreateIndex where
  kw : Tok
  /-- `[TEMP]` / `[TEMPORARY]` / `[]` (accepted, not stored by the real parser) -/
  temp : List Tok
  /-- `[INDEX]` or `[UNIQUE, INDEX]` -/
  idxKws : List Tok
  hd : IdxHead
  cols : Sep OrderByExpr
  rp : Tok
  tl : IdxTail
deriving Repr, DecidableEq

inductive AlterColOp
  | setNotNull
  | dropNotNull
  | setDefault (e : Expr)
  | dropDefault
deriving Repr, DecidableEq

inductive AlterOp
  /-- `ADD [IF NOT EXISTS] [COLUMN] [IF NOT EXISTS] coldef`; `keep` = the dialect keeps `IF NOT EXISTS` -/
  | addColumn (addKw : Tok) (ine1 colKw ine2 : List Tok) (keep : Bool) (cd : ColDef)
  /-- `DROP [PRIMARY KEY] [PROJECTION] [COLUMN] [IF EXISTS] name [CASCADE]`; `sw` = the keywords
  consumed before their dialect test failed -/
  | dropColumn (dropKw : Tok) (sw colKw ifExists : List Tok) (name : Tok) (cascade : List Tok)
  | renameColumn (renKw : Tok) (colKw : List Tok) (old toKw new : Tok)
  | renameTable (renKw toKw : Tok) (name : List Tok)
  /-- `ALTER [COLUMN] name <opToks> [expr]` -/
  | alterColumn (altKw : Tok) (colKw : List Tok) (name : Tok) (opToks : List Tok) (op : AlterColOp)
deriving Repr, DecidableEq

structure AlterTable where
  kw : Tok
  tableKw : Tok
  /-- `[IF, EXISTS]` or `[]` -/
  ifExists : List Tok
  /-- `[ONLY]` or `[]` -/
  only : List Tok
  name : List Tok
  ops : Sep AlterOp
deriving Repr, DecidableEq

structure Truncate where
  kw : Tok
  tableKw : List Tok
  only : List Tok
  names : Sep (List Tok)
  /-- `[RESTART, IDENTITY]` / `[CONTINUE, IDENTITY]` / `[]` -/
  identity : List Tok
  /-- `[CASCADE]` / `[RESTRICT]` / `[]` -/
  cascade : List Tok
deriving Repr, DecidableEq

inductive Stmt
  | createView (v : CreateView)
  | createIndex (i : CreateIndex)
  | alterTable (a : AlterTable)
  | truncate (t : Truncate)
  /-- `DROP <kind> …` for a kind other than TABLE; `tableKw` holds the kind keyword -/
  | dropObj (d : Drop)
  /-- a statement of the fragment of `Model/Dml.lean` -/
  | dml (s : SqlVerif.Dml.Stmt)
deriving Repr, DecidableEq

-- ------------------------------------------------------------------ CREATE VIEW
/-- `OPTIONS` / `COMMENT` after the name of a view column (`parse_optional_column_option`): outside the fragment -/
def viewColOptForeign (c : XCfg) (ts : List Tok) : Bool :=
  ((c.d.isBigQuery || c.d.isGeneric) && peekKw ts XK.OPTIONS) ||
    ((c.d.isSnowflake || c.d.isGeneric) && peekKw ts XK.COMMENT)

/-- `parse_view_column`: a name and, in ClickHouse, a data type -/
def viewCol (c : XCfg) (f d : Nat) (ts : List Tok) : Res ViewCol :=
  match identElem ts with
  | .error er => .error er
  | .ok (name, r) =>
    if viewColOptForeign c r then .error .unsupported
    else if c.isClickHouse then
      match colType c.d f d r with
      | .error er => .error er
      | .ok (ty, r1) => .ok (⟨name, some ty.1, ty.2⟩, r1)
    else .ok (⟨name, none, []⟩, r)

/-- `parse_view_columns`: `(`, columns, `)`; `(`/`)` are `[]` when there is no list -/
def viewColumns (c : XCfg) (f d : Nat) (ts : List Tok) : Res (List Tok × Sep ViewCol × List Tok) :=
  match eatSym ts .LParen with
  | none => .ok (([], [], []), ts)
  | some (lp, r) =>
    match eatSym r .RParen with
    | some (rp, r') => .ok (([lp], [], [rp]), r')
    | none =>
      match commaSepE c.tc (viewCol c f d) f r with
      | .error er => .error er
      | .ok (cols, r1) =>
        match eatSym r1 .RParen with
        | some (rp, r2) => .ok (([lp], cols, [rp]), r2)
        | none => .error (syn ")")

/-- `IF NOT EXISTS` of `parse_create_view`: only looked for in three dialects -/
def viewIfneTail (c : XCfg) (ts : List Tok) : List Tok × List Tok :=
  if c.viewIfne then kwsTail ineKws ts else ([], ts)

/-- the optional clauses between the column list and `AS`, each under its dialect test -/
def viewOptsForeign (c : XCfg) (ts : List Tok) : Bool :=
  peekAnyKw ts [XK.WITH, XK.CLUSTER] ||
    ((c.d.isBigQuery || c.d.isGeneric) && peekKw ts XK.OPTIONS) ||
    ((c.isClickHouse || c.d.isGeneric) && peekKw ts XK.TO) ||
    ((c.d.isSnowflake || c.d.isGeneric) && peekKw ts XK.COMMENT)

/-- `WITH NO SCHEMA BINDING` after the query (Redshift / Generic) -/
def nsbAhead (c : XCfg) (ts : List Tok) : Bool :=
  (c.isRedshift || c.d.isGeneric) && (eatKws ts [XK.WITH, XK.NO, XK.SCHEMA, XK.BINDING]).isSome

/-- `parse_create_view` from `AS` on -/
def viewBody (c : XCfg) (f d : Nat) (ts : List Tok) : Res (Tok × Source) :=
  if viewOptsForeign c ts then .error .unsupported
  else
    match eatKw ts XK.AS with
    | none => .error (syn "AS")
    | some (asKw, r) =>
      match parseSource c.d f d r with
      | .error er => .error er
      | .ok (q, r1) => if nsbAhead c r1 then .error .unsupported else .ok ((asKw, q), r1)

/-- `parse_create_view` (`kw` = the consumed `CREATE`, `orRep` / `temp` = what `parse_create` consumed) -/
def parseCreateView (c : XCfg) (f d : Nat) (kw : Tok) (orRep temp : List Tok) (ts : List Tok) : Res CreateView :=
  match eatKw (kwTail XK.MATERIALIZED ts).2 XK.VIEW with
  | none => .error (syn "VIEW")
  | some (vk, r0) =>
    match nameElem (viewIfneTail c r0).2 with
    | .error er => .error er
    | .ok (name, r1) =>
      if c.d.isBigQuery && bigQueryNameForeign name r1 then .error .unsupported
      else
        match viewColumns c f d r1 with
        | .error er => .error er
        | .ok (cols, r2) =>
          match viewBody c f d r2 with
          | .error er => .error er
          | .ok (b, r3) =>
            .ok (⟨kw, orRep, temp, (kwTail XK.MATERIALIZED ts).1, vk, (viewIfneTail c r0).1, name, cols.1, cols.2.1,
                  cols.2.2, b.1, b.2⟩, r3)

-- ------------------------------------------------------------------ CREATE INDEX
/-- the optional index name and the keyword `ON`: with `IF NOT EXISTS` the name is mandatory (and a
word `ON` is taken as the name) -/
def indexName (ifne : Bool) (ts : List Tok) : Res (List Tok × Tok) :=
  match (if ifne then none else eatKw ts XK.ON) with
  | some (on, r) => .ok (([], on), r)
  | none =>
    match nameElem ts with
    | .error er => .error er
    | .ok (name, r) =>
      match eatKw r XK.ON with
      | none => .error (syn "ON")
      | some (on, r1) => .ok ((name, on), r1)

/-- `USING method` -/
def indexUsing (ts : List Tok) : Res (List Tok) :=
  match eatKw ts XK.USING with
  | none => .ok ([], ts)
  | some (u, r) =>
    match identElem r with
    | .error er => .error er
    | .ok (m, r1) => .ok ([u, m], r1)

/-- `parse_create_index` up to the `(` of the column list -/
def indexHead (c : XCfg) (ts : List Tok) : Res IdxHead :=
  match indexName (!(kwsTail ineKws (kwTail XK.CONCURRENTLY ts).2).1.isEmpty) (kwsTail ineKws (kwTail XK.CONCURRENTLY ts).2).2 with
  | .error er => .error er
  | .ok (nm, r1) =>
    match nameElem r1 with
    | .error er => .error er
    | .ok (table, r2) =>
      if bqDotted c.d nm.1 || bqDotted c.d table then .error .unsupported
      else
        match indexUsing r2 with
        | .error er => .error er
        | .ok (us, r3) =>
          match eatSym r3 .LParen with
          | none => .error (syn "(")
          | some (lp, r4) =>
            .ok (⟨(kwTail XK.CONCURRENTLY ts).1, (kwsTail ineKws (kwTail XK.CONCURRENTLY ts).2).1, nm.1, nm.2, table, us, lp⟩, r4)

/-- `INCLUDE ( ids )` -/
def includePart (c : XCfg) (f : Nat) (ts : List Tok) : Res (List Tok × ParenIds) :=
  match eatKw ts XK.INCLUDE with
  | none => .ok (([], ParenIds.none), ts)
  | some (k, r) =>
    match eatSym r .LParen with
    | none => .error (syn "(")
    | some (lp, r1) =>
      match commaSepE c.tc identElem f r1 with
      | .error er => .error er
      | .ok (ids, r2) =>
        match eatSym r2 .RParen with
        | none => .error (syn ")")
        | some (rp, r3) => .ok (([k], ⟨[lp], ids, [rp]⟩), r3)

/-- `NULLS [NOT] DISTINCT` -/
def nullsDistinct (ts : List Tok) : Res (List Tok) :=
  match eatKw ts XK.NULLS with
  | none => .ok ([], ts)
  | some (n, r) =>
    match eatKw (kwTail XK.NOT r).2 XK.DISTINCT with
    | none => .error (syn "DISTINCT")
    | some (dk, r1) => .ok (n :: (kwTail XK.NOT r).1 ++ [dk], r1)

/-- `parse_create_index` after the `)` of the column list -/
def indexTail (c : XCfg) (f d : Nat) (ts : List Tok) : Res IdxTail :=
  match includePart c f ts with
  | .error er => .error er
  | .ok (inc, r1) =>
    match nullsDistinct r1 with
    | .error er => .error er
    | .ok (nl, r2) =>
      if c.indexWith && peekKw r2 XK.WITH then .error .unsupported
      else
        match kwExprPart c.d.q f d XK.WHERE r2 with
        | .error er => .error er
        | .ok (w, r3) => .ok (⟨inc.1, inc.2, nl, w.1, w.2⟩, r3)

/-- `parse_create_index` (`kw` = the consumed `CREATE`, `idxKws` = `[INDEX]` / `[UNIQUE, INDEX]`) -/
def parseCreateIndex (c : XCfg) (f d : Nat) (kw : Tok) (temp idxKws : List Tok) (ts : List Tok) : Res CreateIndex :=
  match indexHead c ts with
  | .error er => .error er
  | .ok (hd, r1) =>
    match commaSepE c.tc (orderByElem c.d.q f d) f r1 with
    | .error er => .error er
    | .ok (cols, r2) =>
      match eatSym r2 .RParen with
      | none => .error (syn ")")
      | some (rp, r3) =>
        match indexTail c f d r3 with
        | .error er => .error er
        | .ok (tl, r4) => .ok (⟨kw, temp, idxKws, hd, cols, rp, tl⟩, r4)

-- ------------------------------------------------------------------ ALTER TABLE
/-- after `ADD`: `parse_optional_table_constraint` would return a constraint (or fail): outside the fragment -/
def addConstraintAhead (c : XCfg) (ts : List Tok) : Bool :=
  peekAnyKw ts [XK.CONSTRAINT, XK.UNIQUE, XK.PRIMARY, XK.FOREIGN, XK.CHECK] ||
    ((c.d.isGeneric || c.d.isMySql) && peekAnyKw ts [XK.INDEX, XK.KEY, XK.FULLTEXT, XK.SPATIAL])

/-- the second `IF NOT EXISTS` of `ADD [COLUMN]`: only looked for in four dialects -/
def addIneTail (c : XCfg) (ts : List Tok) : List Tok × List Tok :=
  if c.addIne then kwsTail ineKws ts else ([], ts)

/-- `ADD …` (`addKw` consumed) -/
def addOp (c : XCfg) (f d : Nat) (addKw : Tok) (ts : List Tok) : Res AlterOp :=
  if addConstraintAhead c ts then .error .unsupported
  else if (c.isClickHouse || c.d.isGeneric) && peekKw ts XK.PROJECTION then .error .unsupported
  else if peekKw (kwsTail ineKws ts).2 XK.PARTITION then .error .unsupported
  else
    match columnDef c.d f d (addIneTail c (kwTail XK.COLUMN (kwsTail ineKws ts).2).2).2 with
    | .error er => .error er
    | .ok (cd, r) =>
      if (c.d.isMySql || c.d.isGeneric) && peekAnyKw r [XK.FIRST, XK.AFTER] then .error .unsupported
      else
        .ok (.addColumn addKw (kwsTail ineKws ts).1 (kwTail XK.COLUMN (kwsTail ineKws ts).2).1
              (addIneTail c (kwTail XK.COLUMN (kwsTail ineKws ts).2).2).1 c.addIne cd, r)

/-- after `DROP`: partitions and constraints are outside the fragment -/
def dropOpForeign (ts : List Tok) : Bool :=
  (eatKws ts [XK.IF, XK.EXISTS, XK.PARTITION]).isSome || peekAnyKw ts [XK.PARTITION, XK.CONSTRAINT]

/-- `DROP …` (`dropKw` consumed): `PRIMARY KEY` and `PROJECTION` are consumed before the dialect is
tested; where the test fails the chain goes on behind them -/
def dropOp (c : XCfg) (dropKw : Tok) (ts : List Tok) : Res AlterOp :=
  if dropOpForeign ts then .error .unsupported
  else if !(kwsTail [XK.PRIMARY, XK.KEY] ts).1.isEmpty && (c.d.isMySql || c.d.isGeneric) then .error .unsupported
  else if !(kwTail XK.PROJECTION (kwsTail [XK.PRIMARY, XK.KEY] ts).2).1.isEmpty && (c.isClickHouse || c.d.isGeneric) then
    .error .unsupported
  else
    match identElem (kwsTail ieKws (kwTail XK.COLUMN (kwTail XK.PROJECTION (kwsTail [XK.PRIMARY, XK.KEY] ts).2).2).2).2 with
    | .error er => .error er
    | .ok (name, r) =>
      .ok (.dropColumn dropKw
            ((kwsTail [XK.PRIMARY, XK.KEY] ts).1 ++ (kwTail XK.PROJECTION (kwsTail [XK.PRIMARY, XK.KEY] ts).2).1)
            (kwTail XK.COLUMN (kwTail XK.PROJECTION (kwsTail [XK.PRIMARY, XK.KEY] ts).2).2).1
            (kwsTail ieKws (kwTail XK.COLUMN (kwTail XK.PROJECTION (kwsTail [XK.PRIMARY, XK.KEY] ts).2).2).2).1
            name (kwTail XK.CASCADE r).1, (kwTail XK.CASCADE r).2)

/-- `RENAME [COLUMN] a TO b` -/
def renameColOp (renKw : Tok) (ts : List Tok) : Res AlterOp :=
  match identElem (kwTail XK.COLUMN ts).2 with
  | .error er => .error er
  | .ok (old, r) =>
    match eatKw r XK.TO with
    | none => .error (syn "TO")
    | some (toKw, r1) =>
      match identElem r1 with
      | .error er => .error er
      | .ok (new, r2) => .ok (.renameColumn renKw (kwTail XK.COLUMN ts).1 old toKw new, r2)

/-- `RENAME …` (`renKw` consumed) -/
def renameOp (c : XCfg) (renKw : Tok) (ts : List Tok) : Res AlterOp :=
  if c.d.isPostgres && peekKw ts XK.CONSTRAINT then .error .unsupported
  else
    match eatKw ts XK.TO with
    | some (toKw, r) =>
      match nameElem r with
      | .error er => .error er
      | .ok (name, r1) => if bqDotted c.d name then .error .unsupported else .ok (.renameTable renKw toKw name, r1)
    | none => renameColOp renKw ts

/-- the other operations of `ALTER COLUMN` -/
def alterColForeign (c : XCfg) (ts : List Tok) : Bool :=
  (eatKws ts [XK.SET, XK.DATA, XK.TYPE]).isSome || (c.d.isPostgres && peekKw ts XK.TYPE) ||
    (eatKws ts [XK.ADD, XK.GENERATED]).isSome

/-- what follows the column name of `ALTER [COLUMN] name`: the keywords and the operation -/
def alterColTail (c : XCfg) (f d : Nat) (ts : List Tok) : Res (List Tok × AlterColOp) :=
  match eatKws ts [XK.SET, XK.NOT, XK.NULL] with
  | some (toks, r) => .ok ((toks, .setNotNull), r)
  | none =>
  match eatKws ts [XK.DROP, XK.NOT, XK.NULL] with
  | some (toks, r) => .ok ((toks, .dropNotNull), r)
  | none =>
  match eatKws ts [XK.SET, XK.DEFAULT] with
  | some (toks, r) =>
    match parseE c.d.q f d r with
    | .error er => .error er
    | .ok (e, r1) => .ok ((toks, .setDefault e), r1)
  | none =>
  match eatKws ts [XK.DROP, XK.DEFAULT] with
  | some (toks, r) => .ok ((toks, .dropDefault), r)
  | none =>
    if alterColForeign c ts then .error .unsupported
    else .error (syn "SET/DROP NOT NULL, SET DEFAULT, or SET DATA TYPE after ALTER COLUMN")

/-- `ALTER [COLUMN] name …` (`altKw` consumed) -/
def alterColOp (c : XCfg) (f d : Nat) (altKw : Tok) (ts : List Tok) : Res AlterOp :=
  match identElem (kwTail XK.COLUMN ts).2 with
  | .error er => .error er
  | .ok (name, r) =>
    match alterColTail c f d r with
    | .error er => .error er
    | .ok (p, r1) => .ok (.alterColumn altKw (kwTail XK.COLUMN ts).1 name p.1 p.2, r1)

/-- the operations of `parse_alter_table_operation` that the fragment does not follow, each under
its dialect test -/
def opForeign (c : XCfg) (ts : List Tok) : Bool :=
  peekAnyKw ts [XK.DISABLE, XK.ENABLE, XK.PARTITION, XK.CHANGE, XK.MODIFY, XK.SWAP] ||
    (eatKws ts [XK.CLEAR, XK.PROJECTION]).isSome || (eatKws ts [XK.MATERIALIZE, XK.PROJECTION]).isSome ||
    ((c.d.isPostgres || c.d.isGeneric) && (eatKws ts [XK.OWNER, XK.TO]).isSome) ||
    ((c.isClickHouse || c.d.isGeneric) && peekAnyKw ts [XK.ATTACH, XK.DETACH, XK.FREEZE, XK.UNFREEZE]) ||
    (eatKws ts [XK.SET, XK.TBLPROPERTIES]).isSome

/-- `parse_alter_table_operation` -/
def alterOp (c : XCfg) (f d : Nat) (ts : List Tok) : Res AlterOp :=
  match eatKw ts XK.ADD with
  | some (k, r) => addOp c f d k r
  | none =>
  match eatKw ts XK.RENAME with
  | some (k, r) => renameOp c k r
  | none =>
  match eatKw ts XK.DROP with
  | some (k, r) => dropOp c k r
  | none =>
  match eatKw ts XK.ALTER with
  | some (k, r) => alterColOp c f d k r
  | none =>
    if opForeign c ts then .error .unsupported
    else .error (syn "ADD, RENAME, PARTITION, SWAP, DROP, or SET TBLPROPERTIES after ALTER TABLE")

/-- `[SET] LOCATION` after the operations (Hive) -/
def locationAhead (ts : List Tok) : Bool := peekKw ts XK.LOCATION || (eatKws ts [XK.SET, XK.LOCATION]).isSome

/-- `parse_alter` (`kw` = the consumed `ALTER`) -/
def parseAlter (c : XCfg) (f d : Nat) (kw : Tok) (ts : List Tok) : Res AlterTable :=
  match eatKw ts XK.TABLE with
  | none =>
    if peekAnyKw ts [XK.VIEW, XK.INDEX, XK.ROLE, XK.POLICY] then .error .unsupported
    else .error (syn "one of VIEW or TABLE or INDEX or ROLE or POLICY")
  | some (tk, r0) =>
    match nameElem (kwTail XK.ONLY (kwsTail ieKws r0).2).2 with
    | .error er => .error er
    | .ok (name, r1) =>
      if bqDotted c.d name then .error .unsupported
      else if (eatKws r1 [XK.ON, XK.CLUSTER]).isSome then .error .unsupported
      else
        match commaSepE c.tc (alterOp c f d) f r1 with
        | .error er => .error er
        | .ok (ops, r2) =>
          if locationAhead r2 then .error .unsupported
          else .ok (⟨kw, tk, (kwsTail ieKws r0).1, (kwTail XK.ONLY (kwsTail ieKws r0).2).1, name, ops⟩, r2)

-- ------------------------------------------------------------------ TRUNCATE
def pgOrGeneric (c : XCfg) : Bool := c.d.isPostgres || c.d.isGeneric

/-- `RESTART IDENTITY` / `CONTINUE IDENTITY` (PostgreSQL / Generic) -/
def truncIdentity (c : XCfg) (ts : List Tok) : List Tok × List Tok :=
  if pgOrGeneric c then
    match eatKws ts [XK.RESTART, XK.IDENTITY] with
    | some p => p
    | none => kwsTail [XK.CONTINUE, XK.IDENTITY] ts
  else ([], ts)

/-- `CASCADE` / `RESTRICT` (PostgreSQL / Generic) -/
def truncCascade (c : XCfg) (ts : List Tok) : List Tok × List Tok :=
  if pgOrGeneric c then
    match eatKw ts XK.CASCADE with
    | some (t, r) => ([t], r)
    | none => kwTail XK.RESTRICT ts
  else ([], ts)

/-- `parse_truncate` (`kw` = the consumed `TRUNCATE`) -/
def parseTruncate (c : XCfg) (f : Nat) (kw : Tok) (ts : List Tok) : Res Truncate :=
  match commaSepE c.tc nameElem f (kwTail XK.ONLY (kwTail XK.TABLE ts).2).2 with
  | .error er => .error er
  | .ok (names, r1) =>
    if anyDotted c.d names then .error .unsupported
    else if peekKw r1 XK.PARTITION then .error .unsupported
    else if (eatKws (truncCascade c (truncIdentity c r1).2).2 [XK.ON, XK.CLUSTER]).isSome then .error .unsupported
    else
      .ok (⟨kw, (kwTail XK.TABLE ts).1, (kwTail XK.ONLY (kwTail XK.TABLE ts).2).1, names, (truncIdentity c r1).1,
            (truncCascade c (truncIdentity c r1).2).1⟩, (truncCascade c (truncIdentity c r1).2).2)

-- ------------------------------------------------------------------ DROP <kind>
/-- the object kinds of `parse_drop` that share the generic tail (TABLE is in `Model/Dml.lean`) -/
def dropKinds : List Nat :=
  [XK.VIEW, XK.INDEX, XK.ROLE, XK.SCHEMA, XK.DATABASE, XK.SEQUENCE, XK.STAGE, XK.TYPE]

/-- the kind keyword directly after `DROP` -/
def dropHead (ts : List Tok) : Option (Tok × List Tok) :=
  match ts with
  | t :: r => if dropKinds.any t.isKw then some (t, r) else none
  | [] => none

/-- `parse_drop` after the kind keyword `kind` (`kw` = the consumed `DROP`) -/
def parseDropObj (c : XCfg) (f : Nat) (kw kind : Tok) (ts : List Tok) : Res Drop :=
  match commaSepE c.tc nameElem f (kwsTail ieKws ts).2 with
  | .error er => .error er
  | .ok (names, r1) =>
    if anyDotted c.d names then .error .unsupported
    else if !(kwTail XK.CASCADE r1).1.isEmpty && !(kwTail XK.RESTRICT (kwTail XK.CASCADE r1).2).1.isEmpty then
      .error (syn "Cannot specify both CASCADE and RESTRICT in DROP")
    else if kind.isKw XK.ROLE &&
        !((kwTail XK.CASCADE r1).1 ++ (kwTail XK.RESTRICT (kwTail XK.CASCADE r1).2).1 ++
            (kwTail XK.PURGE (kwTail XK.RESTRICT (kwTail XK.CASCADE r1).2).2).1).isEmpty then
      .error (syn "Cannot specify CASCADE, RESTRICT, or PURGE in DROP ROLE")
    else
      .ok (⟨kw, kind, (kwsTail ieKws ts).1, names, (kwTail XK.CASCADE r1).1,
            (kwTail XK.RESTRICT (kwTail XK.CASCADE r1).2).1,
            (kwTail XK.PURGE (kwTail XK.RESTRICT (kwTail XK.CASCADE r1).2).2).1⟩,
           (kwTail XK.PURGE (kwTail XK.RESTRICT (kwTail XK.CASCADE r1).2).2).2)

-- ------------------------------------------------------------------ CREATE: which object
/-- what `parse_create` finds after `CREATE` -/
inductive CreateHead
  /-- `[OR REPLACE] [TEMP|TEMPORARY]` and then `MATERIALIZED` or `VIEW` (not consumed) -/
  | view (orRep temp rest : List Tok)
  /-- `[TEMP|TEMPORARY]` and then `INDEX` / `UNIQUE INDEX` (consumed) -/
  | index (temp idxKws rest : List Tok)
  /-- anything else: `Model/Dml.lean` decides -/
  | other
deriving Repr, DecidableEq

/-- `INDEX` / `UNIQUE INDEX` -/
def indexKws (ts : List Tok) : Option (List Tok × List Tok) :=
  match eatKw ts XK.INDEX with
  | some (t, r) => some ([t], r)
  | none => eatKws ts [XK.UNIQUE, XK.INDEX]

/-- the head of `parse_create` after `OR REPLACE`: no `OR ALTER` / `LOCAL` / `GLOBAL` / `TRANSIENT`
(which the real code accepts and, for views and indexes, forgets), `TEMP`, and then the object keyword;
`CREATE OR REPLACE INDEX` is the error of the real `or_replace` arm, left to `Model/Dml.lean` -/
def createHeadTail (orRep : List Tok) (ts : List Tok) : CreateHead :=
  if peekAnyKw ts [XK.OR, XK.LOCAL, XK.GLOBAL, XK.TRANSIENT] then .other
  else if peekAnyKw (tempTail ts).2 [XK.MATERIALIZED, XK.VIEW] then .view orRep (tempTail ts).1 (tempTail ts).2
  else if !orRep.isEmpty then .other
  else
    match indexKws (tempTail ts).2 with
    | some (ik, r) => .index (tempTail ts).1 ik r
    | none => .other

def createHead (ts : List Tok) : CreateHead :=
  createHeadTail (kwsTail [XK.OR, XK.REPLACE] ts).1 (kwsTail [XK.OR, XK.REPLACE] ts).2

-- ------------------------------------------------------------------ the dispatcher
/-- `parse_statement`: one guard level, dispatch on the first word; what is not CREATE VIEW / CREATE
INDEX / ALTER / TRUNCATE / DROP <kind other than TABLE> goes to the statement model of `Model/Dml.lean`
(which takes its own guard level from the same limit) -/
def parseStmt (c : XCfg) (f limit : Nat) (ts : List Tok) : Res Stmt :=
  match limit with
  | 0 => .error .rle
  | d + 1 =>
    match ts with
    | [] => .error (syn "an SQL statement")
    | t :: r =>
      if t.isKw XK.CREATE then
        match createHead r with
        | .view orRep temp r1 => mapRes .createView (parseCreateView c f d t orRep temp r1)
        | .index temp ik r1 => mapRes .createIndex (parseCreateIndex c f d t temp ik r1)
        | .other => mapRes .dml (SqlVerif.Dml.parseStmt c.d f (d + 1) ts)
      else if t.isKw XK.ALTER then mapRes .alterTable (parseAlter c f d t r)
      else if t.isKw XK.TRUNCATE then mapRes .truncate (parseTruncate c f t r)
      else if t.isKw XK.DROP then
        match dropHead r with
        | some (kind, r1) => mapRes .dropObj (parseDropObj c f t kind r1)
        | none => mapRes .dml (SqlVerif.Dml.parseStmt c.d f (d + 1) ts)
      else mapRes .dml (SqlVerif.Dml.parseStmt c.d f (d + 1) ts)

/-- `parse_statements` on the fragment: the loop of `Model/Stmts.lean` around `parseStmt` -/
def parseScript (c : XCfg) (f limit : Nat) (ts : List Tok) : Except (SqlVerif.Stmts.Err Err) (List Stmt) :=
  SqlVerif.Stmts.parseStatements stmtClass (parseStmt c f limit) ts

end SqlVerif.Ddl

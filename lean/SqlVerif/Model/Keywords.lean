/-
Model of keyword recognition (`src/tokenizer.rs` `Token::make_word`, `src/keywords.rs`).

A word is a list of code points.  Rust compares `&str` byte-wise on UTF-8, which coincides with
the lexicographic order on code points, so `cmpWord` below is the order `binary_search` uses.
The upper-casing function is a parameter (Rust's `str::to_uppercase`, supplied by the harness).
-/
namespace SqlVerif.Keywords

abbrev W := List Nat

/-- strict lexicographic order on code-point lists -/
def ltW : W → W → Bool
  | [], [] => false
  | [], _ :: _ => true
  | _ :: _, [] => false
  | a :: as, b :: bs => if a < b then true else if b < a then false else ltW as bs

/-- binary search over `table[lo, hi)`; `fuel` bounds the number of halvings -/
def bsearchGo (table : Array W) (w : W) : Nat → Nat → Nat → Option Nat
  | 0, _, _ => none
  | fuel + 1, lo, hi =>
    if lo < hi then
      let mid := lo + (hi - lo) / 2
      let m := table[mid]!
      if m = w then some mid
      else if ltW m w then bsearchGo table w fuel (mid + 1) hi
      else bsearchGo table w fuel lo mid
    else none

def bsearch (table : Array W) (w : W) : Option Nat :=
  bsearchGo table w (table.size + 1) 0 table.size

/-- `Word` as produced by the tokenizer: spelling, quote style, keyword index (`none` = NoKeyword) -/
structure Word where
  value : W
  quote : Option Nat
  keyword : Option Nat
deriving Repr, DecidableEq

/-- `Token::make_word` -/
def makeWord (table : Array W) (upper : W → W) (word : W) (quote : Option Nat) : Word :=
  { value := word, quote := quote,
    keyword := if quote.isNone then bsearch table (upper word) else none }

/-- `Word::to_ident` / `Ident { value, quote_style }` -/
structure Ident where
  value : W
  quote : Option Nat
deriving Repr, DecidableEq

def Word.toIdent (w : Word) : Ident := { value := w.value, quote := w.quote }

/-- closing quote of `Word::matching_end_quote`; other quote characters panic in the code -/
def matchingEndQuote (q : Nat) : Option Nat :=
  if q = 34 then some 34 else if q = 91 then some 93 else if q = 96 then some 96 else none

/-- `Display for Word`: `none` means the code panics (quote style outside `" [ backquote`) -/
def Word.display (w : Word) : Option W :=
  match w.quote with
  | none => some w.value
  | some q => (matchingEndQuote q).map fun e => [q] ++ w.value ++ [e]

end SqlVerif.Keywords

import SqlVerif.Model.SchemaTy
/-
The data model that `#[derive(Serialize, Deserialize)]` (no `serde(...)` attributes) implements
against `serde_json`:

  struct with named fields      -> object keyed by field name, in declaration order
  newtype struct / variant      -> the inner value
  tuple struct / variant        -> array
  unit struct, `()`             -> null
  enum, externally tagged       -> unit variant: "Name"; otherwise {"Name": payload}
  Option                        -> null | inner          Vec, tuple -> array        Box -> inner
  String -> string, char -> one-character string, bool -> bool, integers -> number

Names (type, variant, field identifiers) are ids into the generated name table; a JSON string that
spells a Rust identifier is `Json.tag id`, a JSON object key is a name id.  `de` is the reference
decoder of this data model (derive(Deserialize) through `serde_json::from_value`): fields are looked
up by name, a missing `Option` field is `None`, unknown keys are ignored.
-/
namespace SqlVerif.Serde
open SqlVerif.Schema

/-- Rust values of the types a schema describes (strings/chars as code points) -/
inductive Val where
  | unit
  | bool (b : Bool)
  | uint (n : Nat)
  | sint (i : Int)
  | char (c : Nat)
  | str (s : List Nat)
  | none
  | some (v : Val)
  | vec (vs : List Val)
  | box (v : Val)
  | tup (vs : List Val)
  | struct (fs : List Val)                 -- a struct definition: its fields in declaration order
  | variant (idx : Nat) (fs : List Val)    -- an enum definition: active variant and its fields
  deriving Repr, Inhabited

inductive Json where
  | null
  | bool (b : Bool)
  | num (i : Int)
  | str (s : List Nat)
  | tag (name : Nat)
  | arr (xs : List Json)
  | obj (kvs : List (Nat × Json))
  deriving Repr, Inhabited

/-! ### serialisation -/

/-- how the already serialised fields of a struct / variant are put together -/
def shapeJson : Shape → List Json → Json
  | .unit, _ => .null
  | .newtype _, [j] => j
  | .newtype _, _ => .null
  | .tuple _, js => .arr js
  | .struct gs, js => .obj ((gs.map (·.name)).zip js)

mutual
def ser (sch : Schema) : Ty → Val → Json
  | .unit, .unit => .null
  | .bool, .bool b => .bool b
  | .uint, .uint n => .num (Int.ofNat n)
  | .sint, .sint i => .num i
  | .char, .char c => .str [c]
  | .str, .str s => .str s
  | .opt _, .none => .null
  | .opt t, .some v => ser sch t v
  | .vec t, .vec vs => .arr (serList sch t vs)
  | .box t, .box v => ser sch t v
  | .tup ts, .tup vs => .arr (serTup sch ts vs)
  | .named id, .struct fs =>
    match sch.get? id with
    | some (.struct _ _ _ sh) => shapeJson sh (serFields sch sh.fields fs)
    | _ => .null
  | .named id, .variant k fs =>
    match sch.get? id with
    | some (.enum _ _ _ vs) =>
      match vs[k]? with
      | some v =>
        match v.shape with
        | .unit => .tag v.name
        | sh => .obj [(v.name, shapeJson sh (serFields sch sh.fields fs))]
      | none => .null
    | _ => .null
  | _, _ => .null
def serList (sch : Schema) (t : Ty) : List Val → List Json
  | [] => []
  | v :: r => ser sch t v :: serList sch t r
def serTup (sch : Schema) : List Ty → List Val → List Json
  | t :: ts, v :: vs => ser sch t v :: serTup sch ts vs
  | _, _ => []
/-- the fields of a struct / variant, each at its declared type -/
def serFields (sch : Schema) : List Field → List Val → List Json
  | f :: fs, v :: vs => ser sch f.ty v :: serFields sch fs vs
  | _, _ => []
end

/-- a struct / variant body -/
def serShape (sch : Schema) (sh : Shape) (fs : List Val) : Json := shapeJson sh (serFields sch sh.fields fs)

/-- the entries of an object: field name, serialised field, in declaration order -/
def serNamed (sch : Schema) (gs : List Field) (vs : List Val) : List (Nat × Json) :=
  (gs.map (·.name)).zip (serFields sch gs vs)

/-! ### typing -/

mutual
def wt (sch : Schema) : Ty → Val → Bool
  | .unit, .unit => true
  | .bool, .bool _ => true
  | .uint, .uint _ => true
  | .sint, .sint _ => true
  | .char, .char _ => true
  | .str, .str _ => true
  | .opt _, .none => true
  | .opt t, .some v => wt sch t v
  | .vec t, .vec vs => wtList sch t vs
  | .box t, .box v => wt sch t v
  | .tup ts, .tup vs => wtTup sch ts vs
  | .named id, .struct fs =>
    match sch.get? id with
    | some (.struct _ _ _ sh) => wtFields sch sh.fields fs
    | _ => false
  | .named id, .variant k fs =>
    match sch.get? id with
    | some (.enum _ _ _ vs) =>
      match vs[k]? with
      | some v => wtFields sch v.shape.fields fs
      | none => false
    | _ => false
  | _, _ => false
def wtList (sch : Schema) (t : Ty) : List Val → Bool
  | [] => true
  | v :: r => wt sch t v && wtList sch t r
def wtTup (sch : Schema) : List Ty → List Val → Bool
  | [], [] => true
  | t :: ts, v :: vs => wt sch t v && wtTup sch ts vs
  | _, _ => false
/-- as many values as fields, each of its declared type -/
def wtFields (sch : Schema) : List Field → List Val → Bool
  | [], [] => true
  | f :: fs, v :: vs => wt sch f.ty v && wtFields sch fs vs
  | _, _ => false
end

def wtShape (sch : Schema) (sh : Shape) (fs : List Val) : Bool := wtFields sch sh.fields fs

def WellTyped (sch : Schema) (τ : Ty) (v : Val) : Prop := wt sch τ v = true

instance (sch : Schema) (τ : Ty) (v : Val) : Decidable (WellTyped sch τ v) := by
  unfold WellTyped; infer_instance

mutual
/-- number of constructors: fuel that suffices to decode `ser v` -/
def size : Val → Nat
  | .some v => 1 + size v
  | .box v => 1 + size v
  | .vec vs => 1 + sizeList vs
  | .tup vs => 1 + sizeList vs
  | .struct fs => 2 + sizeList fs
  | .variant _ fs => 2 + sizeList fs
  | _ => 1
def sizeList : List Val → Nat
  | [] => 0
  | v :: r => 1 + size v + sizeList r
end

/-! ### deserialisation (fuel: one unit per nesting level of the type/value) -/

/-- first variant called `name`, with its index -/
def findVariant (name : Nat) : List Variant → Nat → Option (Nat × Variant)
  | [], _ => none
  | v :: r, i => if v.name = name then some (i, v) else findVariant name r (i + 1)

def mapOpt {α β : Type} (f : α → Option β) : List α → Option (List β)
  | [] => some []
  | a :: r =>
    match f a, mapOpt f r with
    | some b, some bs => some (b :: bs)
    | _, _ => none

def isOpt : Ty → Bool
  | .opt _ => true
  | _ => false

/-- one named field out of an object: by name; a missing `Option` field is `None` -/
def deField (rec : Ty → Json → Option Val) (kvs : List (Nat × Json)) (f : Field) : Option Val :=
  match kvs.lookup f.name with
  | some j => rec f.ty j
  | none => if isOpt f.ty then some .none else none

/-- positional decoding of an array against a list of types (lengths must agree) -/
def dePositional (rec : Ty → Json → Option Val) : List Ty → List Json → Option (List Val)
  | [], [] => some []
  | t :: ts, j :: js =>
    match rec t j, dePositional rec ts js with
    | some v, some vs => some (v :: vs)
    | _, _ => none
  | _, _ => none

def deShape (rec : Ty → Json → Option Val) : Shape → Json → Option (List Val)
  | .unit, .null => some []
  | .newtype f, j => (rec f.ty j).map (fun v => [v])
  | .tuple fs, .arr xs => dePositional rec (fs.map (·.ty)) xs
  | .struct fs, .obj kvs => mapOpt (deField rec kvs) fs
  | _, _ => none

def de (sch : Schema) : Nat → Ty → Json → Option Val
  | 0, _, _ => none
  | n + 1, τ, j =>
    match τ, j with
    | .unit, .null => some .unit
    | .bool, .bool b => some (.bool b)
    | .uint, .num i => if 0 ≤ i then some (.uint i.toNat) else none
    | .sint, .num i => some (.sint i)
    | .char, .str [c] => some (.char c)
    | .str, .str s => some (.str s)
    | .opt _, .null => some .none
    | .opt t, j => (de sch n t j).map .some
    | .vec t, .arr xs => (mapOpt (de sch n t) xs).map .vec
    | .box t, j => (de sch n t j).map .box
    | .tup ts, .arr xs => (dePositional (de sch n) ts xs).map .tup
    | .named id, j =>
      match sch.get? id with
      | some (.struct _ _ _ sh) => (deShape (de sch n) sh j).map .struct
      | some (.enum _ _ _ vs) =>
        match j with
        | .tag name =>
          match findVariant name vs 0 with
          | some (k, v) => (match v.shape with | .unit => some (.variant k []) | _ => none)
          | none => none
        | .obj [(name, j')] =>
          match findVariant name vs 0 with
          | some (k, v) => (match v.shape with | .unit => none | sh => (deShape (de sch n) sh j').map (.variant k))
          | none => none
        | _ => none
      | none => none
    | _, _ => none

/-! ### the decidable side condition on a schema -/

/-- quadratic distinctness check, on the kernel-accelerated `Nat.beq` -/
def nodupQuad : List Nat → Bool
  | [] => true
  | x :: r => !(r.any (Nat.beq x)) && nodupQuad r

/-- linear fast path: strictly increasing (the translator numbers the names of the big enums in
    declaration order) -/
def strictInc : List Nat → Bool
  | a :: b :: r => Nat.blt a b && strictInc (b :: r)
  | _ => true

def nodupNat (l : List Nat) : Bool := strictInc l || nodupQuad l

/-- `ser` of a well-typed value of this type is never `null` (fuel bounds the chain of newtype
    structs / boxes that has to be looked through) -/
def nonNull (sch : Schema) : Nat → Ty → Bool
  | 0, _ => false
  | n + 1, τ =>
    match τ with
    | .bool | .uint | .sint | .char | .str | .vec _ | .tup _ => true
    | .box t => nonNull sch n t
    | .named id =>
      match sch.get? id with
      | some (.enum _ _ _ _) => true
      | some (.struct _ _ _ (.tuple _)) => true
      | some (.struct _ _ _ (.struct _)) => true
      | some (.struct _ _ _ (.newtype f)) => nonNull sch n f.ty
      | _ => false
    | _ => false

/-- no float / unclassified component, and every `Option` wraps a type that never serialises to
    `null` (so no `Option<Option<_>>`, `Option<()>`, `Option<UnitStruct>`, …) -/
def tySafe (sch : Schema) : Ty → Bool
  | .float => false
  | .other => false
  | .opt t => nonNull sch (sch.defs.length + 8) t && tySafe sch t
  | .vec t => tySafe sch t
  | .box t => tySafe sch t
  | .tup ts => tySafeList sch ts
  | _ => true
where
  tySafeList (sch : Schema) : List Ty → Bool
    | [] => true
    | t :: ts => tySafe sch t && tySafeList sch ts

def fieldSafe (sch : Schema) (f : Field) : Bool := f.attrs == 0 && tySafe sch f.ty

def shapeSafe (sch : Schema) : Shape → Bool
  | .unit => true
  | .newtype f => fieldSafe sch f
  | .tuple fs => fs.all (fieldSafe sch)
  | .struct fs => fs.all (fieldSafe sch) && nodupNat (fs.map (·.name))

def variantSafe (sch : Schema) (v : Variant) : Bool := v.attrs == 0 && shapeSafe sch v.shape

def defSafe (sch : Schema) : TypeDef → Bool
  | .struct _ _ a sh => a == 0 && shapeSafe sch sh
  | .enum _ _ a vs => a == 0 && vs.all (variantSafe sch) && nodupNat (vs.map (·.name))

/-- decidable: no `serde(...)` attribute anywhere, no float/unclassified field, no `Option` around a
    nullable type, field names distinct within a struct/variant, variant names distinct within an enum -/
def serdeSafe (sch : Schema) : Bool := sch.defs.all (defSafe sch)

def SerdeSafe (sch : Schema) : Prop := serdeSafe sch = true

instance (sch : Schema) : Decidable (SerdeSafe sch) := by unfold SerdeSafe; infer_instance

end SqlVerif.Serde

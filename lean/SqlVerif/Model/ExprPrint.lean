import SqlVerif.Model.Expr
import SqlVerif.Model.Escape
/-!
`Display` of the expression fragment of `Model/Expr.lean`, mirrored from
`impl Display for Expr` (`src/ast/mod.rs` ~1185), `BinaryOperator` / `UnaryOperator`
(`src/ast/operator.rs`), `Value` (`src/ast/value.rs`) and `Ident`.

The printer is a list of *pieces*: the token a piece is meant to be read back as, whether
`Display` writes a blank in front of it, and its text.  `showToks` keeps the tokens, `showText`
joins the texts exactly as the Rust code does (validated by stream `exprprint`).

Normal forms: `==` prints `=`; `!=` prints `<>` (one token `Neq` anyway); operator and type
keywords print in their table spelling whatever the input spelling; `TRUE`/`FALSE` print in lower
case; `REGEXP RLIKE` prints `REGEXP`; an `ESCAPE` operand (word, '…' or "…") prints as `'…'` with
NO escaping; identifiers and literals print as stored (quoted forms through `escape_quoted_string`).
Oddities mirrored: unary `+ - ~ @ |/ ||/ !!` are glued to their operand, except a sign directly
before another sign (`- -a`), which gets a blank (fix commit in /repo).
-/
namespace SqlVerif.Pratt

structure Piece where
  /-- `Display` writes a blank before this piece -/
  sp : Bool
  tok : Tok
  /-- `none`: `Display` panics (`unexpected quote style`) or the token is opaque in the model -/
  text : Option W
deriving Repr, DecidableEq

/-- the keyword token the lexer makes of the table spelling `name` -/
def kwT (name : String) : Tok := .word (str name) none (some (kwIndex name))

/-- the same from a table index -/
def kwTi (k : Nat) : Tok := .word (kwName k) none (some k)

def kwP (sp : Bool) (name : String) : Piece := ⟨sp, kwT name, some (str name)⟩
def symP (sp : Bool) (s : Sym) : Piece := ⟨sp, .sym s, some (str s.display)⟩

/-- set the blank flag of the first piece -/
def spaced : List Piece → List Piece
  | [] => []
  | p :: ps => { p with sp := true } :: ps

def glued : List Piece → List Piece
  | [] => []
  | p :: ps => { p with sp := false } :: ps

/-- `Display for Ident` (`value`, `quote_style`) -/
def identText (v : W) (q : Option Nat) : Option W :=
  match q with
  | none => some v
  | some c =>
    if c = 34 ∨ c = 39 ∨ c = 96 then some ([c] ++ SqlVerif.Escape.escapeQ c v ++ [c])
    else if c = 91 then some ([91] ++ v ++ [93])
    else none

/-- ASCII upper-casing (the keyword table is ASCII; `str::to_uppercase` agrees on ASCII input) -/
def asciiUpper (v : W) : W := v.map fun ch => if 97 ≤ ch ∧ ch ≤ 122 then ch - 32 else ch

/-- the keyword the lexer attaches to an unquoted word spelled `v` (ASCII spelling assumed) -/
def kwLookup (v : W) : Option Nat :=
  let i := SqlVerif.Gen.keywordsList.idxOf (asciiUpper v)
  if i < SqlVerif.Gen.keywordsList.length then some i else none

/-- one part of an identifier / compound identifier (`Word::to_ident`, or `Ident::with_quote('\'', s)`) -/
def identPiece (sp : Bool) (t : Tok) : Piece :=
  match t with
  | .word v q _ => ⟨sp, t, identText v q⟩
  | .sqs s => ⟨sp, t, identText s (some 39)⟩
  | .sym .Period => ⟨sp, t, some [46]⟩
  | _ => ⟨sp, t, none⟩

/-- the token a binary operator prints as -/
def BinOp.tok : BinOp → Tok
  | .Plus => .sym .Plus | .Minus => .sym .Minus | .Multiply => .sym .Mul | .Divide => .sym .Div
  | .Modulo => .sym .Mod | .StringConcat => .sym .StringConcat | .Gt => .sym .Gt | .Lt => .sym .Lt
  | .GtEq => .sym .GtEq | .LtEq => .sym .LtEq | .Spaceship => .sym .Spaceship | .Eq => .sym .Eq
  | .NotEq => .sym .Neq | .And => kwT "AND" | .Or => kwT "OR" | .Xor => kwT "XOR"
  | .BitwiseOr => .sym .Pipe | .BitwiseAnd => .sym .Ampersand | .BitwiseXor => .sym .Caret
  | .DuckIntegerDivide => .sym .DuckIntDiv | .MyIntegerDivide => kwT "DIV" | .Custom s => .customOp s
  | .PGBitwiseXor => .sym .Sharp | .PGBitwiseShiftLeft => .sym .ShiftLeft
  | .PGBitwiseShiftRight => .sym .ShiftRight | .PGExp => .sym .Caret | .PGOverlap => .sym .Overlap
  | .PGRegexMatch => .sym .Tilde | .PGRegexIMatch => .sym .TildeAsterisk
  | .PGRegexNotMatch => .sym .ExclamationMarkTilde | .PGRegexNotIMatch => .sym .ExclamationMarkTildeAsterisk
  | .PGLikeMatch => .sym .DoubleTilde | .PGILikeMatch => .sym .DoubleTildeAsterisk
  | .PGNotLikeMatch => .sym .ExclamationMarkDoubleTilde
  | .PGNotILikeMatch => .sym .ExclamationMarkDoubleTildeAsterisk | .PGStartsWith => .sym .CaretAt
  | .Arrow => .sym .Arrow | .LongArrow => .sym .LongArrow | .HashArrow => .sym .HashArrow
  | .HashLongArrow => .sym .HashLongArrow | .AtAt => .sym .AtAt | .AtArrow => .sym .AtArrow
  | .ArrowAt => .sym .ArrowAt | .HashMinus => .sym .HashMinus | .AtQuestion => .sym .AtQuestion
  | .Question => .sym .Question | .QuestionAnd => .sym .QuestionAnd | .QuestionPipe => .sym .QuestionPipe

def binOpP (sp : Bool) (o : BinOp) : Piece := ⟨sp, o.tok, some o.display⟩

/-- unary `+` / `-` -/
def UnOp.isSign : UnOp → Bool
  | .Plus => true | .Minus => true | _ => false

/-- the expression is itself a unary `+`/`-` application -/
def Expr.headIsSign : Expr → Bool
  | .pre o _ _ => o.isSign
  | _ => false

/-- `Display for UnaryOperator`, prefix operators -/
def UnOp.tok : UnOp → Tok
  | .Plus => .sym .Plus | .Minus => .sym .Minus | .Not => kwT "NOT" | .PGBitwiseNot => .sym .Tilde
  | .PGSquareRoot => .sym .PGSquareRoot | .PGCubeRoot => .sym .PGCubeRoot
  | .PGPostfixFactorial => .sym .ExclamationMark | .PGPrefixFactorial => .sym .DoubleExclamationMark
  | .PGAbs => .sym .AtSign

def unOpP (o : UnOp) : Piece :=
  match o.tok with
  | .sym s => symP false s
  | t => ⟨false, t, some (str "NOT")⟩

def LikeKind.pieces : LikeKind → List Piece
  | .Like => [kwP true "LIKE"] | .ILike => [kwP true "ILIKE"]
  | .SimilarTo => [kwP true "SIMILAR", kwP true "TO"]
  | .RLike => [kwP true "RLIKE"] | .Regexp => [kwP true "REGEXP"]

def notP (neg : Bool) : List Piece := if neg then [kwP true "NOT"] else []

def IsKind.pieces : IsKind → List Piece
  | .Null => [kwP true "NULL"] | .NotNull => [kwP true "NOT", kwP true "NULL"]
  | .True => [kwP true "TRUE"] | .NotTrue => [kwP true "NOT", kwP true "TRUE"]
  | .False => [kwP true "FALSE"] | .NotFalse => [kwP true "NOT", kwP true "FALSE"]
  | .Unknown => [kwP true "UNKNOWN"] | .NotUnknown => [kwP true "NOT", kwP true "UNKNOWN"]

/-- the string `escape_char` holds -/
def escValue (esc : List Tok) : Option W :=
  match esc with
  | [_, .word v _ _] => some v
  | [_, .sqs v] => some v
  | [_, .dqs v] => some v
  | _ => none

/-- ` ESCAPE '{ch}'`: the character string is written between quotes as it is -/
def escPieces (esc : List Tok) : List Piece :=
  match escValue esc with
  | some v => [kwP true "ESCAPE", ⟨true, .sqs v, some ([39] ++ v ++ [39])⟩]
  | none => [kwP true "ESCAPE", ⟨true, .other "?" "", none⟩]

def atomPieces (k : AtomKind) (toks : List Tok) : List Piece :=
  match k, toks with
  | .ident, [t] => [identPiece false t]
  | .compound, ts => ts.map (identPiece false)
  | .num, [.number s l] => [⟨false, .number s l, some (s ++ (if l then [76] else []))⟩]
  | .str, [.sqs s] => [⟨false, .sqs s, some ([39] ++ SqlVerif.Escape.escapeQ 39 s ++ [39])⟩]
  | .dstr, [.dqs s] => [⟨false, .dqs s, some ([34] ++ SqlVerif.Escape.escapeQ 34 s ++ [34])⟩]
  | .ph, [.placeholder s] => [⟨false, .placeholder s, some s⟩]
  -- `tok.to_string() + &ident.to_string()` (fix 736fcf6): the name is kept as written, quotes included
  | .ph2, [t, .word v q kw] =>
    [⟨false, t, t.display⟩, ⟨false, .word v q kw, identText v q⟩]
  | .ph2, [t, .number v l] => [⟨false, t, t.display⟩, ⟨false, .number v l, some v⟩]
  | .boolTrue, _ => [⟨false, .word (str "true") none (some KW.TRUE), some (str "true")⟩]
  | .boolFalse, _ => [⟨false, .word (str "false") none (some KW.FALSE), some (str "false")⟩]
  | .null, _ => [kwP false "NULL"]
  | _, ts => ts.map fun t => ⟨false, t, none⟩

/-- the data type of a `::` cast prints as its keyword -/
def castPieces (ops : List Tok) : List Piece :=
  match ops with
  | [_, .word _ _ (some k)] => [symP false .DoubleColon, ⟨false, kwTi k, some (kwName k)⟩]
  | _ => [symP false .DoubleColon, ⟨false, .other "?" "", none⟩]

def Quant.piece : Quant → Piece
  | .any => kwP true "ANY" | .all => kwP true "ALL" | .some => kwP true "SOME"

def Expr.isNil : Expr → Bool
  | .lnil => true
  | _ => false

/-- `impl Display for Expr` on the fragment; the first piece of the result has `sp = false` -/
def Expr.pieces : Expr → List Piece
  | .atom k toks => atomPieces k toks
  | .nested e => [symP false .LParen] ++ glued e.pieces ++ [symP false .RParen]
  | .pre .Not _ e => [kwP false "NOT"] ++ spaced e.pieces
  | .pre o _ e =>
    -- a sign directly before another sign is separated by a blank (`- -a`), everything else is glued
    [unOpP o] ++ (if o.isSign && e.headIsSign then spaced e.pieces else glued e.pieces)
  | .bin (.op o) l _ r => l.pieces ++ [binOpP true o] ++ spaced r.pieces
  | .bin (.isDistinct neg) l _ r =>
    l.pieces ++ [kwP true "IS"] ++ notP neg ++ [kwP true "DISTINCT", kwP true "FROM"] ++ spaced r.pieces
  | .bin .atTz l _ r => l.pieces ++ [kwP true "AT", kwP true "TIME", kwP true "ZONE"] ++ spaced r.pieces
  | .bin (.like k neg any) l _ r =>
    l.pieces ++ notP neg ++ k.pieces ++ (if any then [kwP true "ANY"] else []) ++ spaced r.pieces
  | .post (.is k) l _ => l.pieces ++ [kwP true "IS"] ++ k.pieces
  | .post .cast l ops => l.pieces ++ castPieces ops
  | .post .factorial l _ => l.pieces ++ [symP false .ExclamationMark]
  | .between neg l _ lo _ hi =>
    l.pieces ++ notP neg ++ [kwP true "BETWEEN"] ++ spaced lo.pieces ++ [kwP true "AND"] ++ spaced hi.pieces
  | .likeEsc k neg any l _ pat esc =>
    l.pieces ++ notP neg ++ k.pieces ++ (if any then [kwP true "ANY"] else []) ++
      spaced pat.pieces ++ escPieces esc
  | .inList neg l _ items =>
    l.pieces ++ notP neg ++ [kwP true "IN", symP true .LParen] ++ glued items.pieces ++ [symP false .RParen]
  | .quant o q l _ r =>
    l.pieces ++ [binOpP true o, q.piece, symP false .LParen] ++ glued r.pieces ++ [symP false .RParen]
  -- `display_comma_separated`: ", " between consecutive elements
  | .lcons e _ rest =>
    if rest.isNil then e.pieces else e.pieces ++ [symP false .Comma] ++ spaced rest.pieces
  | .lnil => []

/-- the printed token list -/
def showToks (e : Expr) : List Tok := e.pieces.map (·.tok)

def joinPieces : List Piece → Option W
  | [] => some []
  | p :: ps =>
    match p.text, joinPieces ps with
    | some t, some r => some ((if p.sp then [32] else []) ++ t ++ r)
    | _, _ => none

/-- `to_string()`; `none` where `Display` panics -/
def showText (e : Expr) : Option W := joinPieces e.pieces

end SqlVerif.Pratt

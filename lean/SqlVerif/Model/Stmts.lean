/-
Model of the statements loop `Parser::parse_statements` (`src/parser/mod.rs` ~409-439) over the
list of non-whitespace tokens (empty list = EOF).  The statement parser is a parameter.
-/
namespace SqlVerif.Stmts

structure TokClass (τ : Type) where
  isSemi : τ → Bool
  /-- a word whose keyword is `END` -/
  isEndKw : τ → Bool

inductive Err (ε : Type) where
  | stmt (e : ε)                 -- error of the statement parser
  | expectedEnd                  -- "Expected: end of statement, found: …"
  | fuel
deriving Repr, DecidableEq

/-- `while self.consume_token(&Token::SemiColon)`: (consumed at least one, rest) -/
def dropSemis {τ : Type} (c : TokClass τ) : List τ → Bool × List τ
  | [] => (false, [])
  | t :: rest => if c.isSemi t then (true, (dropSemis c rest).2) else (false, t :: rest)

/-- the loop; `expecting` = `expecting_statement_delimiter` -/
def loop {τ α ε : Type} (c : TokClass τ) (ps : List τ → Except ε (α × List τ)) :
    Nat → Bool → List τ → List α → Except (Err ε) (List α)
  | 0, _, _, _ => .error .fuel
  | fuel + 1, expecting, ts, acc =>
    let d := dropSemis c ts
    let expecting := if d.1 then false else expecting
    match d.2 with
    | [] => .ok acc
    | t :: rest =>
      if expecting && c.isEndKw t then .ok acc
      else if expecting then .error .expectedEnd
      else match ps (t :: rest) with
        | .error e => .error (.stmt e)
        | .ok (a, rest') => loop c ps fuel true rest' (acc ++ [a])

def parseStatements {τ α ε : Type} (c : TokClass τ) (ps : List τ → Except ε (α × List τ)) (ts : List τ) :
    Except (Err ε) (List α) :=
  loop c ps (ts.length + 1) false ts []

end SqlVerif.Stmts

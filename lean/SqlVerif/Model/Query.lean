import SqlVerif.Model.Pratt
import SqlVerif.Model.SetClimb
import SqlVerif.Gen.Reserved
import SqlVerif.Model.Stmts
/-!
Executable model of the core of the QUERY grammar of `src/parser/mod.rs`:
`parse_statement` (query statements only), `parse_query` (guard, body, ORDER BY, LIMIT / OFFSET in
either order incl. the MySQL `LIMIT a, b` form), `parse_query_body` / `parse_remaining_set_exprs`
(precedence climbing over real operands), `parse_select` restricted to
`SELECT [ALL|DISTINCT] projection [FROM tables/joins] [WHERE e] [GROUP BY es] [HAVING e]`,
`parse_projection` / `parse_select_item` / `parse_wildcard_expr`, `parse_optional_alias`,
`parse_table_and_joins` / `parse_table_factor` (plain object names and derived tables),
`parse_join_constraint`, `parse_order_by_expr`, `parse_comma_separated`.

* Input: the non-whitespace tokens (`Model/Tok.lean`); `[]` is EOF.  Expressions are parsed by the
  validated model `Pratt.parseSubexpr`.
* `depth` is `RecursionCounter::remaining_depth`: `parse_statement`, `parse_query`,
  `parse_table_factor` and `parse_subexpr` each hold one level while they run.
* `fuel` only makes the definitions structurally recursive.
* Every branch of the real functions that leaves the fragment (WITH, VALUES, TOP, INTO, LATERAL,
  PREWHERE, QUALIFY, WINDOW, FETCH, FOR, table functions, nested joins, …) answers
  `Err.unsupported` at the token where the real code would take that branch; the model never guesses.
  In particular the fall-back of `parse_table_factor` after a failed derived-table attempt
  (`maybe_parse`) is outside the fragment: any non-limit error inside `( … )` of a table factor is
  `unsupported`.
* Error messages are not modelled at this level (class only: `syntax` / `rle`).
* Trees keep every consumed token, so that the token yield is a structural function
  (`Lemmas/QueryLemmas.lean`); what `sqlparser::ast` holds is derived from them (`Model/QueryPrint.lean`).
-/
namespace SqlVerif.Query
open SqlVerif.Pratt SqlVerif.Gen
open SqlVerif.SetClimb (Op SQuant precOf)

abbrev Res (α : Type) := Except Err (α × List Tok)

/-- a syntax error of the query layer (the text is informative only) -/
def syn (what : String) : Err := .syntax (str what)

-- ------------------------------------------------------------------ configuration
structure QCfg where
  /-- the expression parser's view of the dialect and options -/
  e : Cfg
  isBigQuery : Bool
  /-- `dialect_of!(self is ClickHouseDialect | GenericDialect)` -/
  chOrGeneric : Bool
  /-- `supports_limit_comma` -/
  limitComma : Bool
  /-- `supports_projection_trailing_commas` -/
  projTrailing : Bool
  /-- `supports_group_by_expr` -/
  groupByExpr : Bool
  /-- `supports_select_wildcard_except` -/
  wildcardExcept : Bool

def QCfg.ofRow (r : DialectRow) : QCfg :=
  { e := Cfg.ofRow r
    isBigQuery := r.name == "bigquery"
    chOrGeneric := r.name == "clickhouse" || r.name == "generic"
    limitComma := r.flags.supports_limit_comma
    projTrailing := r.flags.supports_projection_trailing_commas
    groupByExpr := r.flags.supports_group_by_expr
    wildcardExcept := r.flags.supports_select_wildcard_except }

/-- the same dialect with `ParserOptions::trailing_commas` set explicitly -/
def QCfg.withTrailing (c : QCfg) (tc : Bool) : QCfg := { c with e := { c.e with trailingCommas := tc } }

namespace K
def SELECT := kwIndex "SELECT"
def WITH := kwIndex "WITH"
def VALUES := kwIndex "VALUES"
def INSERT := kwIndex "INSERT"
def UPDATE := kwIndex "UPDATE"
def TABLE := kwIndex "TABLE"
def ALL := kwIndex "ALL"
def DISTINCT := kwIndex "DISTINCT"
def ON := kwIndex "ON"
def TOP := kwIndex "TOP"
def INTO := kwIndex "INTO"
def FROM := kwIndex "FROM"
def AS := kwIndex "AS"
def LATERAL := kwIndex "LATERAL"
def PREWHERE := kwIndex "PREWHERE"
def WHERE := kwIndex "WHERE"
def GROUP := kwIndex "GROUP"
def BY := kwIndex "BY"
def CLUSTER := kwIndex "CLUSTER"
def DISTRIBUTE := kwIndex "DISTRIBUTE"
def SORT := kwIndex "SORT"
def HAVING := kwIndex "HAVING"
def WINDOW := kwIndex "WINDOW"
def QUALIFY := kwIndex "QUALIFY"
def START := kwIndex "START"
def CONNECT := kwIndex "CONNECT"
def ORDER := kwIndex "ORDER"
def LIMIT := kwIndex "LIMIT"
def OFFSET := kwIndex "OFFSET"
def ROW := kwIndex "ROW"
def ROWS := kwIndex "ROWS"
def SETTINGS := kwIndex "SETTINGS"
def FETCH := kwIndex "FETCH"
def FOR := kwIndex "FOR"
def FORMAT := kwIndex "FORMAT"
def INTERPOLATE := kwIndex "INTERPOLATE"
def ASC := kwIndex "ASC"
def DESC := kwIndex "DESC"
def NULLS := kwIndex "NULLS"
def FIRST := kwIndex "FIRST"
def LAST := kwIndex "LAST"
def FILL := kwIndex "FILL"
def UNION := kwIndex "UNION"
def EXCEPT := kwIndex "EXCEPT"
def INTERSECT := kwIndex "INTERSECT"
def NAME := kwIndex "NAME"
def GLOBAL := kwIndex "GLOBAL"
def CROSS := kwIndex "CROSS"
def JOIN := kwIndex "JOIN"
def APPLY := kwIndex "APPLY"
def OUTER := kwIndex "OUTER"
def ASOF := kwIndex "ASOF"
def NATURAL := kwIndex "NATURAL"
def INNER := kwIndex "INNER"
def LEFT := kwIndex "LEFT"
def RIGHT := kwIndex "RIGHT"
def FULL := kwIndex "FULL"
def SEMI := kwIndex "SEMI"
def ANTI := kwIndex "ANTI"
def USING := kwIndex "USING"
def UNNEST := kwIndex "UNNEST"
def PARTITION := kwIndex "PARTITION"
def PIVOT := kwIndex "PIVOT"
def UNPIVOT := kwIndex "UNPIVOT"
def MATCH_RECOGNIZE := kwIndex "MATCH_RECOGNIZE"
def ILIKE := kwIndex "ILIKE"
def EXCLUDE := kwIndex "EXCLUDE"
def REPLACE := kwIndex "REPLACE"
def RENAME := kwIndex "RENAME"
def GROUPING := kwIndex "GROUPING"
def CUBE := kwIndex "CUBE"
def ROLLUP := kwIndex "ROLLUP"
def END_ := kwIndex "END"
end K

-- ------------------------------------------------------------------ AST (every node keeps its tokens)
/-- `SelectItem`: `expr [[AS] alias]` (alias = the consumed tokens: `[]`, `[id]` or `[AS, id]`),
`*`, `a.b.*` (the name parts with their periods and the final `*`) -/
inductive SelectItem
  | expr (e : Expr) (alias : List Tok)
  | wildcard (t : Tok)
  | qualified (toks : List Tok)
deriving Repr, DecidableEq

/-- `OrderByExpr`: `dir` = `[]` / `[ASC]` / `[DESC]`, `nulls` = `[]` / `[NULLS, FIRST]` / `[NULLS, LAST]` -/
structure OrderByExpr where
  e : Expr
  dir : List Tok
  nulls : List Tok
deriving Repr, DecidableEq

/-- the clauses of the LIMIT / OFFSET loop of `parse_query`, in source order -/
inductive LimClause
  /-- `LIMIT e` -/
  | limit (kw : Tok) (e : Expr)
  /-- `LIMIT ALL` -/
  | limitAll (kw all : Tok)
  /-- `OFFSET e [ROW|ROWS]` -/
  | offset (kw : Tok) (e : Expr) (rows : List Tok)
  /-- `, e` after a limit (MySQL `LIMIT a, b`) -/
  | comma (t : Tok) (e : Expr)
deriving Repr, DecidableEq

/-- a comma-separated list: each element with the separator tokens that followed it (`[,]` or `[]`;
a trailing comma is the separator of the last element) -/
abbrev Sep (α : Type) := List (α × List Tok)

/-- what follows the body of a query: `ORDER BY` list and the LIMIT / OFFSET clauses -/
structure QueryTail where
  /-- `[ORDER, BY]` or `[]` -/
  orderKw : List Tok
  order : Sep OrderByExpr
  lims : List LimClause
deriving Repr, DecidableEq

/-- head of a `SELECT`: the keyword, the consumed `ALL` / `DISTINCT` tokens, the projection -/
structure SelHead where
  sel : Tok
  quant : List Tok
  distinct : Bool
  proj : Sep SelectItem
deriving Repr, DecidableEq

/-- what follows the FROM clause of a `SELECT` -/
structure SelTail where
  /-- `[WHERE]` or `[]` -/
  whereKw : List Tok
  selection : Option Expr
  /-- `[GROUP, BY]` or `[]` -/
  groupKw : List Tok
  group : Sep Expr
  /-- `[HAVING]` or `[]` -/
  havingKw : List Tok
  having : Option Expr
deriving Repr, DecidableEq

inductive JoinKind | inner | left | right | full | cross
deriving Repr, DecidableEq

/-- what connects a table factor to what precedes it -/
inductive Conn
  /-- the keyword `FROM`: first factor of the clause -/
  | from (t : Tok)
  /-- `,`: first factor of the next `TableWithJoins` -/
  | comma (t : Tok)
  /-- a join keyword sequence, e.g. `[LEFT, OUTER, JOIN]` -/
  | join (k : JoinKind) (toks : List Tok)
deriving Repr, DecidableEq

/-- `parse_join_constraint` follows the factor (every join but `CROSS JOIN`) -/
def Conn.hasCstr : Conn → Bool
  | .join .cross _ => false
  | .join _ _ => true
  | _ => false

inductive JoinCstr
  | none
  | on (kw : Tok) (e : Expr)
  /-- `USING ( cols )`: keyword and `(`, the columns, `)` -/
  | using (kw lp : Tok) (cols : Sep Tok) (rp : Tok)
deriving Repr, DecidableEq

/-- query bodies (`SetExpr`) and FROM items in one inductive type:
`select` / `paren` / `setOp` are query bodies; `fnil` / `ftable` / `fderived` form the flat list of
table factors of one FROM clause, each with the connector in front of it. -/
inductive QNode
  | select (hd : SelHead) (frm : QNode) (tl : SelTail)
  /-- `( query )` as a body (`SetExpr::Query`) -/
  | paren (lp : Tok) (body : QNode) (qt : QueryTail) (rp : Tok)
  | setOp (l : QNode) (o : Op) (q : SQuant) (ops : List Tok) (r : QNode)
  /-- end of the FROM items; `trail` = a trailing comma accepted by the option -/
  | fnil (trail : List Tok)
  | ftable (conn : Conn) (name alias : List Tok) (cstr : JoinCstr) (rest : QNode)
  /-- `( query ) [AS alias]` -/
  | fderived (conn : Conn) (lp : Tok) (body : QNode) (qt : QueryTail) (rp : Tok) (alias : List Tok)
      (cstr : JoinCstr) (rest : QNode)
deriving Repr, DecidableEq

structure Query where
  body : QNode
  tail : QueryTail
deriving Repr, DecidableEq

-- ------------------------------------------------------------------ small helpers
/-- `consume_token(&Token::X)` for a payload-free token: the token and the rest -/
def eatSym (ts : List Tok) (s : Sym) : Option (Tok × List Tok) :=
  match ts with
  | t :: rest => if t.isSym s then some (t, rest) else none
  | [] => none

/-- the peeked token is a word whose keyword is one of `ks` -/
def peekAnyKw (ts : List Tok) (ks : List Nat) : Bool := ks.any (peekKw ts)

/-- `is_parse_comma_separated_end` after the comma: EOF, a closer, or a word whose keyword is in
`RESERVED_FOR_COLUMN_ALIAS` -/
def endsList (t : Tok) : Bool :=
  match t with
  | .sym .RParen | .sym .SemiColon | .sym .RBracket | .sym .RBrace => true
  | .word _ _ (some k) => reservedForColumnAlias.contains k
  | _ => false

def listEnds : List Tok → Bool
  | [] => true
  | t :: _ => endsList t

/-- `parse_expr` -/
def parseE (c : QCfg) (f d : Nat) (ts : List Tok) : Res Expr := parseSubexpr c.e f d c.e.prec.unknown ts

/-- `parse_comma_separated(elem)` with `options.trailing_commas = tc` -/
def commaSepE {α : Type} (tc : Bool) (elem : List Tok → Res α) : Nat → List Tok → Res (Sep α)
  | 0, _ => .error .fuel
  | n + 1, ts =>
    match elem ts with
    | .error er => .error er
    | .ok (v, rest) =>
      match rest with
      | .sym .Comma :: rest' =>
        if tc && listEnds rest' then .ok ([(v, [.sym .Comma])], rest')
        else
          match commaSepE tc elem n rest' with
          | .error er => .error er
          | .ok (vs, rest'') => .ok ((v, [.sym .Comma]) :: vs, rest'')
      | _ => .ok ([(v, [])], rest)

/-- the token can be an alias / identifier: a word, or a '…' / "…" string -/
def isIdentTok : Tok → Bool
  | .word _ _ _ | .sqs _ | .dqs _ => true
  | _ => false

/-- `parse_optional_alias(reserved)`: the consumed tokens (`[]`, `[id]`, `[AS, id]`) and the rest -/
def optAlias (reserved : List Nat) (ts : List Tok) : Res (List Tok) :=
  match eatKw ts K.AS with
  | some (asT, r) =>
    match r with
    | [] => .error (syn "an identifier after AS")
    | t :: r' => if isIdentTok t then .ok ([asT, t], r') else .error (syn "an identifier after AS")
  | none =>
    match ts with
    | [] => .ok ([], [])
    | t :: r =>
      match t with
      | .word _ _ kw =>
        match kw with
        | some k => if reserved.contains k then .ok ([], ts) else .ok ([t], r)
        | none => .ok ([t], r)
      | .sqs _ | .dqs _ => .ok ([t], r)
      | _ => .ok ([], ts)

/-- `parse_identifier(false)` as a list element -/
def identElem (ts : List Tok) : Res Tok :=
  match ts with
  | [] => .error (syn "identifier")
  | t :: r => if isIdentTok t then .ok (t, r) else .error (syn "identifier")

def asciiLower (v : W) : W := v.map fun ch => if 65 ≤ ch ∧ ch ≤ 90 then ch + 32 else ch

/-- `Expr::Identifier(v) if v.value.to_lowercase() == "from" && v.quote_style.is_none()` -/
def isBareFrom : Expr → Bool
  | .atom .ident [.word v none _] => asciiLower v == str "from"
  | _ => false

-- ------------------------------------------------------------------ select items
inductive QualRes
  /-- `a.b.*`: the tokens and the rest -/
  | wild (toks rest : List Tok)
  /-- the periods ran out before a `*`: re-parse from the start as an expression -/
  | notWild
  | err

/-- the loop of `parse_wildcard_expr`, just after a period (`acc` ends with it) -/
def qualScan (acc : List Tok) : List Tok → QualRes
  | [] => .err
  | t :: rest =>
    match t with
    | .word _ _ _ | .sqs _ =>
      match rest with
      | .sym .Period :: rest' => qualScan (acc ++ [t, .sym .Period]) rest'
      | _ => .notWild
    | .sym .Mul => .wild (acc ++ [t]) rest
    | _ => .err

/-- keywords of `parse_wildcard_additional_options` that leave the fragment after `*` -/
def wildcardForeign (c : QCfg) (ts : List Tok) : Bool :=
  peekAnyKw ts [K.ILIKE, K.EXCLUDE, K.REPLACE, K.RENAME] || (c.wildcardExcept && peekKw ts K.EXCEPT)

/-- `parse_select_item` when the item is not a wildcard: `parse_expr`, the `SELECT FROM` check,
`parse_optional_alias(RESERVED_FOR_COLUMN_ALIAS)` -/
def itemViaExpr (c : QCfg) (f d : Nat) (ts : List Tok) : Res SelectItem :=
  match parseE c f d ts with
  | .error er => .error er
  | .ok (e, rest) =>
    if isBareFrom e then .error (syn "an expression, found: from")
    else
      match optAlias reservedForColumnAlias rest with
      | .error er => .error er
      | .ok (al, rest') => .ok (.expr e al, rest')

/-- `parse_select_item` (with `parse_wildcard_expr`) -/
def selectItem (c : QCfg) (f d : Nat) (ts : List Tok) : Res SelectItem :=
  match ts with
  | t :: rest =>
    match t with
    | .sym .Mul => if wildcardForeign c rest then .error .unsupported else .ok (.wildcard t, rest)
    | .word _ _ _ | .sqs _ =>
      match rest with
      | .sym .Period :: rest' =>
        match qualScan [t, .sym .Period] rest' with
        | .wild toks r => if wildcardForeign c r then .error .unsupported else .ok (.qualified toks, r)
        | .notWild => itemViaExpr c f d ts
        | .err => .error (syn "an identifier or a '*' after '.'")
      | _ => itemViaExpr c f d ts
    | _ => itemViaExpr c f d ts
  | [] => itemViaExpr c f d ts

/-- `GROUPING SETS`, `CUBE`, `ROLLUP`, `()` at the head of a GROUP BY element (dialects with
`supports_group_by_expr`): outside the fragment -/
def emptyTupleAhead : List Tok → Bool
  | .sym .LParen :: .sym .RParen :: _ => true
  | _ => false

def groupByForeign (c : QCfg) (ts : List Tok) : Bool :=
  c.groupByExpr && (peekAnyKw ts [K.GROUPING, K.CUBE, K.ROLLUP] || emptyTupleAhead ts)

/-- `parse_group_by_expr` -/
def groupByElem (c : QCfg) (f d : Nat) (ts : List Tok) : Res Expr :=
  if groupByForeign c ts then .error .unsupported else parseE c f d ts

/-- `parse_asc_desc`: consumed tokens and the rest -/
def dirTail (ts : List Tok) : List Tok × List Tok :=
  match eatKw ts K.ASC with
  | some (t, r) => ([t], r)
  | none =>
    match eatKw ts K.DESC with
    | some (t, r) => ([t], r)
    | none => ([], ts)

/-- `NULLS FIRST` / `NULLS LAST` (both keywords or nothing) -/
def nullsTail (ts : List Tok) : List Tok × List Tok :=
  match eatKws ts [K.NULLS, K.FIRST] with
  | some p => p
  | none =>
    match eatKws ts [K.NULLS, K.LAST] with
    | some p => p
    | none => ([], ts)

/-- `WITH FILL` after an ORDER BY expression (ClickHouse / Generic): outside the fragment -/
def withFillAhead (c : QCfg) (ts : List Tok) : Bool := c.chOrGeneric && (eatKws ts [K.WITH, K.FILL]).isSome

/-- `parse_order_by_expr` -/
def orderByElem (c : QCfg) (f d : Nat) (ts : List Tok) : Res OrderByExpr :=
  match parseE c f d ts with
  | .error er => .error er
  | .ok (e, r0) =>
    if withFillAhead c (nullsTail (dirTail r0).2).2 then .error .unsupported
    else .ok (⟨e, (dirTail r0).1, (nullsTail (dirTail r0).2).1⟩, (nullsTail (dirTail r0).2).2)

-- ------------------------------------------------------------------ LIMIT / OFFSET
/-- `(limit, offset)` as the loop of `parse_query` leaves them after the clauses seen so far -/
def limSem (cs : List LimClause) : Option Expr × Option (Expr × List Tok) :=
  cs.foldl (fun st cl =>
    match cl with
    | .limit _ e => (some e, st.2)
    | .limitAll _ _ => (none, st.2)
    | .offset _ e rows => (st.1, some (e, rows))
    | .comma _ e => (some e, st.1.map fun l => (l, []))) (none, none)

/-- `if limit.is_none() && self.parse_keyword(Keyword::LIMIT) { limit = self.parse_limit()? }` -/
def limPart (c : QCfg) (f d : Nat) (cs : List LimClause) (ts : List Tok) : Res (List LimClause) :=
  if (limSem cs).1.isNone then
    match eatKw ts K.LIMIT with
    | some (kw, r) =>
      match eatKw r K.ALL with
      | some (a, r') => .ok (cs ++ [.limitAll kw a], r')
      | none =>
        match parseE c f d r with
        | .error er => .error er
        | .ok (e, r') => .ok (cs ++ [.limit kw e], r')
    | none => .ok (cs, ts)
  else .ok (cs, ts)

/-- `ROW` / `ROWS` after the offset value -/
def rowsTail (ts : List Tok) : List Tok × List Tok :=
  match eatKw ts K.ROW with
  | some (t, r) => ([t], r)
  | none =>
    match eatKw ts K.ROWS with
    | some (t, r) => ([t], r)
    | none => ([], ts)

/-- `if offset.is_none() && self.parse_keyword(Keyword::OFFSET) { offset = Some(self.parse_offset()?) }` -/
def offPart (c : QCfg) (f d : Nat) (cs : List LimClause) (ts : List Tok) : Res (List LimClause) :=
  if (limSem cs).2.isNone then
    match eatKw ts K.OFFSET with
    | some (kw, r) =>
      match parseE c f d r with
      | .error er => .error er
      | .ok (e, r') => .ok (cs ++ [.offset kw e (rowsTail r').1], (rowsTail r').2)
    | none => .ok (cs, ts)
  else .ok (cs, ts)

/-- `supports_limit_comma && limit.is_some() && offset.is_none() && consume_token(Comma)` -/
def commaPart (c : QCfg) (f d : Nat) (cs : List LimClause) (ts : List Tok) : Res (List LimClause) :=
  if c.limitComma && (limSem cs).1.isSome && (limSem cs).2.isNone then
    match ts with
    | .sym .Comma :: r =>
      match parseE c f d r with
      | .error er => .error er
      | .ok (e, r') => .ok (cs ++ [.comma (.sym .Comma) e], r')
    | _ => .ok (cs, ts)
  else .ok (cs, ts)

/-- one round of `for _x in 0..2 { … }` -/
def limStep (c : QCfg) (f d : Nat) (cs : List LimClause) (ts : List Tok) : Res (List LimClause) :=
  match limPart c f d cs ts with
  | .error er => .error er
  | .ok (cs1, ts1) =>
    match offPart c f d cs1 ts1 with
    | .error er => .error er
    | .ok (cs2, ts2) => commaPart c f d cs2 ts2

/-- keywords after the LIMIT / OFFSET loop of `parse_query` that leave the fragment -/
def queryTailForeign (ts : List Tok) : Bool :=
  peekAnyKw ts [K.BY, K.SETTINGS, K.FETCH, K.FOR, K.FORMAT]

/-- `parse_optional_order_by`: the keywords `[ORDER, BY]` (or `[]`) and the list -/
def orderPart (c : QCfg) (f d : Nat) (ts : List Tok) : Res (List Tok × Sep OrderByExpr) :=
  match eatKws ts [K.ORDER, K.BY] with
  | some (kws, r) =>
    match commaSepE c.e.trailingCommas (orderByElem c f d) f r with
    | .error er => .error er
    | .ok (os, r') => if c.chOrGeneric && peekKw r' K.INTERPOLATE then .error .unsupported else .ok ((kws, os), r')
  | none => .ok (([], []), ts)

/-- `parse_optional_order_by`, the LIMIT / OFFSET loop and the rest of `parse_query` after the body -/
def queryTail (c : QCfg) (f d : Nat) (ts : List Tok) : Res QueryTail :=
  match orderPart c f d ts with
  | .error er => .error er
  | .ok (ko, ts1) =>
    match limStep c f d [] ts1 with
    | .error er => .error er
    | .ok (cs1, ts2) =>
      match limStep c f d cs1 ts2 with
      | .error er => .error er
      | .ok (cs2, ts3) =>
        if queryTailForeign ts3 then .error .unsupported else .ok (⟨ko.1, ko.2, cs2⟩, ts3)

-- ------------------------------------------------------------------ set operators
def setOpOf (t : Tok) : Option Op :=
  if t.isKw K.UNION then some .union
  else if t.isKw K.EXCEPT then some .except
  else if t.isKw K.INTERSECT then some .intersect
  else none

/-- `parse_set_quantifier`: quantifier, its tokens, the rest -/
def setQuant (ts : List Tok) : SQuant × List Tok × List Tok :=
  match eatKws ts [K.DISTINCT, K.BY, K.NAME] with
  | some (ops, r) => (.distinctByName, ops, r)
  | none =>
    match eatKws ts [K.BY, K.NAME] with
    | some (ops, r) => (.byName, ops, r)
    | none =>
      match eatKw ts K.ALL with
      | some (a, r) =>
        match eatKws r [K.BY, K.NAME] with
        | some (ops, r') => (.allByName, a :: ops, r')
        | none => (.all, [a], r)
      | none =>
        match eatKw ts K.DISTINCT with
        | some (t, r) => (.distinct, [t], r)
        | none => (.none, [], ts)

-- ------------------------------------------------------------------ joins
inductive JoinHead
  /-- no join keyword: the loop of `parse_table_and_joins` breaks -/
  | stop
  /-- join keywords consumed -/
  | join (k : JoinKind) (toks rest : List Tok)

/-- `LEFT` / `RIGHT` consumed (`t`): `OUTER JOIN`, `JOIN`, or `SEMI` / `ANTI` (outside the fragment) -/
def leftRightTail (k : JoinKind) (t : Tok) (r : List Tok) : Except Err JoinHead :=
  match eatKw r K.OUTER with
  | some (t2, r2) =>
    match eatKw r2 K.JOIN with
    | some (t3, r3) => .ok (.join k [t, t2, t3] r3)
    | none => .error (syn "JOIN")
  | none =>
    if peekKw r K.SEMI || peekKw r K.ANTI then .error .unsupported
    else
      match eatKw r K.JOIN with
      | some (t2, r2) => .ok (.join k [t, t2] r2)
      | none => .error (syn "OUTER, SEMI, ANTI or JOIN")

/-- the keyword part of one round of the loop in `parse_table_and_joins` -/
def joinHead (ts : List Tok) : Except Err JoinHead :=
  if peekKw ts K.GLOBAL then .error .unsupported
  else
  match eatKw ts K.CROSS with
  | some (t1, r1) =>
    match eatKw r1 K.JOIN with
    | some (t2, r2) => .ok (.join .cross [t1, t2] r2)
    | none => if peekKw r1 K.APPLY then .error .unsupported else .error (syn "JOIN or APPLY after CROSS")
  | none =>
  match eatKw ts K.OUTER with
  | some (_, r1) => if peekKw r1 K.APPLY then .error .unsupported else .error (syn "APPLY")
  | none =>
  if peekKw ts K.ASOF || peekKw ts K.NATURAL then .error .unsupported
  else
  match eatKw ts K.INNER with
  | some (t, r) =>
    match eatKw r K.JOIN with
    | some (t2, r2) => .ok (.join .inner [t, t2] r2)
    | none => .error (syn "JOIN")
  | none =>
  match eatKw ts K.JOIN with
  | some (t, r) => .ok (.join .inner [t] r)
  | none =>
  match eatKw ts K.LEFT with
  | some (t, r) => leftRightTail .left t r
  | none =>
  match eatKw ts K.RIGHT with
  | some (t, r) => leftRightTail .right t r
  | none =>
  match eatKw ts K.FULL with
  | some (t, r) =>
    match eatKw r K.OUTER with
    | some (t2, r2) =>
      match eatKw r2 K.JOIN with
      | some (t3, r3) => .ok (.join .full [t, t2, t3] r3)
      | none => .error (syn "JOIN")
    | none =>
      match eatKw r K.JOIN with
      | some (t2, r2) => .ok (.join .full [t, t2] r2)
      | none => .error (syn "JOIN")
  | none => .ok .stop

/-- `parse_join_constraint(false)` -/
def joinCstr (c : QCfg) (f d : Nat) (ts : List Tok) : Res JoinCstr :=
  match eatKw ts K.ON with
  | some (kw, r) =>
    match parseE c f d r with
    | .error er => .error er
    | .ok (e, r') => .ok (.on kw e, r')
  | none =>
    match eatKw ts K.USING with
    | some (kw, r) =>
      match r with
      | .sym .LParen :: r1 =>
        match commaSepE c.e.trailingCommas identElem f r1 with
        | .error er => .error er
        | .ok (cols, r2) =>
          match r2 with
          | .sym .RParen :: r3 => .ok (.using kw (.sym .LParen) cols (.sym .RParen), r3)
          | _ => .error (syn ")")
      | _ => .error (syn "a list of columns in parentheses")
    | none => .ok (.none, ts)

/-- the constraint after a factor, when its connector takes one -/
def optCstr (c : QCfg) (f d : Nat) (cstr : Bool) (ts : List Tok) : Res JoinCstr :=
  if cstr then joinCstr c f d ts else .ok (.none, ts)

/-- `parse_object_name(true)`: identifiers separated by periods -/
def objectName (acc : List Tok) : List Tok → Res (List Tok)
  | [] => .error (syn "identifier")
  | t :: rest =>
    if isIdentTok t then
      match rest with
      | .sym .Period :: rest' => objectName (acc ++ [t, .sym .Period]) rest'
      | _ => .ok (acc ++ [t], rest)
    else .error (syn "identifier")

/-- BigQuery only: a part of the name contains a period (the name is re-split), or an unquoted
part is followed by `-` (hyphenated table names): outside the fragment -/
def bigQueryNameForeign (name rest : List Tok) : Bool :=
  name.any (fun t => match t with
    | .word v _ _ => v.contains 46
    | .sqs v | .dqs v => v.contains 46
    | _ => false) ||
  (peekSym rest .Minus && (match name.getLast? with | some (.word _ none _) => true | _ => false)) ||
  -- a hyphen after an inner unquoted part is a syntax error or a longer name: not followed here
  false

/-- keywords after a table name / alias that leave the fragment -/
def afterNameForeign (ts : List Tok) : Bool :=
  peekAnyKw ts [K.PARTITION, K.FOR, K.WITH] || peekSym ts .LParen

def afterAliasForeign (ts : List Tok) : Bool :=
  peekAnyKw ts [K.WITH, K.PIVOT, K.UNPIVOT, K.MATCH_RECOGNIZE]

/-- `parse_optional_table_alias`: an alias followed by `(` is a column list: outside the fragment -/
def optTableAlias (ts : List Tok) : Res (List Tok) :=
  match optAlias reservedForTableAlias ts with
  | .error er => .error er
  | .ok (al, r) => if !al.isEmpty && peekSym r .LParen then .error .unsupported else .ok (al, r)

-- ------------------------------------------------------------------ the recursive core
/-- keywords directly after `SELECT [ALL|DISTINCT]` / after the projection / after FROM … that leave
the fragment -/
def afterFromForeign (ts : List Tok) : Bool := peekAnyKw ts [K.LATERAL, K.PREWHERE]
def afterGroupForeign (ts : List Tok) : Bool := peekAnyKw ts [K.CLUSTER, K.DISTRIBUTE, K.SORT]
def afterHavingForeign (ts : List Tok) : Bool := peekAnyKw ts [K.WINDOW, K.QUALIFY, K.START, K.CONNECT]

/-- optional `ALL` in front of `DISTINCT` -/
def allTail (ts : List Tok) : List Tok × List Tok :=
  match eatKw ts K.ALL with
  | some (t, r) => ([t], r)
  | none => ([], ts)

/-- `parse_all_or_distinct`: consumed tokens, DISTINCT seen, rest -/
def allOrDistinct (ts : List Tok) : Res (List Tok × Bool) :=
  match eatKw (allTail ts).2 K.DISTINCT with
  | none => .ok (((allTail ts).1, false), (allTail ts).2)
  | some (t, r) =>
    if !(allTail ts).1.isEmpty then .error (syn "Cannot specify both ALL and DISTINCT")
    else if peekKw r K.ON then .error .unsupported
    else .ok (([t], true), r)

/-- an optional clause `KW expr` (WHERE, HAVING): the keyword (or `[]`) and the expression -/
def kwExprPart (c : QCfg) (f d : Nat) (k : Nat) (ts : List Tok) : Res (List Tok × Option Expr) :=
  match eatKw ts k with
  | some (kw, r) =>
    match parseE c f d r with
    | .error er => .error er
    | .ok (e, r') => .ok (([kw], some e), r')
  | none => .ok (([], none), ts)

/-- `parse_optional_group_by` -/
def groupPart (c : QCfg) (f d : Nat) (ts : List Tok) : Res (List Tok × Sep Expr) :=
  match eatKws ts [K.GROUP, K.BY] with
  | some (kws, r) =>
    if peekKw r K.ALL then .error .unsupported
    else
      match commaSepE c.e.trailingCommas (groupByElem c f d) f r with
      | .error er => .error er
      | .ok (es, r') => if c.chOrGeneric && peekKw r' K.WITH then .error .unsupported else .ok ((kws, es), r')
  | none => .ok (([], []), ts)

/-- WHERE / GROUP BY / HAVING and the foreign keywords between them (`parse_select` after FROM) -/
def selTail (c : QCfg) (f d : Nat) (ts : List Tok) : Res SelTail :=
  if afterFromForeign ts then .error .unsupported
  else
  match kwExprPart c f d K.WHERE ts with
  | .error er => .error er
  | .ok (w, ts1) =>
    match groupPart c f d ts1 with
    | .error er => .error er
    | .ok (g, ts2) =>
      if afterGroupForeign ts2 then .error .unsupported
      else
      match kwExprPart c f d K.HAVING ts2 with
      | .error er => .error er
      | .ok (h, ts3) =>
        if afterHavingForeign ts3 then .error .unsupported
        else .ok (⟨w.1, w.2, g.1, g.2, h.1, h.2⟩, ts3)

/-- `parse_select` up to and including the projection (`sel` = the consumed keyword) -/
def selHead (c : QCfg) (f d : Nat) (sel : Tok) (ts : List Tok) : Res SelHead :=
  if c.isBigQuery && peekKw ts K.AS then .error .unsupported
  else
  match allOrDistinct ts with
  | .error er => .error er
  | .ok (qd, ts1) =>
    if peekKw ts1 K.TOP then .error .unsupported
    else
      -- parse_projection: the option is widened while the projection is parsed -- for the list of
      -- select items and, since it is parser state, for every list nested inside an item
      match commaSepE (c.e.trailingCommas || c.projTrailing)
          (selectItem (c.withTrailing (c.e.trailingCommas || c.projTrailing)) f d) f ts1 with
      | .error er => .error er
      | .ok (proj, ts2) =>
        if peekKw ts2 K.INTO then .error .unsupported else .ok (⟨sel, qd.1, qd.2, proj⟩, ts2)

/-- start of `parse_table_factor` (after its guard): what kind of factor begins here -/
inductive FactorHead
  /-- `(`: a derived table is attempted -/
  | paren (lp : Tok) (rest : List Tok)
  /-- a plain object name with optional alias -/
  | table (name alias rest : List Tok)

/-- `VALUES (` at the head of a table factor: a derived VALUES table (Snowflake / Databricks /
Generic) or a table function: outside the fragment -/
def valuesParenAhead (ts : List Tok) : Bool :=
  peekKw ts K.VALUES && (match ts with | _ :: .sym .LParen :: _ => true | _ => false)

def factorHead (c : QCfg) (ts : List Tok) : Except Err FactorHead :=
  if peekAnyKw ts [K.LATERAL, K.TABLE, K.UNNEST] then .error .unsupported
  else
  match eatSym ts .LParen with
  | some (lp, rest) => .ok (.paren lp rest)
  | none =>
    if valuesParenAhead ts then .error .unsupported
    else
    match objectName [] ts with
    | .error er => .error er
    | .ok (name, r) =>
      if c.isBigQuery && bigQueryNameForeign name r then .error .unsupported
      else if afterNameForeign r then .error .unsupported
      else
        match optTableAlias r with
        | .error er => .error er
        | .ok (al, r') => if afterAliasForeign r' then .error .unsupported else .ok (.table name al r')

mutual

/-- `parse_query`: one guard level, body, ORDER BY, LIMIT / OFFSET -/
def parseQuery (c : QCfg) : Nat → Nat → List Tok → Res Query
  | 0, _, _ => .error .fuel
  | _ + 1, 0, _ => .error .rle
  | f + 1, d + 1, ts =>
    if peekAnyKw ts [K.WITH, K.INSERT, K.UPDATE] then .error .unsupported
    else
    match queryBody c f d c.e.prec.unknown ts with
    | .error er => .error er
    | .ok (body, ts1) =>
      match queryTail c f d ts1 with
      | .error er => .error er
      | .ok (qt, ts2) => .ok (⟨body, qt⟩, ts2)

/-- `parse_query_body(prec)` -/
def queryBody (c : QCfg) : Nat → Nat → Nat → List Tok → Res QNode
  | 0, _, _, _ => .error .fuel
  | f + 1, d, prec, ts =>
    match ts with
    | [] => .error (syn "SELECT, VALUES, or a subquery in the query body")
    | t :: rest =>
      if t.isKw K.SELECT then
        match parseSelect c f d t rest with
        | .error er => .error er
        | .ok (s, ts1) => remaining c f d s prec ts1
      else
      match t with
      | .sym .LParen =>
        match parseQuery c f d rest with
        | .error er => .error er
        | .ok (q, ts1) =>
          match ts1 with
          | .sym .RParen :: ts2 => remaining c f d (.paren t q.body q.tail (.sym .RParen)) prec ts2
          | _ => .error (syn ")")
      | _ =>
        if t.isKw K.VALUES || t.isKw K.TABLE then .error .unsupported
        else .error (syn "SELECT, VALUES, or a subquery in the query body")

/-- `parse_remaining_set_exprs(e, prec)` -/
def remaining (c : QCfg) : Nat → Nat → QNode → Nat → List Tok → Res QNode
  | 0, _, _, _, _ => .error .fuel
  | f + 1, d, e, prec, ts =>
    match ts with
    | [] => .ok (e, ts)
    | t :: rest =>
      match setOpOf t with
      | none => .ok (e, ts)
      | some o =>
        if prec ≥ precOf o then .ok (e, ts)
        else
          match queryBody c f d (precOf o) (setQuant rest).2.2 with
          | .error er => .error er
          | .ok (r, ts1) => remaining c f d (.setOp e o (setQuant rest).1 (t :: (setQuant rest).2.1) r) prec ts1

/-- `parse_select` (the `SELECT` keyword `sel` is consumed) -/
def parseSelect (c : QCfg) : Nat → Nat → Tok → List Tok → Res QNode
  | 0, _, _, _ => .error .fuel
  | f + 1, d, sel, ts =>
    match selHead c f d sel ts with
    | .error er => .error er
    | .ok (hd, ts1) =>
      match eatKw ts1 K.FROM with
      | some (kw, r) =>
        match fromItems c f d (.from kw) r with
        | .error er => .error er
        | .ok (fr, ts2) =>
          match selTail c f d ts2 with
          | .error er => .error er
          | .ok (tl, ts3) => .ok (.select hd fr tl, ts3)
      | none =>
        match selTail c f d ts1 with
        | .error er => .error er
        | .ok (tl, ts3) => .ok (.select hd (.fnil []) tl, ts3)

/-- one table factor after the connector `conn` and everything of the FROM clause that follows it:
`parse_table_factor`, for joins `parse_join_constraint`, then the next round of the loop of
`parse_table_and_joins`, then `is_parse_comma_separated_end` of the list of `TableWithJoins` -/
def fromItems (c : QCfg) : Nat → Nat → Conn → List Tok → Res QNode
  | 0, _, _, _ => .error .fuel
  | f + 1, d, conn, ts =>
    -- parse_table_factor: one guard level
    if d = 0 then .error .rle
    else
    match factorHead c ts with
    | .error er => .error er
    | .ok (.table name al r) =>
      match fromRest c f d conn.hasCstr r with
      | .error er => .error er
      | .ok ((k, rest), ts') => .ok (.ftable conn name al k rest, ts')
    | .ok (.paren lp r) =>
      -- maybe_parse(parse_derived_table_factor): the limit error passes, any other failure falls
      -- back to the nested-join branch, which is outside the fragment
      match parseQuery c f (d - 1) r with
      | .error .rle => .error .rle
      | .error .fuel => .error .fuel
      | .error _ => .error .unsupported
      | .ok (q, r1) =>
        match r1 with
        | .sym .RParen :: r2 =>
          match optTableAlias r2 with
          | .error _ => .error .unsupported
          | .ok (al, r3) =>
            if peekAnyKw r3 [K.PIVOT, K.UNPIVOT] then .error .unsupported
            else
              match fromRest c f d conn.hasCstr r3 with
              | .error er => .error er
              | .ok ((k, rest), ts') => .ok (.fderived conn lp q.body q.tail (.sym .RParen) al k rest, ts')
        | _ => .error .unsupported

/-- after a table factor: the join constraint (when the connector was a constrained join), then
more joins, a comma, or the end of the FROM clause; returns the constraint and the following items -/
def fromRest (c : QCfg) : Nat → Nat → Bool → List Tok → Res (JoinCstr × QNode)
  | 0, _, _, _ => .error .fuel
  | f + 1, d, cstr, ts =>
    match optCstr c f d cstr ts with
    | .error er => .error er
    | .ok (k, ts1) =>
      match joinHead ts1 with
      | .error er => .error er
      | .ok (.join jk toks r) =>
        match fromItems c f d (.join jk toks) r with
        | .error er => .error er
        | .ok (rest, ts2) => .ok ((k, rest), ts2)
      | .ok .stop =>
        match ts1 with
        | .sym .Comma :: r =>
          if c.e.trailingCommas && listEnds r then .ok ((k, .fnil [.sym .Comma]), r)
          else
            match fromItems c f d (.comma (.sym .Comma)) r with
            | .error er => .error er
            | .ok (rest, ts2) => .ok ((k, rest), ts2)
        | _ => .ok ((k, .fnil []), ts1)

end

/-- `parse_statement` restricted to query statements: one guard level, then `parse_query`.
Any other word in statement position is another statement kind (outside the fragment). -/
def parseStatement (c : QCfg) (f limit : Nat) (ts : List Tok) : Res Query :=
  match limit with
  | 0 => .error .rle
  | d + 1 =>
    match ts with
    | [] => .error (syn "an SQL statement")
    | t :: _ =>
      if t.isKw K.SELECT then parseQuery c f d ts
      else
      match t with
      | .sym .LParen => parseQuery c f d ts
      | .word _ _ _ => .error .unsupported
      | _ => .error (syn "an SQL statement")

/-- the token classification of the statements loop (`Model/Stmts.lean`) on real tokens, for a
SCRIPT (`parse_statements` = `parse_statement_list(false)`): since the repair of the END tail-drop the
top-level loop never stops at the keyword END -/
def stmtClass : SqlVerif.Stmts.TokClass Tok where
  isSemi t := t.isSym .SemiColon
  isEndKw _ := false

/-- the classification inside a block body (`BEGIN <statements> END` of CREATE PROCEDURE,
`parse_statement_list(true)`): the loop stops in front of END after a complete statement -/
def blockClass : SqlVerif.Stmts.TokClass Tok where
  isSemi t := t.isSym .SemiColon
  isEndKw t := t.isKw K.END_

/-- `parse_statements` on the query fragment: the loop of `Model/Stmts.lean` around `parseStatement` -/
def parseScript (c : QCfg) (f limit : Nat) (ts : List Tok) : Except (SqlVerif.Stmts.Err Err) (List Query) :=
  SqlVerif.Stmts.parseStatements stmtClass (parseStatement c f limit) ts

end SqlVerif.Query

import SqlVerif.Model.Tok
import SqlVerif.Model.Escape
/-!
AST fragment of the expression-parser model and its canonical S-expression
(the same rendering as `expr_sexp` in `rust/harness/src/c04.rs`).

Every node keeps the tokens it consumed (`ops`, `toks`), so that the in-order token yield of a
tree is a plain structural function (`Expr.flatten`, in `Lemmas/PrattLemmas.lean`); the
S-expression forgets them and prints exactly what `sqlparser::ast::Expr` holds.
-/
namespace SqlVerif.Pratt

/-- `ast::BinaryOperator` (without `PGCustomBinaryOperator`) -/
inductive BinOp
  | Plus | Minus | Multiply | Divide | Modulo | StringConcat | Gt | Lt | GtEq | LtEq | Spaceship | Eq
  | NotEq | And | Or | Xor | BitwiseOr | BitwiseAnd | BitwiseXor | DuckIntegerDivide | MyIntegerDivide
  | Custom (s : W)
  | PGBitwiseXor | PGBitwiseShiftLeft | PGBitwiseShiftRight | PGExp | PGOverlap | PGRegexMatch
  | PGRegexIMatch | PGRegexNotMatch | PGRegexNotIMatch | PGLikeMatch | PGILikeMatch | PGNotLikeMatch
  | PGNotILikeMatch | PGStartsWith | Arrow | LongArrow | HashArrow | HashLongArrow | AtAt | AtArrow
  | ArrowAt | HashMinus | AtQuestion | Question | QuestionAnd | QuestionPipe
deriving DecidableEq, Repr

/-- compact hex: code points joined by `.`, `-` for the empty string -/
def hx (w : W) : String :=
  if w.isEmpty then "-" else ".".intercalate (w.map fun n => String.ofList (Nat.toDigits 16 n))

/-- Debug name as printed in the S-expression -/
def BinOp.name : BinOp → String
  | .Plus => "Plus" | .Minus => "Minus" | .Multiply => "Multiply" | .Divide => "Divide"
  | .Modulo => "Modulo" | .StringConcat => "StringConcat" | .Gt => "Gt" | .Lt => "Lt" | .GtEq => "GtEq"
  | .LtEq => "LtEq" | .Spaceship => "Spaceship" | .Eq => "Eq" | .NotEq => "NotEq" | .And => "And"
  | .Or => "Or" | .Xor => "Xor" | .BitwiseOr => "BitwiseOr" | .BitwiseAnd => "BitwiseAnd"
  | .BitwiseXor => "BitwiseXor" | .DuckIntegerDivide => "DuckIntegerDivide"
  | .MyIntegerDivide => "MyIntegerDivide" | .Custom s => "Custom:" ++ hx s
  | .PGBitwiseXor => "PGBitwiseXor" | .PGBitwiseShiftLeft => "PGBitwiseShiftLeft"
  | .PGBitwiseShiftRight => "PGBitwiseShiftRight" | .PGExp => "PGExp" | .PGOverlap => "PGOverlap"
  | .PGRegexMatch => "PGRegexMatch" | .PGRegexIMatch => "PGRegexIMatch"
  | .PGRegexNotMatch => "PGRegexNotMatch" | .PGRegexNotIMatch => "PGRegexNotIMatch"
  | .PGLikeMatch => "PGLikeMatch" | .PGILikeMatch => "PGILikeMatch" | .PGNotLikeMatch => "PGNotLikeMatch"
  | .PGNotILikeMatch => "PGNotILikeMatch" | .PGStartsWith => "PGStartsWith" | .Arrow => "Arrow"
  | .LongArrow => "LongArrow" | .HashArrow => "HashArrow" | .HashLongArrow => "HashLongArrow"
  | .AtAt => "AtAt" | .AtArrow => "AtArrow" | .ArrowAt => "ArrowAt" | .HashMinus => "HashMinus"
  | .AtQuestion => "AtQuestion" | .Question => "Question" | .QuestionAnd => "QuestionAnd"
  | .QuestionPipe => "QuestionPipe"

/-- `Display for BinaryOperator` -/
def BinOp.display : BinOp → W
  | .Plus => str "+" | .Minus => str "-" | .Multiply => str "*" | .Divide => str "/" | .Modulo => str "%"
  | .StringConcat => str "||" | .Gt => str ">" | .Lt => str "<" | .GtEq => str ">=" | .LtEq => str "<="
  | .Spaceship => str "<=>" | .Eq => str "=" | .NotEq => str "<>" | .And => str "AND" | .Or => str "OR"
  | .Xor => str "XOR" | .BitwiseOr => str "|" | .BitwiseAnd => str "&" | .BitwiseXor => str "^"
  | .DuckIntegerDivide => str "//" | .MyIntegerDivide => str "DIV" | .Custom s => s
  | .PGBitwiseXor => str "#" | .PGBitwiseShiftLeft => str "<<" | .PGBitwiseShiftRight => str ">>"
  | .PGExp => str "^" | .PGOverlap => str "&&" | .PGRegexMatch => str "~" | .PGRegexIMatch => str "~*"
  | .PGRegexNotMatch => str "!~" | .PGRegexNotIMatch => str "!~*" | .PGLikeMatch => str "~~"
  | .PGILikeMatch => str "~~*" | .PGNotLikeMatch => str "!~~" | .PGNotILikeMatch => str "!~~*"
  | .PGStartsWith => str "^@" | .Arrow => str "->" | .LongArrow => str "->>" | .HashArrow => str "#>"
  | .HashLongArrow => str "#>>" | .AtAt => str "@@" | .AtArrow => str "@>" | .ArrowAt => str "<@"
  | .HashMinus => str "#-" | .AtQuestion => str "@?" | .Question => str "?" | .QuestionAnd => str "?&"
  | .QuestionPipe => str "?|"

/-- the operators `ANY/ALL/SOME` accept -/
def BinOp.isComparison : BinOp → Bool
  | .Gt | .Lt | .GtEq | .LtEq | .Eq | .NotEq => true
  | _ => false

inductive UnOp
  | Plus | Minus | Not | PGBitwiseNot | PGSquareRoot | PGCubeRoot | PGPostfixFactorial
  | PGPrefixFactorial | PGAbs
deriving DecidableEq, Repr

def UnOp.name : UnOp → String
  | .Plus => "Plus" | .Minus => "Minus" | .Not => "Not" | .PGBitwiseNot => "PGBitwiseNot"
  | .PGSquareRoot => "PGSquareRoot" | .PGCubeRoot => "PGCubeRoot"
  | .PGPostfixFactorial => "PGPostfixFactorial" | .PGPrefixFactorial => "PGPrefixFactorial"
  | .PGAbs => "PGAbs"

inductive LikeKind | Like | ILike | SimilarTo | RLike | Regexp
deriving DecidableEq, Repr

def LikeKind.name : LikeKind → String
  | .Like => "Like" | .ILike => "ILike" | .SimilarTo => "SimilarTo" | .RLike => "RLike" | .Regexp => "Regexp"

inductive IsKind | Null | NotNull | True | NotTrue | False | NotFalse | Unknown | NotUnknown
deriving DecidableEq, Repr

def IsKind.name : IsKind → String
  | .Null => "Null" | .NotNull => "NotNull" | .True => "True" | .NotTrue => "NotTrue"
  | .False => "False" | .NotFalse => "NotFalse" | .Unknown => "Unknown" | .NotUnknown => "NotUnknown"

inductive AtomKind
  /-- `Identifier`: one word token -/
  | ident
  /-- `CompoundIdentifier`: words / single-quoted strings separated by periods -/
  | compound
  /-- `Value::Number` -/
  | num
  /-- `Value::SingleQuotedString` -/
  | str
  /-- `Value::DoubleQuotedString` -/
  | dstr
  /-- `Value::Placeholder` from one token -/
  | ph
  /-- `Value::Placeholder` from `:`/`@` followed by a word or number -/
  | ph2
  | boolTrue | boolFalse | null
deriving DecidableEq, Repr

/-- nodes that are open on both sides: `l ops r` -/
inductive BinKind
  | op (o : BinOp)
  | isDistinct (neg : Bool)
  | atTz
  /-- `[NOT] LIKE|ILIKE|SIMILAR TO|RLIKE|REGEXP [ANY] pattern`, no `ESCAPE` -/
  | like (k : LikeKind) (neg any : Bool)
deriving DecidableEq, Repr

/-- nodes that end with their own tokens: `l ops` -/
inductive PostKind
  | is (k : IsKind)
  /-- `::type`, the type is one keyword -/
  | cast
  | factorial
deriving DecidableEq, Repr

inductive Quant | any | all | some
deriving DecidableEq, Repr

inductive Expr
  | atom (k : AtomKind) (toks : List Tok)
  /-- `( e )` -/
  | nested (e : Expr)
  /-- prefix operator -/
  | pre (o : UnOp) (t : Tok) (e : Expr)
  | bin (k : BinKind) (l : Expr) (ops : List Tok) (r : Expr)
  | post (k : PostKind) (l : Expr) (ops : List Tok)
  /-- `l [NOT] BETWEEN lo AND hi` -/
  | between (neg : Bool) (l : Expr) (ops : List Tok) (lo : Expr) (andTok : Tok) (hi : Expr)
  /-- `l [NOT] LIKE|ILIKE|SIMILAR TO [ANY] pat ESCAPE lit` -/
  | likeEsc (k : LikeKind) (neg any : Bool) (l : Expr) (ops : List Tok) (pat : Expr) (esc : List Tok)
  /-- `l [NOT] IN ( items )`; `items` is a chain of `lcons` cells ending in `lnil` -/
  | inList (neg : Bool) (l : Expr) (ops : List Tok) (items : Expr)
  /-- `l op ANY|ALL|SOME ( r )` -/
  | quant (o : BinOp) (q : Quant) (l : Expr) (ops : List Tok) (r : Expr)
  /-- list cell of an `IN` list: element, separator tokens (`[Comma]` or `[]`), rest -/
  | lcons (e : Expr) (sep : List Tok) (rest : Expr)
  | lnil
deriving Repr, DecidableEq

def b01 (b : Bool) : String := if b then "1" else "0"

def identSexp (t : Tok) : String :=
  match t with
  | .word v q _ => "(id " ++ hx v ++ " " ++ (match q with | some c => String.ofList (Nat.toDigits 16 c) | none => "-") ++ ")"
  | .sqs s => "(id " ++ hx s ++ " 27)"
  | _ => "(id? )"

def atomSexp (k : AtomKind) (toks : List Tok) : String :=
  match k, toks with
  | .ident, [t] => identSexp t
  | .compound, ts =>
    "(cid" ++ String.join ((ts.filter fun t => !t.isSym .Period).map fun t => " " ++ identSexp t) ++ ")"
  | .num, [.number s l] => "(num " ++ hx s ++ " " ++ b01 l ++ ")"
  | .str, [.sqs s] => "(str " ++ hx s ++ ")"
  | .dstr, [.dqs s] => "(dstr " ++ hx s ++ ")"
  | .ph, [.placeholder s] => "(ph " ++ hx s ++ ")"
  | .ph2, [t, .word v q _] => "(ph " ++ hx ((t.display.getD []) ++ ((SqlVerif.Escape.showIdent ⟨v, q⟩).getD v)) ++ ")"
  | .ph2, [t, .number v _] => "(ph " ++ hx ((t.display.getD []) ++ v) ++ ")"
  | .boolTrue, _ => "(bool 1)"
  | .boolFalse, _ => "(bool 0)"
  | .null, _ => "(null)"
  | _, _ => "(atom?)"

/-- the type word of a cast, printed as the keyword's table spelling -/
def castType (ops : List Tok) : W :=
  match ops with
  | [_, .word _ _ (some k)] => kwName k
  | _ => []

def escSexp (esc : List Tok) : String :=
  match esc with
  | [_, .word v _ _] => hx v
  | [_, .sqs v] => hx v
  | [_, .dqs v] => hx v
  | _ => "none"

def Expr.sexp : Expr → String
  | .atom k toks => atomSexp k toks
  | .nested e => "(nested " ++ e.sexp ++ ")"
  | .pre o _ e => "(un " ++ o.name ++ " " ++ e.sexp ++ ")"
  | .bin (.op o) l _ r => "(bin " ++ o.name ++ " " ++ l.sexp ++ " " ++ r.sexp ++ ")"
  | .bin (.isDistinct neg) l _ r => "(isdf " ++ b01 neg ++ " " ++ l.sexp ++ " " ++ r.sexp ++ ")"
  | .bin .atTz l _ r => "(attz " ++ l.sexp ++ " " ++ r.sexp ++ ")"
  | .bin (.like k neg any) l _ r =>
    "(like " ++ k.name ++ " " ++ b01 neg ++ " " ++ b01 any ++ " " ++ l.sexp ++ " " ++ r.sexp ++ " none)"
  | .post (.is k) l _ => "(is " ++ k.name ++ " " ++ l.sexp ++ ")"
  | .post .cast l ops => "(cast " ++ l.sexp ++ " " ++ hx (castType ops) ++ ")"
  | .post .factorial l _ => "(un PGPostfixFactorial " ++ l.sexp ++ ")"
  | .between neg l _ lo _ hi =>
    "(between " ++ b01 neg ++ " " ++ l.sexp ++ " " ++ lo.sexp ++ " " ++ hi.sexp ++ ")"
  | .likeEsc k neg any l _ pat esc =>
    "(like " ++ k.name ++ " " ++ b01 neg ++ " " ++ b01 any ++ " " ++ l.sexp ++ " " ++ pat.sexp ++ " " ++ escSexp esc ++ ")"
  | .inList neg l _ items => "(inlist " ++ b01 neg ++ " " ++ l.sexp ++ " (list" ++ items.sexp ++ "))"
  | .quant o .all l _ r => "(all " ++ o.name ++ " " ++ l.sexp ++ " " ++ r.sexp ++ ")"
  | .quant o .any l _ r => "(any " ++ o.name ++ " 0 " ++ l.sexp ++ " " ++ r.sexp ++ ")"
  | .quant o .some l _ r => "(any " ++ o.name ++ " 1 " ++ l.sexp ++ " " ++ r.sexp ++ ")"
  | .lcons e _ rest => " " ++ e.sexp ++ rest.sexp
  | .lnil => ""

end SqlVerif.Pratt

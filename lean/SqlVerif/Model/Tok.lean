import SqlVerif.Gen.Keywords
/-!
Token type of the expression-parser model (`src/tokenizer.rs` `enum Token`, whitespace removed).

`Sym` lists every payload-free variant; words, numbers, the two quoted-string kinds, placeholders
and custom operators carry their payload; every other variant is kept opaque (`other`).
Keyword tests compare the `kw` field (index into `ALL_KEYWORDS`) with indices looked up by name
in the generated table.
-/
namespace SqlVerif.Pratt

abbrev W := List Nat

inductive Sym
  | Comma | DoubleEq | Eq | Neq | Lt | Gt | LtEq | GtEq | Spaceship | Plus | Minus | Mul | Div
  | DuckIntDiv | Mod | StringConcat | LParen | RParen | Period | Colon | DoubleColon | Assignment
  | SemiColon | Backslash | LBracket | RBracket | Ampersand | Pipe | Caret | LBrace | RBrace | RArrow
  | Sharp | Tilde | TildeAsterisk | ExclamationMarkTilde | ExclamationMarkTildeAsterisk | DoubleTilde
  | DoubleTildeAsterisk | ExclamationMarkDoubleTilde | ExclamationMarkDoubleTildeAsterisk | ShiftLeft
  | ShiftRight | Overlap | ExclamationMark | DoubleExclamationMark | AtSign | CaretAt | PGSquareRoot
  | PGCubeRoot | Arrow | LongArrow | HashArrow | HashLongArrow | AtArrow | ArrowAt | HashMinus
  | AtQuestion | AtAt | Question | QuestionAnd | QuestionPipe
deriving DecidableEq, Repr

inductive Tok
  | word (value : W) (quote : Option Nat) (kw : Option Nat)
  | number (s : W) (long : Bool)
  | sqs (s : W)
  | dqs (s : W)
  | placeholder (s : W)
  | customOp (s : W)
  | sym (s : Sym)
  | other (variant : String) (payload : String)
deriving DecidableEq, Repr

def str (s : String) : W := s.toList.map Char.toNat

/-- index of a keyword in `ALL_KEYWORDS` (table length when absent) -/
def kwIndex (name : String) : Nat := SqlVerif.Gen.keywordsList.idxOf (str name)

/-- spelling of the `i`-th keyword -/
def kwName (i : Nat) : W := SqlVerif.Gen.keywordsList.getD i []

namespace KW
def AND := kwIndex "AND"
def OR := kwIndex "OR"
def XOR := kwIndex "XOR"
def NOT := kwIndex "NOT"
def AT := kwIndex "AT"
def TIME := kwIndex "TIME"
def ZONE := kwIndex "ZONE"
def IS := kwIndex "IS"
def IN := kwIndex "IN"
def BETWEEN := kwIndex "BETWEEN"
def LIKE := kwIndex "LIKE"
def ILIKE := kwIndex "ILIKE"
def RLIKE := kwIndex "RLIKE"
def REGEXP := kwIndex "REGEXP"
def SIMILAR := kwIndex "SIMILAR"
def TO := kwIndex "TO"
def OPERATOR := kwIndex "OPERATOR"
def DIV := kwIndex "DIV"
def COLLATE := kwIndex "COLLATE"
def NULL := kwIndex "NULL"
def TRUE := kwIndex "TRUE"
def FALSE := kwIndex "FALSE"
def UNKNOWN := kwIndex "UNKNOWN"
def DISTINCT := kwIndex "DISTINCT"
def FROM := kwIndex "FROM"
def ESCAPE := kwIndex "ESCAPE"
def ANY := kwIndex "ANY"
def ALL := kwIndex "ALL"
def SOME := kwIndex "SOME"
def SELECT := kwIndex "SELECT"
def WITH := kwIndex "WITH"
def UNNEST := kwIndex "UNNEST"
def UNSIGNED := kwIndex "UNSIGNED"
end KW

/-- `matches!(tok, Token::Word(w) if w.keyword == k)` -/
def Tok.isKw (t : Tok) (k : Nat) : Bool :=
  match t with
  | .word _ _ (some i) => i == k
  | _ => false

def Tok.isSym (t : Tok) (s : Sym) : Bool :=
  match t with
  | .sym x => x == s
  | _ => false

/-- `peek_token()` on the remaining non-whitespace tokens (`none` = EOF) -/
def peek (ts : List Tok) : Option Tok := ts.head?

def peekKw (ts : List Tok) (k : Nat) : Bool :=
  match ts with
  | t :: _ => t.isKw k
  | [] => false

def peekSym (ts : List Tok) (s : Sym) : Bool :=
  match ts with
  | t :: _ => t.isSym s
  | [] => false

/-- `Display for Token` of payload-free tokens -/
def Sym.display : Sym → String
  | .Comma => "," | .DoubleEq => "==" | .Eq => "=" | .Neq => "<>" | .Lt => "<" | .Gt => ">"
  | .LtEq => "<=" | .GtEq => ">=" | .Spaceship => "<=>" | .Plus => "+" | .Minus => "-" | .Mul => "*"
  | .Div => "/" | .DuckIntDiv => "//" | .Mod => "%" | .StringConcat => "||" | .LParen => "("
  | .RParen => ")" | .Period => "." | .Colon => ":" | .DoubleColon => "::" | .Assignment => ":="
  | .SemiColon => ";" | .Backslash => "\\" | .LBracket => "[" | .RBracket => "]" | .Ampersand => "&"
  | .Pipe => "|" | .Caret => "^" | .LBrace => "{" | .RBrace => "}" | .RArrow => "=>" | .Sharp => "#"
  | .Tilde => "~" | .TildeAsterisk => "~*" | .ExclamationMarkTilde => "!~"
  | .ExclamationMarkTildeAsterisk => "!~*" | .DoubleTilde => "~~" | .DoubleTildeAsterisk => "~~*"
  | .ExclamationMarkDoubleTilde => "!~~" | .ExclamationMarkDoubleTildeAsterisk => "!~~*"
  | .ShiftLeft => "<<" | .ShiftRight => ">>" | .Overlap => "&&" | .ExclamationMark => "!"
  | .DoubleExclamationMark => "!!" | .AtSign => "@" | .CaretAt => "^@" | .PGSquareRoot => "|/"
  | .PGCubeRoot => "||/" | .Arrow => "->" | .LongArrow => "->>" | .HashArrow => "#>"
  | .HashLongArrow => "#>>" | .AtArrow => "@>" | .ArrowAt => "<@" | .HashMinus => "#-"
  | .AtQuestion => "@?" | .AtAt => "@@" | .Question => "?" | .QuestionAnd => "?&" | .QuestionPipe => "?|"

/-- variant name (Debug head), also the canonical rendering of payload-free tokens -/
def Sym.name : Sym → String
  | .Comma => "Comma" | .DoubleEq => "DoubleEq" | .Eq => "Eq" | .Neq => "Neq" | .Lt => "Lt" | .Gt => "Gt"
  | .LtEq => "LtEq" | .GtEq => "GtEq" | .Spaceship => "Spaceship" | .Plus => "Plus" | .Minus => "Minus"
  | .Mul => "Mul" | .Div => "Div" | .DuckIntDiv => "DuckIntDiv" | .Mod => "Mod"
  | .StringConcat => "StringConcat" | .LParen => "LParen" | .RParen => "RParen" | .Period => "Period"
  | .Colon => "Colon" | .DoubleColon => "DoubleColon" | .Assignment => "Assignment"
  | .SemiColon => "SemiColon" | .Backslash => "Backslash" | .LBracket => "LBracket"
  | .RBracket => "RBracket" | .Ampersand => "Ampersand" | .Pipe => "Pipe" | .Caret => "Caret"
  | .LBrace => "LBrace" | .RBrace => "RBrace" | .RArrow => "RArrow" | .Sharp => "Sharp" | .Tilde => "Tilde"
  | .TildeAsterisk => "TildeAsterisk" | .ExclamationMarkTilde => "ExclamationMarkTilde"
  | .ExclamationMarkTildeAsterisk => "ExclamationMarkTildeAsterisk" | .DoubleTilde => "DoubleTilde"
  | .DoubleTildeAsterisk => "DoubleTildeAsterisk"
  | .ExclamationMarkDoubleTilde => "ExclamationMarkDoubleTilde"
  | .ExclamationMarkDoubleTildeAsterisk => "ExclamationMarkDoubleTildeAsterisk"
  | .ShiftLeft => "ShiftLeft" | .ShiftRight => "ShiftRight" | .Overlap => "Overlap"
  | .ExclamationMark => "ExclamationMark" | .DoubleExclamationMark => "DoubleExclamationMark"
  | .AtSign => "AtSign" | .CaretAt => "CaretAt" | .PGSquareRoot => "PGSquareRoot"
  | .PGCubeRoot => "PGCubeRoot" | .Arrow => "Arrow" | .LongArrow => "LongArrow"
  | .HashArrow => "HashArrow" | .HashLongArrow => "HashLongArrow" | .AtArrow => "AtArrow"
  | .ArrowAt => "ArrowAt" | .HashMinus => "HashMinus" | .AtQuestion => "AtQuestion" | .AtAt => "AtAt"
  | .Question => "Question" | .QuestionAnd => "QuestionAnd" | .QuestionPipe => "QuestionPipe"

def Sym.all : List Sym :=
  [.Comma, .DoubleEq, .Eq, .Neq, .Lt, .Gt, .LtEq, .GtEq, .Spaceship, .Plus, .Minus, .Mul, .Div,
   .DuckIntDiv, .Mod, .StringConcat, .LParen, .RParen, .Period, .Colon, .DoubleColon, .Assignment,
   .SemiColon, .Backslash, .LBracket, .RBracket, .Ampersand, .Pipe, .Caret, .LBrace, .RBrace, .RArrow,
   .Sharp, .Tilde, .TildeAsterisk, .ExclamationMarkTilde, .ExclamationMarkTildeAsterisk, .DoubleTilde,
   .DoubleTildeAsterisk, .ExclamationMarkDoubleTilde, .ExclamationMarkDoubleTildeAsterisk, .ShiftLeft,
   .ShiftRight, .Overlap, .ExclamationMark, .DoubleExclamationMark, .AtSign, .CaretAt, .PGSquareRoot,
   .PGCubeRoot, .Arrow, .LongArrow, .HashArrow, .HashLongArrow, .AtArrow, .ArrowAt, .HashMinus,
   .AtQuestion, .AtAt, .Question, .QuestionAnd, .QuestionPipe]

def Sym.ofName (n : String) : Option Sym := Sym.all.find? fun s => s.name == n

/-- `Display for Word`; `none` = the code panics ("Unexpected quote_style!") -/
def wordDisplay (v : W) (q : Option Nat) : Option W :=
  match q with
  | none => some v
  | some c =>
    if c = 34 then some ([34] ++ v ++ [34])
    else if c = 91 then some ([91] ++ v ++ [93])
    else if c = 96 then some ([96] ++ v ++ [96])
    else none

/-- `Display for Token` (`none`: panics, or a variant the model keeps opaque) -/
def Tok.display : Tok → Option W
  | .word v q _ => wordDisplay v q
  | .number s l => some (s ++ (if l then [76] else []))
  | .sqs s => some ([39] ++ s ++ [39])
  | .dqs s => some ([34] ++ s ++ [34])
  | .placeholder s => some s
  | .customOp s => some s
  | .sym s => some (str s.display)
  | .other _ _ => none

/-- `found` part of an `Expected: …, found: …` message; EOF when the list is exhausted -/
def displayOpt : Option Tok → Option W
  | none => some (str "EOF")
  | some t => t.display

end SqlVerif.Pratt

import SqlVerif.Model.Ddl
import SqlVerif.Model.DmlPrint
/-!
What `sqlparser::ast` holds of the trees of `Model/Ddl.lean` (canonical S-expression, the same
rendering as `stmt_sexp` in `rust/harness/src/ddl.rs`) and `Display` of `Statement::{CreateView,
CreateIndex, AlterTable, Truncate, Drop}`, `ViewColumnDef`, `AlterTableOperation`,
`AlterColumnOperation`, as lists of pieces (`Model/ExprPrint.lean`).

Normal forms of the printer (beyond those of `Model/DmlPrint.lean`): `CREATE [OR REPLACE] [TEMPORARY]
[MATERIALIZED] VIEW` prints its prefixes in the order the parser reads them (since the fix "CREATE
TEMPORARY MATERIALIZED VIEW prints its modifiers in the order the parser reads them" in /repo; before,
`MATERIALIZED` came first and the printed form was rejected); `TEMP` prints `TEMPORARY`; `CREATE INDEX` prints `ON t(a,b)` — no blank
before the column list (unless `USING m ` precedes it) and `,` without a blank between the columns
and the INCLUDE identifiers; `TEMP` of `CREATE TEMP INDEX` is dropped; `ADD IF NOT EXISTS` is dropped
outside four dialects and moves behind `COLUMN`; `DROP a` prints `DROP COLUMN a`, `RENAME a TO b`
prints `RENAME COLUMN a TO b`, `ALTER a …` prints `ALTER COLUMN a …`; the `PRIMARY KEY` / `PROJECTION`
that `DROP` swallows is dropped; trailing commas are dropped.
-/
namespace SqlVerif.Ddl
open SqlVerif.Pratt SqlVerif.Query SqlVerif.Dml SqlVerif.Gen

-- ------------------------------------------------------------------ what the AST holds
def ViewCol.sexp (v : ViewCol) : String :=
  "(vcol " ++ idSexp v.name ++ " " ++ (match v.ty with | some t => t.sexp | none => "none") ++ ")"

def CreateView.sexp (v : CreateView) : String :=
  "(createview " ++ b01 (!v.orReplace.isEmpty) ++ " " ++ b01 (!v.mat.isEmpty) ++ " " ++ b01 (!v.temp.isEmpty) ++ " " ++
    b01 (!v.ifne.isEmpty) ++ " " ++ nameSexp v.name ++ " (cols" ++ sepSexp ViewCol.sexp v.cols ++ ") " ++ v.query.sexp ++ ")"

/-- `nulls_distinct: Option<bool>` -/
def nullsName (nulls : List Tok) : String :=
  match nulls with
  | [] => "none"
  | [_, _] => "distinct"
  | _ => "notdistinct"

def optIdSexp (toks : List Tok) : String :=
  match toks.getLast? with
  | some t => idSexp t
  | none => "none"

def CreateIndex.sexp (i : CreateIndex) : String :=
  "(createindex " ++ b01 (i.idxKws.length == 2) ++ " " ++ b01 (!i.hd.conc.isEmpty) ++ " " ++ b01 (!i.hd.ifne.isEmpty) ++ " " ++
    (if i.hd.name.isEmpty then "none" else nameSexp i.hd.name) ++ " " ++ nameSexp i.hd.table ++ " " ++
    optIdSexp i.hd.usingToks ++ " (cols" ++ sepSexp OrderByExpr.sexp i.cols ++ ") (include" ++
    sepSexp idSexp i.tl.incl.ids ++ ") " ++ nullsName i.tl.nulls ++ " (where " ++ optExprSexp i.tl.pred ++ "))"

def AlterColOp.sexp : AlterColOp → String
  | .setNotNull => "setnotnull"
  | .dropNotNull => "dropnotnull"
  | .setDefault e => "(setdefault " ++ e.sexp ++ ")"
  | .dropDefault => "dropdefault"

/-- `if_not_exists` of `AddColumn` -/
def addIfne (ine1 ine2 : List Tok) (keep : Bool) : Bool := keep && (!ine1.isEmpty || !ine2.isEmpty)

def AlterOp.sexp : AlterOp → String
  | .addColumn _ ine1 colKw ine2 keep cd =>
    "(add " ++ b01 (!colKw.isEmpty) ++ " " ++ b01 (addIfne ine1 ine2 keep) ++ " " ++ cd.sexp ++ ")"
  | .dropColumn _ _ _ ife name cascade =>
    "(dropcol " ++ b01 (!ife.isEmpty) ++ " " ++ idSexp name ++ " " ++ b01 (!cascade.isEmpty) ++ ")"
  | .renameColumn _ _ old _ new => "(renamecol " ++ idSexp old ++ " " ++ idSexp new ++ ")"
  | .renameTable _ _ name => "(renametable " ++ nameSexp name ++ ")"
  | .alterColumn _ _ name _ op => "(altercol " ++ idSexp name ++ " " ++ op.sexp ++ ")"

def AlterTable.sexp (a : AlterTable) : String :=
  "(altertable " ++ b01 (!a.ifExists.isEmpty) ++ " " ++ b01 (!a.only.isEmpty) ++ " " ++ nameSexp a.name ++ " (ops" ++
    sepSexp AlterOp.sexp a.ops ++ "))"

def identityName (toks : List Tok) : String :=
  match toks with
  | t :: _ => if t.isKw XK.RESTART then "restart" else "continue"
  | [] => "none"

def cascadeName (toks : List Tok) : String :=
  match toks with
  | t :: _ => if t.isKw XK.CASCADE then "cascade" else "restrict"
  | [] => "none"

def Truncate.sexp (t : Truncate) : String :=
  "(truncate " ++ b01 (!t.tableKw.isEmpty) ++ " " ++ b01 (!t.only.isEmpty) ++ " (names" ++ sepSexp nameSexp t.names ++ ") " ++
    identityName t.identity ++ " " ++ cascadeName t.cascade ++ ")"

def dropObjSexp (d : Drop) : String :=
  "(dropobj " ++ kwText d.tableKw ++ " " ++ b01 (!d.ifExists.isEmpty) ++ " (names" ++ sepSexp nameSexp d.names ++ ") " ++
    b01 (!d.cascade.isEmpty) ++ " " ++ b01 (!d.restrict.isEmpty) ++ " " ++ b01 (!d.purge.isEmpty) ++ ")"

def Stmt.sexp : Stmt → String
  | .createView v => v.sexp
  | .createIndex i => i.sexp
  | .alterTable a => a.sexp
  | .truncate t => t.sexp
  | .dropObj d => dropObjSexp d
  | .dml s => s.sexp

-- ------------------------------------------------------------------ Display
/-- `display_separated(…, ",")`: `,` without a blank between consecutive elements -/
def sepPiecesTight {α : Type} (f : α → List Piece) : Sep α → List Piece
  | [] => []
  | [p] => f p.1
  | p :: q :: rest => f p.1 ++ [symP false .Comma] ++ glued (sepPiecesTight f (q :: rest))

/-- `Display for ViewColumnDef`; first piece without a blank -/
def ViewCol.pieces (v : ViewCol) : List Piece :=
  [idPiece false v.name] ++ (match v.ty with | some t => spaced (dtPiecesD t) | none => [])

def CreateView.pieces (v : CreateView) : List Piece :=
  [kwP false "CREATE"] ++ (if v.orReplace.isEmpty then [] else [kwP true "OR", kwP true "REPLACE"]) ++
    (if v.temp.isEmpty then [] else [kwP true "TEMPORARY"]) ++ (if v.mat.isEmpty then [] else [kwP true "MATERIALIZED"]) ++
    [kwP true "VIEW"] ++ (if v.ifne.isEmpty then [] else [kwP true "IF", kwP true "NOT", kwP true "EXISTS"]) ++
    spaced (namePieces v.name) ++
    (if v.cols.isEmpty then [] else [symP true .LParen] ++ glued (sepPieces ViewCol.pieces v.cols) ++ [symP false .RParen]) ++
    [kwP true "AS"] ++ spaced v.query.pieces

/-- ` NULLS DISTINCT` / ` NULLS NOT DISTINCT` -/
def nullsPieces (nulls : List Tok) : List Piece :=
  match nulls with
  | [] => []
  | [_, _] => [kwP true "NULLS", kwP true "DISTINCT"]
  | _ => [kwP true "NULLS", kwP true "NOT", kwP true "DISTINCT"]

/-- ` USING m ` -/
def usingPieces (toks : List Tok) : List Piece :=
  match toks.getLast? with
  | some t => [kwP true "USING", idPiece true t]
  | none => []

def CreateIndex.pieces (i : CreateIndex) : List Piece :=
  [kwP false "CREATE"] ++ (if i.idxKws.length == 2 then [kwP true "UNIQUE"] else []) ++ [kwP true "INDEX"] ++
    (if i.hd.conc.isEmpty then [] else [kwP true "CONCURRENTLY"]) ++
    (if i.hd.ifne.isEmpty then [] else [kwP true "IF", kwP true "NOT", kwP true "EXISTS"]) ++
    (if i.hd.name.isEmpty then [] else spaced (namePieces i.hd.name)) ++ [kwP true "ON"] ++ spaced (namePieces i.hd.table) ++
    usingPieces i.hd.usingToks ++ [symP (!i.hd.usingToks.isEmpty) .LParen] ++
    glued (sepPiecesTight OrderByExpr.pieces i.cols) ++ [symP false .RParen] ++
    (if i.tl.incl.ids.isEmpty then []
     else [kwP true "INCLUDE", symP true .LParen] ++ glued (sepPiecesTight (fun t => [idPiece false t]) i.tl.incl.ids) ++
       [symP false .RParen]) ++
    nullsPieces i.tl.nulls ++ wherePieces i.tl.pred

def AlterColOp.pieces : AlterColOp → List Piece
  | .setNotNull => [kwP true "SET", kwP true "NOT", kwP true "NULL"]
  | .dropNotNull => [kwP true "DROP", kwP true "NOT", kwP true "NULL"]
  | .setDefault e => [kwP true "SET", kwP true "DEFAULT"] ++ spaced e.pieces
  | .dropDefault => [kwP true "DROP", kwP true "DEFAULT"]

/-- `Display for AlterTableOperation`; first piece without a blank -/
def AlterOp.pieces : AlterOp → List Piece
  | .addColumn _ ine1 colKw ine2 keep cd =>
    [kwP false "ADD"] ++ (if colKw.isEmpty then [] else [kwP true "COLUMN"]) ++
      (if addIfne ine1 ine2 keep then [kwP true "IF", kwP true "NOT", kwP true "EXISTS"] else []) ++ spaced cd.pieces
  | .dropColumn _ _ _ ife name cascade =>
    [kwP false "DROP", kwP true "COLUMN"] ++ (if ife.isEmpty then [] else [kwP true "IF", kwP true "EXISTS"]) ++
      [idPiece true name] ++ (if cascade.isEmpty then [] else [kwP true "CASCADE"])
  | .renameColumn _ _ old _ new =>
    [kwP false "RENAME", kwP true "COLUMN", idPiece true old, kwP true "TO", idPiece true new]
  | .renameTable _ _ name => [kwP false "RENAME", kwP true "TO"] ++ spaced (namePieces name)
  | .alterColumn _ _ name _ op => [kwP false "ALTER", kwP true "COLUMN", idPiece true name] ++ op.pieces

def AlterTable.pieces (a : AlterTable) : List Piece :=
  [kwP false "ALTER", kwP true "TABLE"] ++ (if a.ifExists.isEmpty then [] else [kwP true "IF", kwP true "EXISTS"]) ++
    (if a.only.isEmpty then [] else [kwP true "ONLY"]) ++ spaced (namePieces a.name) ++
    spaced (sepPieces AlterOp.pieces a.ops)

/-- a keyword token of the source as `Display` writes it (table spelling) -/
def kwTokP (sp : Bool) (t : Tok) : Piece :=
  match t with
  | .word _ _ (some k) => ⟨sp, kwTi k, some (kwName k)⟩
  | _ => { noText with sp := sp }

def Truncate.pieces (t : Truncate) : List Piece :=
  [kwP false "TRUNCATE"] ++ (if t.tableKw.isEmpty then [] else [kwP true "TABLE"]) ++
    (if t.only.isEmpty then [] else [kwP true "ONLY"]) ++ spaced (sepPieces namePieces t.names) ++
    t.identity.map (kwTokP true) ++ t.cascade.map (kwTokP true)

def dropObjPieces (d : Drop) : List Piece :=
  [kwP false "DROP", kwTokP true d.tableKw] ++ (if d.ifExists.isEmpty then [] else [kwP true "IF", kwP true "EXISTS"]) ++
    spaced (sepPieces namePieces d.names) ++ (if d.cascade.isEmpty then [] else [kwP true "CASCADE"]) ++
    (if d.restrict.isEmpty then [] else [kwP true "RESTRICT"]) ++ (if d.purge.isEmpty then [] else [kwP true "PURGE"])

def Stmt.pieces : Stmt → List Piece
  | .createView v => v.pieces
  | .createIndex i => i.pieces
  | .alterTable a => a.pieces
  | .truncate t => t.pieces
  | .dropObj d => dropObjPieces d
  | .dml s => s.pieces

/-- the printed token list of a statement -/
def Stmt.showToks (s : Stmt) : List Tok := s.pieces.map (·.tok)

/-- `to_string()`; `none` where `Display` panics or the statement holds a type outside the printable fragment -/
def Stmt.showText (s : Stmt) : Option W := joinPieces s.pieces

end SqlVerif.Ddl

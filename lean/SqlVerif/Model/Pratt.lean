import SqlVerif.Model.Expr
import SqlVerif.Gen.Dialects
/-!
Executable model of the Pratt expression parser of `src/parser/mod.rs`:
`parse_subexpr`, `get_next_precedence` (+ `Dialect::get_next_precedence_default`, the PostgreSQL
and Snowflake overrides), `parse_prefix` (restricted to a fragment), `parse_infix` (+ MySQL `DIV`),
`parse_not`, `parse_between`, `parse_in`, the `LIKE` family with `ESCAPE`, the `IS` family,
`AT TIME ZONE`, `::type`, `ANY/ALL/SOME`.

* Input: the non-whitespace tokens; `[]` is EOF.
* `depth` is `RecursionCounter::remaining_depth`: every `parse_subexpr` takes one level
  (`ERR:rle` at 0) and so does `parse_data_type` (used by `::`, and by the typed-string probe at
  the head of `parse_prefix`, whose `maybe_parse` propagates the limit error).
* `fuel` only makes the definition structurally recursive; the driver supplies more than any run uses.
* Outside the fragment the model answers `Err.unsupported`; it never guesses.
* The model mirrors the code branch by branch, oddities included (e.g. `a REGEXP RLIKE b`).
-/
namespace SqlVerif.Pratt
open SqlVerif.Gen

inductive Err
  | rle
  | syntax (msg : W)
  | unsupported
  | fuel
deriving DecidableEq, Repr

abbrev Res := Except Err (Expr × List Tok)

/-- what the parser consults of a dialect (`dialect_of!` tests, capability flags, options) -/
structure Cfg where
  prec : PrecTable
  isPostgres : Bool
  isGeneric : Bool
  isDuckDb : Bool
  isMySql : Bool
  isSnowflake : Bool
  /-- `supports_in_empty_list` -/
  inEmptyList : Bool
  /-- `supports_lambda_functions` -/
  lambdas : Bool
  /-- `ParserOptions::trailing_commas` (`Parser::new`: `supports_trailing_commas`) -/
  trailingCommas : Bool
  /-- `COLLATE_PREC` / `BRACKET_PREC` / `PG_OTHER_PREC` of `dialect/postgresql.rs` -/
  pgCollate : Nat
  pgBracket : Nat
  pgOther : Nat

def Cfg.ofRow (r : DialectRow) : Cfg :=
  { prec := r.prec
    isPostgres := r.name == "postgresql"
    isGeneric := r.name == "generic"
    isDuckDb := r.name == "duckdb"
    isMySql := r.name == "mysql"
    isSnowflake := r.name == "snowflake"
    inEmptyList := r.flags.supports_in_empty_list
    lambdas := r.flags.supports_lambda_functions
    trailingCommas := r.flags.supports_trailing_commas
    pgCollate := 120
    pgBracket := 130
    pgOther := r.prec.pPgOther }

-- ------------------------------------------------------------------ precedence
/-- the keywords `get_next_precedence*` and `parse_infix` discriminate on (the `Keyword` enum
restricted to them); every keyword test of those functions goes through this classifier -/
inductive KwC
  | or | and | xor | at | not | is | in_ | between | like | ilike | rlike | regexp | similar | operator
  | div | collate | other
deriving DecidableEq, Repr

def kwClass (k : Nat) : KwC :=
  if k == KW.OR then .or else if k == KW.AND then .and else if k == KW.XOR then .xor
  else if k == KW.AT then .at else if k == KW.NOT then .not else if k == KW.IS then .is
  else if k == KW.IN then .in_ else if k == KW.BETWEEN then .between else if k == KW.LIKE then .like
  else if k == KW.ILIKE then .ilike else if k == KW.RLIKE then .rlike else if k == KW.REGEXP then .regexp
  else if k == KW.SIMILAR then .similar else if k == KW.OPERATOR then .operator
  else if k == KW.DIV then .div else if k == KW.COLLATE then .collate else .other

/-- `w.keyword` of a token, classified (`other` for anything that is not an unquoted keyword) -/
def Tok.kwc : Tok → KwC
  | .word _ _ (some k) => kwClass k
  | _ => .other

def peekKwc (ts : List Tok) : KwC :=
  match ts with
  | t :: _ => t.kwc
  | [] => .other

/-- precedence of `NOT x` by the keyword `x` that follows -/
def famPrec (c : Cfg) : KwC → Nat
  | .in_ | .between => c.prec.pBetween
  | .like | .ilike | .rlike | .regexp | .similar => c.prec.pLike
  | _ => c.prec.unknown

def symPrec (c : Cfg) : Sym → Nat
  | .Eq | .Lt | .LtEq | .Neq | .Gt | .GtEq | .DoubleEq | .Tilde | .TildeAsterisk
  | .ExclamationMarkTilde | .ExclamationMarkTildeAsterisk | .DoubleTilde | .DoubleTildeAsterisk
  | .ExclamationMarkDoubleTilde | .ExclamationMarkDoubleTildeAsterisk | .Spaceship => c.prec.pEq
  | .Pipe => c.prec.pPipe
  | .Caret | .Sharp | .ShiftRight | .ShiftLeft => c.prec.pCaret
  | .Ampersand => c.prec.pAmpersand
  | .Plus | .Minus => c.prec.pPlusMinus
  | .Mul | .Div | .DuckIntDiv | .Mod | .StringConcat => c.prec.pMulDivModOp
  | .DoubleColon | .ExclamationMark | .LBracket | .Overlap | .CaretAt => c.prec.pDoubleColon
  | .Arrow | .LongArrow | .HashArrow | .HashLongArrow | .AtArrow | .ArrowAt | .HashMinus
  | .AtQuestion | .AtAt | .Question | .QuestionAnd | .QuestionPipe => c.prec.pPgOther
  | _ => c.prec.unknown

/-- `Dialect::get_next_precedence_default` after the dialect hook returned `None` -/
def nextPrecDefault (c : Cfg) (ts : List Tok) : Nat :=
  match ts with
  | [] => c.prec.unknown
  | t :: rest =>
    match t with
    | .sym s => symPrec c s
    | .customOp _ => c.prec.pPgOther
    | _ =>
      match t.kwc with
      | .or => c.prec.pOr
      | .and => c.prec.pAnd
      | .xor => c.prec.pXor
      | .at =>
        match rest with
        | t1 :: t2 :: _ => if t1.isKw KW.TIME && t2.isKw KW.ZONE then c.prec.pAtTz else c.prec.unknown
        | _ => c.prec.unknown
      | .not => famPrec c (peekKwc rest)
      | .is => c.prec.pIs
      | .in_ | .between => c.prec.pBetween
      | .like | .ilike | .rlike | .regexp | .similar => c.prec.pLike
      | .operator => c.prec.pBetween
      | .div => c.prec.pMulDivModOp
      | .collate | .other => c.prec.unknown

/-- `PostgreSqlDialect::get_next_precedence` -/
def pgOverride (c : Cfg) (ts : List Tok) : Option Nat :=
  match ts with
  | [] => none
  | t :: _ =>
    match t with
    | .sym s =>
      match s with
      | .LBracket => some c.pgBracket
      | .Arrow | .LongArrow | .HashArrow | .HashLongArrow | .AtArrow | .ArrowAt | .HashMinus
      | .AtQuestion | .AtAt | .Question | .QuestionAnd | .QuestionPipe | .ExclamationMark | .Overlap
      | .CaretAt | .StringConcat | .Sharp | .ShiftRight | .ShiftLeft => some c.pgOther
      | _ => none
    | .customOp _ => some c.pgOther
    | _ => if t.kwc = .collate then some c.pgCollate else none

/-- `Parser::get_next_precedence` -/
def nextPrec (c : Cfg) (ts : List Tok) : Nat :=
  if c.isPostgres then
    match pgOverride c ts with
    | some p => p
    | none => nextPrecDefault c ts
  else if c.isSnowflake && peekSym ts .Colon then c.prec.pDoubleColon
  else nextPrecDefault c ts

-- ------------------------------------------------------------------ messages
def expected (what : String) (found : Option Tok) : Err :=
  match displayOpt found with
  | some d => .syntax (str "Expected: " ++ str what ++ str ", found: " ++ d)
  | none => .unsupported

/-- Rust `Debug` of a `str`, for plain printable ASCII only -/
def debugStr (w : W) : Option W :=
  if w.all (fun ch => 32 ≤ ch && ch < 127 && ch != 34 && ch != 92) then some ([34] ++ w ++ [34]) else none

/-- `{:?}` of a token, for the tokens that can reach "No infix parser" -/
def debugTok : Option Tok → Option W
  | none => some (str "EOF")
  | some (.sym s) => some (str s.name)
  | some (.word v q kw) =>
    match debugStr v with
    | none => none
    | some dv =>
      let dq : Option W := match q with
        | none => some (str "None")
        | some ch => if ch = 34 || ch = 96 || ch = 91 then some (str "Some('" ++ [ch] ++ str "')") else none
      let dk : Option W := match kw with
        | none => some (str "NoKeyword")
        | some k => if (kwName k).all (fun ch => (65 ≤ ch && ch ≤ 90) || ch = 95 || (48 ≤ ch && ch ≤ 57)) && !(kwName k).isEmpty
                    then some (kwName k) else none
      match dq, dk with
      | some dq, some dk =>
        some (str "Word(Word { value: " ++ dv ++ str ", quote_style: " ++ dq ++ str ", keyword: " ++ dk ++ str " })")
      | _, _ => none
  | some _ => none

def noInfix (t : Option Tok) : Err :=
  match debugTok t with
  | some d => .syntax (str "No infix parser for token " ++ d)
  | none => .unsupported

-- ------------------------------------------------------------------ small cursor helpers
/-- `parse_keyword(k)`: the keyword token and the rest -/
def eatKw (ts : List Tok) (k : Nat) : Option (Tok × List Tok) :=
  match ts with
  | t :: rest => if t.isKw k then some (t, rest) else none
  | [] => none

/-- `peek_sub_query` -/
def subQueryAhead (ts : List Tok) : Bool := peekKw ts KW.SELECT || peekKw ts KW.WITH

/-- keywords that `parse_prefix` (and the `parse_data_type` probe in front of it) treat like any
other word; every other keyword in operand position is outside the fragment -/
def identKeywords : List Nat :=
  [KW.AND, KW.OR, KW.XOR, KW.IS, KW.IN, KW.BETWEEN, KW.LIKE, KW.ILIKE, KW.RLIKE, KW.REGEXP, KW.SIMILAR,
   KW.TO, KW.DIV, KW.ESCAPE, KW.ZONE, KW.AT, KW.DISTINCT, KW.FROM, KW.UNKNOWN, KW.ANY, KW.ALL, KW.SOME,
   KW.COLLATE, KW.OPERATOR, KW.UNSIGNED, KW.SELECT, KW.WITH]

/-- type names of the `::` fragment -/
def simpleTypes : List Nat :=
  ["INT", "INTEGER", "BIGINT", "SMALLINT", "TINYINT", "BOOLEAN", "BOOL", "TEXT", "REAL", "DATE", "UUID",
   "JSON", "JSONB", "BYTEA", "FLOAT", "VARCHAR"].map kwIndex

-- ------------------------------------------------------------------ prefix
inductive PrefixPlan
  /-- a complete leaf -/
  | atom (k : AtomKind) (toks rest : List Tok)
  /-- prefix operator `t`; operand parsed with `parse_subexpr(p)` -/
  | pre (o : UnOp) (t : Tok) (p : Nat) (rest : List Tok)
  /-- `(` consumed, a single parenthesised expression follows -/
  | paren (rest : List Tok)

/-- rest of a compound identifier, just after a period (`acc` ends with it) -/
def compoundTail (acc : List Tok) : List Tok → Except Err (List Tok × List Tok)
  | [] => .error (expected "an identifier or a '*' after '.'" none)
  | t :: rest =>
    match t with
    | .word _ _ _ | .sqs _ =>
      match rest with
      | .sym .Period :: rest' => compoundTail (acc ++ [t, .sym .Period]) rest'
      | _ => .ok (acc ++ [t], rest)
    | .sym .Mul => .error .unsupported
    | _ => .error (expected "an identifier or a '*' after '.'" (some t))

/-- a word that is not special in `parse_prefix`: identifier, compound identifier, or out of fragment -/
def wordTail (c : Cfg) (t : Tok) (v : W) (rest : List Tok) : Except Err PrefixPlan :=
  match rest with
  | .sym .LParen :: _ => .error .unsupported
  | .sym .Period :: rest' =>
    match compoundTail [t, .sym .Period] rest' with
    | .error e => .error e
    | .ok (toks, rest'') => if peekSym rest'' .LParen then .error .unsupported else .ok (.atom .compound toks rest'')
  | .sym .Arrow :: _ => if c.lambdas then .error .unsupported else .ok (.atom .ident [t] rest)
  | .sqs _ :: _ | .dqs _ :: _ | .other _ _ :: _ =>
    if v.head? == some 95 then .error .unsupported else .ok (.atom .ident [t] rest)
  | _ => .ok (.atom .ident [t] rest)

/-- `( idents ) ->` ahead (over-approximated: first `)` followed by `->`) -/
def lambdaAhead (ts : List Tok) : Bool :=
  match ts.dropWhile (fun t => !t.isSym .RParen) with
  | _ :: t :: _ => t.isSym .Arrow
  | _ => false

/-- the non-recursive part of `parse_prefix` -/
def prefixHead (c : Cfg) (ts : List Tok) : Except Err PrefixPlan :=
  match ts with
  | [] => .error (expected "an expression" none)
  | t :: rest =>
    match t with
    | .word v _ kw =>
      match kw with
      | some k =>
        if k == KW.TRUE then .ok (.atom .boolTrue [t] rest)
        else if k == KW.FALSE then .ok (.atom .boolFalse [t] rest)
        else if k == KW.NULL then .ok (.atom .null [t] rest)
        else if k == KW.NOT then
          (if peekKw rest (kwIndex "EXISTS") then .error .unsupported else .ok (.pre .Not t c.prec.pUnaryNot rest))
        else if identKeywords.contains k then wordTail c t v rest
        else .error .unsupported
      | none => wordTail c t v rest
    | .number _ _ => .ok (.atom .num [t] rest)
    | .sqs _ => .ok (.atom .str [t] rest)
    | .dqs _ => .ok (.atom .dstr [t] rest)
    | .placeholder _ => .ok (.atom .ph [t] rest)
    | .customOp _ => .error (expected "an expression" (some t))
    | .other _ _ => .error .unsupported
    | .sym s =>
      match s with
      | .Minus => .ok (.pre .Minus t c.prec.pMulDivModOp rest)
      | .Plus => .ok (.pre .Plus t c.prec.pMulDivModOp rest)
      | .LParen =>
        if subQueryAhead rest then .error .unsupported
        else if c.lambdas && lambdaAhead rest then .error .unsupported
        else .ok (.paren rest)
      | .LBracket | .LBrace => .error .unsupported
      | .Colon | .AtSign | .DoubleExclamationMark | .PGSquareRoot | .PGCubeRoot | .Tilde =>
        if c.isPostgres && s != .Colon then
          .ok (.pre (match s with
                     | .DoubleExclamationMark => .PGPrefixFactorial
                     | .PGSquareRoot => .PGSquareRoot
                     | .PGCubeRoot => .PGCubeRoot
                     | .AtSign => .PGAbs
                     | _ => .PGBitwiseNot) t c.prec.pPlusMinus rest)
        else if s == .Colon || s == .AtSign then
          match rest with
          | [] => .error (expected "placeholder" none)
          | t2 :: rest' =>
            match t2 with
            | .word _ _ _ => .ok (.atom .ph2 [t, t2] rest')
            | .number _ false => .ok (.atom .ph2 [t, t2] rest')
            | _ => .error (expected "placeholder" (some t2))
        else .error (expected "an expression" (some t))
      | _ => .error (expected "an expression" (some t))

/-- `if self.parse_keyword(Keyword::COLLATE)` at the end of `parse_prefix` -/
def collateCheck (e : Expr) (rest : List Tok) : Res :=
  if peekKw rest KW.COLLATE then .error .unsupported else .ok (e, rest)

-- ------------------------------------------------------------------ infix
inductive InfixPlan
  /-- `l ops r`, `r` parsed with `parse_subexpr(p)` -/
  | right (k : BinKind) (ops rest : List Tok) (p : Nat)
  /-- `l ops` -/
  | post (k : PostKind) (ops rest : List Tok)
  /-- `l ops pattern [ESCAPE lit]` -/
  | like (k : LikeKind) (neg any : Bool) (ops rest : List Tok)
  | between (neg : Bool) (ops rest : List Tok)
  | inl (neg : Bool) (ops rest : List Tok)
  /-- `l op ANY|ALL|SOME ( r )` -/
  | quant (o : BinOp) (qk : Quant) (ops rest : List Tok) (p : Nat)

inductive OpClass
  | op (o : BinOp)
  /-- `OPERATOR(...)` in PostgreSQL / generic: outside the fragment -/
  | outside
  | none

/-- `regular_binary_operator` of `parse_infix` -/
def binOpOf (c : Cfg) (t : Tok) : OpClass :=
  match t with
  | .sym s =>
    match s with
    | .Spaceship => .op .Spaceship | .DoubleEq => .op .Eq | .Eq => .op .Eq | .Neq => .op .NotEq
    | .Gt => .op .Gt | .GtEq => .op .GtEq | .Lt => .op .Lt | .LtEq => .op .LtEq | .Plus => .op .Plus
    | .Minus => .op .Minus | .Mul => .op .Multiply | .Mod => .op .Modulo
    | .StringConcat => .op .StringConcat | .Pipe => .op .BitwiseOr
    | .Caret => if c.isPostgres then .op .PGExp else .op .BitwiseXor
    | .Ampersand => .op .BitwiseAnd | .Div => .op .Divide
    | .DuckIntDiv => if c.isDuckDb || c.isGeneric then .op .DuckIntegerDivide else .none
    | .ShiftLeft => if c.isPostgres || c.isDuckDb || c.isGeneric then .op .PGBitwiseShiftLeft else .none
    | .ShiftRight => if c.isPostgres || c.isDuckDb || c.isGeneric then .op .PGBitwiseShiftRight else .none
    | .Sharp => if c.isPostgres then .op .PGBitwiseXor else .none
    | .Overlap => if c.isPostgres || c.isGeneric then .op .PGOverlap else .none
    | .CaretAt => if c.isPostgres || c.isGeneric then .op .PGStartsWith else .none
    | .Tilde => .op .PGRegexMatch | .TildeAsterisk => .op .PGRegexIMatch
    | .ExclamationMarkTilde => .op .PGRegexNotMatch
    | .ExclamationMarkTildeAsterisk => .op .PGRegexNotIMatch
    | .DoubleTilde => .op .PGLikeMatch | .DoubleTildeAsterisk => .op .PGILikeMatch
    | .ExclamationMarkDoubleTilde => .op .PGNotLikeMatch
    | .ExclamationMarkDoubleTildeAsterisk => .op .PGNotILikeMatch
    | .Arrow => .op .Arrow | .LongArrow => .op .LongArrow | .HashArrow => .op .HashArrow
    | .HashLongArrow => .op .HashLongArrow | .AtArrow => .op .AtArrow | .ArrowAt => .op .ArrowAt
    | .HashMinus => .op .HashMinus | .AtQuestion => .op .AtQuestion | .AtAt => .op .AtAt
    | .Question => .op .Question | .QuestionAnd => .op .QuestionAnd | .QuestionPipe => .op .QuestionPipe
    | _ => .none
  | .customOp s => .op (.Custom s)
  | _ =>
    match t.kwc with
    | .and => .op .And
    | .or => .op .Or
    | .xor => .op .Xor
    | .operator => if c.isPostgres || c.isGeneric then .outside else .none
    | _ => .none

inductive IsPlan
  | post (k : IsKind) (ops rest : List Tok)
  | distinct (neg : Bool) (ops rest : List Tok)

/-- `parse_keywords(ks)`: all of them in sequence or nothing -/
def eatKws (ts : List Tok) : List Nat → Option (List Tok × List Tok)
  | [] => some ([], ts)
  | k :: ks =>
    match eatKw ts k with
    | none => none
    | some (t, rest) =>
      match eatKws rest ks with
      | none => none
      | some (ops, rest') => some (t :: ops, rest')

/-- what may follow `IS`: the attempts of `parse_infix`, in its order -/
def isTail (ts : List Tok) : Option IsPlan :=
  match eatKws ts [KW.NULL] with
  | some (ops, r) => some (.post .Null ops r)
  | none =>
  match eatKws ts [KW.NOT, KW.NULL] with
  | some (ops, r) => some (.post .NotNull ops r)
  | none =>
  match eatKws ts [KW.TRUE] with
  | some (ops, r) => some (.post .True ops r)
  | none =>
  match eatKws ts [KW.NOT, KW.TRUE] with
  | some (ops, r) => some (.post .NotTrue ops r)
  | none =>
  match eatKws ts [KW.FALSE] with
  | some (ops, r) => some (.post .False ops r)
  | none =>
  match eatKws ts [KW.NOT, KW.FALSE] with
  | some (ops, r) => some (.post .NotFalse ops r)
  | none =>
  match eatKws ts [KW.UNKNOWN] with
  | some (ops, r) => some (.post .Unknown ops r)
  | none =>
  match eatKws ts [KW.NOT, KW.UNKNOWN] with
  | some (ops, r) => some (.post .NotUnknown ops r)
  | none =>
  match eatKws ts [KW.DISTINCT, KW.FROM] with
  | some (ops, r) => some (.distinct false ops r)
  | none =>
  match eatKws ts [KW.NOT, KW.DISTINCT, KW.FROM] with
  | some (ops, r) => some (.distinct true ops r)
  | none => none

/-- after `prev_token()`: `[NOT] (REGEXP|RLIKE|IN|BETWEEN|LIKE|ILIKE|SIMILAR TO) …`;
`neg`/`pre` is the optional `NOT` already taken off `ts` -/
def notFamilyTail (c : Cfg) (neg : Bool) (pre : List Tok) (ts : List Tok) : Except Err InfixPlan :=
  match ts with
  | [] => .error (expected "IN or BETWEEN after NOT" none)
  | t1 :: r1 =>
    match t1.kwc with
    | .regexp =>
      -- `let regexp = parse_keyword(REGEXP); let rlike = parse_keyword(RLIKE);` both run
      match r1 with
      | [] => .ok (.right (.like .Regexp neg false) (pre ++ [t1]) r1 c.prec.pLike)
      | t2 :: r2 =>
        if t2.kwc = .rlike then .ok (.right (.like .Regexp neg false) (pre ++ [t1, t2]) r2 c.prec.pLike)
        else .ok (.right (.like .Regexp neg false) (pre ++ [t1]) r1 c.prec.pLike)
    | .rlike => .ok (.right (.like .RLike neg false) (pre ++ [t1]) r1 c.prec.pLike)
    | .in_ =>
      -- parse_in
      if peekKw r1 KW.UNNEST then .error .unsupported
      else match r1 with
        | .sym .LParen :: r2 =>
          if subQueryAhead r2 then .error .unsupported else .ok (.inl neg (pre ++ [t1, .sym .LParen]) r2)
        | _ => .error (expected "(" r1.head?)
    | .between => .ok (.between neg (pre ++ [t1]) r1)
    | .like =>
      match eatKw r1 KW.ANY with
      | some (t2, r2) => .ok (.like .Like neg true (pre ++ [t1, t2]) r2)
      | none => .ok (.like .Like neg false (pre ++ [t1]) r1)
    | .ilike =>
      match eatKw r1 KW.ANY with
      | some (t2, r2) => .ok (.like .ILike neg true (pre ++ [t1, t2]) r2)
      | none => .ok (.like .ILike neg false (pre ++ [t1]) r1)
    | .similar =>
      match eatKw r1 KW.TO with
      | some (t2, r2) => .ok (.like .SimilarTo neg false (pre ++ [t1, t2]) r2)
      | none => .error (expected "IN or BETWEEN after NOT" (some t1))
    | _ => .error (expected "IN or BETWEEN after NOT" (some t1))

/-- tokens after a `::` type word that would extend the type (precision, `UNSIGNED`, array suffix) -/
def typeContinues (ts : List Tok) : Bool :=
  peekSym ts .LParen || peekSym ts .LBracket || peekKw ts KW.UNSIGNED

/-- the non-recursive part of `parse_infix` (`d` = remaining recursion depth, `q` = `precedence`) -/
def infixHead (c : Cfg) (d q : Nat) (ts : List Tok) : Except Err InfixPlan :=
  match ts with
  | [] => .error (noInfix none)
  | t :: rest =>
    -- MySqlDialect::parse_infix
    if c.isMySql && t.kwc = .div then .ok (.right (.op .MyIntegerDivide) [t] rest q)
    else
    match binOpOf c t with
    | .outside => .error .unsupported
    | .op o =>
      match rest with
      | [] => .ok (.right (.op o) [t] rest q)
      | t2 :: rest2 =>
        if t2.isKw KW.ANY || t2.isKw KW.ALL || t2.isKw KW.SOME then
          match rest2 with
          | .sym .LParen :: rest3 =>
            if subQueryAhead rest3 then .error .unsupported
            else .ok (.quant o (if t2.isKw KW.ALL then .all else if t2.isKw KW.ANY then .any else .some)
                       [t, t2, .sym .LParen] rest3 q)
          | _ => .error (expected "(" rest2.head?)
        else .ok (.right (.op o) [t] rest q)
    | .none =>
      match t with
      | .word _ _ _ =>
        match t.kwc with
        | .is =>
          match isTail rest with
          | some (.post ik ops rest') => .ok (.post (.is ik) (t :: ops) rest')
          | some (.distinct neg ops rest') => .ok (.right (.isDistinct neg) (t :: ops) rest' q)
          | none => .error (expected "[NOT] NULL or TRUE|FALSE or [NOT] DISTINCT FROM after IS" rest.head?)
        | .at =>
          match rest with
          | t1 :: r1 =>
            if t1.isKw KW.TIME then
              match r1 with
              | t2 :: r2 => if t2.isKw KW.ZONE then .ok (.right .atTz [t, t1, t2] r2 q)
                            else .error (expected "ZONE" r1.head?)
              | [] => .error (expected "ZONE" none)
            else .error (expected "TIME" rest.head?)
          | [] => .error (expected "TIME" none)
        | .not => notFamilyTail c true [t] rest
        | .in_ | .between | .like | .ilike | .similar | .regexp | .rlike => notFamilyTail c false [] ts
        | _ => .error (noInfix (some t))
      | .sym .DoubleColon =>
        -- parse_data_type: one recursion level, then one type word
        if d = 0 then .error .rle
        else match rest with
          | [] => .error (expected "a data type name" none)
          | ty :: rest2 =>
            match ty with
            | .word _ _ (some k) =>
              if simpleTypes.contains k && !typeContinues rest2 then .ok (.post .cast [t, ty] rest2)
              else .error .unsupported
            | .word _ _ none => .error .unsupported
            | .other _ _ => .error .unsupported
            | _ => .error (expected "a data type name" (some ty))
      | .sym .ExclamationMark => .ok (.post .factorial [t] rest)
      | .sym .LBracket => .error .unsupported
      | .sym .Colon => if c.isSnowflake || c.isGeneric then .error .unsupported else .error (noInfix (some t))
      | .other _ _ => .error .unsupported
      | _ => .error (noInfix (some t))

/-- `parse_escape_char`: `none` = no `ESCAPE`; otherwise the two tokens and the rest -/
def escapeTail (c : Cfg) (ts : List Tok) : Except Err (Option (List Tok × List Tok)) :=
  match eatKw ts KW.ESCAPE with
  | none => .ok none
  | some (t1, r1) =>
    match r1 with
    | [] => .error (expected "literal string" none)
    | t2 :: r2 =>
      match t2 with
      | .word _ _ none => .ok (some ([t1, t2], r2))
      | .sqs _ | .dqs _ => .ok (some ([t1, t2], r2))
      | .other _ _ => let _ := c; .error .unsupported
      | _ => .error (expected "literal string" (some t2))

/-- after a comma with `trailing_commas`: tokens that end a list (over-approximated: any keyword) -/
def listEndAhead (ts : List Tok) : Bool :=
  match ts with
  | [] => true
  | t :: _ =>
    match t with
    | .word _ _ (some _) => true
    | .sym .RParen | .sym .SemiColon | .sym .RBracket | .sym .RBrace => true
    | _ => false

def quantMsg (o : BinOp) : Err :=
  .syntax (str "Expected one of [=, >, <, =>, =<, !=] as comparison operator, found: " ++ o.display)

-- ------------------------------------------------------------------ the recursive core
mutual

/-- `parse_subexpr(p)`: guard level, prefix, then the precedence loop -/
def parseSubexpr (c : Cfg) : Nat → Nat → Nat → List Tok → Res
  | 0, _, _, _ => .error .fuel
  | _ + 1, 0, _, _ => .error .rle
  | f + 1, d + 1, p, ts =>
    match parsePrefix c f d ts with
    | .error er => .error er
    | .ok (e, ts') => loop c f d p e ts'

/-- the `loop { … }` of `parse_subexpr` -/
def loop (c : Cfg) : Nat → Nat → Nat → Expr → List Tok → Res
  | 0, _, _, _, _ => .error .fuel
  | f + 1, d, p, e, ts =>
    if p ≥ nextPrec c ts then .ok (e, ts)
    else
      match parseInfix c f d e (nextPrec c ts) ts with
      | .error er => .error er
      | .ok (e', ts') => loop c f d p e' ts'

/-- `parse_prefix`; the `parse_data_type` probe at its head takes one recursion level and
`maybe_parse` passes `RecursionLimitExceeded` on, so the prefix needs one free level -/
def parsePrefix (c : Cfg) : Nat → Nat → List Tok → Res
  | 0, _, _ => .error .fuel
  | f + 1, d, ts =>
    if d = 0 then .error .rle else
    match prefixHead c ts with
    | .error er => .error er
    | .ok (.atom k toks rest) => collateCheck (.atom k toks) rest
    | .ok (.pre o t p rest) =>
      match parseSubexpr c f d p rest with
      | .error er => .error er
      | .ok (e, rest') => collateCheck (.pre o t e) rest'
    | .ok (.paren rest) =>
      match parseSubexpr c f d c.prec.unknown rest with
      | .error er => .error er
      | .ok (e, rest') =>
        match rest' with
        | .sym .Comma :: _ => .error .unsupported
        | .sym .RParen :: rest'' =>
          if peekSym rest'' .Period then .error .unsupported else collateCheck (.nested e) rest''
        | _ => .error (expected ")" rest'.head?)

/-- `parse_infix(e, q)` -/
def parseInfix (c : Cfg) : Nat → Nat → Expr → Nat → List Tok → Res
  | 0, _, _, _, _ => .error .fuel
  | f + 1, d, e, q, ts =>
    match infixHead c d q ts with
    | .error er => .error er
    | .ok (.right k ops rest p) =>
      match parseSubexpr c f d p rest with
      | .error er => .error er
      | .ok (r, rest') => .ok (.bin k e ops r, rest')
    | .ok (.post k ops rest) => .ok (.post k e ops, rest)
    | .ok (.like k neg any ops rest) =>
      match parseSubexpr c f d c.prec.pLike rest with
      | .error er => .error er
      | .ok (pat, rest') =>
        match escapeTail c rest' with
        | .error er => .error er
        | .ok none => .ok (.bin (.like k neg any) e ops pat, rest')
        | .ok (some (esc, rest'')) => .ok (.likeEsc k neg any e ops pat esc, rest'')
    | .ok (.between neg ops rest) =>
      match parseSubexpr c f d c.prec.pBetween rest with
      | .error er => .error er
      | .ok (lo, rest') =>
        match eatKw rest' KW.AND with
        | none => .error (expected "AND" rest'.head?)
        | some (andTok, rest'') =>
          match parseSubexpr c f d c.prec.pBetween rest'' with
          | .error er => .error er
          | .ok (hi, rest''') => .ok (.between neg e ops lo andTok hi, rest''')
    | .ok (.inl neg ops rest) =>
      if c.trailingCommas && peekSym rest .Comma then .error .unsupported
      else
      match c.inEmptyList, rest with
      | true, .sym .RParen :: rest' => .ok (.inList neg e ops .lnil, rest')
      | _, _ =>
        match parseItems c f d rest with
        | .error er => .error er
        | .ok (items, rest') =>
          match rest' with
          | .sym .RParen :: rest'' => .ok (.inList neg e ops items, rest'')
          | _ => .error (expected ")" rest'.head?)
    | .ok (.quant o qk ops rest p) =>
      match parseSubexpr c f d p rest with
      | .error er => .error er
      | .ok (r, rest') =>
        match rest' with
        | .sym .RParen :: rest'' =>
          if o.isComparison then .ok (.quant o qk e ops r, rest'') else .error (quantMsg o)
        | _ => .error (expected ")" rest'.head?)

/-- `parse_comma_separated(Parser::parse_expr)` -/
def parseItems (c : Cfg) : Nat → Nat → List Tok → Res
  | 0, _, _ => .error .fuel
  | f + 1, d, ts =>
    match parseSubexpr c f d c.prec.unknown ts with
    | .error er => .error er
    | .ok (e, rest) =>
      match rest with
      | .sym .Comma :: rest' =>
        if c.trailingCommas && listEndAhead rest' then .error .unsupported
        else
          match parseItems c f d rest' with
          | .error er => .error er
          | .ok (items, rest'') => .ok (.lcons e [.sym .Comma] items, rest'')
      | _ => .ok (.lcons e [] .lnil, rest)

end

/-- `parse_expr` with recursion limit `limit` -/
def parseExpr (c : Cfg) (fuel limit : Nat) (ts : List Tok) : Res :=
  parseSubexpr c fuel limit c.prec.unknown ts

end SqlVerif.Pratt

import SqlVerif.Model.Cursor
/-
Keyword tests of the parser (`src/parser/mod.rs` ~3239-3360): `parse_keyword`, `parse_keywords`
(index saved and restored), `parse_one_of_keywords`, `expect_keyword`, `expect_keywords`, peek
tests of the form `Token::Word(w) if w.keyword == K`, and `consume_token`, as programs over the
cursor API (`Cursor.Prog`), with word tokens carrying spelling, quote style and keyword.

`Sim R` is the logical relation "same program up to the spelling of unquoted keyword words";
`KwBlind R p := Sim R p p` says that `p` inspects an unquoted word whose keyword is not `NoKeyword`
only through the keyword: handed two such words with the same keyword and different spellings it
continues with related programs, and may return results that differ only as `R` allows (spellings
copied into the tree).
-/
namespace SqlVerif.CursorKw
open SqlVerif.Cursor

/-- tokens as far as keyword tests are concerned; `kw = none` is `Keyword::NoKeyword` -/
inductive KTok where
  | ws
  | word (value : List Nat) (quote : Option Nat) (kw : Option Nat)
  | other (id : Nat)
deriving Repr, DecidableEq

def KTok.isWs : KTok → Bool
  | .ws => true
  | _ => false

/-- the same token up to the spelling of an unquoted keyword word -/
def KTok.respell : KTok → KTok → Prop
  | .ws, .ws => True
  | .other a, .other b => a = b
  | .word v q kw, .word v' q' kw' => q = q' ∧ kw = kw' ∧ (v = v' ∨ (q = none ∧ kw ≠ none))
  | _, _ => False

def optRespell : Option KTok → Option KTok → Prop
  | none, none => True
  | some a, some b => a.respell b
  | _, _ => False

/-- two token vectors that differ only in the spelling of unquoted keyword words (same locations) -/
inductive Respelled : List (TL KTok) → List (TL KTok) → Prop
  | nil : Respelled [] []
  | cons (t t' : TL KTok) (l l' : List (TL KTok)) :
      t.loc = t'.loc → t.tok.respell t'.tok → Respelled l l' → Respelled (t :: l) (t' :: l')

variable {α : Type}

/-- programs that are the same up to respelling of the tokens they are handed -/
inductive Sim (R : α → α → Prop) : Prog KTok α → Prog KTok α → Prop
  | ret (a b) : R a b → Sim R (.ret a) (.ret b)
  | err (m h) : Sim R (.err m h) (.err m h)
  | peek (n k k') : (∀ t t', optRespell t t' → Sim R (k t) (k' t')) → Sim R (.peek n k) (.peek n k')
  | next (k k') : (∀ t t', optRespell t t' → Sim R (k t) (k' t')) → Sim R (.next k) (.next k')
  | prev (p p') : Sim R p p' → Sim R (.prev p) (.prev p')
  | save (slot p p') : Sim R p p' → Sim R (.save slot p) (.save slot p')
  | restore (slot p p') : Sim R p p' → Sim R (.restore slot p) (.restore slot p')
  | peekNoSkip (n k k') : (∀ t t', optRespell t t' → Sim R (k t) (k' t')) → Sim R (.peekNoSkip n k) (.peekNoSkip n k')
  | nextNoSkip (k k') : (∀ t t', optRespell t t' → Sim R (k t) (k' t')) → Sim R (.nextNoSkip k) (.nextNoSkip k')

/-- `p` looks at unquoted keyword words only through their keyword; results may differ as `R` allows -/
def KwBlind (R : α → α → Prop) (p : Prog KTok α) : Prop := Sim R p p

/-- outcomes equal up to `R` on the value: same index, same error message and location, same panic -/
def RelK (R : α → α → Prop) : Res α → Res α → Prop
  | .ok a i, .ok b j => R a b ∧ i = j
  | .err m l, .err m' l' => m = m' ∧ l = l'
  | .panic, .panic => True
  | _, _ => False

/-! ### the helpers (continuation-passing; `h` = number of tokens handed over so far, for the
location reference of an error) -/

/-- the test `Token::Word(w) if w.keyword == K` on a peeked/taken token; `K = none` is
`Keyword::NoKeyword`, which the comparison treats like any other value -/
def isKw (t : Option KTok) (K : Option Nat) : Bool :=
  match t with
  | some (.word _ _ kw) => kw == K
  | _ => false

/-- `match self.peek_nth_token(n).token { Token::Word(w) if w.keyword == K => … }` -/
def peekKeyword (n : Nat) (K : Option Nat) (k : Bool → Prog KTok α) : Prog KTok α :=
  .peek n fun t => k (isKw t K)

/-- `parse_keyword` -/
def parseKeyword (K : Option Nat) (k : Bool → Prog KTok α) : Prog KTok α :=
  .peek 0 fun t => if isKw t K then .next fun _ => k true else k false

/-- the loop of `parse_keywords` after `let index = self.index` -/
def parseKeywordsLoop (slot : Nat) : List (Option Nat) → (Bool → Prog KTok α) → Prog KTok α
  | [], k => k true
  | K :: rest, k => parseKeyword K fun ok => if ok then parseKeywordsLoop slot rest k else .restore slot (k false)

/-- `parse_keywords` -/
def parseKeywords (slot : Nat) (Ks : List (Option Nat)) (k : Bool → Prog KTok α) : Prog KTok α :=
  .save slot (parseKeywordsLoop slot Ks k)

/-- `parse_one_of_keywords`: the first listed keyword equal to the word's keyword -/
def parseOneOfKeywords (Ks : List (Option Nat)) (k : Option (Option Nat) → Prog KTok α) : Prog KTok α :=
  .peek 0 fun t =>
    match t with
    | some (.word _ _ kw) =>
      match Ks.find? (· == kw) with
      | some K => .next fun _ => k (some K)
      | none => k none
    | _ => k none

/-- `expect_keyword`: error `Expected: K, found: <peeked token>` at the peeked token -/
def expectKeyword (h : Nat) (K : Option Nat) (k : Prog KTok α) : Prog KTok α :=
  parseKeyword K fun ok => if ok then k else .peek 0 fun _ => .err 3 (some (h + 1))

/-- `expect_keywords` -/
def expectKeywords : Nat → List (Option Nat) → Prog KTok α → Prog KTok α
  | _, [], k => k
  | h, K :: rest, k => expectKeyword h K (expectKeywords (h + 2) rest k)

/-- `consume_token(expected)`: whole-token equality (for a word: spelling, quote AND keyword) -/
def consumeTok (expected : Option KTok) (k : Bool → Prog KTok α) : Prog KTok α :=
  .peek 0 fun t => if t = expected then .next fun _ => k true else k false

/-- `parse_identifier`-like use of a word: the token is copied into the result, not inspected -/
def takeWord (h : Nat) (k : KTok → Prog KTok α) : Prog KTok α :=
  .next fun t =>
    match t with
    | some (.word v q kw) => k (.word v q kw)
    | _ => .err 4 (some h)

end SqlVerif.CursorKw

/-
Generic model of "copy every field" conversions between two record types with the same field set
(`CreateTableBuilder::build`, `TryFrom<Statement> for CreateTableBuilder`, the builder setters in
`src/ast/helpers/stmt_create_table.rs`).  A record is a function from field ids to values; a
conversion is described by its field map `(target field, source field)` exactly as the struct
literal in the Rust source spells it (rustc guarantees every target field occurs exactly once).
-/
namespace SqlVerif.Record

abbrev Rec (V : Type) := Nat → V

/-- build the target record: field `f` is read from source field `g` when `(f, g)` is in the map -/
def copy {V : Type} (m : List (Nat × Nat)) (dflt : Rec V) (src : Rec V) : Rec V :=
  fun f => match m.lookup f with
    | some g => src g
    | none => dflt f

/-- every field below `n` is copied from the field of the same id (decidable on a generated map) -/
def isIdentityOn (n : Nat) (m : List (Nat × Nat)) : Bool :=
  (List.range n).all fun i => m.lookup i == some i

/-- a setter: assign one field -/
def set {V : Type} (f : Nat) (v : V) (b : Rec V) : Rec V := fun g => if g = f then v else b g

theorem copy_identity {V : Type} (n : Nat) (m : List (Nat × Nat)) (h : isIdentityOn n m = true)
    (dflt src : Rec V) (i : Nat) (hi : i < n) : copy m dflt src i = src i := by
  unfold isIdentityOn at h
  rw [List.all_eq_true] at h
  have := h i (by simpa using hi)
  simp only [beq_iff_eq] at this
  simp [copy, this]

end SqlVerif.Record

import SqlVerif.Model.Scan
import SqlVerif.Model.Keywords
import SqlVerif.Model.Tokenizer
/-
Printers of string literals and quoted identifiers, mirrored from the code as it is:

* `EscapeQuotedString`          (`src/ast/value.rs` 259-312)  → `escQGo`, `escapeQ`
* `EscapeEscapedStringLiteral`  (326-354)                     → `escapeE`
* `EscapeUnicodeStringLiteral`  (360-389)                     → `escapeU`
* `Display for Value`           (100-130), string kinds       → `showValue`
* `Display for DollarQuotedString` (140-151)                  → `showDollar`
* `Display for Ident`           (`src/ast/mod.rs` 178-190)    → `showIdent`
* `Display for Word`            (`src/tokenizer.rs` 377-387)  → `Keywords.Word.display` (already there)

A character is its code point, a string is `List Nat`.  Every printer is total on `List Nat`; on
values that are Rust `char`s (scalar values) it prints what the code prints (checked by stream `lits`).
-/
namespace SqlVerif.Escape
open SqlVerif.Scan SqlVerif.Keywords

/-! ## `EscapeQuotedString`

The loop keeps `previous_char` (initially `char::default()` = NUL).  A quote character
* right after a backslash is written **once** and `continue` skips the update of `previous_char`,
  which therefore stays a backslash: every quote of a run that follows a backslash is written once;
* otherwise is written twice; if the next character is a quote too, that one is consumed as well
  (the pair is taken for an already-escaped quote), and `previous_char` becomes the quote. -/
def escQGo (q : Nat) : Nat → List Nat → List Nat
  | _, [] => []
  | prev, [c] => if c = q then (if prev = 92 then [c] else [c, c]) else [c]
  | prev, c :: c2 :: cs2 =>
    if c = q then
      if prev = 92 then c :: escQGo q prev (c2 :: cs2)
      else if c2 = q then c :: c :: escQGo q c cs2
      else c :: c :: escQGo q c (c2 :: cs2)
    else c :: escQGo q c (c2 :: cs2)

/-- `escape_quoted_string(s, q)` -/
def escapeQ (q : Nat) (p : List Nat) : List Nat := escQGo q 0 p

/-! ## `EscapeEscapedStringLiteral` -/

def escE1 (c : Nat) : List Nat :=
  if c = 39 then [92, 39] else if c = 92 then [92, 92] else if c = 10 then [92, 110]
  else if c = 9 then [92, 116] else if c = 13 then [92, 114] else [c]

/-- `escape_escaped_string` -/
def escapeE : List Nat → List Nat
  | [] => []
  | c :: cs => escE1 c ++ escapeE cs

/-! ## `EscapeUnicodeStringLiteral` -/

/-- one upper-case hex digit (`{:X}`) -/
def hexDigitU (d : Nat) : Nat := if d < 10 then 48 + d else 55 + d

/-- `{:04X}` of a value `≤ 0xFFFF` -/
def hex4 (n : Nat) : List Nat :=
  [hexDigitU (n / 4096 % 16), hexDigitU (n / 256 % 16), hexDigitU (n / 16 % 16), hexDigitU (n % 16)]

/-- `{:06X}` of a value `< 2^24` (every `char` is; beyond that Rust would print more digits) -/
def hex6 (n : Nat) : List Nat :=
  [hexDigitU (n / 1048576 % 16), hexDigitU (n / 65536 % 16), hexDigitU (n / 4096 % 16),
   hexDigitU (n / 256 % 16), hexDigitU (n / 16 % 16), hexDigitU (n % 16)]

def escU1 (c : Nat) : List Nat :=
  if c = 39 then [39, 39] else if c = 92 then [92, 92]
  else if c < 128 then [c]
  else if c ≤ 65535 then 92 :: hex4 c
  else 92 :: 43 :: hex6 c

/-- `escape_unicode_string` -/
def escapeU : List Nat → List Nat
  | [] => []
  | c :: cs => escU1 c ++ escapeU cs

/-! ## `Display for Value`, the string kinds -/

/-- the `Value` variants that carry a string body -/
inductive Kind where
  | singleQuoted | doubleQuoted | tripleSingle | tripleDouble
  | escaped | unicode
  | byteSingle | byteDouble | byteTripleSingle | byteTripleDouble
  | rawSingle | rawDouble | rawTripleSingle | rawTripleDouble
  | national | hex
deriving Repr, DecidableEq

def sq3 : List Nat := [39, 39, 39]
def dq3 : List Nat := [34, 34, 34]

/-- `impl Display for Value`: only the two plain kinds, `E''` and `U&''` escape their body;
everything else is `write!(f, "<open>{v}<close>")` -/
def showValue : Kind → List Nat → List Nat
  | .singleQuoted, v => [39] ++ escapeQ 39 v ++ [39]
  | .doubleQuoted, v => [34] ++ escapeQ 34 v ++ [34]
  | .tripleSingle, v => sq3 ++ v ++ sq3
  | .tripleDouble, v => dq3 ++ v ++ dq3
  | .escaped, v => [69, 39] ++ escapeE v ++ [39]
  | .unicode, v => [85, 38, 39] ++ escapeU v ++ [39]
  | .byteSingle, v => [66, 39] ++ v ++ [39]
  | .byteDouble, v => [66, 34] ++ v ++ [34]
  | .byteTripleSingle, v => 66 :: sq3 ++ v ++ sq3
  | .byteTripleDouble, v => 66 :: dq3 ++ v ++ dq3
  | .rawSingle, v => [82, 39] ++ v ++ [39]
  | .rawDouble, v => [82, 34] ++ v ++ [34]
  | .rawTripleSingle, v => 82 :: sq3 ++ v ++ sq3
  | .rawTripleDouble, v => 82 :: dq3 ++ v ++ dq3
  | .national, v => [78, 39] ++ v ++ [39]
  | .hex, v => [88, 39] ++ v ++ [39]

/-- the token a literal of this kind is expected to lex to -/
def Kind.token : Kind → List Nat → Tok.Token
  | .singleQuoted => .singleQuotedString
  | .doubleQuoted => .doubleQuotedString
  | .tripleSingle => .tripleSingleQuotedString
  | .tripleDouble => .tripleDoubleQuotedString
  | .escaped => .escapedStringLiteral
  | .unicode => .unicodeStringLiteral
  | .byteSingle => .singleQuotedByteStringLiteral
  | .byteDouble => .doubleQuotedByteStringLiteral
  | .byteTripleSingle => .tripleSingleQuotedByteStringLiteral
  | .byteTripleDouble => .tripleDoubleQuotedByteStringLiteral
  | .rawSingle => .singleQuotedRawStringLiteral
  | .rawDouble => .doubleQuotedRawStringLiteral
  | .rawTripleSingle => .tripleSingleQuotedRawStringLiteral
  | .rawTripleDouble => .tripleDoubleQuotedRawStringLiteral
  | .national => .nationalStringLiteral
  | .hex => .hexStringLiteral

/-- `impl Display for DollarQuotedString` -/
def showDollar (value : List Nat) : Option (List Nat) → List Nat
  | some tag => [36] ++ tag ++ [36] ++ value ++ [36] ++ tag ++ [36]
  | none => [36, 36] ++ value ++ [36, 36]

/-- `impl Display for Ident`; `none` = the `panic!("unexpected quote style")` arm -/
def showIdent (i : Ident) : Option (List Nat) :=
  match i.quote with
  | none => some i.value
  | some q =>
    if q = 34 ∨ q = 39 ∨ q = 96 then some ([q] ++ escapeQ q i.value ++ [q])
    else if q = 91 then some ([91] ++ i.value ++ [93])
    else none

end SqlVerif.Escape

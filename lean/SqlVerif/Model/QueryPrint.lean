import SqlVerif.Model.Query
import SqlVerif.Model.ExprPrint
/-!
What `sqlparser::ast` holds of the trees of `Model/Query.lean` (canonical S-expression, the same
rendering as `query_sexp` in `rust/harness/src/query.rs`) and `Display` of
`Query` / `SetExpr` / `Select` / `SelectItem` / `TableWithJoins` / `TableFactor` / `Join` /
`OrderBy` / `OrderByExpr` / `Offset` (`src/ast/query.rs`) as a list of pieces
(`Model/ExprPrint.lean`): `showToks` = the printed tokens, `showText` = the text.

Normal forms of the printer: keywords in upper case; `SELECT ALL` prints `SELECT`; an alias always
prints with `AS`; `INNER JOIN` prints `JOIN`, `LEFT|RIGHT|FULL OUTER JOIN` print without `OUTER`;
`USING (…)` prints `USING(…)`; trailing commas are dropped; `LIMIT` always precedes `OFFSET`;
`LIMIT a, b` prints `LIMIT b OFFSET a`; `LIMIT ALL` is dropped.
-/
namespace SqlVerif.Query
open SqlVerif.Pratt SqlVerif.Gen
open SqlVerif.SetClimb (Op SQuant)

-- ------------------------------------------------------------------ what the AST holds
def hexq (q : Option Nat) : String :=
  match q with
  | some c => String.ofList (Nat.toDigits 16 c)
  | none => "-"

/-- `Ident` of an identifier / alias token (`Word::to_ident`, `Ident::with_quote`) -/
def idSexp (t : Tok) : String :=
  match t with
  | .word v q _ => "(id " ++ hx v ++ " " ++ hexq q ++ ")"
  | .sqs s => "(id " ++ hx s ++ " 27)"
  | .dqs s => "(id " ++ hx s ++ " 22)"
  | _ => "(id?)"

/-- the identifiers of a dotted name (periods and a final `*` dropped) -/
def nameIds (toks : List Tok) : List Tok := toks.filter isIdentTok

def idsSexp (toks : List Tok) : String := String.join ((nameIds toks).map fun t => " " ++ idSexp t)

/-- alias tokens `[]` / `[id]` / `[AS, id]` -/
def aliasSexp (al : List Tok) : String :=
  match al.getLast? with
  | some t => idSexp t
  | none => "none"

def SelectItem.sexp : SelectItem → String
  | .expr e [] => "(item " ++ e.sexp ++ ")"
  | .expr e al => "(as " ++ e.sexp ++ " " ++ aliasSexp al ++ ")"
  | .wildcard _ => "(star)"
  | .qualified toks => "(qstar" ++ idsSexp toks ++ ")"

/-- `asc: Option<bool>` -/
def OrderByExpr.asc (o : OrderByExpr) : Option Bool :=
  match o.dir with
  | [t] => some (t.isKw K.ASC)
  | _ => none

/-- `nulls_first: Option<bool>` -/
def OrderByExpr.nullsFirst (o : OrderByExpr) : Option Bool :=
  match o.nulls with
  | [_, t] => some (t.isKw K.FIRST)
  | _ => none

def OrderByExpr.sexp (o : OrderByExpr) : String :=
  "(ob " ++ o.e.sexp ++ " " ++
    (match o.asc with | some true => "asc" | some false => "desc" | none => "none") ++ " " ++
    (match o.nullsFirst with | some true => "first" | some false => "last" | none => "none") ++ ")"

def sepSexp {α : Type} (f : α → String) (l : Sep α) : String := String.join (l.map fun p => " " ++ f p.1)

def optExprSexp : Option Expr → String
  | some e => e.sexp
  | none => "none"

/-- `OffsetRows` -/
def rowsName (rows : List Tok) : String :=
  match rows with
  | [t] => if t.isKw K.ROW then "Row" else "Rows"
  | _ => "None"

def QueryTail.sexp (qt : QueryTail) : String :=
  " (order" ++ sepSexp OrderByExpr.sexp qt.order ++ ") (limit " ++ optExprSexp (limSem qt.lims).1 ++ ") (offset " ++
    (match (limSem qt.lims).2 with
     | some (e, rows) => "(" ++ e.sexp ++ " " ++ rowsName rows ++ ")"
     | none => "none") ++ ")"

def JoinKind.name : JoinKind → String
  | .inner => "Inner" | .left => "LeftOuter" | .right => "RightOuter" | .full => "FullOuter" | .cross => "CrossJoin"

def JoinCstr.sexp : JoinCstr → String
  | .none => "(none)"
  | .on _ e => "(on " ++ e.sexp ++ ")"
  | .using _ _ cols _ => "(using" ++ sepSexp idSexp cols ++ ")"

def opName : Op → String
  | .union => "union" | .except => "except" | .intersect => "intersect"

def quantName : SQuant → String
  | .all => "all" | .distinct => "distinct" | .byName => "byName" | .allByName => "allByName"
  | .distinctByName => "distinctByName" | .none => "none"

/-- how a FROM item is attached: a new `TableWithJoins` or a `Join` of the current one -/
def connOpen (conn : Conn) (factor cstr : String) : String :=
  match conn with
  | .from _ => " (twj " ++ factor
  | .comma _ => ") (twj " ++ factor
  | .join k _ => " (join " ++ k.name ++ " " ++ factor ++ " " ++ cstr ++ ")"

def QNode.isFnil : QNode → Bool
  | .fnil _ => true
  | _ => false

def QNode.sexp : QNode → String
  | .select hd frm tl =>
    "(select " ++ b01 hd.distinct ++ " (proj" ++ sepSexp SelectItem.sexp hd.proj ++ ") (from" ++
      (if frm.isFnil then "" else frm.sexp ++ ")") ++ ") (where " ++ optExprSexp tl.selection ++ ") (group" ++
      sepSexp Expr.sexp tl.group ++ ") (having " ++ optExprSexp tl.having ++ "))"
  | .paren _ body qt _ => "(paren (query " ++ body.sexp ++ qt.sexp ++ "))"
  | .setOp l o q _ r => "(setop " ++ opName o ++ " " ++ quantName q ++ " " ++ l.sexp ++ " " ++ r.sexp ++ ")"
  | .fnil _ => ""
  | .ftable conn name al cstr rest =>
    connOpen conn ("(table (name" ++ idsSexp name ++ ") " ++ aliasSexp al ++ ")") cstr.sexp ++ rest.sexp
  | .fderived conn _ body qt _ al cstr rest =>
    connOpen conn ("(derived (query " ++ body.sexp ++ qt.sexp ++ ") " ++ aliasSexp al ++ ")") cstr.sexp ++ rest.sexp

def Query.sexp (q : Query) : String := "(query " ++ q.body.sexp ++ q.tail.sexp ++ ")"

-- ------------------------------------------------------------------ Display
/-- `Display for Ident` of an identifier / alias token -/
def idPiece (sp : Bool) (t : Tok) : Piece :=
  match t with
  | .word v q _ => ⟨sp, t, identText v q⟩
  | .sqs s => ⟨sp, t, identText s (some 39)⟩
  | .dqs s => ⟨sp, t, identText s (some 34)⟩
  | _ => ⟨sp, t, none⟩

/-- a dotted name (`ObjectName`), with the final `.*` of a qualified wildcard when present -/
def namePieces (toks : List Tok) : List Piece :=
  toks.map fun t =>
    match t with
    | .sym .Period => symP false .Period
    | .sym .Mul => symP false .Mul
    | _ => idPiece false t

/-- ` AS alias` -/
def aliasPieces (al : List Tok) : List Piece :=
  match al.getLast? with
  | some t => [kwP true "AS", idPiece true t]
  | none => []

/-- `display_comma_separated`: ", " between consecutive elements (a trailing comma is not stored
in the AST) -/
def sepPieces {α : Type} (f : α → List Piece) : Sep α → List Piece
  | [] => []
  | [p] => f p.1
  | p :: q :: rest => f p.1 ++ [symP false .Comma] ++ spaced (sepPieces f (q :: rest))

def SelectItem.pieces : SelectItem → List Piece
  | .expr e al => e.pieces ++ aliasPieces al
  | .wildcard _ => [symP false .Mul]
  | .qualified toks => namePieces toks

def OrderByExpr.pieces (o : OrderByExpr) : List Piece :=
  o.e.pieces ++
    (match o.asc with | some true => [kwP true "ASC"] | some false => [kwP true "DESC"] | none => []) ++
    (match o.nullsFirst with
     | some true => [kwP true "NULLS", kwP true "FIRST"]
     | some false => [kwP true "NULLS", kwP true "LAST"]
     | none => [])

def rowsPieces (rows : List Tok) : List Piece :=
  match rows with
  | [t] => if t.isKw K.ROW then [kwP true "ROW"] else [kwP true "ROWS"]
  | _ => []

/-- ` ORDER BY …`, ` LIMIT …`, ` OFFSET …` of `Display for Query` -/
def QueryTail.pieces (qt : QueryTail) : List Piece :=
  (if qt.order.isEmpty then [] else [kwP true "ORDER", kwP true "BY"] ++ spaced (sepPieces OrderByExpr.pieces qt.order)) ++
  (match (limSem qt.lims).1 with
   | some e => [kwP true "LIMIT"] ++ spaced e.pieces
   | none => []) ++
  (match (limSem qt.lims).2 with
   | some (e, rows) => [kwP true "OFFSET"] ++ spaced e.pieces ++ rowsPieces rows
   | none => [])

def JoinKind.pieces : JoinKind → List Piece
  | .inner => [kwP true "JOIN"]
  | .left => [kwP true "LEFT", kwP true "JOIN"]
  | .right => [kwP true "RIGHT", kwP true "JOIN"]
  | .full => [kwP true "FULL", kwP true "JOIN"]
  | .cross => [kwP true "CROSS", kwP true "JOIN"]

def Conn.pieces : Conn → List Piece
  | .from _ => [kwP true "FROM"]
  | .comma _ => [symP false .Comma]
  | .join k _ => k.pieces

def JoinCstr.pieces : JoinCstr → List Piece
  | .none => []
  | .on _ e => [kwP true "ON"] ++ spaced e.pieces
  | .using _ _ cols _ =>
    [kwP true "USING", symP false .LParen] ++ glued (sepPieces (fun t => [idPiece false t]) cols) ++ [symP false .RParen]

def opPiece : Op → Piece
  | .union => kwP true "UNION" | .except => kwP true "EXCEPT" | .intersect => kwP true "INTERSECT"

def quantPieces : SQuant → List Piece
  | .all => [kwP true "ALL"]
  | .distinct => [kwP true "DISTINCT"]
  | .byName => [kwP true "BY", kwP true "NAME"]
  | .allByName => [kwP true "ALL", kwP true "BY", kwP true "NAME"]
  | .distinctByName => [kwP true "DISTINCT", kwP true "BY", kwP true "NAME"]
  | .none => []

def SelTail.pieces (tl : SelTail) : List Piece :=
  (match tl.selection with | some e => [kwP true "WHERE"] ++ spaced e.pieces | none => []) ++
  (if tl.group.isEmpty then [] else [kwP true "GROUP", kwP true "BY"] ++ spaced (sepPieces Expr.pieces tl.group)) ++
  (match tl.having with | some e => [kwP true "HAVING"] ++ spaced e.pieces | none => [])

/-- `Display` of query bodies (first piece without a blank) and of FROM items (first piece with one) -/
def QNode.pieces : QNode → List Piece
  | .select hd frm tl =>
    [kwP false "SELECT"] ++ (if hd.distinct then [kwP true "DISTINCT"] else []) ++
      spaced (sepPieces SelectItem.pieces hd.proj) ++ frm.pieces ++ tl.pieces
  | .paren _ body qt _ => [symP false .LParen] ++ glued (body.pieces ++ qt.pieces) ++ [symP false .RParen]
  | .setOp l o q _ r => l.pieces ++ [opPiece o] ++ quantPieces q ++ spaced r.pieces
  | .fnil _ => []
  | .ftable conn name al cstr rest =>
    conn.pieces ++ spaced (namePieces name) ++ aliasPieces al ++ cstr.pieces ++ rest.pieces
  | .fderived conn _ body qt _ al cstr rest =>
    conn.pieces ++ [symP true .LParen] ++ glued (body.pieces ++ qt.pieces) ++ [symP false .RParen] ++
      aliasPieces al ++ cstr.pieces ++ rest.pieces

def Query.pieces (q : Query) : List Piece := q.body.pieces ++ q.tail.pieces

/-- the printed token list of a query -/
def Query.showToks (q : Query) : List Tok := q.pieces.map (·.tok)

/-- `to_string()`; `none` where `Display` panics -/
def Query.showText (q : Query) : Option W := joinPieces q.pieces

end SqlVerif.Query

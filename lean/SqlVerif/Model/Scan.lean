/-
Literal scanners of `src/tokenizer.rs`, one total function per Rust routine.

Conventions
* a character is its code point, a string is `List Nat`;
* every scanner receives the *remaining input* and returns the payload together with the input that
  is left after the literal (always a suffix of the argument; see `Lemmas/TokLemmas.lean`);
* failure is either `none` (the caller knows message and location) or a `ScanErr` carrying the
  message and the input that was left at the position Rust reports (`chars.location()` at that
  moment); the tokenizer loop turns "input left" into `(line, col)`;
* recursion is structural on the input.  Loops that consume a variable number of characters per
  iteration (escape sequences) use a `skip` counter: `go (k+1) (_ :: cs) = go k cs`.

The payload is built front to back (`c :: payload of the rest`), never with an accumulator, so
that print/scan round trips go by induction on the payload.
-/
namespace SqlVerif.Scan

/-- code points of a Lean string literal (messages, operator spellings) -/
def str (s : String) : List Nat := s.toList.map Char.toNat

/-- message + input left at the reported location -/
structure ScanErr where
  msg : List Nat
  rest : List Nat
deriving Repr, DecidableEq

/-- `(payload, rest)` with `p` pushed in front of the payload -/
def push (p : List Nat) : Option (List Nat × List Nat) → Option (List Nat × List Nat)
  | none => none
  | some (q, r) => some (p ++ q, r)

def pushE (p : List Nat) : Except ScanErr (List Nat × List Nat) → Except ScanErr (List Nat × List Nat)
  | .error e => .error e
  | .ok (q, r) => .ok (p ++ q, r)

/-! ## ASCII classes that Rust decides without Unicode tables -/

/-- `char::is_ascii_digit` -/
def isAsciiDigit (c : Nat) : Bool := decide (48 ≤ c ∧ c ≤ 57)

/-- `char::is_ascii_hexdigit` -/
def isAsciiHexdigit (c : Nat) : Bool :=
  decide ((48 ≤ c ∧ c ≤ 57) ∨ (65 ≤ c ∧ c ≤ 70) ∨ (97 ≤ c ∧ c ≤ 102))

/-- `char::is_digit(8)` -/
def isOctDigit (c : Nat) : Bool := decide (48 ≤ c ∧ c ≤ 55)

/-- `char::to_digit(16)` -/
def hexVal (c : Nat) : Option Nat :=
  if 48 ≤ c ∧ c ≤ 57 then some (c - 48)
  else if 65 ≤ c ∧ c ≤ 70 then some (c - 55)
  else if 97 ≤ c ∧ c ≤ 102 then some (c - 87)
  else none

/-- `char::from_u32` -/
def charFromU32 (n : Nat) : Option Nat :=
  if n < 0xD800 ∨ (0xE000 ≤ n ∧ n ≤ 0x10FFFF) then some n else none

/-- digits of `s` in base `radix`, most significant first; `none` on a non-digit -/
def digitsVal (radix : Nat) : Nat → List Nat → Option Nat
  | acc, [] => some acc
  | acc, c :: cs =>
    match hexVal c with
    | some d => if d < radix then digitsVal radix (acc * radix + d) cs else none
    | none => none

/-- `u32::from_str_radix(s, radix)`: optional leading `+`, at least one digit, no overflow -/
def u32FromStrRadix (radix : Nat) (s : List Nat) : Option Nat :=
  let body := match s with
    | 43 :: d :: ds => d :: ds
    | _ => s
  match body with
  | [] => none
  | _ => match digitsVal radix 0 body with
    | some n => if n < 4294967296 then some n else none
    | none => none

/-! ## `tokenize_quoted_string` (1493-1592) -/

/-- the backslash table applied when un-escaping is on (1562-1572) -/
def bsEscape (n : Nat) : Nat :=
  if n = 48 then 0 else if n = 97 then 7 else if n = 98 then 8 else if n = 102 then 12
  else if n = 110 then 10 else if n = 114 then 13 else if n = 116 then 9 else if n = 90 then 26
  else n

/-- loop 1509-1590 for `NumStringQuoteChars::One`, after the opening quote.
`q` quote char, `bs` = `backslash_escape`, `un` = `Tokenizer::unescape`.
`none` = input ended before the closing quote. -/
def quotedBody (q : Nat) (bs un : Bool) : List Nat → Option (List Nat × List Nat)
  | [] => none
  | [c] => if c = q then some ([], []) else none
  | c :: c2 :: cs2 =>
    if c = q then
      if c2 = q then push (if un then [c] else [c, c]) (quotedBody q bs un cs2)
      else some ([], c2 :: cs2)
    else if c = 92 ∧ bs = true then
      push (if un then [bsEscape c2] else [c, c2]) (quotedBody q bs un cs2)
    else push [c] (quotedBody q bs un (c2 :: cs2))

/-- same loop for `NumStringQuoteChars::Many(3)`; `n` = `num_consecutive_quotes`.  Returns every
character pushed to `s`; the caller strips the two quotes that precede the final one (1529-1533) -/
def tripleBody (q : Nat) (bs un : Bool) : Nat → List Nat → Option (List Nat × List Nat)
  | _, [] => none
  | n, [c] => if c = q ∧ n + 1 = 3 then some ([], []) else none
  | n, c :: c2 :: cs2 =>
    if c = q ∧ n + 1 = 3 then some ([], c2 :: cs2)
    else if c = 92 ∧ bs = true then
      push (if un then [bsEscape c2] else [c, c2]) (tripleBody q bs un 0 cs2)
    else push [c] (tripleBody q bs un (if c = q then n + 1 else 0) (c2 :: cs2))

/-- 1502-1506: consume `n` opening quotes, `none` if one of them is missing -/
def consumeOpening (q : Nat) : Nat → List Nat → Option (List Nat)
  | 0, s => some s
  | _ + 1, [] => none
  | n + 1, c :: cs => if c = q then consumeOpening q n cs else none

/-- `tokenize_quoted_string`: `triple` selects `Many(3)`, `openN` = `num_opening_quotes_to_consume`.
Both errors are reported at the position on entry. -/
def scanQuoted (q : Nat) (triple : Bool) (openN : Nat) (bs un : Bool) (s : List Nat) :
    Except ScanErr (List Nat × List Nat) :=
  match consumeOpening q openN s with
  | none => .error ⟨str "invalid string literal opening", s⟩
  | some body =>
    if triple then
      match tripleBody q bs un 0 body with
      | none => .error ⟨str "Unterminated string literal", s⟩
      | some (p, r) => .ok (p.dropLast.dropLast, r)
    else
      match quotedBody q bs un body with
      | none => .error ⟨str "Unterminated string literal", s⟩
      | some r => .ok r

/-- `tokenize_single_quoted_string` (1475-1490): the opening quote is still in the input -/
def scanSingleQuoted (q : Nat) (bs un : Bool) (s : List Nat) : Except ScanErr (List Nat × List Nat) :=
  scanQuoted q false 1 bs un s

/-- 1432-1440: up to three opening quotes; returns how many and the input after them -/
def countOpening (q : Nat) : Nat → List Nat → Nat × List Nat
  | 0, s => (0, s)
  | _ + 1, [] => (0, [])
  | n + 1, c :: cs =>
    if c = q then let (k, r) := countOpening q n cs; (k + 1, r) else (0, c :: cs)

/-- `tokenize_single_or_triple_quoted_string` (1419-1472); the Boolean says "triple-quoted".
Two opening quotes are the empty single-quoted literal. -/
def scanSingleOrTriple (q : Nat) (bs un : Bool) (s : List Nat) :
    Except ScanErr (Bool × List Nat × List Nat) :=
  match countOpening q 3 s with
  | (1, r) => match scanQuoted q false 0 bs un r with
    | .error e => .error e
    | .ok (p, r') => .ok (false, p, r')
  | (2, r) => .ok (false, [], r)
  | (3, r) => match scanQuoted q true 0 bs un r with
    | .error e => .error e
    | .ok (p, r') => .ok (true, p, r')
  | _ => .error ⟨str "invalid string literal opening", s⟩

/-! ## `parse_quoted_ident` (1627-1648) -/

/-- after the opening quote; `qe` closing quote; `none` = `last_char != Some(quote_end)` -/
def quotedIdentBody (qe : Nat) (un : Bool) : List Nat → Option (List Nat × List Nat)
  | [] => none
  | [c] => if c = qe then some ([], []) else none
  | c :: c2 :: cs2 =>
    if c = qe then
      if c2 = qe then push (if un then [c] else [c, c]) (quotedIdentBody qe un cs2)
      else some ([], c2 :: cs2)
    else push [c] (quotedIdentBody qe un (c2 :: cs2))

/-! ## `Unescape` (1677-1823): `E'…'` -/

/-- `byte_to_char::<RADIX>` (1739-1752) on a non-empty digit string -/
def byteToChar (radix : Nat) (s : List Nat) : Option Nat :=
  match u32FromStrRadix radix s with
  | none => none
  | some n => let b := n % 256; if b ≤ 127 then charFromU32 b else none

/-- `unescape_unicode::<NUM>` (1813-1822) on the `num` characters that follow -/
def unescapeUnicode (num : Nat) (cs : List Nat) : Option Nat :=
  if cs.length < num then none
  else match u32FromStrRadix 16 (cs.take num) with
    | none => none
    | some n => charFromU32 n

/-- one escape sequence, input = what follows the backslash (1710-1723).
Result: the character and how many input characters the sequence used; `none` = `None?`
(input ended, bad digits, code point not a char, or NUL produced). -/
def escSeq : List Nat → Option (Nat × Nat)
  | [] => none
  | c :: cs =>
    let r : Option (Nat × Nat) :=
      if c = 98 then some (8, 1)
      else if c = 102 then some (12, 1)
      else if c = 110 then some (10, 1)
      else if c = 114 then some (13, 1)
      else if c = 116 then some (9, 1)
      else if c = 117 then (unescapeUnicode 4 cs).map fun ch => (ch, 5)
      else if c = 85 then (unescapeUnicode 8 cs).map fun ch => (ch, 9)
      else if c = 120 then
        let ds := (cs.take 2).takeWhile isAsciiHexdigit
        if ds.isEmpty then some (120, 1) else (byteToChar 16 ds).map fun ch => (ch, 1 + ds.length)
      else if isOctDigit c then
        let ds := c :: (cs.take 2).takeWhile isOctDigit
        (byteToChar 8 ds).map fun ch => (ch, ds.length)
      else some (c, 1)
    match r with
    | none => none
    | some (ch, k) => if ch = 0 then none else some (ch, k)

/-- loop 1694-1724 after the opening quote; first argument = characters still to skip -/
def escapedBody : Nat → List Nat → Option (List Nat × List Nat)
  | _, [] => none
  | k + 1, _ :: cs => escapedBody k cs
  | 0, c :: cs =>
    if c = 39 then
      match cs with
      | 39 :: _ => push [39] (escapedBody 1 cs)
      | _ => some ([], cs)
    else if c ≠ 92 then push [c] (escapedBody 0 cs)
    else match escSeq cs with
      | none => none
      | some (ch, k) => push [ch] (escapedBody k cs)

/-- `unescape_single_quoted_string`: input starts at the opening quote, which is consumed unseen -/
def scanEscaped : List Nat → Option (List Nat × List Nat)
  | [] => none
  | _ :: cs => escapedBody 0 cs

/-! ## `unescape_unicode_single_quoted_string` (1825-1881): `U&'…'` -/

/-- lower-case hex rendering (`{:x}`) -/
def lowerHex (n : Nat) : List Nat := (Nat.toDigits 16 n).map Char.toNat

/-- loop of `take_char_from_hex_digits`; errors are located after the offending character -/
def takeHexDigits : Nat → Nat → List Nat → Except ScanErr (Nat × List Nat)
  | 0, acc, s => .ok (acc, s)
  | _ + 1, _, [] =>
    .error ⟨str "Unexpected EOF while parsing hex digit in escaped unicode string.", []⟩
  | n + 1, acc, c :: cs =>
    match hexVal c with
    | none => .error ⟨str "Invalid hex digit in escaped unicode string: " ++ [c], cs⟩
    | some d => takeHexDigits n (acc * 16 + d) cs

/-- `take_char_from_hex_digits` (1860-1881) -/
def takeCharFromHexDigits (maxDigits : Nat) (s : List Nat) : Except ScanErr (Nat × List Nat) :=
  match takeHexDigits maxDigits 0 s with
  | .error e => .error e
  | .ok (n, rest) =>
    match charFromU32 n with
    | some ch => .ok (ch, rest)
    | none => .error ⟨str "Invalid unicode character: " ++ lowerHex n, rest⟩

/-- loop 1828-1853 after the opening quote; first argument = characters still to skip -/
def unicodeBody : Nat → List Nat → Except ScanErr (List Nat × List Nat)
  | _, [] => .error ⟨str "Unterminated unicode encoded string literal", []⟩
  | k + 1, _ :: cs => unicodeBody k cs
  | 0, c :: cs =>
    if c = 39 then
      match cs with
      | 39 :: _ => pushE [39] (unicodeBody 1 cs)
      | _ => .ok ([], cs)
    else if c = 92 then
      match cs with
      | 92 :: _ => pushE [92] (unicodeBody 1 cs)
      | 43 :: cs2 =>
        match takeCharFromHexDigits 6 cs2 with
        | .error e => .error e
        | .ok (ch, _) => pushE [ch] (unicodeBody 7 cs)
      | _ =>
        match takeCharFromHexDigits 4 cs with
        | .error e => .error e
        | .ok (ch, _) => pushE [ch] (unicodeBody 4 cs)
    else pushE [c] (unicodeBody 0 cs)

/-- input starts at the opening quote, which is consumed unseen -/
def scanUnicode : List Nat → Except ScanErr (List Nat × List Nat)
  | [] => unicodeBody 0 []
  | _ :: cs => unicodeBody 0 cs

/-! ## `tokenize_dollar_preceded_value` (1274-1372), the two string forms -/

/-- loop 1286-1302 after `$$`; `prev` as in the code.  `none` = input ended unterminated
(reported at end of input).  A lone `$` is dropped from the value unless a non-`$` follows. -/
def dollarUntaggedBody : Option Nat → List Nat → Option (List Nat × List Nat)
  | _, [] => none
  | prev, c :: cs =>
    if prev = some 36 then
      if c = 36 then some ([], cs)
      else push [36, c] (dollarUntaggedBody (some c) cs)
    else if c ≠ 36 then push [c] (dollarUntaggedBody (some c) cs)
    else dollarUntaggedBody (some c) cs

/-- loop 1320-1362 after `$tag$`.  Mode `none`: copying up to the next `$`.  Mode
`some (t, ts, m)`: a `$` was seen, `m` = `maybe_s` so far, `t :: ts` = tag characters still to
match.  Characters eaten by a failed tag match are *not* rescanned (1326-1334), so
`$ab$x$a$ab$` is unterminated.  `tag = []` cannot occur in the tokenizer; it is mirrored anyway. -/
def dollarTaggedBody (tag : List Nat) :
    Option (Nat × List Nat × List Nat) → List Nat → Except ScanErr (List Nat × List Nat)
  | _, [] => .error ⟨str "Unterminated dollar-quoted, expected $", []⟩
  | _, [_] => .error ⟨str "Unterminated dollar-quoted, expected $", []⟩
  | none, c :: c2 :: cs2 =>
    if c ≠ 36 then pushE [c] (dollarTaggedBody tag none (c2 :: cs2))
    else match tag with
      | [] => if c2 = 36 then .ok ([], cs2) else pushE [36] (dollarTaggedBody tag none (c2 :: cs2))
      | t :: ts => dollarTaggedBody tag (some (t, ts, [36])) (c2 :: cs2)
  | some (t, ts, m), c :: c2 :: cs2 =>
    if c ≠ t then pushE (m ++ [c]) (dollarTaggedBody tag none (c2 :: cs2))
    else match ts with
      | [] => if c2 = 36 then .ok ([], cs2) else pushE (m ++ [c]) (dollarTaggedBody tag none (c2 :: cs2))
      | t' :: ts' => dollarTaggedBody tag (some (t', ts', m ++ [c])) (c2 :: cs2)

/-! ## comments -/

/-- `tokenize_single_line_comment` (1386-1393): up to and including the first `\n` -/
def singleLineComment (s : List Nat) : List Nat × List Nat :=
  match s.dropWhile (fun c => c != 10) with
  | [] => (s.takeWhile (fun c => c != 10), [])
  | c :: r => (s.takeWhile (fun c => c != 10) ++ [c], r)

/-- loop 1602-1624 after `/*`: `last` = `last_ch`, `nested` ≥ 1.  Returns everything pushed to `s`;
the caller pops the trailing `*` (1610).  `none` = end of input inside the comment. -/
def multiLineBody : Nat → Nat → List Nat → Option (List Nat × List Nat)
  | _, _, [] => none
  | last, nested, c :: cs =>
    if last = 47 ∧ c = 42 then push [c] (multiLineBody c (nested + 1) cs)
    else if last = 42 ∧ c = 47 then
      if nested - 1 = 0 then some ([], cs) else push [c] (multiLineBody c (nested - 1) cs)
    else push [c] (multiLineBody c nested cs)

/-- `tokenize_multiline_comment`; the error is reported at end of input -/
def scanMultiLineComment (s : List Nat) : Except ScanErr (List Nat × List Nat) :=
  match multiLineBody 32 1 s with
  | none => .error ⟨str "Unexpected EOF while in a multi-line comment", []⟩
  | some (p, r) => .ok (p.dropLast, r)

end SqlVerif.Scan

import SqlVerif.Model.Ddl
/-!
Executable model of a THIRD statement fragment of `src/parser/mod.rs`, on top of the statement models
`Model/Ddl.lean` / `Model/Dml.lean` (whose helpers are re-used, not copied), the query model and the
expression model: transaction control and session statements.

* `parse_start_transaction` (`START TRANSACTION modes`), `parse_begin` (`BEGIN [DEFERRED | IMMEDIATE |
  EXCLUSIVE] [TRANSACTION | WORK] modes`, the modifier only where `supports_start_transaction_modifier`),
  `parse_commit` / `parse_end` (`COMMIT | END [TRANSACTION | WORK] [AND [NO] CHAIN]`), `parse_rollback`
  (`… [TO [SAVEPOINT] name]`), `parse_savepoint`, `parse_release`;
* `parse_transaction_modes`: the AD-HOC loop `READ ONLY | READ WRITE | ISOLATION LEVEL …` in which the
  comma is optional, and after a comma a further mode is required (whatever `trailing_commas` says);
* `parse_set`: `[SESSION | LOCAL | HIVEVAR :]`, `ROLE name | NONE`, the variable (`TIME ZONE`, the
  parenthesised identifier list where `supports_parenthesized_set_variables`, an object name), `NAMES`
  (MySQL / Generic, recognised by TEXT comparison: NAMES is not a keyword), `= | TO` values (the loop
  around `is_parse_comma_separated_end`; a sub-query value is outside the fragment), `TIMEZONE value`,
  `CHARACTERISTICS AS TRANSACTION modes`, `TRANSACTION modes` (`SNAPSHOT` outside the fragment);
* `parse_use` (Hive `USE DEFAULT`, the object-kind keywords of Databricks / Snowflake), `parse_discard`,
  `parse_deallocate`, `parse_close`, `parse_assert`;
* every other statement is handed to `Ddl.parseStmt` (which hands on to `Dml.parseStmt`), so scripts
  may mix all three fragments.

Oddities of the real code that are mirrored: `SET CHARACTERISTICS AS TRANSACTION` is accepted without
`SESSION` (and with `LOCAL`) and always means the session form; `SET TIME ZONE = v` / `SET TIME ZONE TO v`
is a plain variable assignment to a variable called `TIMEZONE`, `SET TIMEZONE v` (one word, no `=`) is
`SET TIME ZONE v`; the variable tests compare the PRINTED name (so a quoted `"TIMEZONE"` is not it);
`COMMIT AND NO CHAIN` is `COMMIT`; the `,` between transaction modes is optional, a trailing one is an
error even with `trailing_commas`.
Conventions are those of `Model/Dml.lean`.
-/
namespace SqlVerif.Tcl
open SqlVerif.Pratt SqlVerif.Query SqlVerif.Dml SqlVerif.Ddl SqlVerif.Gen

-- ------------------------------------------------------------------ configuration
structure TCfg where
  x : XCfg
  /-- `supports_start_transaction_modifier` -/
  beginModifier : Bool
  /-- `supports_parenthesized_set_variables` -/
  parenSet : Bool
  isDatabricks : Bool

def TCfg.ofRow (r : DialectRow) : TCfg :=
  { x := XCfg.ofRow r
    beginModifier := r.flags.supports_start_transaction_modifier
    parenSet := r.flags.supports_parenthesized_set_variables
    isDatabricks := r.name == "databricks" }

/-- the same dialect with `ParserOptions::trailing_commas` set explicitly -/
def TCfg.withTrailing (c : TCfg) (tc : Bool) : TCfg := { c with x := c.x.withTrailing tc }

/-- `self.options.trailing_commas` -/
def TCfg.tc (c : TCfg) : Bool := c.x.tc

/-- the query / expression layer's view of the configuration -/
def TCfg.q (c : TCfg) : QCfg := c.x.d.q

namespace TK
def START := kwIndex "START"
def TRANSACTION := kwIndex "TRANSACTION"
def BEGIN := kwIndex "BEGIN"
def WORK := kwIndex "WORK"
def DEFERRED := kwIndex "DEFERRED"
def IMMEDIATE := kwIndex "IMMEDIATE"
def EXCLUSIVE := kwIndex "EXCLUSIVE"
def COMMIT := kwIndex "COMMIT"
def END_ := kwIndex "END"
def ROLLBACK := kwIndex "ROLLBACK"
def AND := kwIndex "AND"
def NO := kwIndex "NO"
def CHAIN := kwIndex "CHAIN"
def TO := kwIndex "TO"
def SAVEPOINT := kwIndex "SAVEPOINT"
def RELEASE := kwIndex "RELEASE"
def SET := kwIndex "SET"
def SESSION := kwIndex "SESSION"
def LOCAL := kwIndex "LOCAL"
def HIVEVAR := kwIndex "HIVEVAR"
def ROLE := kwIndex "ROLE"
def NONE := kwIndex "NONE"
def TIME := kwIndex "TIME"
def ZONE := kwIndex "ZONE"
def DEFAULT := kwIndex "DEFAULT"
def COLLATE := kwIndex "COLLATE"
def AS := kwIndex "AS"
def SNAPSHOT := kwIndex "SNAPSHOT"
def READ := kwIndex "READ"
def ONLY := kwIndex "ONLY"
def WRITE := kwIndex "WRITE"
def ISOLATION := kwIndex "ISOLATION"
def LEVEL := kwIndex "LEVEL"
def UNCOMMITTED := kwIndex "UNCOMMITTED"
def COMMITTED := kwIndex "COMMITTED"
def REPEATABLE := kwIndex "REPEATABLE"
def SERIALIZABLE := kwIndex "SERIALIZABLE"
def USE := kwIndex "USE"
def CATALOG := kwIndex "CATALOG"
def DATABASE := kwIndex "DATABASE"
def SCHEMA := kwIndex "SCHEMA"
def WAREHOUSE := kwIndex "WAREHOUSE"
def DISCARD := kwIndex "DISCARD"
def ALL := kwIndex "ALL"
def PLANS := kwIndex "PLANS"
def SEQUENCES := kwIndex "SEQUENCES"
def TEMP := kwIndex "TEMP"
def TEMPORARY := kwIndex "TEMPORARY"
def DEALLOCATE := kwIndex "DEALLOCATE"
def PREPARE := kwIndex "PREPARE"
def CLOSE := kwIndex "CLOSE"
def ASSERT := kwIndex "ASSERT"
end TK

-- ------------------------------------------------------------------ AST (every node keeps its tokens)
inductive IsoLevel | readUncommitted | readCommitted | repeatableRead | serializable
deriving Repr, DecidableEq

/-- `TransactionMode` with the keywords it was read from -/
inductive TMode
  /-- `ISOLATION LEVEL <level>` -/
  | iso (toks : List Tok) (lvl : IsoLevel)
  /-- `READ ONLY` -/
  | readOnly (toks : List Tok)
  /-- `READ WRITE` -/
  | readWrite (toks : List Tok)
deriving Repr, DecidableEq

/-- `OneOrManyWithParens<ObjectName>` of `SET` -/
inductive SetTarget
  | one (name : List Tok)
  /-- the keywords `TIME ZONE`: the variable `TIMEZONE` -/
  | timeZone (toks : List Tok)
  | many (lp : Tok) (ids : Sep Tok) (rp : Tok)
deriving Repr, DecidableEq

inductive Stmt
  /-- `START TRANSACTION modes` -/
  | startTx (kw txKw : Tok) (modes : Sep TMode)
  /-- `BEGIN [modifier] [TRANSACTION | WORK] modes` -/
  | begin (kw : Tok) (modifier noise : List Tok) (modes : Sep TMode)
  /-- `COMMIT | END`, `[TRANSACTION | WORK]`, `[]` / `[AND, CHAIN]` / `[AND, NO, CHAIN]` -/
  | commit (kw : Tok) (noise chain : List Tok)
  /-- `sp` = `[]` / `[TO, name]` / `[TO, SAVEPOINT, name]` -/
  | rollback (kw : Tok) (noise chain sp : List Tok)
  | savepoint (kw name : Tok)
  /-- `RELEASE [SAVEPOINT] name` -/
  | release (kw : Tok) (spKw : List Tok) (name : Tok)
  /-- `SET [SESSION | LOCAL] ROLE name`; the name `NONE` (keyword) is `role_name: None` -/
  | setRole (kw : Tok) (md : List Tok) (roleKw name : Tok)
  /-- `SET [modifier [:]] target = | TO [(] values [)]` -/
  | setVar (kw : Tok) (md colon : List Tok) (target : SetTarget) (eq : Tok) (lp : List Tok) (values : Sep Expr)
      (rp : List Tok)
  /-- `SET [modifier [:]] TIME ZONE | TIMEZONE value` -/
  | setTimeZone (kw : Tok) (md colon : List Tok) (target : SetTarget) (value : Expr)
  /-- `SET … NAMES DEFAULT` -/
  | setNamesDefault (kw : Tok) (md colon name : List Tok) (dflt : Tok)
  /-- `SET … NAMES charset [COLLATE collation]`; `coll` = `[]` / `[COLLATE, c]` -/
  | setNames (kw : Tok) (md colon name : List Tok) (charset : Tok) (coll : List Tok)
  /-- `SET … TRANSACTION modes` (`head` = the variable) / `SET … CHARACTERISTICS AS TRANSACTION modes`
  (`head` = the variable, AS, TRANSACTION; `session`) -/
  | setTx (kw : Tok) (md colon head : List Tok) (session : Bool) (modes : Sep TMode)
  /-- `USE [CATALOG | DATABASE | SCHEMA | WAREHOUSE] name` -/
  | useObj (kw : Tok) (kind name : List Tok)
  /-- Hive `USE DEFAULT` -/
  | useDefault (kw dflt : Tok)
  | discard (kw obj : Tok)
  | deallocate (kw : Tok) (prep : List Tok) (name : Tok)
  /-- `CLOSE name`; the name `ALL` (keyword) is `CloseCursor::All` -/
  | close (kw what : Tok)
  | assert (kw : Tok) (cond : Expr) (asKw : List Tok) (msg : Option Expr)
  /-- a statement of the fragments of `Model/Ddl.lean` / `Model/Dml.lean` -/
  | ddl (s : SqlVerif.Ddl.Stmt)
deriving Repr, DecidableEq

-- ------------------------------------------------------------------ small helpers
/-- `parse_one_of_keywords(ks)` as an optional token list -/
def oneOfTail : List Nat → List Tok → List Tok × List Tok
  | [], ts => ([], ts)
  | k :: ks, ts =>
    match eatKw ts k with
    | some (t, r) => ([t], r)
    | none => oneOfTail ks ts

/-- `[TRANSACTION | WORK]` -/
def txNoise : List Nat := [TK.TRANSACTION, TK.WORK]

-- ------------------------------------------------------------------ transaction modes
/-- the level after `ISOLATION LEVEL` (`il` = those two keywords) -/
def isoLevel (il : List Tok) (ts : List Tok) : Res TMode :=
  match eatKws ts [TK.READ, TK.UNCOMMITTED] with
  | some (l, r) => .ok (.iso (il ++ l) .readUncommitted, r)
  | none =>
  match eatKws ts [TK.READ, TK.COMMITTED] with
  | some (l, r) => .ok (.iso (il ++ l) .readCommitted, r)
  | none =>
  match eatKws ts [TK.REPEATABLE, TK.READ] with
  | some (l, r) => .ok (.iso (il ++ l) .repeatableRead, r)
  | none =>
  match eatKw ts TK.SERIALIZABLE with
  | some (t, r) => .ok (.iso (il ++ [t]) .serializable, r)
  | none => .error (syn "isolation level")

/-- one round of the loop of `parse_transaction_modes`: a mode, or `none` when no mode begins here -/
def modeHead (ts : List Tok) : Res (Option TMode) :=
  match eatKws ts [TK.ISOLATION, TK.LEVEL] with
  | some (il, r) =>
    match isoLevel il r with
    | .error er => .error er
    | .ok (m, r1) => .ok (some m, r1)
  | none =>
  match eatKws ts [TK.READ, TK.ONLY] with
  | some (l, r) => .ok (some (.readOnly l), r)
  | none =>
  match eatKws ts [TK.READ, TK.WRITE] with
  | some (l, r) => .ok (some (.readWrite l), r)
  | none => .ok (none, ts)

/-- `parse_transaction_modes`: an ad-hoc loop, NOT `parse_comma_separated`: `required` = a comma was
consumed after the previous mode; each mode is kept with the comma that followed it -/
def modesLoop : Nat → Bool → List Tok → Res (Sep TMode)
  | 0, _, _ => .error .fuel
  | n + 1, required, ts =>
    match modeHead ts with
    | .error er => .error er
    | .ok (none, _) => if required then .error (syn "transaction mode") else .ok ([], ts)
    | .ok (some m, r) =>
      match eatSym r .Comma with
      | some (cm, r1) =>
        match modesLoop n true r1 with
        | .error er => .error er
        | .ok (ms, r2) => .ok ((m, [cm]) :: ms, r2)
      | none =>
        match modesLoop n false r with
        | .error er => .error er
        | .ok (ms, r2) => .ok ((m, []) :: ms, r2)

/-- `parse_transaction_modes` -/
def parseModes (f : Nat) (ts : List Tok) : Res (Sep TMode) := modesLoop f false ts

-- ------------------------------------------------------------------ START / BEGIN / COMMIT / ROLLBACK / SAVEPOINT / RELEASE
/-- `parse_start_transaction` (`kw` = the consumed `START`) -/
def parseStart (f : Nat) (kw : Tok) (ts : List Tok) : Res Stmt :=
  match eatKw ts TK.TRANSACTION with
  | none => .error (syn "TRANSACTION")
  | some (tk, r) =>
    match parseModes f r with
    | .error er => .error er
    | .ok (ms, r1) => .ok (.startTx kw tk ms, r1)

/-- `DEFERRED | IMMEDIATE | EXCLUSIVE` of `parse_begin`, only where the dialect has the modifier -/
def beginModifierTail (c : TCfg) (ts : List Tok) : List Tok × List Tok :=
  if c.beginModifier then oneOfTail [TK.DEFERRED, TK.IMMEDIATE, TK.EXCLUSIVE] ts else ([], ts)

/-- `parse_begin` (`kw` = the consumed `BEGIN`) -/
def parseBegin (c : TCfg) (f : Nat) (kw : Tok) (ts : List Tok) : Res Stmt :=
  match parseModes f (oneOfTail txNoise (beginModifierTail c ts).2).2 with
  | .error er => .error er
  | .ok (ms, r1) => .ok (.begin kw (beginModifierTail c ts).1 (oneOfTail txNoise (beginModifierTail c ts).2).1 ms, r1)

/-- `AND [NO] CHAIN` of `parse_commit_rollback_chain` -/
def chainPart (ts : List Tok) : Res (List Tok) :=
  match eatKw ts TK.AND with
  | none => .ok ([], ts)
  | some (a, r) =>
    match eatKw (kwTail TK.NO r).2 TK.CHAIN with
    | none => .error (syn "CHAIN")
    | some (ck, r1) => .ok (a :: (kwTail TK.NO r).1 ++ [ck], r1)

/-- `parse_commit` / `parse_end` (`kw` = the consumed `COMMIT` / `END`) -/
def parseCommit (kw : Tok) (ts : List Tok) : Res Stmt :=
  match chainPart (oneOfTail txNoise ts).2 with
  | .error er => .error er
  | .ok (ch, r) => .ok (.commit kw (oneOfTail txNoise ts).1 ch, r)

/-- `parse_rollback_savepoint`: `TO [SAVEPOINT] name` -/
def rollbackSavepoint (ts : List Tok) : Res (List Tok) :=
  match eatKw ts TK.TO with
  | none => .ok ([], ts)
  | some (t, r) =>
    match identElem (kwTail TK.SAVEPOINT r).2 with
    | .error er => .error er
    | .ok (n, r1) => .ok (t :: (kwTail TK.SAVEPOINT r).1 ++ [n], r1)

/-- `parse_rollback` (`kw` = the consumed `ROLLBACK`) -/
def parseRollback (kw : Tok) (ts : List Tok) : Res Stmt :=
  match chainPart (oneOfTail txNoise ts).2 with
  | .error er => .error er
  | .ok (ch, r) =>
    match rollbackSavepoint r with
    | .error er => .error er
    | .ok (sp, r1) => .ok (.rollback kw (oneOfTail txNoise ts).1 ch sp, r1)

/-- `parse_savepoint` -/
def parseSavepoint (kw : Tok) (ts : List Tok) : Res Stmt :=
  match identElem ts with
  | .error er => .error er
  | .ok (n, r) => .ok (.savepoint kw n, r)

/-- `parse_release` -/
def parseRelease (kw : Tok) (ts : List Tok) : Res Stmt :=
  match identElem (kwTail TK.SAVEPOINT ts).2 with
  | .error er => .error er
  | .ok (n, r) => .ok (.release kw (kwTail TK.SAVEPOINT ts).1 n, r)

-- ------------------------------------------------------------------ SET
/-- the modifier is `HIVEVAR` -/
def isHivevar (md : List Tok) : Bool := md.any fun t => t.isKw TK.HIVEVAR

/-- the modifier is `LOCAL` -/
def isLocal (md : List Tok) : Bool := md.any fun t => t.isKw TK.LOCAL

/-- the `:` that must follow `HIVEVAR` -/
def hivevarColon (md : List Tok) (ts : List Tok) : Res (List Tok) :=
  if isHivevar md then
    match eatSym ts .Colon with
    | some (cl, r) => .ok ([cl], r)
    | none => .error (syn ":")
  else .ok ([], ts)

/-- the variable(s) of `parse_set` -/
def setTarget (c : TCfg) (f : Nat) (ts : List Tok) : Res SetTarget :=
  match eatKws ts [TK.TIME, TK.ZONE] with
  | some (tz, r) => .ok (.timeZone tz, r)
  | none =>
    match (if c.parenSet then eatSym ts .LParen else none) with
    | some (lp, r) =>
      match commaSepE c.tc identElem f r with
      | .error er => .error er
      | .ok (ids, r1) =>
        match eatSym r1 .RParen with
        | some (rp, r2) => .ok (.many lp ids rp, r2)
        | none => .error (syn ")")
    | none =>
      match nameElem ts with
      | .error er => .error er
      | .ok (name, r) => if bqDotted c.x.d name then .error .unsupported else .ok (.one name, r)

/-- `name.to_string().eq_ignore_ascii_case(s)` for a lower-case ASCII `s` without a period: the name is
one unquoted word spelled `s` up to ASCII case -/
def nameIs (s : String) (name : List Tok) : Bool :=
  match name with
  | [.word v none _] => asciiLower v == str s
  | _ => false

/-- `variables.to_string().eq_ignore_ascii_case(s)` for `OneOrManyWithParens::One` -/
def SetTarget.isVar (s : String) : SetTarget → Bool
  | .one name => nameIs s name
  | .timeZone _ => s == "timezone"
  | .many _ _ _ => false

def SetTarget.isMany : SetTarget → Bool
  | .many _ _ _ => true
  | _ => false

/-- the tokens of the variable -/
def SetTarget.toks : SetTarget → List Tok
  | .one name => name
  | .timeZone tz => tz
  | .many lp ids rp => lp :: ids.flatMap (fun p => p.1 :: p.2) ++ [rp]

/-- `parse_literal_string`: a word that is no keyword (quoted or not), a '…' or "…" string; the escaped /
unicode string literals (opaque tokens of the model) are outside the fragment -/
def literalString (ts : List Tok) : Res Tok :=
  match ts with
  | [] => .error (syn "literal string")
  | t :: r =>
    match t with
    | .word _ _ none => .ok (t, r)
    | .sqs _ | .dqs _ => .ok (t, r)
    | .other _ _ => .error .unsupported
    | _ => .error (syn "literal string")

/-- `COLLATE collation` of `SET NAMES` -/
def collatePart (ts : List Tok) : Res (List Tok) :=
  match eatKw ts TK.COLLATE with
  | none => .ok ([], ts)
  | some (ck, r) =>
    match literalString r with
    | .error er => .error er
    | .ok (co, r1) => .ok ([ck, co], r1)

/-- `SET … NAMES` after the variable (MySQL / Generic) -/
def parseSetNames (kw : Tok) (md colon name : List Tok) (ts : List Tok) : Res Stmt :=
  match eatKw ts TK.DEFAULT with
  | some (dk, r) => .ok (.setNamesDefault kw md colon name dk, r)
  | none =>
    match literalString ts with
    | .error er => .error er
    | .ok (cs, r) =>
      match collatePart r with
      | .error er => .error er
      | .ok (co, r1) => .ok (.setNames kw md colon name cs co, r1)

/-- one value of `SET … =`: `try_parse_expr_sub_query` (outside the fragment), else `parse_expr` -/
def setValue (c : TCfg) (f d : Nat) (ts : List Tok) : Res Expr :=
  if subQueryAhead ts then .error .unsupported else parseE c.q f d ts

/-- the value loop of `parse_set`, as the real code writes it: a value, then
`is_parse_comma_separated_end` decides (`Lemmas/TclLists.lean`: it IS `commaSepE`) -/
def setValuesLoop (c : TCfg) (f d : Nat) : Nat → List Tok → Res (Sep Expr)
  | 0, _ => .error .fuel
  | n + 1, ts =>
    match setValue c f d ts with
    | .error er => .error er
    | .ok (v, rest) =>
      match eatSym rest .Comma with
      | none => .ok ([(v, [])], rest)
      | some (cm, rest') =>
        if c.tc && listEnds rest' then .ok ([(v, [cm])], rest')
        else
          match setValuesLoop c f d n rest' with
          | .error er => .error er
          | .ok (vs, rest'') => .ok ((v, [cm]) :: vs, rest'')

/-- `consume_token(&Token::Eq) || parse_keyword(Keyword::TO)` -/
def eqOrTo (ts : List Tok) : Option (Tok × List Tok) :=
  match eatSym ts .Eq with
  | some p => some p
  | none => eatKw ts TK.TO

/-- the `(` of a parenthesised assignment -/
def optLParen (many : Bool) (ts : List Tok) : Res (List Tok) :=
  if many then
    match eatSym ts .LParen with
    | some (lp, r) => .ok ([lp], r)
    | none => .error (syn "(")
  else .ok ([], ts)

/-- the `)` of a parenthesised assignment -/
def optRParen (many : Bool) (ts : List Tok) : Res (List Tok) :=
  if many then
    match eatSym ts .RParen with
    | some (rp, r) => .ok ([rp], r)
    | none => .error (syn ")")
  else .ok ([], ts)

/-- `SET … target = | TO values` after the `=` / `TO` -/
def parseSetValues (c : TCfg) (f d : Nat) (kw : Tok) (md colon : List Tok) (tg : SetTarget) (eq : Tok) (ts : List Tok) :
    Res Stmt :=
  match optLParen tg.isMany ts with
  | .error er => .error er
  | .ok (lp, r) =>
    match commaSepE c.tc (setValue c f d) f r with
    | .error er => .error er
    | .ok (vs, r1) =>
      match optRParen tg.isMany r1 with
      | .error er => .error er
      | .ok (rp, r2) => .ok (.setVar kw md colon tg eq lp vs rp, r2)

/-- `SET … CHARACTERISTICS AS TRANSACTION modes` after the variable -/
def parseSetCharacteristics (f : Nat) (kw : Tok) (md colon name : List Tok) (ts : List Tok) : Res Stmt :=
  match eatKws ts [TK.AS, TK.TRANSACTION] with
  | none => .error (syn "AS TRANSACTION")
  | some (at_, r) =>
    match parseModes f r with
    | .error er => .error er
    | .ok (ms, r1) => .ok (.setTx kw md colon (name ++ at_) true ms, r1)

/-- `SET TRANSACTION modes` after the variable -/
def parseSetTransaction (f : Nat) (kw : Tok) (md colon name : List Tok) (ts : List Tok) : Res Stmt :=
  if peekKw ts TK.SNAPSHOT then .error .unsupported
  else
    match parseModes f ts with
    | .error er => .error er
    | .ok (ms, r1) => .ok (.setTx kw md colon name false ms, r1)

/-- `parse_set` when no `=` / `TO` follows the variable -/
def parseSetOther (c : TCfg) (f d : Nat) (kw : Tok) (md colon : List Tok) (tg : SetTarget) (ts : List Tok) : Res Stmt :=
  if tg.isMany then .error (syn "set variable")
  else if tg.isVar "timezone" then
    match parseE c.q f d ts with
    | .error er => .error er
    | .ok (e, r) => .ok (.setTimeZone kw md colon tg e, r)
  else if tg.isVar "characteristics" then parseSetCharacteristics f kw md colon tg.toks ts
  else if tg.isVar "transaction" && md.isEmpty then parseSetTransaction f kw md colon tg.toks ts
  else .error (syn "equals sign or TO")

/-- the variable is `NAMES` and the dialect is MySQL or Generic -/
def namesBranch (c : TCfg) (tg : SetTarget) : Bool :=
  (match tg with | .one name => nameIs "names" name | _ => false) && (c.x.d.isMySql || c.x.d.isGeneric)

/-- `parse_set` from the variable on -/
def parseSetVar (c : TCfg) (f d : Nat) (kw : Tok) (md colon : List Tok) (ts : List Tok) : Res Stmt :=
  match setTarget c f ts with
  | .error er => .error er
  | .ok (tg, r) =>
    if namesBranch c tg then parseSetNames kw md colon tg.toks r
    else
      match eqOrTo r with
      | some (eq, r1) => parseSetValues c f d kw md colon tg eq r1
      | none => parseSetOther c f d kw md colon tg r

/-- `SET [SESSION | LOCAL] ROLE name` after `ROLE` -/
def parseSetRole (kw : Tok) (md : List Tok) (roleKw : Tok) (ts : List Tok) : Res Stmt :=
  match identElem ts with
  | .error er => .error er
  | .ok (n, r) => .ok (.setRole kw md roleKw n, r)

/-- `ROLE` is looked for only when the modifier is not `HIVEVAR` -/
def roleAhead (md : List Tok) (ts : List Tok) : Option (Tok × List Tok) :=
  if isHivevar md then none else eatKw ts TK.ROLE

/-- `parse_set` after the modifier `md` -/
def parseSetTail (c : TCfg) (f d : Nat) (kw : Tok) (md : List Tok) (ts : List Tok) : Res Stmt :=
  match roleAhead md ts with
  | some (rk, r) => parseSetRole kw md rk r
  | none =>
    match hivevarColon md ts with
    | .error er => .error er
    | .ok (colon, r) => parseSetVar c f d kw md colon r

/-- `parse_set` (`kw` = the consumed `SET`) -/
def parseSet (c : TCfg) (f d : Nat) (kw : Tok) (ts : List Tok) : Res Stmt :=
  parseSetTail c f d kw (oneOfTail [TK.SESSION, TK.LOCAL, TK.HIVEVAR] ts).1 (oneOfTail [TK.SESSION, TK.LOCAL, TK.HIVEVAR] ts).2

-- ------------------------------------------------------------------ USE / DISCARD / DEALLOCATE / CLOSE / ASSERT
/-- the object-kind keyword of `parse_use`, per dialect -/
def useKindTail (c : TCfg) (ts : List Tok) : List Tok × List Tok :=
  if c.isDatabricks then oneOfTail [TK.CATALOG, TK.DATABASE, TK.SCHEMA] ts
  else if c.x.d.isSnowflake then oneOfTail [TK.DATABASE, TK.SCHEMA, TK.WAREHOUSE] ts
  else ([], ts)

/-- Hive: `USE DEFAULT` -/
def useDefaultAhead (c : TCfg) (ts : List Tok) : Option (Tok × List Tok) :=
  if c.x.d.isHive then eatKw ts TK.DEFAULT else none

/-- `parse_use` (`kw` = the consumed `USE`) -/
def parseUse (c : TCfg) (kw : Tok) (ts : List Tok) : Res Stmt :=
  match useDefaultAhead c ts with
  | some (dk, r) => .ok (.useDefault kw dk, r)
  | none =>
    match nameElem (useKindTail c ts).2 with
    | .error er => .error er
    | .ok (name, r) =>
      if bqDotted c.x.d name then .error .unsupported else .ok (.useObj kw (useKindTail c ts).1 name, r)

/-- the objects of `DISCARD` -/
def discardKws : List Nat := [TK.ALL, TK.PLANS, TK.SEQUENCES, TK.TEMP, TK.TEMPORARY]

/-- `parse_discard` -/
def parseDiscard (kw : Tok) (ts : List Tok) : Res Stmt :=
  match ts with
  | [] => .error (syn "ALL, PLANS, SEQUENCES, TEMP or TEMPORARY after DISCARD")
  | t :: r =>
    if discardKws.any t.isKw then .ok (.discard kw t, r)
    else .error (syn "ALL, PLANS, SEQUENCES, TEMP or TEMPORARY after DISCARD")

/-- `parse_deallocate` -/
def parseDeallocate (kw : Tok) (ts : List Tok) : Res Stmt :=
  match identElem (kwTail TK.PREPARE ts).2 with
  | .error er => .error er
  | .ok (n, r) => .ok (.deallocate kw (kwTail TK.PREPARE ts).1 n, r)

/-- `parse_close`: the keyword `ALL` or an identifier (one token either way) -/
def parseClose (kw : Tok) (ts : List Tok) : Res Stmt :=
  match identElem ts with
  | .error er => .error er
  | .ok (n, r) => .ok (.close kw n, r)

/-- `parse_assert` -/
def parseAssert (c : TCfg) (f d : Nat) (kw : Tok) (ts : List Tok) : Res Stmt :=
  match parseE c.q f d ts with
  | .error er => .error er
  | .ok (e, r) =>
    match kwExprPart c.q f d TK.AS r with
    | .error er => .error er
    | .ok (m, r1) => .ok (.assert kw e m.1 m.2, r1)

-- ------------------------------------------------------------------ the dispatcher
/-- `parse_statement`: one guard level, dispatch on the first word; what is not a statement of this
fragment goes to the statement model of `Model/Ddl.lean` (which takes its own guard level from the same
limit) -/
def parseStmt (c : TCfg) (f limit : Nat) (ts : List Tok) : Res Stmt :=
  match limit with
  | 0 => .error .rle
  | d + 1 =>
    match ts with
    | [] => .error (syn "an SQL statement")
    | t :: r =>
      if t.isKw TK.START then parseStart f t r
      else if t.isKw TK.BEGIN then parseBegin c f t r
      else if t.isKw TK.END_ then parseCommit t r
      else if t.isKw TK.COMMIT then parseCommit t r
      else if t.isKw TK.ROLLBACK then parseRollback t r
      else if t.isKw TK.SAVEPOINT then parseSavepoint t r
      else if t.isKw TK.RELEASE then parseRelease t r
      else if t.isKw TK.SET then parseSet c f d t r
      else if t.isKw TK.USE then parseUse c t r
      else if t.isKw TK.DISCARD then parseDiscard t r
      else if t.isKw TK.DEALLOCATE then parseDeallocate t r
      else if t.isKw TK.CLOSE then parseClose t r
      else if t.isKw TK.ASSERT then parseAssert c f d t r
      else mapRes .ddl (SqlVerif.Ddl.parseStmt c.x f (d + 1) ts)

/-- `parse_statements` on the fragment: the loop of `Model/Stmts.lean` around `parseStmt` -/
def parseScript (c : TCfg) (f limit : Nat) (ts : List Tok) : Except (SqlVerif.Stmts.Err Err) (List Stmt) :=
  SqlVerif.Stmts.parseStatements stmtClass (parseStmt c f limit) ts

end SqlVerif.Tcl

/-
Model of the parser's token cursor (`src/parser/mod.rs` ~3090-3220: `peek_nth_token`,
`peek_nth_token_no_skip`, `next_token`, `next_token_no_skip`, `prev_token`, and the index
save/restore idiom of `parse_keywords`, `consume_tokens`, `maybe_parse`), plus a deep embedding of
"programs over this API".

`Parser.tokens` / `Parser.index` are private to the parser module and are touched only by these
functions, so every parse function is — as far as the token stream is concerned — such a program.
Programs receive tokens WITHOUT their location; a location can only be named by the handle of the
operation that handed the token over, and only inside an error.
-/
namespace SqlVerif.Cursor

structure Loc where
  line : Nat
  col : Nat
deriving Repr, DecidableEq

/-- `TokenWithLocation` -/
structure TL (τ : Type) where
  tok : τ
  loc : Loc
deriving Repr

/-- the EOF sentinel carries location (0,0) -/
def eofLoc : Loc := ⟨0, 0⟩

/-- concrete cursor: the raw token vector (whitespace included) and `index` -/
structure CState (τ : Type) where
  tokens : List (TL τ)
  index : Nat

variable {τ : Type}

/-- loop of `peek_nth_token` over the tokens from `index` on; `none` = ran off the end (EOF) -/
def peekFrom (isWs : τ → Bool) : List (TL τ) → Nat → Option (TL τ)
  | [], _ => none
  | t :: rest, n =>
    if isWs t.tok then peekFrom isWs rest n
    else match n with
      | 0 => some t
      | n + 1 => peekFrom isWs rest n

def peekNth (isWs : τ → Bool) (s : CState τ) (n : Nat) : Option (TL τ) :=
  peekFrom isWs (s.tokens.drop s.index) n

/-- loop of `next_token`: returns the token and how far `index` moved -/
def nextFrom (isWs : τ → Bool) : List (TL τ) → Nat → Option (TL τ) × Nat
  | [], k => (none, k + 1)
  | t :: rest, k => if isWs t.tok then nextFrom isWs rest (k + 1) else (some t, k + 1)

def next (isWs : τ → Bool) (s : CState τ) : Option (TL τ) × CState τ :=
  let r := nextFrom isWs (s.tokens.drop s.index) 0
  (r.1, { s with index := s.index + r.2 })

/-- loop of `prev_token` on the index; `none` = `assert!(self.index > 0)` fails (panic) -/
def prevIdx (isWs : τ → Bool) (tokens : List (TL τ)) : Nat → Option Nat
  | 0 => none
  | i + 1 =>
    match tokens[i]? with
    | some t => if isWs t.tok then prevIdx isWs tokens i else some i
    | none => some i

def prev (isWs : τ → Bool) (s : CState τ) : Option (CState τ) :=
  (prevIdx isWs s.tokens s.index).map fun i => { s with index := i }

def peekNthNoSkip (s : CState τ) (n : Nat) : Option (TL τ) := s.tokens[s.index + n]?

def nextNoSkip (s : CState τ) : Option (TL τ) × CState τ :=
  (s.tokens[s.index]?, { s with index := s.index + 1 })

/-- Programs over the cursor API. `k` continuations receive `none` for EOF. Every token handed to
the program gets the next handle (0, 1, 2, …); `err msg (some h)` reports the location of handle `h`. -/
inductive Prog (τ : Type) (α : Type) where
  | ret (a : α)
  | err (msg : Nat) (locRef : Option Nat)
  | peek (n : Nat) (k : Option τ → Prog τ α)
  | next (k : Option τ → Prog τ α)
  | prev (p : Prog τ α)
  | save (slot : Nat) (p : Prog τ α)
  | restore (slot : Nat) (p : Prog τ α)
  | peekNoSkip (n : Nat) (k : Option τ → Prog τ α)
  | nextNoSkip (k : Option τ → Prog τ α)

/-- outcome of a run -/
inductive Res (α : Type) where
  | ok (a : α) (finalPos : Nat)
  | err (msg : Nat) (loc : Loc)
  | panic
deriving Repr, DecidableEq

def locOf {τ : Type} : Option (TL τ) → Loc
  | some t => t.loc
  | none => eofLoc

/-- concrete interpreter: exactly the Rust functions; `regs` = saved indices, `log` = locations of
the tokens handed over so far (oldest first) -/
def runC {α : Type} (isWs : τ → Bool) : Prog τ α → CState τ → (Nat → Nat) → List Loc → Res α
  | .ret a, s, _, _ => .ok a s.index
  | .err m none, _, _, _ => .err m eofLoc
  | .err m (some h), _, _, log => .err m (log.getD h eofLoc)
  | .peek n k, s, regs, log =>
    let t := peekNth isWs s n
    runC isWs (k (t.map (·.tok))) s regs (log ++ [locOf t])
  | .next k, s, regs, log =>
    let r := next isWs s
    runC isWs (k (r.1.map (·.tok))) r.2 regs (log ++ [locOf r.1])
  | .prev p, s, regs, log =>
    match prev isWs s with
    | none => .panic
    | some s' => runC isWs p s' regs log
  | .save slot p, s, regs, log => runC isWs p s (fun x => if x = slot then s.index else regs x) log
  | .restore slot p, s, regs, log => runC isWs p { s with index := regs slot } regs log
  | .peekNoSkip n k, s, regs, log =>
    let t := peekNthNoSkip s n
    runC isWs (k (t.map (·.tok))) s regs (log ++ [locOf t])
  | .nextNoSkip k, s, regs, log =>
    let r := nextNoSkip s
    runC isWs (k (r.1.map (·.tok))) r.2 regs (log ++ [locOf r.1])

/-- abstract cursor: only the non-whitespace tokens, position may run past the end -/
structure AState (τ : Type) where
  toks : List (TL τ)
  pos : Nat

/-- abstract interpreter for programs that never use the no-skip operations (those are stuck) -/
def runA {α : Type} : Prog τ α → AState τ → (Nat → Nat) → List Loc → Res α
  | .ret a, s, _, _ => .ok a s.pos
  | .err m none, _, _, _ => .err m eofLoc
  | .err m (some h), _, _, log => .err m (log.getD h eofLoc)
  | .peek n k, s, regs, log =>
    let t := s.toks[s.pos + n]?
    runA (k (t.map (·.tok))) s regs (log ++ [locOf t])
  | .next k, s, regs, log =>
    let t := s.toks[s.pos]?
    runA (k (t.map (·.tok))) { s with pos := s.pos + 1 } regs (log ++ [locOf t])
  | .prev p, s, regs, log =>
    match s.pos with
    | 0 => .panic
    | n + 1 => runA p { s with pos := n } regs log
  | .save slot p, s, regs, log => runA p s (fun x => if x = slot then s.pos else regs x) log
  | .restore slot p, s, regs, log => runA p { s with pos := regs slot } regs log
  | .peekNoSkip _ _, _, _, _ => .panic
  | .nextNoSkip _, _, _, _ => .panic

/-- the program never looks at whitespace tokens -/
inductive Skipping {α : Type} : Prog τ α → Prop
  | ret (a) : Skipping (.ret a)
  | err (m h) : Skipping (.err m h)
  | peek (n k) : (∀ t, Skipping (k t)) → Skipping (.peek n k)
  | next (k) : (∀ t, Skipping (k t)) → Skipping (.next k)
  | prev (p) : Skipping p → Skipping (.prev p)
  | save (slot p) : Skipping p → Skipping (.save slot p)
  | restore (slot p) : Skipping p → Skipping (.restore slot p)

/-- abstraction of a concrete index: number of non-whitespace tokens before it, plus the overrun -/
def absPos (isWs : τ → Bool) (tokens : List (TL τ)) (i : Nat) : Nat :=
  ((tokens.take i).filter (fun t => !isWs t.tok)).length + (i - tokens.length)

def nonWs (isWs : τ → Bool) (tokens : List (TL τ)) : List (TL τ) := tokens.filter (fun t => !isWs t.tok)

/-- result with the reported location erased and the final position abstracted away -/
def Res.shape {α : Type} : Res α → Option (Sum α Nat)
  | .ok a _ => some (.inl a)
  | .err m _ => some (.inr m)
  | .panic => none

end SqlVerif.Cursor

namespace SqlVerif.Cursor
variable {τ : Type}

/-- `consume_token(expected)`: compare the peeked token (EOF = `none`), consume on match -/
def consumeToken [DecidableEq τ] (isWs : τ → Bool) (s : CState τ) (expected : Option τ) : Bool × CState τ :=
  if (peekNth isWs s 0).map (·.tok) = expected then (true, (next isWs s).2) else (false, s)

/-- `consume_tokens(tokens)`: all or nothing (index saved and restored) -/
def consumeTokens [DecidableEq τ] (isWs : τ → Bool) (s : CState τ) (toks : List τ) : Bool × CState τ :=
  let rec go (cur : CState τ) : List τ → Bool × CState τ
    | [] => (true, cur)
    | t :: rest =>
      let r := consumeToken isWs cur (some t)
      if r.1 then go r.2 rest else (false, s)
  go s toks

end SqlVerif.Cursor

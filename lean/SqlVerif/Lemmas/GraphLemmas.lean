import SqlVerif.Model.Graph
namespace SqlVerif.Graph

theorem BT.get_le (t : BT) (b : Nat) (h : t.all (fun v => decide (v ≤ b)) = true) (x : Nat) : t.get x ≤ b := by
  induction t with
  | leaf => simp [BT.get]
  | node l k v r ihl ihr =>
    simp only [BT.all, Bool.and_eq_true, decide_eq_true_eq] at h
    simp only [BT.get]
    split
    · exact ihl h.1.1
    · split
      · exact ihr h.2
      · exact h.1.2

theorem certOk_edge {edges guarded rank} (h : certOk edges guarded rank = true) {u v : Nat}
    (he : (u, v) ∈ edges) (hg : guarded v = false) : rank v < rank u := by
  unfold certOk at h
  rw [List.all_eq_true] at h
  have := h (u, v) he
  simpa [hg] using this

/-- key inequality: a chain starting at `u` is no longer than
`(guarded activations after u) * (R+1) + rank u + 1` -/
theorem path_length_le (edges : List (Nat × Nat)) (guarded : Nat → Bool) (rank : Nat → Nat) (R : Nat)
    (hc : certOk edges guarded rank = true) (hR : ∀ v, rank v ≤ R) :
    ∀ (u : Nat) (rest : List Nat), IsPath edges (u :: rest) →
      (u :: rest).length ≤ guardedCount guarded rest * (R + 1) + rank u + 1 := by
  intro u rest
  induction rest generalizing u with
  | nil => intro _; simp [guardedCount]
  | cons v rest' ih =>
    intro hp
    have he : (u, v) ∈ edges := hp.1
    have hp' : IsPath edges (v :: rest') := hp.2
    have ih' := ih v hp'
    by_cases hg : guarded v = true
    · have hcnt : guardedCount guarded (v :: rest') = guardedCount guarded rest' + 1 := by
        simp [guardedCount, List.filter, hg]
      rw [hcnt]
      have := hR v
      simp only [List.length_cons] at ih' ⊢
      have e : (guardedCount guarded rest' + 1) * (R + 1) = guardedCount guarded rest' * (R + 1) + (R + 1) := by
        rw [Nat.add_mul]; simp
      rw [e]
      omega
    · have hg' : guarded v = false := by simpa using hg
      have hcnt : guardedCount guarded (v :: rest') = guardedCount guarded rest' := by
        simp [guardedCount, List.filter, hg']
      rw [hcnt]
      have hlt := certOk_edge hc he hg'
      simp only [List.length_cons] at ih' ⊢
      omega

/-- every call chain with at most `L` guarded activations has length ≤ (L+1)·(R+1) -/
theorem chain_bounded (edges : List (Nat × Nat)) (guarded : Nat → Bool) (rank : Nat → Nat) (R L : Nat)
    (hc : certOk edges guarded rank = true) (hR : ∀ v, rank v ≤ R)
    (p : List Nat) (hp : IsPath edges p) (hL : guardedCount guarded p ≤ L) :
    p.length ≤ (L + 1) * (R + 1) := by
  cases p with
  | nil => simp
  | cons u rest =>
    have h1 := path_length_le edges guarded rank R hc hR u rest hp
    have h2 : guardedCount guarded rest ≤ L := by
      have : guardedCount guarded rest ≤ guardedCount guarded (u :: rest) := by
        simp only [guardedCount, List.filter]
        split <;> simp
      omega
    have h3 := hR u
    have h4 : guardedCount guarded rest * (R + 1) ≤ L * (R + 1) := Nat.mul_le_mul_right _ h2
    have e : (L + 1) * (R + 1) = L * (R + 1) + (R + 1) := by rw [Nat.add_mul]; simp
    rw [e]
    omega

/-- the guard restores the depth on every path (Ok or Err) when the body does -/
theorem withGuard_restores {ε α : Type} (rle : ε) (f : Nat → Except ε α × Nat)
    (hf : ∀ d, (f d).2 = d) (d : Nat) : (withGuard rle f d).2 = d := by
  unfold withGuard
  split
  · omega
  · simp [hf]; omega

theorem nestGuards_restores {ε α : Type} (rle : ε) (body : Nat → Except ε α × Nat)
    (hb : ∀ d, (body d).2 = d) : ∀ k d, (nestGuards rle body k d).2 = d
  | 0, d => hb d
  | k + 1, d => withGuard_restores rle _ (nestGuards_restores rle body hb k) d

/-- more guarded activations than the remaining depth: the limit error, and only then -/
theorem nestGuards_limit {ε α : Type} (rle : ε) (body : Nat → Except ε α × Nat) :
    ∀ k d, d < k → (nestGuards rle body k d).1 = .error rle
  | 0, d, h => by omega
  | k + 1, d, h => by
    simp only [nestGuards, withGuard]
    split
    · rfl
    · have := nestGuards_limit rle body k (d - 1) (by omega)
      simpa using this

theorem nestGuards_within {ε α : Type} (rle : ε) (body : Nat → Except ε α × Nat) :
    ∀ k d, k ≤ d → (nestGuards rle body k d).1 = (body (d - k)).1
  | 0, d, _ => by simp [nestGuards]
  | k + 1, d, h => by
    simp only [nestGuards, withGuard]
    have hd : d ≠ 0 := by omega
    simp only [hd, ↓reduceIte]
    have := nestGuards_within rle body k (d - 1) (by omega)
    rw [this]
    congr 2
    omega

end SqlVerif.Graph

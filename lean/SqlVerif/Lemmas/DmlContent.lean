import SqlVerif.Lemmas.DmlLemmas
import SqlVerif.Lemmas.QueryContent
/-!
Content preservation on the statement model: the sequence of content tokens (identifiers with their
quoting, numbers, string payloads, placeholders — `contentOf`, `Lemmas/PrintDefs.lean`) of what a
parser function of `Model/Dml.lean` consumed is that of the printed tokens of what it built
(`Model/DmlPrint.lean`), for `printable` trees; on top of `content_all` (queries) and
`faithful_content` (expressions).
-/
set_option linter.unusedSimpArgs false
namespace SqlVerif.Dml
open SqlVerif.Pratt SqlVerif.Query SqlVerif.Gen

-- ------------------------------------------------------------------ printable
def Row.printable (r : Row) : Bool := r.exprs.all (fun p => p.1.printable)

def ValuesQ.printable (v : ValuesQ) : Bool := v.rows.all (fun p => p.1.printable) && v.tail.printable

def Source.printable : Source → Bool
  | .query q => q.printable
  | .values v => v.printable

def InsSource.printable : InsSource → Bool
  | .defaultValues _ => true
  | .source s => s.printable

def itemsPrintable (l : Sep SelectItem) : Bool := l.all (fun p => p.1.printable)

def Insert.printable (i : Insert) : Bool := i.src.printable && itemsPrintable i.returning

def Update.printable (u : Update) : Bool :=
  u.table.printable && u.assigns.all (fun p => p.1.value.printable) && u.frm.printable && optPrintable u.selection &&
    itemsPrintable u.returning

def Delete.printable (d : Delete) : Bool :=
  d.frm.printable && d.usng.printable && optPrintable d.selection && itemsPrintable d.returning &&
    d.order.all (fun p => p.1.e.printable) && optPrintable d.limit

def ColOpt.printable : ColOpt → Bool
  | .default _ e => e.printable
  | .check _ _ e _ => e.printable
  | _ => true

/-- the data type carries no number, name or string: its printed form consists of keywords only -/
def typePlain : SqlVerif.DTy.DT → Bool
  | .simple _ => true
  | .withLen _ none => true
  | .int _ none _ => true
  | .charLike _ none => true
  | .charLike _ (some .max) => true
  | .exactNum _ .none => true
  | .time _ none _ => true
  | _ => false

/-- what the content theorem covers of a column: a keyword-only type written with keyword tokens
only, and printable expressions in `DEFAULT` / `CHECK` -/
def ColDef.printable (cd : ColDef) : Bool :=
  typePlain cd.ty && cd.tyToks.all (fun t => (contentOf t).isNone) && cd.opts.all ColOpt.printable

def CreateTable.printable (ct : CreateTable) : Bool := ct.cols.all (fun p => p.1.printable)

/-- what `stmt_content_preserved_partial` covers -/
def Stmt.printable : Stmt → Bool
  | .query s => s.printable
  | .insert i => i.printable
  | .update u => u.printable
  | .delete d => d.printable
  | .createTable ct => ct.printable
  | .drop _ => true

-- ------------------------------------------------------------------ helpers
theorem eatSym_content {ts : List Tok} {s : Sym} {t : Tok} {r : List Tok} (h : eatSym ts s = some (t, r)) :
    contentOf t = none := by
  obtain ⟨-, rfl⟩ := eatSym_some h; rfl

theorem kwTail_content (k : Nat) (ts : List Tok) : cont (kwTail k ts).1 = [] := by
  unfold kwTail
  split
  · rename_i t r hk; simp [cont_cons, eatKw_content hk, cont_nil]
  · rfl

theorem kwsTail_content (ks : List Nat) (ts : List Tok) : cont (kwsTail ks ts).1 = [] := by
  unfold kwsTail
  split
  · rename_i p hk; exact eatKws_content ks hk
  · rfl

theorem tempTail_content (ts : List Tok) : cont (tempTail ts).1 = [] := by
  unfold tempTail
  split
  · rename_i t r hk; simp [cont_cons, eatKw_content hk, cont_nil]
  · exact kwTail_content _ _

theorem cont_of_all_none (l : List Tok) (h : l.all (fun t => (contentOf t).isNone) = true) : cont l = [] := by
  induction l with
  | nil => rfl
  | cons a b ih =>
    simp only [List.all_cons, Bool.and_eq_true] at h
    rw [cont_cons, ih h.2]
    cases hc : contentOf a <;> simp_all

/-- the head piece of FROM items attached by the keyword connector -/
def headFrom : QNode → Bool
  | .ftable (.from _) _ _ _ _ => true
  | .fderived (.from _) _ _ _ _ _ _ _ => true
  | _ => false

theorem pc_headKw (sp : Bool) (name : String) (n : QNode) (h : headFrom n = true ∨ n.isFnil = true) :
    pc (headKw sp name n.pieces) = pc n.pieces := by
  cases n with
  | ftable conn name' al cstr rest =>
    cases conn <;> simp [headFrom, QNode.isFnil] at h
    simp only [QNode.pieces, Conn.pieces, List.cons_append, List.nil_append, headKw, pc_cons_kwP]
  | fderived conn lp body qt rp al cstr rest =>
    cases conn <;> simp [headFrom, QNode.isFnil] at h
    simp only [QNode.pieces, Conn.pieces, List.cons_append, List.nil_append, headKw, pc_cons_kwP]
  | fnil t => simp [QNode.pieces, headKw]
  | _ => simp [headFrom, QNode.isFnil] at h

theorem fromItems_headFrom (c : QCfg) (f d : Nat) (kw : Tok) (ts : List Tok) (n : QNode) (rest : List Tok)
    (h : fromItems c f d (.from kw) ts = .ok (n, rest)) : headFrom n = true := by
  cases f with
  | zero => simp [fromItems] at h
  | succ f =>
    simp only [fromItems] at h
    repeat' split at h
    all_goals first
      | (simp at h; done)
      | (simp at h; obtain ⟨rfl, rfl⟩ := h; rfl)

-- ------------------------------------------------------------------ VALUES, sources
theorem sepExpr_content (c : DCfg) (f d : Nat) (n : Nat) (ts : List Tok) (es : Sep Expr) (rest : List Tok)
    (h : commaSepE c.tc (parseE c.q f d) n ts = .ok (es, rest)) (hp : es.all (fun p => p.1.printable) = true) :
    cont (sepFlat Expr.flatten es) = pc (sepPieces Expr.pieces es) :=
  commaSepE_content _ _ Expr.flatten Expr.pieces (fun e => e.printable = true)
    (fun ts v rest hh hv => parseE_content c.q f d ts v rest hh hv) _ _ _ _ h
    (fun p hpm => by simpa using (List.all_eq_true.1 hp) p hpm)

theorem rowBody_content (c : DCfg) (f d : Nat) (rk : List Tok) (hrk : cont rk = []) (ts : List Tok) (row : Row)
    (rest : List Tok) (h : rowBody c f d rk ts = .ok (row, rest)) (hp : row.printable = true) (ex : Bool) :
    cont row.flatten = pc (row.pieces ex) := by
  unfold rowBody at h
  split at h
  · simp at h
  · rename_i lp r hl
    have hlp := eatSym_content hl
    split at h
    · rename_i rp r' he
      split at he
      · have hrp := eatSym_content he
        simp at h; obtain ⟨rfl, rfl⟩ := h
        cases ex <;>
          simp [Row.flatten, Row.pieces, sepFlat, sepPieces, cont_append, cont_cons, hrk, hlp, hrp, cont_nil, pc_append,
            pc_cons_kwP, pc_cons_symP, pc_glued, pc_nil]
      · simp at he
    · split at h
      · simp at h
      · rename_i es r1 hes
        split at h
        · rename_i rp r2 hr
          have hrp := eatSym_content hr
          simp at h; obtain ⟨rfl, rfl⟩ := h
          have hc := sepExpr_content c f d _ _ _ _ hes (by simpa [Row.printable] using hp)
          cases ex <;>
            simp [Row.flatten, Row.pieces, cont_append, cont_cons, hrk, hlp, hrp, cont_nil, pc_append,
              pc_cons_kwP, pc_cons_symP, pc_glued, pc_nil, hc]
        · simp at h

theorem valuesRow_content (c : DCfg) (f d : Nat) (ex : Bool) (ts : List Tok) (row : Row) (rest : List Tok)
    (h : valuesRow c f d ts = .ok (row, rest)) (hp : row.printable = true) : cont row.flatten = pc (row.pieces ex) := by
  unfold valuesRow at h
  exact rowBody_content c f d _ (kwTail_content _ _) _ _ _ h hp ex

theorem valuesQuery_content (c : DCfg) (f d : Nat) (kw : Tok) (hkw : contentOf kw = none) (ts : List Tok) (v : ValuesQ)
    (rest : List Tok) (h : valuesQuery c f d kw ts = .ok (v, rest)) (hp : v.printable = true) :
    cont v.flatten = pc v.pieces := by
  unfold valuesQuery at h
  split at h
  · simp at h
  · rename_i d'
    split at h
    · simp at h
    · rename_i rows r1 hr
      split at h
      · simp at h
      · split at h
        · simp at h
        · rename_i qt r2 hq
          simp at h; obtain ⟨rfl, rfl⟩ := h
          simp only [ValuesQ.printable, Bool.and_eq_true] at hp
          have h1 := commaSepE_content _ _ Row.flatten (Row.pieces (explicitRow rows)) (fun r => r.printable = true)
            (fun ts v rest hh hv => valuesRow_content c f d' _ ts v rest hh hv) _ _ _ _ hr
            (fun p hpm => by simpa using (List.all_eq_true.1 hp.1) p hpm)
          have h2 := queryTail_content _ _ _ _ _ _ hq hp.2
          simp [ValuesQ.flatten, ValuesQ.pieces, cont_cons, cont_append, hkw, pc_append, pc_cons_kwP, pc_spaced, h1, h2]

theorem parseSource_content (c : DCfg) (f d : Nat) (ts : List Tok) (s : Source) (rest : List Tok)
    (h : parseSource c f d ts = .ok (s, rest)) (hp : s.printable = true) : cont s.flatten = pc s.pieces := by
  unfold parseSource at h
  split at h
  · rename_i kw r hk
    split at h
    · simp at h
    · rename_i v r' hv
      simp at h; obtain ⟨rfl, rfl⟩ := h
      exact valuesQuery_content _ _ _ _ (eatKw_content hk) _ _ _ hv hp
  · split at h
    · simp at h
    · rename_i q r' hq
      simp at h; obtain ⟨rfl, rfl⟩ := h
      exact (content_all c.q f).1 _ _ _ _ hq hp


-- ------------------------------------------------------------------ shared clauses
theorem parenIds_content (c : DCfg) (f : Nat) (ae : Bool) (ts : List Tok) (p : ParenIds) (rest : List Tok)
    (h : parenIds c f ae ts = .ok (p, rest)) :
    cont p.flatten = pc (sepPieces (fun t => [idPiece false t]) p.ids) := by
  unfold parenIds at h
  split at h
  · simp at h; obtain ⟨rfl, rfl⟩ := h; rfl
  · rename_i lp r hl
    have hlp := eatSym_content hl
    split at h
    · rename_i rp r' he
      split at he
      · have hrp := eatSym_content he
        simp at h; obtain ⟨rfl, rfl⟩ := h
        simp [ParenIds.flatten, sepFlat, sepPieces, cont_cons, cont_append, hlp, hrp, cont_nil, pc_nil]
      · simp at he
    · split at h
      · simp at h
      · rename_i ids r1 hi
        split at h
        · rename_i rp r2 hr
          have hrp := eatSym_content hr
          simp at h; obtain ⟨rfl, rfl⟩ := h
          have := sep_tok_content ids (commaSepE_seps _ _ _ _ _ _ hi)
          simp [ParenIds.flatten, cont_cons, cont_append, hlp, hrp, cont_nil, this]
        · simp at h

theorem pc_idsParenP (ids : Sep Tok) : pc (idsParenP ids) = pc (sepPieces (fun t => [idPiece false t]) ids) := by
  simp [idsParenP, pc_append, pc_cons_symP, pc_glued, pc_symP, pc_nil]

theorem pc_retPieces (items : Sep SelectItem) : pc (retPieces items) = pc (sepPieces SelectItem.pieces items) := by
  unfold retPieces
  split
  · rename_i he
    have : items = [] := by simpa using he
    subst this; rfl
  · simp [pc_append, pc_cons_kwP, pc_spaced]


theorem retPart_content (c : DCfg) (f d : Nat) (ts : List Tok) (ret : List Tok × Sep SelectItem) (rest : List Tok)
    (h : retPart c f d ts = .ok (ret, rest)) (hp : itemsPrintable ret.2 = true) :
    cont (ret.1 ++ sepFlat SelectItem.flatten ret.2) = pc (retPieces ret.2) := by
  unfold retPart at h
  split at h
  · rename_i kw r hk
    split at h
    · simp at h
    · rename_i items r' hi
      simp at h; obtain ⟨rfl, rfl⟩ := h
      have := commaSepE_content _ _ SelectItem.flatten SelectItem.pieces (fun v => v.printable = true)
        (fun ts v rest hh hv => selectItem_content c.q f d ts v rest hh hv) _ _ _ _ hi
        (fun p hpm => by simpa using (List.all_eq_true.1 hp) p hpm)
      simp [cont_cons, cont_append, eatKw_content hk, pc_retPieces, this]
  · simp at h; obtain ⟨rfl, rfl⟩ := h; rfl

-- ------------------------------------------------------------------ INSERT
theorem insertBody_content (c : DCfg) (f d : Nat) (ts : List Tok) (cs : ParenIds × InsSource) (rest : List Tok)
    (h : insertBody c f d ts = .ok (cs, rest)) (hp : cs.2.printable = true) :
    cont (cs.1.flatten ++ cs.2.flatten) =
      pc ((if cs.1.ids.isEmpty then [] else spaced (idsParenP cs.1.ids)) ++
          (match cs.2 with
           | .defaultValues _ => [kwP true "DEFAULT", kwP true "VALUES"]
           | .source s => spaced s.pieces)) := by
  unfold insertBody at h
  split at h
  · rename_i toks r hk
    simp at h; obtain ⟨rfl, rfl⟩ := h
    simp [ParenIds.none, ParenIds.flatten, sepFlat, InsSource.flatten, cont_append, eatKws_content _ hk, cont_nil,
      pc_cons_kwP, pc_nil]
  · split at h
    · simp at h
    · rename_i cols r1 hc
      have h1 := parenIds_content _ _ _ _ _ _ hc
      split at h
      · simp at h
      · split at h
        · simp at h
        · split at h
          · simp at h
          · rename_i s r2 hs
            simp at h; obtain ⟨rfl, rfl⟩ := h
            have h2 := parseSource_content _ _ _ _ _ _ hs (by simpa [InsSource.printable] using hp)
            have h3 : pc (if cols.ids.isEmpty then [] else spaced (idsParenP cols.ids)) =
                pc (sepPieces (fun t => [idPiece false t]) cols.ids) := by
              split
              · rename_i he
                have : cols.ids = [] := by simpa using he
                rw [this]; rfl
              · simp [pc_spaced, pc_idsParenP]
            simp only [cont_append, InsSource.flatten, pc_append, h1, h2, h3, pc_spaced]

theorem parseInsert_content (c : DCfg) (f d : Nat) (kw : Tok) (hkw : contentOf kw = none) (ts : List Tok) (i : Insert)
    (rest : List Tok) (h : parseInsert c f d kw ts = .ok (i, rest)) (hp : i.printable = true) :
    cont i.flatten = pc i.pieces := by
  unfold parseInsert at h
  split at h
  · simp at h
  · split at h
    · simp at h
    · split at h
      · simp at h
      · rename_i name r1 hn
        split at h
        · simp at h
        · split at h
          · simp at h
          · split at h
            · simp at h
            · rename_i cs r2 hb
              split at h
              · simp at h
              · split at h
                · simp at h
                · rename_i ret r3 hr
                  simp at h; obtain ⟨rfl, rfl⟩ := h
                  simp only [Insert.printable, Bool.and_eq_true] at hp
                  have h2 := insertBody_content _ _ _ _ _ _ hb hp.1
                  have h3 := retPart_content _ _ _ _ _ _ hr hp.2
                  have hi := kwTail_content DK.INTO ts
                  have ht := kwTail_content DK.TABLE (kwTail DK.INTO ts).2
                  simp only [cont_append] at h2 h3
                  simp only [Insert.flatten, Insert.pieces, cont_cons, cont_append, hkw, hi, ht, Option.toList,
                    List.nil_append, List.append_assoc]
                  rw [← List.append_assoc (cont cs.1.flatten), h2, h3]
                  have e1 : pc (if (kwTail DK.INTO ts).1.isEmpty then [] else [kwP true "INTO"]) = [] := by
                    split <;> rfl
                  have e2 : pc (if (kwTail DK.TABLE (kwTail DK.INTO ts).2).1.isEmpty then [] else [kwP true "TABLE"]) = [] := by
                    split <;> rfl
                  simp only [pc_append, pc_cons_kwP, pc_nil, e1, e2, pc_spaced, ← name_content, List.nil_append,
                    List.append_assoc]
                  rfl


-- ------------------------------------------------------------------ UPDATE
def Factor.printable : Factor → Bool
  | .table _ _ => true
  | .derived _ body qt _ _ => body.printable && qt.printable

/-- pieces of a factor without its connector -/
def Factor.pieces : Factor → List Piece
  | .table name al => spaced (namePieces name) ++ aliasPieces al
  | .derived _ body qt _ al => [symP true .LParen] ++ glued (body.pieces ++ qt.pieces) ++ [symP false .RParen] ++ aliasPieces al

theorem Factor.node_pieces (fac : Factor) (conn : Conn) (k : JoinCstr) (rest : QNode) :
    (fac.node conn k rest).pieces = conn.pieces ++ fac.pieces ++ k.pieces ++ rest.pieces := by
  cases fac <;> simp [Factor.node, QNode.pieces, Factor.pieces]

theorem Factor.node_printable (fac : Factor) (conn : Conn) (k : JoinCstr) (rest : QNode) :
    (fac.node conn k rest).printable = (fac.printable && k.printable && rest.printable) := by
  cases fac <;> simp [Factor.node, QNode.printable, Factor.printable, Bool.and_assoc]

theorem factorPart_content (c : QCfg) (f d : Nat) (ts : List Tok) (fac : Factor) (rest : List Tok)
    (h : factorPart c f d ts = .ok (fac, rest)) (hp : fac.printable = true) : cont fac.toks = pc fac.pieces := by
  unfold factorPart at h
  split at h
  · simp at h
  · split at h
    · simp at h
    · rename_i name al r hf
      simp at h; obtain ⟨rfl, rfl⟩ := h
      simp [Factor.toks, Factor.pieces, cont_append, pc_append, pc_spaced, ← name_content,
        factorHead_table_content _ _ _ _ _ hf]
    · rename_i lp r hf
      split at h
      · simp at h
      · simp at h
      · simp at h
      · rename_i q r1 hq
        split at h
        · simp at h
        · rename_i rp r2 hr
          split at h
          · simp at h
          · rename_i al r3 ha
            split at h
            · simp at h
            · simp at h; obtain ⟨rfl, rfl⟩ := h
              simp only [Factor.printable, Bool.and_eq_true] at hp
              have hq' := (content_all c f).1 _ _ _ _ hq (by simp [Query.printable, hp.1, hp.2])
              simp only [Query.flatten, Query.pieces, cont_append, pc_append] at hq'
              simp only [Factor.toks, Factor.pieces, cont_append, cont_cons, pc_append, pc_cons_symP, pc_glued,
                factorHead_paren_content _ _ _ _ hf, eatSym_content hr, optTableAlias_content _ _ _ ha,
                Option.toList, List.nil_append, List.append_nil, cont_nil, pc_nil]
              rw [hq']

theorem twj_content (c : QCfg) : ∀ (f d : Nat) (conn : Conn) (ts : List Tok) (n : QNode) (rest : List Tok),
    cont conn.toks = [] → twj c f d conn ts = .ok (n, rest) → n.printable = true → cont n.flatten = pc n.pieces := by
  intro f
  induction f with
  | zero => intro d conn ts n rest _ h; simp [twj] at h
  | succ f ih =>
    intro d conn ts n rest hconn h hp
    simp only [twj] at h
    split at h
    · simp at h
    · rename_i fac r hf
      split at h
      · simp at h
      · rename_i k ts1 hc
        split at h
        · simp at h
        · simp at h; obtain ⟨rfl, rfl⟩ := h
          simp only [Factor.node_printable, Bool.and_eq_true] at hp
          simp [Factor.node_flatten, Factor.node_pieces, cont_append, pc_append, hconn, pc_connPieces,
            factorPart_content _ _ _ _ _ _ hf hp.1.1, optCstr_content _ _ _ _ _ _ _ hc hp.1.2, QNode.flatten,
            QNode.pieces, cont_nil, pc_nil]
        · rename_i jk toks r2 hj
          split at h
          · simp at h
          · rename_i rs ts2 hr
            simp at h; obtain ⟨rfl, rfl⟩ := h
            simp only [Factor.node_printable, Bool.and_eq_true] at hp
            have h4 := ih _ (.join jk toks) _ _ _ (by simpa [Conn.toks] using joinHead_content _ _ _ _ hj) hr hp.2
            simp [Factor.node_flatten, Factor.node_pieces, cont_append, pc_append, hconn, pc_connPieces,
              factorPart_content _ _ _ _ _ _ hf hp.1.1, optCstr_content _ _ _ _ _ _ _ hc hp.1.2, h4]

theorem headFrom_node (fac : Factor) (kw : Tok) (k : JoinCstr) (rest : QNode) :
    headFrom (fac.node (.from kw) k rest) = true := by cases fac <;> rfl

theorem twj_headFrom (c : QCfg) (f d : Nat) (kw : Tok) (ts : List Tok) (n : QNode) (rest : List Tok)
    (h : twj c f d (.from kw) ts = .ok (n, rest)) : headFrom n = true := by
  cases f with
  | zero => simp [twj] at h
  | succ f =>
    simp only [twj] at h
    split at h
    · simp at h
    · split at h
      · simp at h
      · split at h
        · simp at h
        · simp at h; obtain ⟨rfl, rfl⟩ := h; exact headFrom_node _ _ _ _
        · split at h
          · simp at h
          · simp at h; obtain ⟨rfl, rfl⟩ := h; exact headFrom_node _ _ _ _

theorem names_content (tc : Bool) (n : Nat) (ts : List Tok) (vs : Sep (List Tok)) (rest : List Tok)
    (h : commaSepE tc nameElem n ts = .ok (vs, rest)) :
    cont (sepFlat (fun n => n) vs) = pc (sepPieces namePieces vs) :=
  sep_content _ _ vs (fun p _ => name_content p.1) (commaSepE_seps _ _ _ _ _ _ h)

theorem assignTarget_content (c : DCfg) (f : Nat) (ts : List Tok) (tg : AssignTarget) (rest : List Tok)
    (h : assignTarget c f ts = .ok (tg, rest)) : cont tg.flatten = pc tg.pieces := by
  unfold assignTarget at h
  split at h
  · rename_i lp r hl
    split at h
    · simp at h
    · rename_i names r1 hn
      split at h
      · simp at h
      · rename_i rp r2 hr
        split at h
        · simp at h
        · simp at h; obtain ⟨rfl, rfl⟩ := h
          simp [AssignTarget.flatten, AssignTarget.pieces, cont_cons, cont_append, eatSym_content hl, eatSym_content hr,
            pc_append, pc_cons_symP, pc_glued, pc_symP, names_content _ _ _ _ _ hn, cont_nil, pc_nil]
  · split at h
    · simp at h
    · rename_i name r hn
      split at h
      · simp at h
      · simp at h; obtain ⟨rfl, rfl⟩ := h
        simp [AssignTarget.flatten, AssignTarget.pieces, name_content]

theorem assignment_content (c : DCfg) (f d : Nat) (ts : List Tok) (a : Assign) (rest : List Tok)
    (h : assignment c f d ts = .ok (a, rest)) (hp : a.value.printable = true) : cont a.flatten = pc a.pieces := by
  unfold assignment at h
  split at h
  · simp at h
  · rename_i tg r ht
    split at h
    · simp at h
    · rename_i eq r1 he
      split at h
      · simp at h
      · rename_i e r2 hpe
        simp at h; obtain ⟨rfl, rfl⟩ := h
        simp [Assign.flatten, Assign.pieces, cont_append, cont_cons, eatSym_content he, pc_append, pc_cons_symP,
          pc_spaced, assignTarget_content _ _ _ _ _ ht, parseE_content _ _ _ _ _ _ hpe hp]

theorem updateFromPart_content (c : DCfg) (f d : Nat) (ts : List Tok) (fr : List Tok × QNode) (rest : List Tok)
    (h : updateFromPart c f d ts = .ok (fr, rest)) (hp : fr.2.printable = true) :
    cont fr.1 = [] ∧ cont fr.2.flatten = pc fr.2.pieces := by
  unfold updateFromPart at h
  split at h
  · simp at h; obtain ⟨rfl, rfl⟩ := h; exact ⟨rfl, rfl⟩
  · rename_i kw r hk
    split at h
    · split at h
      · simp at h
      · rename_i n r' ht
        simp at h; obtain ⟨rfl, rfl⟩ := h
        exact ⟨rfl, twj_content _ _ _ _ _ _ _ (by simp [Conn.toks, cont_cons, eatKw_content hk, cont_nil]) ht hp⟩
    · simp at h; obtain ⟨rfl, rfl⟩ := h
      exact ⟨by simp [cont_cons, eatKw_content hk, cont_nil], rfl⟩

theorem pc_wherePieces (o : Option Expr) : pc (wherePieces o) = (match o with | some e => pc e.pieces | none => []) := by
  cases o <;> simp [wherePieces, pc_cons_kwP, pc_spaced, pc_nil]

theorem kwExprPart_content' (c : QCfg) (f d k : Nat) (ts : List Tok) (w : List Tok × Option Expr) (rest : List Tok)
    (h : kwExprPart c f d k ts = .ok (w, rest)) (hp : optPrintable w.2 = true) :
    cont (w.1 ++ optFlat w.2) = pc (wherePieces w.2) := by
  unfold kwExprPart at h
  split at h
  · rename_i kw r hk
    split at h
    · simp at h
    · rename_i e r' he
      simp at h; obtain ⟨rfl, rfl⟩ := h
      simp [optFlat, cont_cons, cont_append, eatKw_content hk, pc_wherePieces,
        parseE_content _ _ _ _ _ _ he (by simpa [optPrintable] using hp), cont_nil]
  · simp at h; obtain ⟨rfl, rfl⟩ := h; rfl

theorem parseUpdate_content (c : DCfg) (f d : Nat) (kw : Tok) (hkw : contentOf kw = none) (ts : List Tok) (u : Update)
    (rest : List Tok) (h : parseUpdate c f d kw ts = .ok (u, rest)) (hp : u.printable = true) :
    cont u.flatten = pc u.pieces := by
  unfold parseUpdate at h
  split at h
  · simp at h
  · rename_i tbl r1 ht
    split at h
    · simp at h
    · rename_i setKw r2 hs
      split at h
      · simp at h
      · rename_i as r3 ha
        split at h
        · simp at h
        · rename_i fr r4 hfr
          split at h
          · simp at h
          · rename_i w r5 hw
            split at h
            · simp at h
            · rename_i ret r6 hr
              simp at h; obtain ⟨rfl, rfl⟩ := h
              simp only [Update.printable, Bool.and_eq_true] at hp
              obtain ⟨⟨⟨⟨hp1, hp2⟩, hp3⟩, hp4⟩, hp5⟩ := hp
              have h1 := twj_content _ _ _ _ _ _ _ (by simp [Conn.toks, cont_cons, hkw, cont_nil]) ht hp1
              have h2 := commaSepE_content _ _ Assign.flatten Assign.pieces (fun a => a.value.printable = true)
                (fun ts v rest hh hv => assignment_content c f d ts v rest hh hv) _ _ _ _ ha
                (fun p hpm => by simpa using (List.all_eq_true.1 hp2) p hpm)
              obtain ⟨h3a, h3b⟩ := updateFromPart_content _ _ _ _ _ _ hfr hp3
              have h4 := kwExprPart_content' _ _ _ _ _ _ _ hw hp4
              have h5 := retPart_content _ _ _ _ _ _ hr hp5
              simp only [cont_append] at h4 h5
              simp only [Update.flatten, Update.pieces, cont_append, cont_cons, eatKw_content hs, pc_append,
                pc_headKw _ _ _ (Or.inl (twj_headFrom _ _ _ _ _ _ _ ht)), pc_cons_kwP, pc_spaced, h1, h2, h3a, h3b,
                Option.toList, List.nil_append, List.append_assoc]
              rw [← List.append_assoc (cont w.1), h4, h5]
              simp only [pc_nil, List.nil_append]


-- ------------------------------------------------------------------ DELETE
theorem deleteHead_content (c : DCfg) (f : Nat) (ts : List Tok) (hd : Sep (List Tok) × Tok) (rest : List Tok)
    (h : deleteHead c f ts = .ok (hd, rest)) :
    cont (sepFlat (fun n => n) hd.1) = pc (sepPieces namePieces hd.1) ∧ contentOf hd.2 = none := by
  unfold deleteHead at h
  split at h
  · rename_i fk r hk
    simp at h; obtain ⟨rfl, rfl⟩ := h
    exact ⟨rfl, eatKw_content hk⟩
  · split at h
    · simp at h
    · split at h
      · simp at h
      · rename_i names r1 hn
        split at h
        · simp at h
        · rename_i fk r2 hk
          split at h
          · simp at h
          · simp at h; obtain ⟨rfl, rfl⟩ := h
            exact ⟨names_content _ _ _ _ _ hn, eatKw_content hk⟩

theorem usingPart_content (c : DCfg) (f d : Nat) (ts : List Tok) (n : QNode) (rest : List Tok)
    (h : usingPart c f d ts = .ok (n, rest)) (hp : n.printable = true) :
    cont n.flatten = pc (headKw true "USING" n.pieces) := by
  unfold usingPart at h
  split at h
  · rename_i kw r hk
    rw [pc_headKw _ _ _ (Or.inl (fromItems_headFrom _ _ _ _ _ _ _ h))]
    exact (content_all c.q f).2.2.2.2.1 _ _ _ _ _ (by simp [Conn.toks, cont_cons, eatKw_content hk, cont_nil]) h hp
  · simp at h; obtain ⟨rfl, rfl⟩ := h; rfl

theorem deleteOrderPart_content (c : DCfg) (f d : Nat) (ts : List Tok) (ob : List Tok × Sep OrderByExpr) (rest : List Tok)
    (h : deleteOrderPart c f d ts = .ok (ob, rest)) (hp : ob.2.all (fun p => p.1.e.printable) = true) :
    cont (ob.1 ++ sepFlat OrderByExpr.flatten ob.2) =
      pc (if ob.2.isEmpty then [] else [kwP true "ORDER", kwP true "BY"] ++ spaced (sepPieces OrderByExpr.pieces ob.2)) := by
  unfold deleteOrderPart at h
  split at h
  · rename_i kws r hk
    split at h
    · simp at h
    · rename_i os r' ho
      simp at h; obtain ⟨rfl, rfl⟩ := h
      have h1 := commaSepE_content _ _ OrderByExpr.flatten OrderByExpr.pieces (fun o => o.e.printable = true)
        (fun ts v rest hh hv => orderByElem_content c.q f d ts v rest hh hv) _ _ _ _ ho
        (fun p hpm => by simpa using (List.all_eq_true.1 hp) p hpm)
      simp only [cont_append, eatKws_content _ hk, List.nil_append, h1]
      split
      · rename_i he
        have : os = [] := by simpa using he
        subst this; rfl
      · simp [pc_cons_kwP, pc_spaced]
  · simp at h; obtain ⟨rfl, rfl⟩ := h; rfl

theorem deleteLimitPart_content (c : DCfg) (f d : Nat) (ts : List Tok) (lim : List Tok × Option Expr) (rest : List Tok)
    (h : deleteLimitPart c f d ts = .ok (lim, rest)) (hp : optPrintable lim.2 = true) :
    cont (lim.1 ++ optFlat lim.2) = pc (match lim.2 with | some e => [kwP true "LIMIT"] ++ spaced e.pieces | none => []) := by
  unfold deleteLimitPart at h
  split at h
  · rename_i kw r hk
    split at h
    · rename_i a r' ha
      simp at h; obtain ⟨rfl, rfl⟩ := h
      simp [optFlat, cont_cons, eatKw_content hk, eatKw_content ha, cont_nil, pc_nil]
    · split at h
      · simp at h
      · rename_i e r' he
        simp at h; obtain ⟨rfl, rfl⟩ := h
        simp [optFlat, cont_cons, cont_append, eatKw_content hk, pc_cons_kwP, pc_spaced,
          parseE_content _ _ _ _ _ _ he (by simpa [optPrintable] using hp), cont_nil]
  · simp at h; obtain ⟨rfl, rfl⟩ := h; rfl

theorem parseDelete_content (c : DCfg) (f d : Nat) (kw : Tok) (hkw : contentOf kw = none) (ts : List Tok) (dl : Delete)
    (rest : List Tok) (h : parseDelete c f d kw ts = .ok (dl, rest)) (hp : dl.printable = true) :
    cont dl.flatten = pc dl.pieces := by
  unfold parseDelete at h
  split at h
  · simp at h
  · rename_i hd r1 hh
    split at h
    · simp at h
    · rename_i frm r2 hf
      split at h
      · simp at h
      · rename_i us r3 hu
        split at h
        · simp at h
        · rename_i w r4 hw
          split at h
          · simp at h
          · rename_i ret r5 hr
            split at h
            · simp at h
            · rename_i ob r6 ho
              split at h
              · simp at h
              · rename_i lim r7 hl
                simp at h; obtain ⟨rfl, rfl⟩ := h
                simp only [Delete.printable, Bool.and_eq_true] at hp
                obtain ⟨⟨⟨⟨⟨hp1, hp2⟩, hp3⟩, hp4⟩, hp5⟩, hp6⟩ := hp
                obtain ⟨h1, h1k⟩ := deleteHead_content _ _ _ _ _ hh
                have h2 := (content_all c.q f).2.2.2.2.1 _ (.from hd.2) _ _ _
                  (by simp [Conn.toks, cont_cons, h1k, cont_nil]) hf hp1
                have h3 := usingPart_content _ _ _ _ _ _ hu hp2
                have h4 := kwExprPart_content' _ _ _ _ _ _ _ hw hp3
                have h5 := retPart_content _ _ _ _ _ _ hr hp4
                have h6 := deleteOrderPart_content _ _ _ _ _ _ ho hp5
                have h7 := deleteLimitPart_content _ _ _ _ _ _ hl hp6
                simp only [cont_append] at h4 h5 h6 h7
                have e1 : pc (if hd.1.isEmpty then [] else spaced (sepPieces namePieces hd.1)) = pc (sepPieces namePieces hd.1) := by
                  split
                  · rename_i he
                    have : hd.1 = [] := by simpa using he
                    rw [this]; rfl
                  · simp [pc_spaced]
                simp only [Delete.flatten, Delete.pieces, cont_cons, cont_append, hkw, Option.toList, List.nil_append,
                  List.append_assoc, pc_append, pc_cons_kwP, pc_nil, e1, h1, h2, h3]
                rw [← List.append_assoc (cont w.1), h4, ← List.append_assoc (cont ret.1), h5,
                  ← List.append_assoc (cont ob.1), h6, h7]
                rfl

-- ------------------------------------------------------------------ CREATE TABLE
theorem pc_tyWordP_kw (sp : Bool) (v : W) (h : (kwLookup v).isSome = true) : pc [tyWordP sp v] = [] := by
  cases hk : kwLookup v with
  | none => simp [hk] at h
  | some k => simp [pc, toksOf, tyWordP, hk, cont, contentOf]

/-- every word `Display for DataType` writes for a keyword-only type is a keyword -/
def tyWordsKw (ts : List SqlVerif.DTy.Tok) : Bool := ts.all fun t => (kwLookup (dtWord t)).isSome

theorem pc_tyWords (ts : List SqlVerif.DTy.Tok) (h : tyWordsKw ts = true) : pc (tyWords ts) = [] := by
  cases ts with
  | nil => rfl
  | cons t rest =>
    simp only [tyWordsKw, List.all_cons, Bool.and_eq_true] at h
    simp only [tyWords]
    have h1 := pc_tyWordP_kw false _ h.1
    have h2 : pc (rest.map fun x => tyWordP true (dtWord x)) = [] := by
      induction rest with
      | nil => rfl
      | cons a b ih =>
        simp only [List.all_cons, Bool.and_eq_true] at h
        have ha := pc_tyWordP_kw true _ h.2.1
        have := ih ⟨h.1, h.2.2⟩
        simp only [List.map_cons]
        have e : pc (tyWordP true (dtWord a) :: b.map fun x => tyWordP true (dtWord x)) =
            pc [tyWordP true (dtWord a)] ++ pc (b.map fun x => tyWordP true (dtWord x)) := by
          rw [← pc_append]; rfl
        rw [e, ha, this]; rfl
    have e : pc (tyWordP false (dtWord t) :: rest.map fun x => tyWordP true (dtWord x)) =
        pc [tyWordP false (dtWord t)] ++ pc (rest.map fun x => tyWordP true (dtWord x)) := by
      rw [← pc_append]; rfl
    rw [e, h1, h2]; rfl

theorem simpleKind_kw : ∀ k : SqlVerif.DTy.SimpleKind, tyWordsKw k.toks = true := by
  intro k; cases k <;> decide +kernel
theorem lenKind_kw : ∀ k : SqlVerif.DTy.LenKind, tyWordsKw k.toks = true := by
  intro k; cases k <;> decide +kernel
theorem intKind_kw : ∀ k : SqlVerif.DTy.IntKind, tyWordsKw [k.tok] = true := by
  intro k; cases k <;> decide +kernel
theorem charKind_kw : ∀ k : SqlVerif.DTy.CharKind, tyWordsKw k.toks = true := by
  intro k; cases k <;> decide +kernel
theorem numKind_kw : ∀ k : SqlVerif.DTy.NumKind, tyWordsKw [k.tok] = true := by
  intro k; cases k <;> decide +kernel
theorem miscWords_kw :
    ([str "UNSIGNED", str "MAX", str "TIMETZ", str "TIMESTAMPTZ", str "TIME", str "TIMESTAMP", str "WITH", str "WITHOUT", str "ZONE"].all
      fun v => (kwLookup v).isSome) = true := by decide +kernel

theorem pc_cons_tyWordP (sp : Bool) (v : W) (h : (kwLookup v).isSome = true) (l : List Piece) :
    pc (tyWordP sp v :: l) = pc l := by
  have : pc (tyWordP sp v :: l) = pc [tyWordP sp v] ++ pc l := by rw [← pc_append]; rfl
  rw [this, pc_tyWordP_kw sp v h]; rfl

theorem pc_tzP (tzi : SqlVerif.DTy.TzInfo) : pc (tzP tzi) = [] := by
  have hm := miscWords_kw
  simp only [List.all_cons, List.all_nil, Bool.and_eq_true, Bool.and_true] at hm
  obtain ⟨_, _, _, _, hT, _, hW, hWo, hZ⟩ := hm
  cases tzi <;> simp only [tzP, SqlVerif.DTy.tzWords, List.map_cons, List.map_nil, dtWord, SqlVerif.DTy.kwTok]
  · rfl
  · simp only [pc_cons_tyWordP _ _ hW, pc_cons_tyWordP _ _ hT, pc_cons_tyWordP _ _ hZ, pc_nil]
  · simp only [pc_cons_tyWordP _ _ hWo, pc_cons_tyWordP _ _ hT, pc_cons_tyWordP _ _ hZ, pc_nil]
  · rfl

/-- a keyword-only type prints without content -/
theorem pc_dtPieces_plain (t : SqlVerif.DTy.DT) (h : typePlain t = true) : pc (dtPiecesD t) = [] := by
  have hm := miscWords_kw
  simp only [List.all_cons, List.all_nil, Bool.and_eq_true, Bool.and_true] at hm
  obtain ⟨hU, hMax, hTtz, hTstz, hT, hTs, _, _, _⟩ := hm
  cases t with
  | simple k => simp [dtPiecesD, dtPieces, pc_tyWords _ (simpleKind_kw k)]
  | withLen k l =>
    cases l with
    | none => simp [dtPiecesD, dtPieces, optLenP, pc_tyWords _ (lenKind_kw k)]
    | some n => simp [typePlain] at h
  | int k l u =>
    cases l with
    | none =>
      cases u with
      | false => simp [dtPiecesD, dtPieces, optLenP, pc_tyWords _ (intKind_kw k)]
      | true => simp [dtPiecesD, dtPieces, optLenP, pc_append, pc_tyWords _ (intKind_kw k), pc_cons_tyWordP _ _ hU, pc_nil]
    | some n => simp [typePlain] at h
  | charLike k l =>
    cases l with
    | none => simp [dtPiecesD, dtPieces, charLenP, pc_tyWords _ (charKind_kw k)]
    | some cl =>
      cases cl with
      | max =>
        simp only [dtPiecesD, dtPieces, charLenP, Option.getD_some, pc_append, pc_tyWords _ (charKind_kw k), List.nil_append,
          pc_cons_symP, pc_cons_tyWordP _ _ hMax, pc_symP, pc_nil]
      | int n u => simp [typePlain] at h
  | exactNum k i =>
    cases i with
    | none => simp [dtPiecesD, dtPieces, numInfoP, pc_tyWords _ (numKind_kw k)]
    | _ => simp [typePlain] at h
  | time k p tzi =>
    cases p with
    | some n => simp [typePlain] at h
    | none =>
      cases k <;> cases tzi <;>
        simp only [dtPiecesD, dtPieces, optLenP, Option.getD_some, List.nil_append, List.append_nil,
          pc_cons_tyWordP _ _ hT, pc_cons_tyWordP _ _ hTs, pc_cons_tyWordP _ _ hTtz, pc_cons_tyWordP _ _ hTstz, pc_tzP, pc_nil]
  | _ => simp [typePlain] at h


theorem pc_noneOpts : ∀ (l : List ColOpt), (∀ o ∈ l, cont o.flatten = pc o.pieces) →
    cont (optsFlat l) = pc (l.map ColOpt.pieces).flatten := by
  intro l
  induction l with
  | nil => intro _; rfl
  | cons o rest ih =>
    intro h
    simp only [optsFlat, List.map_cons, List.flatten_cons, cont_append, pc_append]
    rw [h o (by simp), ih (fun x hx => h x (by simp [hx]))]

theorem dialectOpt_content (ok : Bool) (t : Tok) (ht : ∃ k, t.isKw k = true) (r : List Tok) (o : OptRes) (rest : List Tok)
    (h : dialectOpt ok t r = .ok (o, rest)) :
    match o with
    | .opt co => cont co.flatten = pc co.pieces
    | .none dr => cont dr = [] := by
  obtain ⟨k, hk⟩ := ht
  have hc := isKw_content hk
  unfold dialectOpt at h
  split at h
  · simp at h; obtain ⟨rfl, rfl⟩ := h
    simp only [ColOpt.flatten, ColOpt.pieces, cont_cons, hc, Option.toList, cont_nil, List.nil_append]
    unfold Tok.isKw at hk
    split at hk
    · simp [pc, toksOf, kwTi, cont, contentOf]
    · simp at hk
  · split at h
    · simp at h
    · simp at h; obtain ⟨rfl, rfl⟩ := h
      simp [cont_cons, hc, cont_nil]

/-- content of what an option attempt consumed -/
def OptRes.ContOK : OptRes → Prop
  | .opt co => cont co.flatten = pc co.pieces
  | .none dr => cont dr = []

theorem colOptionTail_content (c : DCfg) (ts : List Tok) (o : OptRes) (rest : List Tok)
    (h : colOptionTail c ts = .ok (o, rest)) : o.ContOK := by
  unfold colOptionTail at h
  split at h
  · rename_i t r hk
    have := dialectOpt_content _ _ ⟨_, ((eatKw_some_iff _ _ _ _).1 hk).2⟩ _ _ _ h
    cases o <;> exact this
  · split at h
    · rename_i t r hk
      have := dialectOpt_content _ _ ⟨_, ((eatKw_some_iff _ _ _ _).1 hk).2⟩ _ _ _ h
      cases o <;> exact this
    · split at h
      · rename_i t r hk
        have := dialectOpt_content _ _ ⟨_, ((eatKw_some_iff _ _ _ _).1 hk).2⟩ _ _ _ h
        cases o <;> exact this
      · split at h
        · rename_i t r hk
          have := dialectOpt_content _ _ ⟨_, ((eatKw_some_iff _ _ _ _).1 hk).2⟩ _ _ _ h
          cases o <;> exact this
        · split at h
          · simp at h
          · simp at h; obtain ⟨rfl, rfl⟩ := h; exact (rfl : cont [] = [])

def OptRes.printable : OptRes → Bool
  | .opt co => co.printable
  | .none _ => true

theorem colOption_content (c : DCfg) (f d : Nat) (ts : List Tok) (o : OptRes) (rest : List Tok)
    (h : colOption c f d ts = .ok (o, rest)) (hp : o.printable = true) : o.ContOK := by
  unfold colOption at h
  split at h
  · simp at h
  · split at h
    · rename_i toks r hk
      simp at h; obtain ⟨rfl, rfl⟩ := h
      simp [OptRes.ContOK, ColOpt.flatten, ColOpt.pieces, eatKws_content _ hk, pc_cons_kwP, pc_nil]
    · split at h
      · rename_i kw r hk
        unfold commentTail at h
        split at h
        · simp at h; obtain ⟨rfl, rfl⟩ := h
          simp only [OptRes.ContOK, ColOpt.flatten, ColOpt.pieces, cont_cons, eatKw_content hk, pc_cons_kwP, Option.toList,
            List.nil_append]
          rfl
        · simp at h
      · split at h
        · rename_i t r hk
          simp at h; obtain ⟨rfl, rfl⟩ := h
          simp [OptRes.ContOK, ColOpt.flatten, ColOpt.pieces, cont_cons, eatKw_content hk, pc_cons_kwP, pc_nil, cont_nil]
        · split at h
          · rename_i kw r hk
            unfold defaultTail at h
            split at h
            · simp at h
            · rename_i e r' he
              simp at h; obtain ⟨rfl, rfl⟩ := h
              simp [OptRes.ContOK, ColOpt.flatten, ColOpt.pieces, cont_cons, eatKw_content hk, pc_cons_kwP, pc_spaced,
                parseE_content _ _ _ _ _ _ he (by simpa [OptRes.printable, ColOpt.printable] using hp)]
          · split at h
            · simp at h
            · split at h
              · rename_i toks r hk
                obtain ⟨rfl, rfl⟩ := ccTail_yield _ _ _ _ h
                simp [OptRes.ContOK, ColOpt.flatten, ColOpt.pieces, eatKws_content _ hk, pc_cons_kwP, pc_nil]
              · split at h
                · rename_i t r hk
                  obtain ⟨rfl, rfl⟩ := ccTail_yield _ _ _ _ h
                  simp [OptRes.ContOK, ColOpt.flatten, ColOpt.pieces, cont_cons, eatKw_content hk, pc_cons_kwP, pc_nil,
                    cont_nil]
                · split at h
                  · rename_i kw r hk
                    unfold referencesTail at h
                    split at h
                    · simp at h
                    · rename_i name r0 hn
                      split at h
                      · simp at h
                      · split at h
                        · simp at h
                        · rename_i cols r1 hc
                          split at h
                          · simp at h
                          · simp at h; obtain ⟨rfl, rfl⟩ := h
                            have h2 := parenIds_content _ _ _ _ _ _ hc
                            have h3 : pc (if cols.ids.isEmpty then [] else spaced (idsParenP cols.ids)) =
                                pc (sepPieces (fun t => [idPiece false t]) cols.ids) := by
                              split
                              · rename_i he
                                have : cols.ids = [] := by simpa using he
                                rw [this]; rfl
                              · simp [pc_spaced, pc_idsParenP]
                            simp only [OptRes.ContOK, ColOpt.flatten, ColOpt.pieces, cont_cons, cont_append, eatKw_content hk,
                              pc_cons_kwP, pc_append, pc_spaced, ← name_content, h2, h3, Option.toList, List.nil_append,
                              List.cons_append]
                  · split at h
                    · rename_i kw r hk
                      unfold checkTail at h
                      split at h
                      · simp at h
                      · rename_i lp r0 hl
                        split at h
                        · simp at h
                        · rename_i e r1 he
                          split at h
                          · simp at h
                          · rename_i rp r2 hr
                            simp at h; obtain ⟨rfl, rfl⟩ := h
                            simp [OptRes.ContOK, ColOpt.flatten, ColOpt.pieces, cont_cons, cont_append, eatKw_content hk,
                              eatSym_content hl, eatSym_content hr, pc_cons_kwP, pc_cons_symP, pc_append, pc_glued,
                              pc_symP, cont_nil, pc_nil,
                              parseE_content _ _ _ _ _ _ he (by simpa [OptRes.printable, ColOpt.printable] using hp)]
                    · exact colOptionTail_content _ _ _ _ h

theorem colOpts_content (c : DCfg) (f d : Nat) : ∀ (n : Nat) (ts : List Tok) (od : List ColOpt × List Tok) (rest : List Tok),
    colOpts c f d n ts = .ok (od, rest) → od.1.all ColOpt.printable = true →
    cont (optsFlat od.1) = pc (od.1.map ColOpt.pieces).flatten ∧ cont od.2 = [] := by
  intro n
  induction n with
  | zero => intro ts od rest h; simp [colOpts] at h
  | succ n ih =>
    intro ts od rest h hp
    simp only [colOpts] at h
    split at h
    · simp at h
    · split at h
      · simp at h
      · rename_i dr r ho
        have h1 := colOption_content _ _ _ _ _ _ ho rfl
        split at h
        · simp at h
        · simp at h; obtain ⟨rfl, rfl⟩ := h
          exact ⟨rfl, h1⟩
      · rename_i o r ho
        split at h
        · simp at h
        · rename_i od' r' hr
          simp at h; obtain ⟨rfl, rfl⟩ := h
          simp only [List.all_cons, Bool.and_eq_true] at hp
          have h1 := colOption_content _ _ _ _ _ _ ho (by simpa [OptRes.printable] using hp.1)
          obtain ⟨h2, h3⟩ := ih _ _ _ hr hp.2
          refine ⟨?_, h3⟩
          simp only [optsFlat, List.map_cons, List.flatten_cons, cont_append, pc_append]
          rw [show cont o.flatten = pc o.pieces from h1, h2]

theorem columnDef_content (c : DCfg) (f d : Nat) (ts : List Tok) (cd : ColDef) (rest : List Tok)
    (h : columnDef c f d ts = .ok (cd, rest)) (hp : cd.printable = true) : cont cd.flatten = pc cd.pieces := by
  unfold columnDef at h
  split at h
  · simp at h
  · rename_i name r hn
    split at h
    · simp at h
    · rename_i ty r1 ht
      split at h
      · simp at h
      · split at h
        · simp at h
        · rename_i od r2 ho
          simp at h; obtain ⟨rfl, rfl⟩ := h
          simp only [ColDef.printable, Bool.and_eq_true] at hp
          obtain ⟨⟨hp1, hp2⟩, hp3⟩ := hp
          obtain ⟨h1, h2⟩ := colOpts_content _ _ _ _ _ _ _ ho hp3
          have hid : pc [idPiece false name] = (contentOf name).toList := by
            simp [pc, toksOf, idPiece_tok, cont_cons, cont_nil]
          simp only [ColDef.flatten, ColDef.pieces, cont_cons, cont_append, pc_append, pc_spaced, cont_of_all_none _ hp2,
            pc_dtPieces_plain _ hp1, h1, h2, hid, List.append_nil, List.nil_append]

theorem colEnd_close_content (tc : Bool) (ts cm : List Tok) (rp : Tok) (r : List Tok) (h : colEnd tc ts = .close cm rp r) :
    cont cm = [] ∧ contentOf rp = none := by
  unfold colEnd at h
  split at h
  · rename_i c1 r1 hc
    split at h
    · rename_i rp' r' he
      split at he
      · simp at h; obtain ⟨rfl, rfl, rfl⟩ := h
        exact ⟨by simp [cont_cons, eatSym_content hc, cont_nil], eatSym_content he⟩
      · simp at he
    · simp at h
  · split at h
    · rename_i rp' r' he
      simp at h; obtain ⟨rfl, rfl, rfl⟩ := h
      exact ⟨rfl, eatSym_content he⟩
    · simp at h

theorem colEnd_more_content (tc : Bool) (ts cm r : List Tok) (h : colEnd tc ts = .more cm r) : cont cm = [] := by
  unfold colEnd at h
  split at h
  · rename_i c1 r1 hc
    split at h
    · simp at h
    · simp at h; obtain ⟨rfl, rfl⟩ := h
      simp [cont_cons, eatSym_content hc, cont_nil]
  · split at h <;> simp at h

theorem colLoop_content (c : DCfg) (f d : Nat) : ∀ (n : Nat) (ts : List Tok) (cr : Sep ColDef × Tok) (rest : List Tok),
    colLoop c f d n ts = .ok (cr, rest) → cr.1.all (fun p => p.1.printable) = true →
    cont (sepFlat ColDef.flatten cr.1) = pc (sepPieces ColDef.pieces cr.1) ∧ contentOf cr.2 = none := by
  intro n
  induction n with
  | zero => intro ts cr rest h; simp [colLoop] at h
  | succ n ih =>
    intro ts cr rest h hp
    simp only [colLoop] at h
    split at h
    · simp at h
    · split at h
      · simp at h
      · split at h
        · simp at h
        · rename_i cd r1 hc
          split at h
          · simp at h
          · rename_i cm rp r2 he
            simp at h; obtain ⟨rfl, rfl⟩ := h
            have hcd := columnDef_content _ _ _ _ _ _ hc (by simpa using hp)
            have := colEnd_close_content _ _ _ _ _ he
            simp [sepFlat, sepPieces, cont_append, hcd, this.1, this.2]
          · rename_i cm r2 he
            split at h
            · simp at h
            · rename_i cr' r3 hr
              simp at h; obtain ⟨rfl, rfl⟩ := h
              simp only [List.all_cons, Bool.and_eq_true] at hp
              have hcd := columnDef_content _ _ _ _ _ _ hc hp.1
              obtain ⟨h2, h3⟩ := ih _ _ _ hr hp.2
              have hcm := colEnd_more_content _ _ _ _ he
              refine ⟨?_, h3⟩
              cases hcr : cr'.1 with
              | nil =>
                rw [hcr] at h2
                simp [sepFlat, sepPieces, cont_append, hcd, hcm]
              | cons q rest2 =>
                rw [hcr] at h2
                simp only [sepFlat, sepPieces, cont_append, pc_append, pc_spaced, pc_symP, hcd, hcm] at h2 ⊢
                simp [h2]


theorem parseColumns_content (c : DCfg) (f d : Nat) (ts : List Tok) (cols : List Tok × Sep ColDef × List Tok) (rest : List Tok)
    (h : parseColumns c f d ts = .ok (cols, rest)) (hp : cols.2.1.all (fun p => p.1.printable) = true) :
    cont (cols.1 ++ sepFlat ColDef.flatten cols.2.1 ++ cols.2.2) = pc (sepPieces ColDef.pieces cols.2.1) := by
  unfold parseColumns at h
  split at h
  · simp at h; obtain ⟨rfl, rfl⟩ := h; rfl
  · rename_i lp r hl
    split at h
    · rename_i rp r' hr
      simp at h; obtain ⟨rfl, rfl⟩ := h
      simp [sepFlat, sepPieces, cont_cons, eatSym_content hl, eatSym_content hr, cont_nil, pc_nil]
    · split at h
      · simp at h
      · rename_i cr r' hc
        simp at h; obtain ⟨rfl, rfl⟩ := h
        obtain ⟨h1, h2⟩ := colLoop_content _ _ _ _ _ _ _ hc hp
        simp [cont_cons, cont_append, eatSym_content hl, h1, h2, cont_nil]

theorem parseCreate_content (c : DCfg) (f d : Nat) (kw : Tok) (hkw : contentOf kw = none) (ts : List Tok) (ct : CreateTable)
    (rest : List Tok) (h : parseCreate c f d kw ts = .ok (ct, rest)) (hp : ct.printable = true) :
    cont ct.flatten = pc ct.pieces := by
  unfold parseCreate at h
  split at h
  · simp at h
  · split at h
    · simp at h
    · split at h
      · simp at h
      · split at h
        · split at h <;> simp at h
        · rename_i tk r0 hk
          split at h
          · simp at h
          · rename_i name r1 hn
            split at h
            · simp at h
            · split at h
              · simp at h
              · split at h
                · simp at h
                · rename_i cols r2 hc
                  split at h
                  · simp at h
                  · simp at h; obtain ⟨rfl, rfl⟩ := h
                    have h2 := parseColumns_content _ _ _ _ _ _ hc (by simpa [CreateTable.printable] using hp)
                    simp only [cont_append] at h2
                    have e1 : pc (if (tempTail ts).1.isEmpty then [] else [kwP true "TEMPORARY"]) = [] := by
                      split <;> rfl
                    have e2 : pc (if (kwsTail [DK.IF, DK.NOT, DK.EXISTS] r0).1.isEmpty then []
                        else [kwP true "IF", kwP true "NOT", kwP true "EXISTS"]) = [] := by
                      split <;> rfl
                    simp only [CreateTable.flatten, CreateTable.pieces, cont_cons, cont_append, hkw, tempTail_content,
                      eatKw_content hk, kwsTail_content, Option.toList, List.nil_append, List.append_assoc, pc_append,
                      pc_cons_kwP, pc_cons_symP, pc_glued, pc_symP, pc_spaced, e1, e2, ← name_content, pc_nil, List.append_nil]
                    rw [← h2]; simp only [List.append_assoc]

theorem parseDrop_content (c : DCfg) (f : Nat) (kw : Tok) (hkw : contentOf kw = none) (ts : List Tok) (dr : Drop)
    (rest : List Tok) (h : parseDrop c f kw ts = .ok (dr, rest)) : cont dr.flatten = pc dr.pieces := by
  unfold parseDrop at h
  split at h
  · simp at h
  · split at h
    · split at h <;> simp at h
    · rename_i tk r0 hk
      split at h
      · simp at h
      · rename_i names r1 hn
        split at h
        · simp at h
        · split at h
          · simp at h
          · simp at h; obtain ⟨rfl, rfl⟩ := h
            have h1 := names_content _ _ _ _ _ hn
            have e0 : pc (if (kwsTail [DK.IF, DK.EXISTS] r0).1.isEmpty then [] else [kwP true "IF", kwP true "EXISTS"]) = [] := by
              split <;> rfl
            have e1 : pc (if (kwTail DK.CASCADE r1).1.isEmpty then [] else [kwP true "CASCADE"]) = [] := by split <;> rfl
            have e2 : pc (if (kwTail DK.RESTRICT (kwTail DK.CASCADE r1).2).1.isEmpty then [] else [kwP true "RESTRICT"]) = [] := by
              split <;> rfl
            have e3 : pc (if (kwTail DK.PURGE (kwTail DK.RESTRICT (kwTail DK.CASCADE r1).2).2).1.isEmpty then []
                else [kwP true "PURGE"]) = [] := by split <;> rfl
            simp only [Drop.flatten, Drop.pieces, cont_cons, cont_append, hkw, eatKw_content hk, kwsTail_content,
              kwTail_content, Option.toList, List.nil_append, List.append_nil, pc_append, pc_cons_kwP, pc_spaced,
              e0, e1, e2, e3, h1, List.append_assoc, pc_nil]

/-- **content**: the content tokens of what a statement parse consumed are those of the printed statement -/
theorem parseStmt_content (c : DCfg) (f limit : Nat) (ts : List Tok) (s : Stmt) (rest : List Tok)
    (h : parseStmt c f limit ts = .ok (s, rest)) (hp : s.printable = true) : cont s.flatten = pc s.pieces := by
  unfold parseStmt at h
  cases limit with
  | zero => simp at h
  | succ d =>
    simp only at h
    cases ts with
    | nil => simp at h
    | cons t r =>
      simp only at h
      split at h
      · obtain ⟨q, hq, rfl⟩ := mapRes_ok h
        exact (content_all c.q f).1 _ _ _ _ hq hp
      · split at h
        · rename_i hk
          obtain ⟨v, hv, rfl⟩ := mapRes_ok h
          exact valuesQuery_content _ _ _ _ (isKw_content hk) _ _ _ hv hp
        · split at h
          · rename_i hk
            obtain ⟨v, hv, rfl⟩ := mapRes_ok h
            exact parseInsert_content _ _ _ _ (isKw_content hk) _ _ _ hv hp
          · split at h
            · rename_i hk
              obtain ⟨v, hv, rfl⟩ := mapRes_ok h
              exact parseUpdate_content _ _ _ _ (isKw_content hk) _ _ _ hv hp
            · split at h
              · rename_i hk
                obtain ⟨v, hv, rfl⟩ := mapRes_ok h
                exact parseDelete_content _ _ _ _ (isKw_content hk) _ _ _ hv hp
              · split at h
                · rename_i hk
                  obtain ⟨v, hv, rfl⟩ := mapRes_ok h
                  exact parseCreate_content _ _ _ _ (isKw_content hk) _ _ _ hv hp
                · split at h
                  · rename_i hk
                    obtain ⟨v, hv, rfl⟩ := mapRes_ok h
                    exact parseDrop_content _ _ _ (isKw_content hk) _ _ _ hv
                  · split at h
                    · obtain ⟨q, hq, rfl⟩ := mapRes_ok h
                      exact (content_all c.q f).1 _ _ _ _ hq hp
                    · simp at h
                    · simp at h

end SqlVerif.Dml

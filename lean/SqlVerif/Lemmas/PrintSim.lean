import SqlVerif.Lemmas.PrintDefs
/-!
The parser model respects `Sim`: on two token lists with the same observable image (`canon`) it
takes the same branches, consumes the same number of tokens and builds trees with the same
observable image.  Head functions first (single-list form `F (ts.map canon)` vs `F ts`), then the
mutual block by simultaneous induction on the fuel.
-/
namespace SqlVerif.Pratt
set_option linter.unusedSimpArgs false

-- ------------------------------------------------------------------ tokens
theorem canon_sym (s : Sym) : canon (.sym s) = .sym (if s = .DoubleEq then .Eq else s) := by
  cases s <;> rfl

theorem canon_idem (t : Tok) : canon (canon t) = canon t := by
  cases t with
  | word v q kw => simp only [canon]; split <;> simp
  | sym s => cases s <;> rfl
  | _ => rfl

theorem canon_kwc (t : Tok) : (canon t).kwc = t.kwc := by
  cases t with
  | sym s => cases s <;> rfl
  | word v q kw => cases kw <;> rfl
  | _ => rfl

theorem canon_isKw (t : Tok) (k : Nat) : (canon t).isKw k = t.isKw k := by
  cases t with
  | sym s => cases s <;> rfl
  | word v q kw => cases kw <;> rfl
  | _ => rfl

theorem canon_isSym (t : Tok) (s : Sym) (h1 : s ≠ .Eq) (h2 : s ≠ .DoubleEq) : (canon t).isSym s = t.isSym s := by
  cases t with
  | sym x =>
    rw [canon_sym]
    simp only [Tok.isSym]
    split
    · rename_i hx; subst hx
      cases s <;> first | rfl | exact absurd rfl h1 | exact absurd rfl h2
    · rfl
  | _ => rfl

theorem sim_nil_left {b : List Tok} (h : Sim [] b) : b = [] := by
  cases b <;> simp [Sim] at h ⊢

theorem sim_cons_left {t : Tok} {r b : List Tok} (h : Sim (t :: r) b) :
    ∃ t' r', b = t' :: r' ∧ canon t' = canon t ∧ Sim r r' := by
  cases b with
  | nil => simp [Sim] at h
  | cons t' r' =>
    simp [Sim] at h
    exact ⟨t', r', rfl, h.1.symm, h.2⟩

theorem Sim.refl (a : List Tok) : Sim a a := rfl
theorem Sim.symm {a b : List Tok} (h : Sim a b) : Sim b a := Eq.symm h
theorem sim_map_canon (a : List Tok) : Sim (a.map canon) a := by
  simp [Sim, Function.comp_def, canon_idem]


def okOf {α : Type} : Except Err α → Option α
  | .ok a => some a
  | .error _ => none

@[simp] theorem okOf_ok {α : Type} (a : α) : okOf (.ok a : Except Err α) = some a := rfl
@[simp] theorem okOf_error {α : Type} (e : Err) : okOf (.error e : Except Err α) = none := rfl

def PrefixPlan.mapT (m : Tok → Tok) : PrefixPlan → PrefixPlan
  | .atom k toks rest => .atom k (toks.map m) (rest.map m)
  | .pre o t p rest => .pre o (m t) p (rest.map m)
  | .paren rest => .paren (rest.map m)

theorem canon_word (v : W) (q kw : Option Nat) :
    canon (.word v q kw) = .word (if v.head? == some 95 then [95] else []) none kw := rfl

theorem compoundTail_canon_aux (n : Nat) : ∀ (ts acc : List Tok), ts.length ≤ n →
    okOf (compoundTail (acc.map canon) (ts.map canon)) =
      (okOf (compoundTail acc ts)).map (fun p => (p.1.map canon, p.2.map canon)) := by
  induction n with
  | zero =>
    intro ts acc h
    cases ts with
    | nil => simp [compoundTail]
    | cons _ _ => simp at h
  | succ n ih =>
    intro ts acc h
    cases ts with
    | nil => simp [compoundTail]
    | cons t rest =>
      have key : ∀ rest' : List Tok, rest = .sym .Period :: rest' →
          okOf (compoundTail ((acc ++ [t, .sym .Period]).map canon) (rest'.map canon)) =
          (okOf (compoundTail (acc ++ [t, .sym .Period]) rest')).map (fun p => (p.1.map canon, p.2.map canon)) := by
        intro rest' hr
        apply ih
        subst hr
        simp at h
        omega
      cases t with
      | word v q kw =>
        cases rest with
        | nil => simp [compoundTail, canon_word]
        | cons t2 rest2 =>
          cases t2 with
          | sym s =>
            cases s <;> first
              | (have := key rest2 rfl; simpa [compoundTail, canon_word, canon_sym] using this)
              | simp [compoundTail, canon_word, canon_sym]
          | word v2 q2 k2 => simp [compoundTail, canon_word]
          | _ => simp [compoundTail, canon_word, canon]
      | sqs x =>
        cases rest with
        | nil => simp [compoundTail, canon]
        | cons t2 rest2 =>
          cases t2 with
          | sym s =>
            cases s <;> first
              | (have := key rest2 rfl; simpa [compoundTail, canon, canon_sym] using this)
              | simp [compoundTail, canon, canon_sym]
          | word v2 q2 k2 => simp [compoundTail, canon_word, canon]
          | _ => simp [compoundTail, canon]
      | sym s => cases s <;> simp [compoundTail, canon_sym]
      | _ => simp [compoundTail, canon]


theorem compoundTail_canon (acc ts : List Tok) :
    okOf (compoundTail (acc.map canon) (ts.map canon)) =
      (okOf (compoundTail acc ts)).map (fun p => (p.1.map canon, p.2.map canon)) :=
  compoundTail_canon_aux ts.length ts acc (Nat.le_refl _)

def cv (v : W) : W := if v.head? == some 95 then [95] else []

theorem cv_head (v : W) : ((cv v).head? == some 95) = (v.head? == some 95) := by
  unfold cv; split <;> simp_all

theorem peekSym_canon (ts : List Tok) (s : Sym) (h1 : s ≠ .Eq) (h2 : s ≠ .DoubleEq) :
    peekSym (ts.map canon) s = peekSym ts s := by
  cases ts <;> simp [peekSym, canon_isSym _ _ h1 h2]

theorem peekKw_canon (ts : List Tok) (k : Nat) : peekKw (ts.map canon) k = peekKw ts k := by
  cases ts <;> simp [peekKw, canon_isKw]

theorem wordTail_canon (c : Cfg) (v : W) (q kw : Option Nat) (rest : List Tok) :
    okOf (wordTail c (canon (.word v q kw)) (cv v) (rest.map canon)) =
      (okOf (wordTail c (.word v q kw) v rest)).map (·.mapT canon) := by
  cases rest with
  | nil => simp [wordTail, PrefixPlan.mapT]
  | cons t2 rest2 =>
    cases t2 with
    | sym s =>
      by_cases hp : s = .Period
      · subst hp
        have := compoundTail_canon [.word v q kw, .sym .Period] rest2
        simp only [wordTail, List.map_cons, canon_sym]
        simp only [List.map_cons, List.map_nil, canon_sym] at this
        simp only [if_neg (by decide : ¬ (Sym.Period = Sym.DoubleEq))] at this ⊢
        cases h1 : compoundTail [.word v q kw, .sym .Period] rest2 with
        | error e =>
          rw [h1] at this
          cases h2 : compoundTail [canon (.word v q kw), .sym .Period] (rest2.map canon) with
          | error e2 => simp
          | ok p => rw [h2] at this; simp at this
        | ok p =>
          rw [h1] at this
          cases h2 : compoundTail [canon (.word v q kw), .sym .Period] (rest2.map canon) with
          | error e2 => rw [h2] at this; simp at this
          | ok p2 =>
            rw [h2] at this
            simp at this
            obtain ⟨a, b⟩ := p
            obtain ⟨a2, b2⟩ := p2
            simp at this
            obtain ⟨rfl, rfl⟩ := this
            simp only [peekSym_canon _ _ (by decide : Sym.LParen ≠ .Eq) (by decide : Sym.LParen ≠ .DoubleEq)]
            split <;> simp [PrefixPlan.mapT]
      · cases s <;> first
          | exact absurd rfl hp
          | (simp [wordTail, canon_sym, PrefixPlan.mapT]; try (split <;> simp [PrefixPlan.mapT, canon_sym]))
    | word v2 q2 k2 => simp [wordTail, canon_word, PrefixPlan.mapT]
    | sqs x => simp [wordTail, canon, cv_head, PrefixPlan.mapT]; split <;> simp_all [PrefixPlan.mapT, canon]
    | dqs x => simp [wordTail, canon, cv_head, PrefixPlan.mapT]; split <;> simp_all [PrefixPlan.mapT, canon]
    | other a b => simp [wordTail, canon, cv_head, PrefixPlan.mapT]; split <;> simp_all [PrefixPlan.mapT, canon]
    | _ => simp [wordTail, canon, PrefixPlan.mapT]


theorem subQueryAhead_canon (ts : List Tok) : subQueryAhead (ts.map canon) = subQueryAhead ts := by
  simp [subQueryAhead, peekKw_canon]

theorem dropWhile_canon (ts : List Tok) :
    (ts.map canon).dropWhile (fun t => !t.isSym .RParen) = (ts.dropWhile (fun t => !t.isSym .RParen)).map canon := by
  induction ts with
  | nil => rfl
  | cons t r ih =>
    simp only [List.map_cons, List.dropWhile_cons, canon_isSym t .RParen (by decide) (by decide)]
    split <;> simp_all

theorem lambdaAhead_canon (ts : List Tok) : lambdaAhead (ts.map canon) = lambdaAhead ts := by
  unfold lambdaAhead
  rw [dropWhile_canon]
  cases ts.dropWhile (fun t => !t.isSym .RParen) with
  | nil => rfl
  | cons a r =>
    cases r with
    | nil => rfl
    | cons b r2 => simp [canon_isSym b .Arrow (by decide) (by decide)]

theorem prefixHead_canon (c : Cfg) (ts : List Tok) :
    okOf (prefixHead c (ts.map canon)) = (okOf (prefixHead c ts)).map (·.mapT canon) := by
  cases ts with
  | nil => simp [prefixHead]
  | cons t rest =>
    cases t with
    | word v q kw =>
      cases kw with
      | none => simpa [prefixHead, canon_word, cv] using wordTail_canon c v q none rest
      | some k =>
        have hw := wordTail_canon c v q (some k) rest
        simp only [List.map_cons, canon_word, prefixHead] at hw ⊢
        split
        · simp [PrefixPlan.mapT, canon_word]
        split
        · simp [PrefixPlan.mapT, canon_word]
        split
        · simp [PrefixPlan.mapT, canon_word]
        split
        · rw [peekKw_canon]; split <;> simp [PrefixPlan.mapT, canon_word]
        split
        · simpa [cv] using hw
        · simp
    | number x l => simp [prefixHead, canon, PrefixPlan.mapT]
    | sqs x => simp [prefixHead, canon, PrefixPlan.mapT]
    | dqs x => simp [prefixHead, canon, PrefixPlan.mapT]
    | placeholder x => simp [prefixHead, canon, PrefixPlan.mapT]
    | customOp x => simp [prefixHead, canon]
    | other a b => simp [prefixHead, canon]
    | sym s =>
      cases s <;> simp [prefixHead, canon_sym, PrefixPlan.mapT, subQueryAhead_canon, lambdaAhead_canon]
      case LParen => (repeat' split) <;> simp_all [PrefixPlan.mapT]
      case Tilde => split <;> simp [PrefixPlan.mapT, canon_sym]
      case DoubleExclamationMark => split <;> simp [PrefixPlan.mapT, canon_sym]
      case PGSquareRoot => split <;> simp [PrefixPlan.mapT, canon_sym]
      case PGCubeRoot => split <;> simp [PrefixPlan.mapT, canon_sym]
      case Colon =>
        cases rest with
        | nil => simp
        | cons t2 r2 =>
          cases t2 with
          | sym x => cases x <;> simp [canon_sym, PrefixPlan.mapT]
          | number a l => cases l <;> simp [canon, PrefixPlan.mapT, canon_sym]
          | word a b d => simp [canon_word, PrefixPlan.mapT, canon_sym]
          | _ => simp [canon]
      case AtSign =>
        split
        · simp [PrefixPlan.mapT, canon_sym]
        · cases rest with
          | nil => simp
          | cons t2 r2 =>
            cases t2 with
            | sym x => cases x <;> simp [canon_sym, PrefixPlan.mapT]
            | number a l => cases l <;> simp [canon, PrefixPlan.mapT, canon_sym]
            | word a b d => simp [canon_word, PrefixPlan.mapT, canon_sym]
            | _ => simp [canon]


theorem peekKwc_canon (ts : List Tok) : peekKwc (ts.map canon) = peekKwc ts := by
  cases ts <;> simp [peekKwc, canon_kwc]

theorem nextPrecDefault_canon (c : Cfg) (ts : List Tok) :
    nextPrecDefault c (ts.map canon) = nextPrecDefault c ts := by
  cases ts with
  | nil => rfl
  | cons t rest =>
    cases t with
    | sym s => cases s <;> rfl
    | word v q kw =>
      simp only [List.map_cons, nextPrecDefault, canon_word]
      have hk : (Tok.word (if (v.head? == some 95) = true then [95] else []) none kw).kwc = (Tok.word v q kw).kwc := by
        cases kw <;> rfl
      rw [hk, peekKwc_canon]
      split <;> try rfl
      cases rest with
      | nil => rfl
      | cons t1 r1 =>
        cases r1 with
        | nil => rfl
        | cons t2 r2 => simp [canon_isKw]
    | _ => rfl

theorem pgOverride_canon (c : Cfg) (ts : List Tok) : pgOverride c (ts.map canon) = pgOverride c ts := by
  cases ts with
  | nil => rfl
  | cons t rest =>
    cases t with
    | sym s => cases s <;> rfl
    | word v q kw => cases kw <;> rfl
    | _ => rfl

theorem nextPrec_canon (c : Cfg) (ts : List Tok) : nextPrec c (ts.map canon) = nextPrec c ts := by
  unfold nextPrec
  rw [pgOverride_canon, nextPrecDefault_canon, peekSym_canon _ _ (by decide) (by decide)]


theorem eatKw_canon (ts : List Tok) (k : Nat) :
    eatKw (ts.map canon) k = (eatKw ts k).map (fun p => (canon p.1, p.2.map canon)) := by
  cases ts with
  | nil => rfl
  | cons t r => simp only [List.map_cons, eatKw, canon_isKw]; split <;> simp

theorem eatKws_map_canon (ks : List Nat) : ∀ ts : List Tok,
    eatKws (ts.map canon) ks = (eatKws ts ks).map (fun p => (p.1.map canon, p.2.map canon)) := by
  induction ks with
  | nil => intro ts; simp [eatKws]
  | cons k ks ih =>
    intro ts
    simp only [eatKws, eatKw_canon]
    cases h : eatKw ts k with
    | none => simp
    | some p =>
      obtain ⟨t, r⟩ := p
      simp only [Option.map_some, ih]
      cases h2 : eatKws r ks with
      | none => simp
      | some p2 => obtain ⟨a, b⟩ := p2; simp

def IsPlan.mapT (m : Tok → Tok) : IsPlan → IsPlan
  | .post k ops rest => .post k (ops.map m) (rest.map m)
  | .distinct neg ops rest => .distinct neg (ops.map m) (rest.map m)

theorem isTail_canon (ts : List Tok) : isTail (ts.map canon) = (isTail ts).map (IsPlan.mapT canon) := by
  unfold isTail
  simp only [eatKws_map_canon]
  repeat' split
  all_goals simp_all [IsPlan.mapT]


def InfixPlan.mapT (m : Tok → Tok) : InfixPlan → InfixPlan
  | .right k ops rest p => .right k (ops.map m) (rest.map m) p
  | .post k ops rest => .post k (ops.map m) (rest.map m)
  | .like k neg any ops rest => .like k neg any (ops.map m) (rest.map m)
  | .between neg ops rest => .between neg (ops.map m) (rest.map m)
  | .inl neg ops rest => .inl neg (ops.map m) (rest.map m)
  | .quant o qk ops rest p => .quant o qk (ops.map m) (rest.map m) p

theorem head?_canon (ts : List Tok) : (ts.map canon).head? = ts.head?.map canon := by
  cases ts <;> rfl

theorem notFamilyTail_canon (c : Cfg) (neg : Bool) (pre ts : List Tok) :
    okOf (notFamilyTail c neg (pre.map canon) (ts.map canon)) =
      (okOf (notFamilyTail c neg pre ts)).map (·.mapT canon) := by
  cases ts with
  | nil => simp [notFamilyTail]
  | cons t1 r1 =>
    simp only [List.map_cons, notFamilyTail, canon_kwc]
    split
    · -- regexp
      cases r1 with
      | nil => simp [InfixPlan.mapT]
      | cons t2 r2 => simp only [List.map_cons, canon_kwc]; split <;> simp [InfixPlan.mapT]
    · simp [InfixPlan.mapT]
    · -- in
      rw [peekKw_canon]
      split
      · simp
      · cases r1 with
        | nil => simp
        | cons t2 r2 =>
          cases t2 with
          | sym s => cases s <;> simp [canon_sym, subQueryAhead_canon, InfixPlan.mapT] <;> (split <;> simp [InfixPlan.mapT, canon_sym])
          | word v q kw => simp [canon_word]
          | _ => simp [canon]
    · simp [InfixPlan.mapT]
    · simp only [eatKw_canon]; cases eatKw r1 KW.ANY with
      | none => simp [InfixPlan.mapT]
      | some p => simp [InfixPlan.mapT]
    · simp only [eatKw_canon]; cases eatKw r1 KW.ANY with
      | none => simp [InfixPlan.mapT]
      | some p => simp [InfixPlan.mapT]
    · simp only [eatKw_canon]; cases eatKw r1 KW.TO with
      | none => simp [InfixPlan.mapT]
      | some p => simp [InfixPlan.mapT]
    · simp


theorem binOpOf_canon (c : Cfg) (t : Tok) : binOpOf c (canon t) = binOpOf c t := by
  cases t with
  | sym s => cases s <;> rfl
  | word v q kw => cases kw <;> rfl
  | _ => rfl

theorem typeContinues_canon (ts : List Tok) : typeContinues (ts.map canon) = typeContinues ts := by
  simp [typeContinues, peekKw_canon, peekSym_canon]

theorem infixHead_canon (c : Cfg) (d q : Nat) (ts : List Tok) :
    okOf (infixHead c d q (ts.map canon)) = (okOf (infixHead c d q ts)).map (·.mapT canon) := by
  cases ts with
  | nil => simp [infixHead]
  | cons t rest =>
    simp only [List.map_cons, infixHead, canon_kwc, binOpOf_canon]
    split
    · simp [InfixPlan.mapT]
    · cases hb : binOpOf c t with
      | outside => simp
      | op o =>
        simp only
        cases rest with
        | nil => simp [InfixPlan.mapT]
        | cons t2 rest2 =>
          simp only [List.map_cons, canon_isKw]
          split
          · cases rest2 with
            | nil => simp
            | cons t3 rest3 =>
              cases t3 with
              | sym s => cases s <;> simp [canon_sym, subQueryAhead_canon, InfixPlan.mapT] <;> (split <;> simp [InfixPlan.mapT, canon_sym])
              | word v q kw => simp [canon_word]
              | _ => simp [canon]
          · simp [InfixPlan.mapT]
      | none =>
        simp only
        cases t with
        | word v q kw =>
          simp only [canon_word]
          have hnf := notFamilyTail_canon c false [] (.word v q kw :: rest)
          have hnt := notFamilyTail_canon c true [.word v q kw] rest
          simp only [List.map_cons, List.map_nil, canon_word] at hnf hnt
          split
          · -- IS
            rw [isTail_canon, head?_canon]
            cases isTail rest with
            | none => simp
            | some p => cases p <;> simp [IsPlan.mapT, InfixPlan.mapT, canon_word]
          · -- AT
            cases rest with
            | nil => simp
            | cons t1 r1 =>
              simp only [List.map_cons, canon_isKw]
              split
              · cases r1 with
                | nil => simp
                | cons t2 r2 => simp only [List.map_cons, canon_isKw]; split <;> simp [InfixPlan.mapT, canon_word]
              · simp
          · exact hnt
          all_goals first | exact hnf | simp
        | sym s =>
          cases s <;> simp [canon_sym, InfixPlan.mapT]
          case Colon => split <;> simp
          case DoubleColon =>
            split
            · simp
            · cases rest with
              | nil => simp
              | cons ty rest2 =>
                cases ty with
                | word v q kw =>
                  cases kw with
                  | none => simp [canon_word]
                  | some k => simp only [List.map_cons, canon_word, typeContinues_canon]; split <;> simp [InfixPlan.mapT, canon_sym, canon_word]
                | sym s => cases s <;> simp [canon_sym]
                | _ => simp [canon]
        | _ => simp [canon]


theorem escapeTail_canon (c : Cfg) (ts : List Tok) :
    okOf (escapeTail c (ts.map canon)) =
      (okOf (escapeTail c ts)).map (Option.map (fun p => (p.1.map canon, p.2.map canon))) := by
  simp only [escapeTail, eatKw_canon]
  cases eatKw ts KW.ESCAPE with
  | none => simp
  | some p =>
    obtain ⟨t1, r1⟩ := p
    simp only [Option.map_some]
    cases r1 with
    | nil => simp
    | cons t2 r2 =>
      cases t2 with
      | word v q kw => cases kw <;> simp [canon_word]
      | sym s => cases s <;> simp [canon_sym]
      | _ => simp [canon]

theorem listEndAhead_canon (ts : List Tok) : listEndAhead (ts.map canon) = listEndAhead ts := by
  cases ts with
  | nil => rfl
  | cons t r =>
    cases t with
    | word v q kw => cases kw <;> rfl
    | sym s => cases s <;> rfl
    | _ => rfl

-- ------------------------------------------------------------------ from one list to two
theorem sim_fun {α : Type} (F : List Tok → α) (hF : ∀ ts, F (ts.map canon) = F ts) {a b : List Tok}
    (h : Sim a b) : F a = F b := by
  rw [← hF a, ← hF b, h]

theorem sim_plan {α : Type} (F : List Tok → Except Err α) (M : α → α)
    (hF : ∀ ts, okOf (F (ts.map canon)) = (okOf (F ts)).map M) {a b : List Tok} (h : Sim a b)
    {x : α} (hx : F a = .ok x) : ∃ y, F b = .ok y ∧ M y = M x := by
  have h1 := hF a
  have h2 := hF b
  rw [h, h2, hx] at h1
  cases hb : F b with
  | error e => rw [hb] at h1; simp at h1
  | ok y => rw [hb] at h1; simp at h1; exact ⟨y, rfl, h1⟩


-- ------------------------------------------------------------------ the mutual block
theorem canon_eq_sym {t : Tok} {s : Sym} (h : canon t = canon (.sym s)) (h1 : s ≠ .Eq) (h2 : s ≠ .DoubleEq) :
    t = .sym s := by
  rw [canon_sym, if_neg h2] at h
  cases t with
  | sym x =>
    rw [canon_sym] at h
    split at h
    · simp at h; exact absurd h.symm h1
    · exact h
  | word v q kw => simp [canon_word] at h
  | _ => simp [canon] at h

theorem sim_cons_sym {s : Sym} {r b : List Tok} (h : Sim (.sym s :: r) b) (h1 : s ≠ .Eq) (h2 : s ≠ .DoubleEq) :
    ∃ r', b = .sym s :: r' ∧ Sim r r' := by
  obtain ⟨t', r', rfl, ht, hr⟩ := sim_cons_left h
  exact ⟨r', by rw [canon_eq_sym ht h1 h2], hr⟩

theorem collateCheck_sim {e0 e0' e : Expr} {r r' r2 : List Tok} (h : collateCheck e0 r = .ok (e, r2)) (hs : Sim r r') :
    collateCheck e0' r' = .ok (e0', r') ∧ e = e0 ∧ r2 = r := by
  unfold collateCheck at h ⊢
  rw [← sim_fun (fun ts => peekKw ts KW.COLLATE) (fun ts => peekKw_canon ts _) hs]
  split at h
  · simp at h
  · simp at h; obtain ⟨rfl, rfl⟩ := h; simp_all

theorem eatKw_sim {a b : List Tok} {k : Nat} {t : Tok} {r : List Tok} (hs : Sim a b) (h : eatKw a k = some (t, r)) :
    ∃ t' r', eatKw b k = some (t', r') ∧ canon t' = canon t ∧ Sim r r' := by
  obtain ⟨rfl, hk⟩ := (eatKw_some_iff _ _ _ _).1 h
  obtain ⟨t', r', rfl, ht, hr⟩ := sim_cons_left hs
  refine ⟨t', r', ?_, ht, hr⟩
  have : t'.isKw k = true := by rw [← canon_isKw, ht, canon_isKw]; exact hk
  simp [eatKw, this]

theorem eatKw_sim_none {a b : List Tok} {k : Nat} (hs : Sim a b) (h : eatKw a k = none) : eatKw b k = none := by
  have h1 := eatKw_canon a k
  have h2 := eatKw_canon b k
  rw [hs, h2, h] at h1
  cases hb : eatKw b k with
  | none => rfl
  | some p => rw [hb] at h1; simp at h1

theorem sim_all (c : Cfg) (f : Nat) :
    (∀ d p ts ts' e rest, Sim ts ts' → parseSubexpr c f d p ts = .ok (e, rest) →
      ∃ e' rest', parseSubexpr c f d p ts' = .ok (e', rest') ∧ e'.mapT canon = e.mapT canon ∧ Sim rest rest') ∧
    (∀ d p e0 e0' ts ts' e rest, e0'.mapT canon = e0.mapT canon → Sim ts ts' → loop c f d p e0 ts = .ok (e, rest) →
      ∃ e' rest', loop c f d p e0' ts' = .ok (e', rest') ∧ e'.mapT canon = e.mapT canon ∧ Sim rest rest') ∧
    (∀ d ts ts' e rest, Sim ts ts' → parsePrefix c f d ts = .ok (e, rest) →
      ∃ e' rest', parsePrefix c f d ts' = .ok (e', rest') ∧ e'.mapT canon = e.mapT canon ∧ Sim rest rest') ∧
    (∀ d e0 e0' q ts ts' e rest, e0'.mapT canon = e0.mapT canon → Sim ts ts' → parseInfix c f d e0 q ts = .ok (e, rest) →
      ∃ e' rest', parseInfix c f d e0' q ts' = .ok (e', rest') ∧ e'.mapT canon = e.mapT canon ∧ Sim rest rest') ∧
    (∀ d ts ts' e rest, Sim ts ts' → parseItems c f d ts = .ok (e, rest) →
      ∃ e' rest', parseItems c f d ts' = .ok (e', rest') ∧ e'.mapT canon = e.mapT canon ∧ Sim rest rest') := by
  induction f with
  | zero => simp [parseSubexpr, loop, parsePrefix, parseInfix, parseItems]
  | succ f ih =>
    obtain ⟨ihS, ihL, ihP, ihI, ihT⟩ := ih
    refine ⟨?_, ?_, ?_, ?_, ?_⟩
    · -- parseSubexpr
      intro d p ts ts' e rest hs h
      cases d with
      | zero => simp [parseSubexpr] at h
      | succ d =>
        simp only [parseSubexpr] at h ⊢
        split at h
        · simp at h
        · rename_i e0 ts1 hp
          obtain ⟨e0', ts1', hp', he0, hs1⟩ := ihP _ _ _ _ _ hs hp
          simp only [hp']
          exact ihL _ _ _ _ _ _ _ _ he0 hs1 h
    · -- loop
      intro d p e0 e0' ts ts' e rest he0 hs h
      simp only [loop] at h ⊢
      have hn : nextPrec c ts' = nextPrec c ts := (sim_fun (nextPrec c) (nextPrec_canon c) hs).symm
      rw [hn]
      split at h
      · rename_i hge
        simp at h; obtain ⟨rfl, rfl⟩ := h
        rw [if_pos hge]
        exact ⟨e0', ts', rfl, he0, hs⟩
      · rename_i hlt
        rw [if_neg hlt]
        split at h
        · simp at h
        · rename_i e1 ts1 hi
          obtain ⟨e1', ts1', hi', he1, hs1⟩ := ihI _ _ _ _ _ _ _ _ he0 hs hi
          simp only [hi']
          exact ihL _ _ _ _ _ _ _ _ he1 hs1 h
    · -- parsePrefix
      intro d ts ts' e rest hs h
      simp only [parsePrefix] at h ⊢
      split at h
      · simp at h
      rename_i hd
      rw [if_neg hd]
      cases hh : prefixHead c ts with
      | error er => simp [hh] at h
      | ok plan =>
        obtain ⟨plan', hp', hm⟩ := sim_plan (prefixHead c) (PrefixPlan.mapT canon) (prefixHead_canon c) hs hh
        rw [hh] at h
        rw [hp']
        cases plan with
        | atom k toks r =>
          cases plan' <;> simp [PrefixPlan.mapT] at hm
          rename_i k' toks' r'
          obtain ⟨rfl, htoks, hr⟩ := hm
          simp only at h ⊢
          obtain ⟨hc, rfl, rfl⟩ := collateCheck_sim (e0' := .atom k' toks') h (Eq.symm hr : Sim r r')
          exact ⟨_, _, hc, by simp [Expr.mapT, htoks], hr.symm⟩
        | pre o t p r =>
          cases plan' <;> simp [PrefixPlan.mapT] at hm
          rename_i o' t' p' r'
          obtain ⟨rfl, ht, rfl, hr⟩ := hm
          simp only at h ⊢
          split at h
          · simp at h
          · rename_i e1 r1 hs1
            obtain ⟨e1', r1', hs1', he1, hr1⟩ := ihS _ _ _ _ _ _ (Eq.symm hr : Sim r r') hs1
            simp only [hs1']
            obtain ⟨hc, rfl, rfl⟩ := collateCheck_sim (e0' := .pre o' t' e1') h hr1
            exact ⟨_, _, hc, by simp [Expr.mapT, ht, he1], hr1⟩
        | paren r =>
          cases plan' <;> simp [PrefixPlan.mapT] at hm
          rename_i r'
          simp only at h ⊢
          split at h
          · simp at h
          · rename_i e1 r1 hs1
            obtain ⟨e1', r1', hs1', he1, hr1⟩ := ihS _ _ _ _ _ _ (Eq.symm hm : Sim r r') hs1
            simp only [hs1']
            split at h
            · simp at h
            · rename_i r2
              obtain ⟨r2', rfl, hr2⟩ := sim_cons_sym hr1 (by decide) (by decide)
              simp only
              rw [← sim_fun (fun ts => peekSym ts .Period) (fun ts => peekSym_canon ts _ (by decide) (by decide)) hr2]
              split at h
              · simp at h
              · rename_i hper
                rw [if_neg hper]
                obtain ⟨hc, rfl, rfl⟩ := collateCheck_sim (e0' := .nested e1') h hr2
                exact ⟨_, _, hc, by simp [Expr.mapT, he1], hr2⟩
            · simp at h
    · -- parseInfix
      intro d e0 e0' q ts ts' e rest he0 hs h
      simp only [parseInfix] at h ⊢
      cases hh : infixHead c d q ts with
      | error er => simp [hh] at h
      | ok plan =>
        obtain ⟨plan', hp', hm⟩ := sim_plan (infixHead c d q) (InfixPlan.mapT canon) (infixHead_canon c d q) hs hh
        rw [hh] at h
        rw [hp']
        cases plan with
        | right k ops r p =>
          cases plan' <;> simp [InfixPlan.mapT] at hm
          rename_i k' ops' r' p'
          obtain ⟨rfl, hops, hr, rfl⟩ := hm
          simp only at h ⊢
          split at h
          · simp at h
          · rename_i e1 r1 hs1
            obtain ⟨e1', r1', hs1', he1, hr1⟩ := ihS _ _ _ _ _ _ (Eq.symm hr : Sim r r') hs1
            simp only [hs1']
            simp at h; obtain ⟨rfl, rfl⟩ := h
            exact ⟨_, _, rfl, by simp [Expr.mapT, he0, hops, he1], hr1⟩
        | post k ops r =>
          cases plan' <;> simp [InfixPlan.mapT] at hm
          rename_i k' ops' r'
          obtain ⟨rfl, hops, hr⟩ := hm
          simp only at h ⊢
          simp at h; obtain ⟨rfl, rfl⟩ := h
          exact ⟨_, _, rfl, by simp [Expr.mapT, he0, hops], hr.symm⟩
        | like k neg any ops r =>
          cases plan' <;> simp [InfixPlan.mapT] at hm
          rename_i k' neg' any' ops' r'
          obtain ⟨rfl, rfl, rfl, hops, hr⟩ := hm
          simp only at h ⊢
          split at h
          · simp at h
          · rename_i e1 r1 hs1
            obtain ⟨e1', r1', hs1', he1, hr1⟩ := ihS _ _ _ _ _ _ (Eq.symm hr : Sim r r') hs1
            simp only [hs1']
            cases hesc : escapeTail c r1 with
            | error er => simp [hesc] at h
            | ok x =>
              obtain ⟨y, hy, hxy⟩ := sim_plan (escapeTail c) _ (escapeTail_canon c) hr1 hesc
              rw [hesc] at h
              rw [hy]
              cases x with
              | none =>
                cases y <;> simp at hxy
                simp at h; obtain ⟨rfl, rfl⟩ := h
                exact ⟨_, _, rfl, by simp [Expr.mapT, he0, hops, he1], hr1⟩
              | some pr =>
                cases y with
                | none => simp at hxy
                | some pr' =>
                  obtain ⟨esc, r2⟩ := pr
                  obtain ⟨esc', r2'⟩ := pr'
                  simp at hxy
                  simp at h; obtain ⟨rfl, rfl⟩ := h
                  exact ⟨_, _, rfl, by simp [Expr.mapT, he0, hops, he1, hxy.1], hxy.2.symm⟩
        | between neg ops r =>
          cases plan' <;> simp [InfixPlan.mapT] at hm
          rename_i neg' ops' r'
          obtain ⟨rfl, hops, hr⟩ := hm
          simp only at h ⊢
          split at h
          · simp at h
          · rename_i e1 r1 hs1
            obtain ⟨e1', r1', hs1', he1, hr1⟩ := ihS _ _ _ _ _ _ (Eq.symm hr : Sim r r') hs1
            simp only [hs1']
            split at h
            · simp at h
            · rename_i andTok r2 ha
              obtain ⟨andTok', r2', ha', hat, hr2⟩ := eatKw_sim hr1 ha
              simp only [ha']
              split at h
              · simp at h
              · rename_i e2 r3 hs2
                obtain ⟨e2', r3', hs2', he2, hr3⟩ := ihS _ _ _ _ _ _ hr2 hs2
                simp only [hs2']
                simp at h; obtain ⟨rfl, rfl⟩ := h
                exact ⟨_, _, rfl, by simp [Expr.mapT, he0, hops, he1, he2, hat], hr3⟩
        | inl neg ops r =>
          cases plan' <;> simp [InfixPlan.mapT] at hm
          rename_i neg' ops' r'
          obtain ⟨rfl, hops, hr0⟩ := hm
          have hr : Sim r r' := Eq.symm hr0
          clear hr0
          simp only at h ⊢
          rw [← sim_fun (fun ts => peekSym ts .Comma) (fun ts => peekSym_canon ts _ (by decide) (by decide)) hr]
          split at h
          · simp at h
          · rename_i hcomma
            rw [if_neg hcomma]
            split at h
            · -- empty list
              rename_i _ _ r2 hemp
              obtain ⟨r2', rfl, hr2⟩ := sim_cons_sym hr (by decide) (by decide)
              simp at h; obtain ⟨rfl, rfl⟩ := h
              simp only [hemp]
              exact ⟨_, _, rfl, by simp [Expr.mapT, he0, hops], hr2⟩
            · rename_i hne
              split
              · rename_i _ _ r2' hemp
                obtain ⟨r2, hr2eq, _⟩ := sim_cons_sym hr.symm (by decide) (by decide)
                exact absurd hr2eq (hne r2 hemp)
              · split at h
                · simp at h
                · rename_i items r1 ht
                  obtain ⟨items', r1', ht', hit, hr1⟩ := ihT _ _ _ _ _ hr ht
                  simp only [ht']
                  split at h
                  · rename_i r2
                    obtain ⟨r2', rfl, hr2⟩ := sim_cons_sym hr1 (by decide) (by decide)
                    simp at h; obtain ⟨rfl, rfl⟩ := h
                    exact ⟨_, _, rfl, by simp [Expr.mapT, he0, hops, hit], hr2⟩
                  · simp at h
        | quant o qk ops r p =>
          cases plan' <;> simp [InfixPlan.mapT] at hm
          rename_i o' qk' ops' r' p'
          obtain ⟨rfl, rfl, hops, hr, rfl⟩ := hm
          simp only at h ⊢
          split at h
          · simp at h
          · rename_i e1 r1 hs1
            obtain ⟨e1', r1', hs1', he1, hr1⟩ := ihS _ _ _ _ _ _ (Eq.symm hr : Sim r r') hs1
            simp only [hs1']
            split at h
            · rename_i r2
              obtain ⟨r2', rfl, hr2⟩ := sim_cons_sym hr1 (by decide) (by decide)
              simp only
              split at h
              · rename_i hcmp
                rw [if_pos hcmp]
                simp at h; obtain ⟨rfl, rfl⟩ := h
                exact ⟨_, _, rfl, by simp [Expr.mapT, he0, hops, he1], hr2⟩
              · simp at h
            · simp at h
    · -- parseItems
      intro d ts ts' e rest hs h
      simp only [parseItems] at h ⊢
      split at h
      · simp at h
      · rename_i e1 r1 hs1
        obtain ⟨e1', r1', hs1', he1, hr1⟩ := ihS _ _ _ _ _ _ hs hs1
        simp only [hs1']
        split at h
        · rename_i r2
          obtain ⟨r2', rfl, hr2⟩ := sim_cons_sym hr1 (by decide) (by decide)
          simp only
          rw [← sim_fun listEndAhead listEndAhead_canon hr2]
          split at h
          · simp at h
          · rename_i hle
            rw [if_neg hle]
            split at h
            · simp at h
            · rename_i items r3 ht
              obtain ⟨items', r3', ht', hit, hr3⟩ := ihT _ _ _ _ _ hr2 ht
              simp only [ht']
              simp at h; obtain ⟨rfl, rfl⟩ := h
              exact ⟨_, _, rfl, by simp [Expr.mapT, he1, hit, canon_sym], hr3⟩
        · rename_i hnc
          simp at h; obtain ⟨rfl, rfl⟩ := h
          split
          · rename_i r2'
            obtain ⟨r2, hr2eq, _⟩ := sim_cons_sym hr1.symm (by decide) (by decide)
            exact absurd hr2eq (hnc r2)
          · exact ⟨_, _, rfl, by simp [Expr.mapT, he1], hr1⟩


/-- the parser respects `Sim` -/
theorem parse_sim (c : Cfg) (f d p : Nat) (ts ts' : List Tok) (e : Expr) (rest : List Tok)
    (hs : Sim ts ts') (h : parseSubexpr c f d p ts = .ok (e, rest)) :
    ∃ e' rest', parseSubexpr c f d p ts' = .ok (e', rest') ∧ e'.mapT canon = e.mapT canon ∧ Sim rest rest' :=
  (sim_all c f).1 d p ts ts' e rest hs h

end SqlVerif.Pratt

import SqlVerif.Lemmas.PrattLemmas
/-!
Lemmas for C12 (the recursion limit only surfaces as the limit error).

Part 1: `Spec`, a tiny language of backtracking parsers with a depth guard, in two variants of the
speculative combinator (`maybe_parse` before and after the fix).
Part 2: the Pratt model (`Model/Pratt.lean`): a run under remaining depth `n` either ends in
`Err.rle` or is step for step the run under any `m ≥ n` (simultaneous induction on the fuel).
-/
namespace SqlVerif.Limit

-- ------------------------------------------------------------------ Part 1: abstract combinators
inductive SErr
  | rle
  /-- "Expected …, found …" at the given number of remaining tokens -/
  | mismatch (remaining : Nat)
deriving DecidableEq, Repr

/-- parsers over tokens `Nat`; the value is the list of tags/tokens in the order they were built -/
inductive Prog
  /-- `expect_token(t)` -/
  | tok (t : Nat)
  | seq (a b : Prog)
  /-- `let _guard = self.recursion_counter.try_decrease()?; a` -/
  | guard (a : Prog)
  /-- `match self.maybe_parse(a) { Some(x) => tag 1 x, None => tag 2 b }` -/
  | alt (a b : Prog)
deriving DecidableEq, Repr

abbrev SRes := Except SErr (List Nat × List Nat)

/-- `swallow = true`: the OLD `maybe_parse` (any `Err` ⇒ rewind, "no match");
`swallow = false`: the CURRENT one (`RecursionLimitExceeded` is passed on) -/
def run (swallow : Bool) : Prog → Nat → List Nat → SRes
  | .tok t, _, ts =>
    match ts with
    | x :: r => if x = t then .ok ([t], r) else .error (.mismatch ts.length)
    | [] => .error (.mismatch 0)
  | .seq a b, d, ts =>
    match run swallow a d ts with
    | .error e => .error e
    | .ok (o1, r) =>
      match run swallow b d r with
      | .error e => .error e
      | .ok (o2, r2) => .ok (o1 ++ o2, r2)
  | .guard a, d, ts =>
    match d with
    | 0 => .error .rle
    | d + 1 => run swallow a d ts
  | .alt a b, d, ts =>
    match run swallow a d ts with
    | .ok (o, r) => .ok (1001 :: o, r)
    | .error .rle =>
      if swallow then
        match run swallow b d ts with
        | .ok (o, r) => .ok (1002 :: o, r)
        | .error e => .error e
      else .error .rle
    | .error (.mismatch _) =>
      match run swallow b d ts with
      | .ok (o, r) => .ok (1002 :: o, r)
      | .error e => .error e

def maybePropagate := run false
def maybeSwallow := run true

/-- with the propagating combinator a smaller limit can only turn the outcome into `rle` -/
theorem spec_limit_monotone (p : Prog) : ∀ (n m : Nat) (ts : List Nat), n ≤ m →
    maybePropagate p n ts = .error .rle ∨ maybePropagate p n ts = maybePropagate p m ts := by
  unfold maybePropagate
  induction p with
  | tok t => intro n m ts _; right; simp [run]
  | seq a b iha ihb =>
    intro n m ts h
    simp only [run]
    rcases iha n m ts h with h1 | h1
    · left; rw [h1]
    · rw [h1]
      cases hm : run false a m ts with
      | error e => right; rfl
      | ok v =>
        obtain ⟨o1, r⟩ := v
        simp only
        rcases ihb n m r h with h2 | h2
        · left; rw [h2]
        · right; rw [h2]
  | guard a iha =>
    intro n m ts h
    cases n with
    | zero => left; simp [run]
    | succ n =>
      obtain ⟨m', rfl⟩ : ∃ m', m = m' + 1 := ⟨m - 1, by omega⟩
      simp only [run]
      exact iha n m' ts (by omega)
  | alt a b iha ihb =>
    intro n m ts h
    simp only [run]
    rcases iha n m ts h with h1 | h1
    · left; rw [h1]; simp
    · rw [h1]
      cases hm : run false a m ts with
      | ok v => right; rfl
      | error e =>
        cases e with
        | rle => right; simp
        | mismatch k =>
          simp only
          rcases ihb n m ts h with h2 | h2
          · left; rw [h2]
          · right; rw [h2]

end SqlVerif.Limit

-- ------------------------------------------------------------------ Part 2: the Pratt model
namespace SqlVerif.Pratt

/-- "hits the limit, or is the same outcome" -/
def LimRel (x y : Res) : Prop := x = .error .rle ∨ x = y

theorem LimRel.refl (x : Res) : LimRel x x := Or.inr rfl

/-- the only place where `parse_infix` itself looks at the counter is the `parse_data_type` level of `::` -/
theorem infixHead_pos (c : Cfg) (n m q : Nat) (ts : List Tok) (hn : n ≠ 0) (hm : m ≠ 0) :
    infixHead c n q ts = infixHead c m q ts := by
  unfold infixHead
  simp [hn, hm]

theorem infixHead_mono (c : Cfg) (n m q : Nat) (ts : List Tok) (h : n ≤ m) :
    infixHead c n q ts = .error .rle ∨ infixHead c n q ts = infixHead c m q ts := by
  by_cases hn : n = 0
  · subst hn
    by_cases hm : m = 0
    · subst hm; exact Or.inr rfl
    · unfold infixHead
      repeat' split
      all_goals simp_all
  · exact Or.inr (infixHead_pos c n m q ts hn (by omega))

theorem mono_all (c : Cfg) (f : Nat) :
    (∀ n m p ts, n ≤ m → LimRel (parseSubexpr c f n p ts) (parseSubexpr c f m p ts)) ∧
    (∀ n m p e ts, n ≤ m → LimRel (loop c f n p e ts) (loop c f m p e ts)) ∧
    (∀ n m ts, n ≤ m → LimRel (parsePrefix c f n ts) (parsePrefix c f m ts)) ∧
    (∀ n m e q ts, n ≤ m → LimRel (parseInfix c f n e q ts) (parseInfix c f m e q ts)) ∧
    (∀ n m ts, n ≤ m → LimRel (parseItems c f n ts) (parseItems c f m ts)) := by
  induction f with
  | zero =>
    refine ⟨?_, ?_, ?_, ?_, ?_⟩ <;> intros <;> right <;> simp [parseSubexpr, loop, parsePrefix, parseInfix, parseItems]
  | succ f ih =>
    obtain ⟨ihS, ihL, ihP, ihI, ihT⟩ := ih
    refine ⟨?_, ?_, ?_, ?_, ?_⟩
    · -- parseSubexpr
      intro n m p ts h
      cases n with
      | zero => left; simp [parseSubexpr]
      | succ n =>
        obtain ⟨m', rfl⟩ : ∃ m', m = m' + 1 := ⟨m - 1, by omega⟩
        simp only [parseSubexpr]
        rcases ihP n m' ts (by omega) with h1 | h1
        · left; rw [h1]
        · rw [h1]
          cases parsePrefix c f m' ts with
          | error er => right; rfl
          | ok v => obtain ⟨e, ts'⟩ := v; exact ihL n m' p e ts' (by omega)
    · -- loop
      intro n m p e ts h
      simp only [loop]
      split
      · right; rfl
      · rcases ihI n m e (nextPrec c ts) ts h with h1 | h1
        · left; rw [h1]
        · rw [h1]
          cases parseInfix c f m e (nextPrec c ts) ts with
          | error er => right; rfl
          | ok v => obtain ⟨e', ts'⟩ := v; exact ihL n m p e' ts' h
    · -- parsePrefix
      intro n m ts h
      simp only [parsePrefix]
      by_cases hn : n = 0
      · left; simp [hn]
      · have hm : m ≠ 0 := by omega
        simp only [hn, hm, if_false]
        cases prefixHead c ts with
        | error er => right; rfl
        | ok plan =>
          cases plan with
          | atom k toks rest => right; rfl
          | pre o t p rest =>
            simp only
            rcases ihS n m p rest h with h1 | h1
            · left; rw [h1]
            · right; rw [h1]
          | paren rest =>
            simp only
            rcases ihS n m c.prec.unknown rest h with h1 | h1
            · left; rw [h1]
            · right; rw [h1]
    · -- parseInfix
      intro n m e q ts h
      simp only [parseInfix]
      rcases infixHead_mono c n m q ts h with h0 | h0
      · left; rw [h0]
      · rw [h0]
        cases infixHead c m q ts with
        | error er => right; rfl
        | ok plan =>
          cases plan with
          | right k ops rest p =>
            simp only
            rcases ihS n m p rest h with h1 | h1
            · left; rw [h1]
            · right; rw [h1]
          | post k ops rest => right; rfl
          | like k neg any ops rest =>
            simp only
            rcases ihS n m c.prec.pLike rest h with h1 | h1
            · left; rw [h1]
            · right; rw [h1]
          | between neg ops rest =>
            simp only
            rcases ihS n m c.prec.pBetween rest h with h1 | h1
            · left; rw [h1]
            · rw [h1]
              cases parseSubexpr c f m c.prec.pBetween rest with
              | error er => right; rfl
              | ok v =>
                obtain ⟨lo, rest'⟩ := v
                simp only
                cases eatKw rest' KW.AND with
                | none => right; rfl
                | some w =>
                  obtain ⟨andTok, rest''⟩ := w
                  simp only
                  rcases ihS n m c.prec.pBetween rest'' h with h2 | h2
                  · left; rw [h2]
                  · right; rw [h2]
          | inl neg ops rest =>
            simp only
            split
            · right; rfl
            · split
              · right; rfl
              · rename_i r0 _ _ _ _
                rcases ihT n m r0 h with h1 | h1
                · left; rw [h1]
                · right; rw [h1]
          | quant o qk ops rest p =>
            simp only
            rcases ihS n m p rest h with h1 | h1
            · left; rw [h1]
            · right; rw [h1]
    · -- parseItems
      intro n m ts h
      simp only [parseItems]
      rcases ihS n m c.prec.unknown ts h with h1 | h1
      · left; rw [h1]
      · rw [h1]
        cases parseSubexpr c f m c.prec.unknown ts with
        | error er => right; rfl
        | ok v =>
          obtain ⟨e, rest⟩ := v
          simp only
          split
          · split
            · right; rfl
            · rename_i rest' _
              rcases ihT n m rest' h with h2 | h2
              · left; rw [h2]
              · right; rw [h2]
          · right; rfl

end SqlVerif.Pratt

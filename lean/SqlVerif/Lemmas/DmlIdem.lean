import SqlVerif.Lemmas.DmlFix
/-!
The printed normal form is a normal form: `norm` is idempotent on query trees and on statement trees,
hence the normal form prints as the tree itself (`stmt_show_norm`) — printing is idempotent as soon as
the printed statement re-parses to the normal form.
-/
namespace SqlVerif.Query
open SqlVerif.Pratt SqlVerif.Gen
open SqlVerif.SetClimb (Op SQuant precOf)
set_option linter.unusedSimpArgs false

theorem getLast?_pair (a b : Tok) : [a, b].getLast? = some b := rfl

theorem aliasNorm_idem (al : List Tok) : aliasNorm (aliasNorm al) = aliasNorm al := by
  unfold aliasNorm
  cases h : al.getLast? with
  | none => rfl
  | some t => rfl

theorem sepNorm_idem {α : Type} (N : α → α) (h : ∀ v, N (N v) = N v) : ∀ l : Sep α, sepNorm N (sepNorm N l) = sepNorm N l := by
  intro l
  induction l with
  | nil => rfl
  | cons p rest ih =>
    cases rest with
    | nil => simp [sepNorm, h]
    | cons q rest2 =>
      cases hq : sepNorm N (q :: rest2) with
      | nil => cases rest2 <;> simp [sepNorm] at hq
      | cons y r =>
        simp only [sepNorm, hq] at ih ⊢
        rw [ih, h]

theorem item_norm_idem (v : SelectItem) : v.norm.norm = v.norm := by
  cases v with
  | expr e al => simp [SelectItem.norm, norm_norm, aliasNorm_idem]
  | wildcard t => rfl
  | qualified toks => rfl

theorem dirNorm_idem (d : List Tok) : dirNorm (dirNorm d) = dirNorm d := by
  match d with
  | [] => rfl
  | [t] =>
    simp only [dirNorm]
    by_cases h : t.isKw K.ASC = true <;> simp [h, KASC.1, KASC.2]
  | _ :: _ :: _ => rfl

theorem nullsNorm_idem (n : List Tok) : nullsNorm (nullsNorm n) = nullsNorm n := by
  match n with
  | [] => rfl
  | [_] => rfl
  | [a, t] =>
    simp only [nullsNorm]
    by_cases h : t.isKw K.FIRST = true <;> simp [h, KFIRST.1, KFIRST.2]
  | _ :: _ :: _ :: _ => rfl

theorem rowsNorm_idem (r : List Tok) : rowsNorm (rowsNorm r) = rowsNorm r := by
  match r with
  | [] => rfl
  | [t] =>
    simp only [rowsNorm]
    by_cases h : t.isKw K.ROW = true <;> simp [h, KROW.1, KROW.2]
  | _ :: _ :: _ => rfl

theorem order_norm_idem (o : OrderByExpr) : o.norm.norm = o.norm := by
  simp [OrderByExpr.norm, norm_norm, dirNorm_idem, nullsNorm_idem]

theorem sepNorm_isEmpty' {α : Type} (N : α → α) (l : Sep α) : (sepNorm N l).isEmpty = l.isEmpty := by
  match l with
  | [] => rfl
  | [_] => rfl
  | _ :: _ :: _ => rfl

theorem tail_norm_idem (qt : QueryTail) : qt.norm.norm = qt.norm := by
  simp only [QueryTail.norm, sepNorm_isEmpty', sepNorm_idem _ order_norm_idem, limSem_limsNorm, QueryTail.mk.injEq, true_and]
  generalize limSem qt.lims = st
  obtain ⟨l, o⟩ := st
  cases l <;> cases o <;> simp [limsNorm, norm_norm, rowsNorm_idem]

theorem head_norm_idem (hd : SelHead) : hd.norm.norm = hd.norm := by
  obtain ⟨sel, quant, distinct, proj⟩ := hd
  cases distinct <;> simp [SelHead.norm, sepNorm_idem _ item_norm_idem]

theorem selTail_norm_idem (tl : SelTail) : tl.norm.norm = tl.norm := by
  obtain ⟨wk, sel, gk, grp, hk, hav⟩ := tl
  cases sel <;> cases hav <;> simp [SelTail.norm, sepNorm_isEmpty', sepNorm_idem _ norm_norm, norm_norm]

theorem conn_norm_idem (c : Conn) : c.norm.norm = c.norm := by cases c <;> rfl

theorem cstr_norm_idem (k : JoinCstr) : k.norm.norm = k.norm := by
  cases k with
  | none => rfl
  | on kw e => simp [JoinCstr.norm, norm_norm]
  | «using» kw lp cols rp => simp [JoinCstr.norm, sepNorm_idem id (fun _ => rfl)]

theorem node_norm_idem (n : QNode) : n.norm.norm = n.norm := by
  induction n with
  | select hd frm tl ih => simp [QNode.norm, head_norm_idem, selTail_norm_idem, ih]
  | paren lp body qt rp ih => simp [QNode.norm, tail_norm_idem, ih]
  | setOp l o q ops r ihl ihr => simp [QNode.norm, ihl, ihr]
  | fnil trail => rfl
  | ftable conn name al cstr rest ih => simp [QNode.norm, conn_norm_idem, aliasNorm_idem, cstr_norm_idem, ih]
  | fderived conn lp body qt rp al cstr rest ihb ihr =>
    simp [QNode.norm, conn_norm_idem, aliasNorm_idem, cstr_norm_idem, tail_norm_idem, ihb, ihr]

theorem query_norm_idem (q : Query) : q.norm.norm = q.norm := by
  simp [Query.norm, node_norm_idem, tail_norm_idem]

end SqlVerif.Query

namespace SqlVerif.Dml
open SqlVerif.Pratt SqlVerif.Query SqlVerif.Gen
set_option linter.unusedSimpArgs false

theorem row_norm_idem (ex : Bool) (r : Row) : Row.norm ex (Row.norm ex r) = Row.norm ex r := by
  simp [Row.norm, sepNorm_idem _ norm_norm]

theorem values_norm_idem (v : ValuesQ) : v.norm.norm = v.norm := by
  simp only [ValuesQ.norm, explicitRow_norm, sepNorm_idem _ (row_norm_idem _), tail_norm_idem]

theorem source_norm_idem (s : Source) : s.norm.norm = s.norm := by
  cases s with
  | query q => simp [Source.norm, query_norm_idem]
  | values v => simp [Source.norm, values_norm_idem]

theorem parenIds_norm_idem (p : ParenIds) : p.norm.norm = p.norm := by
  unfold ParenIds.norm
  cases h : p.ids.isEmpty
  · simp [h, sepNorm_isEmpty', sepNorm_idem id (fun _ => rfl)]
  · simp [h, ParenIds.none]

theorem retKwNorm_norm (items : Sep SelectItem) : retKwNorm (sepNorm SelectItem.norm items) = retKwNorm items := by
  simp [retKwNorm, sepNorm_isEmpty']

theorem insSource_norm_idem (s : InsSource) : s.norm.norm = s.norm := by
  cases s with
  | defaultValues t => rfl
  | source s => simp [InsSource.norm, source_norm_idem]

theorem insert_norm_idem (i : Insert) : i.norm.norm = i.norm := by
  obtain ⟨kw, into, tk, name, cols, src, rk, ret⟩ := i
  cases h1 : into.isEmpty <;> cases h2 : tk.isEmpty <;>
    simp [Insert.norm, h1, h2, parenIds_norm_idem, insSource_norm_idem, retKwNorm_norm, sepNorm_idem _ item_norm_idem]

theorem target_norm_idem (t : AssignTarget) : t.norm.norm = t.norm := by
  cases t with
  | col name => rfl
  | tuple lp names rp => simp [AssignTarget.norm, sepNorm_idem id (fun _ => rfl)]

theorem assign_norm_idem (a : Assign) : a.norm.norm = a.norm := by
  simp [Assign.norm, target_norm_idem, norm_norm]

theorem whereKwNorm_norm (o : Option Expr) : whereKwNorm (o.map Expr.norm) = whereKwNorm o := by cases o <;> rfl
theorem limitKwNorm_norm (o : Option Expr) : limitKwNorm (o.map Expr.norm) = limitKwNorm o := by cases o <;> rfl
theorem optNorm_idem (o : Option Expr) : (o.map Expr.norm).map Expr.norm = o.map Expr.norm := by
  cases o <;> simp [norm_norm]

theorem update_norm_idem (u : Update) : u.norm.norm = u.norm := by
  simp only [Update.norm, norm_setHead, node_norm_idem, sepNorm_idem _ assign_norm_idem, whereKwNorm_norm, optNorm_idem,
    retKwNorm_norm, sepNorm_idem _ item_norm_idem]

theorem delete_norm_idem (d : Delete) : d.norm.norm = d.norm := by
  simp only [Delete.norm, norm_setHead, node_norm_idem, sepNorm_idem id (fun _ => rfl), whereKwNorm_norm, optNorm_idem,
    retKwNorm_norm, sepNorm_idem _ item_norm_idem, sepNorm_isEmpty', sepNorm_idem _ order_norm_idem, limitKwNorm_norm]

theorem dialectNorm_idem (t : Tok) : dialectNorm (dialectNorm t) = dialectNorm t := by
  cases t with
  | word v q kw => cases kw <;> rfl
  | _ => rfl

theorem colOpt_norm_idem (o : ColOpt) : o.norm.norm = o.norm := by
  cases o with
  | default kw e => simp [ColOpt.norm, norm_norm]
  | check kw lp e rp => simp [ColOpt.norm, norm_norm]
  | comment kw s => cases s <;> rfl
  | dialect t => simp [ColOpt.norm, dialectNorm_idem]
  | references kw name cols => simp [ColOpt.norm, parenIds_norm_idem]
  | _ => rfl

theorem colDef_norm_idem (cd : ColDef) : cd.norm.norm = cd.norm := by
  simp [ColDef.norm, List.map_map, Function.comp_def, colOpt_norm_idem]

theorem create_norm_idem (ct : CreateTable) : ct.norm.norm = ct.norm := by
  obtain ⟨kw, temp, tk, ifne, name, lp, cols, rp⟩ := ct
  cases h1 : temp.isEmpty <;> cases h2 : ifne.isEmpty <;>
    simp [CreateTable.norm, h1, h2, sepNorm_idem _ colDef_norm_idem]

theorem drop_norm_idem (d : Drop) : d.norm.norm = d.norm := by
  obtain ⟨kw, tk, ie, names, ca, re, pu⟩ := d
  cases h1 : ie.isEmpty <;> cases h2 : ca.isEmpty <;> cases h3 : re.isEmpty <;> cases h4 : pu.isEmpty <;>
    simp [Drop.norm, h1, h2, h3, h4, sepNorm_idem id (fun _ => rfl)]

/-- the printed normal form is a normal form -/
theorem stmt_norm_idem (s : Stmt) : s.norm.norm = s.norm := by
  cases s with
  | query src => simp [Stmt.norm, source_norm_idem]
  | insert i => simp [Stmt.norm, insert_norm_idem]
  | update u => simp [Stmt.norm, update_norm_idem]
  | delete d => simp [Stmt.norm, delete_norm_idem]
  | createTable ct => simp [Stmt.norm, create_norm_idem]
  | drop d => simp [Stmt.norm, drop_norm_idem]

theorem headOk_setHead_norm (t : Tok) (n : QNode) (h : headOk n) : headOk (setHead t n.norm) := by
  cases n with
  | ftable conn name al cstr rest =>
    cases conn <;> simp [headOk, headFrom, QNode.isFnil] at h
    exact Or.inl rfl
  | fderived conn lp body qt rp al cstr rest =>
    cases conn <;> simp [headOk, headFrom, QNode.isFnil] at h
    exact Or.inl rfl
  | fnil t => exact Or.inr rfl
  | _ => simp [headOk, headFrom, QNode.isFnil] at h

theorem headsOk_norm (s : Stmt) (h : s.headsOk) : s.norm.headsOk := by
  cases s with
  | update u => exact headOk_setHead_norm _ _ h
  | delete d => exact headOk_setHead_norm _ _ h
  | _ => trivial

/-- **printing is idempotent on normal forms**: the normal form prints as the tree itself -/
theorem stmt_show_norm (s : Stmt) (h : s.headsOk) : s.norm.showToks = s.showToks := by
  rw [stmt_showToks_eq_norm _ (headsOk_norm s h), stmt_norm_idem, stmt_showToks_eq_norm _ h]

end SqlVerif.Dml

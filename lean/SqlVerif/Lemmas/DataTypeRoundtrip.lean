import SqlVerif.Lemmas.DataTypeParse
/-!
C18, the recursive part: `expect_closing_angle_bracket` bookkeeping, field loops, every arm of the
helper on `emit` streams, and the induction over all types (`helper_emit`).
-/
set_option linter.unusedSimpArgs false
set_option linter.unnecessarySimpa false
namespace SqlVerif.DTy
open SqlVerif.Pratt (W Sym str wordDisplay)
variable {g : Bool}

def trJ (j k : Nat) : Bool := decide (j % 2 = 1) && decide (1 ≤ k)
def remJ (j k : Nat) (T : List Tok) : List Tok := run0 (if trJ j k then k - 1 else k) ++ T

theorem trOf_eq (t : DT) (k : Nat) : trOf t k = trJ (closers t) k := rfl
theorem remOf_eq (t : DT) (k : Nat) (T : List Tok) : remOf t k T = remJ (closers t) k T := rfl

/-- `expect_closing_angle_bracket` after an element that ends with `j` closers, `k + 1` more to come:
one virtual `>` is accounted for -/
theorem closing_spec (j k : Nat) (T : List Tok) :
    expectClosing (trJ j (k + 1)) (remJ j (k + 1) T) = .ok (trJ (j + 1) k, remJ (j + 1) k T) := by
  by_cases hj : j % 2 = 1
  · have h2 : ¬ (j + 1) % 2 = 1 := by omega
    simp [trJ, remJ, hj, h2, expectClosing]
  · have h2 : (j + 1) % 2 = 1 := by omega
    rcases k with _ | k
    · simp [trJ, remJ, hj, h2, expectClosing, GtT]
    · simp [trJ, remJ, hj, h2, expectClosing, run0_add_two, ShrT]

/-- the full helper on one type -/
def FS (c : Cfg) (env : Env) (g : Bool) (t : DT) : Prop :=
  ∀ (k : Nat) (T : List Tok) (f d : Nat), prod c env t = true → Ctx false t k T → size t ≤ f → ndepth t ≤ d →
    parseHelper c f d (emit c env g t k T) = .ok (t, trOf t k, remOf t k T)

theorem structEven_closers (t : DT) (h : structEven t = true) : closers t % 2 = 0 := by
  cases t <;> simp [structEven] at h
  rename_i fs b
  cases fs <;> cases b <;> simp [structEven] at h
  simp [closers]; omega

/-- context of the last element inside an angle-bracket construct -/
theorem ctx_inner {sq : Bool} {P x : DT} {k : Nat} {T : List Tok} (hcl : closers P = closers x + 1)
    (h : Ctx sq P k T) : Ctx false x (k + 1) T := by
  intro he
  have hk : k = 0 ∧ closers x % 2 = 1 := by
    simp [runEmpty] at he; exact he
  obtain ⟨rfl, hodd⟩ := hk
  have hP := h (by simp [runEmpty])
  refine ⟨hP.1, ?_, ?_⟩
  · intro hs; have := structEven_closers x hs; omega
  · intro hlb
    have := (hP.2.2 hlb).2.2
    omega

theorem ctx_rparen (x : DT) (R : List Tok) : Ctx false x 0 (RParen :: R) := by
  intro _
  refine ⟨by simp [RParen, followC], by simp [RParen, Comma], ?_⟩
  intro h; simp [RParen, consumeSym, Tok.isSym] at h

theorem ctx_comma (x : DT) (R : List Tok) (hs : structEven x = false) : Ctx false x 0 (Comma :: R) := by
  intro _
  refine ⟨by simp [Comma, followC], by simp [hs], ?_⟩
  intro h; simp [Comma, consumeSym, Tok.isSym] at h

theorem core_angle (c : Cfg) (env : Env) (x : DT) (ih : FS c env g x)
    (sq : Bool) (k : Nat) (T : List Tok) (f d : Nat) (hp : prod c env (.arrayAngle x) = true)
    (hc : Ctx sq (.arrayAngle x) k T) (hf : size (.arrayAngle x) ≤ f + 1) (hd : ndepth (.arrayAngle x) ≤ d + 1) :
    parseHelper c (f + 1) (d + 1) (emit c env g (.arrayAngle x) k T) =
      finish c f (.arrayAngle x) (trOf (.arrayAngle x) k) (remOf (.arrayAngle x) k T) := by
  simp only [prod, Bool.and_eq_true, Bool.not_eq_true'] at hp
  obtain ⟨⟨hs, hch⟩, hx⟩ := hp
  have hh : headOf c .ARRAY = some .arrAngle := by simp [headOf, hs, hch]
  simp only [size, ndepth] at hf hd
  have h1 := ih (k + 1) T f d hx (ctx_inner (by simp [closers]) hc) (by omega) (by omega)
  simp only [emit, kwTok]
  rw [parseHelper]
  simp only [hh, LtT, expectSym, Tok.isSym, beq_self_eq_true, if_true, h1, bind, Except.bind]
  rw [trOf_eq, remOf_eq, closing_spec]
  simp only [finish, trOf_eq, remOf_eq, closers, pure, Except.pure]
  rfl


theorem remOf_closers0 (t : DT) (k : Nat) (T : List Tok) (h : closers t = 0) : remOf t k T = run0 k ++ T := by
  simp [remOf, trOf, h]

theorem trOf_closers0 (t : DT) (k : Nat) (h : closers t = 0) : trOf t k = false := by
  simp [trOf, h]

/-- an element inside parentheses, parsed by `parse_data_type`: `( x )` -/
theorem paren_elem (c : Cfg) (env : Env) (x : DT) (ih : FS c env g x) (R : List Tok) (f d : Nat)
    (hx : prod c env x = true) (hf : size x ≤ f) (hd : ndepth x ≤ d) :
    parseHelper c f d (emit c env g x 0 (RParen :: R)) = .ok (x, false, RParen :: R) := by
  have := ih 0 (RParen :: R) f d hx (ctx_rparen x R) hf hd
  simpa [trOf, remOf] using this

theorem core_arrayParen (c : Cfg) (env : Env) (hg : g = false) (x : DT) (ih : FS c env g x)
    (k : Nat) (T : List Tok) (f d : Nat) (hp : prod c env (.arrayParen x) = true)
    (hf : size (.arrayParen x) ≤ f + 1) (hd : ndepth (.arrayParen x) ≤ d + 1) :
    parseHelper c (f + 1) (d + 1) (emit c env g (.arrayParen x) k T) =
      finish c f (.arrayParen x) (trOf (.arrayParen x) k) (remOf (.arrayParen x) k T) := by
  simp only [prod, Bool.and_eq_true, Bool.not_eq_true'] at hp
  obtain ⟨⟨hs, hch⟩, hx⟩ := hp
  have hh : headOf c .ARRAY = some .arrParen := by simp [headOf, hs, hch]
  simp only [size, ndepth] at hf hd
  have h1 := paren_elem c env x ih (run g k ++ T) f d hx (by omega) (by omega)
  simp only [emit, kwTok]
  rw [parseHelper]
  simp only [hh, LParen, expectSym, Tok.isSym, beq_self_eq_true, if_true, bind, Except.bind]
  simp only [LParen, RParen] at h1
  simp only [h1, noTrailing, RParen, expectSym, Tok.isSym, beq_self_eq_true, if_true, pure, Except.pure, Bool.false_eq_true, if_false]
  rw [trOf_closers0 _ _ (by simp [closers]), remOf_closers0 _ _ _ (by simp [closers]), run_eq_run0 hg]
  rfl

theorem core_nullable (c : Cfg) (env : Env) (hg : g = false) (x : DT) (ih : FS c env g x)
    (k : Nat) (T : List Tok) (f d : Nat) (hp : prod c env (.nullable x) = true)
    (hf : size (.nullable x) ≤ f + 1) (hd : ndepth (.nullable x) ≤ d + 1) :
    parseHelper c (f + 1) (d + 1) (emit c env g (.nullable x) k T) =
      finish c f (.nullable x) (trOf (.nullable x) k) (remOf (.nullable x) k T) := by
  simp only [prod, Bool.and_eq_true] at hp
  obtain ⟨hdial, hx⟩ := hp
  have hh : headOf c .NULLABLE = some .nullable := by simp [headOf, hdial]
  simp only [size, ndepth] at hf hd
  have h1 := paren_elem c env x ih (run g k ++ T) f d hx (by omega) (by omega)
  simp only [emit, kwTok]
  rw [parseHelper]
  simp only [hh, LParen, expectSym, Tok.isSym, beq_self_eq_true, if_true, bind, Except.bind]
  simp only [LParen, RParen] at h1
  simp only [h1, noTrailing, RParen, expectSym, Tok.isSym, beq_self_eq_true, if_true, pure, Except.pure, Bool.false_eq_true, if_false]
  rw [trOf_closers0 _ _ (by simp [closers]), remOf_closers0 _ _ _ (by simp [closers]), run_eq_run0 hg]
  rfl

theorem core_lowCard (c : Cfg) (env : Env) (hg : g = false) (x : DT) (ih : FS c env g x)
    (k : Nat) (T : List Tok) (f d : Nat) (hp : prod c env (.lowCardinality x) = true)
    (hf : size (.lowCardinality x) ≤ f + 1) (hd : ndepth (.lowCardinality x) ≤ d + 1) :
    parseHelper c (f + 1) (d + 1) (emit c env g (.lowCardinality x) k T) =
      finish c f (.lowCardinality x) (trOf (.lowCardinality x) k) (remOf (.lowCardinality x) k T) := by
  simp only [prod, Bool.and_eq_true] at hp
  obtain ⟨hdial, hx⟩ := hp
  have hh : headOf c .LOWCARDINALITY = some .lowCard := by simp [headOf, hdial]
  simp only [size, ndepth] at hf hd
  have h1 := paren_elem c env x ih (run g k ++ T) f d hx (by omega) (by omega)
  simp only [emit, kwTok]
  rw [parseHelper]
  simp only [hh, LParen, expectSym, Tok.isSym, beq_self_eq_true, if_true, bind, Except.bind]
  simp only [LParen, RParen] at h1
  simp only [h1, noTrailing, RParen, expectSym, Tok.isSym, beq_self_eq_true, if_true, pure, Except.pure, Bool.false_eq_true, if_false]
  rw [trOf_closers0 _ _ (by simp [closers]), remOf_closers0 _ _ _ (by simp [closers]), run_eq_run0 hg]
  rfl

theorem core_map (c : Cfg) (env : Env) (hg : g = false) (a b : DT) (iha : FS c env g a) (ihb : FS c env g b)
    (k : Nat) (T : List Tok) (f d : Nat) (hp : prod c env (.map a b) = true)
    (hf : size (.map a b) ≤ f + 1) (hd : ndepth (.map a b) ≤ d + 1) :
    parseHelper c (f + 1) (d + 1) (emit c env g (.map a b) k T) =
      finish c f (.map a b) (trOf (.map a b) k) (remOf (.map a b) k T) := by
  simp only [prod, Bool.and_eq_true, Bool.not_eq_true'] at hp
  obtain ⟨⟨⟨hdial, ha⟩, hb⟩, hse⟩ := hp
  have hh : headOf c .MAP = some .map := by simp [headOf, hdial]
  simp only [size, ndepth] at hf hd
  have h1 := iha 0 (Comma :: emit c env g b 0 (RParen :: (run g k ++ T))) f d ha (ctx_comma a _ hse) (by omega) (by omega)
  have h2 := paren_elem c env b ihb (run g k ++ T) f d hb (by omega) (by omega)
  simp only [trOf, remOf, Nat.le_zero_eq, Nat.one_ne_zero, decide_false, Bool.and_false, Bool.false_eq_true, if_false,
    run0_zero, List.nil_append] at h1
  simp only [emit, kwTok]
  rw [parseHelper]
  simp only [hh, LParen, expectSym, Tok.isSym, beq_self_eq_true, if_true, bind, Except.bind]
  simp only [LParen, RParen, Comma] at h1 h2
  simp only [h1, h2, noTrailing, RParen, Comma, expectSym, Tok.isSym, beq_self_eq_true, if_true, pure, Except.pure,
    Bool.false_eq_true, if_false]
  rw [trOf_closers0 _ _ (by simp [closers]), remOf_closers0 _ _ _ (by simp [closers]), run_eq_run0 hg]
  rfl

theorem core_arrayNone (c : Cfg) (env : Env) (hg : g = false)
    (k : Nat) (T : List Tok) (f d : Nat) (hp : prod c env .arrayNone = true) :
    parseHelper c (f + 1) (d + 1) (emit c env g .arrayNone k T) =
      finish c f .arrayNone (trOf .arrayNone k) (remOf .arrayNone k T) := by
  simp only [prod] at hp
  have hh : headOf c .ARRAY = some .arrNone := by simp [headOf, hp]
  simp only [emit, pre, kwTok, List.cons_append, List.nil_append]
  rw [parseHelper]
  simp only [hh, pure, Except.pure]
  rw [trOf_closers0 _ _ (by simp [closers]), remOf_closers0 _ _ _ (by simp [closers]), run_eq_run0 hg]
  rfl

theorem core_structNil (c : Cfg) (env : Env) (hg : g = false) (b : Bracket) (sq : Bool)
    (k : Nat) (T : List Tok) (f d : Nat) (hp : prod c env (.struct .nil b) = true)
    (hc : Ctx sq (.struct .nil b) k T) :
    parseHelper c (f + 1) (d + 1) (emit c env g (.struct .nil b) k T) =
      finish c f (.struct .nil b) (trOf (.struct .nil b) k) (remOf (.struct .nil b) k T) := by
  simp only [prod, Bool.and_eq_true, Bool.not_eq_true', beq_iff_eq] at hp
  obtain ⟨⟨hb, hdk⟩, hdial⟩ := hp
  subst hb
  have hh : headOf c .STRUCT = some .structAngle := by simp [headOf, hdk, hdial]
  have hlt : consumeSym .Lt (run0 k ++ T) = none := by
    have := follow_noLt (followC_rem hc)
    rwa [remOf_closers0 _ _ _ (by simp [closers])] at this
  simp only [emit, kwTok]
  rw [parseHelper]
  simp only [hh, run_eq_run0 hg, hlt, pure, Except.pure]
  rw [trOf_closers0 _ _ (by simp [closers]), remOf_closers0 _ _ _ (by simp [closers])]
  rfl


-- ------------------------------------------------------------------ field lists
theorem consumeSym_Comma (r : List Tok) : consumeSym .Comma (Comma :: r) = some r := rfl
theorem consumeSym_Comma_RParen (r : List Tok) : consumeSym .Comma (RParen :: r) = none := rfl
theorem identTok_isWord (c : Cfg) (env : Env) (i : Ident) (h : identIsWord c i = true) :
    (identTok c env i).isWord = true := by
  obtain ⟨v, q⟩ := i
  unfold identTok
  cases q with
  | none => rfl
  | some q =>
    simp only [identIsWord, Bool.and_eq_true, Bool.not_eq_true', beq_eq_false_iff_ne, ne_eq] at h
    have h1 : ¬ q = 39 := h.1
    have h2 : ¬ (q = 34 ∧ ¬ c.dqWord = true) := by
      intro hh; have := h.2; simp [hh.1, hh.2] at this
    simp only [h1, if_false]; rw [if_neg h2]; rfl

/-- the optional-name step of `parse_struct_field_def` -/
def fieldNameStep (ts : List Tok) : Except Err (Option Ident × List Tok) :=
  if fieldHasName ts then (do let (i, r) ← parseIdent ts; pure (some i, r)) else pure (none, ts)

theorem fieldName_spec (c : Cfg) (env : Env) (n : Option Ident) (t : DT) (k : Nat) (T : List Tok)
    (hn : (match n with | some i => identIsWord c i | none => !twoWordsT c env t) = true)
    (hp : prod c env t = true) (hX : nonWord (run g k ++ T) = true) :
    fieldNameStep (nameTok c env n ++ emit c env g t k T) = .ok (n, emit c env g t k T) := by
  cases n with
  | none =>
    have : fieldHasName (emit c env g t k T) = false := by
      rw [hasName_emit (g := g) c env t k T hp hX]; simpa using hn
    simp [fieldNameStep, nameTok, this, pure, Except.pure]
  | some i =>
    obtain ⟨v, q, kw, r, hr⟩ := emit_head_word (g := g) c env t k T hp
    have hw := identTok_isWord c env i hn
    have : fieldHasName (identTok c env i :: emit c env g t k T) = true := by
      simp only [hr, fieldHasName, Bool.and_eq_true]; exact ⟨hw, rfl⟩
    simp [fieldNameStep, nameTok, this, parseIdent_identTok, bind, Except.bind, pure, Except.pure]

theorem nonWord_run0 (k : Nat) (T : List Tok) (h : k = 0 → nonWord T = true) : nonWord (run0 k ++ T) = true := by
  rcases k with _ | k
  · simpa using h rfl
  · obtain ⟨r, hr⟩ := run0_head (k + 1) (by omega)
    rcases hr with hr | hr <;> simp [hr, nonWord, ShrT, GtT, Tok.isWord]

theorem noComma_last {sq : Bool} {P : DT} {j k : Nat} {T : List Tok} (hcx : Ctx sq P k T)
    (hse : structEven P = (j % 2 == 1)) : consumeSym .Comma (remJ j (k + 1) T) = none := by
  by_cases hj : j % 2 = 1
  · rcases k with _ | k
    · have hP := hcx (by simp [runEmpty])
      have hne := hP.2.1 (by rw [hse]; simp [hj])
      simp only [remJ, trJ, hj, decide_true, Bool.and_self, if_true, Nat.le_refl, Nat.zero_add, Nat.sub_self,
        run0_zero, List.nil_append]
      cases T with
      | nil => rfl
      | cons x r =>
        cases x <;> try rfl
        rename_i s; cases s <;> first | rfl | simp [Comma] at hne
    · obtain ⟨r, hr⟩ := run0_head (k + 1) (by omega)
      have : remJ j (k + 1 + 1) T = run0 (k + 1) ++ T := by simp [remJ, trJ, hj]
      rw [this]
      rcases hr with hr | hr <;> simp [hr, ShrT, GtT, consumeSym, Tok.isSym]
  · obtain ⟨r, hr⟩ := run0_head (k + 1) (by omega)
    have : remJ j (k + 1) T = run0 (k + 1) ++ T := by simp [remJ, trJ, hj]
    rw [this]
    rcases hr with hr | hr <;> simp [hr, ShrT, GtT, consumeSym, Tok.isSym]

theorem structLoop_spec (c : Cfg) (env : Env) (hg : g = false) (n0 : Nat)
    (IH : ∀ t, size t ≤ n0 → FS c env g t) :
    ∀ (fs : Fields) (sq : Bool) (P : DT) (k : Nat) (T : List Tok) (f d : Nat), fs.isNil = false →
      prodOpt c env fs = true → Ctx sq P k T → closers P = lastClosers fs + 1 →
      structEven P = (lastClosers fs % 2 == 1) → sizeF fs ≤ n0 → sizeF fs ≤ f → ndepthF fs ≤ d →
      structLoop c f d (emitA c env g fs k T) =
        .ok (fs, trJ (lastClosers fs + 1) k, remJ (lastClosers fs + 1) k T)
  | .nil, _, _, _, _, _, _, hn, _, _, _, _, _, _, _ => by simp [Fields.isNil] at hn
  | .cons n t .nil, sq, P, k, T, f, d, _, hp, hcx, hcl, hse, hn0, hf, hd => by
    simp only [prodOpt, Bool.and_eq_true] at hp
    obtain ⟨⟨⟨hname, hpt⟩, _⟩, _⟩ := hp
    simp only [sizeF, ndepthF, lastClosers] at hn0 hf hd hcl hse ⊢
    obtain ⟨f', rfl⟩ : ∃ f', f = f' + 1 := ⟨f - 1, by omega⟩
    have hX : nonWord (run g (k + 1) ++ T) = true := by
      rw [run_eq_run0 hg]; exact nonWord_run0 _ _ (by omega)
    have h0 := fieldName_spec c env n t (k + 1) T hname hpt hX
    have h1 := IH t (by omega) (k + 1) T f' d hpt (ctx_inner (by omega) hcx) (by omega) (by omega)
    simp only [fieldNameStep, bind, Except.bind, pure, Except.pure] at h0
    simp only [emitA]
    rw [structLoop]
    simp only [bind, Except.bind, pure, Except.pure]
    simp only [h0, h1, trOf_eq, remOf_eq, noComma_last hcx hse, closing_spec]
  | .cons n t (.cons n2 t2 r), sq, P, k, T, f, d, _, hp, hcx, hcl, hse, hn0, hf, hd => by
    unfold prodOpt at hp
    simp only [Bool.and_eq_true, Fields.isNil, Bool.false_or, Bool.not_eq_true'] at hp
    obtain ⟨⟨⟨hname, hpt⟩, hset⟩, hrest⟩ := hp
    simp only [sizeF, ndepthF, lastClosers] at hn0 hf hd hcl hse ⊢
    obtain ⟨f', rfl⟩ : ∃ f', f = f' + 1 := ⟨f - 1, by omega⟩
    have hX : nonWord (run g 0 ++ (Comma :: emitA c env g (.cons n2 t2 r) k T)) = true := by
      simp [run_zero, nonWord, Comma, Tok.isWord]
    have h0 := fieldName_spec c env n t 0 _ hname hpt hX
    have h1 := IH t (by omega) 0 (Comma :: emitA c env g (.cons n2 t2 r) k T) f' d hpt (ctx_comma t _ hset) (by omega) (by omega)
    have h2 := structLoop_spec c env hg n0 IH (.cons n2 t2 r) sq P k T f' d (by simp [Fields.isNil])
      hrest hcx (by simpa [lastClosers] using hcl) (by simpa [lastClosers] using hse)
      (by simp only [sizeF]; omega) (by simp only [sizeF]; omega) (by simp only [ndepthF]; omega)
    simp only [fieldNameStep, bind, Except.bind, pure, Except.pure] at h0
    simp only [trOf, remOf, Nat.le_zero_eq, Nat.one_ne_zero, decide_false, Bool.and_false, Bool.false_eq_true,
      if_false, run0_zero, List.nil_append] at h1
    simp only [emitA]
    rw [structLoop]
    simp only [bind, Except.bind, pure, Except.pure]
    simp only [h0, h1, consumeSym_Comma, Bool.false_eq_true, if_false]
    simp only [h2]


theorem tupleLoop_spec (c : Cfg) (env : Env) (n0 : Nat) (IH : ∀ t, size t ≤ n0 → FS c env g t) :
    ∀ (fs : Fields) (R : List Tok) (f d : Nat), fs.isNil = false → prodOpt c env fs = true →
      sizeF fs ≤ n0 → sizeF fs ≤ f → ndepthF fs ≤ d →
      tupleLoop c f d (emitP c env g fs (RParen :: R)) = .ok (fs, RParen :: R)
  | .nil, _, _, _, hn, _, _, _, _ => by simp [Fields.isNil] at hn
  | .cons n t .nil, R, f, d, _, hp, hn0, hf, hd => by
    simp only [prodOpt, Bool.and_eq_true] at hp
    obtain ⟨⟨⟨hname, hpt⟩, _⟩, _⟩ := hp
    simp only [sizeF, ndepthF] at hn0 hf hd
    obtain ⟨f', rfl⟩ : ∃ f', f = f' + 1 := ⟨f - 1, by omega⟩
    have hX : nonWord (run g 0 ++ (RParen :: R)) = true := by simp [run_zero, nonWord, RParen, Tok.isWord]
    have h0 := fieldName_spec c env n t 0 _ hname hpt hX
    have h1 := paren_elem c env t (IH t (by omega)) R f' d hpt (by omega) (by omega)
    simp only [fieldNameStep, bind, Except.bind, pure, Except.pure] at h0
    simp only [emitP]
    rw [tupleLoop]
    simp only [bind, Except.bind, pure, Except.pure]
    simp only [h0, h1, consumeSym_Comma_RParen]
  | .cons n t (.cons n2 t2 r), R, f, d, _, hp, hn0, hf, hd => by
    unfold prodOpt at hp
    simp only [Bool.and_eq_true, Fields.isNil, Bool.false_or, Bool.not_eq_true'] at hp
    obtain ⟨⟨⟨hname, hpt⟩, hset⟩, hrest⟩ := hp
    simp only [sizeF, ndepthF] at hn0 hf hd
    obtain ⟨f', rfl⟩ : ∃ f', f = f' + 1 := ⟨f - 1, by omega⟩
    have hX : nonWord (run g 0 ++ (Comma :: emitP c env g (.cons n2 t2 r) (RParen :: R))) = true := by
      simp [run_zero, nonWord, Comma, Tok.isWord]
    have h0 := fieldName_spec c env n t 0 _ hname hpt hX
    have h1 := IH t (by omega) 0 (Comma :: emitP c env g (.cons n2 t2 r) (RParen :: R)) f' d hpt (ctx_comma t _ hset) (by omega) (by omega)
    have h2 := tupleLoop_spec c env n0 IH (.cons n2 t2 r) R f' d (by simp [Fields.isNil]) hrest
      (by simp only [sizeF]; omega) (by simp only [sizeF]; omega) (by simp only [ndepthF]; omega)
    simp only [fieldNameStep, bind, Except.bind, pure, Except.pure] at h0
    simp only [trOf, remOf, Nat.le_zero_eq, Nat.one_ne_zero, decide_false, Bool.and_false, Bool.false_eq_true,
      if_false, run0_zero, List.nil_append] at h1
    simp only [emitP]
    rw [tupleLoop]
    simp only [bind, Except.bind, pure, Except.pure]
    simp only [h0, h1, consumeSym_Comma, h2]

theorem commaEnd_rparen (c : Cfg) (R : List Tok) : commaEnd c (RParen :: R) = (some (RParen :: R), RParen :: R) := rfl

theorem commaEnd_next (c : Cfg) (env : Env) (i : Ident) (rest : List Tok) (h : nameRca c env i = false) :
    commaEnd c (Comma :: identTok c env i :: rest) = (none, identTok c env i :: rest) := by
  simp only [commaEnd, consumeSym_Comma]
  by_cases htc : c.trailingCommas = true
  · simp only [htc, if_true]
    obtain ⟨v, q⟩ := i
    unfold identTok
    cases q with
    | none =>
      have : (env.kwOf v).rca = false := by simpa [nameRca, htc, identIsWord, identKw] using h
      simp [this]
    | some q =>
      by_cases h1 : q = 39
      · simp [h1]
      · by_cases h2 : q = 34 ∧ ¬ c.dqWord = true
        · simp [h1, h2]
        · simp only [h1, if_false]; rw [if_neg h2]; simp [DKw.rca]
  · simp [htc]

theorem namedLoop_spec (c : Cfg) (env : Env) (n0 : Nat) (IH : ∀ t, size t ≤ n0 → FS c env g t) :
    ∀ (fs : Fields) (first : Bool) (R : List Tok) (f d : Nat), fs.isNil = false → prodNamed c env first fs = true →
      sizeF fs ≤ n0 → sizeF fs ≤ f → ndepthF fs ≤ d →
      namedLoop c f d (emitP c env g fs (RParen :: R)) = .ok (fs, RParen :: R)
  | .nil, _, _, _, _, hn, _, _, _, _ => by simp [Fields.isNil] at hn
  | .cons n t .nil, first, R, f, d, _, hp, hn0, hf, hd => by
    simp only [prodNamed, Bool.and_eq_true] at hp
    obtain ⟨⟨⟨hname, hpt⟩, _⟩, _⟩ := hp
    cases n with
    | none => simp at hname
    | some i =>
      simp only [sizeF, ndepthF] at hn0 hf hd
      obtain ⟨f', rfl⟩ : ∃ f', f = f' + 1 := ⟨f - 1, by omega⟩
      have h1 := paren_elem c env t (IH t (by omega)) R f' d hpt (by omega) (by omega)
      simp only [emitP, nameTok, List.cons_append, List.nil_append]
      rw [namedLoop]
      simp only [bind, Except.bind, pure, Except.pure, parseIdent_identTok, h1, noTrailing, Bool.false_eq_true,
        if_false, commaEnd_rparen]
  | .cons n t (.cons n2 t2 r), first, R, f, d, _, hp, hn0, hf, hd => by
    unfold prodNamed at hp
    simp only [Bool.and_eq_true, Fields.isNil, Bool.false_or, Bool.not_eq_true'] at hp
    obtain ⟨⟨⟨hname, hpt⟩, hset⟩, hrest⟩ := hp
    cases n with
    | none => simp at hname
    | some i =>
      have hrest' := hrest
      unfold prodNamed at hrest'
      simp only [Bool.and_eq_true] at hrest'
      cases n2 with
      | none => simp at hrest'
      | some i2 =>
        have hrca : nameRca c env i2 = false := by simpa using hrest'.1.1.1
        simp only [sizeF, ndepthF] at hn0 hf hd
        obtain ⟨f', rfl⟩ : ∃ f', f = f' + 1 := ⟨f - 1, by omega⟩
        have h1 := IH t (by omega) 0 (Comma :: emitP c env g (.cons (some i2) t2 r) (RParen :: R)) f' d hpt (ctx_comma t _ hset) (by omega) (by omega)
        have h2 := namedLoop_spec c env n0 IH (.cons (some i2) t2 r) false R f' d (by simp [Fields.isNil]) hrest
          (by simp only [sizeF]; omega) (by simp only [sizeF]; omega) (by simp only [ndepthF]; omega)
        simp only [trOf, remOf, Nat.le_zero_eq, Nat.one_ne_zero, decide_false, Bool.and_false, Bool.false_eq_true,
          if_false, run0_zero, List.nil_append] at h1
        have h3 : ∃ rest, emitP c env g (.cons (some i2) t2 r) (RParen :: R) = identTok c env i2 :: rest := by
          cases r with
          | nil => exact ⟨emit c env g t2 0 (RParen :: R), by simp [emitP, nameTok]⟩
          | cons a b r' => exact ⟨emit c env g t2 0 (Comma :: emitP c env g (.cons a b r') (RParen :: R)), by simp [emitP, nameTok]⟩
        obtain ⟨rest, hrest2⟩ := h3
        simp only [emitP, nameTok, List.cons_append, List.nil_append] at h1 h2 hrest2 ⊢
        rw [namedLoop]
        simp only [bind, Except.bind, pure, Except.pure, parseIdent_identTok, h1, noTrailing, Bool.false_eq_true,
          if_false]
        rw [hrest2, commaEnd_next c env i2 rest hrca, ← hrest2]
        simp only [h2]


theorem startsColOpt_rparen (R : List Tok) : startsColOpt (RParen :: R) = false := rfl
theorem startsColOpt_comma (R : List Tok) : startsColOpt (Comma :: R) = false := rfl

theorem nestedLoop_spec (c : Cfg) (env : Env) (n0 : Nat) (IH : ∀ t, size t ≤ n0 → FS c env g t) :
    ∀ (fs : Fields) (first : Bool) (R : List Tok) (f d : Nat), fs.isNil = false → prodNamed c env first fs = true →
      sizeF fs ≤ n0 → sizeF fs ≤ f → ndepthF fs ≤ d →
      nestedLoop c f d (emitP c env g fs (RParen :: R)) = .ok (fs, RParen :: R)
  | .nil, _, _, _, _, hn, _, _, _, _ => by simp [Fields.isNil] at hn
  | .cons n t .nil, first, R, f, d, _, hp, hn0, hf, hd => by
    simp only [prodNamed, Bool.and_eq_true] at hp
    obtain ⟨⟨⟨hname, hpt⟩, _⟩, _⟩ := hp
    cases n with
    | none => simp at hname
    | some i =>
      simp only [sizeF, ndepthF] at hn0 hf hd
      obtain ⟨f', rfl⟩ : ∃ f', f = f' + 1 := ⟨f - 1, by omega⟩
      have h1 := paren_elem c env t (IH t (by omega)) R f' d hpt (by omega) (by omega)
      simp only [emitP, nameTok, List.cons_append, List.nil_append]
      rw [nestedLoop]
      simp only [bind, Except.bind, pure, Except.pure, parseIdent_identTok, h1, noTrailing, Bool.false_eq_true,
        if_false, commaEnd_rparen, startsColOpt_rparen]
  | .cons n t (.cons n2 t2 r), first, R, f, d, _, hp, hn0, hf, hd => by
    unfold prodNamed at hp
    simp only [Bool.and_eq_true, Fields.isNil, Bool.false_or, Bool.not_eq_true'] at hp
    obtain ⟨⟨⟨hname, hpt⟩, hset⟩, hrest⟩ := hp
    cases n with
    | none => simp at hname
    | some i =>
      have hrest' := hrest
      unfold prodNamed at hrest'
      simp only [Bool.and_eq_true] at hrest'
      cases n2 with
      | none => simp at hrest'
      | some i2 =>
        have hrca : nameRca c env i2 = false := by simpa using hrest'.1.1.1
        simp only [sizeF, ndepthF] at hn0 hf hd
        obtain ⟨f', rfl⟩ : ∃ f', f = f' + 1 := ⟨f - 1, by omega⟩
        have h1 := IH t (by omega) 0 (Comma :: emitP c env g (.cons (some i2) t2 r) (RParen :: R)) f' d hpt (ctx_comma t _ hset) (by omega) (by omega)
        have h2 := nestedLoop_spec c env n0 IH (.cons (some i2) t2 r) false R f' d (by simp [Fields.isNil]) hrest
          (by simp only [sizeF]; omega) (by simp only [sizeF]; omega) (by simp only [ndepthF]; omega)
        simp only [trOf, remOf, Nat.le_zero_eq, Nat.one_ne_zero, decide_false, Bool.and_false, Bool.false_eq_true,
          if_false, run0_zero, List.nil_append] at h1
        have h3 : ∃ rest, emitP c env g (.cons (some i2) t2 r) (RParen :: R) = identTok c env i2 :: rest := by
          cases r with
          | nil => exact ⟨emit c env g t2 0 (RParen :: R), by simp [emitP, nameTok]⟩
          | cons a b r' => exact ⟨emit c env g t2 0 (Comma :: emitP c env g (.cons a b r') (RParen :: R)), by simp [emitP, nameTok]⟩
        obtain ⟨rest, hrest2⟩ := h3
        simp only [emitP, nameTok, List.cons_append, List.nil_append] at h1 h2 hrest2 ⊢
        rw [nestedLoop]
        simp only [bind, Except.bind, pure, Except.pure, parseIdent_identTok, h1, noTrailing, Bool.false_eq_true,
          if_false, startsColOpt_comma]
        rw [hrest2, commaEnd_next c env i2 rest hrca, ← hrest2]
        simp only [h2]



-- ------------------------------------------------------------------ heads with field lists
theorem Fields.isNil_false_iff (fs : Fields) : fs.isNil = false ↔ ∃ n t r, fs = .cons n t r := by
  cases fs <;> simp [Fields.isNil]

theorem core_structAngle (c : Cfg) (env : Env) (hg : g = false) (n0 : Nat)
    (IH : ∀ t, size t ≤ n0 → FS c env g t) (n : Option Ident) (t : DT) (r : Fields)
    (sq : Bool) (k : Nat) (T : List Tok) (f d : Nat) (hp : prod c env (.struct (.cons n t r) .angle) = true)
    (hc : Ctx sq (.struct (.cons n t r) .angle) k T) (hn0 : size (.struct (.cons n t r) .angle) ≤ n0 + 1)
    (hf : size (.struct (.cons n t r) .angle) ≤ f + 1) (hd : ndepth (.struct (.cons n t r) .angle) ≤ d + 1) :
    parseHelper c (f + 1) (d + 1) (emit c env g (.struct (.cons n t r) .angle) k T) =
      finish c f (.struct (.cons n t r) .angle) (trOf (.struct (.cons n t r) .angle) k)
        (remOf (.struct (.cons n t r) .angle) k T) := by
  simp only [prod, Bool.and_eq_true, Bool.not_eq_true'] at hp
  obtain ⟨⟨hdk, hdial⟩, hfs⟩ := hp
  have hh : headOf c .STRUCT = some .structAngle := by simp [headOf, hdk, hdial]
  simp only [size, ndepth] at hn0 hf hd
  have h1 := structLoop_spec c env hg n0 IH (.cons n t r) sq _ k T f d (by simp [Fields.isNil]) hfs hc
    (by simp [closers]) (by simp [structEven]) (by omega) (by omega) (by omega)
  simp only [emit, kwTok]
  rw [parseHelper]
  simp only [hh, LtT, consumeSym, Tok.isSym, beq_self_eq_true, if_true, bind, Except.bind, pure, Except.pure]
  simp only [h1, finish, trOf_eq, remOf_eq, closers]
  rfl

theorem core_tuple (c : Cfg) (env : Env) (hg : g = false) (n0 : Nat)
    (IH : ∀ t, size t ≤ n0 → FS c env g t) (fs : Fields)
    (k : Nat) (T : List Tok) (f d : Nat) (hp : prod c env (.tuple fs) = true)
    (hn0 : size (.tuple fs) ≤ n0 + 1) (hf : size (.tuple fs) ≤ f + 1) (hd : ndepth (.tuple fs) ≤ d + 1) :
    parseHelper c (f + 1) (d + 1) (emit c env g (.tuple fs) k T) =
      finish c f (.tuple fs) (trOf (.tuple fs) k) (remOf (.tuple fs) k T) := by
  simp only [prod, Bool.and_eq_true, Bool.not_eq_true'] at hp
  obtain ⟨⟨hdial, hne⟩, hfs⟩ := hp
  have hh : headOf c .TUPLE = some .tuple := by simp [headOf, hdial]
  simp only [size, ndepth] at hn0 hf hd
  have h1 := tupleLoop_spec c env n0 IH fs (run g k ++ T) f d hne hfs (by omega) (by omega) (by omega)
  simp only [emit, kwTok]
  rw [parseHelper]
  simp only [hh, LParen, expectSym, Tok.isSym, beq_self_eq_true, if_true, bind, Except.bind]
  simp only [RParen] at h1
  simp only [h1, RParen, expectSym, Tok.isSym, beq_self_eq_true, if_true, pure, Except.pure]
  rw [trOf_closers0 _ _ (by simp [closers]), remOf_closers0 _ _ _ (by simp [closers]), run_eq_run0 hg]
  rfl

theorem core_union (c : Cfg) (env : Env) (hg : g = false) (n0 : Nat)
    (IH : ∀ t, size t ≤ n0 → FS c env g t) (fs : Fields)
    (k : Nat) (T : List Tok) (f d : Nat) (hp : prod c env (.union fs) = true)
    (hn0 : size (.union fs) ≤ n0 + 1) (hf : size (.union fs) ≤ f + 1) (hd : ndepth (.union fs) ≤ d + 1) :
    parseHelper c (f + 1) (d + 1) (emit c env g (.union fs) k T) =
      finish c f (.union fs) (trOf (.union fs) k) (remOf (.union fs) k T) := by
  simp only [prod, Bool.and_eq_true, Bool.not_eq_true'] at hp
  obtain ⟨⟨hdial, hne⟩, hfs⟩ := hp
  have hh : headOf c .UNION = some .union := by simp [headOf, hdial]
  simp only [size, ndepth] at hn0 hf hd
  have h1 := namedLoop_spec c env n0 IH fs true (run g k ++ T) f d hne hfs (by omega) (by omega) (by omega)
  simp only [emit, kwTok]
  rw [parseHelper]
  simp only [hh, LParen, expectSym, Tok.isSym, beq_self_eq_true, if_true, bind, Except.bind]
  simp only [RParen] at h1
  simp only [h1, RParen, expectSym, Tok.isSym, beq_self_eq_true, if_true, pure, Except.pure]
  rw [trOf_closers0 _ _ (by simp [closers]), remOf_closers0 _ _ _ (by simp [closers]), run_eq_run0 hg]
  rfl

theorem core_nested (c : Cfg) (env : Env) (hg : g = false) (n0 : Nat)
    (IH : ∀ t, size t ≤ n0 → FS c env g t) (fs : Fields)
    (k : Nat) (T : List Tok) (f d : Nat) (hp : prod c env (.nested fs) = true)
    (hn0 : size (.nested fs) ≤ n0 + 1) (hf : size (.nested fs) ≤ f + 1) (hd : ndepth (.nested fs) ≤ d + 1) :
    parseHelper c (f + 1) (d + 1) (emit c env g (.nested fs) k T) =
      finish c f (.nested fs) (trOf (.nested fs) k) (remOf (.nested fs) k T) := by
  simp only [prod, Bool.and_eq_true, Bool.not_eq_true'] at hp
  obtain ⟨⟨hdial, hne⟩, hfs⟩ := hp
  have hh : headOf c .NESTED = some .nested := by simp [headOf, hdial]
  simp only [size, ndepth] at hn0 hf hd
  have h1 := nestedLoop_spec c env n0 IH fs true (run g k ++ T) f d hne hfs (by omega) (by omega) (by omega)
  simp only [emit, kwTok]
  rw [parseHelper]
  simp only [hh, LParen, expectSym, Tok.isSym, beq_self_eq_true, if_true, bind, Except.bind]
  simp only [RParen] at h1
  simp only [h1, RParen, expectSym, Tok.isSym, beq_self_eq_true, if_true, pure, Except.pure]
  rw [trOf_closers0 _ _ (by simp [closers]), remOf_closers0 _ _ _ (by simp [closers]), run_eq_run0 hg]
  rfl

theorem core_structParen (c : Cfg) (env : Env) (hg : g = false) (n0 : Nat)
    (IH : ∀ t, size t ≤ n0 → FS c env g t) (n : Option Ident) (t : DT) (r : Fields)
    (k : Nat) (T : List Tok) (f d : Nat) (hp : prod c env (.struct (.cons n t r) .paren) = true)
    (hn0 : size (.struct (.cons n t r) .paren) ≤ n0 + 1)
    (hf : size (.struct (.cons n t r) .paren) ≤ f + 1) (hd : ndepth (.struct (.cons n t r) .paren) ≤ d + 1) :
    parseHelper c (f + 1) (d + 1) (emit c env g (.struct (.cons n t r) .paren) k T) =
      finish c f (.struct (.cons n t r) .paren) (trOf (.struct (.cons n t r) .paren) k)
        (remOf (.struct (.cons n t r) .paren) k T) := by
  simp only [prod, Bool.and_eq_true] at hp
  obtain ⟨hdk, hfs⟩ := hp
  have hh : headOf c .STRUCT = some .structDuck := by simp [headOf, hdk]
  simp only [size, ndepth] at hn0 hf hd
  have h1 := namedLoop_spec c env n0 IH (.cons n t r) true (run g k ++ T) f d (by simp [Fields.isNil]) hfs
    (by omega) (by omega) (by omega)
  simp only [emit, kwTok]
  rw [parseHelper]
  simp only [hh, LParen, expectSym, Tok.isSym, beq_self_eq_true, if_true, bind, Except.bind]
  simp only [RParen] at h1
  simp only [h1, RParen, expectSym, Tok.isSym, beq_self_eq_true, if_true, pure, Except.pure]
  rw [trOf_closers0 _ _ (by simp [closers]), remOf_closers0 _ _ _ (by simp [closers]), run_eq_run0 hg]
  rfl


-- ------------------------------------------------------------------ cores + suffixes, all types
def emitS (c : Cfg) (env : Env) (g : Bool) (t : DT) (ss : List (Option Nat)) (k : Nat) (T : List Tok) : List Tok :=
  match ss with
  | [] => emit c env g t k T
  | _ :: _ => emit c env g t 0 (sfxToks c ss ++ (run g k ++ T))

def sqOK (c : Cfg) (t : DT) (ss : List (Option Nat)) : Prop :=
  ss ≠ [] → c.lbWord = false ∧ ss.all (szOK c) = true ∧ (closers t = 0 ∨ closers t % 2 = 1)

/-- the helper on a type followed by further `[]` suffixes -/
def PS (c : Cfg) (env : Env) (g : Bool) (t : DT) : Prop :=
  ∀ (ss : List (Option Nat)) (k : Nat) (T : List Tok) (f d : Nat), prod c env t = true → sqOK c t ss →
    Ctx false (applySq t ss) k T → size t + ss.length ≤ f → ndepth t ≤ d →
    parseHelper c f d (emitS c env g t ss k T) =
      .ok (applySq t ss, trOf (applySq t ss) k, remOf (applySq t ss) k T)

theorem FS_of_PS {c : Cfg} {env : Env} {t : DT} (h : PS c env g t) : FS c env g t := by
  intro k T f d hp hc hf hd
  exact h [] k T f d hp (fun hne => absurd rfl hne) hc (by simpa using hf) hd

theorem closers_applySq : ∀ (ss : List (Option Nat)) (t : DT), ss ≠ [] → closers (applySq t ss) = 0
  | [], _, h => absurd rfl h
  | [s], t, _ => by simp [applySq, closers]
  | s :: s2 :: ss, t, _ => by
    simpa [applySq] using closers_applySq (s2 :: ss) (.arraySquare t s) (by simp)

theorem size_ge_two : ∀ (t : DT), 2 ≤ size t
  | .arrayAngle t => by have := size_ge_two t; simp only [size]; omega
  | .arraySquare t _ => by have := size_ge_two t; simp only [size]; omega
  | .arrayParen t => by have := size_ge_two t; simp only [size]; omega
  | .nullable t => by have := size_ge_two t; simp only [size]; omega
  | .lowCardinality t => by have := size_ge_two t; simp only [size]; omega
  | .map a b => by have := size_ge_two a; simp only [size]; omega
  | .tuple _ | .nested _ | .union _ | .struct _ _ => by simp only [size]; omega
  | .simple _ | .withLen _ _ | .int _ _ _ | .charLike _ _ | .exactNum _ _ | .time _ _ _ | .datetime64 _ _
  | .fixedString _ | .custom _ _ | .enum _ | .set _ | .arrayNone => by simp [size]

theorem ndepth_ge_one : ∀ (t : DT), 1 ≤ ndepth t
  | .arraySquare t _ => by have := ndepth_ge_one t; simpa only [ndepth] using this
  | .arrayAngle _ | .arrayParen _ | .nullable _ | .lowCardinality _ | .map _ _ | .tuple _ | .nested _ | .union _
  | .struct _ _ => by simp only [ndepth]; omega
  | .simple _ | .withLen _ _ | .int _ _ _ | .charLike _ _ | .exactNum _ _ | .time _ _ _ | .datetime64 _ _
  | .fixedString _ | .custom _ _ | .enum _ | .set _ | .arrayNone => by simp [ndepth]

theorem sfxToks_head (c : Cfg) (hlb : c.lbWord = false) (s : Option Nat) (ss : List (Option Nat)) (R : List Tok) :
    ∃ r, sfxToks c (s :: ss) ++ R = Tok.sym .LBracket :: r := by
  cases s <;> simp [sfxToks, sqToks, hlb]

theorem core_to_PS (c : Cfg) (env : Env) (hg : g = false) (t : DT)
    (hcore : ∀ (sq : Bool) (k : Nat) (T : List Tok) (f d : Nat), prod c env t = true → Ctx sq t k T →
      size t ≤ f + 1 → ndepth t ≤ d + 1 →
      parseHelper c (f + 1) (d + 1) (emit c env g t k T) = finish c f t (trOf t k) (remOf t k T)) :
    PS c env g t := by
  intro ss k T f d hp hsq hc hf hd
  have hs2 := size_ge_two t
  have hd1 := ndepth_ge_one t
  obtain ⟨f', rfl⟩ : ∃ f', f = f' + 1 := ⟨f - 1, by omega⟩
  obtain ⟨d', rfl⟩ : ∃ d', d = d' + 1 := ⟨d - 1, by omega⟩
  cases ss with
  | nil =>
    simp only [emitS, applySq] at hc ⊢
    rw [hcore false k T f' d' hp hc (by simpa using hf) hd]
    obtain ⟨f'', rfl⟩ : ∃ f'', f' = f'' + 1 := ⟨f' - 1, by simp at hf; omega⟩
    exact finish_ok c f'' t _ _ (noLB_rem hc)
  | cons s ss =>
    obtain ⟨hlb, hsz, hcl⟩ := hsq (by simp)
    have hc0 : closers (applySq t (s :: ss)) = 0 := closers_applySq (s :: ss) t (by simp)
    obtain ⟨r, hr⟩ := sfxToks_head c hlb s ss (run g k ++ T)
    have hctx : Ctx true t 0 (sfxToks c (s :: ss) ++ (run g k ++ T)) := by
      intro _
      rw [hr]
      refine ⟨by simp [followC], by simp [Comma], ?_⟩
      intro _; exact ⟨rfl, rfl, hcl⟩
    simp only [emitS]
    rw [hcore true 0 _ f' d' hp hctx (by simp at hf; omega) hd]
    have h0 : trOf t 0 = false := by simp [trOf]
    have h1 : remOf t 0 (sfxToks c (s :: ss) ++ (run g k ++ T)) = sfxToks c (s :: ss) ++ (run g k ++ T) := by
      simp [remOf, trOf]
    have hnl : consumeSym .LBracket (run g k ++ T) = none := by
      have := noLB_rem hc
      rwa [remOf_closers0 _ _ _ hc0, ← run_eq_run0 hg] at this
    rw [h0, h1, finish, suffix_spec c hlb (s :: ss) f' t (run g k ++ T) hsz hnl (by simp at hf ⊢; omega)]
    simp only [trOf_closers0 _ _ hc0, remOf_closers0 _ _ _ hc0, run_eq_run0 hg]

theorem followC_run {sq : Bool} {t : DT} {k : Nat} {T : List Tok} (hc : Ctx sq t k T) (h0 : closers t = 0)
    {g : Bool} (hg : g = false) : followC (run g k ++ T).head? = true := by
  have := followC_rem hc
  rwa [remOf_closers0 _ _ _ h0, ← run_eq_run0 hg] at this

theorem PS_leaf (c : Cfg) (env : Env) (hg : g = false) (t : DT) (hl : isLeaf t = true)
    (hemit : ∀ k T, emit c env g t k T = pre c env t ++ (run g k ++ T)) (h0 : closers t = 0) : PS c env g t := by
  apply core_to_PS c env hg t
  intro sq k T f d hp hc _ _
  rw [hemit, core_leaf c env f d t _ hl hp (followC_run hc h0 hg), trOf_closers0 _ _ h0, remOf_closers0 _ _ _ h0,
    run_eq_run0 hg]

theorem all_PS (c : Cfg) (env : Env) (hg : g = false) : ∀ (n : Nat) (t : DT), size t ≤ n → PS c env g t := by
  intro n
  induction n with
  | zero => intro t h; have := size_ge_two t; omega
  | succ n ih =>
    have IH : ∀ t, size t ≤ n → FS c env g t := fun t h => FS_of_PS (ih t h)
    intro t hsz
    cases t with
    | arraySquare x sz =>
      intro ss k T f d hp hsq hc hf hd
      simp only [prod, Bool.and_eq_true, Bool.not_eq_true', Bool.or_eq_true, beq_iff_eq] at hp
      obtain ⟨⟨⟨hlb, hx⟩, hcl⟩, hszok⟩ := hp
      simp only [size, ndepth] at hsz hf hd
      have := ih x (by omega) (sz :: ss) k T f d hx
        (fun _ => ⟨hlb, by
          have h1 : szOK c sz = true := by cases sz <;> simpa [szOK] using hszok
          cases ss with
          | nil => simp [h1]
          | cons s ss => simp [h1, (hsq (by simp)).2.1], hcl⟩)
        (by simpa [applySq] using hc) (by simp; omega) hd
      cases ss with
      | nil => simpa [emitS, emit, applySq, sfxToks] using this
      | cons s ss => simpa [emitS, emit, applySq, sfxToks, run_zero] using this
    | arrayAngle x =>
      apply core_to_PS c env hg
      intro sq k T f d hp hc hf hd
      exact core_angle c env x (IH x (by simp [size] at hsz; omega)) sq k T f d hp hc hf hd
    | arrayParen x =>
      apply core_to_PS c env hg
      intro sq k T f d hp hc hf hd
      exact core_arrayParen c env hg x (IH x (by simp [size] at hsz; omega)) k T f d hp hf hd
    | nullable x =>
      apply core_to_PS c env hg
      intro sq k T f d hp hc hf hd
      exact core_nullable c env hg x (IH x (by simp [size] at hsz; omega)) k T f d hp hf hd
    | lowCardinality x =>
      apply core_to_PS c env hg
      intro sq k T f d hp hc hf hd
      exact core_lowCard c env hg x (IH x (by simp [size] at hsz; omega)) k T f d hp hf hd
    | map a b =>
      apply core_to_PS c env hg
      intro sq k T f d hp hc hf hd
      exact core_map c env hg a b (IH a (by simp [size] at hsz; omega)) (IH b (by simp [size] at hsz; omega)) k T f d hp hf hd
    | tuple fs =>
      apply core_to_PS c env hg
      intro sq k T f d hp hc hf hd
      exact core_tuple c env hg n IH fs k T f d hp hsz hf hd
    | nested fs =>
      apply core_to_PS c env hg
      intro sq k T f d hp hc hf hd
      exact core_nested c env hg n IH fs k T f d hp hsz hf hd
    | union fs =>
      apply core_to_PS c env hg
      intro sq k T f d hp hc hf hd
      exact core_union c env hg n IH fs k T f d hp hsz hf hd
    | struct fs b =>
      apply core_to_PS c env hg
      intro sq k T f d hp hc hf hd
      cases fs with
      | nil => exact core_structNil c env hg b sq k T f d hp hc
      | cons nm t r =>
        cases b with
        | paren => exact core_structParen c env hg n IH nm t r k T f d hp hsz hf hd
        | angle => exact core_structAngle c env hg n IH nm t r sq k T f d hp hc hsz hf hd
    | arrayNone =>
      apply core_to_PS c env hg
      intro sq k T f d hp hc hf hd
      exact core_arrayNone c env hg k T f d hp
    | simple x => exact PS_leaf c env hg _ rfl (fun _ _ => rfl) rfl
    | withLen x l => exact PS_leaf c env hg _ rfl (fun _ _ => rfl) rfl
    | int x l u => exact PS_leaf c env hg _ rfl (fun _ _ => rfl) rfl
    | charLike x l => exact PS_leaf c env hg _ rfl (fun _ _ => rfl) rfl
    | exactNum x i => exact PS_leaf c env hg _ rfl (fun _ _ => rfl) rfl
    | time x p z => exact PS_leaf c env hg _ rfl (fun _ _ => rfl) rfl
    | datetime64 p z => exact PS_leaf c env hg _ rfl (fun _ _ => rfl) rfl
    | fixedString n => exact PS_leaf c env hg _ rfl (fun _ _ => rfl) rfl
    | custom nm m => exact PS_leaf c env hg _ rfl (fun _ _ => rfl) rfl
    | enum ls => exact PS_leaf c env hg _ rfl (fun _ _ => rfl) rfl
    | set ls => exact PS_leaf c env hg _ rfl (fun _ _ => rfl) rfl

/-- the helper on the stream of any producible type, any nesting depth -/
theorem helper_emit (c : Cfg) (env : Env) (hg : g = false) (t : DT) : FS c env g t :=
  FS_of_PS (all_PS c env hg (size t) t (Nat.le_refl _))


end SqlVerif.DTy

import SqlVerif.Lemmas.PrintDefs
/-!
The printer of the expression fragment is faithful to what the parser stored (lemmas for C01 / C05).

* Part A: structural facts about `Expr.mapT`, `Expr.norm`, `Expr.pieces`, `Expr.sexp`, `Expr.flatten`
  (`showToks e = e.norm.flatten`, `e.norm.sexp = e.sexp`, `norm` is idempotent and invisible to the
  printer, a tree is determined by its `mapT` skeleton together with its yield).
* Part B: `faithful_all`, by simultaneous induction on the fuel like `yield_all` / `shape_all`: every
  printable tree the parser builds stores, up to `canon1`, exactly the tokens the printer emits for it
  (`e.norm.mapT canon1 = e.mapT canon1`).  One lemma per non-recursive head function first.
* Part C: `faithful`, the corollary on token lists (`Sim e.flatten (showToks e)`), and `faithful_content`.

`flatten_mapT` carries two hypotheses the naive statement lacks: `flatten` itself adds the parentheses
of `nested` / `inList` / `quant`, so the map has to fix `(` and `)` (counterexample at the end).
-/
namespace SqlVerif.Pratt

-- ------------------------------------------------------------------ A.0 pieces / token lists
@[simp] theorem toksOf_nil : toksOf [] = [] := rfl
@[simp] theorem toksOf_cons (p : Piece) (ps : List Piece) : toksOf (p :: ps) = p.tok :: toksOf ps := rfl
@[simp] theorem toksOf_append (a b : List Piece) : toksOf (a ++ b) = toksOf a ++ toksOf b := by
  simp [toksOf]
@[simp] theorem toksOf_glued (ps : List Piece) : toksOf (glued ps) = toksOf ps := by
  cases ps <;> simp [glued, toksOf]
@[simp] theorem toksOf_spaced (ps : List Piece) : toksOf (spaced ps) = toksOf ps := by
  cases ps <;> simp [spaced, toksOf]
@[simp] theorem toksOf_ite (c : Prop) [Decidable c] (a b : List Piece) :
    toksOf (if c then a else b) = if c then toksOf a else toksOf b := by
  split <;> rfl

@[simp] theorem kwP_tok (sp : Bool) (n : String) : (kwP sp n).tok = kwT n := rfl
@[simp] theorem symP_tok (sp : Bool) (s : Sym) : (symP sp s).tok = .sym s := rfl
@[simp] theorem binOpP_tok (sp : Bool) (o : BinOp) : (binOpP sp o).tok = o.tok := rfl
@[simp] theorem unOpP_tok (o : UnOp) : (unOpP o).tok = o.tok := by
  cases o <;> rfl
@[simp] theorem identPiece_tok (sp : Bool) (t : Tok) : (identPiece sp t).tok = t := by
  unfold identPiece; split <;> rfl

theorem toksOf_showToks (e : Expr) : showToks e = toksOf e.pieces := rfl

-- ------------------------------------------------------------------ A.1 flatten / mapT
/-- `flatten_mapT` needs the map to fix the two parentheses that `flatten` adds by itself
(`nested`, `inList`, `quant`); without that it is false, e.g. `m = fun _ => .sym .Comma`,
`e = .nested (.atom .ident [])`. -/
theorem flatten_mapT (m : Tok → Tok) (hl : m (.sym .LParen) = .sym .LParen)
    (hr : m (.sym .RParen) = .sym .RParen) (e : Expr) : (e.mapT m).flatten = e.flatten.map m := by
  induction e <;> simp_all [Expr.mapT, Expr.flatten]

theorem flatten_mapT_canon (e : Expr) : (e.mapT canon).flatten = e.flatten.map canon :=
  flatten_mapT canon rfl rfl e

theorem flatten_mapT_canon1 (e : Expr) : (e.mapT canon1).flatten = e.flatten.map canon1 :=
  flatten_mapT canon1 rfl rfl e

theorem length_flatten_mapT (m : Tok → Tok) (e : Expr) :
    (e.mapT m).flatten.length = e.flatten.length := by
  induction e <;> simp_all [Expr.mapT, Expr.flatten]

-- ------------------------------------------------------------------ A.2
theorem mapT_mapT (f g : Tok → Tok) (e : Expr) : (e.mapT f).mapT g = e.mapT (g ∘ f) := by
  induction e <;> simp_all [Expr.mapT]

theorem canon_canon1 (t : Tok) : canon (canon1 t) = canon t := by
  unfold canon1
  split
  · simp only [canon]
    split <;> simp_all
  · rfl
  · rfl

theorem mapT_canon_of_canon1 {e1 e2 : Expr} (h : e1.mapT canon1 = e2.mapT canon1) :
    e1.mapT canon = e2.mapT canon := by
  have hc : canon ∘ canon1 = canon := funext canon_canon1
  have := congrArg (Expr.mapT canon) h
  rwa [mapT_mapT, mapT_mapT, hc] at this

-- ------------------------------------------------------------------ A.3
theorem showToks_eq (e : Expr) : showToks e = e.norm.flatten := by
  simp only [toksOf_showToks]
  fun_induction Expr.norm e <;>
    simp_all [Expr.pieces, Expr.flatten, likeOps, Expr.isNil]
  · rename_i o t e ih; cases o <;> simp [Expr.pieces, ih, UnOp.tok, apply_ite toksOf]
  · rename_i e sep rest ih2 ih1
    cases rest <;> simp_all [Expr.norm, Expr.flatten]

-- ------------------------------------------------------------------ A.4
theorem atomSexp_norm (k : AtomKind) (toks : List Tok) :
    atomSexp k (toksOf (atomPieces k toks)) = atomSexp k toks := by
  unfold atomPieces
  split <;> simp [toksOf, atomSexp, Function.comp_def]

theorem castType_norm (ops : List Tok) : castType (toksOf (castPieces ops)) = castType ops := by
  unfold castPieces
  split
  · simp [castType, kwTi]
  · simp [castType]

theorem escSexp_norm (esc : List Tok) : escSexp (toksOf (escPieces esc)) = escSexp esc := by
  unfold escPieces escValue
  split <;> (rename_i h; split at h) <;> simp_all [escSexp]

private theorem congr2 {α β γ : Type} (f : α → β → γ) {a a' : α} {b b' : β} (h1 : a = a') (h2 : b = b') :
    f a b = f a' b' := by subst h1; subst h2; rfl

-- (the equation lemmas of `Expr.sexp` are too expensive to generate; each case holds by `rfl`)
theorem norm_sexp (e : Expr) : e.norm.sexp = e.sexp := by
  induction e with
  | atom k toks => exact atomSexp_norm k toks
  | nested e ih => exact congrArg (fun s => "(nested " ++ s ++ ")") ih
  | pre o t e ih => exact congrArg (fun s => "(un " ++ o.name ++ " " ++ s ++ ")") ih
  | bin k l ops r ihl ihr =>
    cases k with
    | op o => exact congr2 (fun a b => "(bin " ++ o.name ++ " " ++ a ++ " " ++ b ++ ")") ihl ihr
    | isDistinct neg => exact congr2 (fun a b => "(isdf " ++ b01 neg ++ " " ++ a ++ " " ++ b ++ ")") ihl ihr
    | atTz => exact congr2 (fun a b => "(attz " ++ a ++ " " ++ b ++ ")") ihl ihr
    | like k neg any =>
      exact congr2 (fun a b => "(like " ++ k.name ++ " " ++ b01 neg ++ " " ++ b01 any ++ " " ++ a ++ " " ++ b ++ " none)") ihl ihr
  | post k l ops ih =>
    cases k with
    | is k => exact congrArg (fun a => "(is " ++ k.name ++ " " ++ a ++ ")") ih
    | cast => exact congr2 (fun a b => "(cast " ++ a ++ " " ++ hx b ++ ")") ih (castType_norm ops)
    | factorial => exact congrArg (fun a => "(un PGPostfixFactorial " ++ a ++ ")") ih
  | between neg l ops lo a hi ih1 ih2 ih3 =>
    show "(between " ++ b01 neg ++ " " ++ l.norm.sexp ++ " " ++ lo.norm.sexp ++ " " ++ hi.norm.sexp ++ ")" = _
    rw [ih1, ih2, ih3]; rfl
  | likeEsc k neg any l ops pat esc ih1 ih2 =>
    show "(like " ++ k.name ++ " " ++ b01 neg ++ " " ++ b01 any ++ " " ++ l.norm.sexp ++ " " ++ pat.norm.sexp ++ " " ++
      escSexp (toksOf (escPieces esc)) ++ ")" = _
    rw [ih1, ih2, escSexp_norm]; rfl
  | inList neg l ops items ih1 ih2 =>
    exact congr2 (fun a b => "(inlist " ++ b01 neg ++ " " ++ a ++ " (list" ++ b ++ "))") ih1 ih2
  | quant o q l ops r ih1 ih2 =>
    cases q with
    | all => exact congr2 (fun a b => "(all " ++ o.name ++ " " ++ a ++ " " ++ b ++ ")") ih1 ih2
    | any => exact congr2 (fun a b => "(any " ++ o.name ++ " 0 " ++ a ++ " " ++ b ++ ")") ih1 ih2
    | some => exact congr2 (fun a b => "(any " ++ o.name ++ " 1 " ++ a ++ " " ++ b ++ ")") ih1 ih2
  | lcons e sep rest ih1 ih2 => exact congr2 (fun a b => " " ++ a ++ b) ih1 ih2
  | lnil => rfl

-- ------------------------------------------------------------------ A.5
theorem atomPieces_norm (k : AtomKind) (toks : List Tok) :
    atomPieces k (toksOf (atomPieces k toks)) = atomPieces k toks := by
  fun_cases atomPieces k toks <;> simp [atomPieces, toksOf, Function.comp_def]

theorem castPieces_norm (ops : List Tok) : castPieces (toksOf (castPieces ops)) = castPieces ops := by
  fun_cases castPieces ops <;> simp [castPieces, kwTi]

theorem escPieces_norm (esc : List Tok) : escPieces (toksOf (escPieces esc)) = escPieces esc := by
  cases h : escValue esc <;> (unfold escPieces; rw [h]; simp [escValue, toksOf])

theorem isNil_norm (e : Expr) : e.norm.isNil = e.isNil := by
  cases e <;> try (simp [Expr.norm, Expr.isNil]; done)
  case bin k _ _ _ => cases k <;> simp [Expr.norm, Expr.isNil]
  case post k _ _ => cases k <;> simp [Expr.norm, Expr.isNil]

theorem pieces_norm (e : Expr) : e.norm.pieces = e.pieces := by
  fun_induction Expr.norm e <;>
    try (simp_all [Expr.pieces, isNil_norm, atomPieces_norm, castPieces_norm, escPieces_norm]; done)
  rename_i o t e ih
  have hh : e.norm.headIsSign = e.headIsSign := by
    cases e <;> try (simp [Expr.norm, Expr.headIsSign]; done)
    case bin k _ _ _ => cases k <;> simp [Expr.norm, Expr.headIsSign]
    case post k _ _ => cases k <;> simp [Expr.norm, Expr.headIsSign]
  cases o <;> simp [Expr.pieces, ih, hh]

theorem norm_norm (e : Expr) : e.norm.norm = e.norm := by
  fun_induction Expr.norm e <;>
    try (simp_all [Expr.norm, isNil_norm, atomPieces_norm, castPieces_norm, escPieces_norm]; done)

-- ------------------------------------------------------------------ A.6
theorem len_of_mapT {m : Tok → Tok} {a b : Expr} (h : a.mapT m = b.mapT m) :
    a.flatten.length = b.flatten.length := by
  have := length_flatten_mapT m a
  rw [h, length_flatten_mapT] at this
  exact this.symm

theorem len_of_map {m : Tok → Tok} {a b : List Tok} (h : a.map m = b.map m) : a.length = b.length := by
  simpa using congrArg List.length h

theorem mapT_flatten_inj (m : Tok → Tok) :
    ∀ e1 e2 : Expr, e1.mapT m = e2.mapT m → e1.flatten = e2.flatten → e1 = e2 := by
  intro e1
  induction e1 with
  | atom k toks => intro e2 h1 h2; cases e2 <;> simp_all [Expr.mapT, Expr.flatten]
  | nested e ih =>
    intro e2 h1 h2; cases e2 <;> simp [Expr.mapT] at h1
    simp [Expr.flatten] at h2
    rw [ih _ h1 h2]
  | pre o t e ih =>
    intro e2 h1 h2; cases e2 <;> simp [Expr.mapT] at h1
    simp [Expr.flatten] at h2
    obtain ⟨rfl, -, h1⟩ := h1
    rw [ih _ h1 h2.2, h2.1]
  | bin k l ops r ihl ihr =>
    intro e2 h1 h2; cases e2 <;> simp [Expr.mapT] at h1
    obtain ⟨rfl, hl, ho, hr⟩ := h1
    simp only [Expr.flatten, List.append_assoc] at h2
    obtain ⟨a1, h2⟩ := List.append_inj h2 (len_of_mapT hl)
    obtain ⟨a2, a3⟩ := List.append_inj h2 (len_of_map ho)
    rw [ihl _ hl a1, ihr _ hr a3, a2]
  | post k l ops ih =>
    intro e2 h1 h2; cases e2 <;> simp [Expr.mapT] at h1
    obtain ⟨rfl, hl, ho⟩ := h1
    simp only [Expr.flatten] at h2
    obtain ⟨a1, a2⟩ := List.append_inj h2 (len_of_mapT hl)
    rw [ih _ hl a1, a2]
  | between neg l ops lo a hi ih1 ih2 ih3 =>
    intro e2 h1 h2; cases e2 <;> simp [Expr.mapT] at h1
    obtain ⟨rfl, hl, ho, hlo, ha, hhi⟩ := h1
    simp only [Expr.flatten, List.append_assoc] at h2
    obtain ⟨a1, h2⟩ := List.append_inj h2 (len_of_mapT hl)
    obtain ⟨a2, h2⟩ := List.append_inj h2 (len_of_map ho)
    obtain ⟨a3, h2⟩ := List.append_inj h2 (len_of_mapT hlo)
    simp at h2
    rw [ih1 _ hl a1, ih2 _ hlo a3, ih3 _ hhi h2.2, a2, h2.1]
  | likeEsc k neg any l ops pat esc ih1 ih2 =>
    intro e2 h1 h2; cases e2 <;> simp [Expr.mapT] at h1
    obtain ⟨rfl, rfl, rfl, hl, ho, hpat, hesc⟩ := h1
    simp only [Expr.flatten, List.append_assoc] at h2
    obtain ⟨a1, h2⟩ := List.append_inj h2 (len_of_mapT hl)
    obtain ⟨a2, h2⟩ := List.append_inj h2 (len_of_map ho)
    obtain ⟨a3, a4⟩ := List.append_inj h2 (len_of_mapT hpat)
    rw [ih1 _ hl a1, ih2 _ hpat a3, a2, a4]
  | inList neg l ops items ih1 ih2 =>
    intro e2 h1 h2; cases e2 <;> simp [Expr.mapT] at h1
    obtain ⟨rfl, hl, ho, hit⟩ := h1
    simp only [Expr.flatten, List.append_assoc] at h2
    obtain ⟨a1, h2⟩ := List.append_inj h2 (len_of_mapT hl)
    obtain ⟨a2, h2⟩ := List.append_inj h2 (len_of_map ho)
    obtain ⟨a3, -⟩ := List.append_inj h2 (len_of_mapT hit)
    rw [ih1 _ hl a1, ih2 _ hit a3, a2]
  | quant o q l ops r ih1 ih2 =>
    intro e2 h1 h2; cases e2 <;> simp [Expr.mapT] at h1
    obtain ⟨rfl, rfl, hl, ho, hr⟩ := h1
    simp only [Expr.flatten, List.append_assoc] at h2
    obtain ⟨a1, h2⟩ := List.append_inj h2 (len_of_mapT hl)
    obtain ⟨a2, h2⟩ := List.append_inj h2 (len_of_map ho)
    obtain ⟨a3, -⟩ := List.append_inj h2 (len_of_mapT hr)
    rw [ih1 _ hl a1, ih2 _ hr a3, a2]
  | lcons e sep rest ih1 ih2 =>
    intro e2 h1 h2; cases e2 <;> simp [Expr.mapT] at h1
    obtain ⟨hl, ho, hr⟩ := h1
    simp only [Expr.flatten, List.append_assoc] at h2
    obtain ⟨a1, h2⟩ := List.append_inj h2 (len_of_mapT hl)
    obtain ⟨a2, a3⟩ := List.append_inj h2 (len_of_map ho)
    rw [ih1 _ hl a1, ih2 _ hr a3, a2]
  | lnil => intro e2 h1 h2; cases e2 <;> simp [Expr.mapT] at h1; rfl

-- ------------------------------------------------------------------ A.7
theorem contentOf_canon1 (t : Tok) : contentOf (canon1 t) = contentOf t := by
  unfold canon1
  split <;> simp [contentOf]

theorem content_of_sim1 {a b : List Tok} (h : a.map canon1 = b.map canon1) :
    a.filterMap contentOf = b.filterMap contentOf := by
  have e : ∀ l : List Tok, l.filterMap contentOf = (l.map canon1).filterMap contentOf := by
    intro l; rw [List.filterMap_map]; congr 1; funext t; exact (contentOf_canon1 t).symm
  rw [e a, e b, h]


-- ------------------------------------------------------------------ B.0 keyword tokens

def KwC.kw : KwC → Option Nat
  | .or => some KW.OR | .and => some KW.AND | .xor => some KW.XOR | .at => some KW.AT | .not => some KW.NOT
  | .is => some KW.IS | .in_ => some KW.IN | .between => some KW.BETWEEN | .like => some KW.LIKE
  | .ilike => some KW.ILIKE | .rlike => some KW.RLIKE | .regexp => some KW.REGEXP | .similar => some KW.SIMILAR
  | .operator => some KW.OPERATOR | .div => some KW.DIV | .collate => some KW.COLLATE | .other => none

private theorem ite_chain {k a : Nat} {x y c : KwC} (h : (if (k == a) = true then x else y) = c) :
    (k = a ∧ x = c) ∨ y = c := by
  split at h
  · exact .inl ⟨by simpa using ‹(k == a) = true›, h⟩
  · exact .inr h

theorem kwClass_kw' (k : Nat) (c : KwC) (h : kwClass k = c) (k' : Nat) (hk : c.kw = some k') : k = k' := by
  unfold kwClass at h
  iterate 16
    (rcases ite_chain h with ⟨h1, h2⟩ | h'
     · subst h2; simp only [KwC.kw, Option.some.injEq] at hk; rw [← hk]; exact h1
     clear h; have h := h'; clear h')
  subst h; simp [KwC.kw] at hk

theorem kwClass_kw (k k' : Nat) (h : (kwClass k).kw = some k') : k = k' := kwClass_kw' k _ rfl k' h

/-- image of a clean keyword token -/
def kwImg (k : Nat) : Tok := .word [] none (some k)

theorem canon1_of_isKw {t : Tok} {k : Nat} (h : t.isKw k = true) (hc : kwClean t = true) :
    canon1 t = kwImg k := by
  unfold Tok.isKw at h
  split at h
  · simp at h; subst h; simp_all [kwClean, canon1, kwImg]
  · simp at h

theorem canon1_of_kwc {t : Tok} {k : Nat} (h : t.kwc.kw = some k) (hc : kwClean t = true) :
    canon1 t = kwImg k := by
  unfold Tok.kwc at h
  split at h
  · have := kwClass_kw _ _ h; subst this; simp_all [kwClean, canon1, kwImg]
  · simp [KwC.kw] at h

theorem canon1_kwT (n : String) (h : ((str n).head? == some 95) = false) :
    canon1 (kwT n) = kwImg (kwIndex n) := by
  simp only [kwT, canon1, h]; rfl

theorem canon1_word_some (v : W) (q : Option Nat) (k : Nat) (h : (v.head? == some 95) = false) :
    canon1 (.word v q (some k)) = kwImg k := by
  simp [canon1, kwImg, h]

@[simp] theorem canon1_kwT_AND : canon1 (kwT "AND") = kwImg KW.AND := canon1_kwT "AND" (by decide)
@[simp] theorem canon1_kwT_OR : canon1 (kwT "OR") = kwImg KW.OR := canon1_kwT "OR" (by decide)
@[simp] theorem canon1_kwT_XOR : canon1 (kwT "XOR") = kwImg KW.XOR := canon1_kwT "XOR" (by decide)
@[simp] theorem canon1_kwT_DIV : canon1 (kwT "DIV") = kwImg KW.DIV := canon1_kwT "DIV" (by decide)
@[simp] theorem canon1_kwT_NOT : canon1 (kwT "NOT") = kwImg KW.NOT := canon1_kwT "NOT" (by decide)
@[simp] theorem canon1_kwT_IS : canon1 (kwT "IS") = kwImg KW.IS := canon1_kwT "IS" (by decide)
@[simp] theorem canon1_kwT_DISTINCT : canon1 (kwT "DISTINCT") = kwImg KW.DISTINCT := canon1_kwT "DISTINCT" (by decide)
@[simp] theorem canon1_kwT_FROM : canon1 (kwT "FROM") = kwImg KW.FROM := canon1_kwT "FROM" (by decide)
@[simp] theorem canon1_kwT_AT : canon1 (kwT "AT") = kwImg KW.AT := canon1_kwT "AT" (by decide)
@[simp] theorem canon1_kwT_TIME : canon1 (kwT "TIME") = kwImg KW.TIME := canon1_kwT "TIME" (by decide)
@[simp] theorem canon1_kwT_ZONE : canon1 (kwT "ZONE") = kwImg KW.ZONE := canon1_kwT "ZONE" (by decide)
@[simp] theorem canon1_kwT_LIKE : canon1 (kwT "LIKE") = kwImg KW.LIKE := canon1_kwT "LIKE" (by decide)
@[simp] theorem canon1_kwT_ILIKE : canon1 (kwT "ILIKE") = kwImg KW.ILIKE := canon1_kwT "ILIKE" (by decide)
@[simp] theorem canon1_kwT_SIMILAR : canon1 (kwT "SIMILAR") = kwImg KW.SIMILAR := canon1_kwT "SIMILAR" (by decide)
@[simp] theorem canon1_kwT_TO : canon1 (kwT "TO") = kwImg KW.TO := canon1_kwT "TO" (by decide)
@[simp] theorem canon1_kwT_RLIKE : canon1 (kwT "RLIKE") = kwImg KW.RLIKE := canon1_kwT "RLIKE" (by decide)
@[simp] theorem canon1_kwT_REGEXP : canon1 (kwT "REGEXP") = kwImg KW.REGEXP := canon1_kwT "REGEXP" (by decide)
@[simp] theorem canon1_kwT_ANY : canon1 (kwT "ANY") = kwImg KW.ANY := canon1_kwT "ANY" (by decide)
@[simp] theorem canon1_kwT_ALL : canon1 (kwT "ALL") = kwImg KW.ALL := canon1_kwT "ALL" (by decide)
@[simp] theorem canon1_kwT_SOME : canon1 (kwT "SOME") = kwImg KW.SOME := canon1_kwT "SOME" (by decide)
@[simp] theorem canon1_kwT_NULL : canon1 (kwT "NULL") = kwImg KW.NULL := canon1_kwT "NULL" (by decide)
@[simp] theorem canon1_kwT_TRUE : canon1 (kwT "TRUE") = kwImg KW.TRUE := canon1_kwT "TRUE" (by decide)
@[simp] theorem canon1_kwT_FALSE : canon1 (kwT "FALSE") = kwImg KW.FALSE := canon1_kwT "FALSE" (by decide)
@[simp] theorem canon1_kwT_UNKNOWN : canon1 (kwT "UNKNOWN") = kwImg KW.UNKNOWN := canon1_kwT "UNKNOWN" (by decide)
@[simp] theorem canon1_kwT_BETWEEN : canon1 (kwT "BETWEEN") = kwImg KW.BETWEEN := canon1_kwT "BETWEEN" (by decide)
@[simp] theorem canon1_kwT_IN : canon1 (kwT "IN") = kwImg KW.IN := canon1_kwT "IN" (by decide)
@[simp] theorem canon1_kwT_ESCAPE : canon1 (kwT "ESCAPE") = kwImg KW.ESCAPE := canon1_kwT "ESCAPE" (by decide)

theorem canon1_kwc_or {t : Tok} (h : t.kwc = .or) (hc : kwClean t = true) : canon1 t = kwImg KW.OR :=
  canon1_of_kwc (by rw [h]; rfl) hc
theorem canon1_kwc_and {t : Tok} (h : t.kwc = .and) (hc : kwClean t = true) : canon1 t = kwImg KW.AND :=
  canon1_of_kwc (by rw [h]; rfl) hc
theorem canon1_kwc_xor {t : Tok} (h : t.kwc = .xor) (hc : kwClean t = true) : canon1 t = kwImg KW.XOR :=
  canon1_of_kwc (by rw [h]; rfl) hc
theorem canon1_kwc_at {t : Tok} (h : t.kwc = .at) (hc : kwClean t = true) : canon1 t = kwImg KW.AT :=
  canon1_of_kwc (by rw [h]; rfl) hc
theorem canon1_kwc_not {t : Tok} (h : t.kwc = .not) (hc : kwClean t = true) : canon1 t = kwImg KW.NOT :=
  canon1_of_kwc (by rw [h]; rfl) hc
theorem canon1_kwc_is {t : Tok} (h : t.kwc = .is) (hc : kwClean t = true) : canon1 t = kwImg KW.IS :=
  canon1_of_kwc (by rw [h]; rfl) hc
theorem canon1_kwc_in_ {t : Tok} (h : t.kwc = .in_) (hc : kwClean t = true) : canon1 t = kwImg KW.IN :=
  canon1_of_kwc (by rw [h]; rfl) hc
theorem canon1_kwc_between {t : Tok} (h : t.kwc = .between) (hc : kwClean t = true) : canon1 t = kwImg KW.BETWEEN :=
  canon1_of_kwc (by rw [h]; rfl) hc
theorem canon1_kwc_like {t : Tok} (h : t.kwc = .like) (hc : kwClean t = true) : canon1 t = kwImg KW.LIKE :=
  canon1_of_kwc (by rw [h]; rfl) hc
theorem canon1_kwc_ilike {t : Tok} (h : t.kwc = .ilike) (hc : kwClean t = true) : canon1 t = kwImg KW.ILIKE :=
  canon1_of_kwc (by rw [h]; rfl) hc
theorem canon1_kwc_rlike {t : Tok} (h : t.kwc = .rlike) (hc : kwClean t = true) : canon1 t = kwImg KW.RLIKE :=
  canon1_of_kwc (by rw [h]; rfl) hc
theorem canon1_kwc_regexp {t : Tok} (h : t.kwc = .regexp) (hc : kwClean t = true) : canon1 t = kwImg KW.REGEXP :=
  canon1_of_kwc (by rw [h]; rfl) hc
theorem canon1_kwc_similar {t : Tok} (h : t.kwc = .similar) (hc : kwClean t = true) : canon1 t = kwImg KW.SIMILAR :=
  canon1_of_kwc (by rw [h]; rfl) hc
theorem canon1_kwc_div {t : Tok} (h : t.kwc = .div) (hc : kwClean t = true) : canon1 t = kwImg KW.DIV :=
  canon1_of_kwc (by rw [h]; rfl) hc

theorem simpleTypes_all_clean : simpleTypes.all (fun k => !((kwName k).head? == some 95)) = true := by
  decide +kernel

theorem simpleTypes_clean (k : Nat) (h : simpleTypes.contains k = true) :
    ((kwName k).head? == some 95) = false := by
  have := List.all_eq_true.1 simpleTypes_all_clean k (by simpa using h)
  simpa using this

-- ------------------------------------------------------------------ B.1 node-level unfoldings
/-- the operator tokens the printer emits for a `bin` node -/
def binOps : BinKind → List Tok
  | .op o => [o.tok]
  | .isDistinct neg => toksOf ([kwP true "IS"] ++ notP neg ++ [kwP true "DISTINCT", kwP true "FROM"])
  | .atTz => [kwT "AT", kwT "TIME", kwT "ZONE"]
  | .like k neg any => likeOps k neg any

def postOps : PostKind → List Tok → List Tok
  | .is k, _ => toksOf ([kwP true "IS"] ++ k.pieces)
  | .cast, ops => toksOf (castPieces ops)
  | .factorial, _ => [.sym .ExclamationMark]

/-- the `REGEXP RLIKE` exclusion of `printable` -/
def binOK : BinKind → List Tok → Bool
  | .like .Regexp neg _, ops => ops.length == (if neg then 2 else 1)
  | _, _ => true

theorem norm_bin (k : BinKind) (l : Expr) (ops : List Tok) (r : Expr) :
    (Expr.bin k l ops r).norm = .bin k l.norm (binOps k) r.norm := by
  cases k <;> rfl

theorem norm_post (k : PostKind) (l : Expr) (ops : List Tok) :
    (Expr.post k l ops).norm = .post k l.norm (postOps k ops) := by
  cases k <;> rfl

theorem printable_bin (k : BinKind) (l : Expr) (ops : List Tok) (r : Expr) :
    (Expr.bin k l ops r).printable = (binOK k ops && ops.all kwClean && l.printable && r.printable) := by
  cases k with
  | like k neg any => cases k <;> simp [Expr.printable, binOK]
  | _ => simp [Expr.printable, binOK]

-- ------------------------------------------------------------------ B.2 head functions
theorem binOpOf_tok (c : Cfg) (t : Tok) (o : BinOp) (h : binOpOf c t = .op o) (hc : kwClean t = true) :
    canon1 t = canon1 o.tok := by
  unfold binOpOf at h
  repeat' split at h
  all_goals first
    | (simp at h; done)
    | (simp at h; subst h; rfl)
    | (simp at h; subst h; rename_i hk; simp [BinOp.tok, canon1_kwc_and, canon1_kwc_or, canon1_kwc_xor, hk, hc]; done)

theorem canon1_true : canon1 (.word (str "true") none (some KW.TRUE)) = kwImg KW.TRUE :=
  canon1_word_some _ _ _ (by decide)

theorem canon1_false : canon1 (.word (str "false") none (some KW.FALSE)) = kwImg KW.FALSE :=
  canon1_word_some _ _ _ (by decide)

theorem canon1_clean_word {v : W} {q : Option Nat} {k : Nat} (h : kwClean (.word v q (some k)) = true) :
    canon1 (.word v q (some k)) = kwImg k :=
  canon1_word_some _ _ _ (by simpa [kwClean] using h)

def PrefixPlan.Faithful : PrefixPlan → Prop
  | .atom k toks _ => atomPrintable k toks = true → toks.all kwClean = true →
      toks.map canon1 = (toksOf (atomPieces k toks)).map canon1
  | .pre o t _ _ => kwClean t = true → canon1 t = canon1 o.tok
  | .paren _ => True

theorem wordTail_faithful (c : Cfg) (t : Tok) (v : W) (rest : List Tok) (plan : PrefixPlan)
    (h : wordTail c t v rest = .ok plan) : plan.Faithful := by
  unfold wordTail at h
  repeat' split at h
  all_goals first
    | (simp at h; done)
    | (simp at h; subst h; simp [PrefixPlan.Faithful, atomPieces, toksOf, Function.comp_def])

theorem prefixHead_faithful (c : Cfg) (ts : List Tok) (plan : PrefixPlan)
    (h : prefixHead c ts = .ok plan) : plan.Faithful := by
  unfold prefixHead at h
  repeat' split at h
  all_goals first
    | (simp at h; done)
    | exact wordTail_faithful _ _ _ _ _ h
    | (simp at h; subst h; simp [PrefixPlan.Faithful, atomPieces, toksOf, atomPrintable, UnOp.tok]; done)
    | (simp at h; subst h
       simp_all [PrefixPlan.Faithful, atomPieces, toksOf, atomPrintable, UnOp.tok, canon1_true, canon1_false,
         canon1_clean_word]
       done)
    | (simp_all; done)

theorem eatKws_canon (ts : List Tok) (ks : List Nat) (ops rest : List Tok)
    (h : eatKws ts ks = some (ops, rest)) (hc : ops.all kwClean = true) : ops.map canon1 = ks.map kwImg := by
  induction ks generalizing ts ops rest with
  | nil => simp [eatKws] at h; simp [h]
  | cons k ks ih =>
    unfold eatKws at h
    split at h
    · simp at h
    · rename_i t r hk
      split at h
      · simp at h
      · rename_i ops' rest' hr
        simp at h
        obtain ⟨rfl, rfl⟩ := h
        simp at hc
        have h1 := ih _ _ _ hr (by simpa using hc.2)
        have h2 := canon1_of_isKw ((eatKw_some_iff _ _ _ _).1 hk).2 hc.1
        simp [h1, h2]

def IsPlan.Faithful : IsPlan → Prop
  | .post ik ops _ => ops.all kwClean = true → ops.map canon1 = (toksOf ik.pieces).map canon1
  | .distinct neg ops _ => ops.all kwClean = true →
      ops.map canon1 = (toksOf (notP neg ++ [kwP true "DISTINCT", kwP true "FROM"])).map canon1

theorem isTail_faithful (ts : List Tok) (p : IsPlan) (h : isTail ts = some p) : p.Faithful := by
  unfold isTail at h
  repeat' split at h
  all_goals first
    | (simp at h; done)
    | (rename_i hh; have := eatKws_canon _ _ _ _ hh; simp at h; subst h
       simp only [IsPlan.Faithful]; intro hc
       simp [this hc, IsKind.pieces, notP])

def InfixPlan.Faithful : InfixPlan → Prop
  | .right k ops _ _ => binOK k ops = true → ops.all kwClean = true → ops.map canon1 = (binOps k).map canon1
  | .post k ops _ => ops.all kwClean = true → ops.map canon1 = (postOps k ops).map canon1
  | .like k neg any ops _ => ops.all kwClean = true → ops.map canon1 = (likeOps k neg any).map canon1
  | .between neg ops _ => ops.all kwClean = true →
      ops.map canon1 = (toksOf (notP neg ++ [kwP true "BETWEEN"])).map canon1
  | .inl neg ops _ => ops.all kwClean = true →
      ops.map canon1 = (toksOf (notP neg ++ [kwP true "IN", symP true .LParen])).map canon1
  | .quant o qk ops _ _ => ops.all kwClean = true →
      ops.map canon1 = [o.tok, qk.piece.tok, .sym .LParen].map canon1

theorem notFamilyTail_faithful (c : Cfg) (neg : Bool) (pre ts : List Tok) (plan : InfixPlan)
    (h : notFamilyTail c neg pre ts = .ok plan)
    (hpre : pre.all kwClean = true → pre.map canon1 = (toksOf (notP neg)).map canon1)
    (hlen : pre.length = if neg then 1 else 0) : plan.Faithful := by
  unfold notFamilyTail at h
  repeat' split at h
  all_goals first
    | (simp at h; done)
    | (simp at h; subst h; simp only [InfixPlan.Faithful, binOps, likeOps]
       simp only [List.all_append, Bool.and_eq_true, List.map_append, toksOf_append]
       intros
       cases neg <;>
       simp_all [canon1_kwc_regexp, canon1_kwc_rlike, canon1_kwc_in_, canon1_kwc_between, canon1_kwc_like,
         canon1_kwc_ilike, canon1_kwc_similar, eatKw_some_iff, canon1_of_isKw (k := KW.ANY),
         canon1_of_isKw (k := KW.TO), LikeKind.pieces, binOK, notP]
       all_goals (obtain ⟨a, rfl, ha⟩ := hpre; simp [ha]))

theorem infixHead_faithful (c : Cfg) (d q : Nat) (ts : List Tok) (plan : InfixPlan)
    (h : infixHead c d q ts = .ok plan) : plan.Faithful := by
  unfold infixHead at h
  split at h
  · simp [noInfix, debugTok] at h
  · rename_i t rest
    split at h
    · -- MySQL DIV
      rename_i hd
      simp at h; subst h
      simp at hd
      simp only [InfixPlan.Faithful, binOps]
      intro _ hc
      simp at hc
      simp [canon1_kwc_div hd.2 hc, BinOp.tok]
    · split at h
      · simp at h
      · -- regular operator
        rename_i o ho
        have ht := binOpOf_tok c t o ho
        repeat' split at h
        all_goals first
          | (simp at h; done)
          | (simp at h; subst h; simp only [InfixPlan.Faithful, binOps]; intro _ hc; simp at hc; simp [ht hc]; done)
          | (simp at h; subst h; simp only [InfixPlan.Faithful]; intro hc; simp at hc
             simp_all [Quant.piece, canon1_of_isKw (k := KW.ALL), canon1_of_isKw (k := KW.ANY),
               canon1_of_isKw (k := KW.SOME)]
             done)
      · -- no regular operator
        split at h
        · -- word
          split at h
          case h_1 =>
            rename_i hk
            repeat' split at h
            all_goals first
              | (simp at h; done)
              | (rename_i hh; have hf := isTail_faithful _ _ hh; simp only [IsPlan.Faithful] at hf
                 simp at h; subst h; simp only [InfixPlan.Faithful, postOps, binOps]; intros
                 simp_all [canon1_kwc_is]
                 done)
          case h_2 =>
            rename_i hk
            repeat' split at h
            all_goals first
              | (simp at h; done)
              | (simp at h; subst h; simp only [InfixPlan.Faithful, binOps]; intros
                 simp_all [canon1_kwc_at, canon1_of_isKw (k := KW.TIME), canon1_of_isKw (k := KW.ZONE)]
                 done)
          case h_3 =>
            rename_i hk
            refine notFamilyTail_faithful _ _ _ _ _ h ?_ rfl
            intro hc
            simp at hc
            simp [notP, canon1_kwc_not hk hc]
          all_goals first
            | (exact notFamilyTail_faithful _ _ _ _ _ h (by simp [notP]) rfl)
            | (simp at h)
        · -- `::`
          repeat' split at h
          all_goals first
            | (simp at h; done)
            | (simp at h; subst h; simp only [InfixPlan.Faithful, postOps, castPieces]; intro hc
               rename_i hs; simp at hs hc
               simp [canon1_clean_word hc.2, kwTi, canon1_word_some _ _ _ (simpleTypes_clean _ (by simpa using hs.1))]
               done)
        · -- `!`
          simp at h; subst h
          simp [InfixPlan.Faithful, postOps]
        all_goals (repeat' split at h) <;> simp at h

def EscFaithful (esc : List Tok) : Prop :=
  esc.all kwClean = true → escPrintable esc = true → esc.map canon1 = (toksOf (escPieces esc)).map canon1

theorem escapeTail_faithful (c : Cfg) (ts esc rest : List Tok)
    (h : escapeTail c ts = .ok (some (esc, rest))) : EscFaithful esc := by
  unfold escapeTail at h
  split at h
  · simp at h
  · rename_i t1 r1 hk
    have hk := ((eatKw_some_iff _ _ _ _).1 hk).2
    repeat' split at h
    all_goals first
      | (simp at h; done)
      | (simp at h; obtain ⟨rfl, rfl⟩ := h; intro hc hp; simp at hc
         simp_all [escPrintable, escPieces, escValue, canon1_of_isKw (k := KW.ESCAPE)])

theorem parseItems_not_nil (c : Cfg) (f d : Nat) (ts : List Tok) (e : Expr) (rest : List Tok)
    (h : parseItems c f d ts = .ok (e, rest)) : e.isNil = false := by
  cases f with
  | zero => simp [parseItems] at h
  | succ f =>
    simp only [parseItems] at h
    repeat' split at h
    all_goals first
      | (simp at h; done)
      | (simp at h; obtain ⟨rfl, rfl⟩ := h; rfl)

-- ------------------------------------------------------------------ B.3 the parser
theorem faithful_all (c : Cfg) (f : Nat) :
    (∀ d p ts e rest, parseSubexpr c f d p ts = .ok (e, rest) → e.printable = true →
      e.norm.mapT canon1 = e.mapT canon1) ∧
    (∀ d p e0 ts e rest, (e0.printable = true → e0.norm.mapT canon1 = e0.mapT canon1) →
      loop c f d p e0 ts = .ok (e, rest) → e.printable = true → e.norm.mapT canon1 = e.mapT canon1) ∧
    (∀ d ts e rest, parsePrefix c f d ts = .ok (e, rest) → e.printable = true →
      e.norm.mapT canon1 = e.mapT canon1) ∧
    (∀ d e0 q ts e rest, (e0.printable = true → e0.norm.mapT canon1 = e0.mapT canon1) →
      parseInfix c f d e0 q ts = .ok (e, rest) → e.printable = true → e.norm.mapT canon1 = e.mapT canon1) ∧
    (∀ d ts e rest, parseItems c f d ts = .ok (e, rest) → e.printable = true →
      e.norm.mapT canon1 = e.mapT canon1) := by
  induction f with
  | zero => simp [parseSubexpr, loop, parsePrefix, parseInfix, parseItems]
  | succ f ih =>
    obtain ⟨ihS, ihL, ihP, ihI, ihT⟩ := ih
    refine ⟨?_, ?_, ?_, ?_, ?_⟩
    · -- parseSubexpr
      intro d p ts e rest h
      cases d with
      | zero => simp [parseSubexpr] at h
      | succ d =>
        simp only [parseSubexpr] at h
        split at h
        · simp at h
        · rename_i e0 ts' hp
          exact ihL _ _ _ _ _ _ (ihP _ _ _ _ hp) h
    · -- loop
      intro d p e0 ts e rest he0 h
      simp only [loop] at h
      split at h
      · simp at h; obtain ⟨rfl, rfl⟩ := h; exact he0
      · split at h
        · simp at h
        · rename_i e1 ts1 hi
          exact ihL _ _ _ _ _ _ (ihI _ _ _ _ _ _ he0 hi) h
    · -- parsePrefix
      intro d ts e rest h
      simp only [parsePrefix] at h
      split at h
      · simp at h
      split at h
      · simp at h
      · rename_i k toks r hh
        have hf := prefixHead_faithful _ _ _ hh
        obtain ⟨rfl, rfl⟩ := collateCheck_ok h
        intro hp
        simp [Expr.printable] at hp
        simp only [Expr.norm, Expr.mapT]
        rw [hf hp.1 (by simpa using hp.2)]
      · rename_i o t p r hh
        have hf := prefixHead_faithful _ _ _ hh
        split at h
        · simp at h
        · rename_i e1 r1 hs
          have h1 := ihS _ _ _ _ _ hs
          obtain ⟨rfl, rfl⟩ := collateCheck_ok h
          intro hp
          simp [Expr.printable] at hp
          simp only [Expr.norm, Expr.mapT]
          rw [h1 hp.2, hf hp.1]
      · split at h
        · simp at h
        · rename_i e1 r1 hs
          have h1 := ihS _ _ _ _ _ hs
          repeat' split at h
          all_goals first
            | (simp at h; done)
            | (obtain ⟨rfl, rfl⟩ := collateCheck_ok h
               intro hp
               simp [Expr.printable] at hp
               simp only [Expr.norm, Expr.mapT]
               rw [h1 hp])
    · -- parseInfix
      intro d e0 q ts e rest he0 h
      simp only [parseInfix] at h
      split at h
      · simp at h
      all_goals (rename_i hh; have hf := infixHead_faithful _ _ _ _ _ hh; simp only [InfixPlan.Faithful] at hf)
      · -- right
        split at h
        · simp at h
        · rename_i r rest' hs
          have h1 := ihS _ _ _ _ _ hs
          simp at h; obtain ⟨rfl, rfl⟩ := h
          intro hp
          rw [printable_bin] at hp
          simp only [Bool.and_eq_true] at hp
          obtain ⟨⟨⟨p1, p2⟩, p3⟩, p4⟩ := hp
          rw [norm_bin]
          simp only [Expr.mapT]
          rw [he0 p3, h1 p4, hf p1 p2]
      · -- post
        simp at h; obtain ⟨rfl, rfl⟩ := h
        intro hp
        simp only [Expr.printable, Bool.and_eq_true] at hp
        rw [norm_post]
        simp only [Expr.mapT]
        rw [he0 hp.2, hf hp.1]
      · -- like
        split at h
        · simp at h
        · rename_i pat rest' hs
          have h1 := ihS _ _ _ _ _ hs
          split at h
          · simp at h
          · simp at h; obtain ⟨rfl, rfl⟩ := h
            intro hp
            rw [printable_bin] at hp
            simp only [Bool.and_eq_true] at hp
            obtain ⟨⟨⟨p1, p2⟩, p3⟩, p4⟩ := hp
            rw [norm_bin]
            simp only [Expr.mapT, binOps]
            rw [he0 p3, h1 p4, hf p2]
          · rename_i esc rest'' he
            have hesc := escapeTail_faithful _ _ _ _ he
            simp at h; obtain ⟨rfl, rfl⟩ := h
            intro hp
            simp only [Expr.printable, Bool.and_eq_true] at hp
            obtain ⟨⟨⟨⟨p1, p2⟩, p3⟩, p4⟩, p5⟩ := hp
            simp only [Expr.norm, Expr.mapT]
            rw [he0 p4, h1 p5, hf p1, hesc p2 p3]
      · -- between
        split at h
        · simp at h
        · rename_i lo rest' hs
          have h1 := ihS _ _ _ _ _ hs
          split at h
          · simp at h
          · rename_i andTok rest'' ha
            have h2 := (eatKw_some_iff _ _ _ _).1 ha
            split at h
            · simp at h
            · rename_i hi rest3 hs2
              have h3 := ihS _ _ _ _ _ hs2
              simp at h; obtain ⟨rfl, rfl⟩ := h
              intro hp
              simp only [Expr.printable, Bool.and_eq_true] at hp
              obtain ⟨⟨⟨⟨p1, p2⟩, p3⟩, p4⟩, p5⟩ := hp
              simp only [Expr.norm, Expr.mapT]
              rw [he0 p3, h1 p4, h3 p5, hf p1, canon1_of_isKw h2.2 p2, canon1_kwT_AND]
      · -- inl
        split at h
        · simp at h
        · split at h
          · simp at h; obtain ⟨rfl, rfl⟩ := h
            intro hp
            simp only [Expr.printable, Bool.and_eq_true] at hp
            simp only [Expr.norm, Expr.mapT]
            rw [he0 hp.1.2, hf hp.1.1]
          · split at h
            · simp at h
            · rename_i items rest' hs
              have h1 := ihT _ _ _ _ hs
              split at h
              · simp at h; obtain ⟨rfl, rfl⟩ := h
                intro hp
                simp only [Expr.printable, Bool.and_eq_true] at hp
                simp only [Expr.norm, Expr.mapT]
                rw [he0 hp.1.2, hf hp.1.1, h1 hp.2]
              · simp at h
      · -- quant
        split at h
        · simp at h
        · rename_i r rest' hs
          have h1 := ihS _ _ _ _ _ hs
          split at h
          · split at h
            · simp at h; obtain ⟨rfl, rfl⟩ := h
              intro hp
              simp only [Expr.printable, Bool.and_eq_true] at hp
              simp only [Expr.norm, Expr.mapT]
              rw [he0 hp.1.2, hf hp.1.1, h1 hp.2]
            · simp at h
          · simp at h
    · -- parseItems
      intro d ts e rest h
      simp only [parseItems] at h
      split at h
      · simp at h
      · rename_i e1 r1 hs
        have h1 := ihS _ _ _ _ _ hs
        split at h
        · split at h
          · simp at h
          · split at h
            · simp at h
            · rename_i items r2 ht
              have h2 := ihT _ _ _ _ ht
              have hn := parseItems_not_nil _ _ _ _ _ _ ht
              simp at h; obtain ⟨rfl, rfl⟩ := h
              intro hp
              simp only [Expr.printable, Bool.and_eq_true] at hp
              simp only [Expr.norm, Expr.mapT, hn]
              rw [h1 hp.1, h2 hp.2]; rfl
        · simp at h; obtain ⟨rfl, rfl⟩ := h
          intro hp
          simp only [Expr.printable, Bool.and_eq_true] at hp
          simp only [Expr.norm, Expr.mapT, Expr.isNil]
          rw [h1 hp.1]; rfl

-- ------------------------------------------------------------------ C
/-- the tokens a printable parse result was built from are, up to `canon1` (hence up to `canon`),
the tokens the printer emits for it -/
theorem faithful (c : Cfg) (f d p : Nat) (ts : List Tok) (e : Expr) (rest : List Tok)
    (h : parseSubexpr c f d p ts = .ok (e, rest)) (hp : e.printable = true) :
    e.flatten.map canon1 = (showToks e).map canon1 ∧ Sim e.flatten (showToks e) := by
  have h1 := (faithful_all c f).1 d p ts e rest h hp
  have h2 := mapT_canon_of_canon1 h1
  rw [showToks_eq]
  refine ⟨?_, ?_⟩
  · rw [← flatten_mapT_canon1, ← flatten_mapT_canon1, h1]
  · unfold Sim
    rw [← flatten_mapT_canon, ← flatten_mapT_canon, h2]

/-- the identifiers, numbers, strings and placeholders of the input come back in the printed form -/
theorem faithful_content (c : Cfg) (f d p : Nat) (ts : List Tok) (e : Expr) (rest : List Tok)
    (h : parseSubexpr c f d p ts = .ok (e, rest)) (hp : e.printable = true) :
    e.flatten.filterMap contentOf = (showToks e).filterMap contentOf :=
  content_of_sim1 (faithful c f d p ts e rest h hp).1

-- ------------------------------------------------------------------ sanity checks
section Examples
private def g : Cfg := Cfg.ofRow SqlVerif.Gen.dialect_generic
private def w (s : String) : Tok := .word (str s) none none
/-- a keyword token in the table spelling -/
private def k (s : String) : Tok := .word (str s) none (some (kwIndex s))
/-- a keyword token in another spelling (lower case) -/
private def kl (s : String) (kw : String) : Tok := .word (str s) none (some (kwIndex kw))
private def id' (t : Tok) : Expr := .atom .ident [t]

/-- `a == b and NOT c IS null` -/
private def ex1 : Expr :=
  .bin (.op .And) (.bin (.op .Eq) (id' (w "a")) [.sym .DoubleEq] (id' (w "b"))) [kl "and" "AND"]
    (.pre .Not (k "NOT") (.post (.is .Null) (id' (w "c")) [k "IS", kl "null" "NULL"]))

example : parseExpr g 100 50 [w "a", .sym .DoubleEq, w "b", kl "and" "AND", k "NOT", w "c", k "IS", kl "null" "NULL"] =
    .ok (ex1, []) := by
  decide +kernel

-- the printed tokens are the normal form: `a = b AND NOT c IS NULL`
example : showToks ex1 = [w "a", .sym .Eq, w "b", k "AND", k "NOT", w "c", k "IS", k "NULL"] := by
  decide +kernel

example : ex1.printable = true ∧ ex1.norm.mapT canon1 = ex1.mapT canon1 ∧ ex1.norm.sexp = ex1.sexp ∧
    Sim ex1.flatten (showToks ex1) := by
  unfold Sim; decide +kernel

/-- `x not between 1 and y::int` and `x IN (1, 'a')`, `p LIKE q ESCAPE '!'` -/
private def ex2 : Expr :=
  .between true (id' (w "x")) [kl "not" "NOT", kl "between" "BETWEEN"] (.atom .num [.number (str "1") false])
    (kl "and" "AND") (.post .cast (id' (w "y")) [.sym .DoubleColon, kl "int" "INT"])

example : parseExpr g 100 50 [w "x", kl "not" "NOT", kl "between" "BETWEEN", .number (str "1") false, kl "and" "AND",
    w "y", .sym .DoubleColon, kl "int" "INT"] = .ok (ex2, []) := by
  decide +kernel

example : showToks ex2 = [w "x", k "NOT", k "BETWEEN", .number (str "1") false, k "AND", w "y", .sym .DoubleColon, k "INT"] ∧
    ex2.printable = true ∧ ex2.norm.mapT canon1 = ex2.mapT canon1 := by
  decide +kernel

private def ex3 : Expr :=
  .inList false (id' (w "x")) [k "IN", .sym .LParen]
    (.lcons (.atom .num [.number (str "1") false]) [.sym .Comma] (.lcons (.atom .str [.sqs (str "a")]) [] .lnil))

example : parseExpr g 100 50 [w "x", k "IN", .sym .LParen, .number (str "1") false, .sym .Comma, .sqs (str "a"), .sym .RParen] =
    .ok (ex3, []) ∧ showToks ex3 = ex3.flatten ∧ ex3.printable = true := by
  decide +kernel

-- the exclusions of `printable` are real: `a REGEXP RLIKE b` prints one operator token for two,
-- an `ESCAPE` operand written as a word prints as a string
example : parseExpr g 100 50 [w "a", k "REGEXP", k "RLIKE", w "b"] =
      .ok (.bin (.like .Regexp false false) (id' (w "a")) [k "REGEXP", k "RLIKE"] (id' (w "b")), []) ∧
    (Expr.bin (.like .Regexp false false) (id' (w "a")) [k "REGEXP", k "RLIKE"] (id' (w "b"))).printable = false ∧
    showToks (.bin (.like .Regexp false false) (id' (w "a")) [k "REGEXP", k "RLIKE"] (id' (w "b"))) =
      [w "a", k "REGEXP", w "b"] := by
  decide +kernel

-- `flatten_mapT` does need the parentheses to be fixed by the map
example : ((Expr.nested (.atom .ident [])).mapT fun _ => .sym .Comma).flatten ≠
    (Expr.nested (.atom .ident [])).flatten.map fun _ => .sym .Comma := by
  decide
end Examples

end SqlVerif.Pratt

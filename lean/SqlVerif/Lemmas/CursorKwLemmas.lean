import SqlVerif.Model.CursorKw
/-! Lemmas for the keyword-blindness theorem: the cursor operations commute with respelling. -/
namespace SqlVerif.CursorKw
open SqlVerif.Cursor

theorem KTok.respell_isWs {a b : KTok} (h : a.respell b) : a.isWs = b.isWs := by
  cases a <;> cases b <;> simp_all [KTok.respell, KTok.isWs]

theorem KTok.respell_refl (a : KTok) : a.respell a := by
  cases a <;> simp [KTok.respell]

theorem Respelled.refl : ∀ (T : List (TL KTok)), Respelled T T
  | [] => .nil
  | t :: l => .cons t t l l rfl (KTok.respell_refl _) (Respelled.refl l)

/-- token and location handed over by an operation, on two respelled vectors -/
def optRespellTL : Option (TL KTok) → Option (TL KTok) → Prop
  | none, none => True
  | some a, some b => a.loc = b.loc ∧ a.tok.respell b.tok
  | _, _ => False

theorem optRespellTL_tok {a b : Option (TL KTok)} (h : optRespellTL a b) :
    optRespell (a.map (·.tok)) (b.map (·.tok)) := by
  cases a <;> cases b <;> simp_all [optRespellTL, optRespell]

theorem optRespellTL_loc {a b : Option (TL KTok)} (h : optRespellTL a b) : locOf a = locOf b := by
  cases a <;> cases b <;> simp_all [optRespellTL, locOf]

theorem Respelled.drop {T T' : List (TL KTok)} (h : Respelled T T') : ∀ i, Respelled (T.drop i) (T'.drop i) := by
  induction h with
  | nil => intro i; simp; exact .nil
  | cons t t' l l' hl ht _ ih =>
    intro i
    cases i with
    | zero => exact .cons t t' l l' hl ht (by assumption)
    | succ i => simpa using ih i

theorem Respelled.getAt {T T' : List (TL KTok)} (h : Respelled T T') : ∀ i : Nat, optRespellTL T[i]? T'[i]? := by
  induction h with
  | nil => intro i; simp [optRespellTL]
  | cons t t' l l' hl ht _ ih =>
    intro i
    cases i with
    | zero => simp [optRespellTL, hl, ht]
    | succ i => simpa using ih i

theorem Respelled.length {T T' : List (TL KTok)} (h : Respelled T T') : T.length = T'.length := by
  induction h with
  | nil => rfl
  | cons _ _ _ _ _ _ _ ih => simp [ih]

theorem peekFrom_respelled {l l' : List (TL KTok)} (h : Respelled l l') :
    ∀ n, optRespellTL (peekFrom KTok.isWs l n) (peekFrom KTok.isWs l' n) := by
  induction h with
  | nil => intro n; simp [peekFrom, optRespellTL]
  | cons t t' l l' hl ht _ ih =>
    intro n
    simp only [peekFrom, ← KTok.respell_isWs ht]
    cases hw : t.tok.isWs with
    | true => simpa using ih n
    | false =>
      cases n with
      | zero => simp [optRespellTL, hl, ht]
      | succ n => simpa using ih n

theorem nextFrom_respelled {l l' : List (TL KTok)} (h : Respelled l l') :
    ∀ k, optRespellTL (nextFrom KTok.isWs l k).1 (nextFrom KTok.isWs l' k).1 ∧
      (nextFrom KTok.isWs l k).2 = (nextFrom KTok.isWs l' k).2 := by
  induction h with
  | nil => intro k; simp [nextFrom, optRespellTL]
  | cons t t' l l' hl ht _ ih =>
    intro k
    simp only [nextFrom, ← KTok.respell_isWs ht]
    cases hw : t.tok.isWs with
    | true => simpa using ih (k + 1)
    | false => simp [optRespellTL, hl, ht]

theorem prevIdx_respelled {T T' : List (TL KTok)} (h : Respelled T T') :
    ∀ i, prevIdx KTok.isWs T i = prevIdx KTok.isWs T' i := by
  intro i
  induction i with
  | zero => rfl
  | succ i ih =>
    simp only [prevIdx]
    have hg := h.getAt i
    cases h1 : T[i]? with
    | none => cases h2 : T'[i]? <;> simp_all [optRespellTL]
    | some t =>
      cases h2 : T'[i]? with
      | none => simp_all [optRespellTL]
      | some t' =>
        simp only [h1, h2, optRespellTL] at hg
        simp only [← KTok.respell_isWs hg.2, ih]

/-- **Keyword blindness of the interpreter**: related programs on respelled vectors, from the same
index, registers and log, have related outcomes -/
theorem runC_sim {α : Type} (R : α → α → Prop) {p p' : Prog KTok α} (hs : Sim R p p')
    {T T' : List (TL KTok)} (hT : Respelled T T') :
    ∀ (i : Nat) (regs : Nat → Nat) (log : List Loc),
      RelK R (runC KTok.isWs p ⟨T, i⟩ regs log) (runC KTok.isWs p' ⟨T', i⟩ regs log) := by
  induction hs with
  | ret a b hab => intro i regs log; simp [runC, RelK, hab]
  | err m h => intro i regs log; cases h <;> simp [runC, RelK]
  | peek n k k' _ ih =>
    intro i regs log
    simp only [runC, peekNth]
    have hp := peekFrom_respelled (hT.drop i) n
    rw [optRespellTL_loc hp]
    exact ih _ _ (optRespellTL_tok hp) i regs _
  | next k k' _ ih =>
    intro i regs log
    simp only [runC, next]
    have hp := nextFrom_respelled (hT.drop i) 0
    rw [optRespellTL_loc hp.1, hp.2]
    exact ih _ _ (optRespellTL_tok hp.1) _ regs _
  | prev p p' _ ih =>
    intro i regs log
    simp only [runC, prev, prevIdx_respelled hT i]
    cases hp : prevIdx KTok.isWs T' i with
    | none => simp [RelK]
    | some j => simpa using ih j regs log
  | save slot p p' _ ih => intro i regs log; simpa [runC] using ih i _ log
  | restore slot p p' _ ih => intro i regs log; simpa [runC] using ih _ regs log
  | peekNoSkip n k k' _ ih =>
    intro i regs log
    simp only [runC, peekNthNoSkip]
    have hp := hT.getAt (i + n)
    rw [optRespellTL_loc hp]
    exact ih _ _ (optRespellTL_tok hp) i regs _
  | nextNoSkip k k' _ ih =>
    intro i regs log
    simp only [runC, nextNoSkip]
    have hp := hT.getAt i
    rw [optRespellTL_loc hp]
    exact ih _ _ (optRespellTL_tok hp) _ regs _

theorem isKw_respell {t t' : Option KTok} (h : optRespell t t') (K : Option Nat) : isKw t K = isKw t' K := by
  cases t with
  | none => cases t' <;> simp_all [optRespell, isKw]
  | some a =>
    cases t' with
    | none => simp_all [optRespell]
    | some b => cases a <;> cases b <;> simp_all [optRespell, KTok.respell, isKw]

end SqlVerif.CursorKw

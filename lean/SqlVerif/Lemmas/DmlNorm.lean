import SqlVerif.Lemmas.DmlSim
import SqlVerif.Lemmas.DmlContent
import SqlVerif.Lemmas.QueryFix
/-!
The printed normal form of a statement tree (`Stmt.norm`): the tree with every stored token replaced
by the token `Display` emits for it (the statement-layer analogue of `Query.norm`,
`Lemmas/QueryNorm.lean`).

* `stmt_showToks_eq_norm`  `s.showToks = s.norm.flatten` — for every tree;
* `stmt_flatten_qc`        the yield of the image is the image of the yield;
* `stmt_inj`               a tree is determined by its image (`mapT qc`) together with its yield;
* `stmt_sexp_norm`         the normal form holds the same AST.
-/
namespace SqlVerif.Dml
open SqlVerif.Pratt SqlVerif.Query SqlVerif.Gen
set_option linter.unusedSimpArgs false

-- ------------------------------------------------------------------ norm
/-- replace the keyword of the connector in front of the first FROM item -/
def setHead (t : Tok) : QNode → QNode
  | .ftable (.from _) name al cstr rest => .ftable (.from t) name al cstr rest
  | .fderived (.from _) lp body qt rp al cstr rest => .fderived (.from t) lp body qt rp al cstr rest
  | n => n

def Row.norm (explicit : Bool) (r : Row) : Row :=
  ⟨if explicit then [kwT "ROW"] else [], .sym .LParen, sepNorm Expr.norm r.exprs, .sym .RParen⟩

def ValuesQ.norm (v : ValuesQ) : ValuesQ := ⟨kwT "VALUES", sepNorm (Row.norm (explicitRow v.rows)) v.rows, v.tail.norm⟩

def Source.norm : Source → Source
  | .query q => .query q.norm
  | .values v => .values v.norm

def ParenIds.norm (p : ParenIds) : ParenIds :=
  if p.ids.isEmpty then ParenIds.none else ⟨[.sym .LParen], sepNorm id p.ids, [.sym .RParen]⟩

def InsSource.norm : InsSource → InsSource
  | .defaultValues _ => .defaultValues [kwT "DEFAULT", kwT "VALUES"]
  | .source s => .source s.norm

def retKwNorm (items : Sep SelectItem) : List Tok := if items.isEmpty then [] else [kwT "RETURNING"]

def whereKwNorm : Option Expr → List Tok
  | some _ => [kwT "WHERE"]
  | none => []

def limitKwNorm : Option Expr → List Tok
  | some _ => [kwT "LIMIT"]
  | none => []

/-- the keyword of a dialect-specific column option as `Display` spells it -/
def dialectNorm (t : Tok) : Tok :=
  match t with
  | .word _ _ (some k) => kwTi k
  | _ => noText.tok

def Insert.norm (i : Insert) : Insert :=
  ⟨kwT "INSERT", if i.into.isEmpty then [] else [kwT "INTO"], if i.tableKw.isEmpty then [] else [kwT "TABLE"], i.name,
   i.cols.norm, i.src.norm, retKwNorm i.returning, sepNorm SelectItem.norm i.returning⟩

def AssignTarget.norm : AssignTarget → AssignTarget
  | .col name => .col name
  | .tuple _ names _ => .tuple (.sym .LParen) (sepNorm id names) (.sym .RParen)

def Assign.norm (a : Assign) : Assign := ⟨a.target.norm, .sym .Eq, a.value.norm⟩

def Update.norm (u : Update) : Update :=
  ⟨setHead (kwT "UPDATE") u.table.norm, kwT "SET", sepNorm Assign.norm u.assigns, [], u.frm.norm, whereKwNorm u.selection,
   u.selection.map Expr.norm, retKwNorm u.returning, sepNorm SelectItem.norm u.returning⟩

def Delete.norm (d : Delete) : Delete :=
  ⟨kwT "DELETE", sepNorm id d.tables, d.frm.norm, setHead (kwT "USING") d.usng.norm, whereKwNorm d.selection,
   d.selection.map Expr.norm, retKwNorm d.returning, sepNorm SelectItem.norm d.returning,
   if d.order.isEmpty then [] else [kwT "ORDER", kwT "BY"], sepNorm OrderByExpr.norm d.order,
   limitKwNorm d.limit, d.limit.map Expr.norm⟩

def ColOpt.norm : ColOpt → ColOpt
  | .null _ => .null (kwT "NULL")
  | .notNull _ => .notNull [kwT "NOT", kwT "NULL"]
  | .default _ e => .default (kwT "DEFAULT") e.norm
  | .primaryKey _ => .primaryKey [kwT "PRIMARY", kwT "KEY"]
  | .unique _ => .unique (kwT "UNIQUE")
  | .check _ _ e _ => .check (kwT "CHECK") (.sym .LParen) e.norm (.sym .RParen)
  | .comment _ s => .comment (kwT "COMMENT") (match s with | .sqs v => .sqs v | _ => noText.tok)
  | .dialect t => .dialect (dialectNorm t)
  | .references _ name cols => .references (kwT "REFERENCES") name cols.norm

def ColDef.norm (cd : ColDef) : ColDef := ⟨cd.name, cd.ty, toksOf (dtPiecesD cd.ty), cd.opts.map ColOpt.norm, []⟩

def CreateTable.norm (ct : CreateTable) : CreateTable :=
  ⟨kwT "CREATE", if ct.temp.isEmpty then [] else [kwT "TEMPORARY"], kwT "TABLE",
   if ct.ifne.isEmpty then [] else [kwT "IF", kwT "NOT", kwT "EXISTS"], ct.name, [.sym .LParen], sepNorm ColDef.norm ct.cols,
   [.sym .RParen]⟩

def Drop.norm (d : Drop) : Drop :=
  ⟨kwT "DROP", kwT "TABLE", if d.ifExists.isEmpty then [] else [kwT "IF", kwT "EXISTS"], sepNorm id d.names,
   if d.cascade.isEmpty then [] else [kwT "CASCADE"], if d.restrict.isEmpty then [] else [kwT "RESTRICT"],
   if d.purge.isEmpty then [] else [kwT "PURGE"]⟩

def Stmt.norm : Stmt → Stmt
  | .query s => .query s.norm
  | .insert i => .insert i.norm
  | .update u => .update u.norm
  | .delete d => .delete d.norm
  | .createTable ct => .createTable ct.norm
  | .drop d => .drop d.norm

-- ------------------------------------------------------------------ showToks = norm.flatten
theorem toksOf_queryPieces (q : Query) : toksOf q.pieces = q.norm.flatten := showToks_eq_norm q

theorem toksOf_idsSep (ids : Sep Tok) :
    toksOf (sepPieces (fun t => [idPiece false t]) ids) = sepFlat (fun t => [t]) (sepNorm id ids) :=
  toksOf_sepPieces (fun t => [idPiece false t]) (fun t => [t]) id (by intro v; simp [toksOf, idPiece_tok]) ids

theorem toksOf_namesSep (names : Sep (List Tok)) :
    toksOf (sepPieces namePieces names) = sepFlat (fun n => n) (sepNorm id names) :=
  toksOf_sepPieces namePieces (fun n => n) id (by intro v; simp [toksOf_namePieces]) names

theorem toksOf_rowPieces (ex : Bool) (r : Row) : toksOf (Row.pieces ex r) = (Row.norm ex r).flatten := by
  have hs := toksOf_sepPieces Expr.pieces Expr.flatten Expr.norm toksOf_exprPieces r.exprs
  cases ex <;> simp [Row.pieces, Row.norm, Row.flatten, Pratt.toksOf_append, Pratt.toksOf_glued, hs]

theorem toksOf_valuesPieces (v : ValuesQ) : toksOf v.pieces = v.norm.flatten := by
  have hs := toksOf_sepPieces (Row.pieces (explicitRow v.rows)) Row.flatten (Row.norm (explicitRow v.rows))
    (toksOf_rowPieces _) v.rows
  simp [ValuesQ.pieces, ValuesQ.norm, ValuesQ.flatten, Pratt.toksOf_append, Pratt.toksOf_spaced, hs, toksOf_tailPieces]

theorem toksOf_sourcePieces (s : Source) : toksOf s.pieces = s.norm.flatten := by
  cases s with
  | query q => exact toksOf_queryPieces q
  | values v => exact toksOf_valuesPieces v

theorem toksOf_idsParen (ids : Sep Tok) :
    toksOf (if ids.isEmpty then [] else spaced (idsParenP ids)) = (ParenIds.norm ⟨[], ids, []⟩).flatten := by
  unfold ParenIds.norm
  cases h : ids.isEmpty
  · simp [idsParenP, ParenIds.flatten, Pratt.toksOf_append, Pratt.toksOf_glued, Pratt.toksOf_spaced, toksOf_idsSep]
  · simp [ParenIds.none, ParenIds.flatten, sepFlat]

theorem parenIds_norm_ids (p : ParenIds) : p.norm = (ParenIds.norm ⟨[], p.ids, []⟩) := rfl

theorem toksOf_retPieces (items : Sep SelectItem) :
    toksOf (retPieces items) = retKwNorm items ++ sepFlat SelectItem.flatten (sepNorm SelectItem.norm items) := by
  have hs := toksOf_sepPieces SelectItem.pieces SelectItem.flatten SelectItem.norm toksOf_itemPieces items
  unfold retPieces retKwNorm
  cases h : items.isEmpty
  · simp [Pratt.toksOf_append, Pratt.toksOf_spaced, hs]
  · have : items = [] := by simpa using h
    subst this; rfl

theorem toksOf_wherePieces (o : Option Expr) : toksOf (wherePieces o) = whereKwNorm o ++ optFlat (o.map Expr.norm) := by
  cases o <;> simp [wherePieces, whereKwNorm, optFlat, Pratt.toksOf_append, Pratt.toksOf_spaced, toksOf_exprPieces]

theorem toksOf_insertPieces (i : Insert) : toksOf i.pieces = i.norm.flatten := by
  unfold Insert.pieces Insert.norm Insert.flatten
  simp only [Pratt.toksOf_append, toksOf_idsParen, toksOf_retPieces, Pratt.toksOf_spaced, toksOf_namePieces,
    ← parenIds_norm_ids]
  cases i.src with
  | defaultValues toks => cases i.into.isEmpty <;> cases i.tableKw.isEmpty <;> simp [InsSource.norm, InsSource.flatten]
  | source s =>
    cases i.into.isEmpty <;> cases i.tableKw.isEmpty <;>
      simp [InsSource.norm, InsSource.flatten, Pratt.toksOf_spaced, toksOf_sourcePieces]

theorem toksOf_targetPieces (t : AssignTarget) : toksOf t.pieces = t.norm.flatten := by
  cases t with
  | col name => simp [AssignTarget.pieces, AssignTarget.norm, AssignTarget.flatten, toksOf_namePieces]
  | tuple lp names rp =>
    simp [AssignTarget.pieces, AssignTarget.norm, AssignTarget.flatten, Pratt.toksOf_append, Pratt.toksOf_glued,
      toksOf_namesSep]

theorem toksOf_assignPieces (a : Assign) : toksOf a.pieces = a.norm.flatten := by
  simp [Assign.pieces, Assign.norm, Assign.flatten, Pratt.toksOf_append, Pratt.toksOf_spaced, toksOf_targetPieces,
    toksOf_exprPieces]

theorem toksOf_headKw (sp : Bool) (name : String) (n : QNode) (h : headFrom n = true ∨ n.isFnil = true) :
    toksOf (headKw sp name n.pieces) = (setHead (kwT name) n.norm).flatten := by
  have hn := toksOf_nodePieces n
  cases n with
  | ftable conn name' al cstr rest =>
    cases conn <;> simp [headFrom, QNode.isFnil] at h
    simp only [QNode.pieces, Conn.pieces, List.cons_append, List.nil_append, headKw, QNode.norm, Conn.norm, setHead,
      QNode.flatten, Conn.toks, Pratt.toksOf_cons, kwP_tok] at hn ⊢
    simp only [List.cons.injEq, true_and] at hn
    rw [hn]
  | fderived conn lp body qt rp al cstr rest =>
    cases conn <;> simp [headFrom, QNode.isFnil] at h
    simp only [QNode.pieces, Conn.pieces, List.cons_append, List.nil_append, headKw, QNode.norm, Conn.norm, setHead,
      QNode.flatten, Conn.toks, Pratt.toksOf_cons, kwP_tok, symP_tok] at hn ⊢
    simp only [List.cons.injEq, true_and] at hn
    rw [hn]
  | fnil t => simp [QNode.pieces, headKw, QNode.norm, setHead, QNode.flatten, toksOf]
  | _ => simp [headFrom, QNode.isFnil] at h

/-- the FROM-item lists whose first piece `Display` replaces begin with the keyword connector (or are empty) -/
def headOk (n : QNode) : Prop := headFrom n = true ∨ n.isFnil = true

theorem toksOf_updatePieces (u : Update) (h : headOk u.table) : toksOf u.pieces = u.norm.flatten := by
  have hs := toksOf_sepPieces Assign.pieces Assign.flatten Assign.norm toksOf_assignPieces u.assigns
  unfold Update.pieces Update.norm Update.flatten
  simp only [Pratt.toksOf_append, toksOf_headKw _ _ _ h, Pratt.toksOf_spaced, hs, toksOf_nodePieces, toksOf_wherePieces,
    toksOf_retPieces, Pratt.toksOf_cons, Pratt.toksOf_nil, kwP_tok]
  simp

theorem toksOf_deletePieces (d : Delete) (h : headOk d.usng) : toksOf d.pieces = d.norm.flatten := by
  have hs := toksOf_sepPieces OrderByExpr.pieces OrderByExpr.flatten OrderByExpr.norm toksOf_orderPieces d.order
  unfold Delete.pieces Delete.norm Delete.flatten
  simp only [Pratt.toksOf_append, toksOf_headKw _ _ _ h, Pratt.toksOf_spaced, toksOf_nodePieces, toksOf_wherePieces,
    toksOf_retPieces, Pratt.toksOf_cons, Pratt.toksOf_nil, kwP_tok]
  have h1 : toksOf (if d.tables.isEmpty = true then [] else spaced (sepPieces namePieces d.tables)) =
      sepFlat (fun n => n) (sepNorm id d.tables) := by
    cases hh : d.tables.isEmpty
    · simp [Pratt.toksOf_spaced, toksOf_namesSep]
    · have : d.tables = [] := by simpa using hh
      rw [this]; rfl
  have h2 : toksOf (if d.order.isEmpty = true then [] else [kwP true "ORDER", kwP true "BY"] ++ spaced (sepPieces OrderByExpr.pieces d.order)) =
      (if d.order.isEmpty then [] else [kwT "ORDER", kwT "BY"]) ++ sepFlat OrderByExpr.flatten (sepNorm OrderByExpr.norm d.order) := by
    cases hh : d.order.isEmpty
    · simp [Pratt.toksOf_append, Pratt.toksOf_spaced, hs]
    · have : d.order = [] := by simpa using hh
      rw [this]; rfl
  rw [h1, h2]
  cases d.limit <;> simp [limitKwNorm, optFlat, Pratt.toksOf_append, Pratt.toksOf_spaced, toksOf_exprPieces]

theorem toksOf_colOptPieces (o : ColOpt) : toksOf o.pieces = o.norm.flatten := by
  cases o with
  | comment kw s => cases s <;> rfl
  | dialect t =>
    cases t with
    | word v q kw => cases kw <;> rfl
    | _ => rfl
  | references kw name cols =>
    simp only [ColOpt.pieces, ColOpt.norm, ColOpt.flatten, Pratt.toksOf_append, Pratt.toksOf_spaced, toksOf_namePieces,
      toksOf_idsParen, ← parenIds_norm_ids]
    rfl
  | default kw e => simp [ColOpt.pieces, ColOpt.norm, ColOpt.flatten, Pratt.toksOf_append, Pratt.toksOf_spaced, toksOf_exprPieces]
  | check kw lp e rp =>
    simp [ColOpt.pieces, ColOpt.norm, ColOpt.flatten, Pratt.toksOf_append, Pratt.toksOf_glued, toksOf_exprPieces]
  | _ => rfl

theorem toksOf_optsPieces (opts : List ColOpt) :
    toksOf (opts.map ColOpt.pieces).flatten = optsFlat (opts.map ColOpt.norm) := by
  induction opts with
  | nil => rfl
  | cons o rest ih => simp [optsFlat, Pratt.toksOf_append, toksOf_colOptPieces, ih]

theorem toksOf_colDefPieces (cd : ColDef) : toksOf cd.pieces = cd.norm.flatten := by
  simp [ColDef.pieces, ColDef.norm, ColDef.flatten, Pratt.toksOf_append, Pratt.toksOf_spaced, toksOf_optsPieces, idPiece_tok]

theorem toksOf_createPieces (ct : CreateTable) : toksOf ct.pieces = ct.norm.flatten := by
  have hs := toksOf_sepPieces ColDef.pieces ColDef.flatten ColDef.norm toksOf_colDefPieces ct.cols
  unfold CreateTable.pieces CreateTable.norm CreateTable.flatten
  cases ct.temp.isEmpty <;> cases ct.ifne.isEmpty <;>
    simp [Pratt.toksOf_append, Pratt.toksOf_spaced, Pratt.toksOf_glued, hs, toksOf_namePieces]

theorem toksOf_dropPieces (d : Drop) : toksOf d.pieces = d.norm.flatten := by
  unfold Drop.pieces Drop.norm Drop.flatten
  cases d.ifExists.isEmpty <;> cases d.cascade.isEmpty <;> cases d.restrict.isEmpty <;> cases d.purge.isEmpty <;>
    simp [Pratt.toksOf_append, Pratt.toksOf_spaced, toksOf_namesSep]

/-- the FROM-item lists of `UPDATE` (target) and `DELETE` (`USING`) begin with their keyword -/
def Stmt.headsOk : Stmt → Prop
  | .update u => headOk u.table
  | .delete d => headOk d.usng
  | _ => True

/-- the printed tokens are the yield of the normal form -/
theorem stmt_showToks_eq_norm (s : Stmt) (h : s.headsOk) : s.showToks = s.norm.flatten := by
  show toksOf s.pieces = _
  cases s with
  | query src => exact toksOf_sourcePieces src
  | insert i => exact toksOf_insertPieces i
  | update u => exact toksOf_updatePieces u h
  | delete d => exact toksOf_deletePieces d h
  | createTable ct => exact toksOf_createPieces ct
  | drop d => exact toksOf_dropPieces d

-- ------------------------------------------------------------------ the yield of the image
theorem ids_flatten_qc (ids : Sep Tok) : sepFlat (fun t => [t]) (sepMap qc qc ids) = (sepFlat (fun t => [t]) ids).map qc :=
  sepFlat_map qc (fun t => [t]) (by intro v; rfl) ids

theorem names_flatten_qc (names : Sep (List Tok)) :
    sepFlat (fun n => n) (sepMap (List.map qc) qc names) = (sepFlat (fun n => n) names).map qc :=
  sepFlat_map (List.map qc) (fun n => n) (by intro v; rfl) names

theorem row_flatten_qc (r : Row) : (r.mapT qc).flatten = r.flatten.map qc := by
  simp [Row.mapT, Row.flatten, sepFlat_map _ _ flatten_mapT_qc]

theorem values_flatten_qc (v : ValuesQ) : (v.mapT qc).flatten = v.flatten.map qc := by
  simp [ValuesQ.mapT, ValuesQ.flatten, sepFlat_map _ _ row_flatten_qc, tail_flatten_qc]

theorem source_flatten_qc (s : Source) : (s.mapT qc).flatten = s.flatten.map qc := by
  cases s with
  | query q => exact query_flatten_qc q
  | values v => exact values_flatten_qc v

theorem parenIds_flatten_qc (p : ParenIds) : (p.mapT qc).flatten = p.flatten.map qc := by
  simp [ParenIds.mapT, ParenIds.flatten, ids_flatten_qc]

theorem insSource_flatten_qc (s : InsSource) : (s.mapT qc).flatten = s.flatten.map qc := by
  cases s with
  | defaultValues toks => rfl
  | source s => exact source_flatten_qc s

theorem items_flatten_qc (l : Sep SelectItem) :
    sepFlat SelectItem.flatten (sepMap (SelectItem.mapT qc) qc l) = (sepFlat SelectItem.flatten l).map qc :=
  sepFlat_map _ _ item_flatten_qc l

theorem insert_flatten_qc (i : Insert) : (i.mapT qc).flatten = i.flatten.map qc := by
  simp [Insert.mapT, Insert.flatten, parenIds_flatten_qc, insSource_flatten_qc, items_flatten_qc]

theorem target_flatten_qc (t : AssignTarget) : (t.mapT qc).flatten = t.flatten.map qc := by
  cases t <;> simp [AssignTarget.mapT, AssignTarget.flatten, names_flatten_qc]

theorem assign_flatten_qc (a : Assign) : (a.mapT qc).flatten = a.flatten.map qc := by
  simp [Assign.mapT, Assign.flatten, target_flatten_qc, flatten_mapT_qc]

theorem update_flatten_qc (u : Update) : (u.mapT qc).flatten = u.flatten.map qc := by
  simp [Update.mapT, Update.flatten, node_flatten_qc, sepFlat_map _ _ assign_flatten_qc, optFlat_qc, items_flatten_qc]

theorem delete_flatten_qc (d : Delete) : (d.mapT qc).flatten = d.flatten.map qc := by
  simp [Delete.mapT, Delete.flatten, node_flatten_qc, names_flatten_qc, optFlat_qc, items_flatten_qc,
    sepFlat_map _ _ order_flatten_qc]

theorem colOpt_flatten_qc (o : ColOpt) : (o.mapT qc).flatten = o.flatten.map qc := by
  cases o <;> simp [ColOpt.mapT, ColOpt.flatten, flatten_mapT_qc, parenIds_flatten_qc]

theorem opts_flatten_qc (l : List ColOpt) : optsFlat (l.map (ColOpt.mapT qc)) = (optsFlat l).map qc := by
  induction l with
  | nil => rfl
  | cons o rest ih => simp [optsFlat, colOpt_flatten_qc, ih]

theorem colDef_flatten_qc (cd : ColDef) : (cd.mapT qc).flatten = cd.flatten.map qc := by
  simp [ColDef.mapT, ColDef.flatten, opts_flatten_qc]

theorem create_flatten_qc (ct : CreateTable) : (ct.mapT qc).flatten = ct.flatten.map qc := by
  simp [CreateTable.mapT, CreateTable.flatten, sepFlat_map _ _ colDef_flatten_qc]

theorem drop_flatten_qc (d : Drop) : (d.mapT qc).flatten = d.flatten.map qc := by
  simp [Drop.mapT, Drop.flatten, names_flatten_qc]

theorem stmt_flatten_qc (s : Stmt) : (s.mapT qc).flatten = s.flatten.map qc := by
  cases s with
  | query src => exact source_flatten_qc src
  | insert i => exact insert_flatten_qc i
  | update u => exact update_flatten_qc u
  | delete d => exact delete_flatten_qc d
  | createTable ct => exact create_flatten_qc ct
  | drop d => exact drop_flatten_qc d

-- ------------------------------------------------------------------ image + yield determine the tree
theorem ids_cancel (l l' : Sep Tok) (b b' : List Tok) (hm : sepMap qc qc l = sepMap qc qc l')
    (h : sepFlat (fun t => [t]) l ++ b = sepFlat (fun t => [t]) l' ++ b') : l = l' ∧ b = b' :=
  sep_cancel qc (fun t => [t]) (fun _ _ _ _ _ h => by simpa using h) _ _ _ _ hm h

theorem names_cancel (l l' : Sep (List Tok)) (b b' : List Tok) (hm : sepMap (List.map qc) qc l = sepMap (List.map qc) qc l')
    (h : sepFlat (fun n => n) l ++ b = sepFlat (fun n => n) l' ++ b') : l = l' ∧ b = b' :=
  sep_cancel (List.map qc) (fun n => n) (fun _ _ _ _ hm h => toks_cancel hm h) _ _ _ _ hm h

theorem items_cancel (l l' : Sep SelectItem) (b b' : List Tok)
    (hm : sepMap (SelectItem.mapT qc) qc l = sepMap (SelectItem.mapT qc) qc l')
    (h : sepFlat SelectItem.flatten l ++ b = sepFlat SelectItem.flatten l' ++ b') : l = l' ∧ b = b' :=
  sep_cancel _ _ item_cancel _ _ _ _ hm h

theorem query_cancel (q q' : Query) (b b' : List Tok) (hm : q.mapT qc = q'.mapT qc)
    (h : q.flatten ++ b = q'.flatten ++ b') : q = q' ∧ b = b' := by
  obtain ⟨bd, t⟩ := q
  obtain ⟨bd', t'⟩ := q'
  simp only [Query.mapT, Query.mk.injEq] at hm
  simp only [Query.flatten, List.append_assoc] at h
  obtain ⟨e1, h⟩ := node_cancel _ _ _ _ hm.1 h
  obtain ⟨e2, h⟩ := tail_cancel _ _ _ _ hm.2 h
  exact ⟨by rw [e1, e2], h⟩

theorem row_cancel (r r' : Row) (b b' : List Tok) (hm : r.mapT qc = r'.mapT qc)
    (h : r.flatten ++ b = r'.flatten ++ b') : r = r' ∧ b = b' := by
  obtain ⟨k, lp, es, rp⟩ := r
  obtain ⟨k', lp', es', rp'⟩ := r'
  simp only [Row.mapT, Row.mk.injEq] at hm
  obtain ⟨hm1, _, hm3, _⟩ := hm
  simp only [Row.flatten, List.append_assoc, List.cons_append] at h
  obtain ⟨e1, h⟩ := toks_cancel hm1 h
  obtain ⟨e2, h⟩ := tok_cancel h
  obtain ⟨e3, h⟩ := sep_cancel _ _ (fun _ _ _ _ hm h => expr_cancel hm h) _ _ _ _ hm3 h
  simp only [List.cons_append, List.nil_append] at h
  obtain ⟨e4, h⟩ := tok_cancel h
  exact ⟨by rw [e1, e2, e3, e4], h⟩

theorem values_cancel (v v' : ValuesQ) (b b' : List Tok) (hm : v.mapT qc = v'.mapT qc)
    (h : v.flatten ++ b = v'.flatten ++ b') : v = v' ∧ b = b' := by
  obtain ⟨k, rows, t⟩ := v
  obtain ⟨k', rows', t'⟩ := v'
  simp only [ValuesQ.mapT, ValuesQ.mk.injEq] at hm
  obtain ⟨_, hm2, hm3⟩ := hm
  simp only [ValuesQ.flatten, List.append_assoc, List.cons_append] at h
  obtain ⟨e1, h⟩ := tok_cancel h
  obtain ⟨e2, h⟩ := sep_cancel _ _ row_cancel _ _ _ _ hm2 h
  obtain ⟨e3, h⟩ := tail_cancel _ _ _ _ hm3 h
  exact ⟨by rw [e1, e2, e3], h⟩

theorem source_cancel (s s' : Source) (b b' : List Tok) (hm : s.mapT qc = s'.mapT qc)
    (h : s.flatten ++ b = s'.flatten ++ b') : s = s' ∧ b = b' := by
  cases s <;> cases s' <;> simp [Source.mapT] at hm
  · obtain ⟨e1, h⟩ := query_cancel _ _ _ _ hm h
    exact ⟨by rw [e1], h⟩
  · obtain ⟨e1, h⟩ := values_cancel _ _ _ _ hm h
    exact ⟨by rw [e1], h⟩

theorem parenIds_cancel (p p' : ParenIds) (b b' : List Tok) (hm : p.mapT qc = p'.mapT qc)
    (h : p.flatten ++ b = p'.flatten ++ b') : p = p' ∧ b = b' := by
  obtain ⟨l, ids, r⟩ := p
  obtain ⟨l', ids', r'⟩ := p'
  simp only [ParenIds.mapT, ParenIds.mk.injEq] at hm
  obtain ⟨hm1, hm2, hm3⟩ := hm
  simp only [ParenIds.flatten, List.append_assoc] at h
  obtain ⟨e1, h⟩ := toks_cancel hm1 h
  obtain ⟨e2, h⟩ := ids_cancel _ _ _ _ hm2 h
  obtain ⟨e3, h⟩ := toks_cancel hm3 h
  exact ⟨by rw [e1, e2, e3], h⟩

theorem insSource_cancel (s s' : InsSource) (b b' : List Tok) (hm : s.mapT qc = s'.mapT qc)
    (h : s.flatten ++ b = s'.flatten ++ b') : s = s' ∧ b = b' := by
  cases s <;> cases s' <;> simp [InsSource.mapT] at hm
  · simp only [InsSource.flatten] at h
    obtain ⟨e1, h⟩ := toks_cancel hm h
    exact ⟨by rw [e1], h⟩
  · obtain ⟨e1, h⟩ := source_cancel _ _ _ _ hm h
    exact ⟨by rw [e1], h⟩

theorem insert_cancel (i i' : Insert) (b b' : List Tok) (hm : i.mapT qc = i'.mapT qc)
    (h : i.flatten ++ b = i'.flatten ++ b') : i = i' ∧ b = b' := by
  obtain ⟨a1, a2, a3, a4, a5, a6, a7, a8⟩ := i
  obtain ⟨c1, c2, c3, c4, c5, c6, c7, c8⟩ := i'
  simp only [Insert.mapT, Insert.mk.injEq] at hm
  obtain ⟨_, hm2, hm3, hm4, hm5, hm6, hm7, hm8⟩ := hm
  simp only [Insert.flatten, List.append_assoc, List.cons_append] at h
  obtain ⟨e1, h⟩ := tok_cancel h
  obtain ⟨e2, h⟩ := toks_cancel hm2 h
  obtain ⟨e3, h⟩ := toks_cancel hm3 h
  obtain ⟨e4, h⟩ := toks_cancel hm4 h
  obtain ⟨e5, h⟩ := parenIds_cancel _ _ _ _ hm5 h
  obtain ⟨e6, h⟩ := insSource_cancel _ _ _ _ hm6 h
  obtain ⟨e7, h⟩ := toks_cancel hm7 h
  obtain ⟨e8, h⟩ := items_cancel _ _ _ _ hm8 h
  exact ⟨by rw [e1, e2, e3, e4, e5, e6, e7, e8], h⟩

theorem target_cancel (t t' : AssignTarget) (b b' : List Tok) (hm : t.mapT qc = t'.mapT qc)
    (h : t.flatten ++ b = t'.flatten ++ b') : t = t' ∧ b = b' := by
  cases t <;> cases t' <;> simp [AssignTarget.mapT] at hm
  · simp only [AssignTarget.flatten] at h
    obtain ⟨e1, h⟩ := toks_cancel hm h
    exact ⟨by rw [e1], h⟩
  · simp only [AssignTarget.flatten, List.cons_append, List.append_assoc] at h
    obtain ⟨e1, h⟩ := tok_cancel h
    obtain ⟨e2, h⟩ := names_cancel _ _ _ _ hm.2.1 h
    simp only [List.cons_append, List.nil_append] at h
    obtain ⟨e3, h⟩ := tok_cancel h
    exact ⟨by rw [e1, e2, e3], h⟩

theorem assign_cancel (a a' : Assign) (b b' : List Tok) (hm : a.mapT qc = a'.mapT qc)
    (h : a.flatten ++ b = a'.flatten ++ b') : a = a' ∧ b = b' := by
  obtain ⟨t, eq, v⟩ := a
  obtain ⟨t', eq', v'⟩ := a'
  simp only [Assign.mapT, Assign.mk.injEq] at hm
  obtain ⟨hm1, _, hm3⟩ := hm
  simp only [Assign.flatten, List.append_assoc, List.cons_append] at h
  obtain ⟨e1, h⟩ := target_cancel _ _ _ _ hm1 h
  obtain ⟨e2, h⟩ := tok_cancel h
  obtain ⟨e3, h⟩ := expr_cancel hm3 h
  exact ⟨by rw [e1, e2, e3], h⟩

theorem update_cancel (u u' : Update) (b b' : List Tok) (hm : u.mapT qc = u'.mapT qc)
    (h : u.flatten ++ b = u'.flatten ++ b') : u = u' ∧ b = b' := by
  obtain ⟨a1, a2, a3, a4, a5, a6, a7, a8, a9⟩ := u
  obtain ⟨c1, c2, c3, c4, c5, c6, c7, c8, c9⟩ := u'
  simp only [Update.mapT, Update.mk.injEq] at hm
  obtain ⟨hm1, _, hm3, hm4, hm5, hm6, hm7, hm8, hm9⟩ := hm
  simp only [Update.flatten, List.append_assoc, List.cons_append] at h
  obtain ⟨e1, h⟩ := node_cancel _ _ _ _ hm1 h
  obtain ⟨e2, h⟩ := tok_cancel h
  obtain ⟨e3, h⟩ := sep_cancel _ _ assign_cancel _ _ _ _ hm3 h
  obtain ⟨e4, h⟩ := toks_cancel hm4 h
  obtain ⟨e5, h⟩ := node_cancel _ _ _ _ hm5 h
  obtain ⟨e6, h⟩ := toks_cancel hm6 h
  obtain ⟨e7, h⟩ := opt_cancel _ _ _ _ hm7 h
  obtain ⟨e8, h⟩ := toks_cancel hm8 h
  obtain ⟨e9, h⟩ := items_cancel _ _ _ _ hm9 h
  exact ⟨by rw [e1, e2, e3, e4, e5, e6, e7, e8, e9], h⟩

theorem delete_cancel (d d' : Delete) (b b' : List Tok) (hm : d.mapT qc = d'.mapT qc)
    (h : d.flatten ++ b = d'.flatten ++ b') : d = d' ∧ b = b' := by
  obtain ⟨a1, a2, a3, a4, a5, a6, a7, a8, a9, a10, a11, a12⟩ := d
  obtain ⟨c1, c2, c3, c4, c5, c6, c7, c8, c9, c10, c11, c12⟩ := d'
  simp only [Delete.mapT, Delete.mk.injEq] at hm
  obtain ⟨_, hm2, hm3, hm4, hm5, hm6, hm7, hm8, hm9, hm10, hm11, hm12⟩ := hm
  simp only [Delete.flatten, List.append_assoc, List.cons_append] at h
  obtain ⟨e1, h⟩ := tok_cancel h
  obtain ⟨e2, h⟩ := names_cancel _ _ _ _ hm2 h
  obtain ⟨e3, h⟩ := node_cancel _ _ _ _ hm3 h
  obtain ⟨e4, h⟩ := node_cancel _ _ _ _ hm4 h
  obtain ⟨e5, h⟩ := toks_cancel hm5 h
  obtain ⟨e6, h⟩ := opt_cancel _ _ _ _ hm6 h
  obtain ⟨e7, h⟩ := toks_cancel hm7 h
  obtain ⟨e8, h⟩ := items_cancel _ _ _ _ hm8 h
  obtain ⟨e9, h⟩ := toks_cancel hm9 h
  obtain ⟨e10, h⟩ := sep_cancel _ _ order_cancel _ _ _ _ hm10 h
  obtain ⟨e11, h⟩ := toks_cancel hm11 h
  obtain ⟨e12, h⟩ := opt_cancel _ _ _ _ hm12 h
  exact ⟨by rw [e1, e2, e3, e4, e5, e6, e7, e8, e9, e10, e11, e12], h⟩

theorem colOpt_cancel (o o' : ColOpt) (b b' : List Tok) (hm : o.mapT qc = o'.mapT qc)
    (h : o.flatten ++ b = o'.flatten ++ b') : o = o' ∧ b = b' := by
  cases o <;> cases o' <;> simp [ColOpt.mapT] at hm
  · simp only [ColOpt.flatten, List.cons_append, List.nil_append] at h
    obtain ⟨e1, h⟩ := tok_cancel h
    exact ⟨by rw [e1], h⟩
  · simp only [ColOpt.flatten] at h
    obtain ⟨e1, h⟩ := toks_cancel hm h
    exact ⟨by rw [e1], h⟩
  · simp only [ColOpt.flatten, List.cons_append] at h
    obtain ⟨e1, h⟩ := tok_cancel h
    obtain ⟨e2, h⟩ := expr_cancel hm.2 h
    exact ⟨by rw [e1, e2], h⟩
  · simp only [ColOpt.flatten] at h
    obtain ⟨e1, h⟩ := toks_cancel hm h
    exact ⟨by rw [e1], h⟩
  · simp only [ColOpt.flatten, List.cons_append, List.nil_append] at h
    obtain ⟨e1, h⟩ := tok_cancel h
    exact ⟨by rw [e1], h⟩
  · simp only [ColOpt.flatten, List.cons_append, List.append_assoc] at h
    obtain ⟨e1, h⟩ := tok_cancel h
    obtain ⟨e2, h⟩ := tok_cancel h
    obtain ⟨e3, h⟩ := expr_cancel hm.2.2.1 h
    simp only [List.cons_append, List.nil_append] at h
    obtain ⟨e4, h⟩ := tok_cancel h
    exact ⟨by rw [e1, e2, e3, e4], h⟩
  · simp only [ColOpt.flatten, List.cons_append, List.nil_append] at h
    obtain ⟨e1, h⟩ := tok_cancel h
    obtain ⟨e2, h⟩ := tok_cancel h
    exact ⟨by rw [e1, e2], h⟩
  · simp only [ColOpt.flatten, List.cons_append, List.nil_append] at h
    obtain ⟨e1, h⟩ := tok_cancel h
    exact ⟨by rw [e1], h⟩
  · simp only [ColOpt.flatten, List.cons_append, List.append_assoc] at h
    obtain ⟨e1, h⟩ := tok_cancel h
    obtain ⟨e2, h⟩ := toks_cancel hm.2.1 h
    obtain ⟨e3, h⟩ := parenIds_cancel _ _ _ _ hm.2.2 h
    exact ⟨by rw [e1, e2, e3], h⟩

theorem opts_cancel : ∀ (l l' : List ColOpt) (b b' : List Tok), l.map (ColOpt.mapT qc) = l'.map (ColOpt.mapT qc) →
    optsFlat l ++ b = optsFlat l' ++ b' → l = l' ∧ b = b' := by
  intro l
  induction l with
  | nil =>
    intro l' b b' hm h
    cases l' with
    | nil => exact ⟨rfl, by simpa [optsFlat] using h⟩
    | cons _ _ => simp at hm
  | cons o rest ih =>
    intro l' b b' hm h
    cases l' with
    | nil => simp at hm
    | cons o' rest' =>
      simp only [List.map_cons, List.cons.injEq] at hm
      simp only [optsFlat, List.append_assoc] at h
      obtain ⟨e1, h⟩ := colOpt_cancel _ _ _ _ hm.1 h
      obtain ⟨e2, h⟩ := ih rest' b b' hm.2 h
      exact ⟨by rw [e1, e2], h⟩

theorem colDef_cancel (cd cd' : ColDef) (b b' : List Tok) (hm : cd.mapT qc = cd'.mapT qc)
    (h : cd.flatten ++ b = cd'.flatten ++ b') : cd = cd' ∧ b = b' := by
  obtain ⟨a1, a2, a3, a4, a5⟩ := cd
  obtain ⟨c1, c2, c3, c4, c5⟩ := cd'
  simp only [ColDef.mapT, ColDef.mk.injEq] at hm
  obtain ⟨_, hm2, hm3, hm4, hm5⟩ := hm
  simp only [ColDef.flatten, List.append_assoc, List.cons_append] at h
  obtain ⟨e1, h⟩ := tok_cancel h
  obtain ⟨e3, h⟩ := toks_cancel hm3 h
  obtain ⟨e4, h⟩ := opts_cancel _ _ _ _ hm4 h
  obtain ⟨e5, h⟩ := toks_cancel hm5 h
  exact ⟨by rw [e1, hm2, e3, e4, e5], h⟩

theorem create_cancel (ct ct' : CreateTable) (b b' : List Tok) (hm : ct.mapT qc = ct'.mapT qc)
    (h : ct.flatten ++ b = ct'.flatten ++ b') : ct = ct' ∧ b = b' := by
  obtain ⟨a1, a2, a3, a4, a5, a6, a7, a8⟩ := ct
  obtain ⟨c1, c2, c3, c4, c5, c6, c7, c8⟩ := ct'
  simp only [CreateTable.mapT, CreateTable.mk.injEq] at hm
  obtain ⟨_, hm2, _, hm4, hm5, hm6, hm7, hm8⟩ := hm
  simp only [CreateTable.flatten, List.append_assoc, List.cons_append] at h
  obtain ⟨e1, h⟩ := tok_cancel h
  obtain ⟨e2, h⟩ := toks_cancel hm2 h
  obtain ⟨e3, h⟩ := tok_cancel h
  obtain ⟨e4, h⟩ := toks_cancel hm4 h
  obtain ⟨e5, h⟩ := toks_cancel hm5 h
  obtain ⟨e6, h⟩ := toks_cancel hm6 h
  obtain ⟨e7, h⟩ := sep_cancel _ _ colDef_cancel _ _ _ _ hm7 h
  obtain ⟨e8, h⟩ := toks_cancel hm8 h
  exact ⟨by rw [e1, e2, e3, e4, e5, e6, e7, e8], h⟩

theorem drop_cancel (d d' : Drop) (b b' : List Tok) (hm : d.mapT qc = d'.mapT qc)
    (h : d.flatten ++ b = d'.flatten ++ b') : d = d' ∧ b = b' := by
  obtain ⟨a1, a2, a3, a4, a5, a6, a7⟩ := d
  obtain ⟨c1, c2, c3, c4, c5, c6, c7⟩ := d'
  simp only [Drop.mapT, Drop.mk.injEq] at hm
  obtain ⟨_, _, hm3, hm4, hm5, hm6, hm7⟩ := hm
  simp only [Drop.flatten, List.append_assoc, List.cons_append] at h
  obtain ⟨e1, h⟩ := tok_cancel h
  obtain ⟨e2, h⟩ := tok_cancel h
  obtain ⟨e3, h⟩ := toks_cancel hm3 h
  obtain ⟨e4, h⟩ := names_cancel _ _ _ _ hm4 h
  obtain ⟨e5, h⟩ := toks_cancel hm5 h
  obtain ⟨e6, h⟩ := toks_cancel hm6 h
  obtain ⟨e7, h⟩ := toks_cancel hm7 h
  exact ⟨by rw [e1, e2, e3, e4, e5, e6, e7], h⟩

theorem stmt_cancel (s s' : Stmt) (b b' : List Tok) (hm : s.mapT qc = s'.mapT qc)
    (h : s.flatten ++ b = s'.flatten ++ b') : s = s' ∧ b = b' := by
  cases s <;> cases s' <;> simp [Stmt.mapT] at hm
  · obtain ⟨e1, h⟩ := source_cancel _ _ _ _ hm h; exact ⟨by rw [e1], h⟩
  · obtain ⟨e1, h⟩ := insert_cancel _ _ _ _ hm h; exact ⟨by rw [e1], h⟩
  · obtain ⟨e1, h⟩ := update_cancel _ _ _ _ hm h; exact ⟨by rw [e1], h⟩
  · obtain ⟨e1, h⟩ := delete_cancel _ _ _ _ hm h; exact ⟨by rw [e1], h⟩
  · obtain ⟨e1, h⟩ := create_cancel _ _ _ _ hm h; exact ⟨by rw [e1], h⟩
  · obtain ⟨e1, h⟩ := drop_cancel _ _ _ _ hm h; exact ⟨by rw [e1], h⟩

/-- a statement tree is determined by its image together with its yield -/
theorem stmt_inj (s s' : Stmt) (hm : s.mapT qc = s'.mapT qc) (h : s.flatten = s'.flatten) : s = s' :=
  (stmt_cancel s s' [] [] hm (by simpa using h)).1

-- ------------------------------------------------------------------ the normal form holds the same AST
theorem sepNorm_isEmpty {α : Type} (N : α → α) (l : Sep α) : (sepNorm N l).isEmpty = l.isEmpty := by
  match l with
  | [] => rfl
  | [_] => rfl
  | _ :: _ :: _ => rfl

theorem row_sexp_norm (ex : Bool) (r : Row) : (Row.norm ex r).sexp = r.sexp := by
  unfold Row.sexp Row.norm
  simp only [sepSexp_norm _ _ norm_sexp]

theorem explicitRow_sepNorm (ex : Bool) (rows : Sep Row) :
    explicitRow (sepNorm (Row.norm ex) rows) = (ex && !rows.isEmpty) := by
  have h := sepNorm_map_fst (fun r : Row => !r.rowKw.isEmpty) (Row.norm ex) rows
  have h2 : explicitRow (sepNorm (Row.norm ex) rows) =
      ((sepNorm (Row.norm ex) rows).map (fun p => !p.1.rowKw.isEmpty)).any id := by
    simp [explicitRow, List.any_map, Function.comp_def]
  rw [h2, h]
  cases ex <;> cases rows <;> simp [Row.norm, List.any_map, Function.comp_def]

theorem explicitRow_norm (rows : Sep Row) :
    explicitRow (sepNorm (Row.norm (explicitRow rows)) rows) = explicitRow rows := by
  rw [explicitRow_sepNorm]
  cases rows with
  | nil => rfl
  | cons p rest => simp

theorem values_sexp_norm (v : ValuesQ) : v.norm.sexp = v.sexp := by
  unfold ValuesQ.sexp ValuesQ.norm
  simp only [explicitRow_norm, sepSexp_norm _ _ (row_sexp_norm _), tail_sexp_norm]

theorem source_sexp_norm (s : Source) : s.norm.sexp = s.sexp := by
  cases s with
  | query q => exact query_sexp_norm q
  | values v => exact values_sexp_norm v

theorem ite_isEmpty (l : List Tok) (x : List Tok) (hx : x ≠ []) : (if l.isEmpty then [] else x).isEmpty = l.isEmpty := by
  cases h : l.isEmpty
  · cases x with
    | nil => exact absurd rfl hx
    | cons _ _ => rfl
  · rfl

theorem parenIds_norm_sexp (p : ParenIds) : sepSexp idSexp p.norm.ids = sepSexp idSexp p.ids := by
  unfold ParenIds.norm
  cases h : p.ids.isEmpty
  · simp only [Bool.false_eq_true, if_false]
    exact sepSexp_norm idSexp id (fun _ => rfl) p.ids
  · have : p.ids = [] := by simpa using h
    simp [this, ParenIds.none]

theorem insSource_sexp_norm (s : InsSource) : s.norm.sexp = s.sexp := by
  cases s with
  | defaultValues t => rfl
  | source s => exact source_sexp_norm s

theorem insert_sexp_norm (i : Insert) : i.norm.sexp = i.sexp := by
  unfold Insert.sexp Insert.norm
  simp only [ite_isEmpty _ _ (List.cons_ne_nil _ _), parenIds_norm_sexp, insSource_sexp_norm,
    sepSexp_norm _ _ item_sexp_norm]

theorem target_sexp_norm (t : AssignTarget) : t.norm.sexp = t.sexp := by
  cases t with
  | col name => rfl
  | tuple lp names rp =>
    unfold AssignTarget.sexp AssignTarget.norm
    simp only [sepSexp_norm nameSexp id (fun _ => rfl)]

theorem assign_sexp_norm (a : Assign) : a.norm.sexp = a.sexp := by
  unfold Assign.sexp Assign.norm
  simp only [target_sexp_norm, norm_sexp]

theorem setHead_sexp (t : Tok) (n : QNode) : (setHead t n).sexp = n.sexp := by
  cases n with
  | ftable conn name al cstr rest => cases conn <;> rfl
  | fderived conn lp body qt rp al cstr rest => cases conn <;> rfl
  | _ => rfl

theorem setHead_isFnil (t : Tok) (n : QNode) : (setHead t n).isFnil = n.isFnil := by
  cases n with
  | ftable conn name al cstr rest => cases conn <;> rfl
  | fderived conn lp body qt rp al cstr rest => cases conn <;> rfl
  | _ => rfl

theorem twjsSexp_norm (n : QNode) : twjsSexp n.norm = twjsSexp n := by
  unfold twjsSexp
  rw [isFnil_norm, node_sexp_norm]

theorem twjsSexp_setHead (t : Tok) (n : QNode) : twjsSexp (setHead t n) = twjsSexp n := by
  unfold twjsSexp
  rw [setHead_isFnil, setHead_sexp]

theorem update_sexp_norm (u : Update) : u.norm.sexp = u.sexp := by
  unfold Update.sexp Update.norm
  simp only [twjsSexp_setHead, twjsSexp_norm, sepSexp_norm _ _ assign_sexp_norm, optExprSexp_norm,
    sepSexp_norm _ _ item_sexp_norm]

theorem delete_sexp_norm (d : Delete) : d.norm.sexp = d.sexp := by
  unfold Delete.sexp Delete.norm
  simp only [twjsSexp_setHead, twjsSexp_norm, sepSexp_norm nameSexp id (fun _ => rfl), optExprSexp_norm,
    sepSexp_norm _ _ item_sexp_norm, sepSexp_norm _ _ order_sexp_norm]

theorem colOpt_sexp_norm (o : ColOpt) : o.norm.sexp = o.sexp := by
  cases o with
  | default kw e => unfold ColOpt.sexp ColOpt.norm; simp only [norm_sexp]
  | check kw lp e rp => unfold ColOpt.sexp ColOpt.norm; simp only [norm_sexp]
  | comment kw s => cases s <;> rfl
  | dialect t =>
    cases t with
    | word v q kw =>
      cases kw with
      | none => rfl
      | some k => rfl
    | _ => rfl
  | references kw name cols =>
    unfold ColOpt.sexp ColOpt.norm
    simp only [parenIds_norm_sexp]
  | _ => rfl

theorem colDef_sexp_norm (cd : ColDef) : cd.norm.sexp = cd.sexp := by
  unfold ColDef.sexp ColDef.norm
  simp only [List.map_map, Function.comp_def, colOpt_sexp_norm]

theorem create_sexp_norm (ct : CreateTable) : ct.norm.sexp = ct.sexp := by
  unfold CreateTable.sexp CreateTable.norm
  simp only [ite_isEmpty _ _ (List.cons_ne_nil _ _), sepSexp_norm _ _ colDef_sexp_norm]

theorem drop_sexp_norm (d : Drop) : d.norm.sexp = d.sexp := by
  unfold Drop.sexp Drop.norm
  simp only [ite_isEmpty _ _ (List.cons_ne_nil _ _), sepSexp_norm nameSexp id (fun _ => rfl)]

/-- the printed normal form holds the same AST -/
theorem stmt_sexp_norm (s : Stmt) : s.norm.sexp = s.sexp := by
  cases s with
  | query src => exact source_sexp_norm src
  | insert i => exact insert_sexp_norm i
  | update u => exact update_sexp_norm u
  | delete d => exact delete_sexp_norm d
  | createTable ct => exact create_sexp_norm ct
  | drop d => exact drop_sexp_norm d

end SqlVerif.Dml

import SqlVerif.Lemmas.TclFixBase
import SqlVerif.Lemmas.DmlFix
/-!
The C01 fixpoint for the two statement kinds of `Model/Tcl.lean` whose operand is an expression and whose
head is fixed: `ASSERT e [AS m]` and `SET [LOCAL] TIME ZONE e` — the parser evaluated on the printed tokens,
the expression re-parsed through the simulation of the expression layer (`reparse_one` of `Lemmas/DmlFix.lean`).
-/
set_option linter.unusedSimpArgs false
namespace SqlVerif.Tcl
open SqlVerif.Pratt SqlVerif.Query SqlVerif.Dml SqlVerif.Ddl SqlVerif.Gen

/-- one expression re-parsed from its printed tokens, in front of a continuation with the image of the original one -/
theorem ax_expr_reparse (c : QCfg) (f d : Nat) {a : List Tok} {e : Expr} {r r' : List Tok} (h : parseE c f d a = .ok (e, r))
    (hp : e.printable = true) (ht : a.all tokOk = true) (hr : r.map qc = r'.map qc) :
    parseE c f d (showToks e ++ r') = .ok (e.norm, r') := by
  have hy := parseE_yield c f d _ _ _ h
  have hte : e.flatten.all tokOk = true := by
    rw [hy, List.all_append, Bool.and_eq_true] at ht; exact ht.1
  have f3 := expr_faith e (parseE_wf c f d _ _ _ h hp) hp (flatten_kwTokOk hte)
  rw [showToks_eq]
  exact reparse_one (parseE_qc c f d) (parseE_yield c f d) flatten_mapT_qc (fun _ _ _ _ hm h => expr_cancel hm h) h f3 hr

theorem ax_expr_image (c : QCfg) (f d : Nat) {a : List Tok} {e : Expr} {r : List Tok} (h : parseE c f d a = .ok (e, r))
    (hp : e.printable = true) (ht : a.all tokOk = true) : (showToks e).map qc = e.flatten.map qc := by
  have hy := parseE_yield c f d _ _ _ h
  have hte : e.flatten.all tokOk = true := by
    rw [hy, List.all_append, Bool.and_eq_true] at ht; exact ht.1
  have f3 := expr_faith e (parseE_wf c f d _ _ _ h hp) hp (flatten_kwTokOk hte)
  rw [showToks_eq, ← flatten_mapT_qc, ← flatten_mapT_qc, f3]

-- ------------------------------------------------------------------ closed keyword facts
theorem ax_assert_head :
    (kwT "ASSERT").isKw TK.START = false ∧ (kwT "ASSERT").isKw TK.BEGIN = false ∧ (kwT "ASSERT").isKw TK.END_ = false ∧
    (kwT "ASSERT").isKw TK.COMMIT = false ∧ (kwT "ASSERT").isKw TK.ROLLBACK = false ∧ (kwT "ASSERT").isKw TK.SAVEPOINT = false ∧
    (kwT "ASSERT").isKw TK.RELEASE = false ∧ (kwT "ASSERT").isKw TK.SET = false ∧ (kwT "ASSERT").isKw TK.USE = false ∧
    (kwT "ASSERT").isKw TK.DISCARD = false ∧ (kwT "ASSERT").isKw TK.DEALLOCATE = false ∧ (kwT "ASSERT").isKw TK.CLOSE = false ∧
    (kwT "ASSERT").isKw TK.ASSERT = true := by decide +kernel

theorem ax_set_head :
    (kwT "SET").isKw TK.START = false ∧ (kwT "SET").isKw TK.BEGIN = false ∧ (kwT "SET").isKw TK.END_ = false ∧
    (kwT "SET").isKw TK.COMMIT = false ∧ (kwT "SET").isKw TK.ROLLBACK = false ∧ (kwT "SET").isKw TK.SAVEPOINT = false ∧
    (kwT "SET").isKw TK.RELEASE = false ∧ (kwT "SET").isKw TK.SET = true := by decide +kernel

theorem ax_as : (kwT "AS").isKw TK.AS = true ∧ tokOk (kwT "AS") = true := by decide +kernel

theorem ax_tz_facts :
    (kwT "LOCAL").isKw TK.SESSION = false ∧ (kwT "LOCAL").isKw TK.LOCAL = true ∧ (kwT "LOCAL").isKw TK.HIVEVAR = false ∧
    (kwT "TIME").isKw TK.SESSION = false ∧ (kwT "TIME").isKw TK.LOCAL = false ∧ (kwT "TIME").isKw TK.HIVEVAR = false ∧
    (kwT "TIME").isKw TK.ROLE = false ∧ (kwT "TIME").isKw TK.TIME = true ∧ (kwT "ZONE").isKw TK.ZONE = true := by
  decide +kernel

theorem ax_dispatch_assert (c : TCfg) (f d : Nat) (r : List Tok) :
    parseStmt c f (d + 1) (kwT "ASSERT" :: r) = parseAssert c f d (kwT "ASSERT") r := by
  obtain ⟨h1, h2, h3, h4, h5, h6, h7, h8, h9, h10, h11, h12, h13⟩ := ax_assert_head
  simp only [parseStmt]
  rw [if_neg (by simp [h1]), if_neg (by simp [h2]), if_neg (by simp [h3]), if_neg (by simp [h4]), if_neg (by simp [h5]),
    if_neg (by simp [h6]), if_neg (by simp [h7]), if_neg (by simp [h8]), if_neg (by simp [h9]), if_neg (by simp [h10]),
    if_neg (by simp [h11]), if_neg (by simp [h12]), if_pos h13]

theorem ax_dispatch_set (c : TCfg) (f d : Nat) (r : List Tok) :
    parseStmt c f (d + 1) (kwT "SET" :: r) = parseSet c f d (kwT "SET") r := by
  obtain ⟨h1, h2, h3, h4, h5, h6, h7, h8⟩ := ax_set_head
  simp only [parseStmt]
  rw [if_neg (by simp [h1]), if_neg (by simp [h2]), if_neg (by simp [h3]), if_neg (by simp [h4]), if_neg (by simp [h5]),
    if_neg (by simp [h6]), if_neg (by simp [h7]), if_pos h8]

-- ------------------------------------------------------------------ ASSERT
/-- the side condition of the ASSERT fixpoint: both operands printable -/
def Stmt.assertPrintable : Stmt → Bool
  | .assert _ e _ m => e.printable && optPrintable m
  | _ => false

theorem ax_map_tok_spaced (ps : List Piece) : (spaced ps).map (fun x => x.tok) = ps.map (fun x => x.tok) := by
  cases ps <;> simp [spaced]

theorem ax_assert_toks (kw : Tok) (e : Expr) (ak : List Tok) (m : Option Expr) :
    (Stmt.assert kw e ak m).showToks =
      kwT "ASSERT" :: (showToks e ++ (match m with | some x => kwT "AS" :: showToks x | none => [])) := by
  cases m with
  | none => simp [Stmt.showToks, Stmt.pieces, assertMsgPieces, showToks, ax_map_tok_spaced, kwP]
  | some x => simp [Stmt.showToks, Stmt.pieces, assertMsgPieces, showToks, ax_map_tok_spaced, kwP]

/-- **`ASSERT e [AS m]` re-parses from its printed tokens to its normal form** -/
theorem fixExpr_assert (c : TCfg) (f d : Nat) (kw : Tok) (ts : List Tok) (s : Stmt)
    (h : parseAssert c f d kw ts = .ok (s, [])) (hp : s.assertPrintable = true) (ht : ts.all tokOk = true) :
    parseStmt c f (d + 1) s.showToks = .ok (s.norm, []) := by
  obtain ⟨hAS, hASok⟩ := ax_as
  unfold parseAssert at h
  split at h
  · simp at h
  · rename_i e r he
    split at h
    · simp at h
    · rename_i m r1 hm
      simp at h
      obtain ⟨rfl, rfl⟩ := h
      simp only [Stmt.assertPrintable, Bool.and_eq_true] at hp
      obtain ⟨hpe, hpm⟩ := hp
      have hye := parseE_yield c.q f d _ _ _ he
      have hym := kwExprPart_yield c.q f d TK.AS _ _ _ hm
      have htr : r.all tokOk = true := by
        rw [hye, List.all_append, Bool.and_eq_true] at ht; exact ht.2
      have hwm := kwExprPart_wf c.q f d TK.AS _ _ _ hm
      rw [ax_assert_toks, ax_dispatch_assert]
      obtain ⟨m1, m2⟩ := m
      simp only at hym hwm hpm ⊢
      rcases hwm with ⟨rfl, rfl⟩ | ⟨t, x, rfl, hk, rfl, hx⟩
      · -- no message
        simp only [optFlat, List.nil_append, List.append_nil] at hym
        subst hym
        unfold parseAssert
        have := ax_expr_reparse c.q f d he hpe ht (r' := []) rfl
        simp only [List.append_nil] at this ⊢
        rw [this]
        simp [kwExprPart, eatKw, Stmt.norm]
      · -- `AS x`
        simp only [optFlat, List.append_nil, List.cons_append, List.nil_append] at hym
        simp only [optPrintable] at hpm
        -- the original message run
        have hmx : ∃ r0, r = t :: r0 ∧ parseE c.q f d r0 = .ok (x, []) := by
          unfold kwExprPart at hm
          split at hm
          · rename_i kw' r0 hk'
            obtain ⟨hr0, -⟩ := (eatKw_some_iff _ _ _ _).1 hk'
            split at hm
            · simp at hm
            · rename_i x' r' hx'
              simp at hm
              obtain ⟨⟨rfl, rfl⟩, rfl⟩ := hm
              exact ⟨r0, hr0, hx'⟩
          · simp at hm
        obtain ⟨r0, hrr, hxp⟩ := hmx
        have h0 := parseE_yield c.q f d _ _ _ hxp
        simp only [List.append_nil] at h0
        subst h0
        have htx : x.flatten.all tokOk = true := by
          rw [hrr, List.all_cons, Bool.and_eq_true] at htr; exact htr.2
        have htt : tokOk t = true := by
          rw [hrr, List.all_cons, Bool.and_eq_true] at htr; exact htr.1
        have himg := ax_expr_image c.q f d hxp hpm htx
        have hr' : r.map qc = (kwT "AS" :: showToks x).map qc := by
          rw [hrr, List.map_cons, List.map_cons, himg, qc_kwT (n := "AS") hk htt hASok]
        unfold parseAssert
        rw [ax_expr_reparse c.q f d he hpe ht hr']
        simp only
        have hx2 := ax_expr_reparse c.q f d hxp hpm htx (r' := []) rfl
        simp only [List.append_nil] at hx2
        simp [kwExprPart, eatKw, hAS, hx2, Stmt.norm]

-- ------------------------------------------------------------------ SET [LOCAL] TIME ZONE e
def Stmt.isTz : Stmt → Bool
  | .setTimeZone _ _ _ _ _ => true
  | _ => false

/-- the side conditions of the `SET TIME ZONE` fixpoint: the value is printable and its printed form does not
begin with `=` or `TO` (no accepted expression does; the condition is decidable on the tree) -/
def Stmt.tzOk : Stmt → Bool
  | .setTimeZone _ _ _ _ e => e.printable && (eqOrTo (SqlVerif.Pratt.showToks e)).isNone
  | _ => false

theorem ax_role_notTz {kw : Tok} {md : List Tok} {rk : Tok} {ts : List Tok} {s : Stmt} {rest : List Tok}
    (h : parseSetRole kw md rk ts = .ok (s, rest)) : s.isTz = false := by
  unfold parseSetRole at h
  repeat' (split at h)
  all_goals (first | (simp at h; done) | (simp at h; obtain ⟨rfl, -⟩ := h; rfl))
theorem ax_names_notTz {kw : Tok} {md colon name ts : List Tok} {s : Stmt} {rest : List Tok}
    (h : parseSetNames kw md colon name ts = .ok (s, rest)) : s.isTz = false := by
  unfold parseSetNames at h
  repeat' (split at h)
  all_goals (first | (simp at h; done) | (simp at h; obtain ⟨rfl, -⟩ := h; rfl))
theorem ax_values_notTz {c : TCfg} {f d : Nat} {kw : Tok} {md colon : List Tok} {tg : SetTarget} {eq : Tok} {ts : List Tok}
    {s : Stmt} {rest : List Tok} (h : parseSetValues c f d kw md colon tg eq ts = .ok (s, rest)) : s.isTz = false := by
  unfold parseSetValues at h
  repeat' (split at h)
  all_goals (first | (simp at h; done) | (simp at h; obtain ⟨rfl, -⟩ := h; rfl))
theorem ax_chars_notTz {f : Nat} {kw : Tok} {md colon name ts : List Tok} {s : Stmt} {rest : List Tok}
    (h : parseSetCharacteristics f kw md colon name ts = .ok (s, rest)) : s.isTz = false := by
  unfold parseSetCharacteristics at h
  repeat' (split at h)
  all_goals (first | (simp at h; done) | (simp at h; obtain ⟨rfl, -⟩ := h; rfl))
theorem ax_tx_notTz {f : Nat} {kw : Tok} {md colon name ts : List Tok} {s : Stmt} {rest : List Tok}
    (h : parseSetTransaction f kw md colon name ts = .ok (s, rest)) : s.isTz = false := by
  unfold parseSetTransaction at h
  repeat' (split at h)
  all_goals (first | (simp at h; done) | (simp at h; obtain ⟨rfl, -⟩ := h; rfl))

/-- what an accepted `SET … TIME ZONE e` / `SET … TIMEZONE e` ran: the expression parser on the tail -/
theorem ax_set_tz_inv {c : TCfg} {f d : Nat} {kw : Tok} {ts : List Tok} {s : Stmt} {rest : List Tok}
    (h : parseSet c f d kw ts = .ok (s, rest)) (hs : s.isTz = true) :
    ∃ md colon tg e r, s = .setTimeZone kw md colon tg e ∧ parseE c.q f d r = .ok (e, rest) := by
  unfold parseSet parseSetTail at h
  split at h
  · rw [ax_role_notTz h] at hs; cases hs
  · split at h
    · simp at h
    · rename_i colon r0 hc
      unfold parseSetVar at h
      split at h
      · simp at h
      · rename_i tg r1 htg
        split at h
        · rw [ax_names_notTz h] at hs; cases hs
        · split at h
          · rw [ax_values_notTz h] at hs; cases hs
          · unfold parseSetOther at h
            split at h
            · simp at h
            · split at h
              · split at h
                · simp at h
                · rename_i e r2 he
                  simp at h
                  obtain ⟨rfl, rfl⟩ := h
                  exact ⟨_, _, _, _, _, rfl, he⟩
              · split at h
                · rw [ax_chars_notTz h] at hs; cases hs
                · split at h
                  · rw [ax_tx_notTz h] at hs; cases hs
                  · simp at h

theorem ax_tz_toks (kw : Tok) (md colon : List Tok) (tg : SetTarget) (e : Expr) :
    (Stmt.setTimeZone kw md colon tg e).showToks =
      kwT "SET" :: ((if isLocal md then [kwT "LOCAL"] else []) ++ kwT "TIME" :: kwT "ZONE" :: showToks e) := by
  by_cases hl : isLocal md = true <;>
    simp [Stmt.showToks, Stmt.pieces, localPieces, hl, showToks, ax_map_tok_spaced, kwP]

theorem ax_tz_closed : isHivevar [kwT "LOCAL"] = false ∧ isHivevar [] = false ∧ isLocal [kwT "LOCAL"] = true ∧
    SetTarget.isVar "timezone" (.timeZone [kwT "TIME", kwT "ZONE"]) = true := by decide +kernel

/-- the tail `TIME ZONE e` after the modifier `md'` (`[]` or `[LOCAL]`) -/
theorem ax_tz_tail (c : TCfg) (f d : Nat) (md' : List Tok) (hh : isHivevar md' = false) (e : Expr) (en : Expr)
    (hq : eqOrTo (showToks e) = none) (he : parseE c.q f d (showToks e) = .ok (en, [])) :
    parseSetTail c f d (kwT "SET") md' (kwT "TIME" :: kwT "ZONE" :: showToks e) =
      .ok (.setTimeZone (kwT "SET") md' [] (.timeZone [kwT "TIME", kwT "ZONE"]) en, []) := by
  obtain ⟨-, -, -, -, -, -, k7, k8, k9⟩ := ax_tz_facts
  obtain ⟨-, -, -, kv⟩ := ax_tz_closed
  simp only [parseSetTail, roleAhead, hh, Bool.false_eq_true, ↓reduceIte, eatKw, k7, hivevarColon]
  simp only [parseSetVar, setTarget, eatKws, eatKw, k8, k9, ↓reduceIte, namesBranch, Bool.false_and, Bool.false_eq_true, hq,
    parseSetOther, SetTarget.isMany, kv, he]

/-- **`SET [LOCAL] TIME ZONE e` re-parses from its printed tokens to its normal form** (also for the source
forms `SET TIMEZONE e`, `SET SESSION TIME ZONE e`, `SET HIVEVAR:TIME ZONE e`, which print as `SET TIME ZONE e`) -/
theorem fixExpr_setTz (c : TCfg) (f d : Nat) (kw : Tok) (ts : List Tok) (s : Stmt)
    (h : parseSet c f d kw ts = .ok (s, [])) (hs : s.isTz = true) (hp : s.tzOk = true) (ht : ts.all tokOk = true) :
    parseStmt c f (d + 1) s.showToks = .ok (s.norm, []) := by
  obtain ⟨k1, k2, k3, k4, k5, k6, -, -, -⟩ := ax_tz_facts
  obtain ⟨c1, c2, c3, -⟩ := ax_tz_closed
  have hy := parseSet_yield c f d kw ts s [] h
  obtain ⟨md, colon, tg, e, r, rfl, he⟩ := ax_set_tz_inv h hs
  simp only [Stmt.tzOk, Bool.and_eq_true, Option.isNone_iff_eq_none] at hp
  obtain ⟨hpe, hq⟩ := hp
  have hye := parseE_yield c.q f d _ _ _ he
  simp only [List.append_nil] at hye
  have hte : r.all tokOk = true := by
    have hy' : ts = md ++ colon ++ tg.flatten ++ e.flatten := by simpa [Stmt.flatten] using hy
    rw [hy'] at ht
    simp only [List.all_append, Bool.and_eq_true] at ht
    rw [hye]; exact ht.2
  have hre := ax_expr_reparse c.q f d he hpe hte (r' := []) rfl
  simp only [List.append_nil] at hre
  rw [ax_tz_toks, ax_dispatch_set]
  unfold parseSet
  by_cases hl : isLocal md = true
  · simp only [hl, ↓reduceIte, List.cons_append, List.nil_append, oneOfTail, eatKw, k1, k2, Bool.false_eq_true]
    rw [ax_tz_tail c f d [kwT "LOCAL"] c1 e e.norm hq hre]
    simp [Stmt.norm, hl]
  · simp only [hl, Bool.false_eq_true, ↓reduceIte, List.nil_append, oneOfTail, eatKw, k4, k5, k6]
    rw [ax_tz_tail c f d [] c2 e e.norm hq hre]
    simp [Stmt.norm, hl]

end SqlVerif.Tcl

import SqlVerif.Lemmas.TclLemmas
import SqlVerif.Lemmas.DdlExt
/-!
Extension lemmas for the third statement-fragment model (`Model/Tcl.lean`), on top of `Lemmas/DdlExt.lean`,
`Lemmas/DmlExt.lean`, `Lemmas/QueryExt.lean` and `Lemmas/PrattExt.lean`:

* statement level (`x` = `;`): every parser function of the model, run on `ts ++ ; :: r`, repeats its
  successful run on `ts` and leaves `; :: r` untouched (`*_semi`, `parseStmt_semi`, `parseStmt_starts`) —
  the locality hypothesis of the script theorem of C11;
* element level (any stopper token `x`): a `SET` value that was parsed completely is parsed to the same
  expression in front of `x` (`setValue_ext`; the sub-query look-ahead only inspects the first token of a
  non-empty input, so no side condition on `x` is needed), and the value list under the side conditions
  of `commaSepE_ext` (`setValues_ext`) — the locality hypothesis of the list theorems of C13.
-/
set_option linter.unusedSimpArgs false
namespace SqlVerif.Tcl
open SqlVerif.Pratt SqlVerif.Query SqlVerif.Dml SqlVerif.Ddl SqlVerif.Gen

-- ---------------------------------------------------------------- helpers, transaction modes, START … RELEASE
theorem oneOfTail_semi (ks : List Nat) (ts r : List Tok) :
    oneOfTail ks (ts ++ semi :: r) = app (semi :: r) (oneOfTail ks ts) := by
  induction ks with
  | nil => simp [oneOfTail, app]
  | cons k ks ih =>
    unfold oneOfTail
    rw [eatKw_semi]
    cases eatKw ts k with
    | none => simpa using ih
    | some p => simp [app]

theorem isoLevel_semi (il r ts : List Tok) (m : TMode) (rest : List Tok) (h : isoLevel il ts = .ok (m, rest)) :
    isoLevel il (ts ++ semi :: r) = .ok (m, rest ++ semi :: r) := by
  unfold isoLevel at h ⊢
  simp only [eatKw_semi, eatKws_semi [TK.READ, TK.UNCOMMITTED] (by simp), eatKws_semi [TK.READ, TK.COMMITTED] (by simp),
    eatKws_semi [TK.REPEATABLE, TK.READ] (by simp)]
  repeat' semi_step h
  all_goals (simp at h; obtain ⟨rfl, rfl⟩ := h; rfl)

theorem modeHead_semi (r ts : List Tok) (m : Option TMode) (rest : List Tok) (h : modeHead ts = .ok (m, rest)) :
    modeHead (ts ++ semi :: r) = .ok (m, rest ++ semi :: r) := by
  unfold modeHead at h ⊢
  simp only [eatKws_semi [TK.ISOLATION, TK.LEVEL] (by simp), eatKws_semi [TK.READ, TK.ONLY] (by simp),
    eatKws_semi [TK.READ, TK.WRITE] (by simp)]
  split at h
  · rename_i il r0 hk
    simp only [hk, Option.map, app]
    split at h
    · simp at h
    · rename_i m' r1 hm
      rw [isoLevel_semi _ r _ _ _ hm]
      simp at h; obtain ⟨rfl, rfl⟩ := h; rfl
  · rename_i hk
    simp only [hk, Option.map]
    split at h
    · rename_i l r0 hk1
      simp only [hk1, app]
      simp at h; obtain ⟨rfl, rfl⟩ := h; rfl
    · rename_i hk1
      simp only [hk1]
      split at h
      · rename_i l r0 hk2
        simp only [hk2, app]
        simp at h; obtain ⟨rfl, rfl⟩ := h; rfl
      · rename_i hk2
        simp only [hk2]
        simp at h; obtain ⟨rfl, rfl⟩ := h; rfl

theorem modesLoop_semi (r : List Tok) : ∀ (n : Nat) (req : Bool) (ts : List Tok) (ms : Sep TMode) (rest : List Tok),
    modesLoop n req ts = .ok (ms, rest) → modesLoop n req (ts ++ semi :: r) = .ok (ms, rest ++ semi :: r) := by
  intro n
  induction n with
  | zero => intro req ts ms rest h; simp [modesLoop] at h
  | succ n ih =>
    intro req ts ms rest h
    simp only [modesLoop] at h ⊢
    split at h
    · simp at h
    · rename_i r0 hm
      rw [modeHead_semi r _ _ _ hm]
      simp only
      split at h
      · simp at h
      · rename_i hreq
        simp only [hreq, if_false]
        simp at h; obtain ⟨rfl, rfl⟩ := h; rfl
    · rename_i m r0 hm
      rw [modeHead_semi r _ _ _ hm]
      simp only [eatSym_semi .Comma (by simp)]
      split at h
      · rename_i cm r1 hc
        simp only [hc, Option.map, app]
        split at h
        · simp at h
        · rename_i ms' r2 hr
          rw [ih _ _ _ _ hr]
          simp at h; obtain ⟨rfl, rfl⟩ := h; rfl
      · rename_i hc
        simp only [hc, Option.map]
        split at h
        · simp at h
        · rename_i ms' r2 hr
          rw [ih _ _ _ _ hr]
          simp at h; obtain ⟨rfl, rfl⟩ := h; rfl

theorem parseModes_semi (r : List Tok) (f : Nat) (ts : List Tok) (ms : Sep TMode) (rest : List Tok)
    (h : parseModes f ts = .ok (ms, rest)) : parseModes f (ts ++ semi :: r) = .ok (ms, rest ++ semi :: r) :=
  modesLoop_semi r _ _ _ _ _ h

theorem parseStart_semi (r : List Tok) (f : Nat) (kw : Tok) (ts : List Tok) (s : Stmt) (rest : List Tok)
    (h : parseStart f kw ts = .ok (s, rest)) : parseStart f kw (ts ++ semi :: r) = .ok (s, rest ++ semi :: r) := by
  unfold parseStart at h ⊢
  rw [eatKw_semi]
  split at h
  · simp at h
  · rename_i tk r0 hk
    simp only [hk, Option.map, app]
    split at h
    · simp at h
    · rename_i ms r1 hm
      rw [parseModes_semi r _ _ _ _ hm]
      simp at h; obtain ⟨rfl, rfl⟩ := h; rfl

theorem beginModifierTail_semi (c : TCfg) (ts r : List Tok) :
    beginModifierTail c (ts ++ semi :: r) = app (semi :: r) (beginModifierTail c ts) := by
  unfold beginModifierTail
  split
  · exact oneOfTail_semi _ _ _
  · rfl

theorem parseBegin_semi (c : TCfg) (r : List Tok) (f : Nat) (kw : Tok) (ts : List Tok) (s : Stmt) (rest : List Tok)
    (h : parseBegin c f kw ts = .ok (s, rest)) : parseBegin c f kw (ts ++ semi :: r) = .ok (s, rest ++ semi :: r) := by
  unfold parseBegin at h ⊢
  simp only [beginModifierTail_semi, oneOfTail_semi, app]
  split at h
  · simp at h
  · rename_i ms r1 hm
    rw [parseModes_semi r _ _ _ _ hm]
    simp at h; obtain ⟨rfl, rfl⟩ := h; rfl

theorem chainPart_semi (r ts ch rest : List Tok) (h : chainPart ts = .ok (ch, rest)) :
    chainPart (ts ++ semi :: r) = .ok (ch, rest ++ semi :: r) := by
  unfold chainPart at h ⊢
  rw [eatKw_semi]
  split at h
  · rename_i hk
    simp at h; obtain ⟨rfl, rfl⟩ := h
    simp [hk]
  · rename_i a r0 hk
    simp only [hk, Option.map, app, kwTail_semi, eatKw_semi]
    split at h
    · simp at h
    · rename_i ck r1 hc
      simp only [hc, Option.map, app]
      simp at h; obtain ⟨rfl, rfl⟩ := h; rfl

theorem parseCommit_semi (r : List Tok) (kw : Tok) (ts : List Tok) (s : Stmt) (rest : List Tok)
    (h : parseCommit kw ts = .ok (s, rest)) : parseCommit kw (ts ++ semi :: r) = .ok (s, rest ++ semi :: r) := by
  unfold parseCommit at h ⊢
  simp only [oneOfTail_semi, app]
  split at h
  · simp at h
  · rename_i ch r1 hc
    rw [chainPart_semi r _ _ _ hc]
    simp at h; obtain ⟨rfl, rfl⟩ := h; rfl

theorem rollbackSavepoint_semi (r ts sp rest : List Tok) (h : rollbackSavepoint ts = .ok (sp, rest)) :
    rollbackSavepoint (ts ++ semi :: r) = .ok (sp, rest ++ semi :: r) := by
  unfold rollbackSavepoint at h ⊢
  rw [eatKw_semi]
  split at h
  · rename_i hk
    simp at h; obtain ⟨rfl, rfl⟩ := h
    simp [hk]
  · rename_i t r0 hk
    simp only [hk, Option.map, app, kwTail_semi]
    split at h
    · simp at h
    · rename_i n r1 hi
      rw [identElem_semi r _ _ _ hi]
      simp at h; obtain ⟨rfl, rfl⟩ := h; rfl

theorem parseRollback_semi (r : List Tok) (kw : Tok) (ts : List Tok) (s : Stmt) (rest : List Tok)
    (h : parseRollback kw ts = .ok (s, rest)) : parseRollback kw (ts ++ semi :: r) = .ok (s, rest ++ semi :: r) := by
  unfold parseRollback at h ⊢
  simp only [oneOfTail_semi, app]
  split at h
  · simp at h
  · rename_i ch r1 hc
    rw [chainPart_semi r _ _ _ hc]
    simp only
    split at h
    · simp at h
    · rename_i sp r2 hs
      rw [rollbackSavepoint_semi r _ _ _ hs]
      simp at h; obtain ⟨rfl, rfl⟩ := h; rfl

theorem parseSavepoint_semi (r : List Tok) (kw : Tok) (ts : List Tok) (s : Stmt) (rest : List Tok)
    (h : parseSavepoint kw ts = .ok (s, rest)) : parseSavepoint kw (ts ++ semi :: r) = .ok (s, rest ++ semi :: r) := by
  unfold parseSavepoint at h ⊢
  split at h
  · simp at h
  · rename_i n r1 hi
    rw [identElem_semi r _ _ _ hi]
    simp at h; obtain ⟨rfl, rfl⟩ := h; rfl

theorem parseRelease_semi (r : List Tok) (kw : Tok) (ts : List Tok) (s : Stmt) (rest : List Tok)
    (h : parseRelease kw ts = .ok (s, rest)) : parseRelease kw (ts ++ semi :: r) = .ok (s, rest ++ semi :: r) := by
  unfold parseRelease at h ⊢
  simp only [kwTail_semi, app]
  split at h
  · simp at h
  · rename_i n r1 hi
    rw [identElem_semi r _ _ _ hi]
    simp at h; obtain ⟨rfl, rfl⟩ := h; rfl

-- ---------------------------------------------------------------- SET
theorem hivevarColon_semi (md r ts colon rest : List Tok) (h : hivevarColon md ts = .ok (colon, rest)) :
    hivevarColon md (ts ++ semi :: r) = .ok (colon, rest ++ semi :: r) := by
  unfold hivevarColon at h ⊢
  split at h
  · rename_i hv
    simp only [hv, if_true]
    split at h
    · rename_i cl r0 hc
      rw [eatSym_ext hc]
      simp at h; obtain ⟨rfl, rfl⟩ := h; rfl
    · simp at h
  · rename_i hv
    simp only [hv, if_false]
    simp at h; obtain ⟨rfl, rfl⟩ := h; rfl

theorem setTarget_semi (c : TCfg) (r : List Tok) (f : Nat) (ts : List Tok) (tg : SetTarget) (rest : List Tok)
    (h : setTarget c f ts = .ok (tg, rest)) : setTarget c f (ts ++ semi :: r) = .ok (tg, rest ++ semi :: r) := by
  unfold setTarget at h ⊢
  simp only [eatKws_semi [TK.TIME, TK.ZONE] (by simp), eatSym_semi .LParen (by simp)]
  split at h
  · rename_i tz r0 hk
    simp only [hk, Option.map, app]
    simp at h; obtain ⟨rfl, rfl⟩ := h; rfl
  · rename_i hk
    simp only [hk, Option.map]
    cases hp : c.parenSet with
    | false =>
      simp only [hp, Bool.false_eq_true, if_false] at h ⊢
      split at h
      · simp at h
      · rename_i name r0 hn
        rw [nameElem_semi r _ _ _ hn]
        simp only
        split at h
        · simp at h
        · rename_i hb
          simp only [hb, if_false]
          simp at h; obtain ⟨rfl, rfl⟩ := h; rfl
    | true =>
      simp only [hp, if_true] at h ⊢
      split at h
      · rename_i lp r0 hl
        simp only [hl, Option.map, app]
        split at h
        · simp at h
        · rename_i ids r1 hi
          rw [commaSepE_semi _ _ r (identElem_semi r) _ _ _ _ hi]
          simp only
          split at h
          · rename_i rp r2 hr
            rw [eatSym_ext hr]
            simp at h; obtain ⟨rfl, rfl⟩ := h; rfl
          · simp at h
      · rename_i hl
        simp only [hl, Option.map]
        split at h
        · simp at h
        · rename_i name r0 hn
          rw [nameElem_semi r _ _ _ hn]
          simp only
          split at h
          · simp at h
          · rename_i hb
            simp only [hb, if_false]
            simp at h; obtain ⟨rfl, rfl⟩ := h; rfl

theorem literalString_ext (S ts : List Tok) (t : Tok) (rest : List Tok) (h : literalString ts = .ok (t, rest)) :
    literalString (ts ++ S) = .ok (t, rest ++ S) := by
  have := literalString_yield _ _ _ h
  subst this
  unfold literalString at h ⊢
  simp only [List.cons_append] at h ⊢
  split at h <;> simp at h
  all_goals (obtain ⟨rfl, rfl⟩ := h; rfl)

theorem literalString_semi (r ts : List Tok) (t : Tok) (rest : List Tok) (h : literalString ts = .ok (t, rest)) :
    literalString (ts ++ semi :: r) = .ok (t, rest ++ semi :: r) := literalString_ext _ ts t rest h

theorem collatePart_semi (r ts co rest : List Tok) (h : collatePart ts = .ok (co, rest)) :
    collatePart (ts ++ semi :: r) = .ok (co, rest ++ semi :: r) := by
  unfold collatePart at h ⊢
  rw [eatKw_semi]
  split at h
  · rename_i hk
    simp at h; obtain ⟨rfl, rfl⟩ := h
    simp [hk]
  · rename_i ck r0 hk
    simp only [hk, Option.map, app]
    split at h
    · simp at h
    · rename_i t r1 hl
      rw [literalString_ext _ _ _ _ hl]
      simp at h; obtain ⟨rfl, rfl⟩ := h; rfl

theorem parseSetNames_semi (r : List Tok) (kw : Tok) (md colon name ts : List Tok) (s : Stmt) (rest : List Tok)
    (h : parseSetNames kw md colon name ts = .ok (s, rest)) :
    parseSetNames kw md colon name (ts ++ semi :: r) = .ok (s, rest ++ semi :: r) := by
  unfold parseSetNames at h ⊢
  rw [eatKw_semi]
  split at h
  · rename_i dk r0 hk
    simp only [hk, Option.map, app]
    simp at h; obtain ⟨rfl, rfl⟩ := h; rfl
  · rename_i hk
    simp only [hk, Option.map]
    split at h
    · simp at h
    · rename_i cs r0 hl
      rw [literalString_ext _ _ _ _ hl]
      simp only
      split at h
      · simp at h
      · rename_i co r1 hc
        rw [collatePart_semi r _ _ _ hc]
        simp at h; obtain ⟨rfl, rfl⟩ := h; rfl

/-- a `SET` value parsed completely is parsed to the same expression in front of any stopper token -/
theorem setValue_ext (c : TCfg) {x : Tok} (hx : stopper x = true) (r : List Tok) (f d : Nat) (ts : List Tok) (e : Expr)
    (rest : List Tok) (h : setValue c f d ts = .ok (e, rest)) : setValue c f d (ts ++ x :: r) = .ok (e, rest ++ x :: r) := by
  unfold setValue at h ⊢
  split at h
  · simp at h
  · rename_i hs
    rw [subQueryAhead_ne _ _ (parseE_ne_nil _ _ _ _ _ _ h)]
    simp only [hs, if_false]
    exact parseE_ext c.q hx r _ _ _ _ _ h

theorem setValue_semi (c : TCfg) (r : List Tok) (f d : Nat) (ts : List Tok) (e : Expr) (rest : List Tok)
    (h : setValue c f d ts = .ok (e, rest)) : setValue c f d (ts ++ semi :: r) = .ok (e, rest ++ semi :: r) :=
  setValue_ext c semi_stopper r f d ts e rest h

/-- the value list of `SET … =` in front of a stopper token, under the side conditions of `commaSepE_ext` -/
theorem setValues_ext (c : TCfg) {x : Tok} (hx : stopper x = true) (r : List Tok) (f d n : Nat) (ts : List Tok)
    (vs : Sep Expr) (rest : List Tok) (h : commaSepE c.tc (setValue c f d) n ts = .ok (vs, rest))
    (hne : rest ≠ [] ∨ (endsList x = true ∧ x.isSym .Comma = false)) :
    commaSepE c.tc (setValue c f d) n (ts ++ x :: r) = .ok (vs, rest ++ x :: r) :=
  commaSepE_ext _ _ r (setValue_ext c hx r f d) _ _ _ _ h hne

theorem eqOrTo_semi (ts r : List Tok) : eqOrTo (ts ++ semi :: r) = (eqOrTo ts).map (app (semi :: r)) := by
  unfold eqOrTo
  rw [eatSym_semi .Eq (by simp), eatKw_semi]
  cases eatSym ts .Eq <;> simp

theorem optLParen_ext (m : Bool) (S ts lp rest : List Tok) (h : optLParen m ts = .ok (lp, rest)) :
    optLParen m (ts ++ S) = .ok (lp, rest ++ S) := by
  unfold optLParen at h ⊢
  split at h
  · rename_i hm
    simp only [hm, if_true]
    split at h
    · rename_i t r0 hc
      rw [eatSym_ext hc]
      simp at h; obtain ⟨rfl, rfl⟩ := h; rfl
    · simp at h
  · rename_i hm
    simp only [hm, if_false]
    simp at h; obtain ⟨rfl, rfl⟩ := h; rfl

theorem optRParen_ext (m : Bool) (S ts rp rest : List Tok) (h : optRParen m ts = .ok (rp, rest)) :
    optRParen m (ts ++ S) = .ok (rp, rest ++ S) := by
  unfold optRParen at h ⊢
  split at h
  · rename_i hm
    simp only [hm, if_true]
    split at h
    · rename_i t r0 hc
      rw [eatSym_ext hc]
      simp at h; obtain ⟨rfl, rfl⟩ := h; rfl
    · simp at h
  · rename_i hm
    simp only [hm, if_false]
    simp at h; obtain ⟨rfl, rfl⟩ := h; rfl

theorem optLParen_semi (m : Bool) (r ts lp rest : List Tok) (h : optLParen m ts = .ok (lp, rest)) :
    optLParen m (ts ++ semi :: r) = .ok (lp, rest ++ semi :: r) := optLParen_ext m _ ts lp rest h

theorem optRParen_semi (m : Bool) (r ts rp rest : List Tok) (h : optRParen m ts = .ok (rp, rest)) :
    optRParen m (ts ++ semi :: r) = .ok (rp, rest ++ semi :: r) := optRParen_ext m _ ts rp rest h

theorem parseSetValues_semi (c : TCfg) (r : List Tok) (f d : Nat) (kw : Tok) (md colon : List Tok) (tg : SetTarget) (eq : Tok)
    (ts : List Tok) (s : Stmt) (rest : List Tok) (h : parseSetValues c f d kw md colon tg eq ts = .ok (s, rest)) :
    parseSetValues c f d kw md colon tg eq (ts ++ semi :: r) = .ok (s, rest ++ semi :: r) := by
  unfold parseSetValues at h ⊢
  split at h
  · simp at h
  · rename_i lp r0 hl
    rw [optLParen_ext _ _ _ _ _ hl]
    simp only
    split at h
    · simp at h
    · rename_i vs r1 hc
      rw [commaSepE_semi _ _ r (setValue_semi c r f d) _ _ _ _ hc]
      simp only
      split at h
      · simp at h
      · rename_i rp r2 hr
        rw [optRParen_ext _ _ _ _ _ hr]
        simp at h; obtain ⟨rfl, rfl⟩ := h; rfl

theorem parseSetCharacteristics_semi (r : List Tok) (f : Nat) (kw : Tok) (md colon name ts : List Tok) (s : Stmt)
    (rest : List Tok) (h : parseSetCharacteristics f kw md colon name ts = .ok (s, rest)) :
    parseSetCharacteristics f kw md colon name (ts ++ semi :: r) = .ok (s, rest ++ semi :: r) := by
  unfold parseSetCharacteristics at h ⊢
  rw [eatKws_semi _ (by simp)]
  split at h
  · simp at h
  · rename_i at_ r0 hk
    simp only [hk, Option.map, app]
    split at h
    · simp at h
    · rename_i ms r1 hm
      rw [parseModes_semi r _ _ _ _ hm]
      simp at h; obtain ⟨rfl, rfl⟩ := h; rfl

theorem parseSetTransaction_semi (r : List Tok) (f : Nat) (kw : Tok) (md colon name ts : List Tok) (s : Stmt)
    (rest : List Tok) (h : parseSetTransaction f kw md colon name ts = .ok (s, rest)) :
    parseSetTransaction f kw md colon name (ts ++ semi :: r) = .ok (s, rest ++ semi :: r) := by
  unfold parseSetTransaction at h ⊢
  rw [peekKw_semi]
  split at h
  · simp at h
  · rename_i hs
    simp only [hs, if_false]
    split at h
    · simp at h
    · rename_i ms r1 hm
      rw [parseModes_semi r _ _ _ _ hm]
      simp at h; obtain ⟨rfl, rfl⟩ := h; rfl

theorem parseSetOther_semi (c : TCfg) (r : List Tok) (f d : Nat) (kw : Tok) (md colon : List Tok) (tg : SetTarget)
    (ts : List Tok) (s : Stmt) (rest : List Tok) (h : parseSetOther c f d kw md colon tg ts = .ok (s, rest)) :
    parseSetOther c f d kw md colon tg (ts ++ semi :: r) = .ok (s, rest ++ semi :: r) := by
  unfold parseSetOther at h ⊢
  split at h
  · simp at h
  · rename_i h0
    simp only [h0, if_false]
    split at h
    · rename_i h1
      simp only [h1, if_true]
      split at h
      · simp at h
      · rename_i e r0 he
        rw [parseE_semi c.q r _ _ _ _ _ he]
        simp at h; obtain ⟨rfl, rfl⟩ := h; rfl
    · rename_i h1
      simp only [h1, if_false]
      split at h
      · rename_i h2
        simp only [h2, if_true]
        exact parseSetCharacteristics_semi r _ _ _ _ _ _ _ _ h
      · rename_i h2
        simp only [h2, if_false]
        split at h
        · rename_i h3
          simp only [h3, if_true]
          exact parseSetTransaction_semi r _ _ _ _ _ _ _ _ h
        · simp at h

theorem parseSetVar_semi (c : TCfg) (r : List Tok) (f d : Nat) (kw : Tok) (md colon ts : List Tok) (s : Stmt)
    (rest : List Tok) (h : parseSetVar c f d kw md colon ts = .ok (s, rest)) :
    parseSetVar c f d kw md colon (ts ++ semi :: r) = .ok (s, rest ++ semi :: r) := by
  unfold parseSetVar at h ⊢
  split at h
  · simp at h
  · rename_i tg r0 ht
    rw [setTarget_semi c r _ _ _ _ ht]
    simp only [eqOrTo_semi]
    split at h
    · rename_i hb
      simp only [hb, if_true]
      exact parseSetNames_semi r _ _ _ _ _ _ _ h
    · rename_i hb
      simp only [hb, if_false]
      split at h
      · rename_i eq r1 he
        simp only [he, Option.map, app]
        exact parseSetValues_semi c r _ _ _ _ _ _ _ _ _ _ h
      · rename_i he
        simp only [he, Option.map]
        exact parseSetOther_semi c r _ _ _ _ _ _ _ _ _ h

theorem parseSetRole_semi (r : List Tok) (kw : Tok) (md : List Tok) (rk : Tok) (ts : List Tok) (s : Stmt) (rest : List Tok)
    (h : parseSetRole kw md rk ts = .ok (s, rest)) : parseSetRole kw md rk (ts ++ semi :: r) = .ok (s, rest ++ semi :: r) := by
  unfold parseSetRole at h ⊢
  split at h
  · simp at h
  · rename_i n r1 hi
    rw [identElem_semi r _ _ _ hi]
    simp at h; obtain ⟨rfl, rfl⟩ := h; rfl

theorem roleAhead_semi (md ts r : List Tok) : roleAhead md (ts ++ semi :: r) = (roleAhead md ts).map (app (semi :: r)) := by
  unfold roleAhead
  split
  · rfl
  · exact eatKw_semi _ _ _

theorem parseSetTail_semi (c : TCfg) (r : List Tok) (f d : Nat) (kw : Tok) (md ts : List Tok) (s : Stmt) (rest : List Tok)
    (h : parseSetTail c f d kw md ts = .ok (s, rest)) :
    parseSetTail c f d kw md (ts ++ semi :: r) = .ok (s, rest ++ semi :: r) := by
  unfold parseSetTail at h ⊢
  rw [roleAhead_semi]
  split at h
  · rename_i rk r0 hr
    simp only [hr, Option.map, app]
    exact parseSetRole_semi r _ _ _ _ _ _ h
  · rename_i hr
    simp only [hr, Option.map]
    split at h
    · simp at h
    · rename_i colon r0 hc
      rw [hivevarColon_semi _ r _ _ _ hc]
      exact parseSetVar_semi c r _ _ _ _ _ _ _ _ h

theorem parseSet_semi (c : TCfg) (r : List Tok) (f d : Nat) (kw : Tok) (ts : List Tok) (s : Stmt) (rest : List Tok)
    (h : parseSet c f d kw ts = .ok (s, rest)) : parseSet c f d kw (ts ++ semi :: r) = .ok (s, rest ++ semi :: r) := by
  unfold parseSet at h ⊢
  simp only [oneOfTail_semi, app]
  exact parseSetTail_semi c r _ _ _ _ _ _ _ h

-- ---------------------------------------------------------------- USE / DISCARD / DEALLOCATE / CLOSE / ASSERT
theorem useKindTail_semi (c : TCfg) (ts r : List Tok) :
    useKindTail c (ts ++ semi :: r) = app (semi :: r) (useKindTail c ts) := by
  unfold useKindTail
  split
  · exact oneOfTail_semi _ _ _
  · split
    · exact oneOfTail_semi _ _ _
    · rfl

theorem useDefaultAhead_semi (c : TCfg) (ts r : List Tok) :
    useDefaultAhead c (ts ++ semi :: r) = (useDefaultAhead c ts).map (app (semi :: r)) := by
  unfold useDefaultAhead
  split
  · exact eatKw_semi _ _ _
  · rfl

theorem parseUse_semi (c : TCfg) (r : List Tok) (kw : Tok) (ts : List Tok) (s : Stmt) (rest : List Tok)
    (h : parseUse c kw ts = .ok (s, rest)) : parseUse c kw (ts ++ semi :: r) = .ok (s, rest ++ semi :: r) := by
  unfold parseUse at h ⊢
  simp only [useDefaultAhead_semi, useKindTail_semi, app]
  split at h
  · rename_i dk r0 hd
    simp only [hd, Option.map, app]
    simp at h; obtain ⟨rfl, rfl⟩ := h; rfl
  · rename_i hd
    simp only [hd, Option.map]
    split at h
    · simp at h
    · rename_i name r0 hn
      rw [nameElem_semi r _ _ _ hn]
      simp only
      split at h
      · simp at h
      · rename_i hb
        simp only [hb, if_false]
        simp at h; obtain ⟨rfl, rfl⟩ := h; rfl

theorem parseDiscard_ext (S : List Tok) (kw : Tok) (ts : List Tok) (s : Stmt) (rest : List Tok)
    (h : parseDiscard kw ts = .ok (s, rest)) : parseDiscard kw (ts ++ S) = .ok (s, rest ++ S) := by
  unfold parseDiscard at h ⊢
  cases ts with
  | nil => simp at h
  | cons t r0 =>
    simp only [List.cons_append] at h ⊢
    split at h
    · rename_i hk
      simp only [hk, if_true]
      simp at h; obtain ⟨rfl, rfl⟩ := h; rfl
    · simp at h

theorem parseDiscard_semi (r : List Tok) (kw : Tok) (ts : List Tok) (s : Stmt) (rest : List Tok)
    (h : parseDiscard kw ts = .ok (s, rest)) : parseDiscard kw (ts ++ semi :: r) = .ok (s, rest ++ semi :: r) :=
  parseDiscard_ext _ kw ts s rest h

theorem parseDeallocate_semi (r : List Tok) (kw : Tok) (ts : List Tok) (s : Stmt) (rest : List Tok)
    (h : parseDeallocate kw ts = .ok (s, rest)) : parseDeallocate kw (ts ++ semi :: r) = .ok (s, rest ++ semi :: r) := by
  unfold parseDeallocate at h ⊢
  simp only [kwTail_semi, app]
  split at h
  · simp at h
  · rename_i n r1 hi
    rw [identElem_semi r _ _ _ hi]
    simp at h; obtain ⟨rfl, rfl⟩ := h; rfl

theorem parseClose_semi (r : List Tok) (kw : Tok) (ts : List Tok) (s : Stmt) (rest : List Tok)
    (h : parseClose kw ts = .ok (s, rest)) : parseClose kw (ts ++ semi :: r) = .ok (s, rest ++ semi :: r) := by
  unfold parseClose at h ⊢
  split at h
  · simp at h
  · rename_i n r1 hi
    rw [identElem_semi r _ _ _ hi]
    simp at h; obtain ⟨rfl, rfl⟩ := h; rfl

theorem parseAssert_semi (c : TCfg) (r : List Tok) (f d : Nat) (kw : Tok) (ts : List Tok) (s : Stmt) (rest : List Tok)
    (h : parseAssert c f d kw ts = .ok (s, rest)) : parseAssert c f d kw (ts ++ semi :: r) = .ok (s, rest ++ semi :: r) := by
  unfold parseAssert at h ⊢
  split at h
  · simp at h
  · rename_i e r0 he
    rw [parseE_semi c.q r _ _ _ _ _ he]
    simp only
    split at h
    · simp at h
    · rename_i m r1 hm
      rw [kwExprPart_semi c.q r _ _ _ _ _ _ hm]
      simp at h; obtain ⟨rfl, rfl⟩ := h; rfl

-- ---------------------------------------------------------------- statements
/-- **statement-level extension**: a statement accepted by the model is accepted, with the same
tree, in front of `;` and anything after it -/
theorem parseStmt_semi (c : TCfg) (r : List Tok) (f limit : Nat) (ts : List Tok) (s : Stmt) (rest : List Tok)
    (h : parseStmt c f limit ts = .ok (s, rest)) : parseStmt c f limit (ts ++ semi :: r) = .ok (s, rest ++ semi :: r) := by
  unfold parseStmt at h ⊢
  cases limit with
  | zero => simp at h
  | succ d =>
    simp only at h ⊢
    cases ts with
    | nil => simp at h
    | cons t ts0 =>
      simp only [List.cons_append] at h ⊢
      by_cases hSTART : t.isKw TK.START = true
      · rw [if_pos hSTART] at h ⊢; exact parseStart_semi r _ _ _ _ _ h
      rw [if_neg hSTART] at h ⊢
      by_cases hBEGIN : t.isKw TK.BEGIN = true
      · rw [if_pos hBEGIN] at h ⊢; exact parseBegin_semi c r _ _ _ _ _ h
      rw [if_neg hBEGIN] at h ⊢
      by_cases hEND_ : t.isKw TK.END_ = true
      · rw [if_pos hEND_] at h ⊢; exact parseCommit_semi r _ _ _ _ h
      rw [if_neg hEND_] at h ⊢
      by_cases hCOMMIT : t.isKw TK.COMMIT = true
      · rw [if_pos hCOMMIT] at h ⊢; exact parseCommit_semi r _ _ _ _ h
      rw [if_neg hCOMMIT] at h ⊢
      by_cases hROLLBACK : t.isKw TK.ROLLBACK = true
      · rw [if_pos hROLLBACK] at h ⊢; exact parseRollback_semi r _ _ _ _ h
      rw [if_neg hROLLBACK] at h ⊢
      by_cases hSAVEPOINT : t.isKw TK.SAVEPOINT = true
      · rw [if_pos hSAVEPOINT] at h ⊢; exact parseSavepoint_semi r _ _ _ _ h
      rw [if_neg hSAVEPOINT] at h ⊢
      by_cases hRELEASE : t.isKw TK.RELEASE = true
      · rw [if_pos hRELEASE] at h ⊢; exact parseRelease_semi r _ _ _ _ h
      rw [if_neg hRELEASE] at h ⊢
      by_cases hSET : t.isKw TK.SET = true
      · rw [if_pos hSET] at h ⊢; exact parseSet_semi c r _ _ _ _ _ _ h
      rw [if_neg hSET] at h ⊢
      by_cases hUSE : t.isKw TK.USE = true
      · rw [if_pos hUSE] at h ⊢; exact parseUse_semi c r _ _ _ _ h
      rw [if_neg hUSE] at h ⊢
      by_cases hDISCARD : t.isKw TK.DISCARD = true
      · rw [if_pos hDISCARD] at h ⊢; exact parseDiscard_semi r _ _ _ _ h
      rw [if_neg hDISCARD] at h ⊢
      by_cases hDEALLOCATE : t.isKw TK.DEALLOCATE = true
      · rw [if_pos hDEALLOCATE] at h ⊢; exact parseDeallocate_semi r _ _ _ _ h
      rw [if_neg hDEALLOCATE] at h ⊢
      by_cases hCLOSE : t.isKw TK.CLOSE = true
      · rw [if_pos hCLOSE] at h ⊢; exact parseClose_semi r _ _ _ _ h
      rw [if_neg hCLOSE] at h ⊢
      by_cases hASSERT : t.isKw TK.ASSERT = true
      · rw [if_pos hASSERT] at h ⊢; exact parseAssert_semi c r _ _ _ _ _ _ h
      rw [if_neg hASSERT] at h ⊢
      exact mapRes_semi _ (fun v rest' hh => by
        simpa using SqlVerif.Ddl.parseStmt_semi c.x r f (d + 1) (t :: ts0) v rest' hh) h

/-- an accepted statement never starts with the separator -/
theorem parseStmt_starts (c : TCfg) (f limit : Nat) (ts : List Tok) (s : Stmt) (rest : List Tok)
    (h : parseStmt c f limit ts = .ok (s, rest)) : ∃ t r, ts = t :: r ∧ t.isSym .SemiColon = false := by
  unfold parseStmt at h
  cases limit with
  | zero => simp at h
  | succ d =>
    simp only at h
    cases ts with
    | nil => simp at h
    | cons t ts0 =>
      refine ⟨t, ts0, rfl, ?_⟩
      cases t with
      | sym sy =>
        simp only [Tok.isKw, Bool.false_eq_true, if_false] at h
        obtain ⟨v, hv, -⟩ := mapRes_ok h
        obtain ⟨t', r', ht, hns⟩ := SqlVerif.Ddl.parseStmt_starts _ _ _ _ _ _ hv
        simp at ht; obtain ⟨rfl, -⟩ := ht; exact hns
      | _ => rfl

end SqlVerif.Tcl

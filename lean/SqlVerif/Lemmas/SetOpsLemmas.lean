import SqlVerif.Model.SetOps
namespace SqlVerif.SetOps

theorem levelsAbove_precOf_lt (o : Op) (prec : Nat) (h : ¬ prec ≥ precOf o) :
    levelsAbove (precOf o) + 1 ≤ levelsAbove prec := by
  cases o <;> simp only [precOf] at h ⊢ <;> unfold levelsAbove <;> (repeat' split) <;> omega

/-- simultaneous bound: activations reached through the loop are bounded by the number of
precedence levels above the caller's, for every fuel and every token list -/
theorem depth_bound : ∀ (fuel : Nat),
    (∀ prec ts e rest d, queryBody fuel prec ts = some (e, rest, d) → d ≤ levelsAbove prec + 1) ∧
    (∀ e0 prec ts e rest d, remaining fuel e0 prec ts = some (e, rest, d) → d ≤ levelsAbove prec) := by
  intro fuel
  induction fuel with
  | zero => constructor <;> intros <;> simp_all [queryBody, remaining]
  | succ n ih =>
    obtain ⟨ihQ, ihR⟩ := ih
    constructor
    · intro prec ts e rest d h
      cases ts with
      | nil => simp [queryBody] at h
      | cons t rest0 =>
        cases t with
        | atom k =>
          simp only [queryBody] at h
          split at h
          · rename_i e' rest' d' hr
            injection h with h; injection h with _ h; injection h with _ h
            have := ihR _ _ _ _ _ _ hr
            omega
          · simp at h
        | op o q => simp [queryBody] at h
        | other k => simp [queryBody] at h
    · intro e0 prec ts e rest d h
      cases ts with
      | nil => simp [remaining] at h; omega
      | cons t rest0 =>
        cases t with
        | atom k => simp [remaining] at h; omega
        | other k => simp [remaining] at h; omega
        | op o q =>
          simp only [remaining] at h
          split at h
          · injection h with h; injection h with _ h; injection h with _ h; omega
          · rename_i hp
            split at h
            · simp at h
            · rename_i r rest' d1 hq
              split at h
              · simp at h
              · rename_i e' rest'' d2 hr
                injection h with h; injection h with _ h; injection h with _ h
                have h1 := ihQ _ _ _ _ _ hq
                have h2 := ihR _ _ _ _ _ _ hr
                have h3 := levelsAbove_precOf_lt o prec hp
                omega

end SqlVerif.SetOps

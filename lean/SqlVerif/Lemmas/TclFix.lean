import SqlVerif.Lemmas.TclFixTx
import SqlVerif.Lemmas.TclFixMisc
import SqlVerif.Lemmas.TclFixExpr
import SqlVerif.Lemmas.TclFixVar
import SqlVerif.Lemmas.TclFixTuple
import SqlVerif.Lemmas.TclFixDdl
import SqlVerif.Lemmas.TclFixMd
/-!
The statement-level C01 fixpoint on the third statement model, assembled over the dispatcher from

* `fixTx_*` (`Lemmas/TclFixTx.lean`), `fixMisc_*` (`Lemmas/TclFixMisc.lean`): the parser evaluated on the
  printed tokens of the statements without an expression operand;
* `fixExpr_assert`, `fixExpr_setTz` (`Lemmas/TclFixExpr.lean`), `fixVar_set` / `fixVar_tuple` (`Lemmas/TclFixVar.lean`, `TclFixTuple.lean`): `ASSERT`,
  `SET TIME ZONE` and `SET variable = values`, the expressions re-parsed through the simulation of the expression layer;
* `stmt_reparse_ddl` (`Lemmas/TclFixDdl.lean`): statements of the first two fragments through
  `Ddl.stmt_reparse_sub`;
* `stmt_sexp_norm` (`Lemmas/TclFixSexp.lean`) with `parseStmt_mdOk`: the normal form holds the same AST.
-/
set_option linter.unusedSimpArgs false
namespace SqlVerif.Tcl
open SqlVerif.Pratt SqlVerif.Query SqlVerif.Dml SqlVerif.Ddl SqlVerif.Gen

/-- the decidable side condition of the fixpoint theorem: a statement of the first two fragments is
`printableQ` and of `normal` shape (`Lemmas/DdlDefs.lean`); the operands of `ASSERT` and the value of
`SET TIME ZONE` are printable (and the printed value does not begin with `=` / `TO`); the other kinds of this
fragment need nothing; for `SET variable = values` (one-name, `TIME ZONE` and parenthesised-tuple targets) the values
are printable, there is no trailing comma after the values and — when the modifier is `SESSION`, which the printer
drops — a one-name variable does not begin with the word SESSION / LOCAL / HIVEVAR (`Stmt.varNormal` /
`Stmt.tupleNormal`; `SET SESSION LOCAL = 1` prints `SET LOCAL = 1`, which is rejected); `SET NAMES` needs nothing (a name
that is not one plain non-keyword word is printed as a '…' string: one token with the same text either way) -/
def Stmt.fixOk : Stmt → Bool
  | .ddl s0 => s0.printableQ && s0.normal
  | .assert kw e ak m => (Stmt.assert kw e ak m).assertPrintable
  | .setTimeZone kw md colon tg e => (Stmt.setTimeZone kw md colon tg e).tzOk
  | .setVar kw md colon tg eq lp vs rp =>
    (Stmt.setVar kw md colon tg eq lp vs rp).varPrintable &&
      ((Stmt.setVar kw md colon tg eq lp vs rp).varNormal || (Stmt.setVar kw md colon tg eq lp vs rp).tupleNormal)
  | _ => true

/-- the constructors `parse_set` builds -/
def Stmt.isSetKind : Stmt → Bool
  | .setRole _ _ _ _ => true
  | .setVar _ _ _ _ _ _ _ _ => true
  | .setTimeZone _ _ _ _ _ => true
  | .setNamesDefault _ _ _ _ _ => true
  | .setNames _ _ _ _ _ _ => true
  | .setTx _ _ _ _ _ _ => true
  | _ => false

theorem parseSetRole_setKind {kw : Tok} {md : List Tok} {rk : Tok} {ts : List Tok} {s : Stmt} {rest : List Tok}
    (h : parseSetRole kw md rk ts = .ok (s, rest)) : s.isSetKind = true := by
  unfold parseSetRole at h
  repeat' (split at h)
  all_goals (first | (simp at h; done) | (simp at h; obtain ⟨rfl, -⟩ := h; rfl))
theorem parseSetNames_setKind {kw : Tok} {md colon name : List Tok} {ts : List Tok} {s : Stmt} {rest : List Tok}
    (h : parseSetNames kw md colon name ts = .ok (s, rest)) : s.isSetKind = true := by
  unfold parseSetNames at h
  repeat' (split at h)
  all_goals (first | (simp at h; done) | (simp at h; obtain ⟨rfl, -⟩ := h; rfl))
theorem parseSetCharacteristics_setKind {f : Nat} {kw : Tok} {md colon name : List Tok} {ts : List Tok} {s : Stmt} {rest : List Tok}
    (h : parseSetCharacteristics f kw md colon name ts = .ok (s, rest)) : s.isSetKind = true := by
  unfold parseSetCharacteristics at h
  repeat' (split at h)
  all_goals (first | (simp at h; done) | (simp at h; obtain ⟨rfl, -⟩ := h; rfl))
theorem parseSetTransaction_setKind {f : Nat} {kw : Tok} {md colon name : List Tok} {ts : List Tok} {s : Stmt} {rest : List Tok}
    (h : parseSetTransaction f kw md colon name ts = .ok (s, rest)) : s.isSetKind = true := by
  unfold parseSetTransaction at h
  repeat' (split at h)
  all_goals (first | (simp at h; done) | (simp at h; obtain ⟨rfl, -⟩ := h; rfl))
theorem parseSetValues_setKind {c : TCfg} {f d : Nat} {kw : Tok} {md colon : List Tok} {tg : SetTarget} {eq : Tok} {ts : List Tok} {s : Stmt} {rest : List Tok}
    (h : parseSetValues c f d kw md colon tg eq ts = .ok (s, rest)) : s.isSetKind = true := by
  unfold parseSetValues at h
  repeat' (split at h)
  all_goals (first | (simp at h; done) | (simp at h; obtain ⟨rfl, -⟩ := h; rfl))

theorem parseSetOther_setKind {c : TCfg} {f d : Nat} {kw : Tok} {md colon : List Tok} {tg : SetTarget} {ts : List Tok}
    {s : Stmt} {rest : List Tok} (h : parseSetOther c f d kw md colon tg ts = .ok (s, rest)) : s.isSetKind = true := by
  unfold parseSetOther at h
  split at h
  · simp at h
  · split at h
    · split at h
      · simp at h
      · simp at h; obtain ⟨rfl, -⟩ := h; rfl
    · split at h
      · exact parseSetCharacteristics_setKind h
      · split at h
        · exact parseSetTransaction_setKind h
        · simp at h

theorem parseSet_setKind {c : TCfg} {f d : Nat} {kw : Tok} {ts : List Tok} {s : Stmt} {rest : List Tok}
    (h : parseSet c f d kw ts = .ok (s, rest)) : s.isSetKind = true := by
  unfold parseSet parseSetTail at h
  split at h
  · exact parseSetRole_setKind h
  · split at h
    · simp at h
    · unfold parseSetVar at h
      split at h
      · simp at h
      · split at h
        · exact parseSetNames_setKind h
        · split at h
          · exact parseSetValues_setKind h
          · exact parseSetOther_setKind h

theorem parseAssert_shape {c : TCfg} {f d : Nat} {kw : Tok} {ts : List Tok} {s : Stmt} {rest : List Tok}
    (h : parseAssert c f d kw ts = .ok (s, rest)) : s.fixOk = s.assertPrintable := by
  unfold parseAssert at h
  repeat' (split at h)
  all_goals (first | (simp at h; done) | (simp at h; obtain ⟨rfl, -⟩ := h; rfl))

/-- the `SET` arm: which lemma applies is decided by the constructor -/
theorem fix_set (c : TCfg) (f d : Nat) (kw : Tok) (ts : List Tok) (s : Stmt)
    (h : parseSet c f d kw ts = .ok (s, [])) (hk : s.fixOk = true) (ht : ts.all tokOk = true) :
    parseStmt c f (d + 1) s.showToks = .ok (s.norm, []) := by
  have hsk := parseSet_setKind h
  cases s with
  | setVar _ _ _ _ _ _ _ _ =>
    simp only [Stmt.fixOk, Bool.and_eq_true, Bool.or_eq_true] at hk
    rcases hk.2 with hn | hn
    · exact fixVar_set c f d kw ts [] _ h rfl hk.1 hn ht rfl
    · exact fixVar_tuple c f d kw ts [] _ h rfl hk.1 hn ht rfl
  | setNames _ _ _ _ _ _ => exact fixMisc_set c f d kw ts [] _ tx_modes_reparse tx_modes_toks h rfl
  | setTimeZone kw' md colon tg e => exact fixExpr_setTz c f d kw ts _ h rfl hk ht
  | setRole _ _ _ _ => exact fixMisc_set c f d kw ts [] _ tx_modes_reparse tx_modes_toks h rfl
  | setNamesDefault _ _ _ _ _ => exact fixMisc_set c f d kw ts [] _ tx_modes_reparse tx_modes_toks h rfl
  | setTx _ _ _ _ _ _ => exact fixMisc_set c f d kw ts [] _ tx_modes_reparse tx_modes_toks h rfl
  | _ => simp [Stmt.isSetKind] at hsk

/-- **the statement-level fixpoint**: an accepted statement that satisfies `fixOk`, over lexer-like tokens,
re-parses from its printed tokens — same configuration, fuel and limit — to its normal form -/
theorem stmt_reparse (c : TCfg) (f limit : Nat) (ts : List Tok) (s : Stmt)
    (h : parseStmt c f limit ts = .ok (s, [])) (hk : s.fixOk = true) (ht : ts.all tokOk = true) :
    parseStmt c f limit s.showToks = .ok (s.norm, []) := by
  have h0 := h
  unfold parseStmt at h
  cases limit with
  | zero => simp at h
  | succ d =>
    simp only at h
    cases ts with
    | nil => simp at h
    | cons t r =>
      simp only at h
      have htr : r.all tokOk = true := by
        rw [List.all_cons, Bool.and_eq_true] at ht; exact ht.2
      by_cases hSTART : t.isKw TK.START = true
      · rw [if_pos hSTART] at h; exact fixTx_start h
      rw [if_neg hSTART] at h
      by_cases hBEGIN : t.isKw TK.BEGIN = true
      · rw [if_pos hBEGIN] at h; exact fixTx_begin h
      rw [if_neg hBEGIN] at h
      by_cases hEND_ : t.isKw TK.END_ = true
      · rw [if_pos hEND_] at h; exact fixTx_commit h
      rw [if_neg hEND_] at h
      by_cases hCOMMIT : t.isKw TK.COMMIT = true
      · rw [if_pos hCOMMIT] at h; exact fixTx_commit h
      rw [if_neg hCOMMIT] at h
      by_cases hROLLBACK : t.isKw TK.ROLLBACK = true
      · rw [if_pos hROLLBACK] at h; exact fixTx_rollback h
      rw [if_neg hROLLBACK] at h
      by_cases hSAVEPOINT : t.isKw TK.SAVEPOINT = true
      · rw [if_pos hSAVEPOINT] at h; exact fixTx_savepoint h
      rw [if_neg hSAVEPOINT] at h
      by_cases hRELEASE : t.isKw TK.RELEASE = true
      · rw [if_pos hRELEASE] at h; exact fixTx_release h
      rw [if_neg hRELEASE] at h
      by_cases hSET : t.isKw TK.SET = true
      · rw [if_pos hSET] at h; exact fix_set c f d t r s h hk htr
      rw [if_neg hSET] at h
      by_cases hUSE : t.isKw TK.USE = true
      · rw [if_pos hUSE] at h; exact fixMisc_use c f d t r [] s h
      rw [if_neg hUSE] at h
      by_cases hDISCARD : t.isKw TK.DISCARD = true
      · rw [if_pos hDISCARD] at h; exact fixMisc_discard c f d t r [] s h
      rw [if_neg hDISCARD] at h
      by_cases hDEALLOCATE : t.isKw TK.DEALLOCATE = true
      · rw [if_pos hDEALLOCATE] at h; exact fixMisc_deallocate c f d t r [] s h
      rw [if_neg hDEALLOCATE] at h
      by_cases hCLOSE : t.isKw TK.CLOSE = true
      · rw [if_pos hCLOSE] at h; exact fixMisc_close c f d t r [] s h
      rw [if_neg hCLOSE] at h
      by_cases hASSERT : t.isKw TK.ASSERT = true
      · rw [if_pos hASSERT] at h; exact fixExpr_assert c f d t r s h (by rw [← parseAssert_shape h]; exact hk) htr
      rw [if_neg hASSERT] at h
      obtain ⟨v, hv, rfl⟩ := mapRes_ok h
      simp only [Stmt.fixOk, Bool.and_eq_true] at hk
      have := stmt_reparse_ddl c f (d + 1) (t :: r) v [] [] h0 hk.1 hk.2 ht rfl
      simpa using this

/-- the same for the kinds without an expression operand (`fixKind`), with NO condition on the input tokens and
for a statement that stops anywhere -/
theorem stmt_reparse_fixKind (c : TCfg) (f limit : Nat) (ts : List Tok) (s : Stmt) (rest : List Tok)
    (h : parseStmt c f limit ts = .ok (s, rest)) (hk : s.fixKind = true) :
    parseStmt c f limit s.showToks = .ok (s.norm, []) := by
  unfold parseStmt at h
  cases limit with
  | zero => simp at h
  | succ d =>
    simp only at h
    cases ts with
    | nil => simp at h
    | cons t r =>
      simp only at h
      by_cases hSTART : t.isKw TK.START = true
      · rw [if_pos hSTART] at h; exact fixTx_start h
      rw [if_neg hSTART] at h
      by_cases hBEGIN : t.isKw TK.BEGIN = true
      · rw [if_pos hBEGIN] at h; exact fixTx_begin h
      rw [if_neg hBEGIN] at h
      by_cases hEND_ : t.isKw TK.END_ = true
      · rw [if_pos hEND_] at h; exact fixTx_commit h
      rw [if_neg hEND_] at h
      by_cases hCOMMIT : t.isKw TK.COMMIT = true
      · rw [if_pos hCOMMIT] at h; exact fixTx_commit h
      rw [if_neg hCOMMIT] at h
      by_cases hROLLBACK : t.isKw TK.ROLLBACK = true
      · rw [if_pos hROLLBACK] at h; exact fixTx_rollback h
      rw [if_neg hROLLBACK] at h
      by_cases hSAVEPOINT : t.isKw TK.SAVEPOINT = true
      · rw [if_pos hSAVEPOINT] at h; exact fixTx_savepoint h
      rw [if_neg hSAVEPOINT] at h
      by_cases hRELEASE : t.isKw TK.RELEASE = true
      · rw [if_pos hRELEASE] at h; exact fixTx_release h
      rw [if_neg hRELEASE] at h
      by_cases hSET : t.isKw TK.SET = true
      · rw [if_pos hSET] at h; exact fixMisc_set c f d t r rest s tx_modes_reparse tx_modes_toks h hk
      rw [if_neg hSET] at h
      by_cases hUSE : t.isKw TK.USE = true
      · rw [if_pos hUSE] at h; exact fixMisc_use c f d t r rest s h
      rw [if_neg hUSE] at h
      by_cases hDISCARD : t.isKw TK.DISCARD = true
      · rw [if_pos hDISCARD] at h; exact fixMisc_discard c f d t r rest s h
      rw [if_neg hDISCARD] at h
      by_cases hDEALLOCATE : t.isKw TK.DEALLOCATE = true
      · rw [if_pos hDEALLOCATE] at h; exact fixMisc_deallocate c f d t r rest s h
      rw [if_neg hDEALLOCATE] at h
      by_cases hCLOSE : t.isKw TK.CLOSE = true
      · rw [if_pos hCLOSE] at h; exact fixMisc_close c f d t r rest s h
      rw [if_neg hCLOSE] at h
      by_cases hASSERT : t.isKw TK.ASSERT = true
      · rw [if_pos hASSERT] at h; exact absurd hk (by rw [parseAssert_notFix h]; simp)
      rw [if_neg hASSERT] at h
      obtain ⟨v, hv, rfl⟩ := mapRes_ok h
      simp [Stmt.fixKind] at hk

/-- … and the normal form holds the same AST -/
theorem stmt_reparse_sexp (c : TCfg) (f limit : Nat) (ts : List Tok) (s : Stmt) (rest : List Tok)
    (h : parseStmt c f limit ts = .ok (s, rest)) : s.norm.sexp = s.sexp :=
  stmt_sexp_norm s (parseStmt_mdOk c f limit ts s rest h)

end SqlVerif.Tcl

import SqlVerif.Model.DataType
/-!
Lemmas for property C18 (data types print to tokens that parse back).

Plan: `emit c env g t k T` is the REAL token stream of "type `t`, then `k` more closing angle
brackets of enclosing constructs, then the real tokens `T`", defined compositionally (the merge of
adjacent `>` is done by `run` on the total length of the run).  `closing_brackets_balance` shows
that this is what the lexer (`retok`) makes of the printed pre-tokens.  The parser is then
analysed on `emit` streams: `helper_emit`.
-/
namespace SqlVerif.DTy
open SqlVerif.Pratt (W Sym str wordDisplay)

-- ------------------------------------------------------------------ numbers
theorem foldl_digitsAux (fuel : Nat) : ∀ n, n ≤ fuel → n ≤ u64Max →
    (digitsAux fuel n).foldl u64Step (.ok 0) = .ok n := by
  induction fuel with
  | zero =>
    intro n h _
    have : n = 0 := by omega
    subst this
    simp [digitsAux, u64Step, u64Max]
  | succ f ih =>
    intro n h hm
    unfold digitsAux
    by_cases h10 : n < 10
    · simp only [h10, if_true, List.foldl_cons, List.foldl_nil]
      have : (48 : Nat) ≤ 48 + n ∧ 48 + n ≤ 57 := by omega
      simp only [u64Step, this, and_self, if_true]
      have h2 : 0 * 10 + (48 + n - 48) = n := by omega
      simp only [h2]
      simp [hm]
    · simp only [h10, if_false, List.foldl_append, List.foldl_cons, List.foldl_nil]
      rw [ih (n / 10) (by omega) (by omega)]
      have : (48 : Nat) ≤ 48 + n % 10 ∧ 48 + n % 10 ≤ 57 := by omega
      simp only [u64Step, this, and_self, if_true]
      have h2 : n / 10 * 10 + (48 + n % 10 - 48) = n := by omega
      simp only [h2]
      simp [hm]

theorem digitsAux_ne_nil (fuel n : Nat) : digitsAux fuel n ≠ [] := by
  cases fuel with
  | zero => simp [digitsAux]
  | succ f =>
    unfold digitsAux
    by_cases h : n < 10 <;> simp [h]

theorem parseU64_digits {n : Nat} (h : n ≤ u64Max) : parseU64 (digits n) = .ok n := by
  unfold parseU64 digits
  have hne : (digitsAux n n).isEmpty = false := by
    cases hx : digitsAux n n with
    | nil => exact absurd hx (digitsAux_ne_nil n n)
    | cons a b => rfl
  simp only [hne]
  rw [foldl_digitsAux n n (Nat.le_refl n) h]
  rfl

-- ------------------------------------------------------------------ the lexer on `>` runs
/-- `run` where `>` is not a custom-operator character -/
def run0 (n : Nat) : List Tok := List.replicate (n / 2) ShrT ++ (if n % 2 = 1 then [GtT] else [])

theorem run_eq_run0 {g : Bool} (h : g = false) (n : Nat) : run g n = run0 n := by
  simp [run, run0, h]

@[simp] theorem run0_zero : run0 0 = [] := by simp [run0]
@[simp] theorem run0_one : run0 1 = [GtT] := by simp [run0]
theorem run0_add_two (n : Nat) : run0 (n + 2) = ShrT :: run0 n := by
  simp [run0, List.replicate_succ]

theorem run_zero (g : Bool) : run g 0 = [] := by simp [run]

def gts (k : Nat) : List Tok := List.replicate k GtT

theorem retokGo_gts (g : Bool) (k : Nat) : ∀ n post, post.head? ≠ some GtT →
    retokGo g n (gts k ++ post) = run g (n + k) ++ (match post with | [] => [] | x :: r => x :: retokGo g 0 r) := by
  induction k with
  | zero =>
    intro n post hp
    cases post with
    | nil => simp [gts, retokGo]
    | cons x r =>
      have : x ≠ GtT := by simpa using hp
      simp [gts, retokGo, this]
  | succ k ih =>
    intro n post hp
    have : gts (k + 1) ++ post = GtT :: (gts k ++ post) := by simp [gts, List.replicate_succ]
    rw [this, retokGo]
    simp only [if_true]
    rw [ih (n + 1) post hp]
    have : n + 1 + k = n + (k + 1) := by omega
    rw [this]

theorem retokGo_zero_cons (g : Bool) {x : Tok} (h : x ≠ GtT) (r : List Tok) :
    retokGo g 0 (x :: r) = x :: retokGo g 0 r := by
  simp [retokGo, h, run_zero]

theorem retok_cons (g : Bool) {x : Tok} (h : x ≠ GtT) (r : List Tok) :
    retok g (x :: r) = x :: retok g r := retokGo_zero_cons g h r

theorem retok_nil (g : Bool) : retok g [] = [] := by simp [retok, retokGo, run_zero]

/-- tokens none of which is `>` pass through the lexer unchanged -/
theorem retok_append_noGt (g : Bool) : ∀ (xs r : List Tok), (∀ x ∈ xs, x ≠ GtT) →
    retok g (xs ++ r) = xs ++ retok g r
  | [], r, _ => rfl
  | x :: xs, r, h => by
    have hx : x ≠ GtT := h x (by simp)
    rw [List.cons_append, retok_cons g hx, retok_append_noGt g xs r (fun y hy => h y (by simp [hy]))]
    rfl

theorem retok_gts (g : Bool) (k : Nat) (post : List Tok) (hp : post.head? ≠ some GtT) :
    retok g (gts k ++ post) = run g k ++ retok g post := by
  unfold retok
  rw [retokGo_gts g k 0 post hp]
  cases post with
  | nil => simp [retokGo, run_zero]
  | cons x r =>
    have : x ≠ GtT := by simpa using hp
    simp [retokGo_zero_cons g this]

theorem retok_head (g : Bool) (post : List Tok) (hp : post.head? ≠ some GtT) :
    (retok g post).head? = post.head? := by
  cases post with
  | nil => simp [retok_nil]
  | cons x r =>
    have : x ≠ GtT := by simpa using hp
    simp [retok_cons g this]

-- ------------------------------------------------------------------ measures
def Fields.isNil : Fields → Bool
  | .nil => true
  | _ => false

mutual
/-- number of closing angle brackets the printed type ends with -/
def closers : DT → Nat
  | .arrayAngle t => closers t + 1
  | .struct (.cons n t r) .angle => lastClosers (.cons n t r) + 1
  | _ => 0
def lastClosers : Fields → Nat
  | .nil => 0
  | .cons _ t .nil => closers t
  | .cons _ _ (.cons n t r) => lastClosers (.cons n t r)
end

mutual
def size : DT → Nat
  | .arrayAngle t | .arraySquare t _ | .arrayParen t | .nullable t | .lowCardinality t => size t + 1
  | .map k v => size k + size v + 1
  | .tuple fs | .nested fs | .union fs | .struct fs _ => sizeF fs + 2
  | _ => 2
def sizeF : Fields → Nat
  | .nil => 0
  | .cons _ t r => size t + sizeF r + 1
end

mutual
/-- nesting depth of `parse_data_type_helper` calls (a `[]` suffix stays in the same call) -/
def ndepth : DT → Nat
  | .arrayAngle t | .arrayParen t | .nullable t | .lowCardinality t => ndepth t + 1
  | .arraySquare t _ => ndepth t
  | .map k v => max (ndepth k) (ndepth v) + 1
  | .tuple fs | .nested fs | .union fs | .struct fs _ => ndepthF fs + 1
  | _ => 1
def ndepthF : Fields → Nat
  | .nil => 0
  | .cons _ t r => max (ndepth t) (ndepthF r)
end

/-- an angle-bracket struct whose last field itself ends with an odd number of `>`: its own `>`
is the second half of a `>>`, and its field loop looks for a comma before accounting for it -/
def structEven : DT → Bool
  | .struct (.cons n t r) .angle => lastClosers (.cons n t r) % 2 == 1
  | _ => false

-- ------------------------------------------------------------------ the real token stream
mutual
/-- real tokens of: `t`, then `k` closing angle brackets of enclosing constructs, then `T` -/
def emit (c : Cfg) (env : Env) (g : Bool) : DT → Nat → List Tok → List Tok
  | .arrayAngle t, k, T => kwTok "ARRAY" .ARRAY :: LtT :: emit c env g t (k + 1) T
  | .arraySquare t sz, k, T => emit c env g t 0 (sqToks c sz ++ (run g k ++ T))
  | .arrayParen t, k, T => kwTok "Array" .ARRAY :: LParen :: emit c env g t 0 (RParen :: (run g k ++ T))
  | .map a b, k, T =>
    kwTok "Map" .MAP :: LParen :: emit c env g a 0 (Comma :: emit c env g b 0 (RParen :: (run g k ++ T)))
  | .tuple fs, k, T => kwTok "Tuple" .TUPLE :: LParen :: emitP c env g fs (RParen :: (run g k ++ T))
  | .nested fs, k, T => kwTok "Nested" .NESTED :: LParen :: emitP c env g fs (RParen :: (run g k ++ T))
  | .union fs, k, T => kwTok "UNION" .UNION :: LParen :: emitP c env g fs (RParen :: (run g k ++ T))
  | .struct .nil _, k, T => kwTok "STRUCT" .STRUCT :: (run g k ++ T)
  | .struct (.cons n t r) .paren, k, T =>
    kwTok "STRUCT" .STRUCT :: LParen :: emitP c env g (.cons n t r) (RParen :: (run g k ++ T))
  | .struct (.cons n t r) .angle, k, T => kwTok "STRUCT" .STRUCT :: LtT :: emitA c env g (.cons n t r) k T
  | .nullable t, k, T => kwTok "Nullable" .NULLABLE :: LParen :: emit c env g t 0 (RParen :: (run g k ++ T))
  | .lowCardinality t, k, T =>
    kwTok "LowCardinality" .LOWCARDINALITY :: LParen :: emit c env g t 0 (RParen :: (run g k ++ T))
  | .simple x, k, T => pre c env (.simple x) ++ (run g k ++ T)
  | .withLen x l, k, T => pre c env (.withLen x l) ++ (run g k ++ T)
  | .int x l u, k, T => pre c env (.int x l u) ++ (run g k ++ T)
  | .charLike x l, k, T => pre c env (.charLike x l) ++ (run g k ++ T)
  | .exactNum x i, k, T => pre c env (.exactNum x i) ++ (run g k ++ T)
  | .time x p z, k, T => pre c env (.time x p z) ++ (run g k ++ T)
  | .datetime64 p z, k, T => pre c env (.datetime64 p z) ++ (run g k ++ T)
  | .fixedString n, k, T => pre c env (.fixedString n) ++ (run g k ++ T)
  | .custom n m, k, T => pre c env (.custom n m) ++ (run g k ++ T)
  | .enum ls, k, T => pre c env (.enum ls) ++ (run g k ++ T)
  | .set ls, k, T => pre c env (.set ls) ++ (run g k ++ T)
  | .arrayNone, k, T => pre c env .arrayNone ++ (run g k ++ T)
/-- a field list inside parentheses -/
def emitP (c : Cfg) (env : Env) (g : Bool) : Fields → List Tok → List Tok
  | .nil, T => T
  | .cons n t .nil, T => nameTok c env n ++ emit c env g t 0 T
  | .cons n t (.cons n2 t2 r), T => nameTok c env n ++ emit c env g t 0 (Comma :: emitP c env g (.cons n2 t2 r) T)
/-- a field list inside angle brackets: the last field is followed by this struct's `>` -/
def emitA (c : Cfg) (env : Env) (g : Bool) : Fields → Nat → List Tok → List Tok
  | .nil, k, T => run g (k + 1) ++ T
  | .cons n t .nil, k, T => nameTok c env n ++ emit c env g t (k + 1) T
  | .cons n t (.cons n2 t2 r), k, T => nameTok c env n ++ emit c env g t 0 (Comma :: emitA c env g (.cons n2 t2 r) k T)
end

mutual
theorem emit_append (c : Cfg) (env : Env) (g : Bool) : ∀ (t : DT) (k : Nat) (T U : List Tok),
    emit c env g t k (T ++ U) = emit c env g t k T ++ U
  | .arrayAngle t, k, T, U => by simp [emit, emit_append c env g t]
  | .arraySquare t sz, k, T, U => by
    simp only [emit]
    rw [show sqToks c sz ++ (run g k ++ (T ++ U)) = (sqToks c sz ++ (run g k ++ T)) ++ U by simp, emit_append c env g t]
  | .arrayParen t, k, T, U => by
    simp only [emit]
    rw [show RParen :: (run g k ++ (T ++ U)) = (RParen :: (run g k ++ T)) ++ U by simp, emit_append c env g t]
    simp
  | .map a b, k, T, U => by
    simp only [emit]
    rw [show RParen :: (run g k ++ (T ++ U)) = (RParen :: (run g k ++ T)) ++ U by simp, emit_append c env g b,
      show Comma :: (emit c env g b 0 (RParen :: (run g k ++ T)) ++ U) = (Comma :: emit c env g b 0 (RParen :: (run g k ++ T))) ++ U by simp,
      emit_append c env g a]
    simp
  | .tuple fs, k, T, U => by
    simp only [emit]
    rw [show RParen :: (run g k ++ (T ++ U)) = (RParen :: (run g k ++ T)) ++ U by simp, emitP_append c env g fs]
    simp
  | .nested fs, k, T, U => by
    simp only [emit]
    rw [show RParen :: (run g k ++ (T ++ U)) = (RParen :: (run g k ++ T)) ++ U by simp, emitP_append c env g fs]
    simp
  | .union fs, k, T, U => by
    simp only [emit]
    rw [show RParen :: (run g k ++ (T ++ U)) = (RParen :: (run g k ++ T)) ++ U by simp, emitP_append c env g fs]
    simp
  | .struct .nil _, k, T, U => by simp [emit]
  | .struct (.cons n t r) .paren, k, T, U => by
    simp only [emit]
    rw [show RParen :: (run g k ++ (T ++ U)) = (RParen :: (run g k ++ T)) ++ U by simp, emitP_append c env g (.cons n t r)]
    simp
  | .struct (.cons n t r) .angle, k, T, U => by
    simp only [emit]; rw [emitA_append c env g (.cons n t r)]; simp
  | .nullable t, k, T, U => by
    simp only [emit]
    rw [show RParen :: (run g k ++ (T ++ U)) = (RParen :: (run g k ++ T)) ++ U by simp, emit_append c env g t]
    simp
  | .lowCardinality t, k, T, U => by
    simp only [emit]
    rw [show RParen :: (run g k ++ (T ++ U)) = (RParen :: (run g k ++ T)) ++ U by simp, emit_append c env g t]
    simp
  | .simple x, k, T, U => by simp [emit]
  | .withLen x l, k, T, U => by simp [emit]
  | .int x l u, k, T, U => by simp [emit]
  | .charLike x l, k, T, U => by simp [emit]
  | .exactNum x i, k, T, U => by simp [emit]
  | .time x p z, k, T, U => by simp [emit]
  | .datetime64 p z, k, T, U => by simp [emit]
  | .fixedString n, k, T, U => by simp [emit]
  | .custom n m, k, T, U => by simp [emit]
  | .enum ls, k, T, U => by simp [emit]
  | .set ls, k, T, U => by simp [emit]
  | .arrayNone, k, T, U => by simp [emit]
theorem emitP_append (c : Cfg) (env : Env) (g : Bool) : ∀ (fs : Fields) (T U : List Tok),
    emitP c env g fs (T ++ U) = emitP c env g fs T ++ U
  | .nil, T, U => by simp [emitP]
  | .cons n t .nil, T, U => by simp [emitP, emit_append c env g t]
  | .cons n t (.cons n2 t2 r), T, U => by
    simp only [emitP]
    rw [emitP_append c env g (.cons n2 t2 r),
      show Comma :: (emitP c env g (.cons n2 t2 r) T ++ U) = (Comma :: emitP c env g (.cons n2 t2 r) T) ++ U by simp,
      emit_append c env g t]
    simp
theorem emitA_append (c : Cfg) (env : Env) (g : Bool) : ∀ (fs : Fields) (k : Nat) (T U : List Tok),
    emitA c env g fs k (T ++ U) = emitA c env g fs k T ++ U
  | .nil, k, T, U => by simp [emitA]
  | .cons n t .nil, k, T, U => by simp [emitA, emit_append c env g t]
  | .cons n t (.cons n2 t2 r), k, T, U => by
    simp only [emitA]
    rw [emitA_append c env g (.cons n2 t2 r),
      show Comma :: (emitA c env g (.cons n2 t2 r) k T ++ U) = (Comma :: emitA c env g (.cons n2 t2 r) k T) ++ U by simp,
      emit_append c env g t]
    simp
end

-- ------------------------------------------------------------------ what the parser can return
def u64 (n : Nat) : Bool := decide (n ≤ u64Max)

def optU64 : Option Nat → Bool
  | none => true
  | some n => u64 n

/-- keywords with an arm in `parseLeaf` -/
def leafKw (k : DKw) : Bool :=
  (simpleOfKw k).isSome || (lenOfKw k).isSome || (intOfKw k).isSome || (numOfKw k).isSome ||
  k == .DOUBLE || k == .VARCHAR || k == .NVARCHAR || k == .CHARACTER || k == .CHAR || k == .DATETIME64 ||
  k == .TIMESTAMP || k == .TIMESTAMPTZ || k == .TIME || k == .TIMETZ || k == .FIXEDSTRING || k == .ENUM ||
  k == .SET

/-- the keyword falls to the `_` arm (custom type name) under the dialect -/
def isCustomKw (c : Cfg) (k : DKw) : Bool := (headOf c k).isNone && !leafKw k

/-- a modifier text that lexes to exactly one word, number or single-quoted-string token which the
parser stores back as that very text: a word whose `Display` is the text, a number whose text it is,
a string literal whose SQL spelling (`sqSpell`) it is -/
def modOK (env : Env) (m : W) : Bool :=
  match env.lexMod m with
  | [.number s _] => s == m
  | [.word v q _] => wordDisplay v q == some m
  | [.sqs s] => sqSpell s == m
  | _ => false

/-- the identifier prints to a `Word` token (not to a quoted-string token) -/
def identIsWord (c : Cfg) (i : Ident) : Bool :=
  match i.quote with
  | none => true
  | some q => !(q == 39) && !(q == 34 && !c.dqWord)

/-- keyword class of the token an identifier prints to -/
def identKw (env : Env) (i : Ident) : DKw :=
  match i.quote with
  | none => env.kwOf i.value
  | some _ => .noKw

def nameOK (c : Cfg) (env : Env) (name : List Ident) : Bool :=
  match name with
  | [] => false
  | i :: _ =>
    identIsWord c i && isCustomKw c (identKw env i) &&
      (!c.isBigQuery || name.all fun j => !j.value.contains 46)

def twoWords : List Tok → Bool
  | a :: b :: _ => a.isWord && b.isWord
  | _ => false

/-- the first two tokens of the printed type are both words (then `parse_struct_field_def` takes the
first for a field name) -/
def twoWordsT (c : Cfg) (env : Env) : DT → Bool
  | .arraySquare t _ => twoWordsT c env t
  | .arrayAngle _ | .arrayParen _ | .map _ _ | .tuple _ | .nested _ | .union _ | .struct _ _
  | .nullable _ | .lowCardinality _ | .arrayNone => false
  | t => twoWords (pre c env t)

/-- the name of a non-first element of a `parse_comma_separated` list would end the list when
trailing commas are on -/
def nameRca (c : Cfg) (env : Env) (i : Ident) : Bool :=
  c.trailingCommas && identIsWord c i && (identKw env i).rca

mutual
/-- `Producible c env t`: the parser can return `t` under `c` and printing `t` lexes token by
token (`env` supplies the keyword class of unquoted identifiers and the lexing of raw modifiers) -/
def prod (c : Cfg) (env : Env) : DT → Bool
  | .simple k => k != .unspecified
  | .withLen _ l => optU64 l
  | .int _ l _ => optU64 l
  | .charLike _ l => (match l with | some (.int n _) => u64 n | _ => true)
  | .exactNum _ i => (match i with | .none => true | .prec p => u64 p | .precScale p s => u64 p && u64 s)
  | .time _ p _ => optU64 p
  | .datetime64 p _ => u64 p
  | .fixedString n => u64 n
  | .custom name mods => nameOK c env name && mods.all (modOK env)
  | .enum ls => !ls.isEmpty
  | .set ls => !ls.isEmpty
  | .arrayNone => c.isSnowflake
  | .arrayAngle t => !c.isSnowflake && !c.isClickHouse && prod c env t
  | .arraySquare t sz =>
    !c.lbWord && prod c env t && (closers t == 0 || closers t % 2 == 1) &&
      (match sz with | none => true | some n => u64 n && (c.isGeneric || c.isDuckDb || c.isPostgres))
  | .arrayParen t => !c.isSnowflake && c.isClickHouse && prod c env t
  | .map k v => (c.isClickHouse || c.isGeneric) && prod c env k && prod c env v && !structEven k
  | .tuple fs => (c.isClickHouse || c.isGeneric) && !fs.isNil && prodOpt c env fs
  | .nested fs => (c.isClickHouse || c.isGeneric) && !fs.isNil && prodNamed c env true fs
  | .struct .nil b => b == .angle && !c.isDuckDb && (c.isBigQuery || c.isGeneric)
  | .struct (.cons n t r) .paren => c.isDuckDb && prodNamed c env true (.cons n t r)
  | .struct (.cons n t r) .angle => !c.isDuckDb && (c.isBigQuery || c.isGeneric) && prodOpt c env (.cons n t r)
  | .union fs => (c.isDuckDb || c.isGeneric) && !fs.isNil && prodNamed c env true fs
  | .nullable t => (c.isClickHouse || c.isGeneric) && prod c env t
  | .lowCardinality t => (c.isClickHouse || c.isGeneric) && prod c env t
/-- fields of `STRUCT<…>` / `Tuple(…)`: optional names -/
def prodOpt (c : Cfg) (env : Env) : Fields → Bool
  | .nil => true
  | .cons n t r =>
    (match n with | some i => identIsWord c i | none => !twoWordsT c env t) && prod c env t &&
      (r.isNil || !structEven t) && prodOpt c env r
/-- fields of `STRUCT(…)`, `UNION(…)`, `Nested(…)`: named; `first` = no comma precedes -/
def prodNamed (c : Cfg) (env : Env) : Bool → Fields → Bool
  | _, .nil => true
  | first, .cons n t r =>
    (match n with | some i => first || !nameRca c env i | none => false) && prod c env t &&
      (r.isNil || !structEven t) && prodNamed c env false r
end

/-- no run of three or more adjacent `>` (`n` = length of the run read so far) -/
def shortRuns : Nat → List Tok → Bool
  | n, [] => decide (n ≤ 2)
  | n, x :: r => if x = GtT then shortRuns (n + 1) r else decide (n ≤ 2) && shortRuns 0 r

theorem run_short (g : Bool) {n : Nat} (h : n ≤ 2) : run g n = run false n := by
  have : ¬ 3 ≤ n := by omega
  simp [run, this]

/-- where no three `>` meet, the lexer's answer does not depend on `>` being an operator character -/
theorem retokGo_short (g : Bool) : ∀ (xs : List Tok) (n : Nat), shortRuns n xs = true →
    retokGo g n xs = retokGo false n xs
  | [], n, h => by
    simp only [shortRuns, decide_eq_true_eq] at h
    simp only [retokGo]; exact run_short g h
  | x :: r, n, h => by
    simp only [shortRuns] at h
    simp only [retokGo]
    by_cases hx : x = GtT
    · simp only [hx, if_true] at h ⊢
      exact retokGo_short g r (n + 1) h
    · simp only [hx, if_false, Bool.and_eq_true, decide_eq_true_eq] at h ⊢
      rw [run_short g h.1, retokGo_short g r 0 h.2]

/-- `Producible c env gtOp t`: `prod`, and — where `>` is a custom-operator character of the
dialect (`gtOp`, PostgreSQL) — the printed type never has three closing brackets in a row -/
def Producible (c : Cfg) (env : Env) (gtOp : Bool) (t : DT) : Prop :=
  prod c env t = true ∧ (gtOp = false ∨ shortRuns 0 (pre c env t) = true)

instance (c : Cfg) (env : Env) (g : Bool) (t : DT) : Decidable (Producible c env g t) := by
  unfold Producible; infer_instance

/-- what may follow a complete type without extending it -/
def followTok : Option Tok → Bool
  | some (.sym .LParen) | some (.sym .LBracket) | some (.sym .Lt) | some (.sym .Period) => false
  | some (.word _ _ kw) =>
    !(kw == .PRECISION || kw == .VARYING || kw == .LARGE || kw == .UNSIGNED || kw == .WITH || kw == .WITHOUT)
  | _ => true

/-- `FollowOK t rest`: the token after the type cannot extend it — no `(`, `[`, `<`, `.`, no word
continuing a multi-word type — and, for a struct closed by the second half of a `>>`, no comma -/
def FollowOK (t : DT) (rest : List Tok) : Prop :=
  followTok rest.head? = true ∧ (structEven t = true → rest.head? ≠ some Comma)

instance (t : DT) (rest : List Tok) : Decidable (FollowOK t rest) := by
  unfold FollowOK; infer_instance


-- ------------------------------------------------------------------ printed tokens other than closers are never `>`
theorem mem_intersperse (sep : Tok) : ∀ (xss : List (List Tok)) (x : Tok),
    x ∈ intersperse sep xss → x = sep ∨ ∃ xs ∈ xss, x ∈ xs
  | [], x, h => by simp [intersperse] at h
  | [a], x, h => by
    simp only [intersperse] at h
    exact Or.inr ⟨a, by simp, h⟩
  | a :: b :: r, x, h => by
    simp only [intersperse, List.mem_append, List.mem_cons] at h
    rcases h with h | h | h
    · exact Or.inr ⟨a, by simp, h⟩
    · exact Or.inl h
    · rcases mem_intersperse sep (b :: r) x h with h | ⟨xs, hxs, hx⟩
      · exact Or.inl h
      · exact Or.inr ⟨xs, by simp at hxs ⊢; rcases hxs with h | h <;> simp [h], hx⟩

theorem identTok_ne_gt (c : Cfg) (env : Env) (i : Ident) : identTok c env i ≠ GtT := by
  unfold identTok GtT
  split
  · simp
  · split
    · simp
    · split <;> simp

theorem modOK_noGt {env : Env} {m : W} (h : modOK env m = true) : ∀ x ∈ env.lexMod m, x ≠ GtT := by
  unfold modOK at h
  split at h
  · rename_i s l heq; intro x hx; rw [heq] at hx; simp at hx; subst hx; simp [GtT]
  · rename_i v q k heq; intro x hx; rw [heq] at hx; simp at hx; subst hx; simp [GtT]
  · rename_i s heq; intro x hx; rw [heq] at hx; simp at hx; subst hx; simp [GtT]
  · simp at h

theorem numTok_ne_gt (n : Nat) : numTok n ≠ GtT := by simp [numTok, GtT]
theorem kwTok_ne_gt (s : String) (k : DKw) : kwTok s k ≠ GtT := by simp [kwTok, GtT]

theorem noGt_optLen (l : Option Nat) : ∀ x ∈ optLenToks l, x ≠ GtT := by
  cases l <;> simp [optLenToks, LParen, RParen, numTok, GtT]

theorem noGt_simple (k : SimpleKind) : ∀ x ∈ k.toks, x ≠ GtT := by
  cases k <;> simp [SimpleKind.toks, kwTok, GtT]

theorem noGt_lenKind (k : LenKind) : ∀ x ∈ k.toks, x ≠ GtT := by
  cases k <;> simp [LenKind.toks, kwTok, GtT]

theorem noGt_charKind (k : CharKind) : ∀ x ∈ k.toks, x ≠ GtT := by
  cases k <;> simp [CharKind.toks, kwTok, GtT]

theorem noGt_charLen (l : Option CharLen) : ∀ x ∈ charLenToks l, x ≠ GtT := by
  rcases l with _ | (⟨n, _ | u⟩ | _) <;> simp [charLenToks, LParen, RParen, numTok, GtT, kwTok]
  cases u <;> simp [CharUnit.tok, kwTok]

theorem noGt_numInfo (i : NumInfo) : ∀ x ∈ numInfoToks i, x ≠ GtT := by
  cases i <;> simp [numInfoToks, LParen, RParen, Comma, numTok, GtT]

theorem noGt_time (k : TimeKind) (p : Option Nat) (z : TzInfo) : ∀ x ∈ timeToks k p z, x ≠ GtT := by
  cases k <;> cases z <;> cases p <;>
    simp [timeToks, tzWords, optLenToks, kwTok, LParen, RParen, numTok, GtT]

theorem noGt_intersperse (sep : Tok) (hs : sep ≠ GtT) (xss : List (List Tok))
    (h : ∀ xs ∈ xss, ∀ x ∈ xs, x ≠ GtT) : ∀ x ∈ intersperse sep xss, x ≠ GtT := by
  intro x hx
  rcases mem_intersperse sep xss x hx with h1 | ⟨xs, hxs, hx'⟩
  · rw [h1]; exact hs
  · exact h xs hxs x hx'

theorem noGt_labels (ls : List W) : ∀ x ∈ labelsToks ls, x ≠ GtT := by
  apply noGt_intersperse _ (by simp [Comma, GtT])
  intro xs hxs x hx
  simp only [List.mem_map] at hxs
  obtain ⟨l, _, rfl⟩ := hxs
  simp at hx; subst hx; simp [GtT]

theorem noGt_name (c : Cfg) (env : Env) (name : List Ident) : ∀ x ∈ nameToks c env name, x ≠ GtT := by
  apply noGt_intersperse _ (by simp [GtT])
  intro xs hxs x hx
  simp only [List.mem_map] at hxs
  obtain ⟨i, _, rfl⟩ := hxs
  simp at hx; subst hx; exact identTok_ne_gt c env i

theorem noGt_nameTok (c : Cfg) (env : Env) (n : Option Ident) : ∀ x ∈ nameTok c env n, x ≠ GtT := by
  cases n with
  | none => simp [nameTok]
  | some i => simp [nameTok]; exact identTok_ne_gt c env i

theorem noGt_sqToks (c : Cfg) (sz : Option Nat) : ∀ x ∈ sqToks c sz, x ≠ GtT := by
  unfold sqToks
  split
  · simp [GtT]
  · cases sz <;> simp [GtT, numTok]

/-- the tokens of a leaf type (no element type, no fields) contain no `>` -/
theorem noGt_custom (c : Cfg) (env : Env) (name : List Ident) (mods : List W)
    (h : mods.all (modOK env) = true) : ∀ x ∈ pre c env (.custom name mods), x ≠ GtT := by
  unfold pre
  split
  · exact noGt_name c env name
  · intro x hx
    simp only [List.mem_append, List.mem_cons] at hx
    rcases hx with hx | hx | hx | hx
    · exact noGt_name c env name x hx
    · subst hx; simp [LParen, GtT]
    · refine noGt_intersperse Comma (by simp [Comma, GtT]) _ ?_ x hx
      intro xs hxs y hy
      simp only [List.mem_map] at hxs
      obtain ⟨m, hm, rfl⟩ := hxs
      exact modOK_noGt (List.all_eq_true.mp h m hm) y hy
    · simp at hx; subst hx; simp [RParen, GtT]

/-- a token list without `>` has no run of three -/
theorem shortRuns_noGt : ∀ (xs : List Tok) (n : Nat), n ≤ 2 → (∀ x ∈ xs, x ≠ GtT) → shortRuns n xs = true
  | [], n, hn, _ => by simpa [shortRuns] using hn
  | x :: r, n, hn, h => by
    have hx : x ≠ GtT := h x (by simp)
    simp only [shortRuns, hx, if_false, Bool.and_eq_true, decide_eq_true_eq]
    exact ⟨hn, shortRuns_noGt r 0 (by omega) (fun y hy => h y (by simp [hy]))⟩

/-- a custom type is producible as soon as its name and each of its modifiers are, whatever the
lexer does with `>` -/
theorem producible_custom (c : Cfg) (env : Env) (g : Bool) (name : List Ident) (mods : List W)
    (hn : nameOK c env name = true) (hm : mods.all (modOK env) = true) :
    Producible c env g (.custom name mods) :=
  ⟨by simp only [prod, hn, hm, Bool.and_self], Or.inr (shortRuns_noGt _ 0 (by omega) (noGt_custom c env name mods hm))⟩


-- ------------------------------------------------------------------ lexer vs compositional stream
def allProd (c : Cfg) (env : Env) : Fields → Bool
  | .nil => true
  | .cons _ t r => prod c env t && allProd c env r

theorem allProd_of_prodOpt (c : Cfg) (env : Env) : ∀ fs, prodOpt c env fs = true → allProd c env fs = true
  | .nil, _ => rfl
  | .cons n t r, h => by
    simp only [prodOpt, Bool.and_eq_true] at h
    simp [allProd, h.1.1.2, allProd_of_prodOpt c env r h.2]

theorem allProd_of_prodNamed (c : Cfg) (env : Env) : ∀ b fs, prodNamed c env b fs = true → allProd c env fs = true
  | _, .nil, _ => rfl
  | b, .cons n t r, h => by
    simp only [prodNamed, Bool.and_eq_true] at h
    simp [allProd, h.1.1.2, allProd_of_prodNamed c env false r h.2]

/-- leaf case of the bridge -/
theorem bridge_leaf (g : Bool) (xs : List Tok) (h : ∀ x ∈ xs, x ≠ GtT) (k : Nat) (post : List Tok)
    (hp : post.head? ≠ some GtT) :
    retok g (xs ++ (gts k ++ post)) = xs ++ (run g k ++ retok g post) := by
  rw [retok_append_noGt g xs _ h, retok_gts g k post hp]

theorem head_cons_ne_gt {x : Tok} (h : x ≠ GtT) (r : List Tok) : (x :: r).head? ≠ some GtT := by
  simpa using h

theorem gts_succ (k : Nat) (post : List Tok) : GtT :: (gts k ++ post) = gts (k + 1) ++ post := by
  simp [gts, List.replicate_succ]

theorem gts_zero (post : List Tok) : gts 0 ++ post = post := by simp [gts]

mutual
/-- `closing_brackets_balance`: the lexer (`retok`) turns the printed pre-tokens of a type followed
by `k` more closing brackets into the compositional stream `emit`, whose closers are grouped by
`run` on the TOTAL length of each run of `>` -/
theorem bridge (c : Cfg) (env : Env) (g : Bool) : ∀ (t : DT), prod c env t = true → ∀ (k : Nat) (post : List Tok),
    post.head? ≠ some GtT → retok g (pre c env t ++ (gts k ++ post)) = emit c env g t k (retok g post)
  | .arrayAngle t, h, k, post, hp => by
    simp only [prod, Bool.and_eq_true] at h
    simp only [pre, emit, List.cons_append, List.append_assoc, List.nil_append]
    rw [retok_cons g (kwTok_ne_gt _ _), retok_cons g (by simp [LtT, GtT]), gts_succ,
      bridge c env g t h.2 (k + 1) post hp]
  | .arraySquare t sz, h, k, post, hp => by
    simp only [prod, Bool.and_eq_true] at h
    simp only [pre, emit, List.append_assoc]
    have h1 : (sqToks c sz ++ (gts k ++ post)).head? ≠ some GtT := by
      unfold sqToks; split
      · simp [GtT]
      · cases sz <;> simp [GtT]
    have := bridge c env g t h.1.1.2 0 _ h1
    rw [gts_zero] at this
    rw [this, bridge_leaf g _ (noGt_sqToks c sz) k post hp]
  | .arrayParen t, h, k, post, hp => by
    simp only [prod, Bool.and_eq_true] at h
    simp only [pre, emit, List.cons_append, List.append_assoc, List.nil_append]
    rw [retok_cons g (kwTok_ne_gt _ _), retok_cons g (by simp [LParen, GtT])]
    have := bridge c env g t h.2 0 (RParen :: (gts k ++ post)) (by simp [RParen, GtT])
    rw [gts_zero] at this
    rw [this, retok_cons g (by simp [RParen, GtT]), retok_gts g k post hp]
  | .nullable t, h, k, post, hp => by
    simp only [prod, Bool.and_eq_true] at h
    simp only [pre, emit, List.cons_append, List.append_assoc, List.nil_append]
    rw [retok_cons g (kwTok_ne_gt _ _), retok_cons g (by simp [LParen, GtT])]
    have := bridge c env g t h.2 0 (RParen :: (gts k ++ post)) (by simp [RParen, GtT])
    rw [gts_zero] at this
    rw [this, retok_cons g (by simp [RParen, GtT]), retok_gts g k post hp]
  | .lowCardinality t, h, k, post, hp => by
    simp only [prod, Bool.and_eq_true] at h
    simp only [pre, emit, List.cons_append, List.append_assoc, List.nil_append]
    rw [retok_cons g (kwTok_ne_gt _ _), retok_cons g (by simp [LParen, GtT])]
    have := bridge c env g t h.2 0 (RParen :: (gts k ++ post)) (by simp [RParen, GtT])
    rw [gts_zero] at this
    rw [this, retok_cons g (by simp [RParen, GtT]), retok_gts g k post hp]
  | .map a b, h, k, post, hp => by
    simp only [prod, Bool.and_eq_true] at h
    simp only [pre, emit, List.cons_append, List.append_assoc, List.nil_append]
    rw [retok_cons g (kwTok_ne_gt _ _), retok_cons g (by simp [LParen, GtT])]
    have h1 := bridge c env g a h.1.1.2 0 (Comma :: (pre c env b ++ RParen :: (gts k ++ post))) (by simp [Comma, GtT])
    rw [gts_zero] at h1
    rw [h1, retok_cons g (by simp [Comma, GtT])]
    have h2 := bridge c env g b h.1.2 0 (RParen :: (gts k ++ post)) (by simp [RParen, GtT])
    rw [gts_zero] at h2
    rw [h2, retok_cons g (by simp [RParen, GtT]), retok_gts g k post hp]
  | .tuple fs, h, k, post, hp => by
    simp only [prod, Bool.and_eq_true] at h
    simp only [pre, emit, List.cons_append, List.append_assoc, List.nil_append]
    rw [retok_cons g (kwTok_ne_gt _ _), retok_cons g (by simp [LParen, GtT]),
      bridgeP c env g fs (allProd_of_prodOpt c env fs h.2) (RParen :: (gts k ++ post)) (by simp [RParen, GtT]),
      retok_cons g (by simp [RParen, GtT]), retok_gts g k post hp]
  | .nested fs, h, k, post, hp => by
    simp only [prod, Bool.and_eq_true] at h
    simp only [pre, emit, List.cons_append, List.append_assoc, List.nil_append]
    rw [retok_cons g (kwTok_ne_gt _ _), retok_cons g (by simp [LParen, GtT]),
      bridgeP c env g fs (allProd_of_prodNamed c env _ fs h.2) (RParen :: (gts k ++ post)) (by simp [RParen, GtT]),
      retok_cons g (by simp [RParen, GtT]), retok_gts g k post hp]
  | .union fs, h, k, post, hp => by
    simp only [prod, Bool.and_eq_true] at h
    simp only [pre, emit, List.cons_append, List.append_assoc, List.nil_append]
    rw [retok_cons g (kwTok_ne_gt _ _), retok_cons g (by simp [LParen, GtT]),
      bridgeP c env g fs (allProd_of_prodNamed c env _ fs h.2) (RParen :: (gts k ++ post)) (by simp [RParen, GtT]),
      retok_cons g (by simp [RParen, GtT]), retok_gts g k post hp]
  | .struct .nil b, h, k, post, hp => by
    simp only [pre, emit, List.cons_append, List.nil_append]
    rw [retok_cons g (kwTok_ne_gt _ _), retok_gts g k post hp]
  | .struct (.cons n t r) .paren, h, k, post, hp => by
    simp only [prod, Bool.and_eq_true] at h
    simp only [pre, emit, List.cons_append, List.append_assoc, List.nil_append]
    rw [retok_cons g (kwTok_ne_gt _ _), retok_cons g (by simp [LParen, GtT]),
      bridgeP c env g _ (allProd_of_prodNamed c env _ _ h.2) (RParen :: (gts k ++ post)) (by simp [RParen, GtT]),
      retok_cons g (by simp [RParen, GtT]), retok_gts g k post hp]
  | .struct (.cons n t r) .angle, h, k, post, hp => by
    simp only [prod, Bool.and_eq_true] at h
    simp only [pre, emit, List.cons_append, List.append_assoc, List.nil_append]
    rw [retok_cons g (kwTok_ne_gt _ _), retok_cons g (by simp [LtT, GtT]), gts_succ,
      bridgeA c env g _ (allProd_of_prodOpt c env _ h.2) (by simp [Fields.isNil]) k post hp]
  | .simple x, h, k, post, hp => by
    simp only [emit]; exact bridge_leaf g _ (by simpa [pre] using noGt_simple x) k post hp
  | .withLen x l, h, k, post, hp => by
    simp only [emit]; refine bridge_leaf g _ ?_ k post hp
    intro y hy; simp only [pre, List.mem_append] at hy
    rcases hy with hy | hy
    · exact noGt_lenKind x y hy
    · exact noGt_optLen l y hy
  | .int x l u, h, k, post, hp => by
    simp only [emit]; refine bridge_leaf g _ ?_ k post hp
    intro y hy; simp only [pre, List.mem_cons, List.mem_append] at hy
    rcases hy with hy | hy | hy
    · subst hy; cases x <;> simp [IntKind.tok, kwTok, GtT]
    · exact noGt_optLen l y hy
    · cases u <;> simp [kwTok] at hy; subst hy; simp [GtT]
  | .charLike x l, h, k, post, hp => by
    simp only [emit]; refine bridge_leaf g _ ?_ k post hp
    intro y hy; simp only [pre, List.mem_append] at hy
    rcases hy with hy | hy
    · exact noGt_charKind x y hy
    · exact noGt_charLen l y hy
  | .exactNum x i, h, k, post, hp => by
    simp only [emit]; refine bridge_leaf g _ ?_ k post hp
    intro y hy; simp only [pre, List.mem_cons] at hy
    rcases hy with hy | hy
    · subst hy; cases x <;> simp [NumKind.tok, kwTok, GtT]
    · exact noGt_numInfo i y hy
  | .time x p z, h, k, post, hp => by
    simp only [emit]; exact bridge_leaf g _ (by simpa [pre] using noGt_time x p z) k post hp
  | .datetime64 p z, h, k, post, hp => by
    simp only [emit]; refine bridge_leaf g _ ?_ k post hp
    cases z <;> simp [pre, kwTok, LParen, RParen, Comma, numTok, GtT]
  | .fixedString n, h, k, post, hp => by
    simp only [emit]; refine bridge_leaf g _ ?_ k post hp
    simp [pre, kwTok, LParen, RParen, numTok, GtT]
  | .custom n m, h, k, post, hp => by
    simp only [prod, Bool.and_eq_true] at h
    simp only [emit]; exact bridge_leaf g _ (noGt_custom c env n m h.2) k post hp
  | .enum ls, h, k, post, hp => by
    simp only [emit]; refine bridge_leaf g _ ?_ k post hp
    intro y hy; simp only [pre, List.mem_cons, List.mem_append] at hy
    rcases hy with hy | hy | hy | hy
    · subst hy; simp [kwTok, GtT]
    · subst hy; simp [LParen, GtT]
    · exact noGt_labels ls y hy
    · simp at hy; subst hy; simp [RParen, GtT]
  | .set ls, h, k, post, hp => by
    simp only [emit]; refine bridge_leaf g _ ?_ k post hp
    intro y hy; simp only [pre, List.mem_cons, List.mem_append] at hy
    rcases hy with hy | hy | hy | hy
    · subst hy; simp [kwTok, GtT]
    · subst hy; simp [LParen, GtT]
    · exact noGt_labels ls y hy
    · simp at hy; subst hy; simp [RParen, GtT]
  | .arrayNone, h, k, post, hp => by
    simp only [emit]; refine bridge_leaf g _ ?_ k post hp
    simp [pre, kwTok, GtT]
theorem bridgeP (c : Cfg) (env : Env) (g : Bool) : ∀ (fs : Fields), allProd c env fs = true → ∀ (post : List Tok),
    post.head? ≠ some GtT → retok g (preFields c env fs ++ post) = emitP c env g fs (retok g post)
  | .nil, _, post, _ => by simp [preFields, emitP]
  | .cons n t .nil, h, post, hp => by
    simp only [allProd, Bool.and_eq_true] at h
    simp only [preFields, emitP, List.append_assoc]
    rw [retok_append_noGt g _ _ (noGt_nameTok c env n)]
    have := bridge c env g t h.1 0 post hp
    rw [gts_zero] at this
    rw [this]
  | .cons n t (.cons n2 t2 r), h, post, hp => by
    simp only [allProd, Bool.and_eq_true] at h
    simp only [preFields, emitP, List.append_assoc, List.cons_append]
    rw [retok_append_noGt g _ _ (noGt_nameTok c env n)]
    have := bridge c env g t h.1 0 (Comma :: (preFields c env (.cons n2 t2 r) ++ post)) (by simp [Comma, GtT])
    rw [gts_zero] at this
    rw [this, retok_cons g (by simp [Comma, GtT]),
      bridgeP c env g (.cons n2 t2 r) (by simp [allProd, h.2]) post hp]
theorem bridgeA (c : Cfg) (env : Env) (g : Bool) : ∀ (fs : Fields), allProd c env fs = true → fs.isNil = false →
    ∀ (k : Nat) (post : List Tok), post.head? ≠ some GtT →
    retok g (preFields c env fs ++ (gts (k + 1) ++ post)) = emitA c env g fs k (retok g post)
  | .nil, _, hn, _, _, _ => by simp [Fields.isNil] at hn
  | .cons n t .nil, h, _, k, post, hp => by
    simp only [allProd, Bool.and_eq_true] at h
    simp only [preFields, emitA, List.append_assoc]
    rw [retok_append_noGt g _ _ (noGt_nameTok c env n), bridge c env g t h.1 (k + 1) post hp]
  | .cons n t (.cons n2 t2 r), h, _, k, post, hp => by
    simp only [allProd, Bool.and_eq_true] at h
    simp only [preFields, emitA, List.append_assoc, List.cons_append]
    rw [retok_append_noGt g _ _ (noGt_nameTok c env n)]
    have := bridge c env g t h.1 0 (Comma :: (preFields c env (.cons n2 t2 r) ++ (gts (k + 1) ++ post))) (by simp [Comma, GtT])
    rw [gts_zero] at this
    rw [this, retok_cons g (by simp [Comma, GtT]),
      bridgeA c env g (.cons n2 t2 r) (by simp [allProd, h.2]) (by simp [Fields.isNil]) k post hp]
end

end SqlVerif.DTy

import SqlVerif.Lemmas.QuerySim
import SqlVerif.Lemmas.QueryContent
/-!
The printed normal form of a query tree (`Query.norm`): the tree with every stored token replaced by
the token `Display` emits for it (the query-layer analogue of `Expr.norm`, `Lemmas/PrintDefs.lean`).

* `showToks_eq_norm`   `q.showToks = q.norm.flatten` — for every tree;
* `flatten_mapT_qc`    the yield of the image is the image of the yield;
* `query_inj`          a tree is determined by its image (`mapT qc`) together with its yield.
-/
namespace SqlVerif.Query
open SqlVerif.Pratt SqlVerif.Gen
open SqlVerif.SetClimb (Op SQuant precOf)
set_option linter.unusedSimpArgs false

-- ------------------------------------------------------------------ norm
/-- ` AS alias` -/
def aliasNorm (al : List Tok) : List Tok :=
  match al.getLast? with
  | some t => [kwT "AS", t]
  | none => []

/-- `display_comma_separated`: a comma after every element but the last -/
def sepNorm {α : Type} (N : α → α) : Sep α → Sep α
  | [] => []
  | [p] => [(N p.1, [])]
  | p :: q :: rest => (N p.1, [.sym .Comma]) :: sepNorm N (q :: rest)

def SelectItem.norm : SelectItem → SelectItem
  | .expr e al => .expr e.norm (aliasNorm al)
  | .wildcard _ => .wildcard (.sym .Mul)
  | .qualified toks => .qualified toks

def dirNorm (dir : List Tok) : List Tok :=
  match dir with
  | [t] => [if t.isKw K.ASC then kwT "ASC" else kwT "DESC"]
  | _ => []

def nullsNorm (n : List Tok) : List Tok :=
  match n with
  | [_, t] => [kwT "NULLS", if t.isKw K.FIRST then kwT "FIRST" else kwT "LAST"]
  | _ => []

def OrderByExpr.norm (o : OrderByExpr) : OrderByExpr := ⟨o.e.norm, dirNorm o.dir, nullsNorm o.nulls⟩

def rowsNorm (rows : List Tok) : List Tok :=
  match rows with
  | [t] => [if t.isKw K.ROW then kwT "ROW" else kwT "ROWS"]
  | _ => []

def limsNorm (st : Option Expr × Option (Expr × List Tok)) : List LimClause :=
  (match st.1 with
   | some e => [.limit (kwT "LIMIT") e.norm]
   | none => []) ++
  (match st.2 with
   | some (e, rows) => [.offset (kwT "OFFSET") e.norm (rowsNorm rows)]
   | none => [])

def QueryTail.norm (qt : QueryTail) : QueryTail :=
  ⟨if qt.order.isEmpty then [] else [kwT "ORDER", kwT "BY"], sepNorm OrderByExpr.norm qt.order, limsNorm (limSem qt.lims)⟩

def SelHead.norm (hd : SelHead) : SelHead :=
  ⟨kwT "SELECT", if hd.distinct then [kwT "DISTINCT"] else [], hd.distinct, sepNorm SelectItem.norm hd.proj⟩

def SelTail.norm (tl : SelTail) : SelTail :=
  ⟨match tl.selection with | some _ => [kwT "WHERE"] | none => [], tl.selection.map Expr.norm,
   if tl.group.isEmpty then [] else [kwT "GROUP", kwT "BY"], sepNorm Expr.norm tl.group,
   match tl.having with | some _ => [kwT "HAVING"] | none => [], tl.having.map Expr.norm⟩

def Conn.norm : Conn → Conn
  | .from _ => .from (kwT "FROM")
  | .comma _ => .comma (.sym .Comma)
  | .join k _ => .join k (toksOf k.pieces)

def JoinCstr.norm : JoinCstr → JoinCstr
  | .none => .none
  | .on _ e => .on (kwT "ON") e.norm
  | .using _ _ cols _ => .using (kwT "USING") (.sym .LParen) (sepNorm id cols) (.sym .RParen)

def QNode.norm : QNode → QNode
  | .select hd frm tl => .select hd.norm frm.norm tl.norm
  | .paren _ body qt _ => .paren (.sym .LParen) body.norm qt.norm (.sym .RParen)
  | .setOp l o q _ r => .setOp l.norm o q ((opPiece o).tok :: toksOf (quantPieces q)) r.norm
  | .fnil _ => .fnil []
  | .ftable conn name al cstr rest => .ftable conn.norm name (aliasNorm al) cstr.norm rest.norm
  | .fderived conn _ body qt _ al cstr rest =>
    .fderived conn.norm (.sym .LParen) body.norm qt.norm (.sym .RParen) (aliasNorm al) cstr.norm rest.norm

def Query.norm (q : Query) : Query := ⟨q.body.norm, q.tail.norm⟩

-- ------------------------------------------------------------------ showToks = norm.flatten
theorem toksOf_aliasPieces (al : List Tok) : toksOf (aliasPieces al) = aliasNorm al := by
  unfold aliasPieces aliasNorm
  cases al.getLast? <;> simp [toksOf, idPiece_tok]

theorem toksOf_sepPieces {α : Type} (f : α → List Piece) (fl : α → List Tok) (N : α → α)
    (h : ∀ v, toksOf (f v) = fl (N v)) : ∀ l : Sep α, toksOf (sepPieces f l) = sepFlat fl (sepNorm N l) := by
  intro l
  induction l with
  | nil => rfl
  | cons p rest ih =>
    cases rest with
    | nil => simp [sepPieces, sepNorm, sepFlat, h]
    | cons q rest2 =>
      simp only [sepPieces, sepNorm, sepFlat, Pratt.toksOf_append, Pratt.toksOf_spaced, h] at ih ⊢
      rw [ih]; simp [toksOf]

theorem toksOf_itemPieces (v : SelectItem) : toksOf v.pieces = v.norm.flatten := by
  cases v with
  | expr e al =>
    simp only [SelectItem.pieces, SelectItem.norm, SelectItem.flatten, Pratt.toksOf_append, toksOf_aliasPieces]
    rw [← showToks_eq]; rfl
  | wildcard t => rfl
  | qualified toks => simp [SelectItem.pieces, SelectItem.norm, SelectItem.flatten, toksOf_namePieces]

theorem toksOf_exprPieces (e : Expr) : toksOf e.pieces = e.norm.flatten := by
  rw [← showToks_eq]; rfl

theorem ascPieces_toks (o : OrderByExpr) :
    toksOf (match o.asc with | some true => [kwP true "ASC"] | some false => [kwP true "DESC"] | none => []) =
      dirNorm o.dir := by
  obtain ⟨e, dir, nulls⟩ := o
  match dir with
  | [] => rfl
  | [t] => simp only [OrderByExpr.asc, dirNorm]; by_cases h : t.isKw K.ASC = true <;> simp [h, toksOf]
  | _ :: _ :: _ => rfl

theorem nullsPieces_toks (o : OrderByExpr) :
    toksOf (match o.nullsFirst with
      | some true => [kwP true "NULLS", kwP true "FIRST"]
      | some false => [kwP true "NULLS", kwP true "LAST"]
      | none => []) = nullsNorm o.nulls := by
  obtain ⟨e, dir, nulls⟩ := o
  match nulls with
  | [] => rfl
  | [_] => rfl
  | [a, t] => simp only [OrderByExpr.nullsFirst, nullsNorm]; by_cases h : t.isKw K.FIRST = true <;> simp [h, toksOf]
  | _ :: _ :: _ :: _ => rfl

theorem toksOf_orderPieces (o : OrderByExpr) : toksOf o.pieces = o.norm.flatten := by
  have h1 := ascPieces_toks o
  have h2 := nullsPieces_toks o
  unfold OrderByExpr.pieces
  simp only [Pratt.toksOf_append, toksOf_exprPieces]
  exact congr (congrArg _ (congrArg _ h1)) h2

theorem toksOf_rowsPieces (rows : List Tok) : toksOf (rowsPieces rows) = rowsNorm rows := by
  match rows with
  | [] => rfl
  | [t] => simp only [rowsPieces, rowsNorm]; by_cases h : t.isKw K.ROW = true <;> simp [h, toksOf]
  | _ :: _ :: _ => rfl

theorem toksOf_tailPieces (qt : QueryTail) : toksOf qt.pieces = qt.norm.flatten := by
  unfold QueryTail.pieces QueryTail.norm QueryTail.flatten limsNorm
  generalize limSem qt.lims = st
  obtain ⟨l, o⟩ := st
  have hs := toksOf_sepPieces OrderByExpr.pieces OrderByExpr.flatten OrderByExpr.norm toksOf_orderPieces qt.order
  cases hq : qt.order.isEmpty
  · cases l <;> cases o <;>
      simp [Pratt.toksOf_append, Pratt.toksOf_spaced, hs, toksOf_exprPieces, toksOf_rowsPieces, limsFlat, LimClause.flatten]
  · have : qt.order = [] := by simpa using hq
    cases l <;> cases o <;>
      simp [this, sepNorm, sepFlat, Pratt.toksOf_append, Pratt.toksOf_spaced, toksOf_exprPieces, toksOf_rowsPieces, limsFlat,
        LimClause.flatten]

theorem toksOf_headPieces (hd : SelHead) :
    toksOf ([kwP false "SELECT"] ++ (if hd.distinct then [kwP true "DISTINCT"] else []) ++
      spaced (sepPieces SelectItem.pieces hd.proj)) = hd.norm.flatten := by
  have hs := toksOf_sepPieces SelectItem.pieces SelectItem.flatten SelectItem.norm toksOf_itemPieces hd.proj
  unfold SelHead.norm SelHead.flatten
  cases hd.distinct <;> simp [Pratt.toksOf_append, Pratt.toksOf_spaced, hs]

theorem toksOf_selTailPieces (tl : SelTail) : toksOf tl.pieces = tl.norm.flatten := by
  obtain ⟨wk, sel, gk, grp, hk, hav⟩ := tl
  have hs := toksOf_sepPieces Expr.pieces Expr.flatten Expr.norm toksOf_exprPieces grp
  unfold SelTail.pieces SelTail.norm SelTail.flatten
  cases hq : grp.isEmpty
  · cases sel <;> cases hav <;>
      simp [hq, Pratt.toksOf_append, Pratt.toksOf_spaced, hs, toksOf_exprPieces, optFlat]
  · have : grp = [] := by simpa using hq
    cases sel <;> cases hav <;>
      simp [this, sepNorm, sepFlat, Pratt.toksOf_append, Pratt.toksOf_spaced, toksOf_exprPieces, optFlat]

theorem toksOf_connPieces (conn : Conn) : toksOf conn.pieces = conn.norm.toks := by
  cases conn <;> rfl

theorem toksOf_cstrPieces (k : JoinCstr) : toksOf k.pieces = k.norm.flatten := by
  cases k with
  | none => rfl
  | on kw e => simp [JoinCstr.pieces, JoinCstr.norm, JoinCstr.flatten, Pratt.toksOf_append, Pratt.toksOf_spaced, toksOf_exprPieces]
  | «using» kw lp cols rp =>
    have hs := toksOf_sepPieces (fun t => [idPiece false t]) (fun t => [t]) id (by intro v; simp [toksOf, idPiece_tok]) cols
    simp [JoinCstr.pieces, JoinCstr.norm, JoinCstr.flatten, Pratt.toksOf_append, Pratt.toksOf_glued, hs]

theorem toksOf_nodePieces (n : QNode) : toksOf n.pieces = n.norm.flatten := by
  induction n with
  | select hd frm tl ih =>
    have h1 := toksOf_headPieces hd
    simp only [QNode.pieces, QNode.norm, QNode.flatten, Pratt.toksOf_append, ih, toksOf_selTailPieces] at h1 ⊢
    rw [← h1]
  | paren lp body qt rp ih =>
    simp [QNode.pieces, QNode.norm, QNode.flatten, Pratt.toksOf_append, Pratt.toksOf_glued, ih, toksOf_tailPieces]
  | setOp l o q ops r ihl ihr =>
    simp [QNode.pieces, QNode.norm, QNode.flatten, Pratt.toksOf_append, Pratt.toksOf_spaced, ihl, ihr]
  | fnil trail => rfl
  | ftable conn name al cstr rest ih =>
    simp [QNode.pieces, QNode.norm, QNode.flatten, Pratt.toksOf_append, Pratt.toksOf_spaced, ih, toksOf_connPieces,
      toksOf_namePieces, toksOf_aliasPieces, toksOf_cstrPieces]
  | fderived conn lp body qt rp al cstr rest ihb ihr =>
    simp [QNode.pieces, QNode.norm, QNode.flatten, Pratt.toksOf_append, Pratt.toksOf_glued, ihb, ihr, toksOf_connPieces,
      toksOf_tailPieces, toksOf_aliasPieces, toksOf_cstrPieces]

/-- the printed tokens are the yield of the normal form -/
theorem showToks_eq_norm (q : Query) : q.showToks = q.norm.flatten := by
  show toksOf q.pieces = _
  simp [Query.pieces, Query.norm, Query.flatten, Pratt.toksOf_append, toksOf_nodePieces, toksOf_tailPieces]

-- ------------------------------------------------------------------ the yield of the image
theorem sepFlat_map {α : Type} (M : α → α) (fl : α → List Tok) (h : ∀ v, fl (M v) = (fl v).map qc) :
    ∀ l : Sep α, sepFlat fl (sepMap M qc l) = (sepFlat fl l).map qc := by
  intro l
  induction l with
  | nil => rfl
  | cons p rest ih =>
    simp only [sepMap, List.map_cons, sepFlat, List.map_append, h] at ih ⊢
    rw [ih]

theorem item_flatten_qc (v : SelectItem) : (v.mapT qc).flatten = v.flatten.map qc := by
  cases v <;> simp [SelectItem.mapT, SelectItem.flatten, flatten_mapT_qc]

theorem order_flatten_qc (o : OrderByExpr) : (o.mapT qc).flatten = o.flatten.map qc := by
  simp [OrderByExpr.mapT, OrderByExpr.flatten, flatten_mapT_qc]

theorem lims_flatten_qc (cs : List LimClause) : limsFlat (cs.map (LimClause.mapT qc)) = (limsFlat cs).map qc := by
  induction cs with
  | nil => rfl
  | cons cl rest ih =>
    simp only [List.map_cons, limsFlat, List.map_append, ih]
    cases cl <;> simp [LimClause.mapT, LimClause.flatten, flatten_mapT_qc]

theorem tail_flatten_qc (qt : QueryTail) : (qt.mapT qc).flatten = qt.flatten.map qc := by
  simp [QueryTail.mapT, QueryTail.flatten, sepFlat_map _ _ order_flatten_qc, lims_flatten_qc]

theorem head_flatten_qc (hd : SelHead) : (hd.mapT qc).flatten = hd.flatten.map qc := by
  simp [SelHead.mapT, SelHead.flatten, sepFlat_map _ _ item_flatten_qc]

theorem optFlat_qc (o : Option Expr) : optFlat (o.map (Expr.mapT qc)) = (optFlat o).map qc := by
  cases o <;> simp [optFlat, flatten_mapT_qc]

theorem selTail_flatten_qc (tl : SelTail) : (tl.mapT qc).flatten = tl.flatten.map qc := by
  simp [SelTail.mapT, SelTail.flatten, sepFlat_map _ _ flatten_mapT_qc, optFlat_qc]

theorem conn_toks_qc (conn : Conn) : (conn.mapT qc).toks = conn.toks.map qc := by
  cases conn <;> rfl

theorem cstr_flatten_qc (k : JoinCstr) : (k.mapT qc).flatten = k.flatten.map qc := by
  cases k with
  | none => rfl
  | on kw e => simp [JoinCstr.mapT, JoinCstr.flatten, flatten_mapT_qc]
  | «using» kw lp cols rp =>
    simp [JoinCstr.mapT, JoinCstr.flatten, sepFlat_map qc (fun t => [t]) (by intro v; rfl)]

theorem node_flatten_qc (n : QNode) : (n.mapT qc).flatten = n.flatten.map qc := by
  induction n with
  | select hd frm tl ih => simp [QNode.mapT, QNode.flatten, head_flatten_qc, selTail_flatten_qc, ih]
  | paren lp body qt rp ih => simp [QNode.mapT, QNode.flatten, tail_flatten_qc, ih]
  | setOp l o q ops r ihl ihr => simp [QNode.mapT, QNode.flatten, ihl, ihr]
  | fnil trail => rfl
  | ftable conn name al cstr rest ih => simp [QNode.mapT, QNode.flatten, conn_toks_qc, cstr_flatten_qc, ih]
  | fderived conn lp body qt rp al cstr rest ihb ihr =>
    simp [QNode.mapT, QNode.flatten, conn_toks_qc, cstr_flatten_qc, tail_flatten_qc, ihb, ihr]

theorem query_flatten_qc (q : Query) : (q.mapT qc).flatten = q.flatten.map qc := by
  simp [Query.mapT, Query.flatten, node_flatten_qc, tail_flatten_qc]

-- ------------------------------------------------------------------ image + yield determine the tree
/-- cancellation: token lists with the same image in front of two lists -/
theorem toks_cancel {a a' b b' : List Tok} (hm : a.map qc = a'.map qc) (h : a ++ b = a' ++ b') : a = a' ∧ b = b' :=
  List.append_inj h (len_of_map hm)

theorem tok_cancel {t t' : Tok} {b b' : List Tok} (h : t :: b = t' :: b') : t = t' ∧ b = b' := by
  simpa using h

theorem expr_cancel {e e' : Expr} {b b' : List Tok} (hm : e.mapT qc = e'.mapT qc)
    (h : e.flatten ++ b = e'.flatten ++ b') : e = e' ∧ b = b' := by
  obtain ⟨h1, h2⟩ := List.append_inj h (len_of_mapT hm)
  exact ⟨mapT_flatten_inj qc _ _ hm h1, h2⟩

theorem sep_cancel {α : Type} (M : α → α) (fl : α → List Tok)
    (hinj : ∀ (v v' : α) (b b' : List Tok), M v = M v' → fl v ++ b = fl v' ++ b' → v = v' ∧ b = b') :
    ∀ (l l' : Sep α) (b b' : List Tok), sepMap M qc l = sepMap M qc l' → sepFlat fl l ++ b = sepFlat fl l' ++ b' →
      l = l' ∧ b = b' := by
  intro l
  induction l with
  | nil =>
    intro l' b b' hm h
    cases l' with
    | nil => exact ⟨rfl, by simpa [sepFlat] using h⟩
    | cons _ _ => simp [sepMap] at hm
  | cons p rest ih =>
    intro l' b b' hm h
    cases l' with
    | nil => simp [sepMap] at hm
    | cons p' rest' =>
      simp only [sepMap, List.map_cons, List.cons.injEq, Prod.mk.injEq] at hm
      obtain ⟨⟨hm1, hm2⟩, hm3⟩ := hm
      simp only [sepFlat, List.append_assoc] at h
      obtain ⟨e1, h⟩ := hinj _ _ _ _ hm1 h
      obtain ⟨e2, h⟩ := toks_cancel hm2 h
      obtain ⟨e3, h⟩ := ih rest' b b' hm3 h
      refine ⟨?_, h⟩
      rw [e3]
      congr 1
      exact Prod.ext e1 e2

theorem item_cancel (v v' : SelectItem) (b b' : List Tok) (hm : v.mapT qc = v'.mapT qc)
    (h : v.flatten ++ b = v'.flatten ++ b') : v = v' ∧ b = b' := by
  cases v <;> cases v' <;> simp [SelectItem.mapT] at hm
  · obtain ⟨hm1, hm2⟩ := hm
    simp only [SelectItem.flatten, List.append_assoc] at h
    obtain ⟨e1, h⟩ := expr_cancel hm1 h
    obtain ⟨e2, h⟩ := toks_cancel hm2 h
    exact ⟨by rw [e1, e2], h⟩
  · simp only [SelectItem.flatten, List.cons_append, List.nil_append] at h
    obtain ⟨e1, h⟩ := tok_cancel h
    exact ⟨by rw [e1], h⟩
  · simp only [SelectItem.flatten] at h
    obtain ⟨e1, h⟩ := toks_cancel hm h
    exact ⟨by rw [e1], h⟩

theorem order_cancel (o o' : OrderByExpr) (b b' : List Tok) (hm : o.mapT qc = o'.mapT qc)
    (h : o.flatten ++ b = o'.flatten ++ b') : o = o' ∧ b = b' := by
  obtain ⟨e, d, n⟩ := o
  obtain ⟨e', d', n'⟩ := o'
  simp only [OrderByExpr.mapT, OrderByExpr.mk.injEq] at hm
  obtain ⟨hm1, hm2, hm3⟩ := hm
  simp only [OrderByExpr.flatten, List.append_assoc] at h
  obtain ⟨e1, h⟩ := expr_cancel hm1 h
  obtain ⟨e2, h⟩ := toks_cancel hm2 h
  obtain ⟨e3, h⟩ := toks_cancel hm3 h
  exact ⟨by rw [e1, e2, e3], h⟩

theorem lim_cancel (cl cl' : LimClause) (b b' : List Tok) (hm : cl.mapT qc = cl'.mapT qc)
    (h : cl.flatten ++ b = cl'.flatten ++ b') : cl = cl' ∧ b = b' := by
  cases cl <;> cases cl' <;> simp [LimClause.mapT] at hm
  · obtain ⟨_, hm2⟩ := hm
    simp only [LimClause.flatten, List.cons_append] at h
    obtain ⟨e1, h⟩ := tok_cancel h
    obtain ⟨e2, h⟩ := expr_cancel hm2 h
    exact ⟨by rw [e1, e2], h⟩
  · simp only [LimClause.flatten, List.cons_append, List.nil_append] at h
    obtain ⟨e1, h⟩ := tok_cancel h
    obtain ⟨e2, h⟩ := tok_cancel h
    exact ⟨by rw [e1, e2], h⟩
  · obtain ⟨_, hm2, hm3⟩ := hm
    simp only [LimClause.flatten, List.cons_append, List.append_assoc] at h
    obtain ⟨e1, h⟩ := tok_cancel h
    obtain ⟨e2, h⟩ := expr_cancel hm2 h
    obtain ⟨e3, h⟩ := toks_cancel hm3 h
    exact ⟨by rw [e1, e2, e3], h⟩
  · obtain ⟨_, hm2⟩ := hm
    simp only [LimClause.flatten, List.cons_append] at h
    obtain ⟨e1, h⟩ := tok_cancel h
    obtain ⟨e2, h⟩ := expr_cancel hm2 h
    exact ⟨by rw [e1, e2], h⟩

theorem lims_cancel : ∀ (cs cs' : List LimClause) (b b' : List Tok),
    cs.map (LimClause.mapT qc) = cs'.map (LimClause.mapT qc) → limsFlat cs ++ b = limsFlat cs' ++ b' → cs = cs' ∧ b = b' := by
  intro cs
  induction cs with
  | nil =>
    intro cs' b b' hm h
    cases cs' with
    | nil => exact ⟨rfl, by simpa [limsFlat] using h⟩
    | cons _ _ => simp at hm
  | cons cl rest ih =>
    intro cs' b b' hm h
    cases cs' with
    | nil => simp at hm
    | cons cl' rest' =>
      simp only [List.map_cons, List.cons.injEq] at hm
      simp only [limsFlat, List.append_assoc] at h
      obtain ⟨e1, h⟩ := lim_cancel _ _ _ _ hm.1 h
      obtain ⟨e2, h⟩ := ih rest' b b' hm.2 h
      exact ⟨by rw [e1, e2], h⟩

theorem tail_cancel (qt qt' : QueryTail) (b b' : List Tok) (hm : qt.mapT qc = qt'.mapT qc)
    (h : qt.flatten ++ b = qt'.flatten ++ b') : qt = qt' ∧ b = b' := by
  obtain ⟨k, o, l⟩ := qt
  obtain ⟨k', o', l'⟩ := qt'
  simp only [QueryTail.mapT, QueryTail.mk.injEq] at hm
  obtain ⟨hm1, hm2, hm3⟩ := hm
  simp only [QueryTail.flatten, List.append_assoc] at h
  obtain ⟨e1, h⟩ := toks_cancel hm1 h
  obtain ⟨e2, h⟩ := sep_cancel _ _ order_cancel _ _ _ _ hm2 h
  obtain ⟨e3, h⟩ := lims_cancel _ _ _ _ hm3 h
  exact ⟨by rw [e1, e2, e3], h⟩

theorem head_cancel (hd hd' : SelHead) (b b' : List Tok) (hm : hd.mapT qc = hd'.mapT qc)
    (h : hd.flatten ++ b = hd'.flatten ++ b') : hd = hd' ∧ b = b' := by
  obtain ⟨s, q, d, p⟩ := hd
  obtain ⟨s', q', d', p'⟩ := hd'
  simp only [SelHead.mapT, SelHead.mk.injEq] at hm
  obtain ⟨_, hm2, hm3, hm4⟩ := hm
  simp only [SelHead.flatten, List.cons_append, List.append_assoc] at h
  obtain ⟨e1, h⟩ := tok_cancel h
  obtain ⟨e2, h⟩ := toks_cancel hm2 h
  obtain ⟨e4, h⟩ := sep_cancel _ _ item_cancel _ _ _ _ hm4 h
  exact ⟨by rw [e1, e2, hm3, e4], h⟩

theorem opt_cancel (o o' : Option Expr) (b b' : List Tok) (hm : o.map (Expr.mapT qc) = o'.map (Expr.mapT qc))
    (h : optFlat o ++ b = optFlat o' ++ b') : o = o' ∧ b = b' := by
  cases o <;> cases o' <;> simp at hm
  · exact ⟨rfl, by simpa [optFlat] using h⟩
  · simp only [optFlat] at h
    obtain ⟨e1, h⟩ := expr_cancel hm h
    exact ⟨by rw [e1], h⟩

theorem selTail_cancel (tl tl' : SelTail) (b b' : List Tok) (hm : tl.mapT qc = tl'.mapT qc)
    (h : tl.flatten ++ b = tl'.flatten ++ b') : tl = tl' ∧ b = b' := by
  obtain ⟨a1, a2, a3, a4, a5, a6⟩ := tl
  obtain ⟨c1, c2, c3, c4, c5, c6⟩ := tl'
  simp only [SelTail.mapT, SelTail.mk.injEq] at hm
  obtain ⟨hm1, hm2, hm3, hm4, hm5, hm6⟩ := hm
  simp only [SelTail.flatten, List.append_assoc] at h
  obtain ⟨e1, h⟩ := toks_cancel hm1 h
  obtain ⟨e2, h⟩ := opt_cancel _ _ _ _ hm2 h
  obtain ⟨e3, h⟩ := toks_cancel hm3 h
  obtain ⟨e4, h⟩ := sep_cancel _ _ (fun v v' b b' hm h => expr_cancel hm h) _ _ _ _ hm4 h
  obtain ⟨e5, h⟩ := toks_cancel hm5 h
  obtain ⟨e6, h⟩ := opt_cancel _ _ _ _ hm6 h
  exact ⟨by rw [e1, e2, e3, e4, e5, e6], h⟩

theorem conn_cancel (c c' : Conn) (b b' : List Tok) (hm : c.mapT qc = c'.mapT qc)
    (h : c.toks ++ b = c'.toks ++ b') : c = c' ∧ b = b' := by
  cases c <;> cases c' <;> simp [Conn.mapT] at hm
  · simp only [Conn.toks, List.cons_append, List.nil_append] at h
    obtain ⟨e1, h⟩ := tok_cancel h
    exact ⟨by rw [e1], h⟩
  · simp only [Conn.toks, List.cons_append, List.nil_append] at h
    obtain ⟨e1, h⟩ := tok_cancel h
    exact ⟨by rw [e1], h⟩
  · simp only [Conn.toks] at h
    obtain ⟨e1, h⟩ := toks_cancel hm.2 h
    exact ⟨by rw [hm.1, e1], h⟩

theorem cstr_cancel (k k' : JoinCstr) (b b' : List Tok) (hm : k.mapT qc = k'.mapT qc)
    (h : k.flatten ++ b = k'.flatten ++ b') : k = k' ∧ b = b' := by
  cases k <;> cases k' <;> simp [JoinCstr.mapT] at hm
  · exact ⟨rfl, by simpa [JoinCstr.flatten] using h⟩
  · simp only [JoinCstr.flatten, List.cons_append] at h
    obtain ⟨e1, h⟩ := tok_cancel h
    obtain ⟨e2, h⟩ := expr_cancel hm.2 h
    exact ⟨by rw [e1, e2], h⟩
  · simp only [JoinCstr.flatten, List.cons_append, List.append_assoc] at h
    obtain ⟨e1, h⟩ := tok_cancel h
    obtain ⟨e2, h⟩ := tok_cancel h
    obtain ⟨e3, h⟩ := sep_cancel qc (fun t => [t]) (fun v v' b b' _ h => by simpa using h) _ _ _ _ hm.2.2.1 h
    simp only [List.cons_append, List.nil_append] at h
    obtain ⟨e4, h⟩ := tok_cancel h
    exact ⟨by rw [e1, e2, e3, e4], h⟩

theorem node_cancel : ∀ (n n' : QNode) (b b' : List Tok), n.mapT qc = n'.mapT qc →
    n.flatten ++ b = n'.flatten ++ b' → n = n' ∧ b = b' := by
  intro n
  induction n with
  | select hd frm tl ih =>
    intro n' b b' hm h
    cases n' <;> simp [QNode.mapT] at hm
    obtain ⟨hm1, hm2, hm3⟩ := hm
    simp only [QNode.flatten, List.append_assoc] at h
    obtain ⟨e1, h⟩ := head_cancel _ _ _ _ hm1 h
    obtain ⟨e2, h⟩ := ih _ _ _ hm2 h
    obtain ⟨e3, h⟩ := selTail_cancel _ _ _ _ hm3 h
    exact ⟨by rw [e1, e2, e3], h⟩
  | paren lp body qt rp ih =>
    intro n' b b' hm h
    cases n' <;> simp [QNode.mapT] at hm
    obtain ⟨_, hm2, hm3, _⟩ := hm
    simp only [QNode.flatten, List.cons_append, List.append_assoc] at h
    obtain ⟨e1, h⟩ := tok_cancel h
    obtain ⟨e2, h⟩ := ih _ _ _ hm2 h
    obtain ⟨e3, h⟩ := tail_cancel _ _ _ _ hm3 h
    simp only [List.cons_append, List.nil_append] at h
    obtain ⟨e4, h⟩ := tok_cancel h
    exact ⟨by rw [e1, e2, e3, e4], h⟩
  | setOp l o q ops r ihl ihr =>
    intro n' b b' hm h
    cases n' <;> simp [QNode.mapT] at hm
    obtain ⟨hm1, hm2, hm3, hm4, hm5⟩ := hm
    simp only [QNode.flatten, List.append_assoc] at h
    obtain ⟨e1, h⟩ := ihl _ _ _ hm1 h
    obtain ⟨e2, h⟩ := toks_cancel hm4 h
    obtain ⟨e3, h⟩ := ihr _ _ _ hm5 h
    exact ⟨by rw [e1, hm2, hm3, e2, e3], h⟩
  | fnil trail =>
    intro n' b b' hm h
    cases n' <;> simp [QNode.mapT] at hm
    simp only [QNode.flatten] at h
    obtain ⟨e1, h⟩ := toks_cancel hm h
    exact ⟨by rw [e1], h⟩
  | ftable conn name al cstr rest ih =>
    intro n' b b' hm h
    cases n' <;> simp [QNode.mapT] at hm
    obtain ⟨hm1, hm2, hm3, hm4, hm5⟩ := hm
    simp only [QNode.flatten, List.append_assoc] at h
    obtain ⟨e1, h⟩ := conn_cancel _ _ _ _ hm1 h
    obtain ⟨e2, h⟩ := toks_cancel hm2 h
    obtain ⟨e3, h⟩ := toks_cancel hm3 h
    obtain ⟨e4, h⟩ := cstr_cancel _ _ _ _ hm4 h
    obtain ⟨e5, h⟩ := ih _ _ _ hm5 h
    exact ⟨by rw [e1, e2, e3, e4, e5], h⟩
  | fderived conn lp body qt rp al cstr rest ihb ihr =>
    intro n' b b' hm h
    cases n' <;> simp [QNode.mapT] at hm
    obtain ⟨hm1, _, hm3, hm4, _, hm6, hm7, hm8⟩ := hm
    simp only [QNode.flatten, List.cons_append, List.append_assoc] at h
    obtain ⟨e1, h⟩ := conn_cancel _ _ _ _ hm1 h
    obtain ⟨e2, h⟩ := tok_cancel h
    obtain ⟨e3, h⟩ := ihb _ _ _ hm3 h
    obtain ⟨e4, h⟩ := tail_cancel _ _ _ _ hm4 h
    simp only [List.cons_append, List.nil_append] at h
    obtain ⟨e5, h⟩ := tok_cancel h
    obtain ⟨e6, h⟩ := toks_cancel hm6 h
    obtain ⟨e7, h⟩ := cstr_cancel _ _ _ _ hm7 h
    obtain ⟨e8, h⟩ := ihr _ _ _ hm8 h
    exact ⟨by rw [e1, e2, e3, e4, e5, e6, e7, e8], h⟩

/-- a query tree is determined by its image together with its yield -/
theorem query_inj (q q' : Query) (hm : q.mapT qc = q'.mapT qc) (h : q.flatten = q'.flatten) : q = q' := by
  obtain ⟨b, t⟩ := q
  obtain ⟨b', t'⟩ := q'
  simp only [Query.mapT, Query.mk.injEq] at hm
  simp only [Query.flatten] at h
  obtain ⟨e1, h⟩ := node_cancel _ _ _ _ hm.1 h
  have h' : t.flatten ++ [] = t'.flatten ++ [] := by simpa using h
  obtain ⟨e2, _⟩ := tail_cancel _ _ _ _ hm.2 h'
  rw [e1, e2]

end SqlVerif.Query

import SqlVerif.Lemmas.DataTypeParse
import SqlVerif.Lemmas.DmlLemmas
import SqlVerif.Lemmas.QueryFuel
/-!
Fuel lemmas for the statement model (`Model/Dml.lean`) and the part of the data-type model
(`Model/DataType.lean`) it uses, for `Props/C02Parser.lean` (and, through the length lemmas, for
`Lemmas/DmlLimit.lean` / `Props/C12Query.lean`).

Data types (`SqlVerif.DTy`):
* `Quiet` / `NE` / `ne_*`: no leaf parser (`flat`: every non-recursive arm of `parse_data_type_helper`)
  ever *produces* one of the two bookkeeping errors `Err.fuel` / `Err.rle` (tactic `ne_auto`);
* `*_len`: rests are not longer (`flat_len`);
* `headNonRec` (the first token is no word, or a word whose keyword selects no recursive arm — what
  `Dml.typeHeadForeign` guarantees), `parseHelper_nonrec_eq`, and for such inputs
  `parseDataType_nonrec_fmono` / `_nofuel` (`n + 2` fuel) / `_norle` (one level).

Statements (`SqlVerif.Dml`):
* `*_mono`: every function is fuel-monotone (`FuelRel`), `parseStmt_mono`, `parseScript_mono`;
* `*_le` / `*_lt`: rests are not longer / strictly shorter (from the yield lemmas), `parseStmt_lt`;
* `*_nofuel`: with `2 n + 2` fuel the helpers, with `2 n + 4` `twj` / UPDATE / DELETE, with `2 n + 5`
  INSERT / `parseStmt` never answer `Err.fuel` (`n` = remaining tokens); `parseScript_nofuel`.
-/
namespace SqlVerif.DTy
open SqlVerif.Pratt (W Sym str wordDisplay)

-- ------------------------------------------------------------------ the leaves never produce `fuel` / `rle`
/-- the two bookkeeping errors -/
def Quiet (e : Err) : Prop := e = .fuel ∨ e = .rle

/-- `x` is not the error `e` -/
@[irreducible] def NE {α : Type} (e : Err) (x : Except Err α) : Prop := x ≠ .error e

theorem NE.iff {α : Type} {e : Err} {x : Except Err α} : NE e x ↔ x ≠ .error e := by unfold NE; rfl

theorem ne_ok {α : Type} {e : Err} (a : α) : NE e (.ok a : Except Err α) := by simp [NE]
theorem ne_pure {α : Type} {e : Err} (a : α) : NE e (pure a : Except Err α) := by simp [NE, pure, Except.pure]

theorem ne_bind {α β : Type} {e : Err} {x : Except Err α} {k : α → Except Err β}
    (hx : NE e x) (hk : ∀ v, NE e (k v)) : NE e (x >>= k) := by
  cases x with
  | error er => rw [NE.iff] at hx ⊢; intro h; simp [bind, Except.bind] at h; exact hx (by rw [h])
  | ok v => exact hk v

theorem ne_expectedAt {α : Type} {e : Err} (he : Quiet e) (w : String) (ts : List Tok) :
    NE e (expectedAt w ts : Except Err α) := by
  rcases he with rfl | rfl <;> simp [NE, expectedAt]

theorem ne_unsupported {α : Type} {e : Err} (he : Quiet e) : NE e (.error .unsupported : Except Err α) := by
  rcases he with rfl | rfl <;> simp [NE]

section QuietLeaves
variable {e : Err} (he : Quiet e)
include he

theorem ne_expectSym (s : Sym) (ts : List Tok) : NE e (expectSym s ts) := by
  unfold expectSym
  repeat' split
  all_goals first | exact ne_ok _ | exact ne_expectedAt he _ _

theorem ne_expectKw (k : DKw) (n : String) (ts : List Tok) : NE e (expectKw k n ts) := by
  unfold expectKw
  split
  · exact ne_ok _
  · exact ne_expectedAt he _ _

theorem ne_parseU64 (s : W) : NE e (parseU64 s) := by
  unfold parseU64
  repeat' split
  all_goals (rcases he with rfl | rfl <;> simp [NE])

theorem ne_literalUint (ts : List Tok) : NE e (literalUint ts) := by
  unfold literalUint
  split
  · exact ne_bind (ne_parseU64 he _) (fun _ => ne_pure _)
  · exact ne_expectedAt he _ _

/-- one closing step of `ne_auto`; extended below as lemmas become available -/
syntax "ne_step" : tactic
macro_rules | `(tactic| ne_step) => `(tactic| exact ne_pure _)
macro_rules | `(tactic| ne_step) => `(tactic| exact ne_ok _)
macro_rules | `(tactic| ne_step) => `(tactic| exact ne_expectedAt ‹Quiet _› _ _)
macro_rules | `(tactic| ne_step) => `(tactic| exact ne_unsupported ‹Quiet _›)
macro_rules | `(tactic| ne_step) => `(tactic| exact ne_expectSym ‹Quiet _› _ _)
macro_rules | `(tactic| ne_step) => `(tactic| exact ne_expectKw ‹Quiet _› _ _ _)
macro_rules | `(tactic| ne_step) => `(tactic| exact ne_literalUint ‹Quiet _› _)
macro_rules | `(tactic| ne_step) => `(tactic| assumption)

/-- close a goal `NE e (do-block)` whose steps are functions with `ne_step` rules -/
macro "ne_auto" : tactic =>
  `(tactic| (repeat' (first | ne_step | (refine ne_bind ?_ (fun _ => ?_)) | split)))

theorem ne_optPrecision (ts : List Tok) : NE e (optPrecision ts) := by
  unfold optPrecision
  ne_auto
macro_rules | `(tactic| ne_step) => `(tactic| exact ne_optPrecision ‹Quiet _› _)

theorem ne_optCharLen (ts : List Tok) : NE e (optCharLen ts) := by
  unfold optCharLen
  ne_auto
macro_rules | `(tactic| ne_step) => `(tactic| exact ne_optCharLen ‹Quiet _› _)

theorem ne_optNumInfo (ts : List Tok) : NE e (optNumInfo ts) := by
  unfold optNumInfo
  ne_auto
macro_rules | `(tactic| ne_step) => `(tactic| exact ne_optNumInfo ‹Quiet _› _)

theorem ne_optTz (ts : List Tok) : NE e (optTz ts) := by
  unfold optTz
  ne_auto
macro_rules | `(tactic| ne_step) => `(tactic| exact ne_optTz ‹Quiet _› _)

theorem ne_literalString (c : Cfg) (ts : List Tok) : NE e (literalString c ts) := by
  unfold literalString
  ne_auto
macro_rules | `(tactic| ne_step) => `(tactic| exact ne_literalString ‹Quiet _› _ _)

theorem ne_strVals (c : Cfg) (ts : List Tok) : NE e (strVals c ts) := by
  fun_induction strVals c ts
  all_goals ne_auto

theorem ne_stringValues (c : Cfg) (ts : List Tok) : NE e (stringValues c ts) := by
  unfold stringValues
  exact ne_bind (ne_expectSym he _ _) (fun _ => ne_bind (ne_strVals he _ _) (fun _ => ne_bind (ne_expectSym he _ _) (fun _ => ne_pure _)))
macro_rules | `(tactic| ne_step) => `(tactic| exact ne_stringValues ‹Quiet _› _ _)

theorem ne_objName (ts : List Tok) : NE e (objName ts) := by
  fun_induction objName ts
  all_goals ne_auto
macro_rules | `(tactic| ne_step) => `(tactic| exact ne_objName ‹Quiet _› _)

theorem ne_modLoop (ts : List Tok) : NE e (modLoop ts) := by
  fun_induction modLoop ts
  all_goals ne_auto
macro_rules | `(tactic| ne_step) => `(tactic| exact ne_modLoop ‹Quiet _› _)

theorem ne_parseCustom (c : Cfg) (ts : List Tok) : NE e (parseCustom c ts) := by
  unfold parseCustom
  ne_auto

theorem ne_charFamily (plain varying : CharKind) (large : LenKind) (ts : List Tok) :
    NE e (charFamily plain varying large ts) := by
  unfold charFamily
  ne_auto

theorem ne_parseLeaf (c : Cfg) (kw : DKw) (ts : List Tok) (res : Except Err (DT × List Tok))
    (h : parseLeaf c kw ts = some res) : NE e res := by
  cases kw <;> simp only [parseLeaf, simpleOfKw, lenOfKw, intOfKw, numOfKw, Option.some.injEq, reduceCtorEq] at h <;>
    (try subst h) <;>
    first
    | (simp at h; done)
    | exact ne_charFamily he _ _ _ _
    | (ne_auto; done)

theorem ne_flat (c : Cfg) (ts : List Tok) : NE e (flat c ts) := by
  unfold flat
  split
  · split
    · rename_i res hl; exact ne_parseLeaf he c _ _ res hl
    · exact ne_parseCustom he c _
  · exact ne_expectedAt he _ _

omit he in
/-- the `[]` suffix loop never answers the limit error -/
theorem suffixLoop_norle (c : Cfg) : ∀ (f : Nat) (t : DT) (ts : List Tok), NE .rle (suffixLoop c f t ts) := by
  intro f
  induction f with
  | zero => intro t ts; simp [NE, suffixLoop]
  | succ f ih =>
    intro t ts
    simp only [suffixLoop]
    split
    · exact ne_pure _
    · split
      · rename_i er hx
        rw [NE.iff]; intro hc; simp at hc; subst hc
        exact (NE.iff.1 (ne_expectSym (Or.inr rfl) _ _)) hx
      · exact ih _ _

end QuietLeaves

-- ------------------------------------------------------------------ rests are not longer
theorem consumeSym_len {s : Sym} {ts r : List Tok} (h : consumeSym s ts = some r) : r.length + 1 = ts.length := by
  unfold consumeSym at h
  split at h
  · split at h
    · simp at h; subst h; simp
    · simp at h
  · simp at h

theorem expectSym_len {s : Sym} {ts r : List Tok} (h : expectSym s ts = .ok r) : r.length + 1 = ts.length := by
  unfold expectSym at h
  split at h
  · split at h
    · simp at h; subst h; simp
    · simp [expectedAt] at h
  · simp [expectedAt] at h

theorem expectKw_len {k : DKw} {n : String} {ts r : List Tok} (h : expectKw k n ts = .ok r) : r.length ≤ ts.length := by
  unfold expectKw at h
  split at h
  · simp at h; subst h; simp
  · simp [expectedAt] at h

theorem literalUint_len {ts : List Tok} {p : Nat × List Tok} (h : literalUint ts = .ok p) : p.2.length + 1 = ts.length := by
  unfold literalUint at h
  split at h
  · cases hp : parseU64 ‹W› with
    | error e => simp [hp, bind, Except.bind] at h
    | ok v => simp [hp, bind, Except.bind, pure, Except.pure] at h; subst h; simp
  · simp [expectedAt] at h

theorem tail_len (ts : List Tok) : ts.tail.length ≤ ts.length := by simp

set_option hygiene false in
/-- unfold a do-block equation `h : … = .ok p`, split every step, and let `grind` add up the lengths -/
macro "len_auto " "[" ls:Lean.Parser.Tactic.grindParam,* "]" : tactic =>
  `(tactic| (try simp only [bind, Except.bind, pure, Except.pure, expectedAt] at h
             repeat' split at h
             all_goals (try simp only [Except.ok.injEq, reduceCtorEq] at h)
             all_goals (try subst h)
             all_goals grind [$ls,*]))

theorem optPrecision_len {ts : List Tok} {p : Option Nat × List Tok} (h : optPrecision ts = .ok p) : p.2.length ≤ ts.length := by
  unfold optPrecision at h
  len_auto [→ consumeSym_len, → literalUint_len, → expectSym_len]

theorem optCharLen_len {ts : List Tok} {p : Option CharLen × List Tok} (h : optCharLen ts = .ok p) : p.2.length ≤ ts.length := by
  unfold optCharLen at h
  len_auto [→ consumeSym_len, → literalUint_len, → expectSym_len, tail_len]

theorem optNumInfo_len {ts : List Tok} {p : NumInfo × List Tok} (h : optNumInfo ts = .ok p) : p.2.length ≤ ts.length := by
  unfold optNumInfo at h
  len_auto [→ consumeSym_len, → literalUint_len, → expectSym_len]

theorem optTz_len {ts : List Tok} {p : TzInfo × List Tok} (h : optTz ts = .ok p) : p.2.length ≤ ts.length := by
  unfold optTz at h
  len_auto [→ expectKw_len, tail_len]

theorem literalString_len {c : Cfg} {ts : List Tok} {p : W × List Tok} (h : literalString c ts = .ok p) : p.2.length ≤ ts.length := by
  unfold literalString at h
  len_auto []

theorem strVals_len (c : Cfg) : ∀ (ts : List Tok) (p : List W × List Tok), strVals c ts = .ok p → p.2.length ≤ ts.length := by
  intro ts
  fun_induction strVals c ts <;> intro p h
  all_goals (len_auto [])

theorem stringValues_len {c : Cfg} {ts : List Tok} {p : List W × List Tok} (h : stringValues c ts = .ok p) : p.2.length ≤ ts.length := by
  unfold stringValues at h
  len_auto [→ expectSym_len, → strVals_len]

theorem objName_len : ∀ (ts : List Tok) (p : List Ident × List Tok), objName ts = .ok p → p.2.length < ts.length := by
  intro ts
  fun_induction objName ts <;> intro p h
  all_goals (len_auto [])

theorem modLoop_len : ∀ (ts : List Tok) (p : List W × List Tok), modLoop ts = .ok p → p.2.length ≤ ts.length := by
  intro ts
  fun_induction modLoop ts <;> intro p h
  all_goals (len_auto [])

theorem parseCustom_len {c : Cfg} {ts : List Tok} {p : DT × List Tok} (h : parseCustom c ts = .ok p) : p.2.length ≤ ts.length := by
  unfold parseCustom at h
  len_auto [→ objName_len, → consumeSym_len, → modLoop_len]

theorem charFamily_len {plain varying : CharKind} {large : LenKind} {ts : List Tok} {p : DT × List Tok}
    (h : charFamily plain varying large ts = .ok p) : p.2.length ≤ ts.length := by
  unfold charFamily at h
  len_auto [→ optCharLen_len, → optPrecision_len, tail_len]

theorem parseLeaf_len {c : Cfg} {kw : DKw} {ts : List Tok} {p : DT × List Tok}
    (h : parseLeaf c kw ts = some (.ok p)) : p.2.length ≤ ts.length := by
  cases kw <;> simp only [parseLeaf, simpleOfKw, lenOfKw, intOfKw, numOfKw, Option.some.injEq, reduceCtorEq] at h <;>
    first
    | (simp at h; done)
    | exact charFamily_len h
    | (len_auto [→ optCharLen_len, → optPrecision_len, → optNumInfo_len, → optTz_len, → stringValues_len, → literalString_len,
         → expectSym_len, → literalUint_len, → consumeSym_len, tail_len])

theorem flat_len {c : Cfg} {ts : List Tok} {p : DT × List Tok} (h : flat c ts = .ok p) : p.2.length ≤ ts.length := by
  unfold flat at h
  split at h
  · split at h
    · rename_i res hl; subst h; have := parseLeaf_len hl; simp; omega
    · have := parseCustom_len h; simpa using this
  · simp [expectedAt] at h

-- ------------------------------------------------------------------ non-recursive types: fuel and depth
/-- the first token is no word, or a word whose keyword selects no recursive arm -/
def headNonRec (c : Cfg) : List Tok → Bool
  | .word _ _ kw :: _ => (headOf c kw).isNone
  | _ => true

theorem parseHelper_nonrec (c : Cfg) (f d d' : Nat) (ts : List Tok) (h : headNonRec c ts = true) :
    parseHelper c (f + 1) (d + 1) ts = parseHelper c (f + 1) (d' + 1) ts := by
  cases ts with
  | nil => simp [parseHelper]
  | cons x r =>
    cases x with
    | word v q kw =>
      have hf : headFlat c (.word v q kw :: r) = true := by simpa [headNonRec, headFlat] using h
      rw [helper_flat2 c f d _ hf, helper_flat2 c f d' _ hf]
    | _ => simp [parseHelper]

/-- `parseHelper` on a non-recursive head, in one equation for every token list -/
theorem parseHelper_nonrec_eq (c : Cfg) (f d : Nat) (ts : List Tok) (h : headNonRec c ts = true) :
    parseHelper c (f + 1) (d + 1) ts =
      match flat c ts with
      | .error e => .error e
      | .ok (t, r1) => finish c f t false r1 := by
  cases ts with
  | nil => simp [parseHelper, flat, expectedAt]
  | cons x r =>
    cases x with
    | word v q kw =>
      have hf : headFlat c (.word v q kw :: r) = true := by simpa [headNonRec, headFlat] using h
      exact helper_flat2 c f d _ hf
    | _ => simp [parseHelper, flat, expectedAt]

theorem suffixLoop_fmono (c : Cfg) : ∀ (f g : Nat), f ≤ g → ∀ (t : DT) (ts : List Tok),
    suffixLoop c f t ts = .error .fuel ∨ suffixLoop c f t ts = suffixLoop c g t ts := by
  intro f
  induction f with
  | zero => intro g _ t ts; left; simp [suffixLoop]
  | succ f ih =>
    intro g hg t ts
    obtain ⟨g, rfl⟩ : ∃ g', g = g' + 1 := ⟨g - 1, by omega⟩
    simp only [suffixLoop]
    split
    · right; rfl
    · split
      · right; rfl
      · exact ih g (by omega) _ _

theorem suffixLoop_nofuel (c : Cfg) : ∀ (f : Nat) (t : DT) (ts : List Tok), ts.length + 1 ≤ f →
    suffixLoop c f t ts ≠ .error .fuel := by
  intro f
  induction f with
  | zero => intro t ts h; omega
  | succ f ih =>
    intro t ts hf
    simp only [suffixLoop]
    split
    · simp [pure, Except.pure]
    · rename_i r hc
      have h1 := consumeSym_len hc
      generalize hX : (if (c.isGeneric || c.isDuckDb || c.isPostgres) = true then _ else _ : Option Nat × List Tok) = X
      have h3 : X.2.length ≤ r.length := by
        rw [← hX]
        split
        · split
          · rename_i n r' hl; have := literalUint_len hl; simp at this ⊢; omega
          · simp
        · simp
      split
      · rename_i er hx
        intro hc; simp at hc; subst hc
        exact (NE.iff.1 (ne_expectSym (Or.inl rfl) _ _)) hx
      · rename_i r2 hx
        have h2 := expectSym_len hx
        apply ih
        omega

theorem finish_fmono (c : Cfg) {f g : Nat} (h : f ≤ g) (t : DT) (tr : Bool) (ts : List Tok) :
    finish c f t tr ts = .error .fuel ∨ finish c f t tr ts = finish c g t tr ts := by
  unfold finish
  rcases suffixLoop_fmono c f g h t ts with h1 | h1
  · left; rw [h1]
  · right; rw [h1]

theorem finish_nofuel (c : Cfg) (f : Nat) (t : DT) (tr : Bool) (ts : List Tok) (h : ts.length + 1 ≤ f) :
    finish c f t tr ts ≠ .error .fuel := by
  unfold finish
  split
  · rename_i e he; intro hc; simp at hc; subst hc; exact suffixLoop_nofuel c f t ts h he
  · simp

theorem finish_norle (c : Cfg) (f : Nat) (t : DT) (tr : Bool) (ts : List Tok) :
    finish c f t tr ts ≠ .error .rle := by
  unfold finish
  split
  · rename_i e he; intro hc; simp at hc; subst hc; exact (NE.iff.1 (suffixLoop_norle c f t ts)) he
  · simp

/-- fuel monotonicity of the data-type parser on a non-recursive type -/
theorem parseDataType_nonrec_fmono (c : Cfg) {f g : Nat} (hfg : f ≤ g) (d : Nat) (ts : List Tok)
    (h : headNonRec c ts = true) :
    parseDataType c f d ts = .error .fuel ∨ parseDataType c f d ts = parseDataType c g d ts := by
  cases f with
  | zero => left; simp [parseDataType, parseHelper]
  | succ f =>
    obtain ⟨g, rfl⟩ : ∃ g', g = g' + 1 := ⟨g - 1, by omega⟩
    cases d with
    | zero => right; simp [parseDataType, parseHelper]
    | succ d =>
      unfold parseDataType
      rw [parseHelper_nonrec_eq c f d ts h, parseHelper_nonrec_eq c g d ts h]
      cases flat c ts with
      | error e => right; rfl
      | ok p =>
        obtain ⟨t, r1⟩ := p
        simp only
        rcases finish_fmono c (by omega : f ≤ g) t false r1 with h1 | h1
        · left; rw [h1]
        · right; rw [h1]

/-- enough fuel for a non-recursive type: one level for the helper, one per `[]` suffix -/
theorem parseDataType_nonrec_nofuel (c : Cfg) (f d : Nat) (ts : List Tok) (h : headNonRec c ts = true)
    (hf : ts.length + 2 ≤ f) : parseDataType c f d ts ≠ .error .fuel := by
  obtain ⟨f, rfl⟩ : ∃ f', f = f' + 1 := ⟨f - 1, by omega⟩
  cases d with
  | zero => simp [parseDataType, parseHelper]
  | succ d =>
    unfold parseDataType
    rw [parseHelper_nonrec_eq c f d ts h]
    cases hfl : flat c ts with
    | error e =>
      simp only
      intro hc; simp at hc; subst hc
      exact (NE.iff.1 (ne_flat (Or.inl rfl) c ts)) hfl
    | ok p =>
      obtain ⟨t, r1⟩ := p
      have hl := flat_len hfl
      simp only at hl ⊢
      cases hfin : finish c f t false r1 with
      | error e =>
        simp only
        intro hc; simp at hc; subst hc
        exact finish_nofuel c f t false r1 (by omega) hfin
      | ok q =>
        obtain ⟨t', tr, r2⟩ := q
        simp only
        split <;> simp

/-- a non-recursive type never reports the limit once the call itself has a level -/
theorem parseDataType_nonrec_norle (c : Cfg) (f d : Nat) (ts : List Tok) (h : headNonRec c ts = true)
    (hd : 1 ≤ d) : parseDataType c f d ts ≠ .error .rle := by
  cases f with
  | zero => simp [parseDataType, parseHelper]
  | succ f =>
    obtain ⟨d, rfl⟩ : ∃ d', d = d' + 1 := ⟨d - 1, by omega⟩
    unfold parseDataType
    rw [parseHelper_nonrec_eq c f d ts h]
    cases hfl : flat c ts with
    | error e =>
      simp only
      intro hc; simp at hc; subst hc
      exact (NE.iff.1 (ne_flat (Or.inr rfl) c ts)) hfl
    | ok p =>
      obtain ⟨t, r1⟩ := p
      simp only
      cases hfin : finish c f t false r1 with
      | error e =>
        simp only
        intro hc; simp at hc; subst hc
        exact finish_norle c f t false r1 hfin
      | ok q =>
        obtain ⟨t', tr, r2⟩ := q
        simp only
        split <;> simp

end SqlVerif.DTy

namespace SqlVerif.Dml
open SqlVerif.Pratt SqlVerif.Query SqlVerif.Gen

-- ------------------------------------------------------------------ fuel monotonicity
theorem toDTok_nonrec (c : DCfg) (ts : List Tok) (h : typeHeadForeign c ts = false) :
    SqlVerif.DTy.headNonRec c.dt (ts.map toDTok) = true := by
  cases ts with
  | nil => rfl
  | cons x r =>
    cases x <;> simp [toDTok, SqlVerif.DTy.headNonRec]
    rename_i v q kw
    simp [typeHeadForeign] at h
    cases hh : SqlVerif.DTy.headOf c.dt (dkwOf kw) with
    | none => rfl
    | some x => simp [hh] at h

theorem parenIds_mono (c : DCfg) {f g : Nat} (h : f ≤ g) (ae : Bool) (ts : List Tok) :
    FuelRel (parenIds c f ae ts) (parenIds c g ae ts) := by
  unfold parenIds
  split
  · right; rfl
  · rename_i lp r _
    split
    · right; rfl
    · fr_step commaSepE_mono c.tc identElem identElem (fun _ => FuelRel.refl _) f g h r
      right; rfl

theorem assignTarget_mono (c : DCfg) {f g : Nat} (h : f ≤ g) (ts : List Tok) :
    FuelRel (assignTarget c f ts) (assignTarget c g ts) := by
  unfold assignTarget
  split
  · rename_i lp r _
    fr_step commaSepE_mono c.tc nameElem nameElem (fun _ => FuelRel.refl _) f g h r
    right; rfl
  · right; rfl

theorem deleteHead_mono (c : DCfg) {f g : Nat} (h : f ≤ g) (ts : List Tok) :
    FuelRel (deleteHead c f ts) (deleteHead c g ts) := by
  unfold deleteHead
  split
  · right; rfl
  · split
    · right; rfl
    · fr_step commaSepE_mono c.tc nameElem nameElem (fun _ => FuelRel.refl _) f g h ts
      right; rfl

theorem referencesTail_mono (c : DCfg) {f g : Nat} (h : f ≤ g) (kw : Tok) (ts : List Tok) :
    FuelRel (referencesTail c f kw ts) (referencesTail c g kw ts) := by
  unfold referencesTail
  split
  · right; rfl
  · rename_i name r _
    split
    · right; rfl
    · fr_step parenIds_mono c h false r
      right; rfl

theorem parseDrop_mono (c : DCfg) {f g : Nat} (h : f ≤ g) (kw : Tok) (ts : List Tok) :
    FuelRel (parseDrop c f kw ts) (parseDrop c g kw ts) := by
  unfold parseDrop
  split
  · right; rfl
  · split
    · right; rfl
    · rename_i tk r0 _
      fr_step commaSepE_mono c.tc nameElem nameElem (fun _ => FuelRel.refl _) f g h (kwsTail [DK.IF, DK.EXISTS] r0).2
      right; rfl

theorem dtErr_fuel {e : SqlVerif.DTy.Err} (h : dtErr e = .fuel) : e = .fuel := by
  cases e <;> simp [dtErr, syn] at h ⊢

theorem colType_mono (c : DCfg) (d : Nat) {f g : Nat} (h : f ≤ g) (ts : List Tok) :
    FuelRel (colType c f d ts) (colType c g d ts) := by
  unfold colType
  cases hf : typeHeadForeign c ts with
  | true => right; rfl
  | false =>
    simp only [Bool.false_eq_true, if_false]
    rcases SqlVerif.DTy.parseDataType_nonrec_fmono c.dt h d _ (toDTok_nonrec c ts hf) with h1 | h1
    · left; rw [h1]; rfl
    · rw [h1]; right; rfl

theorem rowBody_mono (c : DCfg) (d : Nat) {f g : Nat} (h : f ≤ g) (rk ts : List Tok) :
    FuelRel (rowBody c f d rk ts) (rowBody c g d rk ts) := by
  unfold rowBody
  split
  · right; rfl
  · rename_i lp r _
    split
    · right; rfl
    · fr_step commaSepE_mono c.tc _ _ (parseE_mono c.q d h) f g h r
      right; rfl

theorem valuesRow_mono (c : DCfg) (d : Nat) {f g : Nat} (h : f ≤ g) (ts : List Tok) :
    FuelRel (valuesRow c f d ts) (valuesRow c g d ts) := rowBody_mono c d h _ _

theorem valuesQuery_mono (c : DCfg) (d : Nat) {f g : Nat} (h : f ≤ g) (kw : Tok) (ts : List Tok) :
    FuelRel (valuesQuery c f d kw ts) (valuesQuery c g d kw ts) := by
  cases d with
  | zero => right; simp [valuesQuery]
  | succ d =>
    simp only [valuesQuery]
    fr_step commaSepE_mono c.tc _ _ (valuesRow_mono c d h) f g h ts
    cases commaSepE c.tc (valuesRow c g d) g ts with
    | error er => right; rfl
    | ok v =>
      obtain ⟨rows, r1⟩ := v
      simp only
      split
      · right; rfl
      · fr_step queryTail_mono c.q d h r1
        right; rfl

theorem parseSource_mono (c : DCfg) (d : Nat) {f g : Nat} (h : f ≤ g) (ts : List Tok) :
    FuelRel (parseSource c f d ts) (parseSource c g d ts) := by
  unfold parseSource
  split
  · rename_i kw r _
    fr_step valuesQuery_mono c d h kw r
    right; rfl
  · fr_step (qfuel_mono_all c.q f g h).1 d ts
    right; rfl

theorem retPart_mono (c : DCfg) (d : Nat) {f g : Nat} (h : f ≤ g) (ts : List Tok) :
    FuelRel (retPart c f d ts) (retPart c g d ts) := by
  unfold retPart
  split
  · rename_i kw r _
    fr_step commaSepE_mono c.tc _ _ (selectItem_mono c.q d h) f g h r
    right; rfl
  · right; rfl

theorem insertBody_mono (c : DCfg) (d : Nat) {f g : Nat} (h : f ≤ g) (ts : List Tok) :
    FuelRel (insertBody c f d ts) (insertBody c g d ts) := by
  unfold insertBody
  split
  · right; rfl
  · fr_step parenIds_mono c h c.isMySql ts
    cases parenIds c g c.isMySql ts with
    | error er => right; rfl
    | ok v =>
      obtain ⟨cols, r1⟩ := v
      simp only
      split
      · right; rfl
      · split
        · right; rfl
        · fr_step parseSource_mono c d h r1
          right; rfl

theorem parseInsert_mono (c : DCfg) (d : Nat) {f g : Nat} (h : f ≤ g) (kw : Tok) (ts : List Tok) :
    FuelRel (parseInsert c f d kw ts) (parseInsert c g d kw ts) := by
  unfold parseInsert
  split
  · right; rfl
  split
  · right; rfl
  split
  · right; rfl
  · rename_i name r1 _
    split
    · right; rfl
    split
    · right; rfl
    fr_step insertBody_mono c d h r1
    cases insertBody c g d r1 with
    | error er => right; rfl
    | ok v =>
      obtain ⟨cs, r2⟩ := v
      simp only
      split
      · right; rfl
      · fr_step retPart_mono c d h r2
        right; rfl

theorem factorPart_mono (c : QCfg) (d : Nat) {f g : Nat} (h : f ≤ g) (ts : List Tok) :
    FuelRel (factorPart c f d ts) (factorPart c g d ts) := by
  unfold factorPart
  by_cases hd0 : d = 0
  · right; simp [hd0]
  · simp only [hd0, if_false]
    cases factorHead c ts with
    | error er => right; rfl
    | ok fh =>
      cases fh with
      | table name al r => right; rfl
      | paren lp r =>
        simp only
        fr_step (qfuel_mono_all c f g h).1 (d - 1) r
        right; rfl

theorem twj_mono (c : QCfg) (d : Nat) :
    ∀ (f g : Nat), f ≤ g → ∀ (conn : Conn) (ts : List Tok), FuelRel (twj c f d conn ts) (twj c g d conn ts) := by
  intro f
  induction f with
  | zero => intro g _ conn ts; left; simp [twj]
  | succ f ih =>
    intro g hg conn ts
    obtain ⟨g, rfl⟩ : ∃ g', g = g' + 1 := ⟨g - 1, by omega⟩
    have h : f ≤ g := by omega
    simp only [twj]
    fr_step factorPart_mono c d h ts
    cases factorPart c g d ts with
    | error er => right; rfl
    | ok v =>
      obtain ⟨fac, r⟩ := v
      simp only
      fr_step optCstr_mono c d h conn.hasCstr r
      cases optCstr c g d conn.hasCstr r with
      | error er => right; rfl
      | ok v =>
        obtain ⟨k, ts1⟩ := v
        simp only
        cases joinHead ts1 with
        | error er => right; rfl
        | ok jh =>
          cases jh with
          | stop => right; rfl
          | join jk toks r2 =>
            simp only
            fr_step ih g h (.join jk toks) r2
            right; rfl

theorem assignment_mono (c : DCfg) (d : Nat) {f g : Nat} (h : f ≤ g) (ts : List Tok) :
    FuelRel (assignment c f d ts) (assignment c g d ts) := by
  unfold assignment
  fr_step assignTarget_mono c h ts
  cases assignTarget c g ts with
  | error er => right; rfl
  | ok v =>
    obtain ⟨tg, r⟩ := v
    simp only
    split
    · right; rfl
    · rename_i eq r1 _
      fr_step parseE_mono c.q d h r1
      right; rfl

theorem updateFromPart_mono (c : DCfg) (d : Nat) {f g : Nat} (h : f ≤ g) (ts : List Tok) :
    FuelRel (updateFromPart c f d ts) (updateFromPart c g d ts) := by
  unfold updateFromPart
  split
  · right; rfl
  · rename_i kw r _
    split
    · fr_step twj_mono c.q d f g h (.from kw) r
      right; rfl
    · right; rfl

theorem parseUpdate_mono (c : DCfg) (d : Nat) {f g : Nat} (h : f ≤ g) (kw : Tok) (ts : List Tok) :
    FuelRel (parseUpdate c f d kw ts) (parseUpdate c g d kw ts) := by
  unfold parseUpdate
  fr_step twj_mono c.q d f g h (.from kw) ts
  cases twj c.q g d (.from kw) ts with
  | error er => right; rfl
  | ok v =>
    obtain ⟨tbl, r1⟩ := v
    simp only
    split
    · right; rfl
    · rename_i setKw r2 _
      fr_step commaSepE_mono c.tc _ _ (assignment_mono c d h) f g h r2
      cases commaSepE c.tc (assignment c g d) g r2 with
      | error er => right; rfl
      | ok v =>
        obtain ⟨as, r3⟩ := v
        simp only
        fr_step updateFromPart_mono c d h r3
        cases updateFromPart c g d r3 with
        | error er => right; rfl
        | ok v =>
          obtain ⟨fr, r4⟩ := v
          simp only
          fr_step kwExprPart_mono c.q d h DK.WHERE r4
          cases kwExprPart c.q g d DK.WHERE r4 with
          | error er => right; rfl
          | ok v =>
            obtain ⟨w, r5⟩ := v
            simp only
            fr_step retPart_mono c d h r5
            right; rfl

theorem usingPart_mono (c : DCfg) (d : Nat) {f g : Nat} (h : f ≤ g) (ts : List Tok) :
    FuelRel (usingPart c f d ts) (usingPart c g d ts) := by
  unfold usingPart
  split
  · exact (qfuel_mono_all c.q f g h).2.2.2.2.1 d _ _
  · right; rfl

theorem deleteOrderPart_mono (c : DCfg) (d : Nat) {f g : Nat} (h : f ≤ g) (ts : List Tok) :
    FuelRel (deleteOrderPart c f d ts) (deleteOrderPart c g d ts) := by
  unfold deleteOrderPart
  split
  · rename_i kws r _
    fr_step commaSepE_mono c.tc _ _ (orderByElem_mono c.q d h) f g h r
    right; rfl
  · right; rfl

theorem deleteLimitPart_mono (c : DCfg) (d : Nat) {f g : Nat} (h : f ≤ g) (ts : List Tok) :
    FuelRel (deleteLimitPart c f d ts) (deleteLimitPart c g d ts) := by
  unfold deleteLimitPart
  split
  · rename_i kw r _
    split
    · right; rfl
    · fr_step parseE_mono c.q d h r
      right; rfl
  · right; rfl

theorem parseDelete_mono (c : DCfg) (d : Nat) {f g : Nat} (h : f ≤ g) (kw : Tok) (ts : List Tok) :
    FuelRel (parseDelete c f d kw ts) (parseDelete c g d kw ts) := by
  unfold parseDelete
  fr_step deleteHead_mono c h ts
  cases deleteHead c g ts with
  | error er => right; rfl
  | ok v =>
    obtain ⟨hd, r1⟩ := v
    simp only
    fr_step (qfuel_mono_all c.q f g h).2.2.2.2.1 d (.from hd.2) r1
    cases fromItems c.q g d (.from hd.2) r1 with
    | error er => right; rfl
    | ok v =>
      obtain ⟨frm, r2⟩ := v
      simp only
      fr_step usingPart_mono c d h r2
      cases usingPart c g d r2 with
      | error er => right; rfl
      | ok v =>
        obtain ⟨us, r3⟩ := v
        simp only
        fr_step kwExprPart_mono c.q d h DK.WHERE r3
        cases kwExprPart c.q g d DK.WHERE r3 with
        | error er => right; rfl
        | ok v =>
          obtain ⟨w, r4⟩ := v
          simp only
          fr_step retPart_mono c d h r4
          cases retPart c g d r4 with
          | error er => right; rfl
          | ok v =>
            obtain ⟨ret, r5⟩ := v
            simp only
            fr_step deleteOrderPart_mono c d h r5
            cases deleteOrderPart c g d r5 with
            | error er => right; rfl
            | ok v =>
              obtain ⟨ob, r6⟩ := v
              simp only
              fr_step deleteLimitPart_mono c d h r6
              right; rfl

theorem checkTail_mono (c : DCfg) (d : Nat) {f g : Nat} (h : f ≤ g) (kw : Tok) (ts : List Tok) :
    FuelRel (checkTail c f d kw ts) (checkTail c g d kw ts) := by
  unfold checkTail
  split
  · right; rfl
  · rename_i lp r _
    fr_step parseE_mono c.q d h r
    right; rfl

theorem defaultTail_mono (c : DCfg) (d : Nat) {f g : Nat} (h : f ≤ g) (kw : Tok) (ts : List Tok) :
    FuelRel (defaultTail c f d kw ts) (defaultTail c g d kw ts) := by
  unfold defaultTail
  fr_step parseE_mono c.q d h ts
  right; rfl

theorem colOption_mono (c : DCfg) (d : Nat) {f g : Nat} (h : f ≤ g) (ts : List Tok) :
    FuelRel (colOption c f d ts) (colOption c g d ts) := by
  unfold colOption
  repeat' split
  all_goals first
    | (right; rfl)
    | exact defaultTail_mono c d h _ _
    | exact checkTail_mono c d h _ _
    | exact referencesTail_mono c h _ _

theorem colOpts_mono (c : DCfg) (d : Nat) {f g : Nat} (h : f ≤ g) :
    ∀ (n m : Nat), n ≤ m → ∀ (ts : List Tok), FuelRel (colOpts c f d n ts) (colOpts c g d m ts) := by
  intro n
  induction n with
  | zero => intro m _ ts; left; simp [colOpts]
  | succ n ih =>
    intro m hm ts
    obtain ⟨m, rfl⟩ : ∃ m', m = m' + 1 := ⟨m - 1, by omega⟩
    simp only [colOpts]
    split
    · right; rfl
    · fr_step colOption_mono c d h ts
      cases colOption c g d ts with
      | error er => right; rfl
      | ok v =>
        obtain ⟨o, r⟩ := v
        cases o with
        | none dr => right; rfl
        | opt o =>
          simp only
          fr_step ih m (by omega) r
          right; rfl

theorem colTypePart_mono (c : DCfg) (d : Nat) {f g : Nat} (h : f ≤ g) (ts : List Tok) :
    FuelRel (colTypePart c f d ts) (colTypePart c g d ts) := by
  unfold colTypePart
  split
  · right; rfl
  · exact colType_mono c d h ts

theorem columnDef_mono (c : DCfg) (d : Nat) {f g : Nat} (h : f ≤ g) (ts : List Tok) :
    FuelRel (columnDef c f d ts) (columnDef c g d ts) := by
  unfold columnDef
  split
  · right; rfl
  · rename_i name r _
    fr_step colTypePart_mono c d h r
    cases colTypePart c g d r with
    | error er => right; rfl
    | ok v =>
      obtain ⟨ty, r1⟩ := v
      simp only
      split
      · right; rfl
      · fr_step colOpts_mono c d h f g h r1
        right; rfl

theorem colLoop_mono (c : DCfg) (d : Nat) {f g : Nat} (h : f ≤ g) :
    ∀ (n m : Nat), n ≤ m → ∀ (ts : List Tok), FuelRel (colLoop c f d n ts) (colLoop c g d m ts) := by
  intro n
  induction n with
  | zero => intro m _ ts; left; simp [colLoop]
  | succ n ih =>
    intro m hm ts
    obtain ⟨m, rfl⟩ : ∃ m', m = m' + 1 := ⟨m - 1, by omega⟩
    simp only [colLoop]
    split
    · right; rfl
    split
    · right; rfl
    fr_step columnDef_mono c d h ts
    cases columnDef c g d ts with
    | error er => right; rfl
    | ok v =>
      obtain ⟨cd, r1⟩ := v
      simp only
      cases colEnd c.tc r1 with
      | bad => right; rfl
      | close cm rp r2 => right; rfl
      | more cm r2 =>
        simp only
        fr_step ih m (by omega) r2
        right; rfl

theorem parseColumns_mono (c : DCfg) (d : Nat) {f g : Nat} (h : f ≤ g) (ts : List Tok) :
    FuelRel (parseColumns c f d ts) (parseColumns c g d ts) := by
  unfold parseColumns
  split
  · right; rfl
  · rename_i lp r _
    split
    · right; rfl
    · fr_step colLoop_mono c d h f g h r
      right; rfl

theorem parseCreate_mono (c : DCfg) (d : Nat) {f g : Nat} (h : f ≤ g) (kw : Tok) (ts : List Tok) :
    FuelRel (parseCreate c f d kw ts) (parseCreate c g d kw ts) := by
  unfold parseCreate
  split
  · right; rfl
  split
  · right; rfl
  split
  · right; rfl
  split
  · right; rfl
  · split
    · right; rfl
    · rename_i name r1 _
      split
      · right; rfl
      split
      · right; rfl
      fr_step parseColumns_mono c d h r1
      right; rfl

theorem mapRes_mono {α β : Type} (g : α → β) {x y : Res α} (h : FuelRel x y) : FuelRel (mapRes g x) (mapRes g y) := by
  rcases h with h | h
  · left; rw [h]; rfl
  · right; rw [h]

/-- **fuel monotonicity of `parse_statement`** (statement model) -/
theorem parseStmt_mono (c : DCfg) {f g : Nat} (h : f ≤ g) (limit : Nat) (ts : List Tok) :
    FuelRel (parseStmt c f limit ts) (parseStmt c g limit ts) := by
  cases limit with
  | zero => right; simp [parseStmt]
  | succ d =>
    unfold parseStmt
    cases ts with
    | nil => right; rfl
    | cons t r =>
      simp only
      split
      · exact mapRes_mono _ ((qfuel_mono_all c.q f g h).1 _ _)
      split
      · exact mapRes_mono _ (valuesQuery_mono c d h _ _)
      split
      · exact mapRes_mono _ (parseInsert_mono c d h _ _)
      split
      · exact mapRes_mono _ (parseUpdate_mono c d h _ _)
      split
      · exact mapRes_mono _ (parseDelete_mono c d h _ _)
      split
      · exact mapRes_mono _ (parseCreate_mono c d h _ _)
      split
      · exact mapRes_mono _ (parseDrop_mono c h _ _)
      split
      · exact mapRes_mono _ ((qfuel_mono_all c.q f g h).1 _ _)
      · right; rfl
      · right; rfl

theorem parseScript_mono (c : DCfg) {f g : Nat} (h : f ≤ g) (limit : Nat) (ts : List Tok) :
    parseScript c f limit ts = .error (.stmt .fuel) ∨ parseScript c f limit ts = parseScript c g limit ts :=
  SqlVerif.Stmts.loop_congr stmtClass (parseStmt c f limit) (parseStmt c g limit) Pratt.Err.fuel
    (fun ts' => parseStmt_mono c h limit ts') _ _ _ _

-- ------------------------------------------------------------------ rests are not longer
theorem commaSepE_le {α : Type} (tc : Bool) (elem : List Tok → Res α)
    (hle : ∀ ts v rest, elem ts = .ok (v, rest) → rest.length ≤ ts.length) :
    ∀ (n : Nat) (ts : List Tok) (vs : Sep α) (rest : List Tok),
      commaSepE tc elem n ts = .ok (vs, rest) → rest.length ≤ ts.length := by
  intro n
  induction n with
  | zero => intro ts vs rest h; simp [commaSepE] at h
  | succ n ih =>
    intro ts vs rest h
    simp only [commaSepE] at h
    split at h
    · simp at h
    · rename_i v r he
      have h1 := hle _ _ _ he
      split at h
      · rename_i r'
        simp at h1
        split at h
        · simp at h; obtain ⟨_, rfl⟩ := h; omega
        · split at h
          · simp at h
          · rename_i vs' r'' hc
            have h2 := ih _ _ _ hc
            simp at h; obtain ⟨_, rfl⟩ := h; omega
      · simp at h; obtain ⟨_, rfl⟩ := h; omega

theorem parseE_le {c : QCfg} {f d : Nat} {ts : List Tok} {e : Expr} {rest : List Tok}
    (h : parseE c f d ts = .ok (e, rest)) : rest.length ≤ ts.length := Nat.le_of_lt (parseE_lt h)

theorem nameElem_le {ts name rest : List Tok} (h : nameElem ts = .ok (name, rest)) : rest.length ≤ ts.length := by
  len_of nameElem_yield _ _ _ h

theorem nameElem_ne_fuel (ts : List Tok) : nameElem ts ≠ .error .fuel := objectName_ne_fuel _ _

theorem eatSym_len {ts : List Tok} {s : Sym} {t : Tok} {r : List Tok} (h : eatSym ts s = some (t, r)) :
    r.length + 1 = ts.length := by
  rw [(eatSym_some h).1]; simp

theorem eatKw_len {ts : List Tok} {k : Nat} {t : Tok} {r : List Tok} (h : eatKw ts k = some (t, r)) :
    r.length + 1 = ts.length := by
  rw [((eatKw_some_iff _ _ _ _).1 h).1]; simp

theorem eatKws_le {ts : List Tok} {ks : List Nat} {ops r : List Tok} (h : eatKws ts ks = some (ops, r)) :
    r.length ≤ ts.length := by
  len_of eatKws_yield _ _ _ _ h

theorem kwTail_le (k : Nat) (ts : List Tok) : (kwTail k ts).2.length ≤ ts.length := by
  len_of kwTail_yield k ts

theorem kwsTail_le (ks : List Nat) (ts : List Tok) : (kwsTail ks ts).2.length ≤ ts.length := by
  len_of kwsTail_yield ks ts

theorem tempTail_le (ts : List Tok) : (tempTail ts).2.length ≤ ts.length := by
  len_of tempTail_yield ts

theorem valuesRow_le {c : DCfg} {f d : Nat} {ts : List Tok} {row : Row} {rest : List Tok}
    (h : valuesRow c f d ts = .ok (row, rest)) : rest.length ≤ ts.length := by
  len_of valuesRow_yield _ _ _ _ _ _ h

theorem valuesQuery_le {c : DCfg} {f d : Nat} {kw : Tok} {ts : List Tok} {v : ValuesQ} {rest : List Tok}
    (h : valuesQuery c f d kw ts = .ok (v, rest)) : rest.length ≤ ts.length := by
  have hlen := congrArg List.length (valuesQuery_yield _ _ _ _ _ _ _ h)
  simp [ValuesQ.flatten] at hlen; omega

theorem parseSource_le {c : DCfg} {f d : Nat} {ts : List Tok} {s : Source} {rest : List Tok}
    (h : parseSource c f d ts = .ok (s, rest)) : rest.length ≤ ts.length := by
  len_of parseSource_yield _ _ _ _ _ _ h

theorem parenIds_le {c : DCfg} {f : Nat} {ae : Bool} {ts : List Tok} {p : ParenIds} {rest : List Tok}
    (h : parenIds c f ae ts = .ok (p, rest)) : rest.length ≤ ts.length := by
  len_of parenIds_yield _ _ _ _ _ _ h

theorem retPart_le {c : DCfg} {f d : Nat} {ts : List Tok} {ret : List Tok × Sep SelectItem} {rest : List Tok}
    (h : retPart c f d ts = .ok (ret, rest)) : rest.length ≤ ts.length := by
  len_of retPart_yield _ _ _ _ _ _ h

theorem insertBody_le {c : DCfg} {f d : Nat} {ts : List Tok} {cs : ParenIds × InsSource} {rest : List Tok}
    (h : insertBody c f d ts = .ok (cs, rest)) : rest.length ≤ ts.length := by
  len_of insertBody_yield _ _ _ _ _ _ h

theorem parseInsert_le {c : DCfg} {f d : Nat} {kw : Tok} {ts : List Tok} {i : Insert} {rest : List Tok}
    (h : parseInsert c f d kw ts = .ok (i, rest)) : rest.length ≤ ts.length := by
  have hlen := congrArg List.length (parseInsert_yield _ _ _ _ _ _ _ h)
  simp [Insert.flatten] at hlen; omega

theorem factorPart_lt {c : QCfg} {f d : Nat} {ts : List Tok} {fac : Factor} {rest : List Tok}
    (h : factorPart c f d ts = .ok (fac, rest)) : rest.length < ts.length := by
  unfold factorPart at h
  split at h
  · simp at h
  · split at h
    · simp at h
    · rename_i name al r hfh
      have h1 := factorHead_lt hfh
      simp at h; obtain ⟨_, rfl⟩ := h; exact h1
    · rename_i lp r hfh
      have h1 := factorHead_lt hfh
      simp only at h1
      split at h
      · simp at h
      · simp at h
      · simp at h
      · rename_i q r1 hq
        have h2 := parseQuery_le hq
        split at h
        · simp at h
        · rename_i rp r2 hs
          have h3 := eatSym_len hs
          split at h
          · simp at h
          · rename_i al r3 ha
            have h4 := optTableAlias_le ha
            split at h
            · simp at h
            · simp at h; obtain ⟨_, rfl⟩ := h; omega

theorem twj_lt (c : QCfg) : ∀ (f d : Nat) (conn : Conn) (ts : List Tok) (n : QNode) (rest : List Tok),
    twj c f d conn ts = .ok (n, rest) → rest.length < ts.length := by
  intro f
  induction f with
  | zero => intro d conn ts n rest h; simp [twj] at h
  | succ f ih =>
    intro d conn ts n rest h
    simp only [twj] at h
    split at h
    · simp at h
    · rename_i fac r hf
      have h1 := factorPart_lt hf
      split at h
      · simp at h
      · rename_i k ts1 hc
        have h2 := optCstr_le hc
        split at h
        · simp at h
        · simp at h; obtain ⟨_, rfl⟩ := h; omega
        · rename_i jk toks r2 hj
          have h3 := joinHead_lt hj
          split at h
          · simp at h
          · rename_i rs ts2 ht
            have h4 := ih _ _ _ _ _ ht
            simp at h; obtain ⟨_, rfl⟩ := h; omega

theorem assignTarget_le {c : DCfg} {f : Nat} {ts : List Tok} {tg : AssignTarget} {rest : List Tok}
    (h : assignTarget c f ts = .ok (tg, rest)) : rest.length ≤ ts.length := by
  len_of assignTarget_yield _ _ _ _ _ h

theorem assignment_le {c : DCfg} {f d : Nat} {ts : List Tok} {a : Assign} {rest : List Tok}
    (h : assignment c f d ts = .ok (a, rest)) : rest.length ≤ ts.length := by
  len_of assignment_yield _ _ _ _ _ _ h

theorem updateFromPart_le {c : DCfg} {f d : Nat} {ts : List Tok} {fr : List Tok × QNode} {rest : List Tok}
    (h : updateFromPart c f d ts = .ok (fr, rest)) : rest.length ≤ ts.length := by
  len_of updateFromPart_yield _ _ _ _ _ _ h

theorem parseUpdate_le {c : DCfg} {f d : Nat} {kw : Tok} {ts : List Tok} {u : Update} {rest : List Tok}
    (h : parseUpdate c f d kw ts = .ok (u, rest)) : rest.length ≤ ts.length := by
  unfold parseUpdate at h
  split at h
  · simp at h
  · rename_i tbl r1 ht
    have h1 := twj_lt _ _ _ _ _ _ _ ht
    split at h
    · simp at h
    · rename_i setKw r2 hk
      have h2 := eatKw_len hk
      split at h
      · simp at h
      · rename_i as r3 ha
        have h3 := commaSepE_le _ _ (fun _ _ _ => assignment_le) _ _ _ _ ha
        split at h
        · simp at h
        · rename_i fr r4 hf
          have h4 := updateFromPart_le hf
          split at h
          · simp at h
          · rename_i w r5 hw
            have h5 := kwExprPart_le hw
            split at h
            · simp at h
            · rename_i ret r6 hr
              have h6 := retPart_le hr
              simp at h; obtain ⟨_, rfl⟩ := h; omega

theorem deleteHead_lt {c : DCfg} {f : Nat} {ts : List Tok} {hd : Sep (List Tok) × Tok} {rest : List Tok}
    (h : deleteHead c f ts = .ok (hd, rest)) : rest.length < ts.length := by
  have hlen := congrArg List.length (deleteHead_yield _ _ _ _ _ h)
  simp at hlen; omega

theorem usingPart_le {c : DCfg} {f d : Nat} {ts : List Tok} {n : QNode} {rest : List Tok}
    (h : usingPart c f d ts = .ok (n, rest)) : rest.length ≤ ts.length := by
  len_of usingPart_yield _ _ _ _ _ _ h

theorem deleteOrderPart_le {c : DCfg} {f d : Nat} {ts : List Tok} {ob : List Tok × Sep OrderByExpr} {rest : List Tok}
    (h : deleteOrderPart c f d ts = .ok (ob, rest)) : rest.length ≤ ts.length := by
  len_of deleteOrderPart_yield _ _ _ _ _ _ h

theorem deleteLimitPart_le {c : DCfg} {f d : Nat} {ts : List Tok} {lim : List Tok × Option Expr} {rest : List Tok}
    (h : deleteLimitPart c f d ts = .ok (lim, rest)) : rest.length ≤ ts.length := by
  len_of deleteLimitPart_yield _ _ _ _ _ _ h

theorem parseDelete_le {c : DCfg} {f d : Nat} {kw : Tok} {ts : List Tok} {dl : Delete} {rest : List Tok}
    (h : parseDelete c f d kw ts = .ok (dl, rest)) : rest.length ≤ ts.length := by
  have hlen := congrArg List.length (parseDelete_yield _ _ _ _ _ _ _ h)
  simp [Delete.flatten] at hlen; omega

theorem colTypePart_le {c : DCfg} {f d : Nat} {ts : List Tok} {ty : SqlVerif.DTy.DT × List Tok} {rest : List Tok}
    (h : colTypePart c f d ts = .ok (ty, rest)) : rest.length ≤ ts.length := by
  len_of colTypePart_yield _ _ _ _ _ _ h

theorem colOption_le {c : DCfg} {f d : Nat} {ts : List Tok} {o : OptRes} {rest : List Tok}
    (h : colOption c f d ts = .ok (o, rest)) : rest.length ≤ ts.length := by
  len_of colOption_yield _ _ _ _ _ _ h

theorem eatKws_lt {ts : List Tok} {k : Nat} {ks : List Nat} {ops r : List Tok}
    (h : eatKws ts (k :: ks) = some (ops, r)) : r.length < ts.length := by
  simp only [eatKws] at h
  split at h
  · simp at h
  · rename_i t rest hk
    have h1 := eatKw_len hk
    split at h
    · simp at h
    · rename_i ops' r' hks
      have h2 := eatKws_le hks
      simp at h; obtain ⟨_, rfl⟩ := h; omega

theorem commentTail_le {kw : Tok} {ts : List Tok} {o : OptRes} {rest : List Tok}
    (h : commentTail kw ts = .ok (o, rest)) : rest.length ≤ ts.length := by
  unfold commentTail at h
  split at h
  · simp at h; obtain ⟨_, rfl⟩ := h; simp
  · simp at h

theorem checkTail_le {c : DCfg} {f d : Nat} {kw : Tok} {ts : List Tok} {o : OptRes} {rest : List Tok}
    (h : checkTail c f d kw ts = .ok (o, rest)) : rest.length ≤ ts.length := by
  have hlen := congrArg List.length (checkTail_yield _ _ _ _ _ _ _ h)
  unfold checkTail at h
  repeat' split at h
  all_goals first
    | (simp at h; done)
    | (simp at h; obtain ⟨rfl, _⟩ := h; simp [OptRes.toks, ColOpt.flatten] at hlen; omega)

theorem referencesTail_le {c : DCfg} {f : Nat} {kw : Tok} {ts : List Tok} {o : OptRes} {rest : List Tok}
    (h : referencesTail c f kw ts = .ok (o, rest)) : rest.length ≤ ts.length := by
  have hlen := congrArg List.length (referencesTail_yield _ _ _ _ _ _ h)
  unfold referencesTail at h
  repeat' split at h
  all_goals first
    | (simp at h; done)
    | (simp at h; obtain ⟨rfl, _⟩ := h; simp [OptRes.toks, ColOpt.flatten] at hlen; omega)

theorem defaultTail_le {c : DCfg} {f d : Nat} {kw : Tok} {ts : List Tok} {o : OptRes} {rest : List Tok}
    (h : defaultTail c f d kw ts = .ok (o, rest)) : rest.length ≤ ts.length := by
  have hlen := congrArg List.length (defaultTail_yield _ _ _ _ _ _ _ h)
  unfold defaultTail at h
  repeat' split at h
  all_goals first
    | (simp at h; done)
    | (simp at h; obtain ⟨rfl, _⟩ := h; simp [OptRes.toks, ColOpt.flatten] at hlen; omega)

theorem ccTail_le {o0 : ColOpt} {ts : List Tok} {o : OptRes} {rest : List Tok}
    (h : ccTail o0 ts = .ok (o, rest)) : rest.length ≤ ts.length := by
  rw [(ccTail_yield _ _ _ _ h).2]; exact Nat.le_refl _

theorem dialectOpt_le {ok : Bool} {t : Tok} {r : List Tok} {o : OptRes} {rest : List Tok}
    (h : dialectOpt ok t r = .ok (o, rest)) : rest.length ≤ r.length := by
  unfold dialectOpt at h
  repeat' split at h
  all_goals first
    | (simp at h; done)
    | (simp at h; obtain ⟨_, rfl⟩ := h; simp)

theorem colOptionTail_opt_lt {c : DCfg} {ts : List Tok} {o : ColOpt} {rest : List Tok}
    (h : colOptionTail c ts = .ok (.opt o, rest)) : rest.length < ts.length := by
  unfold colOptionTail at h
  repeat' split at h
  all_goals first
    | (simp at h; done)
    | (rename_i hk; have h1 := eatKw_len hk; have h2 := dialectOpt_le h; omega)

/-- an accepted option consumed at least its keyword -/
theorem colOption_opt_lt {c : DCfg} {f d : Nat} {ts : List Tok} {o : ColOpt} {rest : List Tok}
    (h : colOption c f d ts = .ok (.opt o, rest)) : rest.length < ts.length := by
  unfold colOption at h
  repeat' split at h
  all_goals first
    | (simp at h; done)
    | exact colOptionTail_opt_lt h
    | (rename_i hk; have h1 := eatKws_lt hk; simp at h; obtain ⟨_, rfl⟩ := h; exact h1)
    | (rename_i hk; have h1 := eatKw_len hk; simp at h; obtain ⟨_, rfl⟩ := h; omega)
    | (rename_i hk; have h1 := eatKw_len hk; have h2 := commentTail_le h; omega)
    | (rename_i hk; have h1 := eatKw_len hk; have h2 := defaultTail_le h; omega)
    | (rename_i hk; have h1 := eatKw_len hk; have h2 := referencesTail_le h; omega)
    | (rename_i hk; have h1 := eatKw_len hk; have h2 := checkTail_le h; omega)
    | (rename_i hk; have h1 := eatKw_len hk; have h2 := ccTail_le h; omega)
    | (rename_i hk; have h1 := eatKws_lt hk; have h2 := ccTail_le h; omega)

theorem colOpts_le {c : DCfg} {f d n : Nat} {ts : List Tok} {od : List ColOpt × List Tok} {rest : List Tok}
    (h : colOpts c f d n ts = .ok (od, rest)) : rest.length ≤ ts.length := by
  len_of colOpts_yield _ _ _ _ _ _ _ h

theorem columnDef_lt {c : DCfg} {f d : Nat} {ts : List Tok} {cd : ColDef} {rest : List Tok}
    (h : columnDef c f d ts = .ok (cd, rest)) : rest.length < ts.length := by
  have hlen := congrArg List.length (columnDef_yield _ _ _ _ _ _ h)
  simp [ColDef.flatten] at hlen; omega

theorem parseColumns_le {c : DCfg} {f d : Nat} {ts : List Tok} {cols : List Tok × Sep ColDef × List Tok} {rest : List Tok}
    (h : parseColumns c f d ts = .ok (cols, rest)) : rest.length ≤ ts.length := by
  len_of parseColumns_yield _ _ _ _ _ _ h

theorem parseCreate_le {c : DCfg} {f d : Nat} {kw : Tok} {ts : List Tok} {ct : CreateTable} {rest : List Tok}
    (h : parseCreate c f d kw ts = .ok (ct, rest)) : rest.length ≤ ts.length := by
  have hlen := congrArg List.length (parseCreate_yield _ _ _ _ _ _ _ h)
  simp [CreateTable.flatten] at hlen; omega

theorem parseDrop_le {c : DCfg} {f : Nat} {kw : Tok} {ts : List Tok} {dr : Drop} {rest : List Tok}
    (h : parseDrop c f kw ts = .ok (dr, rest)) : rest.length ≤ ts.length := by
  have hlen := congrArg List.length (parseDrop_yield _ _ _ _ _ _ h)
  simp [Drop.flatten] at hlen; omega

theorem mapRes_ok_le {α β : Type} {g : α → β} {r : Res α} {v : β} {rest : List Tok} {n : Nat}
    (hr : ∀ a, r = .ok (a, rest) → rest.length ≤ n) (h : mapRes g r = .ok (v, rest)) : rest.length ≤ n := by
  obtain ⟨a, ha, _⟩ := mapRes_ok h
  exact hr a ha

/-- **a statement consumes at least one token** -/
theorem parseStmt_lt {c : DCfg} {f limit : Nat} {ts : List Tok} {s : Stmt} {rest : List Tok}
    (h : parseStmt c f limit ts = .ok (s, rest)) : rest.length < ts.length := by
  cases limit with
  | zero => simp [parseStmt] at h
  | succ d =>
    unfold parseStmt at h
    cases ts with
    | nil => simp at h
    | cons t r =>
      simp only at h
      have hq : ∀ (x : Res Query) (g : Query → Stmt), x = parseQuery c.q f d (t :: r) →
          mapRes g x = .ok (s, rest) → rest.length < (t :: r).length := by
        intro x g hx hm
        obtain ⟨a, ha, _⟩ := mapRes_ok hm
        rw [hx] at ha; exact parseQuery_lt ha
      split at h
      · exact hq _ _ rfl h
      split at h
      · have := mapRes_ok_le (fun a ha => valuesQuery_le ha) h; simp; omega
      split at h
      · have := mapRes_ok_le (fun a ha => parseInsert_le ha) h; simp; omega
      split at h
      · have := mapRes_ok_le (fun a ha => parseUpdate_le ha) h; simp; omega
      split at h
      · have := mapRes_ok_le (fun a ha => parseDelete_le ha) h; simp; omega
      split at h
      · have := mapRes_ok_le (fun a ha => parseCreate_le ha) h; simp; omega
      split at h
      · have := mapRes_ok_le (fun a ha => parseDrop_le ha) h; simp; omega
      split at h
      · exact hq _ _ rfl h
      · simp at h
      · simp at h

-- ------------------------------------------------------------------ enough fuel: never `Err.fuel`
theorem dialectOpt_ne_fuel (ok : Bool) (t : Tok) (r : List Tok) : dialectOpt ok t r ≠ .error .fuel := by
  unfold dialectOpt
  repeat' split
  all_goals (simp; done)

theorem colOptionTail_ne_fuel (c : DCfg) (ts : List Tok) : colOptionTail c ts ≠ .error .fuel := by
  unfold colOptionTail
  repeat' split
  all_goals first
    | (simp; done)
    | exact dialectOpt_ne_fuel _ _ _

theorem commentTail_ne_fuel (kw : Tok) (ts : List Tok) : commentTail kw ts ≠ .error .fuel := by
  unfold commentTail
  split <;> simp

theorem ccTail_ne_fuel (o : ColOpt) (ts : List Tok) : ccTail o ts ≠ .error .fuel := by
  unfold ccTail
  split <;> simp

theorem rowBody_nofuel (c : DCfg) {f : Nat} (d : Nat) (rk ts : List Tok) (h : 2 * ts.length + 2 ≤ f) :
    rowBody c f d rk ts ≠ .error .fuel := by
  unfold rowBody
  split
  · simp
  · rename_i lp r hs
    have h1 := eatSym_len hs
    split
    · simp
    · split
      · nf_err commaSepE_nofuel _ _ (fun _ _ _ => parseE_le) f r (by omega)
          (fun ts' h' => parseE_nofuel c.q d ts' (by omega))
      · split <;> simp

theorem valuesRow_nofuel (c : DCfg) {f : Nat} (d : Nat) (ts : List Tok) (h : 2 * ts.length + 2 ≤ f) :
    valuesRow c f d ts ≠ .error .fuel := by
  unfold valuesRow
  have := kwTail_le DK.ROW ts
  exact rowBody_nofuel c d _ _ (by omega)

theorem valuesQuery_nofuel (c : DCfg) {f : Nat} (d : Nat) (kw : Tok) (ts : List Tok) (h : 2 * ts.length + 2 ≤ f) :
    valuesQuery c f d kw ts ≠ .error .fuel := by
  cases d with
  | zero => simp [valuesQuery]
  | succ d =>
    simp only [valuesQuery]
    split
    · nf_err commaSepE_nofuel _ _ (fun _ _ _ => valuesRow_le) f ts (by omega)
        (fun ts' h' => valuesRow_nofuel c d ts' (by omega))
    · rename_i rows r1 hr
      have h1 := commaSepE_le _ _ (fun _ _ _ => valuesRow_le) _ _ _ _ hr
      split
      · simp
      · split
        · nf_err queryTail_nofuel c.q d r1 (by omega)
        · simp

theorem parseSource_nofuel (c : DCfg) {f : Nat} (d : Nat) (ts : List Tok) (h : 2 * ts.length + 5 ≤ f) :
    parseSource c f d ts ≠ .error .fuel := by
  unfold parseSource
  split
  · rename_i kw r hk
    have h1 := eatKw_len hk
    split
    · nf_err valuesQuery_nofuel c d kw r (by omega)
    · simp
  · split
    · nf_err (qnofuel_all c.q f).1 d ts h
    · simp

theorem parenIds_nofuel (c : DCfg) {f : Nat} (ae : Bool) (ts : List Tok) (h : 2 * ts.length + 2 ≤ f) :
    parenIds c f ae ts ≠ .error .fuel := by
  unfold parenIds
  split
  · simp
  · rename_i lp r hs
    have h1 := eatSym_len hs
    split
    · simp
    · split
      · nf_err commaSepE_nofuel _ _ (fun _ _ _ => identElem_le) f r (by omega)
          (fun ts' _ => identElem_ne_fuel ts')
      · split <;> simp

theorem retPart_nofuel (c : DCfg) {f : Nat} (d : Nat) (ts : List Tok) (h : 2 * ts.length + 2 ≤ f) :
    retPart c f d ts ≠ .error .fuel := by
  unfold retPart
  split
  · rename_i kw r hk
    have h1 := eatKw_len hk
    split
    · nf_err commaSepE_nofuel _ _ (fun _ _ _ => selectItem_le) f r (by omega)
        (fun ts' h' => selectItem_nofuel c.q d ts' (by omega))
    · simp
  · simp

theorem insertBody_nofuel (c : DCfg) {f : Nat} (d : Nat) (ts : List Tok) (h : 2 * ts.length + 5 ≤ f) :
    insertBody c f d ts ≠ .error .fuel := by
  unfold insertBody
  split
  · simp
  · split
    · nf_err parenIds_nofuel c _ ts (by omega)
    · rename_i cols r1 hp
      have h1 := parenIds_le hp
      split
      · simp
      · split
        · simp
        · split
          · nf_err parseSource_nofuel c d r1 (by omega)
          · simp

theorem parseInsert_nofuel (c : DCfg) {f : Nat} (d : Nat) (kw : Tok) (ts : List Tok) (h : 2 * ts.length + 5 ≤ f) :
    parseInsert c f d kw ts ≠ .error .fuel := by
  unfold parseInsert
  have h0 := kwTail_le DK.INTO ts
  have h0' := kwTail_le DK.TABLE (kwTail DK.INTO ts).2
  split
  · simp
  split
  · simp
  split
  · nf_err nameElem_ne_fuel _
  · rename_i name r1 hn
    have h1 := nameElem_le hn
    split
    · simp
    split
    · simp
    split
    · nf_err insertBody_nofuel c d r1 (by omega)
    · rename_i cs r2 hb
      have h2 := insertBody_le hb
      split
      · simp
      · split
        · nf_err retPart_nofuel c d r2 (by omega)
        · simp

theorem factorPart_nofuel (c : QCfg) {f : Nat} (d : Nat) (ts : List Tok) (h : 2 * ts.length + 3 ≤ f) :
    factorPart c f d ts ≠ .error .fuel := by
  unfold factorPart
  split
  · simp
  split
  · nf_err factorHead_ne_fuel c ts
  · simp
  · rename_i lp r hfh
    have h1 := factorHead_lt hfh
    simp only at h1
    split
    · simp
    · rename_i hq; exact absurd hq ((qnofuel_all c f).1 _ _ (by omega))
    · simp
    · split
      · simp
      · split
        · simp
        · split <;> simp

theorem twj_nofuel (c : QCfg) (d : Nat) : ∀ (f : Nat) (conn : Conn) (ts : List Tok), 2 * ts.length + 4 ≤ f →
    twj c f d conn ts ≠ .error .fuel := by
  intro f
  induction f with
  | zero => intro conn ts h; omega
  | succ f ih =>
    intro conn ts hf
    simp only [twj]
    split
    · nf_err factorPart_nofuel c d ts (by omega)
    · rename_i fac r hfp
      have h1 := factorPart_lt hfp
      split
      · nf_err optCstr_nofuel c d _ r (by omega)
      · rename_i k ts1 hc
        have h2 := optCstr_le hc
        split
        · nf_err joinHead_ne_fuel ts1
        · simp
        · rename_i jk toks r2 hj
          have h3 := joinHead_lt hj
          split
          · nf_err ih _ r2 (by omega)
          · simp

theorem assignTarget_nofuel (c : DCfg) {f : Nat} (ts : List Tok) (h : 2 * ts.length + 2 ≤ f) :
    assignTarget c f ts ≠ .error .fuel := by
  unfold assignTarget
  split
  · rename_i lp r hs
    have h1 := eatSym_len hs
    split
    · nf_err commaSepE_nofuel _ _ (fun _ _ _ => nameElem_le) f r (by omega)
        (fun ts' _ => nameElem_ne_fuel ts')
    · split
      · simp
      · split <;> simp
  · split
    · nf_err nameElem_ne_fuel _
    · split <;> simp

theorem assignment_nofuel (c : DCfg) {f : Nat} (d : Nat) (ts : List Tok) (h : 2 * ts.length + 2 ≤ f) :
    assignment c f d ts ≠ .error .fuel := by
  unfold assignment
  split
  · nf_err assignTarget_nofuel c ts h
  · rename_i tg r ht
    have h1 := assignTarget_le ht
    split
    · simp
    · rename_i eq r1 hs
      have h2 := eatSym_len hs
      split
      · nf_err parseE_nofuel c.q d r1 (by omega)
      · simp

theorem updateFromPart_nofuel (c : DCfg) {f : Nat} (d : Nat) (ts : List Tok) (h : 2 * ts.length + 4 ≤ f) :
    updateFromPart c f d ts ≠ .error .fuel := by
  unfold updateFromPart
  split
  · simp
  · rename_i kw r hk
    have h1 := eatKw_len hk
    split
    · split
      · nf_err twj_nofuel c.q d f _ r (by omega)
      · simp
    · simp

theorem parseUpdate_nofuel (c : DCfg) {f : Nat} (d : Nat) (kw : Tok) (ts : List Tok) (h : 2 * ts.length + 4 ≤ f) :
    parseUpdate c f d kw ts ≠ .error .fuel := by
  unfold parseUpdate
  split
  · nf_err twj_nofuel c.q d f _ ts h
  · rename_i tbl r1 ht
    have h1 := twj_lt _ _ _ _ _ _ _ ht
    split
    · simp
    · rename_i setKw r2 hk
      have h2 := eatKw_len hk
      split
      · nf_err commaSepE_nofuel _ _ (fun _ _ _ => assignment_le) f r2 (by omega)
          (fun ts' h' => assignment_nofuel c d ts' (by omega))
      · rename_i as r3 ha
        have h3 := commaSepE_le _ _ (fun _ _ _ => assignment_le) _ _ _ _ ha
        split
        · nf_err updateFromPart_nofuel c d r3 (by omega)
        · rename_i fr r4 hf
          have h4 := updateFromPart_le hf
          split
          · nf_err kwExprPart_nofuel c.q d _ r4 (by omega)
          · rename_i w r5 hw
            have h5 := kwExprPart_le hw
            split
            · nf_err retPart_nofuel c d r5 (by omega)
            · simp

theorem deleteHead_nofuel (c : DCfg) {f : Nat} (ts : List Tok) (h : 2 * ts.length + 2 ≤ f) :
    deleteHead c f ts ≠ .error .fuel := by
  unfold deleteHead
  split
  · simp
  · split
    · simp
    · split
      · nf_err commaSepE_nofuel _ _ (fun _ _ _ => nameElem_le) f ts (by omega)
          (fun ts' _ => nameElem_ne_fuel ts')
      · split
        · simp
        · split <;> simp

theorem usingPart_nofuel (c : DCfg) {f : Nat} (d : Nat) (ts : List Tok) (h : 2 * ts.length + 4 ≤ f) :
    usingPart c f d ts ≠ .error .fuel := by
  unfold usingPart
  split
  · rename_i kw r hk
    have h1 := eatKw_len hk
    exact (qnofuel_all c.q f).2.2.2.2.1 d _ r (by omega)
  · simp

theorem deleteOrderPart_nofuel (c : DCfg) {f : Nat} (d : Nat) (ts : List Tok) (h : 2 * ts.length + 2 ≤ f) :
    deleteOrderPart c f d ts ≠ .error .fuel := by
  unfold deleteOrderPart
  split
  · rename_i kws r hk
    have h1 := eatKws_le hk
    split
    · nf_err commaSepE_nofuel _ _ (fun _ _ _ => orderByElem_le) f r (by omega)
        (fun ts' h' => orderByElem_nofuel c.q d ts' (by omega))
    · simp
  · simp

theorem deleteLimitPart_nofuel (c : DCfg) {f : Nat} (d : Nat) (ts : List Tok) (h : 2 * ts.length + 2 ≤ f) :
    deleteLimitPart c f d ts ≠ .error .fuel := by
  unfold deleteLimitPart
  split
  · rename_i kw r hk
    have h1 := eatKw_len hk
    split
    · simp
    · split
      · nf_err parseE_nofuel c.q d r (by omega)
      · simp
  · simp

theorem parseDelete_nofuel (c : DCfg) {f : Nat} (d : Nat) (kw : Tok) (ts : List Tok) (h : 2 * ts.length + 4 ≤ f) :
    parseDelete c f d kw ts ≠ .error .fuel := by
  unfold parseDelete
  split
  · nf_err deleteHead_nofuel c ts (by omega)
  · rename_i hd r1 hh
    have h1 := deleteHead_lt hh
    split
    · nf_err (qnofuel_all c.q f).2.2.2.2.1 d _ r1 (by omega)
    · rename_i frm r2 hf
      have h2 := fromItems_le hf
      split
      · nf_err usingPart_nofuel c d r2 (by omega)
      · rename_i us r3 hu
        have h3 := usingPart_le hu
        split
        · nf_err kwExprPart_nofuel c.q d _ r3 (by omega)
        · rename_i w r4 hw
          have h4 := kwExprPart_le hw
          split
          · nf_err retPart_nofuel c d r4 (by omega)
          · rename_i ret r5 hr
            have h5 := retPart_le hr
            split
            · nf_err deleteOrderPart_nofuel c d r5 (by omega)
            · rename_i ob r6 ho
              have h6 := deleteOrderPart_le ho
              split
              · nf_err deleteLimitPart_nofuel c d r6 (by omega)
              · simp

theorem colType_nofuel (c : DCfg) {f : Nat} (d : Nat) (ts : List Tok) (h : ts.length + 2 ≤ f) :
    colType c f d ts ≠ .error .fuel := by
  unfold colType
  cases hf : typeHeadForeign c ts with
  | true => simp
  | false =>
    simp only [Bool.false_eq_true, if_false]
    split
    · rename_i e he
      intro hc; simp at hc
      have := dtErr_fuel hc; subst this
      exact SqlVerif.DTy.parseDataType_nonrec_nofuel c.dt f d _ (toDTok_nonrec c ts hf) (by simpa using h) he
    · simp

theorem colTypePart_nofuel (c : DCfg) {f : Nat} (d : Nat) (ts : List Tok) (h : ts.length + 2 ≤ f) :
    colTypePart c f d ts ≠ .error .fuel := by
  unfold colTypePart
  split
  · simp
  · exact colType_nofuel c d ts h

theorem checkTail_nofuel (c : DCfg) {f : Nat} (d : Nat) (kw : Tok) (ts : List Tok) (h : 2 * ts.length + 2 ≤ f) :
    checkTail c f d kw ts ≠ .error .fuel := by
  unfold checkTail
  split
  · simp
  · rename_i lp r hs
    have h1 := eatSym_len hs
    split
    · nf_err parseE_nofuel c.q d r (by omega)
    · split <;> simp

theorem referencesTail_nofuel (c : DCfg) {f : Nat} (kw : Tok) (ts : List Tok) (h : 2 * ts.length + 2 ≤ f) :
    referencesTail c f kw ts ≠ .error .fuel := by
  unfold referencesTail
  split
  · nf_err nameElem_ne_fuel _
  · rename_i name r hn
    have h1 := nameElem_le hn
    split
    · simp
    · split
      · nf_err parenIds_nofuel c false r (by omega)
      · split <;> simp

theorem defaultTail_nofuel (c : DCfg) {f : Nat} (d : Nat) (kw : Tok) (ts : List Tok) (h : 2 * ts.length + 2 ≤ f) :
    defaultTail c f d kw ts ≠ .error .fuel := by
  unfold defaultTail
  split
  · nf_err parseE_nofuel c.q d ts h
  · simp

theorem colOption_nofuel (c : DCfg) {f : Nat} (d : Nat) (ts : List Tok) (h : 2 * ts.length + 2 ≤ f) :
    colOption c f d ts ≠ .error .fuel := by
  unfold colOption
  repeat' split
  all_goals first
    | (simp; done)
    | exact colOptionTail_ne_fuel _ _
    | exact commentTail_ne_fuel _ _
    | exact ccTail_ne_fuel _ _
    | (rename_i hk; have h1 := eatKw_len hk; exact defaultTail_nofuel c d _ _ (by omega))
    | (rename_i hk; have h1 := eatKw_len hk; exact checkTail_nofuel c d _ _ (by omega))
    | (rename_i hk; have h1 := eatKw_len hk; exact referencesTail_nofuel c _ _ (by omega))

theorem colOpts_nofuel (c : DCfg) {f : Nat} (d : Nat) : ∀ (n : Nat) (ts : List Tok), ts.length + 1 ≤ n →
    2 * ts.length + 2 ≤ f → colOpts c f d n ts ≠ .error .fuel := by
  intro n
  induction n with
  | zero => intro ts h; omega
  | succ n ih =>
    intro ts hn hf
    simp only [colOpts]
    split
    · simp
    · split
      · nf_err colOption_nofuel c d ts hf
      · split <;> simp
      · rename_i o r ho
        have h1 := colOption_opt_lt ho
        split
        · nf_err ih r (by omega) (by omega)
        · simp

theorem columnDef_nofuel (c : DCfg) {f : Nat} (d : Nat) (ts : List Tok) (h : 2 * ts.length + 2 ≤ f) :
    columnDef c f d ts ≠ .error .fuel := by
  unfold columnDef
  split
  · nf_err identElem_ne_fuel ts
  · rename_i name r hi
    have h1 := identElem_le hi
    split
    · nf_err colTypePart_nofuel c d r (by omega)
    · rename_i ty r1 ht
      have h2 := colTypePart_le ht
      split
      · simp
      · split
        · nf_err colOpts_nofuel c d f r1 (by omega) (by omega)
        · simp

theorem colLoop_nofuel (c : DCfg) {f : Nat} (d : Nat) : ∀ (n : Nat) (ts : List Tok), ts.length + 1 ≤ n →
    2 * ts.length + 2 ≤ f → colLoop c f d n ts ≠ .error .fuel := by
  intro n
  induction n with
  | zero => intro ts h; omega
  | succ n ih =>
    intro ts hn hf
    simp only [colLoop]
    split
    · simp
    split
    · simp
    split
    · nf_err columnDef_nofuel c d ts hf
    · rename_i cd r1 hc
      have h1 := columnDef_lt hc
      split
      · simp
      · simp
      · rename_i cm r2 he
        have h2 : r2.length ≤ r1.length := by len_of colEnd_more _ _ _ _ he
        split
        · nf_err ih r2 (by omega) (by omega)
        · simp

theorem parseColumns_nofuel (c : DCfg) {f : Nat} (d : Nat) (ts : List Tok) (h : 2 * ts.length + 2 ≤ f) :
    parseColumns c f d ts ≠ .error .fuel := by
  unfold parseColumns
  split
  · simp
  · rename_i lp r hs
    have h1 := eatSym_len hs
    split
    · simp
    · split
      · nf_err colLoop_nofuel c d f r (by omega) (by omega)
      · simp

theorem parseCreate_nofuel (c : DCfg) {f : Nat} (d : Nat) (kw : Tok) (ts : List Tok) (h : 2 * ts.length + 2 ≤ f) :
    parseCreate c f d kw ts ≠ .error .fuel := by
  unfold parseCreate
  have h0 := tempTail_le ts
  split
  · simp
  split
  · simp
  split
  · simp
  split
  · split <;> simp
  · rename_i tk r0 hk
    have h1 := eatKw_len hk
    have h2 := kwsTail_le [DK.IF, DK.NOT, DK.EXISTS] r0
    split
    · nf_err nameElem_ne_fuel _
    · rename_i name r1 hn
      have h3 := nameElem_le hn
      split
      · simp
      split
      · simp
      split
      · nf_err parseColumns_nofuel c d r1 (by omega)
      · split <;> simp

theorem parseDrop_nofuel (c : DCfg) {f : Nat} (kw : Tok) (ts : List Tok) (h : 2 * ts.length + 2 ≤ f) :
    parseDrop c f kw ts ≠ .error .fuel := by
  unfold parseDrop
  split
  · simp
  · split
    · split <;> simp
    · rename_i tk r0 hk
      have h1 := eatKw_len hk
      have h2 := kwsTail_le [DK.IF, DK.EXISTS] r0
      split
      · nf_err commaSepE_nofuel _ _ (fun _ _ _ => nameElem_le) f _ (by omega)
          (fun ts' _ => nameElem_ne_fuel ts')
      · split
        · simp
        · split <;> simp

theorem mapRes_ne {α β : Type} (g : α → β) {x : Res α} {e : Err} (h : x ≠ .error e) : mapRes g x ≠ .error e := by
  unfold mapRes
  split
  · rename_i er; intro hc; simp at hc; subst hc; exact h rfl
  · simp

/-- **the statement parser never stalls**: `2 n + 5` fuel for `n` tokens -/
theorem parseStmt_nofuel (c : DCfg) {f : Nat} (limit : Nat) (ts : List Tok) (h : 2 * ts.length + 5 ≤ f) :
    parseStmt c f limit ts ≠ .error .fuel := by
  cases limit with
  | zero => simp [parseStmt]
  | succ d =>
    unfold parseStmt
    cases ts with
    | nil => simp
    | cons t r =>
      simp only
      simp only [List.length_cons] at h
      split
      · exact mapRes_ne _ ((qnofuel_all c.q f).1 _ _ (by simp; omega))
      split
      · exact mapRes_ne _ (valuesQuery_nofuel c d _ _ (by omega))
      split
      · exact mapRes_ne _ (parseInsert_nofuel c d _ _ (by omega))
      split
      · exact mapRes_ne _ (parseUpdate_nofuel c d _ _ (by omega))
      split
      · exact mapRes_ne _ (parseDelete_nofuel c d _ _ (by omega))
      split
      · exact mapRes_ne _ (parseCreate_nofuel c d _ _ (by omega))
      split
      · exact mapRes_ne _ (parseDrop_nofuel c _ _ (by omega))
      split
      · exact mapRes_ne _ ((qnofuel_all c.q f).1 _ _ (by simp; omega))
      · simp
      · simp

/-- the loop of `parse_statements` never runs out of its own fuel, for any statement fuel -/
theorem parseScript_loop_nofuel (c : DCfg) (f limit : Nat) (ts : List Tok) :
    parseScript c f limit ts ≠ .error .fuel :=
  SqlVerif.Stmts.loop_nofuel stmtClass _ (fun _ _ _ h => parseStmt_lt h) _ _ _ _ (Nat.le_refl _)

theorem parseScript_nofuel (c : DCfg) {f : Nat} (limit : Nat) (ts : List Tok) (h : 2 * ts.length + 5 ≤ f) :
    parseScript c f limit ts ≠ .error (.stmt .fuel) := by
  intro hc
  obtain ⟨ts', h1, h2⟩ := SqlVerif.Stmts.loop_stmt_err stmtClass _
    (fun _ _ _ h => Nat.le_of_lt (parseStmt_lt h)) _ _ _ _ _ hc
  exact parseStmt_nofuel c limit ts' (by omega) h2

end SqlVerif.Dml

import SqlVerif.Lemmas.QueryFaithful
/-!
Every tree the query parser builds is well formed (`Query.WF`, `Lemmas/QueryFaithful.lean`): every
keyword slot holds its keyword, every separator slot a comma, every expression is a faithful parse
result of the expression parser.  Same structure as `query_yield_all`.
-/
namespace SqlVerif.Query
open SqlVerif.Pratt SqlVerif.Gen
open SqlVerif.SetClimb (Op SQuant precOf)
set_option linter.unusedSimpArgs false

theorem parseE_wf (c : QCfg) (f d : Nat) (ts : List Tok) (e : Expr) (rest : List Tok)
    (h : parseE c f d ts = .ok (e, rest)) : ExprWF e :=
  fun hp => (faithful_all c.e f).1 d _ ts e rest h hp

theorem eatKws_isKwL (ks : List Nat) : ∀ (ts ops rest : List Tok), eatKws ts ks = some (ops, rest) → isKwL ops ks := by
  induction ks with
  | nil => intro ts ops rest h; simp [eatKws] at h; simp [h.1, isKwL]
  | cons k ks ih =>
    intro ts ops rest h
    unfold eatKws at h
    split at h
    · simp at h
    · rename_i t r hk
      split at h
      · simp at h
      · rename_i ops' rest' hr
        simp at h; obtain ⟨rfl, rfl⟩ := h
        exact ⟨((eatKw_some_iff _ _ _ _).1 hk).2, ih _ _ _ hr⟩

theorem optAlias_wf (res : List Nat) (ts al rest : List Tok) (h : optAlias res ts = .ok (al, rest)) : aliasWF al := by
  unfold optAlias at h
  split at h
  · rename_i asT r hk
    have := (eatKw_some_iff _ _ _ _).1 hk
    split at h
    · simp at h
    · split at h
      · simp at h; obtain ⟨rfl, rfl⟩ := h
        exact Or.inr (Or.inr ⟨_, _, rfl, this.2⟩)
      · simp at h
  · repeat' split at h
    all_goals first
      | (simp at h; done)
      | (simp at h; obtain ⟨rfl, rfl⟩ := h; first | exact Or.inl rfl | exact Or.inr (Or.inl ⟨_, rfl⟩))

theorem optTableAlias_wf (ts al rest : List Tok) (h : optTableAlias ts = .ok (al, rest)) : aliasWF al := by
  unfold optTableAlias at h
  split at h
  · simp at h
  · rename_i al' r ha
    have := optAlias_wf _ _ _ _ ha
    split at h
    · simp at h
    · simp at h; obtain ⟨rfl, rfl⟩ := h; exact this

theorem commaSepE_wf {α : Type} (tc : Bool) (elem : List Tok → Res α) (P : α → Prop)
    (hel : ∀ ts v rest, elem ts = .ok (v, rest) → P v) :
    ∀ (n : Nat) (ts : List Tok) (vs : Sep α) (rest : List Tok),
      commaSepE tc elem n ts = .ok (vs, rest) → sepWF P vs ∧ vs ≠ [] := by
  intro n
  induction n with
  | zero => intro ts vs rest h; simp [commaSepE] at h
  | succ n ih =>
    intro ts vs rest h
    simp only [commaSepE] at h
    split at h
    · simp at h
    · rename_i v r1 he
      have h1 := hel _ _ _ he
      split at h
      · rename_i r2
        split at h
        · simp at h; obtain ⟨rfl, rfl⟩ := h
          exact ⟨⟨h1, Or.inr rfl⟩, by simp⟩
        · split at h
          · simp at h
          · rename_i vs' r3 hr
            obtain ⟨h2, h3⟩ := ih _ _ _ hr
            simp at h; obtain ⟨rfl, rfl⟩ := h
            cases vs' with
            | nil => exact absurd rfl h3
            | cons y r => exact ⟨⟨h1, rfl, h2⟩, by simp⟩
      · simp at h; obtain ⟨rfl, rfl⟩ := h
        exact ⟨⟨h1, Or.inl rfl⟩, by simp⟩

theorem itemViaExpr_wf (c : QCfg) (f d : Nat) (ts : List Tok) (v : SelectItem) (rest : List Tok)
    (h : itemViaExpr c f d ts = .ok (v, rest)) : v.WF := by
  unfold itemViaExpr at h
  split at h
  · simp at h
  · rename_i e r1 he
    split at h
    · simp at h
    · split at h
      · simp at h
      · rename_i al r2 ha
        simp at h; obtain ⟨rfl, rfl⟩ := h
        exact ⟨parseE_wf _ _ _ _ _ _ he, optAlias_wf _ _ _ _ ha⟩

theorem selectItem_wf (c : QCfg) (f d : Nat) (ts : List Tok) (v : SelectItem) (rest : List Tok)
    (h : selectItem c f d ts = .ok (v, rest)) : v.WF := by
  unfold selectItem at h
  split at h
  · rename_i t r
    split at h
    · split at h
      · simp at h
      · simp at h; obtain ⟨rfl, rfl⟩ := h; rfl
    · split at h
      · split at h
        · split at h
          · simp at h
          · simp at h; obtain ⟨rfl, rfl⟩ := h; trivial
        · exact itemViaExpr_wf _ _ _ _ _ _ h
        · simp at h
      · exact itemViaExpr_wf _ _ _ _ _ _ h
    · split at h
      · split at h
        · split at h
          · simp at h
          · simp at h; obtain ⟨rfl, rfl⟩ := h; trivial
        · exact itemViaExpr_wf _ _ _ _ _ _ h
        · simp at h
      · exact itemViaExpr_wf _ _ _ _ _ _ h
    · exact itemViaExpr_wf _ _ _ _ _ _ h
  · exact itemViaExpr_wf _ _ _ _ _ _ h

theorem groupByElem_wf (c : QCfg) (f d : Nat) (ts : List Tok) (e : Expr) (rest : List Tok)
    (h : groupByElem c f d ts = .ok (e, rest)) : ExprWF e := by
  unfold groupByElem at h
  split at h
  · simp at h
  · exact parseE_wf _ _ _ _ _ _ h

theorem dirTail_wf (ts : List Tok) : dirWF (dirTail ts).1 := by
  unfold dirTail
  split
  · rename_i t r hk; exact Or.inr ⟨t, rfl, Or.inl ((eatKw_some_iff _ _ _ _).1 hk).2⟩
  · split
    · rename_i t r hk; exact Or.inr ⟨t, rfl, Or.inr ((eatKw_some_iff _ _ _ _).1 hk).2⟩
    · exact Or.inl rfl

theorem rowsTail_wf (ts : List Tok) : rowsWF (rowsTail ts).1 := by
  unfold rowsTail
  split
  · rename_i t r hk; exact Or.inr ⟨t, rfl, Or.inl ((eatKw_some_iff _ _ _ _).1 hk).2⟩
  · split
    · rename_i t r hk; exact Or.inr ⟨t, rfl, Or.inr ((eatKw_some_iff _ _ _ _).1 hk).2⟩
    · exact Or.inl rfl

theorem isKwL2 {ops : List Tok} {k1 k2 : Nat} (h : isKwL ops [k1, k2]) :
    ∃ a b, ops = [a, b] ∧ a.isKw k1 = true ∧ b.isKw k2 = true := by
  match ops, h with
  | [a, b], h => exact ⟨a, b, rfl, h.1, h.2.1⟩

theorem nullsTail_wf (ts : List Tok) : nullsWF (nullsTail ts).1 := by
  unfold nullsTail
  split
  · rename_i p hk
    obtain ⟨a, b, h1, h2, h3⟩ := isKwL2 (eatKws_isKwL _ _ _ _ hk)
    exact Or.inr ⟨a, b, h1, h2, Or.inl h3⟩
  · split
    · rename_i p hk
      obtain ⟨a, b, h1, h2, h3⟩ := isKwL2 (eatKws_isKwL _ _ _ _ hk)
      exact Or.inr ⟨a, b, h1, h2, Or.inr h3⟩
    · exact Or.inl rfl

theorem orderByElem_wf (c : QCfg) (f d : Nat) (ts : List Tok) (o : OrderByExpr) (rest : List Tok)
    (h : orderByElem c f d ts = .ok (o, rest)) : o.WF := by
  unfold orderByElem at h
  split at h
  · simp at h
  · rename_i e r0 he
    split at h
    · simp at h
    · simp at h; obtain ⟨rfl, rfl⟩ := h
      exact ⟨parseE_wf _ _ _ _ _ _ he, dirTail_wf _, nullsTail_wf _⟩

theorem limPart_wf (c : QCfg) (f d : Nat) (cs : List LimClause) (ts : List Tok) (cs' : List LimClause)
    (rest : List Tok) (hcs : ∀ cl ∈ cs, cl.WF) (h : limPart c f d cs ts = .ok (cs', rest)) : ∀ cl ∈ cs', cl.WF := by
  unfold limPart at h
  split at h
  · split at h
    · rename_i kw r hk
      have hk' := (eatKw_some_iff _ _ _ _).1 hk
      split at h
      · simp at h; obtain ⟨rfl, rfl⟩ := h
        intro cl hcl
        simp only [List.mem_append, List.mem_singleton] at hcl
        rcases hcl with hcl | rfl
        · exact hcs _ hcl
        · trivial
      · split at h
        · simp at h
        · rename_i e r' he
          simp at h; obtain ⟨rfl, rfl⟩ := h
          intro cl hcl
          simp only [List.mem_append, List.mem_singleton] at hcl
          rcases hcl with hcl | rfl
          · exact hcs _ hcl
          · exact ⟨hk'.2, parseE_wf _ _ _ _ _ _ he⟩
    · simp at h; obtain ⟨rfl, rfl⟩ := h; exact hcs
  · simp at h; obtain ⟨rfl, rfl⟩ := h; exact hcs

theorem offPart_wf (c : QCfg) (f d : Nat) (cs : List LimClause) (ts : List Tok) (cs' : List LimClause)
    (rest : List Tok) (hcs : ∀ cl ∈ cs, cl.WF) (h : offPart c f d cs ts = .ok (cs', rest)) : ∀ cl ∈ cs', cl.WF := by
  unfold offPart at h
  split at h
  · split at h
    · rename_i kw r hk
      have hk' := (eatKw_some_iff _ _ _ _).1 hk
      split at h
      · simp at h
      · rename_i e r' he
        simp at h; obtain ⟨rfl, rfl⟩ := h
        intro cl hcl
        simp only [List.mem_append, List.mem_singleton] at hcl
        rcases hcl with hcl | rfl
        · exact hcs _ hcl
        · exact ⟨hk'.2, parseE_wf _ _ _ _ _ _ he, rowsTail_wf _⟩
    · simp at h; obtain ⟨rfl, rfl⟩ := h; exact hcs
  · simp at h; obtain ⟨rfl, rfl⟩ := h; exact hcs

theorem commaPart_wf (c : QCfg) (f d : Nat) (cs : List LimClause) (ts : List Tok) (cs' : List LimClause)
    (rest : List Tok) (hcs : ∀ cl ∈ cs, cl.WF) (h : commaPart c f d cs ts = .ok (cs', rest)) : ∀ cl ∈ cs', cl.WF := by
  unfold commaPart at h
  split at h
  · split at h
    · split at h
      · simp at h
      · simp at h; obtain ⟨rfl, rfl⟩ := h
        intro cl hcl
        simp only [List.mem_append, List.mem_singleton] at hcl
        rcases hcl with hcl | rfl
        · exact hcs _ hcl
        · trivial
    · simp at h; obtain ⟨rfl, rfl⟩ := h; exact hcs
  · simp at h; obtain ⟨rfl, rfl⟩ := h; exact hcs

theorem limStep_wf (c : QCfg) (f d : Nat) (cs : List LimClause) (ts : List Tok) (cs' : List LimClause)
    (rest : List Tok) (hcs : ∀ cl ∈ cs, cl.WF) (h : limStep c f d cs ts = .ok (cs', rest)) : ∀ cl ∈ cs', cl.WF := by
  unfold limStep at h
  split at h
  · simp at h
  · rename_i cs1 ts1 h1
    split at h
    · simp at h
    · rename_i cs2 ts2 h2
      exact commaPart_wf _ _ _ _ _ _ _ (offPart_wf _ _ _ _ _ _ _ (limPart_wf _ _ _ _ _ _ _ hcs h1) h2) h

theorem queryTail_wf (c : QCfg) (f d : Nat) (ts : List Tok) (qt : QueryTail) (rest : List Tok)
    (h : queryTail c f d ts = .ok (qt, rest)) : qt.WF := by
  unfold queryTail at h
  split at h
  · simp at h
  · rename_i ko ts1 ho
    split at h
    · simp at h
    · rename_i cs1 ts2 h1
      split at h
      · simp at h
      · rename_i cs2 ts3 h2
        split at h
        · simp at h
        · simp at h; obtain ⟨rfl, rfl⟩ := h
          have hl := limStep_wf _ _ _ _ _ _ _ (limStep_wf _ _ _ _ _ _ _ (by intro cl hcl; cases hcl) h1) h2
          unfold orderPart at ho
          split at ho
          · rename_i kws r hk
            split at ho
            · simp at ho
            · rename_i os r' hl'
              obtain ⟨hs, hne⟩ := commaSepE_wf _ _ OrderByExpr.WF (orderByElem_wf c f d) _ _ _ _ hl'
              split at ho
              · simp at ho
              · simp at ho; obtain ⟨rfl, rfl⟩ := ho
                exact ⟨Or.inr ⟨eatKws_isKwL _ _ _ _ hk, hne⟩, hs, hl⟩
          · simp at ho; obtain ⟨rfl, rfl⟩ := ho
            exact ⟨Or.inl ⟨rfl, rfl⟩, trivial, hl⟩

theorem isKwL1 {t : Tok} {k : Nat} (h : t.isKw k = true) : isKwL [t] [k] := ⟨h, trivial⟩

theorem setQuant_wf (ts : List Tok) : quantWF (setQuant ts).1 (setQuant ts).2.1 := by
  unfold setQuant
  split
  · rename_i ops r hk; exact eatKws_isKwL _ _ _ _ hk
  · split
    · rename_i ops r hk; exact eatKws_isKwL _ _ _ _ hk
    · split
      · rename_i a r hk
        have ha := (eatKw_some_iff _ _ _ _).1 hk
        split
        · rename_i ops r' hk2; exact ⟨ha.2, eatKws_isKwL _ _ _ _ hk2⟩
        · exact isKwL1 ha.2
      · split
        · rename_i t r hk; exact isKwL1 ((eatKw_some_iff _ _ _ _).1 hk).2
        · rfl

theorem leftRightTail_wf (k0 : JoinKind) (t : Tok) (r0 : List Tok) (kn : Nat) (ht : t.isKw kn = true)
    (k : JoinKind) (toks r : List Tok) (h : leftRightTail k0 t r0 = .ok (.join k toks r)) :
    k = k0 ∧ (isKwL toks [kn, K.JOIN] ∨ isKwL toks [kn, K.OUTER, K.JOIN]) := by
  unfold leftRightTail at h
  split at h
  · rename_i t2 r2 h2
    split at h
    · rename_i t3 r3 h3
      simp at h; obtain ⟨rfl, rfl, rfl⟩ := h
      exact ⟨rfl, Or.inr ⟨ht, ((eatKw_some_iff _ _ _ _).1 h2).2, ((eatKw_some_iff _ _ _ _).1 h3).2, trivial⟩⟩
    · simp at h
  · split at h
    · simp at h
    · split at h
      · rename_i t2 r2 h2
        simp at h; obtain ⟨rfl, rfl, rfl⟩ := h
        exact ⟨rfl, Or.inl ⟨ht, ((eatKw_some_iff _ _ _ _).1 h2).2, trivial⟩⟩
      · simp at h

theorem joinHead_wf (ts : List Tok) (k : JoinKind) (toks r : List Tok)
    (h : joinHead ts = .ok (.join k toks r)) : joinToksWF k toks := by
  unfold joinHead at h
  split at h
  · simp at h
  split at h
  · rename_i t1 r1 h1
    split at h
    · rename_i t2 r2 h2
      simp at h; obtain ⟨rfl, rfl, rfl⟩ := h
      exact ⟨((eatKw_some_iff _ _ _ _).1 h1).2, ((eatKw_some_iff _ _ _ _).1 h2).2, trivial⟩
    · split at h <;> simp at h
  split at h
  · split at h <;> simp at h
  split at h
  · simp at h
  split at h
  · rename_i t1 r1 h1
    split at h
    · rename_i t2 r2 h2
      simp at h; obtain ⟨rfl, rfl, rfl⟩ := h
      exact Or.inr ⟨((eatKw_some_iff _ _ _ _).1 h1).2, ((eatKw_some_iff _ _ _ _).1 h2).2, trivial⟩
    · simp at h
  split at h
  · rename_i t1 r1 h1
    simp at h; obtain ⟨rfl, rfl, rfl⟩ := h
    exact Or.inl (isKwL1 ((eatKw_some_iff _ _ _ _).1 h1).2)
  split at h
  · rename_i t1 r1 h1
    obtain ⟨rfl, hh⟩ := leftRightTail_wf _ _ _ _ ((eatKw_some_iff _ _ _ _).1 h1).2 _ _ _ h
    exact hh
  split at h
  · rename_i t1 r1 h1
    obtain ⟨rfl, hh⟩ := leftRightTail_wf _ _ _ _ ((eatKw_some_iff _ _ _ _).1 h1).2 _ _ _ h
    exact hh
  split at h
  · rename_i t1 r1 h1
    split at h
    · rename_i t2 r2 h2
      split at h
      · rename_i t3 r3 h3
        simp at h; obtain ⟨rfl, rfl, rfl⟩ := h
        exact Or.inr ⟨((eatKw_some_iff _ _ _ _).1 h1).2, ((eatKw_some_iff _ _ _ _).1 h2).2,
          ((eatKw_some_iff _ _ _ _).1 h3).2, trivial⟩
      · simp at h
    · split at h
      · rename_i t2 r2 h2
        simp at h; obtain ⟨rfl, rfl, rfl⟩ := h
        exact Or.inl ⟨((eatKw_some_iff _ _ _ _).1 h1).2, ((eatKw_some_iff _ _ _ _).1 h2).2, trivial⟩
      · simp at h
  · simp at h

theorem identElem_wf (ts : List Tok) (t : Tok) (rest : List Tok) (_ : identElem ts = .ok (t, rest)) : True := trivial

theorem joinCstr_wf (c : QCfg) (f d : Nat) (ts : List Tok) (k : JoinCstr) (rest : List Tok)
    (h : joinCstr c f d ts = .ok (k, rest)) : k.WF := by
  unfold joinCstr at h
  split at h
  · rename_i kw r hk
    split at h
    · simp at h
    · rename_i e r' he
      simp at h; obtain ⟨rfl, rfl⟩ := h
      exact ⟨((eatKw_some_iff _ _ _ _).1 hk).2, parseE_wf _ _ _ _ _ _ he⟩
  · split at h
    · rename_i kw r hk
      split at h
      · rename_i r1
        split at h
        · simp at h
        · rename_i cols r2 hl
          have := (commaSepE_wf _ _ (fun _ => True) (fun _ _ _ _ => trivial) _ _ _ _ hl).1
          split at h
          · simp at h; obtain ⟨rfl, rfl⟩ := h
            exact ⟨((eatKw_some_iff _ _ _ _).1 hk).2, rfl, rfl, this⟩
          · simp at h
      · simp at h
    · simp at h; obtain ⟨rfl, rfl⟩ := h; trivial

theorem optCstr_wf (c : QCfg) (f d : Nat) (b : Bool) (ts : List Tok) (k : JoinCstr) (rest : List Tok)
    (h : optCstr c f d b ts = .ok (k, rest)) : k.WF := by
  unfold optCstr at h
  split at h
  · exact joinCstr_wf _ _ _ _ _ _ h
  · simp at h; obtain ⟨rfl, rfl⟩ := h; trivial

theorem allOrDistinct_wf (ts : List Tok) (qd : List Tok × Bool) (rest : List Tok)
    (h : allOrDistinct ts = .ok (qd, rest)) : qd.2 = true → ∃ t, qd.1 = [t] ∧ t.isKw K.DISTINCT = true := by
  unfold allOrDistinct at h
  split at h
  · simp at h; obtain ⟨rfl, rfl⟩ := h; intro hh; cases hh
  · rename_i t r hk
    split at h
    · simp at h
    · split at h
      · simp at h
      · simp at h; obtain ⟨rfl, rfl⟩ := h
        intro _
        exact ⟨t, rfl, ((eatKw_some_iff _ _ _ _).1 hk).2⟩

theorem kwExprPart_wf (c : QCfg) (f d k : Nat) (ts : List Tok) (w : List Tok × Option Expr) (rest : List Tok)
    (h : kwExprPart c f d k ts = .ok (w, rest)) : kwExprWF k w.1 w.2 := by
  unfold kwExprPart at h
  split at h
  · rename_i kw r hk
    split at h
    · simp at h
    · rename_i e r' he
      simp at h; obtain ⟨rfl, rfl⟩ := h
      exact Or.inr ⟨kw, e, rfl, ((eatKw_some_iff _ _ _ _).1 hk).2, rfl, parseE_wf _ _ _ _ _ _ he⟩
  · simp at h; obtain ⟨rfl, rfl⟩ := h; exact Or.inl ⟨rfl, rfl⟩

theorem selTail_wf (c : QCfg) (f d : Nat) (ts : List Tok) (tl : SelTail) (rest : List Tok)
    (h : selTail c f d ts = .ok (tl, rest)) : tl.WF := by
  unfold selTail at h
  split at h
  · simp at h
  · split at h
    · simp at h
    · rename_i w ts1 hw
      have h1 := kwExprPart_wf _ _ _ _ _ _ _ hw
      split at h
      · simp at h
      · rename_i g ts2 hg
        split at h
        · simp at h
        · split at h
          · simp at h
          · rename_i hv ts3 hh
            have h3 := kwExprPart_wf _ _ _ _ _ _ _ hh
            split at h
            · simp at h
            · simp at h; obtain ⟨rfl, rfl⟩ := h
              refine ⟨h1, ?_, ?_, h3⟩
              all_goals
                unfold groupPart at hg
                split at hg
                · rename_i kws r hk
                  split at hg
                  · simp at hg
                  · split at hg
                    · simp at hg
                    · rename_i es r' hl
                      obtain ⟨hs, hne⟩ := commaSepE_wf _ _ ExprWF (groupByElem_wf c f d) _ _ _ _ hl
                      split at hg
                      · simp at hg
                      · simp at hg; obtain ⟨rfl, rfl⟩ := hg
                        first | exact Or.inr ⟨eatKws_isKwL _ _ _ _ hk, hne⟩ | exact hs
                · simp at hg; obtain ⟨rfl, rfl⟩ := hg
                  first | exact Or.inl ⟨rfl, rfl⟩ | trivial

theorem selHead_wf (c : QCfg) (f d : Nat) (sel : Tok) (hsel : sel.isKw K.SELECT = true) (ts : List Tok) (hd : SelHead)
    (rest : List Tok) (h : selHead c f d sel ts = .ok (hd, rest)) : hd.WF := by
  unfold selHead at h
  split at h
  · simp at h
  · split at h
    · simp at h
    · rename_i qd ts1 hq
      have h1 := allOrDistinct_wf _ _ _ hq
      split at h
      · simp at h
      · split at h
        · simp at h
        · rename_i proj ts2 hp
          have h2 := (commaSepE_wf _ _ SelectItem.WF (selectItem_wf _ f d) _ _ _ _ hp).1
          split at h
          · simp at h
          · simp at h; obtain ⟨rfl, rfl⟩ := h
            exact ⟨hsel, h1, h2⟩

/-- what a factor head guarantees -/
def FactorHead.WF : FactorHead → Prop
  | .paren lp _ => lp = .sym .LParen
  | .table _ al _ => aliasWF al

theorem factorHead_wf (c : QCfg) (ts : List Tok) (fh : FactorHead) (h : factorHead c ts = .ok fh) : fh.WF := by
  unfold factorHead at h
  split at h
  · simp at h
  · split at h
    · rename_i lp rest hl
      simp at h; subst h
      show lp = .sym .LParen
      cases ts with
      | nil => simp [eatSym] at hl
      | cons t r =>
        simp only [eatSym] at hl
        split at hl
        · rename_i hs
          simp at hl; obtain ⟨rfl, rfl⟩ := hl
          cases t with
          | sym s => simp [Tok.isSym] at hs; rw [hs]
          | _ => simp [Tok.isSym] at hs
        · simp at hl
    · split at h
      · simp at h
      · split at h
        · simp at h
        · split at h
          · simp at h
          · split at h
            · simp at h
            · split at h
              · simp at h
              · rename_i al r' ha
                split at h
                · simp at h
                · simp at h; subst h
                  exact optTableAlias_wf _ _ _ ha

theorem query_wf_all (c : QCfg) (f : Nat) :
    (∀ d ts q rest, parseQuery c f d ts = .ok (q, rest) → q.WF) ∧
    (∀ d prec ts n rest, queryBody c f d prec ts = .ok (n, rest) → n.WF) ∧
    (∀ d e prec ts n rest, e.WF → remaining c f d e prec ts = .ok (n, rest) → n.WF) ∧
    (∀ d sel ts n rest, sel.isKw K.SELECT = true → parseSelect c f d sel ts = .ok (n, rest) → n.WF) ∧
    (∀ d conn ts n rest, conn.WF → fromItems c f d conn ts = .ok (n, rest) → n.WF) ∧
    (∀ d b ts k n rest, fromRest c f d b ts = .ok ((k, n), rest) → k.WF ∧ n.WF) := by
  induction f with
  | zero => simp [parseQuery, queryBody, remaining, parseSelect, fromItems, fromRest]
  | succ f ih =>
    obtain ⟨ihQ, ihB, ihR, ihS, ihF, ihT⟩ := ih
    refine ⟨?_, ?_, ?_, ?_, ?_, ?_⟩
    · -- parseQuery
      intro d ts q rest h
      cases d with
      | zero => simp [parseQuery] at h
      | succ d =>
        simp only [parseQuery] at h
        split at h
        · simp at h
        · split at h
          · simp at h
          · rename_i body ts1 hb
            split at h
            · simp at h
            · rename_i qt ts2 ht
              simp at h; obtain ⟨rfl, rfl⟩ := h
              exact ⟨ihB _ _ _ _ _ hb, queryTail_wf _ _ _ _ _ _ ht⟩
    · -- queryBody
      intro d prec ts n rest h
      unfold queryBody at h
      split at h
      · simp at h
      · rename_i t r
        split at h
        · rename_i hsel
          split at h
          · simp at h
          · rename_i s ts1 hs
            exact ihR _ _ _ _ _ _ (ihS _ _ _ _ _ hsel hs) h
        · split at h
          · split at h
            · simp at h
            · rename_i q ts1 hq
              have hq' := ihQ _ _ _ _ hq
              split at h
              · rename_i ts2
                have hw : (QNode.paren (.sym .LParen) q.body q.tail (.sym .RParen)).WF := ⟨rfl, rfl, hq'.1, hq'.2⟩
                exact ihR _ _ _ _ _ _ hw h
              · simp at h
          · split at h <;> simp at h
    · -- remaining
      intro d e prec ts n rest he h
      unfold remaining at h
      split at h
      · simp at h; obtain ⟨rfl, rfl⟩ := h; exact he
      · rename_i t r
        split at h
        · simp at h; obtain ⟨rfl, rfl⟩ := h; exact he
        · rename_i o ho
          split at h
          · simp at h; obtain ⟨rfl, rfl⟩ := h; exact he
          · split at h
            · simp at h
            · rename_i rr ts1 hb
              have hw : (QNode.setOp e o (setQuant r).1 (t :: (setQuant r).2.1) rr).WF :=
                ⟨he, ihB _ _ _ _ _ hb, t, _, rfl, ho, setQuant_wf r⟩
              exact ihR _ _ _ _ _ _ hw h
    · -- parseSelect
      intro d sel ts n rest hsel h
      simp only [parseSelect] at h
      split at h
      · simp at h
      · rename_i hd ts1 hh
        have h1 := selHead_wf _ _ _ _ hsel _ _ _ hh
        split at h
        · rename_i kw r hk
          have hk' := (eatKw_some_iff _ _ _ _).1 hk
          split at h
          · simp at h
          · rename_i fr ts2 hf
            split at h
            · simp at h
            · rename_i tl ts3 ht
              simp at h; obtain ⟨rfl, rfl⟩ := h
              exact ⟨h1, ihF _ (.from kw) _ _ _ hk'.2 hf, selTail_wf _ _ _ _ _ _ ht⟩
        · split at h
          · simp at h
          · rename_i tl ts3 ht
            simp at h; obtain ⟨rfl, rfl⟩ := h
            exact ⟨h1, Or.inl rfl, selTail_wf _ _ _ _ _ _ ht⟩
    · -- fromItems
      intro d conn ts n rest hconn h
      simp only [fromItems] at h
      split at h
      · simp at h
      · split at h
        · simp at h
        · rename_i name al r hfh
          have h1 := factorHead_wf _ _ _ hfh
          split at h
          · simp at h
          · rename_i k rs ts' hr
            have h2 := ihT _ _ _ _ _ _ hr
            simp at h; obtain ⟨rfl, rfl⟩ := h
            exact ⟨hconn, h1, h2.1, h2.2⟩
        · rename_i lp r hfh
          have h1 := factorHead_wf _ _ _ hfh
          split at h
          · simp at h
          · simp at h
          · simp at h
          · rename_i q r1 hq
            have h2 := ihQ _ _ _ _ hq
            split at h
            · rename_i r2
              split at h
              · simp at h
              · rename_i al r3 ha
                have h3 := optTableAlias_wf _ _ _ ha
                split at h
                · simp at h
                · split at h
                  · simp at h
                  · rename_i k rs ts' hr
                    have h4 := ihT _ _ _ _ _ _ hr
                    simp at h; obtain ⟨rfl, rfl⟩ := h
                    exact ⟨hconn, h1, rfl, h2.1, h2.2, h3, h4.1, h4.2⟩
            · simp at h
    · -- fromRest
      intro d b ts k n rest h
      simp only [fromRest] at h
      split at h
      · simp at h
      · rename_i k1 ts1 hc
        have h1 := optCstr_wf _ _ _ _ _ _ _ hc
        split at h
        · simp at h
        · rename_i jk toks r hj
          have h2 := joinHead_wf _ _ _ _ hj
          split at h
          · simp at h
          · rename_i rs ts2 hf
            simp at h; obtain ⟨⟨rfl, rfl⟩, rfl⟩ := h
            exact ⟨h1, ihF _ (.join jk toks) _ _ _ h2 hf⟩
        · split at h
          · rename_i r
            split at h
            · simp at h; obtain ⟨⟨rfl, rfl⟩, rfl⟩ := h
              exact ⟨h1, Or.inr rfl⟩
            · split at h
              · simp at h
              · rename_i rs ts2 hf
                simp at h; obtain ⟨⟨rfl, rfl⟩, rfl⟩ := h
                exact ⟨h1, ihF _ (.comma (.sym .Comma)) _ _ _ rfl hf⟩
          · simp at h; obtain ⟨⟨rfl, rfl⟩, rfl⟩ := h
            exact ⟨h1, Or.inl rfl⟩

/-- every tree the statement parser builds is well formed -/
theorem parse_wf (c : QCfg) (f limit : Nat) (ts : List Tok) (q : Query) (rest : List Tok)
    (h : parseStatement c f limit ts = .ok (q, rest)) : q.WF := by
  unfold parseStatement at h
  repeat' split at h
  all_goals first
    | (simp at h; done)
    | exact (query_wf_all c f).1 _ _ _ _ h

end SqlVerif.Query

import SqlVerif.Lemmas.PrattLemmas
import SqlVerif.Lemmas.PrattUniq
/-!
Part 4 of the Pratt lemmas: the reference grouping `climbSpec` (a left-to-right fold that hangs
each `operator operand` pair on the right edge of the tree built so far), its well-shapedness,
and the proof that on `operand (operator operand)*` input the parser builds exactly that tree.
-/
namespace SqlVerif.Pratt

def atomE (t : Tok) : Expr := .atom .ident [t]

/-- hang `t a` on the right edge of a tree: go down the right spine while the operator there binds
looser than `t`; where it does not (or at a leaf), the subtree becomes the left operand of `t` -/
def attach (c : Cfg) (o : BinOp) (t a : Tok) : Expr → Expr
  | .bin (.op o') l [t'] r =>
    if lv c t' < lv c t then .bin (.op o') l [t'] (attach c o t a r)
    else .bin (.op o) (.bin (.op o') l [t'] r) [t] (atomE a)
  | e => .bin (.op o) e [t] (atomE a)

def climbGo (c : Cfg) (acc : Expr) : List (Tok × Tok) → Option Expr
  | [] => some acc
  | (t, a) :: rest =>
    match infixOp c t with
    | some o => climbGo c (attach c o t a acc) rest
    | none => none

/-- reference grouping of `a0 t1 a1 t2 a2 …`: a left-to-right fold, no recursion on precedence levels -/
def climbSpec (c : Cfg) (a0 : Tok) (pairs : List (Tok × Tok)) : Option Expr := climbGo c (atomE a0) pairs

def chainToks (a0 : Tok) (pairs : List (Tok × Tok)) : List Tok := a0 :: pairs.flatMap fun p => [p.1, p.2]

theorem pure_rightOpen_ops {c : Cfg} {e : Expr} (h : PureInfix c e) :
    ∀ x ∈ rightOpen c e, ∃ s ∈ opsOf e, x = lv c s := by
  induction h with
  | atom t ht => simp [rightOpen]
  | bin o l t r ho hl hr ihl ihr =>
    intro x hx
    simp [rightOpen] at hx
    rcases hx with rfl | hx
    · exact ⟨t, by simp [opsOf], by simp [binLevel, lv]⟩
    · obtain ⟨s, hs, rfl⟩ := ihr x hx
      exact ⟨s, by simp [opsOf, hs], rfl⟩

theorem attach_props (c : Cfg) (o : BinOp) (t a : Tok) (ho : infixOp c t = some o) (ha : atomTok a = true)
    (e : Expr) (h : PureInfix c e) (w : WellShaped c e) :
    PureInfix c (attach c o t a e) ∧ WellShaped c (attach c o t a e) ∧
    (attach c o t a e).flatten = e.flatten ++ [t, a] ∧
    (∀ y ∈ leftOpen c (attach c o t a e), y = lv c t ∨ y ∈ leftOpen c e) := by
  induction h with
  | atom t0 ht0 =>
    simp only [attach]
    refine ⟨.bin _ _ _ _ ho (.atom _ ht0) (.atom _ ha), ?_, ?_, ?_⟩
    · simp [WellShaped, rightOpen, leftOpen, atomE]
    · simp [Expr.flatten, atomE]
    · simp [leftOpen, binLevel, lv]
  | bin o' l t' r ho' hl hr _ ihr =>
    have hp := PureInfix.bin o' l t' r ho' hl hr
    have pl := pure_ops_left hp w
    obtain ⟨wl, wr, w1, w2⟩ := w
    simp only [attach]
    split
    · rename_i hlt
      obtain ⟨p2, w2', f2, l2⟩ := ihr w2
      refine ⟨.bin _ _ _ _ ho' hl p2, ⟨wl, ?_, w1, w2'⟩, ?_, ?_⟩
      · intro y hy
        rcases l2 y hy with rfl | hy'
        · simpa [binLevel, lv] using hlt
        · exact wr y hy'
      · simp [Expr.flatten, f2]
      · intro y hy
        simp [leftOpen] at hy ⊢
        exact Or.inr hy
    · rename_i hge
      refine ⟨.bin _ _ _ _ ho hp (.atom _ ha), ⟨?_, ?_, ⟨wl, wr, w1, w2⟩, ?_⟩, ?_, ?_⟩
      · intro x hx
        simp [rightOpen] at hx
        rcases hx with rfl | hx
        · simp [binLevel, lv] at hge ⊢; omega
        · obtain ⟨s, hs, rfl⟩ := pure_rightOpen_ops hr x hx
          have := pl.2 s hs
          simp [binLevel, lv] at hge this ⊢; omega
      · simp [leftOpen, atomE]
      · simp [WellShaped, atomE]
      · simp [Expr.flatten, atomE]
      · simp [leftOpen, binLevel, lv]

theorem climbGo_props (c : Cfg) (pairs : List (Tok × Tok))
    (hp : ∀ p ∈ pairs, infixOp c p.1 ≠ none ∧ atomTok p.2 = true) :
    ∀ acc, PureInfix c acc → WellShaped c acc →
      ∃ e, climbGo c acc pairs = some e ∧ PureInfix c e ∧ WellShaped c e ∧
        e.flatten = acc.flatten ++ pairs.flatMap fun p => [p.1, p.2] := by
  induction pairs with
  | nil => intro acc h w; exact ⟨acc, rfl, h, w, by simp⟩
  | cons p rest ih =>
    intro acc h w
    obtain ⟨t, a⟩ := p
    have h1 := hp (t, a) (by simp)
    simp only at h1
    cases ho : infixOp c t with
    | none => exact absurd ho h1.1
    | some o =>
      obtain ⟨p1, w1, f1, -⟩ := attach_props c o t a ho h1.2 acc h w
      obtain ⟨e, he, pe, we, fe⟩ := ih (fun p hp' => hp p (by simp [hp'])) _ p1 w1
      exact ⟨e, by simp [climbGo, ho, he], pe, we, by simp [fe, f1]⟩

/-- `(operator operand)*` -/
def OpChain (c : Cfg) : List Tok → Prop
  | [] => True
  | [_] => False
  | t :: a :: rest => infixOp c t ≠ none ∧ atomTok a = true ∧ OpChain c rest

theorem opChain_flatMap (c : Cfg) (pairs : List (Tok × Tok))
    (hp : ∀ p ∈ pairs, infixOp c p.1 ≠ none ∧ atomTok p.2 = true) :
    OpChain c (pairs.flatMap fun p => [p.1, p.2]) := by
  induction pairs with
  | nil => simp [OpChain]
  | cons p rest ih =>
    have := hp p (by simp)
    simp [OpChain, this]
    exact ih (fun p hp' => hp p (by simp [hp']))

theorem opChain_head {c : Cfg} {t : Tok} {r : List Tok} (h : OpChain c (t :: r)) : infixOp c t ≠ none := by
  cases r with
  | nil => simp [OpChain] at h
  | cons a r => exact h.1

theorem prefix_on_chain (c : Cfg) (a : Tok) (rest : List Tok) (plan : PrefixPlan)
    (ha : atomTok a = true) (hr : OpChain c rest) (h : prefixHead c (a :: rest) = .ok plan) :
    plan = .atom .ident [a] rest := by
  cases a <;> simp [atomTok] at ha
  rename_i v q kw
  cases kw <;> simp at ha
  simp only [prefixHead, wordTail] at h
  repeat' split at h
  all_goals first
    | (simp at h; done)
    | (simp at h; exact h.symm)
    | (have := opChain_head hr; simp [infixOp, binOpOf, Tok.kwc] at this; done)

theorem infix_on_chain (c : Cfg) (d q : Nat) (t a : Tok) (rest : List Tok) (plan : InfixPlan)
    (ht : infixOp c t ≠ none) (ha : atomTok a = true) (h : infixHead c d q (t :: a :: rest) = .ok plan) :
    ∃ o, infixOp c t = some o ∧ plan = .right (.op o) [t] (a :: rest) q := by
  cases a <;> simp [atomTok] at ha
  rename_i v qq kw
  cases kw <;> simp at ha
  simp only [infixHead] at h
  unfold infixOp at ht ⊢
  split at h
  · rename_i hd
    simp at h
    simp [hd, h]
  · rename_i hd
    simp only [hd] at ht ⊢
    split at h
    · simp at h
    · rename_i o ho
      simp [ho, Tok.isKw] at h ⊢
      exact h.symm
    · rename_i ho
      simp [ho] at ht

/-- on `operand (operator operand)*` input the parser builds identifiers and binary nodes only -/
theorem pure_all (c : Cfg) (f : Nat) :
    (∀ d p a rest e r, atomTok a = true → OpChain c rest → parseSubexpr c f d p (a :: rest) = .ok (e, r) →
      PureInfix c e ∧ OpChain c r) ∧
    (∀ d p e0 ts e r, PureInfix c e0 → OpChain c ts → loop c f d p e0 ts = .ok (e, r) →
      PureInfix c e ∧ OpChain c r) ∧
    (∀ d a rest e r, atomTok a = true → OpChain c rest → parsePrefix c f d (a :: rest) = .ok (e, r) →
      e = atomE a ∧ r = rest) ∧
    (∀ d e0 q ts e r, PureInfix c e0 → OpChain c ts → parseInfix c f d e0 q ts = .ok (e, r) →
      PureInfix c e ∧ OpChain c r) := by
  induction f with
  | zero => simp [parseSubexpr, loop, parsePrefix, parseInfix]
  | succ f ih =>
    obtain ⟨ihS, ihL, ihP, ihI⟩ := ih
    refine ⟨?_, ?_, ?_, ?_⟩
    · intro d p a rest e r ha hr h
      cases d with
      | zero => simp [parseSubexpr] at h
      | succ d =>
        simp only [parseSubexpr] at h
        split at h
        · simp at h
        · rename_i e0 ts' hp
          obtain ⟨rfl, rfl⟩ := ihP _ _ _ _ _ ha hr hp
          exact ihL _ _ _ _ _ _ (.atom _ ha) hr h
    · intro d p e0 ts e r h0 hc h
      simp only [loop] at h
      split at h
      · simp at h; obtain ⟨rfl, rfl⟩ := h; exact ⟨h0, hc⟩
      · split at h
        · simp at h
        · rename_i e1 ts1 hi
          obtain ⟨p1, c1⟩ := ihI _ _ _ _ _ _ h0 hc hi
          exact ihL _ _ _ _ _ _ p1 c1 h
    · intro d a rest e r ha hr h
      simp only [parsePrefix] at h
      split at h
      · simp at h
      split at h
      · simp at h
      all_goals (rename_i hh; have := prefix_on_chain c a rest _ ha hr hh; simp at this)
      obtain ⟨rfl, rfl, rfl⟩ := this
      obtain ⟨rfl, rfl⟩ := collateCheck_ok h
      exact ⟨rfl, rfl⟩
    · intro d e0 q ts e r h0 hc h
      simp only [parseInfix] at h
      match ts, hc with
      | [], _ => simp [infixHead, noInfix, debugTok] at h
      | [_], hc => simp [OpChain] at hc
      | t :: a :: rest, hc =>
        obtain ⟨ht, ha, hrest⟩ := hc
        split at h
        · simp at h
        all_goals (rename_i hh; obtain ⟨o, ho, hplan⟩ := infix_on_chain c d q t a rest _ ht ha hh; simp at hplan)
        obtain ⟨rfl, rfl, rfl, rfl⟩ := hplan
        split at h
        · simp at h
        · rename_i r1 rest' hs
          obtain ⟨p1, c1⟩ := ihS _ _ _ _ _ _ ha hrest hs
          simp at h; obtain ⟨rfl, rfl⟩ := h
          exact ⟨.bin _ _ _ _ ho h0 p1, c1⟩

theorem parse_eq_climbSpec (c : Cfg) (f d p : Nat) (a0 : Tok) (pairs : List (Tok × Tok)) (e : Expr)
    (ha0 : atomTok a0 = true) (hp : ∀ x ∈ pairs, infixOp c x.1 ≠ none ∧ atomTok x.2 = true)
    (h : parseSubexpr c f d p (chainToks a0 pairs) = .ok (e, [])) :
    climbSpec c a0 pairs = some e := by
  have hc := opChain_flatMap c pairs hp
  obtain ⟨pe, -⟩ := (pure_all c f).1 _ _ _ _ _ _ ha0 hc h
  obtain ⟨we, -, -, -⟩ := (shape_all c f).1 _ _ _ _ _ h
  have fe := (yield_all c f).1 _ _ _ _ _ h
  obtain ⟨e', he', pe', we', fe'⟩ := climbGo_props c pairs hp (atomE a0) (.atom _ ha0) (by simp [WellShaped, atomE])
  have : e = e' := unique_pure c e pe e' pe' we we' (by
    simp [chainToks] at fe
    simp [fe', atomE, Expr.flatten, ← fe])
  subst this
  exact he'

end SqlVerif.Pratt

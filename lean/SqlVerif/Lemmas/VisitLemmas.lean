import SqlVerif.Model.Visit
/-! Lemmas for C16: the walk delivers exactly `events`, in order, until the visitor breaks. -/
namespace SqlVerif.Visit

theorem deliver_append (brk : Nat → Bool) (a b : List Ev) :
    deliver brk (a ++ b) = andThen (deliver brk a) (deliver brk b) := by
  funext s
  induction a generalizing s with
  | nil => simp [deliver, andThen]
  | cons e a ih =>
    simp only [List.cons_append, deliver, andThen, ih]
    split <;> simp_all

theorem optCall_eq_deliver (brk : Nat → Bool) (h : Option Nat) (post field : Bool) (rp : List Nat) :
    optCall brk h post field rp = deliver brk (optEv h post field rp) := by
  funext s
  cases h with
  | none => simp [optCall, optEv, deliver]
  | some h =>
    simp only [optCall, optEv, deliver, andThen]
    split
    · rfl
    · rename_i hb
      apply Prod.ext <;> simp_all

mutual
theorem walk_eq_deliver (brk : Nat → Bool) : ∀ (rp : List Nat) (v : Val), walk brk rp v = deliver brk (events rp v)
  | rp, .leaf _ => by funext s; simp [walk, events, deliver]
  | rp, .node _ _ hk kids => by
    funext s
    have ih := walkKids_eq_deliver brk rp 0 kids
    simp only [walk, events, deliver_append, optCall_eq_deliver, ih]
  | rp, .seq xs => by
    funext s
    have ih := walkSeq_eq_deliver brk rp 0 xs
    simp only [walk, events, ih]
theorem walkKids_eq_deliver (brk : Nat → Bool) : ∀ (rp : List Nat) (i : Nat) (ks : List (Option Nat × Val)),
    walkKids brk rp i ks = deliver brk (eventsKids rp i ks)
  | rp, i, [] => by funext s; simp [walkKids, eventsKids, deliver]
  | rp, i, (fh, v) :: rest => by
    funext s
    have ih1 := walk_eq_deliver brk (i :: rp) v
    have ih2 := walkKids_eq_deliver brk rp (i + 1) rest
    simp only [walkKids, eventsKids, deliver_append, optCall_eq_deliver, ih1, ih2]
theorem walkSeq_eq_deliver (brk : Nat → Bool) : ∀ (rp : List Nat) (i : Nat) (xs : List Val),
    walkSeq brk rp i xs = deliver brk (eventsSeq rp i xs)
  | rp, i, [] => by funext s; simp [walkSeq, eventsSeq, deliver]
  | rp, i, v :: rest => by
    funext s
    have ih1 := walk_eq_deliver brk (i :: rp) v
    have ih2 := walkSeq_eq_deliver brk rp (i + 1) rest
    simp only [walkSeq, eventsSeq, deliver_append, ih1, ih2]
end

theorem deliver_nobreak (brk : Nat → Bool) : ∀ (es : List Ev) (s : St),
    (∀ j, j < es.length → brk (s.n + j) = false) →
    deliver brk es s = (false, ⟨s.n + es.length, s.tr ++ es⟩)
  | [], s, _ => by simp [deliver]
  | e :: es, s, h => by
    have h0 := h 0 (by simp)
    have ih := deliver_nobreak brk es ⟨s.n + 1, s.tr ++ [e]⟩ (fun j hj => by
      have := h (j + 1) (by simpa using hj)
      simpa [Nat.add_assoc, Nat.add_comm 1 j] using this)
    simp at h0
    simp [deliver, andThen, call, h0, ih, Nat.add_assoc, Nat.add_comm 1]

theorem deliver_break (brk : Nat → Bool) : ∀ (es : List Ev) (s : St) (k : Nat),
    (∀ j, j < k → brk (s.n + j) = false) → brk (s.n + k) = true → k < es.length →
    deliver brk es s = (true, ⟨s.n + k + 1, s.tr ++ es.take (k + 1)⟩)
  | [], s, k, _, _, hk => by simp at hk
  | e :: es, s, 0, _, hb, _ => by
    simp at hb
    simp [deliver, andThen, call, hb]
  | e :: es, s, k + 1, hlt, hb, hk => by
    have h0 := hlt 0 (by omega)
    simp at h0
    have ih := deliver_break brk es ⟨s.n + 1, s.tr ++ [e]⟩ k
      (fun j hj => by
        have := hlt (j + 1) (by omega)
        simpa [Nat.add_assoc, Nat.add_comm 1 j] using this)
      (by simpa [Nat.add_assoc, Nat.add_comm 1 k] using hb)
      (by simpa using hk)
    simp [deliver, andThen, call, h0, ih, Nat.add_assoc, Nat.add_comm 1]

theorem fullTrace_eq_events (v : Val) : fullTrace v = events [] v := by
  unfold fullTrace run
  rw [walk_eq_deliver, deliver_nobreak never _ _ (fun _ _ => rfl)]
  simp [St.init]

/-! ### pre-events = hooked positions in pre-order, post-events = the same positions in post-order -/


@[simp] theorem pres_append (a b : List Ev) : pres (a ++ b) = pres a ++ pres b := by simp [pres]
@[simp] theorem posts_append (a b : List Ev) : posts (a ++ b) = posts a ++ posts b := by simp [posts]
@[simp] theorem pres_nil : pres [] = [] := rfl
@[simp] theorem posts_nil : posts [] = [] := rfl
@[simp] theorem pres_optEv_pre (h : Option Nat) (f : Bool) (rp : List Nat) : pres (optEv h false f rp) = optPos h f rp := by
  cases h <;> simp [pres, optEv, optPos]
@[simp] theorem pres_optEv_post (h : Option Nat) (f : Bool) (rp : List Nat) : pres (optEv h true f rp) = [] := by
  cases h <;> simp [pres, optEv]
@[simp] theorem posts_optEv_post (h : Option Nat) (f : Bool) (rp : List Nat) : posts (optEv h true f rp) = optPos h f rp := by
  cases h <;> simp [posts, optEv, optPos]
@[simp] theorem posts_optEv_pre (h : Option Nat) (f : Bool) (rp : List Nat) : posts (optEv h false f rp) = [] := by
  cases h <;> simp [posts, optEv]

mutual
theorem pres_events : ∀ (rp : List Nat) (v : Val), pres (events rp v) = hookedPreorder rp v
  | rp, .leaf _ => by simp [events, hookedPreorder]
  | rp, .node _ _ hk kids => by simp [events, hookedPreorder, pres_eventsKids rp 0 kids]
  | rp, .seq xs => by simp [events, hookedPreorder, pres_eventsSeq rp 0 xs]
theorem pres_eventsKids : ∀ (rp : List Nat) (i : Nat) (ks : List (Option Nat × Val)),
    pres (eventsKids rp i ks) = hookedPreKids rp i ks
  | rp, i, [] => by simp [eventsKids, hookedPreKids]
  | rp, i, (fh, v) :: rest => by
    simp [eventsKids, hookedPreKids, pres_events (i :: rp) v, pres_eventsKids rp (i + 1) rest]
theorem pres_eventsSeq : ∀ (rp : List Nat) (i : Nat) (xs : List Val), pres (eventsSeq rp i xs) = hookedPreSeq rp i xs
  | rp, i, [] => by simp [eventsSeq, hookedPreSeq]
  | rp, i, v :: rest => by
    simp [eventsSeq, hookedPreSeq, pres_events (i :: rp) v, pres_eventsSeq rp (i + 1) rest]
end

mutual
theorem posts_events : ∀ (rp : List Nat) (v : Val), posts (events rp v) = hookedPostorder rp v
  | rp, .leaf _ => by simp [events, hookedPostorder]
  | rp, .node _ _ hk kids => by simp [events, hookedPostorder, posts_eventsKids rp 0 kids]
  | rp, .seq xs => by simp [events, hookedPostorder, posts_eventsSeq rp 0 xs]
theorem posts_eventsKids : ∀ (rp : List Nat) (i : Nat) (ks : List (Option Nat × Val)),
    posts (eventsKids rp i ks) = hookedPostKids rp i ks
  | rp, i, [] => by simp [eventsKids, hookedPostKids]
  | rp, i, (fh, v) :: rest => by
    simp [eventsKids, hookedPostKids, posts_events (i :: rp) v, posts_eventsKids rp (i + 1) rest]
theorem posts_eventsSeq : ∀ (rp : List Nat) (i : Nat) (xs : List Val), posts (eventsSeq rp i xs) = hookedPostSeq rp i xs
  | rp, i, [] => by simp [eventsSeq, hookedPostSeq]
  | rp, i, v :: rest => by
    simp [eventsSeq, hookedPostSeq, posts_events (i :: rp) v, posts_eventsSeq rp (i + 1) rest]
end

/-! ### well-nestedness -/

theorem dyck_hook (st : List Pos) (h : Option Nat) (f : Bool) (rp : List Nat) (mid rest : List Ev)
    (hmid : ∀ st' r, dyck st' (mid ++ r) = dyck st' r) :
    dyck st (optEv h false f rp ++ (mid ++ (optEv h true f rp ++ rest))) = dyck st rest := by
  cases h with
  | none => simp [optEv, hmid]
  | some h => simp [optEv, dyck, hmid]

mutual
theorem dyck_events : ∀ (rp : List Nat) (v : Val) (st : List Pos) (rest : List Ev),
    dyck st (events rp v ++ rest) = dyck st rest
  | rp, .leaf _, st, rest => by simp [events]
  | rp, .node _ _ hk kids, st, rest => by
    simp only [events, List.append_assoc]
    exact dyck_hook st hk false rp _ rest (fun st' r => dyck_eventsKids rp 0 kids st' r)
  | rp, .seq xs, st, rest => by simp only [events]; exact dyck_eventsSeq rp 0 xs st rest
theorem dyck_eventsKids : ∀ (rp : List Nat) (i : Nat) (ks : List (Option Nat × Val)) (st : List Pos) (rest : List Ev),
    dyck st (eventsKids rp i ks ++ rest) = dyck st rest
  | rp, i, [], st, rest => by simp [eventsKids]
  | rp, i, (fh, v) :: more, st, rest => by
    simp only [eventsKids, List.append_assoc]
    rw [dyck_hook st fh true (i :: rp) _ _ (fun st' r => dyck_events (i :: rp) v st' r)]
    exact dyck_eventsKids rp (i + 1) more st rest
theorem dyck_eventsSeq : ∀ (rp : List Nat) (i : Nat) (xs : List Val) (st : List Pos) (rest : List Ev),
    dyck st (eventsSeq rp i xs ++ rest) = dyck st rest
  | rp, i, [], st, rest => by simp [eventsSeq]
  | rp, i, v :: more, st, rest => by
    simp only [eventsSeq, List.append_assoc]
    rw [dyck_events (i :: rp) v st _]
    exact dyck_eventsSeq rp (i + 1) more st rest
end

/-! ### every hooked position is listed once -/

/-- `p` lies at or below the path `rp` -/
def Under (rp : List Nat) (p : Pos) : Prop := ∃ q, p.path = q ++ rp

theorem under_child {i : Nat} {rp : List Nat} {p : Pos} (h : Under (i :: rp) p) : Under rp p := by
  obtain ⟨q, hq⟩ := h
  exact ⟨q ++ [i], by simp [hq]⟩

theorem under_child_ne {i : Nat} {rp : List Nat} {p : Pos} (h : Under (i :: rp) p) : p.path ≠ rp := by
  obtain ⟨q, hq⟩ := h
  intro hc
  have := congrArg List.length hq
  rw [hc] at this
  simp at this
  omega

theorem under_sibling {i j : Nat} {rp : List Nat} {p : Pos} (h1 : Under (i :: rp) p) (h2 : Under (j :: rp) p) : i = j := by
  obtain ⟨q, hq⟩ := h1
  obtain ⟨q', hq'⟩ := h2
  rw [hq] at hq'
  have := List.append_inj_right' hq' (by simp)
  simpa using this

mutual
theorem under_pre : ∀ (rp : List Nat) (v : Val) (p : Pos), p ∈ hookedPreorder rp v →
    Under rp p ∧ (p.path = rp → p.field = false)
  | rp, .leaf _, p, h => by simp [hookedPreorder] at h
  | rp, .node _ _ hk kids, p, h => by
    simp only [hookedPreorder, List.mem_append] at h
    rcases h with h | h
    · cases hk with
      | none => simp [optPos] at h
      | some hh =>
        simp [optPos] at h
        subst h
        exact ⟨⟨[], by simp⟩, fun _ => rfl⟩
    · obtain ⟨j, _, hu⟩ := under_preKids rp 0 kids p h
      exact ⟨under_child hu, fun hc => absurd hc (under_child_ne hu)⟩
  | rp, .seq xs, p, h => by
    simp only [hookedPreorder] at h
    obtain ⟨j, _, hu⟩ := under_preSeq rp 0 xs p h
    exact ⟨under_child hu, fun hc => absurd hc (under_child_ne hu)⟩
theorem under_preKids : ∀ (rp : List Nat) (i : Nat) (ks : List (Option Nat × Val)) (p : Pos),
    p ∈ hookedPreKids rp i ks → ∃ j, i ≤ j ∧ Under (j :: rp) p
  | rp, i, [], p, h => by simp [hookedPreKids] at h
  | rp, i, (fh, v) :: rest, p, h => by
    simp only [hookedPreKids, List.mem_append] at h
    rcases h with h | h | h
    · cases fh with
      | none => simp [optPos] at h
      | some hh =>
        simp [optPos] at h
        subst h
        exact ⟨i, Nat.le_refl _, ⟨[], by simp⟩⟩
    · exact ⟨i, Nat.le_refl _, (under_pre (i :: rp) v p h).1⟩
    · obtain ⟨j, hj, hu⟩ := under_preKids rp (i + 1) rest p h
      exact ⟨j, by omega, hu⟩
theorem under_preSeq : ∀ (rp : List Nat) (i : Nat) (xs : List Val) (p : Pos),
    p ∈ hookedPreSeq rp i xs → ∃ j, i ≤ j ∧ Under (j :: rp) p
  | rp, i, [], p, h => by simp [hookedPreSeq] at h
  | rp, i, v :: rest, p, h => by
    simp only [hookedPreSeq, List.mem_append] at h
    rcases h with h | h
    · exact ⟨i, Nat.le_refl _, (under_pre (i :: rp) v p h).1⟩
    · obtain ⟨j, hj, hu⟩ := under_preSeq rp (i + 1) rest p h
      exact ⟨j, by omega, hu⟩
end

theorem nodup_optPos (h : Option Nat) (f : Bool) (rp : List Nat) : (optPos h f rp).Nodup := by
  cases h <;> simp [optPos]

mutual
theorem nodup_pre : ∀ (rp : List Nat) (v : Val), (hookedPreorder rp v).Nodup
  | rp, .leaf _ => by simp [hookedPreorder]
  | rp, .node _ _ hk kids => by
    simp only [hookedPreorder]
    refine List.nodup_append.mpr ⟨nodup_optPos _ _ _, nodup_preKids rp 0 kids, ?_⟩
    intro a ha b hb hab
    subst hab
    cases hk with
    | none => simp [optPos] at ha
    | some hh =>
      simp [optPos] at ha
      obtain ⟨j, _, hu⟩ := under_preKids rp 0 kids a hb
      exact under_child_ne hu (by rw [ha])
  | rp, .seq xs => by simp only [hookedPreorder]; exact nodup_preSeq rp 0 xs
theorem nodup_preKids : ∀ (rp : List Nat) (i : Nat) (ks : List (Option Nat × Val)), (hookedPreKids rp i ks).Nodup
  | rp, i, [] => by simp [hookedPreKids]
  | rp, i, (fh, v) :: rest => by
    simp only [hookedPreKids]
    have hrest : ∀ a, a ∈ hookedPreKids rp (i + 1) rest → ¬ Under (i :: rp) a := by
      intro a ha hu
      obtain ⟨j, hj, hu'⟩ := under_preKids rp (i + 1) rest a ha
      have := under_sibling hu hu'
      omega
    refine List.nodup_append.mpr ⟨nodup_optPos _ _ _, ?_, ?_⟩
    · refine List.nodup_append.mpr ⟨nodup_pre (i :: rp) v, nodup_preKids rp (i + 1) rest, ?_⟩
      intro a ha b hb hab
      subst hab
      exact hrest a hb (under_pre (i :: rp) v a ha).1
    · intro a ha b hb hab
      subst hab
      cases fh with
      | none => simp [optPos] at ha
      | some hh =>
        simp [optPos] at ha
        rcases List.mem_append.mp hb with hb | hb
        · have := (under_pre (i :: rp) v a hb).2 (by rw [ha])
          rw [ha] at this
          simp at this
        · exact hrest a hb ⟨[], by rw [ha]; simp⟩
theorem nodup_preSeq : ∀ (rp : List Nat) (i : Nat) (xs : List Val), (hookedPreSeq rp i xs).Nodup
  | rp, i, [] => by simp [hookedPreSeq]
  | rp, i, v :: rest => by
    simp only [hookedPreSeq]
    refine List.nodup_append.mpr ⟨nodup_pre (i :: rp) v, nodup_preSeq rp (i + 1) rest, ?_⟩
    intro a ha b hb hab
    subst hab
    obtain ⟨j, hj, hu'⟩ := under_preSeq rp (i + 1) rest a hb
    have := under_sibling (under_pre (i :: rp) v a ha).1 hu'
    omega
end

/-! ### the mutating walk with identity callbacks is the read-only walk and returns the tree -/

theorem optCallM_id (brk : Nat → Bool) (h : Option Nat) (post field : Bool) (rp : List Nat) (v : Val) (s : St) :
    optCallM cbId brk h post field rp v s = ((optCall brk h post field rp s).1, v, (optCall brk h post field rp s).2) := by
  cases h <;> simp [optCallM, optCall, callM, call, cbId]

mutual
theorem walkM_id (brk : Nat → Bool) : ∀ (v : Val) (f : Nat) (rp : List Nat) (s : St), size v ≤ f →
    walkM cbId brk f rp v s = some ((walk brk rp v s).1, v, (walk brk rp v s).2)
  | .leaf d, f, rp, s, hf => by
    cases f with
    | zero => simp [size] at hf
    | succ f => simp [walkM, walk]
  | .seq xs, f, rp, s, hf => by
    cases f with
    | zero => simp [size] at hf
    | succ f =>
      have ih := walkSeqM_id brk xs f rp 0 s (by simp [size] at hf; omega)
      simp [walkM, walk, ih]
  | .node t d hk kids, f, rp, s, hf => by
    cases f with
    | zero => simp [size] at hf
    | succ f =>
      have ih := fun s' => walkKidsM_id brk kids f rp 0 s' (by simp [size] at hf; omega)
      simp only [walkM, walk, andThen, optCallM_id, kidsOf, setKids, ih]
      split
      · simp_all
      · split <;> simp_all
theorem walkKidsM_id (brk : Nat → Bool) : ∀ (ks : List (Option Nat × Val)) (f : Nat) (rp : List Nat) (i : Nat) (s : St),
    sizeKids ks ≤ f →
    walkKidsM cbId brk f rp i ks s = some ((walkKids brk rp i ks s).1, ks, (walkKids brk rp i ks s).2)
  | [], f, rp, i, s, hf => by
    cases f with
    | zero => simp [sizeKids] at hf
    | succ f => simp [walkKidsM, walkKids]
  | (fh, v) :: rest, f, rp, i, s, hf => by
    cases f with
    | zero => simp [sizeKids] at hf
    | succ f =>
      have ih1 := fun s' => walkM_id brk v f (i :: rp) s' (by simp [sizeKids] at hf; omega)
      have ih2 := fun s' => walkKidsM_id brk rest f rp (i + 1) s' (by simp [sizeKids] at hf; omega)
      simp only [walkKidsM, walkKids, andThen, optCallM_id, ih1, ih2]
      split
      · simp_all
      · split
        · simp_all
        · split <;> simp_all
theorem walkSeqM_id (brk : Nat → Bool) : ∀ (xs : List Val) (f : Nat) (rp : List Nat) (i : Nat) (s : St),
    sizeSeq xs ≤ f →
    walkSeqM cbId brk f rp i xs s = some ((walkSeq brk rp i xs s).1, xs, (walkSeq brk rp i xs s).2)
  | [], f, rp, i, s, hf => by
    cases f with
    | zero => simp [sizeSeq] at hf
    | succ f => simp [walkSeqM, walkSeq]
  | v :: rest, f, rp, i, s, hf => by
    cases f with
    | zero => simp [sizeSeq] at hf
    | succ f =>
      have ih1 := fun s' => walkM_id brk v f (i :: rp) s' (by simp [sizeSeq] at hf; omega)
      have ih2 := fun s' => walkSeqM_id brk rest f rp (i + 1) s' (by simp [sizeSeq] at hf; omega)
      simp only [walkSeqM, walkSeq, andThen, ih1, ih2]
      split <;> simp_all
end

/-! ### post-order lists the same positions -/

mutual
theorem perm_post_pre : ∀ (rp : List Nat) (v : Val), (hookedPostorder rp v).Perm (hookedPreorder rp v)
  | rp, .leaf _ => by simp [hookedPostorder, hookedPreorder]
  | rp, .node _ _ hk kids => by
    simp only [hookedPostorder, hookedPreorder]
    exact ((perm_post_preKids rp 0 kids).append_right _).trans List.perm_append_comm
  | rp, .seq xs => by simp only [hookedPostorder, hookedPreorder]; exact perm_post_preSeq rp 0 xs
theorem perm_post_preKids : ∀ (rp : List Nat) (i : Nat) (ks : List (Option Nat × Val)),
    (hookedPostKids rp i ks).Perm (hookedPreKids rp i ks)
  | rp, i, [] => by simp [hookedPostKids, hookedPreKids]
  | rp, i, (fh, v) :: rest => by
    simp only [hookedPostKids, hookedPreKids]
    have h1 := perm_post_pre (i :: rp) v
    have h2 := perm_post_preKids rp (i + 1) rest
    rw [← List.append_assoc, ← List.append_assoc]
    exact ((List.perm_append_comm.trans ((h1.symm.append_left _).symm)).append h2)
theorem perm_post_preSeq : ∀ (rp : List Nat) (i : Nat) (xs : List Val),
    (hookedPostSeq rp i xs).Perm (hookedPreSeq rp i xs)
  | rp, i, [] => by simp [hookedPostSeq, hookedPreSeq]
  | rp, i, v :: rest => by
    simp only [hookedPostSeq, hookedPreSeq]
    exact (perm_post_pre (i :: rp) v).append (perm_post_preSeq rp (i + 1) rest)
end

end SqlVerif.Visit

import SqlVerif.Model.Visit
/-! Lemmas for C16: the walk delivers exactly `events`, in order, until the visitor breaks. -/
namespace SqlVerif.Visit

theorem deliver_append (brk : Nat → Bool) (a b : List Ev) :
    deliver brk (a ++ b) = andThen (deliver brk a) (deliver brk b) := by
  funext s
  induction a generalizing s with
  | nil => simp [deliver, andThen]
  | cons e a ih =>
    simp only [List.cons_append, deliver, andThen, ih]
    split <;> simp_all

theorem optCall_eq_deliver (brk : Nat → Bool) (h : Option Nat) (post field : Bool) (rp : List Nat) :
    optCall brk h post field rp = deliver brk (optEv h post field rp) := by
  funext s
  cases h with
  | none => simp [optCall, optEv, deliver]
  | some h =>
    simp only [optCall, optEv, deliver, andThen]
    split
    · rfl
    · rename_i hb
      apply Prod.ext <;> simp_all

mutual
theorem walk_eq_deliver (brk : Nat → Bool) : ∀ (rp : List Nat) (v : Val), walk brk rp v = deliver brk (events rp v)
  | rp, .leaf _ => by funext s; simp [walk, events, deliver]
  | rp, .node _ _ hk kids => by
    funext s
    have ih := walkKids_eq_deliver brk rp 0 kids
    simp only [walk, events, deliver_append, optCall_eq_deliver, ih]
  | rp, .seq xs => by
    funext s
    have ih := walkSeq_eq_deliver brk rp 0 xs
    simp only [walk, events, ih]
theorem walkKids_eq_deliver (brk : Nat → Bool) : ∀ (rp : List Nat) (i : Nat) (ks : List (Option Nat × Val)),
    walkKids brk rp i ks = deliver brk (eventsKids rp i ks)
  | rp, i, [] => by funext s; simp [walkKids, eventsKids, deliver]
  | rp, i, (fh, v) :: rest => by
    funext s
    have ih1 := walk_eq_deliver brk (i :: rp) v
    have ih2 := walkKids_eq_deliver brk rp (i + 1) rest
    simp only [walkKids, eventsKids, deliver_append, optCall_eq_deliver, ih1, ih2]
theorem walkSeq_eq_deliver (brk : Nat → Bool) : ∀ (rp : List Nat) (i : Nat) (xs : List Val),
    walkSeq brk rp i xs = deliver brk (eventsSeq rp i xs)
  | rp, i, [] => by funext s; simp [walkSeq, eventsSeq, deliver]
  | rp, i, v :: rest => by
    funext s
    have ih1 := walk_eq_deliver brk (i :: rp) v
    have ih2 := walkSeq_eq_deliver brk rp (i + 1) rest
    simp only [walkSeq, eventsSeq, deliver_append, ih1, ih2]
end

theorem deliver_nobreak (brk : Nat → Bool) : ∀ (es : List Ev) (s : St),
    (∀ j, j < es.length → brk (s.n + j) = false) →
    deliver brk es s = (false, ⟨s.n + es.length, s.tr ++ es⟩)
  | [], s, _ => by simp [deliver]
  | e :: es, s, h => by
    have h0 := h 0 (by simp)
    have ih := deliver_nobreak brk es ⟨s.n + 1, s.tr ++ [e]⟩ (fun j hj => by
      have := h (j + 1) (by simpa using hj)
      simpa [Nat.add_assoc, Nat.add_comm 1 j] using this)
    simp at h0
    simp [deliver, andThen, call, h0, ih, Nat.add_assoc, Nat.add_comm 1]

theorem deliver_break (brk : Nat → Bool) : ∀ (es : List Ev) (s : St) (k : Nat),
    (∀ j, j < k → brk (s.n + j) = false) → brk (s.n + k) = true → k < es.length →
    deliver brk es s = (true, ⟨s.n + k + 1, s.tr ++ es.take (k + 1)⟩)
  | [], s, k, _, _, hk => by simp at hk
  | e :: es, s, 0, _, hb, _ => by
    simp at hb
    simp [deliver, andThen, call, hb]
  | e :: es, s, k + 1, hlt, hb, hk => by
    have h0 := hlt 0 (by omega)
    simp at h0
    have ih := deliver_break brk es ⟨s.n + 1, s.tr ++ [e]⟩ k
      (fun j hj => by
        have := hlt (j + 1) (by omega)
        simpa [Nat.add_assoc, Nat.add_comm 1 j] using this)
      (by simpa [Nat.add_assoc, Nat.add_comm 1 k] using hb)
      (by simpa using hk)
    simp [deliver, andThen, call, h0, ih, Nat.add_assoc, Nat.add_comm 1]

theorem fullTrace_eq_events (v : Val) : fullTrace v = events [] v := by
  unfold fullTrace run
  rw [walk_eq_deliver, deliver_nobreak never _ _ (fun _ _ => rfl)]
  simp [St.init]

/-! ### pre-events = hooked positions in pre-order, post-events = the same positions in post-order -/

def pres (es : List Ev) : List Pos := (es.filter (fun e => !e.post)).map (·.pos)
def posts (es : List Ev) : List Pos := (es.filter (fun e => e.post)).map (·.pos)

@[simp] theorem pres_append (a b : List Ev) : pres (a ++ b) = pres a ++ pres b := by simp [pres]
@[simp] theorem posts_append (a b : List Ev) : posts (a ++ b) = posts a ++ posts b := by simp [posts]
@[simp] theorem pres_nil : pres [] = [] := rfl
@[simp] theorem posts_nil : posts [] = [] := rfl
@[simp] theorem pres_optEv_pre (h : Option Nat) (f : Bool) (rp : List Nat) : pres (optEv h false f rp) = optPos h f rp := by
  cases h <;> simp [pres, optEv, optPos]
@[simp] theorem pres_optEv_post (h : Option Nat) (f : Bool) (rp : List Nat) : pres (optEv h true f rp) = [] := by
  cases h <;> simp [pres, optEv]
@[simp] theorem posts_optEv_post (h : Option Nat) (f : Bool) (rp : List Nat) : posts (optEv h true f rp) = optPos h f rp := by
  cases h <;> simp [posts, optEv, optPos]
@[simp] theorem posts_optEv_pre (h : Option Nat) (f : Bool) (rp : List Nat) : posts (optEv h false f rp) = [] := by
  cases h <;> simp [posts, optEv]

mutual
theorem pres_events : ∀ (rp : List Nat) (v : Val), pres (events rp v) = hookedPreorder rp v
  | rp, .leaf _ => by simp [events, hookedPreorder]
  | rp, .node _ _ hk kids => by simp [events, hookedPreorder, pres_eventsKids rp 0 kids]
  | rp, .seq xs => by simp [events, hookedPreorder, pres_eventsSeq rp 0 xs]
theorem pres_eventsKids : ∀ (rp : List Nat) (i : Nat) (ks : List (Option Nat × Val)),
    pres (eventsKids rp i ks) = hookedPreKids rp i ks
  | rp, i, [] => by simp [eventsKids, hookedPreKids]
  | rp, i, (fh, v) :: rest => by
    simp [eventsKids, hookedPreKids, pres_events (i :: rp) v, pres_eventsKids rp (i + 1) rest]
theorem pres_eventsSeq : ∀ (rp : List Nat) (i : Nat) (xs : List Val), pres (eventsSeq rp i xs) = hookedPreSeq rp i xs
  | rp, i, [] => by simp [eventsSeq, hookedPreSeq]
  | rp, i, v :: rest => by
    simp [eventsSeq, hookedPreSeq, pres_events (i :: rp) v, pres_eventsSeq rp (i + 1) rest]
end

mutual
theorem posts_events : ∀ (rp : List Nat) (v : Val), posts (events rp v) = hookedPostorder rp v
  | rp, .leaf _ => by simp [events, hookedPostorder]
  | rp, .node _ _ hk kids => by simp [events, hookedPostorder, posts_eventsKids rp 0 kids]
  | rp, .seq xs => by simp [events, hookedPostorder, posts_eventsSeq rp 0 xs]
theorem posts_eventsKids : ∀ (rp : List Nat) (i : Nat) (ks : List (Option Nat × Val)),
    posts (eventsKids rp i ks) = hookedPostKids rp i ks
  | rp, i, [] => by simp [eventsKids, hookedPostKids]
  | rp, i, (fh, v) :: rest => by
    simp [eventsKids, hookedPostKids, posts_events (i :: rp) v, posts_eventsKids rp (i + 1) rest]
theorem posts_eventsSeq : ∀ (rp : List Nat) (i : Nat) (xs : List Val), posts (eventsSeq rp i xs) = hookedPostSeq rp i xs
  | rp, i, [] => by simp [eventsSeq, hookedPostSeq]
  | rp, i, v :: rest => by
    simp [eventsSeq, hookedPostSeq, posts_events (i :: rp) v, posts_eventsSeq rp (i + 1) rest]
end

/-! ### well-nestedness -/

theorem dyck_hook (st : List Pos) (h : Option Nat) (f : Bool) (rp : List Nat) (mid rest : List Ev)
    (hmid : ∀ st' r, dyck st' (mid ++ r) = dyck st' r) :
    dyck st (optEv h false f rp ++ (mid ++ (optEv h true f rp ++ rest))) = dyck st rest := by
  cases h with
  | none => simp [optEv, hmid]
  | some h => simp [optEv, dyck, hmid]

mutual
theorem dyck_events : ∀ (rp : List Nat) (v : Val) (st : List Pos) (rest : List Ev),
    dyck st (events rp v ++ rest) = dyck st rest
  | rp, .leaf _, st, rest => by simp [events]
  | rp, .node _ _ hk kids, st, rest => by
    simp only [events, List.append_assoc]
    exact dyck_hook st hk false rp _ rest (fun st' r => dyck_eventsKids rp 0 kids st' r)
  | rp, .seq xs, st, rest => by simp only [events]; exact dyck_eventsSeq rp 0 xs st rest
theorem dyck_eventsKids : ∀ (rp : List Nat) (i : Nat) (ks : List (Option Nat × Val)) (st : List Pos) (rest : List Ev),
    dyck st (eventsKids rp i ks ++ rest) = dyck st rest
  | rp, i, [], st, rest => by simp [eventsKids]
  | rp, i, (fh, v) :: more, st, rest => by
    simp only [eventsKids, List.append_assoc]
    rw [dyck_hook st fh true (i :: rp) _ _ (fun st' r => dyck_events (i :: rp) v st' r)]
    exact dyck_eventsKids rp (i + 1) more st rest
theorem dyck_eventsSeq : ∀ (rp : List Nat) (i : Nat) (xs : List Val) (st : List Pos) (rest : List Ev),
    dyck st (eventsSeq rp i xs ++ rest) = dyck st rest
  | rp, i, [], st, rest => by simp [eventsSeq]
  | rp, i, v :: more, st, rest => by
    simp only [eventsSeq, List.append_assoc]
    rw [dyck_events (i :: rp) v st _]
    exact dyck_eventsSeq rp (i + 1) more st rest
end

end SqlVerif.Visit

import SqlVerif.Lemmas.DdlLemmas
import SqlVerif.Lemmas.DmlExt
/-!
Extension lemmas for the second statement model (`Model/Ddl.lean`), on top of `Lemmas/DmlExt.lean`:

* element level: an `ALTER TABLE` operation and a view column that was parsed completely is parsed
  to the same value in front of a token `x` that is none of the keywords the operation parsers look
  for (`ddlKws`; every stopper token qualifies) — for `ADD coldef` and for a ClickHouse view column
  (which carry a data type) `x` must be `,` `)` `;`;
* statement level (`x` = `;`): every parser function of the model, run on `ts ++ ; :: r`, repeats
  its successful run on `ts` and leaves `; :: r` untouched — the locality hypothesis of the script
  theorem of C11.
-/
set_option linter.unusedSimpArgs false
set_option linter.unusedVariables false
namespace SqlVerif.Ddl
open SqlVerif.Pratt SqlVerif.Query SqlVerif.Dml SqlVerif.Gen

/-- the keywords the element parsers of the model compare a peeked token with -/
def ddlKws : List Nat :=
  [XK.OPTIONS, XK.COMMENT, XK.CONSTRAINT, XK.UNIQUE, XK.PRIMARY, XK.FOREIGN, XK.CHECK, XK.INDEX, XK.KEY, XK.FULLTEXT,
   XK.SPATIAL, XK.PROJECTION, XK.IF, XK.NOT, XK.EXISTS, XK.PARTITION, XK.COLUMN, XK.FIRST, XK.AFTER, XK.CASCADE, XK.TO,
   XK.SET, XK.NULL, XK.DROP, XK.DEFAULT, XK.DATA, XK.TYPE, XK.ADD, XK.GENERATED, XK.DISABLE, XK.ENABLE, XK.CHANGE,
   XK.MODIFY, XK.SWAP, XK.CLEAR, XK.MATERIALIZE, XK.OWNER, XK.ATTACH, XK.DETACH, XK.FREEZE, XK.UNFREEZE,
   XK.TBLPROPERTIES, XK.RENAME, XK.ALTER]

theorem reserved_not_ddl : reservedForColumnAlias.all (fun k => !ddlKws.contains k) = true := by decide +kernel

/-- a stopper token is none of the keywords of `ddlKws` -/
theorem stopper_ddlKw {x : Tok} (hx : stopper x = true) : ∀ k ∈ ddlKws, x.isKw k = false := by
  intro k hk
  unfold stopper at hx
  split at hx <;> try rfl
  · rename_i v q k'
    simp only [Tok.isKw]
    cases hkk : k' == k with
    | false => rfl
    | true =>
      simp at hkk; subst hkk
      have := List.all_eq_true.1 reserved_not_ddl k' (List.contains_iff_mem.1 hx)
      simp at this
      exact absurd hk this
  · simp at hx

theorem colSep_ddlKw {x : Tok} (hx : colSep x = true) : ∀ k ∈ ddlKws, x.isKw k = false :=
  fun k _ => colSep_isKw hx k

macro "mem_kw" : tactic => `(tactic| simp only [ddlKws, List.mem_cons, true_or, or_true])
macro "all_kw" : tactic =>
  `(tactic| (simp only [List.forall_mem_cons, List.not_mem_nil, false_imp_iff, implies_true, and_true]; simp only [ddlKws, List.mem_cons, true_or, or_true, and_self]))

-- ------------------------------------------------------------------ rewriting in front of a non-keyword token
section K
variable {x : Tok} (hk : ∀ k ∈ ddlKws, x.isKw k = false)
include hk

theorem eatKw_k {k : Nat} (hm : k ∈ ddlKws) (ts r : List Tok) : eatKw (ts ++ x :: r) k = (eatKw ts k).map (app (x :: r)) :=
  eatKw_app (hk k hm) ts r

theorem peekKw_k {k : Nat} (hm : k ∈ ddlKws) (ts r : List Tok) : peekKw (ts ++ x :: r) k = peekKw ts k :=
  peekKw_ext' (hk k hm) ts r

theorem eatKws_k (ks : List Nat) (hm : ∀ k ∈ ks, k ∈ ddlKws) (hne : ks ≠ []) (ts r : List Tok) :
    eatKws (ts ++ x :: r) ks = (eatKws ts ks).map (app (x :: r)) :=
  eatKws_app ks (fun k h => hk k (hm k h)) hne ts r

theorem peekAnyKw_k (ks : List Nat) (hm : ∀ k ∈ ks, k ∈ ddlKws) (ts r : List Tok) :
    peekAnyKw (ts ++ x :: r) ks = peekAnyKw ts ks :=
  peekAnyKw_ext ks (fun k h => hk k (hm k h)) ts r

theorem kwTail_k {k : Nat} (hm : k ∈ ddlKws) (ts r : List Tok) : kwTail k (ts ++ x :: r) = app (x :: r) (kwTail k ts) :=
  kwTail_app (hk k hm) ts r

theorem kwsTail_k (ks : List Nat) (hm : ∀ k ∈ ks, k ∈ ddlKws) (hne : ks ≠ []) (ts r : List Tok) :
    kwsTail ks (ts ++ x :: r) = app (x :: r) (kwsTail ks ts) :=
  kwsTail_app ks (fun k h => hk k (hm k h)) hne ts r

omit hk in
theorem isSome_map_app {α : Type} (o : Option (α × List Tok)) (S : List Tok) : (o.map (app S)).isSome = o.isSome := by
  cases o <;> rfl

-- ---------------------------------------------------------------- DROP / RENAME / ALTER COLUMN operations
theorem dropOpForeign_k (ts r : List Tok) : dropOpForeign (ts ++ x :: r) = dropOpForeign ts := by
  unfold dropOpForeign
  rw [eatKws_k hk _ (by all_kw) (by simp), peekAnyKw_k hk _ (by all_kw), isSome_map_app]

theorem dropOp_ext (c : XCfg) (k : Tok) (r ts : List Tok) (op : AlterOp) (rest : List Tok)
    (h : dropOp c k ts = .ok (op, rest)) : dropOp c k (ts ++ x :: r) = .ok (op, rest ++ x :: r) := by
  unfold dropOp at h ⊢
  simp only [dropOpForeign_k hk, kwsTail_k hk [XK.PRIMARY, XK.KEY] (by all_kw) (by simp), app, kwTail_k hk (k := XK.PROJECTION) (by mem_kw),
    kwTail_k hk (k := XK.COLUMN) (by mem_kw), ieKws, kwsTail_k hk [XK.IF, XK.EXISTS] (by all_kw) (by simp)]
  split at h
  · simp at h
  · rename_i h0
    simp only [h0, if_false]
    split at h
    · simp at h
    · rename_i h1
      simp only [h1, if_false]
      split at h
      · simp at h
      · rename_i h2
        simp only [h2, if_false]
        simp only [ieKws] at h
        split at h
        · simp at h
        · rename_i name r0 hn
          rw [identElem_ext _ _ _ _ hn]
          simp only [kwTail_k hk (k := XK.CASCADE) (by mem_kw), app]
          simp at h; obtain ⟨rfl, rfl⟩ := h; rfl

theorem renameColOp_ext (k : Tok) (r ts : List Tok) (op : AlterOp) (rest : List Tok)
    (h : renameColOp k ts = .ok (op, rest)) : renameColOp k (ts ++ x :: r) = .ok (op, rest ++ x :: r) := by
  unfold renameColOp at h ⊢
  simp only [kwTail_k hk (k := XK.COLUMN) (by mem_kw), app]
  split at h
  · simp at h
  · rename_i old r0 ho
    rw [identElem_ext _ _ _ _ ho]
    simp only [eatKw_k hk (k := XK.TO) (by mem_kw)]
    split at h
    · simp at h
    · rename_i toKw r1 ht
      simp only [ht, Option.map, app]
      split at h
      · simp at h
      · rename_i new r2 hn
        rw [identElem_ext _ _ _ _ hn]
        simp at h; obtain ⟨rfl, rfl⟩ := h; rfl

theorem renameOp_ext (hx : stopper x = true) (c : XCfg) (k : Tok) (r ts : List Tok) (op : AlterOp) (rest : List Tok)
    (h : renameOp c k ts = .ok (op, rest)) : renameOp c k (ts ++ x :: r) = .ok (op, rest ++ x :: r) := by
  unfold renameOp at h ⊢
  simp only [peekKw_k hk (k := XK.CONSTRAINT) (by mem_kw), eatKw_k hk (k := XK.TO) (by mem_kw)]
  split at h
  · simp at h
  · rename_i h0
    simp only [h0, if_false]
    split at h
    · rename_i toKw r0 ht
      simp only [ht, Option.map, app]
      split at h
      · simp at h
      · rename_i name r1 hn
        rw [nameElem_ext hx r _ _ _ hn]
        simp only
        split at h
        · simp at h
        · rename_i hb; simp at h; obtain ⟨rfl, rfl⟩ := h; simp [hb]
    · rename_i ht
      simp only [ht, Option.map]
      exact renameColOp_ext hk _ _ _ _ _ h

theorem alterColForeign_k (c : XCfg) (ts r : List Tok) : alterColForeign c (ts ++ x :: r) = alterColForeign c ts := by
  unfold alterColForeign
  rw [eatKws_k hk _ (by all_kw) (by simp), eatKws_k hk _ (by all_kw) (by simp), peekKw_k hk (by mem_kw), isSome_map_app,
    isSome_map_app]

theorem alterColTail_ext (hx : stopper x = true) (c : XCfg) (f d : Nat) (r ts : List Tok) (p : List Tok × AlterColOp) (rest : List Tok)
    (h : alterColTail c f d ts = .ok (p, rest)) : alterColTail c f d (ts ++ x :: r) = .ok (p, rest ++ x :: r) := by
  unfold alterColTail at h ⊢
  simp only [eatKws_k hk [XK.SET, XK.NOT, XK.NULL] (by all_kw) (by simp), eatKws_k hk [XK.DROP, XK.NOT, XK.NULL] (by all_kw) (by simp),
    eatKws_k hk [XK.SET, XK.DEFAULT] (by all_kw) (by simp), eatKws_k hk [XK.DROP, XK.DEFAULT] (by all_kw) (by simp),
    alterColForeign_k hk]
  split at h
  · rename_i toks r0 h1
    simp only [h1, Option.map, app]
    simp at h; obtain ⟨rfl, rfl⟩ := h; rfl
  · rename_i h1
    simp only [h1, Option.map]
    split at h
    · rename_i toks r0 h2
      simp only [h2, Option.map, app]
      simp at h; obtain ⟨rfl, rfl⟩ := h; rfl
    · rename_i h2
      simp only [h2, Option.map]
      split at h
      · rename_i toks r0 h3
        simp only [h3, Option.map, app]
        split at h
        · simp at h
        · rename_i e r1 he
          rw [parseE_ext c.d.q hx r _ _ _ _ _ he]
          simp at h; obtain ⟨rfl, rfl⟩ := h; rfl
      · rename_i h3
        simp only [h3, Option.map]
        split at h
        · rename_i toks r0 h4
          simp only [h4, Option.map, app]
          simp at h; obtain ⟨rfl, rfl⟩ := h; rfl
        · split at h <;> simp at h

theorem alterColOp_ext (hx : stopper x = true) (c : XCfg) (f d : Nat) (k : Tok) (r ts : List Tok) (op : AlterOp) (rest : List Tok)
    (h : alterColOp c f d k ts = .ok (op, rest)) : alterColOp c f d k (ts ++ x :: r) = .ok (op, rest ++ x :: r) := by
  unfold alterColOp at h ⊢
  simp only [kwTail_k hk (k := XK.COLUMN) (by mem_kw), app]
  split at h
  · simp at h
  · rename_i name r0 hn
    rw [identElem_ext _ _ _ _ hn]
    simp only
    split at h
    · simp at h
    · rename_i p r1 hp
      rw [alterColTail_ext hk hx _ _ _ _ _ _ _ hp]
      simp at h; obtain ⟨rfl, rfl⟩ := h; rfl

-- ---------------------------------------------------------------- ADD coldef: `x` must be `,` `)` `;`
theorem addConstraintAhead_k (c : XCfg) (ts r : List Tok) : addConstraintAhead c (ts ++ x :: r) = addConstraintAhead c ts := by
  unfold addConstraintAhead
  rw [peekAnyKw_k hk _ (by all_kw), peekAnyKw_k hk _ (by all_kw)]

theorem addIneTail_k (c : XCfg) (ts r : List Tok) : addIneTail c (ts ++ x :: r) = app (x :: r) (addIneTail c ts) := by
  unfold addIneTail ineKws
  split
  · exact kwsTail_k hk _ (by all_kw) (by simp) ts r
  · rfl

theorem addOp_ext (hx : colSep x = true) (c : XCfg) (f d : Nat) (k : Tok) (r ts : List Tok) (op : AlterOp) (rest : List Tok)
    (h : addOp c f d k ts = .ok (op, rest)) : addOp c f d k (ts ++ x :: r) = .ok (op, rest ++ x :: r) := by
  unfold addOp at h ⊢
  simp only [addConstraintAhead_k hk, peekKw_k hk (k := XK.PROJECTION) (by mem_kw), ineKws,
    kwsTail_k hk [XK.IF, XK.NOT, XK.EXISTS] (by all_kw) (by simp), app, peekKw_k hk (k := XK.PARTITION) (by mem_kw),
    kwTail_k hk (k := XK.COLUMN) (by mem_kw), addIneTail_k hk]
  simp only [ineKws] at h
  cases h0 : addConstraintAhead c ts with
  | true => simp [h0] at h
  | false =>
    simp only [h0, Bool.false_eq_true, ↓reduceIte] at h ⊢
    cases h1 : ((c.isClickHouse || c.d.isGeneric) && peekKw ts XK.PROJECTION) with
    | true => simp [h1] at h
    | false =>
      simp only [h1, Bool.false_eq_true, ↓reduceIte] at h ⊢
      cases h2 : peekKw (kwsTail [XK.IF, XK.NOT, XK.EXISTS] ts).2 XK.PARTITION with
      | true => simp [h2] at h
      | false =>
        simp only [h2, Bool.false_eq_true, ↓reduceIte] at h ⊢
        split at h
        · simp at h
        · rename_i cd r0 hc
          rw [columnDef_ext hx _ _ _ _ _ _ _ hc]
          simp only [peekAnyKw_k hk [XK.FIRST, XK.AFTER] (by all_kw)]
          split at h
          · simp at h
          · rename_i h3
            simp only [h3, if_false]
            simp at h; obtain ⟨rfl, rfl⟩ := h; rfl

theorem opForeign_k (c : XCfg) (ts r : List Tok) : opForeign c (ts ++ x :: r) = opForeign c ts := by
  unfold opForeign
  rw [peekAnyKw_k hk _ (by all_kw), peekAnyKw_k hk _ (by all_kw), eatKws_k hk _ (by all_kw) (by simp),
    eatKws_k hk _ (by all_kw) (by simp), eatKws_k hk _ (by all_kw) (by simp), eatKws_k hk _ (by all_kw) (by simp)]
  simp only [isSome_map_app]

/-- `parse_alter_table_operation` in front of `x`: for `ADD` the token must be `,` `)` `;` -/
theorem alterOp_ext (hx : stopper x = true) (c : XCfg) (f d : Nat) (r ts : List Tok) (op : AlterOp) (rest : List Tok)
    (hadd : (eatKw ts XK.ADD).isSome = true → colSep x = true) (h : alterOp c f d ts = .ok (op, rest)) : alterOp c f d (ts ++ x :: r) = .ok (op, rest ++ x :: r) := by
  unfold alterOp at h ⊢
  simp only [eatKw_k hk (k := XK.ADD) (by mem_kw), eatKw_k hk (k := XK.RENAME) (by mem_kw), eatKw_k hk (k := XK.DROP) (by mem_kw),
    eatKw_k hk (k := XK.ALTER) (by mem_kw), opForeign_k hk]
  split at h
  · rename_i k r0 h1
    simp only [h1, Option.map, app]
    exact addOp_ext hk (hadd (by simp [h1])) _ _ _ _ _ _ _ _ h
  · rename_i h1
    simp only [h1, Option.map]
    split at h
    · rename_i k r0 h2
      simp only [h2, Option.map, app]
      exact renameOp_ext hk hx _ _ _ _ _ _ h
    · rename_i h2
      simp only [h2, Option.map]
      split at h
      · rename_i k r0 h3
        simp only [h3, Option.map, app]
        exact dropOp_ext hk _ _ _ _ _ _ h
      · rename_i h3
        simp only [h3, Option.map]
        split at h
        · rename_i k r0 h4
          simp only [h4, Option.map, app]
          exact alterColOp_ext hk hx _ _ _ _ _ _ _ _ h
        · split at h <;> simp at h

-- ---------------------------------------------------------------- view columns
theorem viewColOptForeign_k (c : XCfg) (ts r : List Tok) : viewColOptForeign c (ts ++ x :: r) = viewColOptForeign c ts := by
  unfold viewColOptForeign
  rw [peekKw_k hk (by mem_kw), peekKw_k hk (by mem_kw)]

/-- `parse_view_column` in front of `x`: in ClickHouse (a data type follows the name) the token must be `,` `)` `;` -/
theorem viewCol_ext (hch : c.isClickHouse = true → colSep x = true) (f d : Nat) (r ts : List Tok) (v : ViewCol) (rest : List Tok)
    (h : viewCol c f d ts = .ok (v, rest)) : viewCol c f d (ts ++ x :: r) = .ok (v, rest ++ x :: r) := by
  unfold viewCol at h ⊢
  split at h
  · simp at h
  · rename_i name r0 hn
    rw [identElem_ext _ _ _ _ hn]
    simp only [viewColOptForeign_k hk]
    split at h
    · simp at h
    · rename_i h0
      simp only [h0, if_false]
      split at h
      · rename_i h1
        simp only [h1, if_true]
        split at h
        · simp at h
        · rename_i ty r1 ht
          rw [colType_ext c.d (hch h1) r _ _ _ _ _ ht]
          simp at h; obtain ⟨rfl, rfl⟩ := h; rfl
      · rename_i h1
        simp only [h1, if_false]
        simp at h; obtain ⟨rfl, rfl⟩ := h; rfl
end K

-- ------------------------------------------------------------------ statement level: in front of `;`
theorem semi_ddlKw : ∀ k ∈ ddlKws, semi.isKw k = false := fun k _ => semi_isKw k

theorem alterOp_semi (c : XCfg) (r : List Tok) (f d : Nat) (ts : List Tok) (op : AlterOp) (rest : List Tok)
    (h : alterOp c f d ts = .ok (op, rest)) : alterOp c f d (ts ++ semi :: r) = .ok (op, rest ++ semi :: r) :=
  alterOp_ext semi_ddlKw semi_stopper c f d r ts op rest (fun _ => semi_colSep) h

theorem viewCol_semi (c : XCfg) (r : List Tok) (f d : Nat) (ts : List Tok) (v : ViewCol) (rest : List Tok)
    (h : viewCol c f d ts = .ok (v, rest)) : viewCol c f d (ts ++ semi :: r) = .ok (v, rest ++ semi :: r) :=
  viewCol_ext semi_ddlKw (fun _ => semi_colSep) f d r ts v rest h

theorem viewColumns_semi (c : XCfg) (f d : Nat) (r ts : List Tok) (cols : List Tok × Sep ViewCol × List Tok) (rest : List Tok)
    (h : viewColumns c f d ts = .ok (cols, rest)) : viewColumns c f d (ts ++ semi :: r) = .ok (cols, rest ++ semi :: r) := by
  unfold viewColumns at h ⊢
  split at h
  · rename_i hl
    rw [eatSym_ext_none (by rfl) hl]
    simp at h; obtain ⟨rfl, rfl⟩ := h; rfl
  · rename_i lp r0 hl
    rw [eatSym_ext hl]
    simp only
    split at h
    · rename_i rp r' hr
      rw [eatSym_ext hr]
      simp at h; obtain ⟨rfl, rfl⟩ := h; rfl
    · rename_i hr
      rw [eatSym_ext_none (by rfl) hr]
      simp only
      split at h
      · simp at h
      · rename_i cs r1 hc
        rw [commaSepE_semi _ _ r (viewCol_semi c r f d) _ _ _ _ hc]
        simp only
        split at h
        · rename_i rp r2 hr2
          rw [eatSym_ext hr2]
          simp at h; obtain ⟨rfl, rfl⟩ := h; rfl
        · simp at h

theorem viewIfneTail_semi (c : XCfg) (ts r : List Tok) : viewIfneTail c (ts ++ semi :: r) = app (semi :: r) (viewIfneTail c ts) := by
  unfold viewIfneTail ineKws
  split
  · exact kwsTail_semi _ (by simp) ts r
  · rfl

theorem viewOptsForeign_semi (c : XCfg) (ts r : List Tok) : viewOptsForeign c (ts ++ semi :: r) = viewOptsForeign c ts := by
  unfold viewOptsForeign
  simp only [peekAnyKw_semi, peekKw_semi]

theorem nsbAhead_semi (c : XCfg) (ts r : List Tok) : nsbAhead c (ts ++ semi :: r) = nsbAhead c ts := by
  unfold nsbAhead
  rw [eatKws_semi _ (by simp)]
  cases eatKws ts [XK.WITH, XK.NO, XK.SCHEMA, XK.BINDING] <;> rfl

theorem viewBody_semi (c : XCfg) (f d : Nat) (r ts : List Tok) (b : Tok × Source) (rest : List Tok)
    (h : viewBody c f d ts = .ok (b, rest)) : viewBody c f d (ts ++ semi :: r) = .ok (b, rest ++ semi :: r) := by
  unfold viewBody at h ⊢
  simp only [viewOptsForeign_semi, eatKw_semi]
  split at h
  · simp at h
  · rename_i h0
    simp only [h0, if_false]
    split at h
    · simp at h
    · rename_i asKw r0 hk
      simp only [hk, Option.map, app]
      split at h
      · simp at h
      · rename_i q r1 hq
        rw [parseSource_semi c.d r _ _ _ _ _ hq]
        simp only [nsbAhead_semi]
        split at h
        · simp at h
        · rename_i h1
          simp only [h1, if_false]
          simp at h; obtain ⟨rfl, rfl⟩ := h; rfl

theorem parseCreateView_semi (c : XCfg) (f d : Nat) (kw : Tok) (orRep temp r ts : List Tok) (v : CreateView) (rest : List Tok)
    (h : parseCreateView c f d kw orRep temp ts = .ok (v, rest)) :
    parseCreateView c f d kw orRep temp (ts ++ semi :: r) = .ok (v, rest ++ semi :: r) := by
  unfold parseCreateView at h ⊢
  simp only [kwTail_semi, app, eatKw_semi]
  split at h
  · simp at h
  · rename_i vk r0 hk
    simp only [hk, Option.map, app, viewIfneTail_semi]
    split at h
    · simp at h
    · rename_i name r1 hn
      rw [nameElem_semi r _ _ _ hn]
      simp only [bigQueryNameForeign_semi]
      split at h
      · simp at h
      · rename_i h0
        simp only [h0, if_false]
        split at h
        · simp at h
        · rename_i cols r2 hc
          rw [viewColumns_semi c f d r _ _ _ hc]
          simp only
          split at h
          · simp at h
          · rename_i b r3 hb
            rw [viewBody_semi c f d r _ _ _ hb]
            simp at h; obtain ⟨rfl, rfl⟩ := h; rfl

-- ---------------------------------------------------------------- CREATE INDEX
theorem indexName_semi (ifne : Bool) (r ts : List Tok) (nm : List Tok × Tok) (rest : List Tok)
    (h : indexName ifne ts = .ok (nm, rest)) : indexName ifne (ts ++ semi :: r) = .ok (nm, rest ++ semi :: r) := by
  unfold indexName at h ⊢
  simp only [eatKw_semi]
  cases ifne with
  | true =>
    simp only [if_true] at h ⊢
    split at h
    · simp at h
    · rename_i name r0 hn
      rw [nameElem_semi r _ _ _ hn]
      simp only [eatKw_semi]
      split at h
      · simp at h
      · rename_i on r1 ho
        simp only [ho, Option.map, app]
        simp at h; obtain ⟨rfl, rfl⟩ := h; rfl
  | false =>
    simp only [Bool.false_eq_true, if_false] at h ⊢
    split at h
    · rename_i on r0 ho
      simp only [ho, Option.map, app]
      simp at h; obtain ⟨rfl, rfl⟩ := h; rfl
    · rename_i ho
      simp only [ho, Option.map]
      split at h
      · simp at h
      · rename_i name r0 hn
        rw [nameElem_semi r _ _ _ hn]
        simp only [eatKw_semi]
        split at h
        · simp at h
        · rename_i on r1 ho1
          simp only [ho1, Option.map, app]
          simp at h; obtain ⟨rfl, rfl⟩ := h; rfl

theorem indexUsing_semi (r ts us rest : List Tok) (h : indexUsing ts = .ok (us, rest)) :
    indexUsing (ts ++ semi :: r) = .ok (us, rest ++ semi :: r) := by
  unfold indexUsing at h ⊢
  rw [eatKw_semi]
  split at h
  · rename_i hu
    simp at h; obtain ⟨rfl, rfl⟩ := h
    simp [hu]
  · rename_i u r0 hu
    simp only [hu, Option.map, app]
    split at h
    · simp at h
    · rename_i m r1 hm
      rw [identElem_ext _ _ _ _ hm]
      simp at h; obtain ⟨rfl, rfl⟩ := h; rfl

theorem indexHead_semi (c : XCfg) (r ts : List Tok) (hd : IdxHead) (rest : List Tok)
    (h : indexHead c ts = .ok (hd, rest)) : indexHead c (ts ++ semi :: r) = .ok (hd, rest ++ semi :: r) := by
  unfold indexHead at h ⊢
  simp only [ineKws, kwTail_semi, app, kwsTail_semi [XK.IF, XK.NOT, XK.EXISTS] (by simp)]
  simp only [ineKws] at h
  split at h
  · simp at h
  · rename_i nm r1 hn
    rw [indexName_semi _ r _ _ _ hn]
    simp only
    split at h
    · simp at h
    · rename_i table r2 ht
      rw [nameElem_semi r _ _ _ ht]
      simp only
      split at h
      · simp at h
      · rename_i h0
        simp only [h0, if_false]
        split at h
        · simp at h
        · rename_i us r3 hu
          rw [indexUsing_semi r _ _ _ hu]
          simp only
          split at h
          · simp at h
          · rename_i lp r4 hl
            rw [eatSym_ext hl]
            simp at h; obtain ⟨rfl, rfl⟩ := h; rfl

theorem includePart_semi (c : XCfg) (f : Nat) (r ts : List Tok) (inc : List Tok × ParenIds) (rest : List Tok)
    (h : includePart c f ts = .ok (inc, rest)) : includePart c f (ts ++ semi :: r) = .ok (inc, rest ++ semi :: r) := by
  unfold includePart at h ⊢
  rw [eatKw_semi]
  split at h
  · rename_i hk
    simp at h; obtain ⟨rfl, rfl⟩ := h
    simp [hk]
  · rename_i k r0 hk
    simp only [hk, Option.map, app]
    split at h
    · simp at h
    · rename_i lp r1 hl
      rw [eatSym_ext hl]
      simp only
      split at h
      · simp at h
      · rename_i ids r2 hi
        rw [commaSepE_semi _ _ r (fun ts v rest hh => identElem_ext _ ts v rest hh) _ _ _ _ hi]
        simp only
        split at h
        · simp at h
        · rename_i rp r3 hr
          rw [eatSym_ext hr]
          simp at h; obtain ⟨rfl, rfl⟩ := h; rfl

theorem nullsDistinct_semi (r ts nl rest : List Tok) (h : nullsDistinct ts = .ok (nl, rest)) :
    nullsDistinct (ts ++ semi :: r) = .ok (nl, rest ++ semi :: r) := by
  unfold nullsDistinct at h ⊢
  rw [eatKw_semi]
  split at h
  · rename_i hn
    simp at h; obtain ⟨rfl, rfl⟩ := h
    simp [hn]
  · rename_i n r0 hn
    simp only [hn, Option.map, app, kwTail_semi, eatKw_semi]
    split at h
    · simp at h
    · rename_i dk r1 hd
      simp only [hd, Option.map, app]
      simp at h; obtain ⟨rfl, rfl⟩ := h; rfl

theorem indexTail_semi (c : XCfg) (f d : Nat) (r ts : List Tok) (tl : IdxTail) (rest : List Tok)
    (h : indexTail c f d ts = .ok (tl, rest)) : indexTail c f d (ts ++ semi :: r) = .ok (tl, rest ++ semi :: r) := by
  unfold indexTail at h ⊢
  split at h
  · simp at h
  · rename_i inc r1 hi
    rw [includePart_semi c f r _ _ _ hi]
    simp only
    split at h
    · simp at h
    · rename_i nl r2 hn
      rw [nullsDistinct_semi r _ _ _ hn]
      simp only [peekKw_semi]
      split at h
      · simp at h
      · rename_i h0
        simp only [h0, if_false]
        split at h
        · simp at h
        · rename_i w r3 hw
          rw [kwExprPart_semi c.d.q r _ _ _ _ _ _ hw]
          simp at h; obtain ⟨rfl, rfl⟩ := h; rfl

theorem parseCreateIndex_semi (c : XCfg) (f d : Nat) (kw : Tok) (temp ik r ts : List Tok) (i : CreateIndex) (rest : List Tok)
    (h : parseCreateIndex c f d kw temp ik ts = .ok (i, rest)) :
    parseCreateIndex c f d kw temp ik (ts ++ semi :: r) = .ok (i, rest ++ semi :: r) := by
  unfold parseCreateIndex at h ⊢
  split at h
  · simp at h
  · rename_i hd r1 hh
    rw [indexHead_semi c r _ _ _ hh]
    simp only
    split at h
    · simp at h
    · rename_i cols r2 hc
      rw [commaSepE_semi _ _ r (orderByElem_semi c.d.q r f d) _ _ _ _ hc]
      simp only
      split at h
      · simp at h
      · rename_i rp r3 hr
        rw [eatSym_ext hr]
        simp only
        split at h
        · simp at h
        · rename_i tl r4 ht
          rw [indexTail_semi c f d r _ _ _ ht]
          simp at h; obtain ⟨rfl, rfl⟩ := h; rfl

-- ---------------------------------------------------------------- ALTER TABLE, TRUNCATE, DROP
theorem locationAhead_semi (ts r : List Tok) : locationAhead (ts ++ semi :: r) = locationAhead ts := by
  unfold locationAhead
  rw [peekKw_semi, eatKws_semi _ (by simp)]
  cases eatKws ts [XK.SET, XK.LOCATION] <;> rfl

theorem parseAlter_semi (c : XCfg) (f d : Nat) (kw : Tok) (r ts : List Tok) (a : AlterTable) (rest : List Tok)
    (h : parseAlter c f d kw ts = .ok (a, rest)) : parseAlter c f d kw (ts ++ semi :: r) = .ok (a, rest ++ semi :: r) := by
  unfold parseAlter at h ⊢
  simp only [eatKw_semi, peekAnyKw_semi]
  split at h
  · split at h <;> simp at h
  · rename_i tk r0 hk
    simp only [hk, Option.map, app, ieKws, kwsTail_semi [XK.IF, XK.EXISTS] (by simp), kwTail_semi]
    simp only [ieKws] at h
    split at h
    · simp at h
    · rename_i name r1 hn
      rw [nameElem_semi r _ _ _ hn]
      simp only [eatKws_semi [XK.ON, XK.CLUSTER] (by simp)]
      split at h
      · simp at h
      · rename_i h0
        simp only [h0, if_false]
        split at h
        · simp at h
        · rename_i h1
          have h1' : (Option.map (app (semi :: r)) (eatKws r1 [XK.ON, XK.CLUSTER])).isSome = false := by
            cases hh : eatKws r1 [XK.ON, XK.CLUSTER] <;> simp_all
          simp only [h1', Bool.false_eq_true, if_false]
          split at h
          · simp at h
          · rename_i ops r2 ho
            rw [commaSepE_semi _ _ r (alterOp_semi c r f d) _ _ _ _ ho]
            simp only [locationAhead_semi]
            split at h
            · simp at h
            · rename_i h2
              simp only [h2, if_false]
              simp at h; obtain ⟨rfl, rfl⟩ := h; rfl

theorem truncIdentity_semi (c : XCfg) (ts r : List Tok) : truncIdentity c (ts ++ semi :: r) = app (semi :: r) (truncIdentity c ts) := by
  unfold truncIdentity
  split
  · rw [eatKws_semi _ (by simp), kwsTail_semi _ (by simp)]
    cases eatKws ts [XK.RESTART, XK.IDENTITY] <;> simp [app]
  · rfl

theorem truncCascade_semi (c : XCfg) (ts r : List Tok) : truncCascade c (ts ++ semi :: r) = app (semi :: r) (truncCascade c ts) := by
  unfold truncCascade
  split
  · rw [eatKw_semi, kwTail_semi]
    cases eatKw ts XK.CASCADE <;> simp [app]
  · rfl

theorem parseTruncate_semi (c : XCfg) (f : Nat) (kw : Tok) (r ts : List Tok) (t : Truncate) (rest : List Tok)
    (h : parseTruncate c f kw ts = .ok (t, rest)) : parseTruncate c f kw (ts ++ semi :: r) = .ok (t, rest ++ semi :: r) := by
  unfold parseTruncate at h ⊢
  simp only [kwTail_semi, app]
  split at h
  · simp at h
  · rename_i names r1 hn
    rw [commaSepE_semi _ _ r (nameElem_semi r) _ _ _ _ hn]
    simp only [peekKw_semi, truncIdentity_semi, truncCascade_semi, app, eatKws_semi [XK.ON, XK.CLUSTER] (by simp)]
    split at h
    · simp at h
    · rename_i h0
      simp only [h0, if_false]
      split at h
      · simp at h
      · rename_i h1
        simp only [h1, if_false]
        split at h
        · simp at h
        · rename_i h2
          have h2' : (Option.map (app (semi :: r)) (eatKws (truncCascade c (truncIdentity c r1).2).2 [XK.ON, XK.CLUSTER])).isSome = false := by
            cases hh : eatKws (truncCascade c (truncIdentity c r1).2).2 [XK.ON, XK.CLUSTER] <;> simp_all
          simp only [h2', Bool.false_eq_true, if_false]
          simp at h; obtain ⟨rfl, rfl⟩ := h; rfl

theorem parseDropObj_semi (c : XCfg) (f : Nat) (kw kind : Tok) (r ts : List Tok) (dr : Drop) (rest : List Tok)
    (h : parseDropObj c f kw kind ts = .ok (dr, rest)) : parseDropObj c f kw kind (ts ++ semi :: r) = .ok (dr, rest ++ semi :: r) := by
  unfold parseDropObj at h ⊢
  simp only [ieKws, kwsTail_semi [XK.IF, XK.EXISTS] (by simp), app]
  simp only [ieKws] at h
  split at h
  · simp at h
  · rename_i names r1 hn
    rw [commaSepE_semi _ _ r (nameElem_semi r) _ _ _ _ hn]
    simp only [kwTail_semi, app]
    split at h
    · simp at h
    · rename_i h1
      simp only [h1, if_false]
      split at h
      · simp at h
      · rename_i h2
        simp only [h2, if_false]
        split at h
        · simp at h
        · rename_i h3
          simp only [h3, if_false]
          simp at h; obtain ⟨rfl, rfl⟩ := h; rfl

-- ---------------------------------------------------------------- heads and statements
theorem dropHead_semi {ts : List Tok} {kind : Tok} {r0 : List Tok} (h : dropHead ts = some (kind, r0)) (r : List Tok) :
    dropHead (ts ++ semi :: r) = some (kind, r0 ++ semi :: r) := by
  unfold dropHead at h ⊢
  cases ts with
  | nil => simp at h
  | cons t r1 =>
    simp only [List.cons_append] at h ⊢
    split at h
    · rename_i hk; simp at h; obtain ⟨rfl, rfl⟩ := h; simp [hk]
    · simp at h

theorem dropHead_semi_none {ts : List Tok} (h : dropHead ts = none) (r : List Tok) :
    dropHead (ts ++ semi :: r) = none := by
  unfold dropHead at h ⊢
  cases ts with
  | nil => simp [dropKinds, semi_isKw]
  | cons t r1 =>
    simp only [List.cons_append] at h ⊢
    split at h
    · simp at h
    · rename_i hk; simp [hk]

theorem indexKws_semi (ts r : List Tok) : indexKws (ts ++ semi :: r) = (indexKws ts).map (app (semi :: r)) := by
  unfold indexKws
  rw [eatKw_semi, eatKws_semi _ (by simp)]
  cases eatKw ts XK.INDEX <;> simp [app]

/-- what `createHead` answers in front of `;` -/
def CreateHead.ext (S : List Tok) : CreateHead → CreateHead
  | .view o t r => .view o t (r ++ S)
  | .index t ik r => .index t ik (r ++ S)
  | .other => .other

theorem createHeadTail_semi (orRep ts r : List Tok) :
    createHeadTail orRep (ts ++ semi :: r) = (createHeadTail orRep ts).ext (semi :: r) := by
  unfold createHeadTail
  simp only [peekAnyKw_semi, tempTail_semi, app, indexKws_semi]
  split
  · rfl
  · split
    · rfl
    · split
      · rfl
      · cases indexKws (tempTail ts).2 <;> rfl

theorem createHead_semi (ts r : List Tok) : createHead (ts ++ semi :: r) = (createHead ts).ext (semi :: r) := by
  unfold createHead
  simp only [kwsTail_semi [XK.OR, XK.REPLACE] (by simp), app, createHeadTail_semi]

/-- **statement-level extension**: a statement accepted by the model is accepted, with the same
tree, in front of `;` and anything after it -/
theorem parseStmt_semi (c : XCfg) (r : List Tok) (f limit : Nat) (ts : List Tok) (s : Stmt) (rest : List Tok)
    (h : parseStmt c f limit ts = .ok (s, rest)) : parseStmt c f limit (ts ++ semi :: r) = .ok (s, rest ++ semi :: r) := by
  unfold parseStmt at h ⊢
  cases limit with
  | zero => simp at h
  | succ d =>
    simp only at h ⊢
    cases ts with
    | nil => simp at h
    | cons t ts0 =>
      simp only [List.cons_append] at h ⊢
      have hdml : ∀ v rest', SqlVerif.Dml.parseStmt c.d f (d + 1) (t :: ts0) = .ok (v, rest') →
          SqlVerif.Dml.parseStmt c.d f (d + 1) (t :: (ts0 ++ semi :: r)) = .ok (v, rest' ++ semi :: r) :=
        fun v rest' hh => by simpa using SqlVerif.Dml.parseStmt_semi c.d r f (d + 1) (t :: ts0) v rest' hh
      split at h
      · rename_i hs
        simp only [hs, if_true, createHead_semi]
        split at h
        · rename_i o tm r1 hh
          simp only [hh, CreateHead.ext]
          exact mapRes_semi _ (fun v rest hv => parseCreateView_semi c f d _ _ _ r _ _ _ hv) h
        · rename_i tm ik r1 hh
          simp only [hh, CreateHead.ext]
          exact mapRes_semi _ (fun v rest hv => parseCreateIndex_semi c f d _ _ _ r _ _ _ hv) h
        · rename_i hh
          simp only [hh, CreateHead.ext]
          exact mapRes_semi _ hdml h
      · rename_i hs
        simp only [hs, if_false]
        split at h
        · rename_i ha
          simp only [ha, if_true]
          exact mapRes_semi _ (fun v rest hv => parseAlter_semi c f d _ r _ _ _ hv) h
        · rename_i ha
          simp only [ha, if_false]
          split at h
          · rename_i ht
            simp only [ht, if_true]
            exact mapRes_semi _ (fun v rest hv => parseTruncate_semi c f _ r _ _ _ hv) h
          · rename_i ht
            simp only [ht, if_false]
            split at h
            · rename_i hdr
              simp only [hdr, if_true]
              split at h
              · rename_i kind r1 hh
                simp only [dropHead_semi hh]
                exact mapRes_semi _ (fun v rest hv => parseDropObj_semi c f _ _ r _ _ _ hv) h
              · rename_i hh
                simp only [dropHead_semi_none hh]
                exact mapRes_semi _ hdml h
            · rename_i hdr
              simp only [hdr, if_false]
              exact mapRes_semi _ hdml h

/-- an accepted statement never starts with the separator -/
theorem parseStmt_starts (c : XCfg) (f limit : Nat) (ts : List Tok) (s : Stmt) (rest : List Tok)
    (h : parseStmt c f limit ts = .ok (s, rest)) : ∃ t r, ts = t :: r ∧ t.isSym .SemiColon = false := by
  unfold parseStmt at h
  cases limit with
  | zero => simp at h
  | succ d =>
    simp only at h
    cases ts with
    | nil => simp at h
    | cons t ts0 =>
      refine ⟨t, ts0, rfl, ?_⟩
      cases t with
      | sym s =>
        cases s <;> first
          | rfl
          | (exfalso
             simp only [Tok.isKw, Bool.false_eq_true, if_false] at h
             obtain ⟨v, hv, -⟩ := mapRes_ok h
             obtain ⟨t', r', ht, hns⟩ := SqlVerif.Dml.parseStmt_starts _ _ _ _ _ _ hv
             simp at ht; obtain ⟨rfl, -⟩ := ht; simp [Tok.isSym] at hns)
      | _ => rfl

end SqlVerif.Ddl

import SqlVerif.Model.Serde
/-! Lemmas for C17: `de` inverts `ser` on well-typed values of a `SerdeSafe` schema. -/
set_option linter.unusedSimpArgs false
namespace SqlVerif.Serde
open SqlVerif.Schema

/-! ### equations of the struct / variant body helpers -/

theorem serShape_def (sch : Schema) (sh : Shape) (fs : List Val) :
    shapeJson sh (serFields sch sh.fields fs) = serShape sch sh fs := rfl
theorem wtShape_def (sch : Schema) (sh : Shape) (fs : List Val) :
    wtFields sch sh.fields fs = wtShape sch sh fs := rfl

@[simp] theorem serNamed_cons (sch : Schema) (f : Field) (fs : List Field) (v : Val) (vs : List Val) :
    serNamed sch (f :: fs) (v :: vs) = (f.name, ser sch f.ty v) :: serNamed sch fs vs := by
  simp [serNamed, serFields]
@[simp] theorem serShape_unit (sch : Schema) (fs : List Val) : serShape sch .unit fs = .null := by
  simp [serShape, shapeJson]
@[simp] theorem serShape_newtype (sch : Schema) (f : Field) (v : Val) : serShape sch (.newtype f) [v] = ser sch f.ty v := by
  simp [serShape, shapeJson, Shape.fields, serFields]
@[simp] theorem serShape_tuple (sch : Schema) (gs : List Field) (vs : List Val) :
    serShape sch (.tuple gs) vs = .arr (serFields sch gs vs) := by
  simp [serShape, shapeJson, Shape.fields]
@[simp] theorem serShape_struct (sch : Schema) (gs : List Field) (vs : List Val) :
    serShape sch (.struct gs) vs = .obj (serNamed sch gs vs) := by
  simp [serShape, shapeJson, Shape.fields, serNamed]

@[simp] theorem wtShape_unit_nil (sch : Schema) : wtShape sch .unit [] = true := by simp [wtShape, Shape.fields, wtFields]
@[simp] theorem wtShape_unit_cons (sch : Schema) (v : Val) (r : List Val) : wtShape sch .unit (v :: r) = false := by
  simp [wtShape, Shape.fields, wtFields]
@[simp] theorem wtShape_newtype_nil (sch : Schema) (f : Field) : wtShape sch (.newtype f) [] = false := by
  simp [wtShape, Shape.fields, wtFields]
@[simp] theorem wtShape_newtype_one (sch : Schema) (f : Field) (v : Val) : wtShape sch (.newtype f) [v] = wt sch f.ty v := by
  simp [wtShape, Shape.fields, wtFields]
@[simp] theorem wtShape_newtype_more (sch : Schema) (f : Field) (v w : Val) (r : List Val) :
    wtShape sch (.newtype f) (v :: w :: r) = false := by
  simp [wtShape, Shape.fields, wtFields]
@[simp] theorem wtShape_tuple (sch : Schema) (gs : List Field) (vs : List Val) : wtShape sch (.tuple gs) vs = wtFields sch gs vs := by
  simp [wtShape, Shape.fields]
@[simp] theorem wtShape_struct (sch : Schema) (gs : List Field) (vs : List Val) : wtShape sch (.struct gs) vs = wtFields sch gs vs := by
  simp [wtShape, Shape.fields]

/-! ### distinct names -/

theorem strictInc_lt : ∀ (l : List Nat) (a : Nat), strictInc (a :: l) = true → ∀ x ∈ l, a < x
  | [], _, _, x, hx => by simp at hx
  | b :: r, a, h, x, hx => by
    simp only [strictInc, Bool.and_eq_true] at h
    have hab : a < b := by simpa [Nat.blt_eq] using h.1
    rcases List.mem_cons.mp hx with rfl | hx
    · exact hab
    · exact Nat.lt_trans hab (strictInc_lt r b h.2 x hx)

theorem strictInc_tail (a : Nat) (l : List Nat) (h : strictInc (a :: l) = true) : strictInc l = true := by
  cases l with
  | nil => simp [strictInc]
  | cons b r => simp only [strictInc, Bool.and_eq_true] at h; exact h.2

theorem strictInc_nodup : ∀ (l : List Nat), strictInc l = true → l.Nodup
  | [], _ => List.nodup_nil
  | a :: l, h => by
    refine List.nodup_cons.mpr ⟨?_, strictInc_nodup l (strictInc_tail a l h)⟩
    intro hm
    exact Nat.lt_irrefl _ (strictInc_lt l a h a hm)

theorem nodupQuad_nodup : ∀ (l : List Nat), nodupQuad l = true → l.Nodup
  | [], _ => List.nodup_nil
  | a :: l, h => by
    simp only [nodupQuad, Bool.and_eq_true, Bool.not_eq_true'] at h
    refine List.nodup_cons.mpr ⟨?_, nodupQuad_nodup l h.2⟩
    intro hm
    have : l.any (Nat.beq a) = true := List.any_eq_true.mpr ⟨a, hm, by simp⟩
    rw [h.1] at this
    exact Bool.noConfusion this

theorem nodupNat_nodup (l : List Nat) (h : nodupNat l = true) : l.Nodup := by
  unfold nodupNat at h
  rcases Bool.or_eq_true_iff.mp h with h | h
  · exact strictInc_nodup l h
  · exact nodupQuad_nodup l h

theorem findVariant_of_nodup (name : Nat) : ∀ (vs : List Variant) (i k : Nat) (v : Variant),
    (vs.map (·.name)).Nodup → vs[k]? = some v → v.name = name →
    findVariant name vs i = some (i + k, v)
  | [], _, _, _, _, h, _ => by simp at h
  | w :: r, i, 0, v, _, h, hn => by
    simp at h
    subst h
    simp [findVariant, hn]
  | w :: r, i, k + 1, v, hnd, h, hn => by
    simp only [List.map_cons, List.nodup_cons] at hnd
    simp at h
    have hmem : v ∈ r := List.mem_of_getElem? h
    have hne : w.name ≠ name := by
      intro hc
      apply hnd.1
      rw [hc, ← hn]
      exact List.mem_map.mpr ⟨v, hmem, rfl⟩
    simp only [findVariant, hne, if_false]
    rw [findVariant_of_nodup name r (i + 1) k v hnd.2 h hn]
    simp [Nat.add_assoc, Nat.add_comm 1 k]

/-! ### object lookup -/

theorem lookup_append_of_not_mem (k : Nat) : ∀ (pre l : List (Nat × Json)), k ∉ pre.map (·.1) →
    (pre ++ l).lookup k = l.lookup k
  | [], _, _ => rfl
  | (k', j) :: pre, l, h => by
    simp only [List.map_cons, List.mem_cons, not_or] at h
    have hne : (k == k') = false := by simpa using h.1
    simp only [List.cons_append, List.lookup_cons, hne]
    exact lookup_append_of_not_mem k pre l h.2

/-! ### a type that is `nonNull` never serialises to `null` -/

theorem ser_ne_null (sch : Schema) : ∀ (n : Nat) (τ : Ty) (v : Val),
    nonNull sch n τ = true → wt sch τ v = true → ser sch τ v ≠ .null
  | 0, _, _, h, _ => by simp [nonNull] at h
  | n + 1, τ, v, h, hw => by
    cases τ with
    | unit => simp [nonNull] at h
    | float => simp [nonNull] at h
    | other => simp [nonNull] at h
    | opt t => simp [nonNull] at h
    | bool => cases v <;> simp [wt] at hw <;> simp [ser]
    | uint => cases v <;> simp [wt] at hw <;> simp [ser]
    | sint => cases v <;> simp [wt] at hw <;> simp [ser]
    | char => cases v <;> simp [wt] at hw <;> simp [ser]
    | str => cases v <;> simp [wt] at hw <;> simp [ser]
    | vec t => cases v <;> simp [wt] at hw <;> simp [ser]
    | tup ts => cases v <;> simp [wt] at hw <;> simp [ser]
    | box t =>
      cases v <;> simp [wt] at hw
      rename_i v'
      simp only [nonNull] at h
      simpa [ser] using ser_ne_null sch n t v' h hw
    | named id =>
      simp only [nonNull] at h
      cases v with
      | struct fs =>
        simp only [wt, wtShape_def] at hw
        cases hd : sch.get? id with
        | none => simp [hd] at hw
        | some d =>
          cases d with
          | enum _ _ _ _ => simp [hd] at hw
          | struct nm hk a sh =>
            simp only [hd, wtShape_def] at hw h
            cases sh with
            | unit => simp at h
            | tuple gs => simp [ser, hd, serShape_def]
            | struct gs => simp [ser, hd, serShape_def]
            | newtype f =>
              simp only at h
              cases fs with
              | nil => simp at hw
              | cons v' r =>
                cases r with
                | cons _ _ => simp at hw
                | nil =>
                  simp only [wtShape_newtype_one, wtShape_tuple, wtShape_struct] at hw
                  simpa [ser, hd, serShape_def] using ser_ne_null sch n f.ty v' h hw
      | variant k fs =>
        simp only [wt, wtShape_def] at hw
        cases hd : sch.get? id with
        | none => simp [hd] at hw
        | some d =>
          cases d with
          | struct _ _ _ _ => simp [hd] at hw
          | enum nm hk a vs =>
            simp only [hd] at hw
            cases hv : vs[k]? with
            | none => simp [hv] at hw
            | some var =>
              simp only [ser, hd, hv, serShape_def]
              cases var.shape <;> simp
      | _ => simp [wt] at hw

/-! ### list-level round trips, given the round trip of every element -/

/-- every value of the list round-trips when decoded with fuel `n` -/
def GoodAt (sch : Schema) (n : Nat) (v : Val) : Prop :=
  ∀ τ, tySafe sch τ = true → wt sch τ v = true → de sch n τ (ser sch τ v) = some v

theorem vec_roundtrip (sch : Schema) (n : Nat) (t : Ty) (ht : tySafe sch t = true) : ∀ (vs : List Val),
    (∀ v ∈ vs, GoodAt sch n v) → wtList sch t vs = true →
    mapOpt (de sch n t) (serList sch t vs) = some vs
  | [], _, _ => by simp [serList, mapOpt]
  | v :: r, hg, hw => by
    simp only [wtList, Bool.and_eq_true] at hw
    have h1 := hg v (List.mem_cons_self) t ht hw.1
    have h2 := vec_roundtrip sch n t ht r (fun x hx => hg x (List.mem_cons_of_mem _ hx)) hw.2
    simp [serList, mapOpt, h1, h2]

theorem tup_roundtrip (sch : Schema) (n : Nat) : ∀ (ts : List Ty) (vs : List Val),
    (∀ v ∈ vs, GoodAt sch n v) → tySafe.tySafeList sch ts = true → wtTup sch ts vs = true →
    dePositional (de sch n) ts (serTup sch ts vs) = some vs
  | [], [], _, _, _ => by simp [serTup, dePositional]
  | [], _ :: _, _, _, hw => by simp [wtTup] at hw
  | _ :: _, [], _, _, hw => by simp [wtTup] at hw
  | t :: ts, v :: vs, hg, ht, hw => by
    simp only [wtTup, Bool.and_eq_true] at hw
    simp only [tySafe.tySafeList, Bool.and_eq_true] at ht
    have h1 := hg v (List.mem_cons_self) t ht.1 hw.1
    have h2 := tup_roundtrip sch n ts vs (fun x hx => hg x (List.mem_cons_of_mem _ hx)) ht.2 hw.2
    simp [serTup, dePositional, h1, h2]

theorem fields_roundtrip (sch : Schema) (n : Nat) : ∀ (fs : List Field) (vs : List Val),
    (∀ v ∈ vs, GoodAt sch n v) → fs.all (fieldSafe sch) = true → wtFields sch fs vs = true →
    dePositional (de sch n) (fs.map (·.ty)) (serFields sch fs vs) = some vs
  | [], [], _, _, _ => by simp [serFields, dePositional]
  | [], _ :: _, _, _, hw => by simp [wtFields] at hw
  | _ :: _, [], _, _, hw => by simp [wtFields] at hw
  | f :: fs, v :: vs, hg, hs, hw => by
    simp only [wtFields, Bool.and_eq_true] at hw
    simp only [List.all_cons, Bool.and_eq_true, fieldSafe] at hs
    have h1 := hg v (List.mem_cons_self) f.ty hs.1.2 hw.1
    have h2 := fields_roundtrip sch n fs vs (fun x hx => hg x (List.mem_cons_of_mem _ hx))
      (by simpa [fieldSafe] using hs.2) hw.2
    simp [serFields, dePositional, h1, h2]

theorem named_roundtrip (sch : Schema) (n : Nat) : ∀ (fs : List Field) (vs : List Val) (pre : List (Nat × Json)),
    (∀ v ∈ vs, GoodAt sch n v) → fs.all (fieldSafe sch) = true → wtFields sch fs vs = true →
    (fs.map (·.name)).Nodup → (∀ f ∈ fs, f.name ∉ pre.map (·.1)) →
    mapOpt (deField (de sch n) (pre ++ serNamed sch fs vs)) fs = some vs
  | [], [], _, _, _, _, _, _ => by simp [mapOpt]
  | [], _ :: _, _, _, _, hw, _, _ => by simp [wtFields] at hw
  | _ :: _, [], _, _, _, hw, _, _ => by simp [wtFields] at hw
  | f :: fs, v :: vs, pre, hg, hs, hw, hnd, hpre => by
    simp only [wtFields, Bool.and_eq_true] at hw
    simp only [List.all_cons, Bool.and_eq_true, fieldSafe] at hs
    simp only [List.map_cons, List.nodup_cons] at hnd
    have h1 := hg v (List.mem_cons_self) f.ty hs.1.2 hw.1
    have hlook : (pre ++ serNamed sch (f :: fs) (v :: vs)).lookup f.name = some (ser sch f.ty v) := by
      rw [lookup_append_of_not_mem f.name pre _ (hpre f (List.mem_cons_self))]
      simp
    have h2 := named_roundtrip sch n fs vs (pre ++ [(f.name, ser sch f.ty v)])
      (fun x hx => hg x (List.mem_cons_of_mem _ hx)) (by simpa [fieldSafe] using hs.2) hw.2 hnd.2
      (by
        intro g hgm
        simp only [List.map_append, List.map_cons, List.map_nil, List.mem_append, List.mem_singleton, not_or]
        refine ⟨hpre g (List.mem_cons_of_mem _ hgm), ?_⟩
        intro hc
        exact hnd.1 (hc ▸ List.mem_map.mpr ⟨g, hgm, rfl⟩))
    have hassoc : pre ++ serNamed sch (f :: fs) (v :: vs) = (pre ++ [(f.name, ser sch f.ty v)]) ++ serNamed sch fs vs := by
      simp
    have hf : deField (de sch n) (pre ++ serNamed sch (f :: fs) (v :: vs)) f = some v := by
      simp only [deField, hlook, h1]
    rw [hassoc] at hf ⊢
    simp only [mapOpt, hf, h2]

theorem shape_roundtrip (sch : Schema) (n : Nat) (sh : Shape) (fs : List Val)
    (hg : ∀ v ∈ fs, GoodAt sch n v) (hs : shapeSafe sch sh = true) (hw : wtShape sch sh fs = true) :
    deShape (de sch n) sh (serShape sch sh fs) = some fs := by
  cases sh with
  | unit =>
    cases fs with
    | nil => simp [deShape]
    | cons _ _ => simp at hw
  | newtype f =>
    cases fs with
    | nil => simp at hw
    | cons v r =>
      cases r with
      | cons _ _ => simp at hw
      | nil =>
        simp only [wtShape_newtype_one, wtShape_tuple, wtShape_struct] at hw
        simp only [shapeSafe, fieldSafe, Bool.and_eq_true] at hs
        have := hg v (List.mem_cons_self) f.ty hs.2 hw
        simp [deShape, this]
  | tuple gs =>
    simp only [wtShape_newtype_one, wtShape_tuple, wtShape_struct] at hw
    simp only [shapeSafe] at hs
    simp [deShape, fields_roundtrip sch n gs fs hg hs hw]
  | struct gs =>
    simp only [wtShape_newtype_one, wtShape_tuple, wtShape_struct] at hw
    simp only [shapeSafe, Bool.and_eq_true] at hs
    have := named_roundtrip sch n gs fs [] hg hs.1 hw (nodupNat_nodup _ hs.2) (by simp)
    simpa [deShape] using this

/-! ### decoder equations that do not depend on the document -/

theorem de_opt_of_ne_null (sch : Schema) (n : Nat) (t : Ty) (j : Json) (h : j ≠ .null) :
    de sch (n + 1) (.opt t) j = (de sch n t j).map .some := by
  cases j <;> simp [de] at h ⊢

theorem de_box (sch : Schema) (n : Nat) (t : Ty) (j : Json) :
    de sch (n + 1) (.box t) j = (de sch n t j).map .box := by
  cases j <;> simp [de]

theorem defSafe_of_get (sch : Schema) (hs : SerdeSafe sch) (id : Nat) (d : TypeDef) (h : sch.get? id = some d) :
    defSafe sch d = true := by
  unfold SerdeSafe serdeSafe at hs
  exact (List.all_eq_true.mp hs) d (List.mem_of_getElem? h)

theorem size_lt_sizeList : ∀ (vs : List Val) (v : Val), v ∈ vs → size v < sizeList vs
  | [], _, h => by simp at h
  | w :: r, v, h => by
    rcases List.mem_cons.mp h with rfl | h
    · simp [sizeList]; omega
    · have := size_lt_sizeList r v h
      simp [sizeList]; omega

/-! ### the round trip -/

mutual
theorem de_ser_val (sch : Schema) (hs : SerdeSafe sch) : ∀ (v : Val) (n : Nat) (τ : Ty),
    size v < n → tySafe sch τ = true → wt sch τ v = true → de sch n τ (ser sch τ v) = some v
  | .unit, n, τ, hn, ht, hw => by
    cases n with
    | zero => simp at hn
    | succ n => cases τ <;> simp [wt] at hw <;> simp [ser, de]
  | .bool b, n, τ, hn, ht, hw => by
    cases n with
    | zero => simp at hn
    | succ n => cases τ <;> simp [wt] at hw <;> simp [ser, de]
  | .uint k, n, τ, hn, ht, hw => by
    cases n with
    | zero => simp at hn
    | succ n => cases τ <;> simp [wt] at hw <;> simp [ser, de]
  | .sint i, n, τ, hn, ht, hw => by
    cases n with
    | zero => simp at hn
    | succ n => cases τ <;> simp [wt] at hw <;> simp [ser, de]
  | .char c, n, τ, hn, ht, hw => by
    cases n with
    | zero => simp at hn
    | succ n => cases τ <;> simp [wt] at hw <;> simp [ser, de]
  | .str s, n, τ, hn, ht, hw => by
    cases n with
    | zero => simp at hn
    | succ n => cases τ <;> simp [wt] at hw <;> simp [ser, de]
  | .none, n, τ, hn, ht, hw => by
    cases n with
    | zero => simp at hn
    | succ n => cases τ <;> simp [wt] at hw <;> simp [ser, de]
  | .some v, n, τ, hn, ht, hw => by
    cases n with
    | zero => simp at hn
    | succ n =>
      cases τ <;> simp [wt] at hw
      rename_i t
      simp only [tySafe, Bool.and_eq_true] at ht
      have hnn := ser_ne_null sch _ t v ht.1 hw
      have ih := de_ser_val sch hs v n t (by simp [size] at hn; omega) ht.2 hw
      simp only [ser]
      rw [de_opt_of_ne_null sch n t _ hnn, ih]
      rfl
  | .box v, n, τ, hn, ht, hw => by
    cases n with
    | zero => simp at hn
    | succ n =>
      cases τ <;> simp [wt] at hw
      rename_i t
      simp only [tySafe] at ht
      have ih := de_ser_val sch hs v n t (by simp [size] at hn; omega) ht hw
      simp only [ser]
      rw [de_box, ih]
      rfl
  | .vec vs, n, τ, hn, ht, hw => by
    cases n with
    | zero => simp at hn
    | succ n =>
      cases τ <;> simp [wt] at hw
      rename_i t
      simp only [tySafe] at ht
      have hg := de_ser_all sch hs vs n (by simp [size] at hn; omega)
      simp [ser, de, vec_roundtrip sch n t ht vs hg hw]
  | .tup vs, n, τ, hn, ht, hw => by
    cases n with
    | zero => simp at hn
    | succ n =>
      cases τ <;> simp [wt] at hw
      rename_i ts
      simp only [tySafe] at ht
      have hg := de_ser_all sch hs vs n (by simp [size] at hn; omega)
      simp [ser, de, tup_roundtrip sch n ts vs hg ht hw]
  | .struct fs, n, τ, hn, ht, hw => by
    cases n with
    | zero => simp at hn
    | succ n =>
      cases τ with
      | named id =>
        simp only [wt, wtShape_def] at hw
        have hg := de_ser_all sch hs fs n (by simp [size] at hn; omega)
        cases hd : sch.get? id with
        | none => simp [hd] at hw
        | some d =>
          cases d with
          | enum _ _ _ _ => simp [hd] at hw
          | struct nm hk a sh =>
            simp only [hd] at hw
            have hsafe := defSafe_of_get sch hs id _ hd
            simp only [defSafe, Bool.and_eq_true] at hsafe
            have := shape_roundtrip sch n sh fs hg hsafe.2 hw
            simp only [ser, hd, serShape_def]
            cases hj : serShape sch sh fs <;> simp [de, hd, hj] at this ⊢ <;> simp [this]
      | _ => simp [wt] at hw
  | .variant k fs, n, τ, hn, ht, hw => by
    cases n with
    | zero => simp at hn
    | succ n =>
      cases τ with
      | named id =>
        simp only [wt, wtShape_def] at hw
        have hg := de_ser_all sch hs fs n (by simp [size] at hn; omega)
        cases hd : sch.get? id with
        | none => simp [hd] at hw
        | some d =>
          cases d with
          | struct _ _ _ _ => simp [hd] at hw
          | enum nm hk a vs =>
            simp only [hd] at hw
            cases hv : vs[k]? with
            | none => simp [hv] at hw
            | some var =>
              simp only [hv] at hw
              have hsafe := defSafe_of_get sch hs id _ hd
              simp only [defSafe, Bool.and_eq_true] at hsafe
              have hvs : variantSafe sch var = true := (List.all_eq_true.mp hsafe.1.2) var (List.mem_of_getElem? hv)
              simp only [variantSafe, Bool.and_eq_true] at hvs
              have hfind := findVariant_of_nodup var.name vs 0 k var (nodupNat_nodup _ hsafe.2) hv rfl
              simp only [Nat.zero_add] at hfind
              have hrt := shape_roundtrip sch n var.shape fs hg hvs.2 hw
              simp only [ser, hd, hv, serShape_def]
              cases hsh : var.shape with
              | unit =>
                rw [hsh] at hw
                cases fs with
                | nil => simp [de, hd, hfind, hsh]
                | cons _ _ => simp at hw
              | newtype f => rw [hsh] at hrt; simp [de, hd, hfind, hsh, hrt]
              | tuple gs => rw [hsh] at hrt; simp only [serShape_tuple] at hrt; simp [de, hd, hfind, hsh, hrt]
              | struct gs => rw [hsh] at hrt; simp only [serShape_struct] at hrt; simp [de, hd, hfind, hsh, hrt]
      | _ => simp [wt] at hw
theorem de_ser_all (sch : Schema) (hs : SerdeSafe sch) : ∀ (vs : List Val) (n : Nat),
    sizeList vs ≤ n → ∀ v ∈ vs, GoodAt sch n v
  | [], _, _, v, hv => by simp at hv
  | w :: r, n, hn, v, hv => by
    rcases List.mem_cons.mp hv with h | hv
    · have hw' : GoodAt sch n w := fun τ ht hw =>
        de_ser_val sch hs w n τ (by simp [sizeList] at hn; omega) ht hw
      exact h ▸ hw'
    · exact de_ser_all sch hs r n (by simp [sizeList] at hn; omega) v hv
end

end SqlVerif.Serde

import SqlVerif.Lemmas.TclContent
import SqlVerif.Lemmas.DdlFix
/-!
Definitions for the parse → print → parse fixpoint (C01) on the third statement model (`Model/Tcl.lean`):

* `Stmt.norm`     the tree with every stored token replaced by the token `Display` emits for it (what the
                  parser builds when it reads the printed statement back);
* `Stmt.fixKind`  decidable: the statement kinds for which the fixpoint is proved here by direct
                  evaluation of the parser on the printed tokens (`Lemmas/TclFixTx.lean`,
                  `Lemmas/TclFixMisc.lean`): every kind without an expression operand (`SET NAMES` included: its
                  charset / collation come back as one word or one string token with the same text); statements of the first two fragments go through
                  `Ddl.stmt_reparse_sub`.
-/
namespace SqlVerif.Tcl
open SqlVerif.Pratt SqlVerif.Query SqlVerif.Dml SqlVerif.Ddl SqlVerif.Gen

/-- the keywords `Display` writes for an isolation level -/
def IsoLevel.kws : IsoLevel → List Tok
  | .readUncommitted => [kwT "READ", kwT "UNCOMMITTED"]
  | .readCommitted => [kwT "READ", kwT "COMMITTED"]
  | .repeatableRead => [kwT "REPEATABLE", kwT "READ"]
  | .serializable => [kwT "SERIALIZABLE"]

def TMode.norm : TMode → TMode
  | .iso _ l => .iso ([kwT "ISOLATION", kwT "LEVEL"] ++ l.kws) l
  | .readOnly _ => .readOnly [kwT "READ", kwT "ONLY"]
  | .readWrite _ => .readWrite [kwT "READ", kwT "WRITE"]

/-- ` AND CHAIN` -/
def chainNorm (ch : List Tok) : List Tok := if isChain ch then [kwT "AND", kwT "CHAIN"] else []

/-- ` TO SAVEPOINT name` -/
def spNorm (sp : List Tok) : List Tok :=
  match sp.getLast? with
  | some n => [kwT "TO", kwT "SAVEPOINT", n]
  | none => []

/-- `Display for ContextModifier` as tokens -/
def ctxNorm (md : List Tok) : List Tok :=
  if isLocal md then [kwT "LOCAL"] else if md.any (fun t => t.isKw TK.SESSION) then [kwT "SESSION"] else []

/-- the modifier `SetVariable` prints: `LOCAL` or `HIVEVAR` (`SESSION` is dropped) -/
def varMdNorm (md : List Tok) : List Tok :=
  if isLocal md then [kwT "LOCAL"] else if isHivevar md then [kwT "HIVEVAR"] else []

def varColonNorm (md : List Tok) : List Tok := if !isLocal md && isHivevar md then [.sym .Colon] else []

/-- `SET TIME ZONE = v` prints the variable `TIMEZONE`, which is read back as a one-word name -/
def SetTarget.norm : SetTarget → SetTarget
  | .one name => .one name
  | .timeZone _ => .one [kwT "TIMEZONE"]
  | .many _ ids _ => .many (.sym .LParen) (sepNorm id ids) (.sym .RParen)

/-- a word that `Display` writes in upper case although it is no keyword -/
def plainW (name : String) : Tok := .word (str name) none none

def collateNorm (co : List Tok) : List Tok :=
  match co.getLast? with
  | some t => [kwT "COLLATE", (namesPartPiece true t).tok]
  | none => []

def Stmt.norm : Stmt → Stmt
  | .startTx _ _ ms => .startTx (kwT "START") (kwT "TRANSACTION") (sepNorm TMode.norm ms)
  | .begin _ md _ ms => .begin (kwT "BEGIN") (md.map kwNormTok) [kwT "TRANSACTION"] (sepNorm TMode.norm ms)
  | .commit _ _ ch => .commit (kwT "COMMIT") [] (chainNorm ch)
  | .rollback _ _ ch sp => .rollback (kwT "ROLLBACK") [] (chainNorm ch) (spNorm sp)
  | .savepoint _ n => .savepoint (kwT "SAVEPOINT") n
  | .release _ _ n => .release (kwT "RELEASE") [kwT "SAVEPOINT"] n
  | .setRole _ md _ n => .setRole (kwT "SET") (ctxNorm md) (kwT "ROLE") (if n.isKw TK.NONE then kwT "NONE" else n)
  | .setVar _ md _ tg _ _ vs _ =>
    .setVar (kwT "SET") (varMdNorm md) (varColonNorm md) tg.norm (.sym .Eq) (if tg.isMany then [.sym .LParen] else [])
      (sepNorm Expr.norm vs) (if tg.isMany then [.sym .RParen] else [])
  | .setTimeZone _ md _ _ e =>
    .setTimeZone (kwT "SET") (if isLocal md then [kwT "LOCAL"] else []) [] (.timeZone [kwT "TIME", kwT "ZONE"]) e.norm
  | .setNamesDefault _ _ _ _ _ => .setNamesDefault (kwT "SET") [] [] [plainW "NAMES"] (kwT "DEFAULT")
  | .setNames _ _ _ _ cs co => .setNames (kwT "SET") [] [] [plainW "NAMES"] (namesPartPiece true cs).tok (collateNorm co)
  | .setTx _ _ _ _ session ms =>
    if session then
      .setTx (kwT "SET") [kwT "SESSION"] [] [plainW "CHARACTERISTICS", kwT "AS", kwT "TRANSACTION"] true (sepNorm TMode.norm ms)
    else .setTx (kwT "SET") [] [] [kwT "TRANSACTION"] false (sepNorm TMode.norm ms)
  | .useObj _ kind name => .useObj (kwT "USE") (kind.map kwNormTok) name
  | .useDefault _ _ => .useDefault (kwT "USE") (kwT "DEFAULT")
  | .discard _ o => .discard (kwT "DISCARD") (if o.isKw TK.TEMPORARY then kwT "TEMP" else kwNormTok o)
  | .deallocate _ p n => .deallocate (kwT "DEALLOCATE") (if p.isEmpty then [] else [kwT "PREPARE"]) n
  | .close _ w => .close (kwT "CLOSE") (if w.isKw TK.ALL then kwT "ALL" else w)
  | .assert _ e _ m => .assert (kwT "ASSERT") e.norm (match m with | some _ => [kwT "AS"] | none => []) (m.map Expr.norm)
  | .ddl s => .ddl s.norm

/-- the statement kinds of this fragment whose fixpoint is proved by direct evaluation -/
def Stmt.fixKind : Stmt → Bool
  | .setVar _ _ _ _ _ _ _ _ => false
  | .setTimeZone _ _ _ _ _ => false
  | .assert _ _ _ _ => false
  | .ddl _ => false
  | _ => true

end SqlVerif.Tcl

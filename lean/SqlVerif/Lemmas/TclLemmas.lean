import SqlVerif.Model.TclPrint
import SqlVerif.Lemmas.DdlLemmas
/-!
Token yield of the trees of `Model/Tcl.lean` (`flatten`) and the yield theorems: a successful run of
every parser function consumes exactly the tokens its tree keeps.
-/
namespace SqlVerif.Tcl
open SqlVerif.Pratt SqlVerif.Query SqlVerif.Dml SqlVerif.Ddl SqlVerif.Gen

-- ------------------------------------------------------------------ flatten
def TMode.flatten : TMode → List Tok
  | .iso t _ => t
  | .readOnly t => t
  | .readWrite t => t

def SetTarget.flatten : SetTarget → List Tok
  | .one name => name
  | .timeZone tz => tz
  | .many lp ids rp => lp :: sepFlat (fun t => [t]) ids ++ [rp]

def Stmt.flatten : Stmt → List Tok
  | .startTx kw tk ms => kw :: tk :: sepFlat TMode.flatten ms
  | .begin kw md noise ms => kw :: md ++ noise ++ sepFlat TMode.flatten ms
  | .commit kw noise ch => kw :: noise ++ ch
  | .rollback kw noise ch sp => kw :: noise ++ ch ++ sp
  | .savepoint kw n => [kw, n]
  | .release kw sk n => kw :: sk ++ [n]
  | .setRole kw md rk n => kw :: md ++ [rk, n]
  | .setVar kw md colon tg eq lp vs rp => kw :: md ++ colon ++ tg.flatten ++ eq :: lp ++ sepFlat Expr.flatten vs ++ rp
  | .setTimeZone kw md colon tg e => kw :: md ++ colon ++ tg.flatten ++ e.flatten
  | .setNamesDefault kw md colon name d => kw :: md ++ colon ++ name ++ [d]
  | .setNames kw md colon name cs co => kw :: md ++ colon ++ name ++ cs :: co
  | .setTx kw md colon head _ ms => kw :: md ++ colon ++ head ++ sepFlat TMode.flatten ms
  | .useObj kw kind name => kw :: kind ++ name
  | .useDefault kw d => [kw, d]
  | .discard kw o => [kw, o]
  | .deallocate kw p n => kw :: p ++ [n]
  | .close kw w => [kw, w]
  | .assert kw e ak m => kw :: e.flatten ++ ak ++ optFlat m
  | .ddl s => s.flatten

-- ------------------------------------------------------------------ helpers
theorem oneOfTail_yield (ks : List Nat) (ts : List Tok) : ts = (oneOfTail ks ts).1 ++ (oneOfTail ks ts).2 := by
  induction ks with
  | nil => simp [oneOfTail]
  | cons k ks ih =>
    unfold oneOfTail
    split
    · rename_i t r hk; simp [((eatKw_some_iff _ _ _ _).1 hk).1]
    · exact ih

theorem toks_eq_flatten {tg : SetTarget} (h : tg.isMany = false) : tg.toks = tg.flatten := by
  cases tg <;> simp [SetTarget.isMany] at h <;> rfl

-- ------------------------------------------------------------------ transaction modes
theorem isoLevel_yield (il ts : List Tok) (m : TMode) (rest : List Tok) (h : isoLevel il ts = .ok (m, rest)) :
    il ++ ts = m.flatten ++ rest := by
  unfold isoLevel at h
  split at h
  · rename_i l r hk
    have := eatKws_yield _ _ _ _ hk
    simp at h; obtain ⟨rfl, rfl⟩ := h; simp [TMode.flatten, this]
  · split at h
    · rename_i l r hk
      have := eatKws_yield _ _ _ _ hk
      simp at h; obtain ⟨rfl, rfl⟩ := h; simp [TMode.flatten, this]
    · split at h
      · rename_i l r hk
        have := eatKws_yield _ _ _ _ hk
        simp at h; obtain ⟨rfl, rfl⟩ := h; simp [TMode.flatten, this]
      · split at h
        · rename_i t r hk
          obtain ⟨rfl, -⟩ := (eatKw_some_iff _ _ _ _).1 hk
          simp at h; obtain ⟨rfl, rfl⟩ := h; simp [TMode.flatten]
        · simp at h

theorem modeHead_yield (ts : List Tok) (m : Option TMode) (rest : List Tok) (h : modeHead ts = .ok (m, rest)) :
    ts = (match m with | some x => x.flatten | none => []) ++ rest := by
  unfold modeHead at h
  split at h
  · rename_i il r hk
    have h0 := eatKws_yield _ _ _ _ hk
    split at h
    · simp at h
    · rename_i m' r1 hm
      have h1 := isoLevel_yield _ _ _ _ hm
      simp at h; obtain ⟨rfl, rfl⟩ := h
      simp [h0, h1]
  · split at h
    · rename_i l r hk
      have := eatKws_yield _ _ _ _ hk
      simp at h; obtain ⟨rfl, rfl⟩ := h; simp [TMode.flatten, this]
    · split at h
      · rename_i l r hk
        have := eatKws_yield _ _ _ _ hk
        simp at h; obtain ⟨rfl, rfl⟩ := h; simp [TMode.flatten, this]
      · simp at h; obtain ⟨rfl, rfl⟩ := h; simp

theorem modesLoop_yield : ∀ (n : Nat) (req : Bool) (ts : List Tok) (ms : Sep TMode) (rest : List Tok),
    modesLoop n req ts = .ok (ms, rest) → ts = sepFlat TMode.flatten ms ++ rest := by
  intro n
  induction n with
  | zero => intro req ts ms rest h; simp [modesLoop] at h
  | succ n ih =>
    intro req ts ms rest h
    simp only [modesLoop] at h
    split at h
    · simp at h
    · rename_i r0 hm
      have h0 := modeHead_yield _ _ _ hm
      split at h
      · simp at h
      · simp at h; obtain ⟨rfl, rfl⟩ := h; simp [sepFlat]
    · rename_i m r hm
      have h0 := modeHead_yield _ _ _ hm
      split at h
      · rename_i cm r1 hc
        obtain ⟨rfl, -⟩ := eatSym_some hc
        split at h
        · simp at h
        · rename_i ms' r2 hr
          have h1 := ih _ _ _ _ hr
          simp at h; obtain ⟨rfl, rfl⟩ := h
          simp at h0
          simp [sepFlat, h0, h1]
      · split at h
        · simp at h
        · rename_i ms' r2 hr
          have h1 := ih _ _ _ _ hr
          simp at h; obtain ⟨rfl, rfl⟩ := h
          simp at h0
          simp [sepFlat, h0, h1]

theorem parseModes_yield (f : Nat) (ts : List Tok) (ms : Sep TMode) (rest : List Tok)
    (h : parseModes f ts = .ok (ms, rest)) : ts = sepFlat TMode.flatten ms ++ rest :=
  modesLoop_yield _ _ _ _ _ h

-- ------------------------------------------------------------------ START / BEGIN / COMMIT / ROLLBACK / SAVEPOINT / RELEASE
theorem parseStart_yield (f : Nat) (kw : Tok) (ts : List Tok) (s : Stmt) (rest : List Tok)
    (h : parseStart f kw ts = .ok (s, rest)) : kw :: ts = s.flatten ++ rest := by
  unfold parseStart at h
  split at h
  · simp at h
  · rename_i tk r hk
    obtain ⟨rfl, -⟩ := (eatKw_some_iff _ _ _ _).1 hk
    split at h
    · simp at h
    · rename_i ms r1 hm
      have h1 := parseModes_yield _ _ _ _ hm
      simp at h; obtain ⟨rfl, rfl⟩ := h
      simp [Stmt.flatten, h1]

theorem beginModifierTail_yield (c : TCfg) (ts : List Tok) :
    ts = (beginModifierTail c ts).1 ++ (beginModifierTail c ts).2 := by
  unfold beginModifierTail
  split
  · exact oneOfTail_yield _ _
  · simp

theorem parseBegin_yield (c : TCfg) (f : Nat) (kw : Tok) (ts : List Tok) (s : Stmt) (rest : List Tok)
    (h : parseBegin c f kw ts = .ok (s, rest)) : kw :: ts = s.flatten ++ rest := by
  unfold parseBegin at h
  have hb := beginModifierTail_yield c ts
  have hn := oneOfTail_yield txNoise (beginModifierTail c ts).2
  split at h
  · simp at h
  · rename_i ms r1 hm
    have h1 := parseModes_yield _ _ _ _ hm
    simp at h; obtain ⟨rfl, rfl⟩ := h
    simp only [Stmt.flatten]
    generalize beginModifierTail c ts = A at *
    obtain ⟨a1, a2⟩ := A
    generalize oneOfTail txNoise a2 = B at *
    obtain ⟨b1, b2⟩ := B
    simp only at hb hn h1 ⊢
    subst hb hn h1
    simp

theorem chainPart_yield (ts ch rest : List Tok) (h : chainPart ts = .ok (ch, rest)) : ts = ch ++ rest := by
  unfold chainPart at h
  split at h
  · simp at h; obtain ⟨rfl, rfl⟩ := h; simp
  · rename_i a r hk
    obtain ⟨rfl, -⟩ := (eatKw_some_iff _ _ _ _).1 hk
    have hn := kwTail_yield TK.NO r
    split at h
    · simp at h
    · rename_i ck r1 hc
      obtain ⟨h2, -⟩ := (eatKw_some_iff _ _ _ _).1 hc
      simp at h; obtain ⟨rfl, rfl⟩ := h
      generalize kwTail TK.NO r = A at *
      obtain ⟨a1, a2⟩ := A
      simp only at hn h2 ⊢
      subst hn h2
      simp

theorem parseCommit_yield (kw : Tok) (ts : List Tok) (s : Stmt) (rest : List Tok)
    (h : parseCommit kw ts = .ok (s, rest)) : kw :: ts = s.flatten ++ rest := by
  unfold parseCommit at h
  have hn := oneOfTail_yield txNoise ts
  split at h
  · simp at h
  · rename_i ch r hc
    have h1 := chainPart_yield _ _ _ hc
    simp at h; obtain ⟨rfl, rfl⟩ := h
    simp only [Stmt.flatten]
    generalize oneOfTail txNoise ts = B at *
    obtain ⟨b1, b2⟩ := B
    simp only at hn h1 ⊢
    subst hn h1
    simp

theorem rollbackSavepoint_yield (ts sp rest : List Tok) (h : rollbackSavepoint ts = .ok (sp, rest)) : ts = sp ++ rest := by
  unfold rollbackSavepoint at h
  split at h
  · simp at h; obtain ⟨rfl, rfl⟩ := h; simp
  · rename_i t r hk
    obtain ⟨rfl, -⟩ := (eatKw_some_iff _ _ _ _).1 hk
    have hn := kwTail_yield TK.SAVEPOINT r
    split at h
    · simp at h
    · rename_i n r1 hi
      have h2 := identElem_yield _ _ _ hi
      simp at h; obtain ⟨rfl, rfl⟩ := h
      generalize kwTail TK.SAVEPOINT r = A at *
      obtain ⟨a1, a2⟩ := A
      simp only at hn h2 ⊢
      subst hn h2
      simp

theorem parseRollback_yield (kw : Tok) (ts : List Tok) (s : Stmt) (rest : List Tok)
    (h : parseRollback kw ts = .ok (s, rest)) : kw :: ts = s.flatten ++ rest := by
  unfold parseRollback at h
  have hn := oneOfTail_yield txNoise ts
  split at h
  · simp at h
  · rename_i ch r hc
    have h1 := chainPart_yield _ _ _ hc
    split at h
    · simp at h
    · rename_i sp r1 hs
      have h2 := rollbackSavepoint_yield _ _ _ hs
      simp at h; obtain ⟨rfl, rfl⟩ := h
      simp only [Stmt.flatten]
      generalize oneOfTail txNoise ts = B at *
      obtain ⟨b1, b2⟩ := B
      simp only at hn h1 ⊢
      subst hn h1 h2
      simp

theorem parseSavepoint_yield (kw : Tok) (ts : List Tok) (s : Stmt) (rest : List Tok)
    (h : parseSavepoint kw ts = .ok (s, rest)) : kw :: ts = s.flatten ++ rest := by
  unfold parseSavepoint at h
  split at h
  · simp at h
  · rename_i n r hi
    have h2 := identElem_yield _ _ _ hi
    simp at h; obtain ⟨rfl, rfl⟩ := h
    simp [Stmt.flatten, h2]

theorem parseRelease_yield (kw : Tok) (ts : List Tok) (s : Stmt) (rest : List Tok)
    (h : parseRelease kw ts = .ok (s, rest)) : kw :: ts = s.flatten ++ rest := by
  unfold parseRelease at h
  have hn := kwTail_yield TK.SAVEPOINT ts
  split at h
  · simp at h
  · rename_i n r hi
    have h2 := identElem_yield _ _ _ hi
    simp at h; obtain ⟨rfl, rfl⟩ := h
    simp only [Stmt.flatten]
    generalize kwTail TK.SAVEPOINT ts = A at *
    obtain ⟨a1, a2⟩ := A
    simp only at hn h2 ⊢
    subst hn h2
    simp

-- ------------------------------------------------------------------ SET
theorem hivevarColon_yield (md ts colon rest : List Tok) (h : hivevarColon md ts = .ok (colon, rest)) :
    ts = colon ++ rest := by
  unfold hivevarColon at h
  split at h
  · split at h
    · rename_i cl r hc
      obtain ⟨rfl, -⟩ := eatSym_some hc
      simp at h; obtain ⟨rfl, rfl⟩ := h; simp
    · simp at h
  · simp at h; obtain ⟨rfl, rfl⟩ := h; simp

theorem setTarget_yield (c : TCfg) (f : Nat) (ts : List Tok) (tg : SetTarget) (rest : List Tok)
    (h : setTarget c f ts = .ok (tg, rest)) : ts = tg.flatten ++ rest := by
  unfold setTarget at h
  split at h
  · rename_i tz r hk
    have := eatKws_yield _ _ _ _ hk
    simp at h; obtain ⟨rfl, rfl⟩ := h; simp [SetTarget.flatten, this]
  · split at h
    · rename_i lp r hl
      have hl' : eatSym ts .LParen = some (lp, r) := by
        split at hl
        · exact hl
        · simp at hl
      obtain ⟨rfl, -⟩ := eatSym_some hl'
      split at h
      · simp at h
      · rename_i ids r1 hc
        have h1 := commaSepE_yield _ _ (fun t => [t]) (fun ts v rest hv => by simpa using identElem_yield ts v rest hv) _ _ _ _ hc
        split at h
        · rename_i rp r2 hr
          obtain ⟨rfl, -⟩ := eatSym_some hr
          simp at h; obtain ⟨rfl, rfl⟩ := h
          simp [SetTarget.flatten, h1]
        · simp at h
    · split at h
      · simp at h
      · rename_i name r hn
        have h1 := nameElem_yield _ _ _ hn
        split at h
        · simp at h
        · simp at h; obtain ⟨rfl, rfl⟩ := h
          simp [SetTarget.flatten, h1]

theorem literalString_yield (ts : List Tok) (t : Tok) (rest : List Tok) (h : literalString ts = .ok (t, rest)) :
    ts = t :: rest := by
  unfold literalString at h
  split at h
  · simp at h
  · split at h <;> simp at h
    all_goals (obtain ⟨rfl, rfl⟩ := h; rfl)

theorem collatePart_yield (ts co rest : List Tok) (h : collatePart ts = .ok (co, rest)) : ts = co ++ rest := by
  unfold collatePart at h
  split at h
  · simp at h; obtain ⟨rfl, rfl⟩ := h; simp
  · rename_i ck r hk
    obtain ⟨rfl, -⟩ := (eatKw_some_iff _ _ _ _).1 hk
    split at h
    · simp at h
    · rename_i t r1 hl
      have := literalString_yield _ _ _ hl
      simp at h; obtain ⟨rfl, rfl⟩ := h
      simp [this]

theorem parseSetNames_yield (kw : Tok) (md colon name ts : List Tok) (s : Stmt) (rest : List Tok)
    (h : parseSetNames kw md colon name ts = .ok (s, rest)) : kw :: (md ++ colon ++ name ++ ts) = s.flatten ++ rest := by
  unfold parseSetNames at h
  split at h
  · rename_i dk r hk
    obtain ⟨rfl, -⟩ := (eatKw_some_iff _ _ _ _).1 hk
    simp at h; obtain ⟨rfl, rfl⟩ := h
    simp [Stmt.flatten]
  · split at h
    · simp at h
    · rename_i cs r hl
      have h1 := literalString_yield _ _ _ hl
      split at h
      · simp at h
      · rename_i co r1 hc
        have h2 := collatePart_yield _ _ _ hc
        simp at h; obtain ⟨rfl, rfl⟩ := h
        simp [Stmt.flatten, h1, h2]

theorem setValue_yield (c : TCfg) (f d : Nat) (ts : List Tok) (e : Expr) (rest : List Tok)
    (h : setValue c f d ts = .ok (e, rest)) : ts = e.flatten ++ rest := by
  unfold setValue at h
  split at h
  · simp at h
  · exact parseE_yield _ _ _ _ _ _ h

theorem eqOrTo_yield {ts : List Tok} {t : Tok} {r : List Tok} (h : eqOrTo ts = some (t, r)) : ts = t :: r := by
  unfold eqOrTo at h
  split at h
  · rename_i p hp
    simp at h; subst h
    exact (eatSym_some hp).1
  · exact ((eatKw_some_iff _ _ _ _).1 h).1

theorem optLParen_yield (m : Bool) (ts lp rest : List Tok) (h : optLParen m ts = .ok (lp, rest)) : ts = lp ++ rest := by
  unfold optLParen at h
  split at h
  · split at h
    · rename_i t r hc
      obtain ⟨rfl, -⟩ := eatSym_some hc
      simp at h; obtain ⟨rfl, rfl⟩ := h; simp
    · simp at h
  · simp at h; obtain ⟨rfl, rfl⟩ := h; simp

theorem optRParen_yield (m : Bool) (ts rp rest : List Tok) (h : optRParen m ts = .ok (rp, rest)) : ts = rp ++ rest := by
  unfold optRParen at h
  split at h
  · split at h
    · rename_i t r hc
      obtain ⟨rfl, -⟩ := eatSym_some hc
      simp at h; obtain ⟨rfl, rfl⟩ := h; simp
    · simp at h
  · simp at h; obtain ⟨rfl, rfl⟩ := h; simp

theorem parseSetValues_yield (c : TCfg) (f d : Nat) (kw : Tok) (md colon : List Tok) (tg : SetTarget) (eq : Tok)
    (ts : List Tok) (s : Stmt) (rest : List Tok)
    (h : parseSetValues c f d kw md colon tg eq ts = .ok (s, rest)) :
    kw :: (md ++ colon ++ tg.flatten ++ eq :: ts) = s.flatten ++ rest := by
  unfold parseSetValues at h
  split at h
  · simp at h
  · rename_i lp r hl
    have h0 := optLParen_yield _ _ _ _ hl
    split at h
    · simp at h
    · rename_i vs r1 hc
      have h1 := commaSepE_yield _ _ Expr.flatten (setValue_yield c f d) _ _ _ _ hc
      split at h
      · simp at h
      · rename_i rp r2 hr
        have h2 := optRParen_yield _ _ _ _ hr
        simp at h; obtain ⟨rfl, rfl⟩ := h
        simp [Stmt.flatten, h0, h1, h2]

theorem parseSetCharacteristics_yield (f : Nat) (kw : Tok) (md colon name ts : List Tok) (s : Stmt) (rest : List Tok)
    (h : parseSetCharacteristics f kw md colon name ts = .ok (s, rest)) :
    kw :: (md ++ colon ++ name ++ ts) = s.flatten ++ rest := by
  unfold parseSetCharacteristics at h
  split at h
  · simp at h
  · rename_i at_ r hk
    have h0 := eatKws_yield _ _ _ _ hk
    split at h
    · simp at h
    · rename_i ms r1 hm
      have h1 := parseModes_yield _ _ _ _ hm
      simp at h; obtain ⟨rfl, rfl⟩ := h
      simp [Stmt.flatten, h0, h1]

theorem parseSetTransaction_yield (f : Nat) (kw : Tok) (md colon name ts : List Tok) (s : Stmt) (rest : List Tok)
    (h : parseSetTransaction f kw md colon name ts = .ok (s, rest)) :
    kw :: (md ++ colon ++ name ++ ts) = s.flatten ++ rest := by
  unfold parseSetTransaction at h
  split at h
  · simp at h
  · split at h
    · simp at h
    · rename_i ms r1 hm
      have h1 := parseModes_yield _ _ _ _ hm
      simp at h; obtain ⟨rfl, rfl⟩ := h
      simp [Stmt.flatten, h1]

theorem parseSetOther_yield (c : TCfg) (f d : Nat) (kw : Tok) (md colon : List Tok) (tg : SetTarget)
    (ts : List Tok) (s : Stmt) (rest : List Tok)
    (h : parseSetOther c f d kw md colon tg ts = .ok (s, rest)) :
    kw :: (md ++ colon ++ tg.flatten ++ ts) = s.flatten ++ rest := by
  unfold parseSetOther at h
  split at h
  · simp at h
  · rename_i hm
    have ht := toks_eq_flatten (tg := tg) (by simpa using hm)
    split at h
    · split at h
      · simp at h
      · rename_i e r he
        have h1 := parseE_yield _ _ _ _ _ _ he
        simp at h; obtain ⟨rfl, rfl⟩ := h
        simp [Stmt.flatten, h1]
    · split at h
      · rw [ht] at h; exact parseSetCharacteristics_yield _ _ _ _ _ _ _ _ h
      · split at h
        · rw [ht] at h; exact parseSetTransaction_yield _ _ _ _ _ _ _ _ h
        · simp at h

theorem namesBranch_toks {c : TCfg} {tg : SetTarget} (h : namesBranch c tg = true) : tg.toks = tg.flatten := by
  cases tg <;> simp [namesBranch] at h <;> rfl

theorem parseSetVar_yield (c : TCfg) (f d : Nat) (kw : Tok) (md colon : List Tok) (ts : List Tok) (s : Stmt) (rest : List Tok)
    (h : parseSetVar c f d kw md colon ts = .ok (s, rest)) : kw :: (md ++ colon ++ ts) = s.flatten ++ rest := by
  unfold parseSetVar at h
  split at h
  · simp at h
  · rename_i tg r ht
    have h0 := setTarget_yield _ _ _ _ _ ht
    split at h
    · rename_i hb
      rw [namesBranch_toks hb] at h
      have := parseSetNames_yield _ _ _ _ _ _ _ h
      rw [← this, h0]; simp
    · split at h
      · rename_i eq r1 he
        have h1 := eqOrTo_yield he
        have := parseSetValues_yield _ _ _ _ _ _ _ _ _ _ _ h
        rw [← this, h0, h1]; simp
      · have := parseSetOther_yield _ _ _ _ _ _ _ _ _ _ h
        rw [← this, h0]; simp

theorem parseSetRole_yield (kw : Tok) (md : List Tok) (rk : Tok) (ts : List Tok) (s : Stmt) (rest : List Tok)
    (h : parseSetRole kw md rk ts = .ok (s, rest)) : kw :: (md ++ rk :: ts) = s.flatten ++ rest := by
  unfold parseSetRole at h
  split at h
  · simp at h
  · rename_i n r hi
    have h2 := identElem_yield _ _ _ hi
    simp at h; obtain ⟨rfl, rfl⟩ := h
    simp [Stmt.flatten, h2]

theorem roleAhead_some {md ts : List Tok} {rk : Tok} {r : List Tok} (h : roleAhead md ts = some (rk, r)) : ts = rk :: r := by
  unfold roleAhead at h
  split at h
  · simp at h
  · exact ((eatKw_some_iff _ _ _ _).1 h).1

theorem parseSetTail_yield (c : TCfg) (f d : Nat) (kw : Tok) (md : List Tok) (ts : List Tok) (s : Stmt) (rest : List Tok)
    (h : parseSetTail c f d kw md ts = .ok (s, rest)) : kw :: (md ++ ts) = s.flatten ++ rest := by
  unfold parseSetTail at h
  split at h
  · rename_i rk r hr
    rw [roleAhead_some hr]
    exact parseSetRole_yield _ _ _ _ _ _ h
  · split at h
    · simp at h
    · rename_i colon r hc
      have h0 := hivevarColon_yield _ _ _ _ hc
      have := parseSetVar_yield _ _ _ _ _ _ _ _ _ h
      rw [← this, h0]; simp

theorem parseSet_yield (c : TCfg) (f d : Nat) (kw : Tok) (ts : List Tok) (s : Stmt) (rest : List Tok)
    (h : parseSet c f d kw ts = .ok (s, rest)) : kw :: ts = s.flatten ++ rest := by
  unfold parseSet at h
  have := parseSetTail_yield _ _ _ _ _ _ _ _ h
  rw [← this, ← oneOfTail_yield]

-- ------------------------------------------------------------------ USE / DISCARD / DEALLOCATE / CLOSE / ASSERT
theorem useKindTail_yield (c : TCfg) (ts : List Tok) : ts = (useKindTail c ts).1 ++ (useKindTail c ts).2 := by
  unfold useKindTail
  split
  · exact oneOfTail_yield _ _
  · split
    · exact oneOfTail_yield _ _
    · simp

theorem useDefaultAhead_some {c : TCfg} {ts : List Tok} {dk : Tok} {r : List Tok}
    (h : useDefaultAhead c ts = some (dk, r)) : ts = dk :: r := by
  unfold useDefaultAhead at h
  split at h
  · exact ((eatKw_some_iff _ _ _ _).1 h).1
  · simp at h

theorem parseUse_yield (c : TCfg) (kw : Tok) (ts : List Tok) (s : Stmt) (rest : List Tok)
    (h : parseUse c kw ts = .ok (s, rest)) : kw :: ts = s.flatten ++ rest := by
  unfold parseUse at h
  split at h
  · rename_i dk r hd
    simp at h; obtain ⟨rfl, rfl⟩ := h
    simp [Stmt.flatten, useDefaultAhead_some hd]
  · have hk := useKindTail_yield c ts
    split at h
    · simp at h
    · rename_i name r hn
      have h1 := nameElem_yield _ _ _ hn
      split at h
      · simp at h
      · simp at h; obtain ⟨rfl, rfl⟩ := h
        simp only [Stmt.flatten]
        generalize useKindTail c ts = A at *
        obtain ⟨a1, a2⟩ := A
        simp only at hk h1 ⊢
        subst hk h1
        simp

theorem parseDiscard_yield (kw : Tok) (ts : List Tok) (s : Stmt) (rest : List Tok)
    (h : parseDiscard kw ts = .ok (s, rest)) : kw :: ts = s.flatten ++ rest := by
  unfold parseDiscard at h
  split at h
  · simp at h
  · split at h
    · simp at h; obtain ⟨rfl, rfl⟩ := h; simp [Stmt.flatten]
    · simp at h

theorem parseDeallocate_yield (kw : Tok) (ts : List Tok) (s : Stmt) (rest : List Tok)
    (h : parseDeallocate kw ts = .ok (s, rest)) : kw :: ts = s.flatten ++ rest := by
  unfold parseDeallocate at h
  have hn := kwTail_yield TK.PREPARE ts
  split at h
  · simp at h
  · rename_i n r hi
    have h2 := identElem_yield _ _ _ hi
    simp at h; obtain ⟨rfl, rfl⟩ := h
    simp only [Stmt.flatten]
    generalize kwTail TK.PREPARE ts = A at *
    obtain ⟨a1, a2⟩ := A
    simp only at hn h2 ⊢
    subst hn h2
    simp

theorem parseClose_yield (kw : Tok) (ts : List Tok) (s : Stmt) (rest : List Tok)
    (h : parseClose kw ts = .ok (s, rest)) : kw :: ts = s.flatten ++ rest := by
  unfold parseClose at h
  split at h
  · simp at h
  · rename_i n r hi
    have h2 := identElem_yield _ _ _ hi
    simp at h; obtain ⟨rfl, rfl⟩ := h
    simp [Stmt.flatten, h2]

theorem parseAssert_yield (c : TCfg) (f d : Nat) (kw : Tok) (ts : List Tok) (s : Stmt) (rest : List Tok)
    (h : parseAssert c f d kw ts = .ok (s, rest)) : kw :: ts = s.flatten ++ rest := by
  unfold parseAssert at h
  split at h
  · simp at h
  · rename_i e r he
    have h1 := parseE_yield _ _ _ _ _ _ he
    split at h
    · simp at h
    · rename_i m r1 hm
      have h2 := kwExprPart_yield _ _ _ _ _ _ _ hm
      simp at h; obtain ⟨rfl, rfl⟩ := h
      simp [Stmt.flatten, h1, h2]

/-- **yield**: a successful statement parse consumes exactly the tokens of its tree -/
theorem parseStmt_yield (c : TCfg) (f limit : Nat) (ts : List Tok) (s : Stmt) (rest : List Tok)
    (h : parseStmt c f limit ts = .ok (s, rest)) : ts = s.flatten ++ rest := by
  unfold parseStmt at h
  cases limit with
  | zero => simp at h
  | succ d =>
    simp only at h
    cases ts with
    | nil => simp at h
    | cons t r =>
      simp only at h
      by_cases hSTART : t.isKw TK.START = true
      · rw [if_pos hSTART] at h; exact parseStart_yield _ _ _ _ _ h
      rw [if_neg hSTART] at h
      by_cases hBEGIN : t.isKw TK.BEGIN = true
      · rw [if_pos hBEGIN] at h; exact parseBegin_yield _ _ _ _ _ _ h
      rw [if_neg hBEGIN] at h
      by_cases hEND_ : t.isKw TK.END_ = true
      · rw [if_pos hEND_] at h; exact parseCommit_yield _ _ _ _ h
      rw [if_neg hEND_] at h
      by_cases hCOMMIT : t.isKw TK.COMMIT = true
      · rw [if_pos hCOMMIT] at h; exact parseCommit_yield _ _ _ _ h
      rw [if_neg hCOMMIT] at h
      by_cases hROLLBACK : t.isKw TK.ROLLBACK = true
      · rw [if_pos hROLLBACK] at h; exact parseRollback_yield _ _ _ _ h
      rw [if_neg hROLLBACK] at h
      by_cases hSAVEPOINT : t.isKw TK.SAVEPOINT = true
      · rw [if_pos hSAVEPOINT] at h; exact parseSavepoint_yield _ _ _ _ h
      rw [if_neg hSAVEPOINT] at h
      by_cases hRELEASE : t.isKw TK.RELEASE = true
      · rw [if_pos hRELEASE] at h; exact parseRelease_yield _ _ _ _ h
      rw [if_neg hRELEASE] at h
      by_cases hSET : t.isKw TK.SET = true
      · rw [if_pos hSET] at h; exact parseSet_yield _ _ _ _ _ _ _ h
      rw [if_neg hSET] at h
      by_cases hUSE : t.isKw TK.USE = true
      · rw [if_pos hUSE] at h; exact parseUse_yield _ _ _ _ _ h
      rw [if_neg hUSE] at h
      by_cases hDISCARD : t.isKw TK.DISCARD = true
      · rw [if_pos hDISCARD] at h; exact parseDiscard_yield _ _ _ _ h
      rw [if_neg hDISCARD] at h
      by_cases hDEALLOCATE : t.isKw TK.DEALLOCATE = true
      · rw [if_pos hDEALLOCATE] at h; exact parseDeallocate_yield _ _ _ _ h
      rw [if_neg hDEALLOCATE] at h
      by_cases hCLOSE : t.isKw TK.CLOSE = true
      · rw [if_pos hCLOSE] at h; exact parseClose_yield _ _ _ _ h
      rw [if_neg hCLOSE] at h
      by_cases hASSERT : t.isKw TK.ASSERT = true
      · rw [if_pos hASSERT] at h; exact parseAssert_yield _ _ _ _ _ _ _ h
      rw [if_neg hASSERT] at h
      obtain ⟨v, hv, rfl⟩ := mapRes_ok h
      simpa [Stmt.flatten] using SqlVerif.Ddl.parseStmt_yield _ _ _ _ _ _ hv

end SqlVerif.Tcl

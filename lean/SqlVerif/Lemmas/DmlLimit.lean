import SqlVerif.Lemmas.DmlFuel
import SqlVerif.Lemmas.QueryLimit
/-!
Limit lemmas for the statement model (`Model/Dml.lean`), used by `Props/C12Query.lean`.

* `*_lim`: every function, run under remaining depth `d`, answers `Err.rle` or is the run under any
  `d' ≥ d` (`LimR`).  `parseStmt` and `valuesQuery` decrement, `factorPart` tests `d = 0` and passes
  `d - 1` to the derived-table query (its `maybe_parse` passes the limit error on: the model's
  `.error .rle => .error .rle` arm), column types go through `DTy.parseDataType`, whose recursive
  arms are gated off by `typeHeadForeign` (`parseDataType_nonrec_lim`: only the guard of the call
  itself looks at the depth); everything else passes `d` through.
* `DTy.dt_mono_all` / `DTy.parseDataType_lim`: the WHOLE data-type parser (all five functions of its
  mutual block, every recursive arm) is limit-monotone too (compositional proof: `lr_bind` over the
  do-blocks, tactic `lr_auto`).
* `*_norle`: with remaining depth `≥ n + 2` (`n` = remaining tokens; `parseStmt`: limit `≥ n + 3`)
  no function answers `Err.rle`; `parseScript_norle`.
-/
namespace SqlVerif.DTy

/-- the data-type parser on a non-recursive type: only the guard of the call itself looks at the depth -/
theorem parseDataType_nonrec_lim (c : Cfg) (f : Nat) {d d' : Nat} (hd : d ≤ d') (ts : List Tok)
    (h : headNonRec c ts = true) :
    SqlVerif.Query.LRel Err.rle (parseDataType c f d ts) (parseDataType c f d' ts) := by
  cases f with
  | zero => right; simp [parseDataType, parseHelper]
  | succ f =>
    cases d with
    | zero => left; simp [parseDataType, parseHelper]
    | succ d =>
      obtain ⟨d', rfl⟩ : ∃ e, d' = e + 1 := ⟨d' - 1, by omega⟩
      right
      unfold parseDataType
      rw [parseHelper_nonrec c f d d' ts h]

-- ------------------------------------------------------------------ the whole data-type parser
/-- "hits the limit, or is the same outcome" for the data-type parser -/
abbrev LR {α : Type} (x y : Except Err α) : Prop := SqlVerif.Query.LRel Err.rle x y

theorem lr_refl {α : Type} (x : Except Err α) : LR x x := Or.inr rfl

theorem lr_bind {α β : Type} {x y : Except Err α} {k k' : α → Except Err β}
    (hx : LR x y) (hk : ∀ v, LR (k v) (k' v)) : LR (x >>= k) (y >>= k') := by
  rcases hx with h | h
  · left; rw [h]; rfl
  · rw [h]
    cases y with
    | error e => right; rfl
    | ok v => exact hk v

/-- a context that passes the limit error on -/
theorem lr_congr {α β : Type} (F : Except Err α → Except Err β) (hF : F (.error .rle) = .error .rle)
    {x y : Except Err α} (h : LR x y) : LR (F x) (F y) := by
  rcases h with h | h
  · left; rw [h, hF]
  · right; rw [h]

/-- the end of `parseHelper`: errors of the core pass, a type gets its `[]` suffixes -/
def finishCore (c : Cfg) (f : Nat) (core : Except Err (DT × Bool × List Tok)) : Except Err (DT × Bool × List Tok) :=
  match core with
  | .error e => .error e
  | .ok (t, tr, r1) =>
    match suffixLoop c f t r1 with
    | .error e => .error e
    | .ok (t', r2) => .ok (t', tr, r2)

set_option hygiene false in
/-- one block of the mutual induction: steps are depth-independent (`lr_refl`) or one of the five
induction hypotheses at the current depths -/
macro "lr_auto" : tactic =>
  `(tactic| repeat' (first
      | exact lr_refl _
      | exact ihH' _ | exact ihS' _ | exact ihT' _ | exact ihN' _ | exact ihX' _
      | (refine lr_bind ?_ (fun _ => ?_))
      | split))

theorem dt_mono_all (c : Cfg) (f : Nat) : ∀ d d', d ≤ d' →
    (∀ ts, LR (parseHelper c f d ts) (parseHelper c f d' ts)) ∧
    (∀ ts, LR (structLoop c f d ts) (structLoop c f d' ts)) ∧
    (∀ ts, LR (tupleLoop c f d ts) (tupleLoop c f d' ts)) ∧
    (∀ ts, LR (namedLoop c f d ts) (namedLoop c f d' ts)) ∧
    (∀ ts, LR (nestedLoop c f d ts) (nestedLoop c f d' ts)) := by
  induction f with
  | zero =>
    intro d d' _
    refine ⟨?_, ?_, ?_, ?_, ?_⟩ <;> intro ts <;> right <;>
      simp [parseHelper, structLoop, tupleLoop, namedLoop, nestedLoop]
  | succ f ih =>
    intro d d' hd
    obtain ⟨ihH', ihS', ihT', ihN', ihX'⟩ := ih d d' hd
    refine ⟨?_, ?_, ?_, ?_, ?_⟩
    · -- parseHelper
      intro ts
      cases d with
      | zero => left; simp [parseHelper]
      | succ d =>
        obtain ⟨d', rfl⟩ : ∃ e, d' = e + 1 := ⟨d' - 1, by omega⟩
        obtain ⟨ihH', ihS', ihT', ihN', ihX'⟩ := ih d d' (by omega)
        cases ts with
        | nil => right; simp [parseHelper]
        | cons x r =>
          cases x with
          | word v q kw =>
            simp only [parseHelper]
            show LR (finishCore c f _) (finishCore c f _)
            refine lr_congr (finishCore c f) rfl ?_
            cases headOf c kw with
            | none => exact lr_refl _
            | some hd =>
              cases hd
              case structDuck =>
                simp only
                refine lr_bind (lr_refl _) (fun r1 => ?_)
                rcases ihN' r1 with h | h
                · left; rw [h]
                · right; rw [h]
              all_goals (simp only; lr_auto)
          | _ => right; simp [parseHelper]
    · intro ts
      simp only [structLoop]
      lr_auto
    · intro ts
      simp only [tupleLoop]
      lr_auto
    · intro ts
      simp only [namedLoop]
      lr_auto
    · intro ts
      simp only [nestedLoop]
      lr_auto

/-- **limit monotonicity of `Parser::parse_data_type`** (the whole data-type model, recursive arms
included: ARRAY / STRUCT / UNION / MAP / NESTED / TUPLE / Nullable / LowCardinality; the DuckDB
`STRUCT(` body, whose error is replaced when `)` is missing too, passes the limit error on first) -/
theorem parseDataType_lim (c : Cfg) (f : Nat) {d d' : Nat} (h : d ≤ d') (ts : List Tok) :
    LR (parseDataType c f d ts) (parseDataType c f d' ts) := by
  unfold parseDataType
  rcases (dt_mono_all c f d d' h).1 ts with h1 | h1
  · left; rw [h1]
  · right; rw [h1]

end SqlVerif.DTy

namespace SqlVerif.Dml
open SqlVerif.Pratt SqlVerif.Query SqlVerif.Gen

theorem colType_lim (c : DCfg) (f : Nat) {d d' : Nat} (h : d ≤ d') (ts : List Tok) :
    LimR (colType c f d ts) (colType c f d' ts) := by
  unfold colType
  cases hf : typeHeadForeign c ts with
  | true => right; rfl
  | false =>
    simp only [Bool.false_eq_true, if_false]
    rcases SqlVerif.DTy.parseDataType_nonrec_lim c.dt f h _ (toDTok_nonrec c ts hf) with h1 | h1
    · left; rw [h1]; rfl
    · rw [h1]; right; rfl

theorem rowBody_lim (c : DCfg) (f : Nat) {d d' : Nat} (h : d ≤ d') (rk ts : List Tok) :
    LimR (rowBody c f d rk ts) (rowBody c f d' rk ts) := by
  unfold rowBody
  split
  · right; rfl
  · rename_i lp r _
    split
    · right; rfl
    · lr_step commaSepE_lim c.tc _ _ (parseE_lim c.q f h) f r
      right; rfl

theorem valuesRow_lim (c : DCfg) (f : Nat) {d d' : Nat} (h : d ≤ d') (ts : List Tok) :
    LimR (valuesRow c f d ts) (valuesRow c f d' ts) := rowBody_lim c f h _ _

theorem valuesQuery_lim (c : DCfg) (f : Nat) {d d' : Nat} (h : d ≤ d') (kw : Tok) (ts : List Tok) :
    LimR (valuesQuery c f d kw ts) (valuesQuery c f d' kw ts) := by
  cases d with
  | zero => left; simp [valuesQuery]
  | succ d =>
    obtain ⟨d', rfl⟩ : ∃ e, d' = e + 1 := ⟨d' - 1, by omega⟩
    have hd : d ≤ d' := by omega
    simp only [valuesQuery]
    lr_step commaSepE_lim c.tc _ _ (valuesRow_lim c f hd) f ts
    cases commaSepE c.tc (valuesRow c f d') f ts with
    | error er => right; rfl
    | ok v =>
      obtain ⟨rows, r1⟩ := v
      simp only
      split
      · right; rfl
      · lr_step queryTail_lim c.q f hd r1
        right; rfl

theorem parseSource_lim (c : DCfg) (f : Nat) {d d' : Nat} (h : d ≤ d') (ts : List Tok) :
    LimR (parseSource c f d ts) (parseSource c f d' ts) := by
  unfold parseSource
  split
  · rename_i kw r _
    lr_step valuesQuery_lim c f h kw r
    right; rfl
  · lr_step (qlim_mono_all c.q f d d' h).1 ts
    right; rfl

theorem retPart_lim (c : DCfg) (f : Nat) {d d' : Nat} (h : d ≤ d') (ts : List Tok) :
    LimR (retPart c f d ts) (retPart c f d' ts) := by
  unfold retPart
  split
  · rename_i kw r _
    lr_step commaSepE_lim c.tc _ _ (selectItem_lim c.q f h) f r
    right; rfl
  · right; rfl

theorem insertBody_lim (c : DCfg) (f : Nat) {d d' : Nat} (h : d ≤ d') (ts : List Tok) :
    LimR (insertBody c f d ts) (insertBody c f d' ts) := by
  unfold insertBody
  split
  · right; rfl
  · split
    · right; rfl
    · rename_i cols r1 _
      split
      · right; rfl
      · split
        · right; rfl
        · lr_step parseSource_lim c f h r1
          right; rfl

theorem parseInsert_lim (c : DCfg) (f : Nat) {d d' : Nat} (h : d ≤ d') (kw : Tok) (ts : List Tok) :
    LimR (parseInsert c f d kw ts) (parseInsert c f d' kw ts) := by
  unfold parseInsert
  split
  · right; rfl
  split
  · right; rfl
  split
  · right; rfl
  · rename_i name r1 _
    split
    · right; rfl
    split
    · right; rfl
    lr_step insertBody_lim c f h r1
    cases insertBody c f d' r1 with
    | error er => right; rfl
    | ok v =>
      obtain ⟨cs, r2⟩ := v
      simp only
      split
      · right; rfl
      · lr_step retPart_lim c f h r2
        right; rfl

theorem factorPart_lim (c : QCfg) (f : Nat) {d d' : Nat} (h : d ≤ d') (ts : List Tok) :
    LimR (factorPart c f d ts) (factorPart c f d' ts) := by
  unfold factorPart
  by_cases hd0 : d = 0
  · left; simp [hd0]
  · have hd0' : d' ≠ 0 := by omega
    simp only [hd0, hd0', if_false]
    cases factorHead c ts with
    | error er => right; rfl
    | ok fh =>
      cases fh with
      | table name al r => right; rfl
      | paren lp r =>
        simp only
        lr_step (qlim_mono_all c f (d - 1) (d' - 1) (by omega)).1 r
        right; rfl

theorem twj_lim (c : QCfg) {d d' : Nat} (h : d ≤ d') :
    ∀ (f : Nat) (conn : Conn) (ts : List Tok), LimR (twj c f d conn ts) (twj c f d' conn ts) := by
  intro f
  induction f with
  | zero => intro conn ts; right; simp [twj]
  | succ f ih =>
    intro conn ts
    simp only [twj]
    lr_step factorPart_lim c f h ts
    cases factorPart c f d' ts with
    | error er => right; rfl
    | ok v =>
      obtain ⟨fac, r⟩ := v
      simp only
      lr_step optCstr_lim c f h conn.hasCstr r
      cases optCstr c f d' conn.hasCstr r with
      | error er => right; rfl
      | ok v =>
        obtain ⟨k, ts1⟩ := v
        simp only
        cases joinHead ts1 with
        | error er => right; rfl
        | ok jh =>
          cases jh with
          | stop => right; rfl
          | join jk toks r2 =>
            simp only
            lr_step ih (.join jk toks) r2
            right; rfl

theorem assignment_lim (c : DCfg) (f : Nat) {d d' : Nat} (h : d ≤ d') (ts : List Tok) :
    LimR (assignment c f d ts) (assignment c f d' ts) := by
  unfold assignment
  split
  · right; rfl
  · split
    · right; rfl
    · rename_i eq r1 _
      lr_step parseE_lim c.q f h r1
      right; rfl

theorem updateFromPart_lim (c : DCfg) (f : Nat) {d d' : Nat} (h : d ≤ d') (ts : List Tok) :
    LimR (updateFromPart c f d ts) (updateFromPart c f d' ts) := by
  unfold updateFromPart
  split
  · right; rfl
  · rename_i kw r _
    split
    · lr_step twj_lim c.q h f (.from kw) r
      right; rfl
    · right; rfl

theorem parseUpdate_lim (c : DCfg) (f : Nat) {d d' : Nat} (h : d ≤ d') (kw : Tok) (ts : List Tok) :
    LimR (parseUpdate c f d kw ts) (parseUpdate c f d' kw ts) := by
  unfold parseUpdate
  lr_step twj_lim c.q h f (.from kw) ts
  cases twj c.q f d' (.from kw) ts with
  | error er => right; rfl
  | ok v =>
    obtain ⟨tbl, r1⟩ := v
    simp only
    split
    · right; rfl
    · rename_i setKw r2 _
      lr_step commaSepE_lim c.tc _ _ (assignment_lim c f h) f r2
      cases commaSepE c.tc (assignment c f d') f r2 with
      | error er => right; rfl
      | ok v =>
        obtain ⟨as, r3⟩ := v
        simp only
        lr_step updateFromPart_lim c f h r3
        cases updateFromPart c f d' r3 with
        | error er => right; rfl
        | ok v =>
          obtain ⟨fr, r4⟩ := v
          simp only
          lr_step kwExprPart_lim c.q f h DK.WHERE r4
          cases kwExprPart c.q f d' DK.WHERE r4 with
          | error er => right; rfl
          | ok v =>
            obtain ⟨w, r5⟩ := v
            simp only
            lr_step retPart_lim c f h r5
            right; rfl

theorem usingPart_lim (c : DCfg) (f : Nat) {d d' : Nat} (h : d ≤ d') (ts : List Tok) :
    LimR (usingPart c f d ts) (usingPart c f d' ts) := by
  unfold usingPart
  split
  · exact (qlim_mono_all c.q f d d' h).2.2.2.2.1 _ _
  · right; rfl

theorem deleteOrderPart_lim (c : DCfg) (f : Nat) {d d' : Nat} (h : d ≤ d') (ts : List Tok) :
    LimR (deleteOrderPart c f d ts) (deleteOrderPart c f d' ts) := by
  unfold deleteOrderPart
  split
  · rename_i kws r _
    lr_step commaSepE_lim c.tc _ _ (orderByElem_lim c.q f h) f r
    right; rfl
  · right; rfl

theorem deleteLimitPart_lim (c : DCfg) (f : Nat) {d d' : Nat} (h : d ≤ d') (ts : List Tok) :
    LimR (deleteLimitPart c f d ts) (deleteLimitPart c f d' ts) := by
  unfold deleteLimitPart
  split
  · rename_i kw r _
    split
    · right; rfl
    · lr_step parseE_lim c.q f h r
      right; rfl
  · right; rfl

theorem parseDelete_lim (c : DCfg) (f : Nat) {d d' : Nat} (h : d ≤ d') (kw : Tok) (ts : List Tok) :
    LimR (parseDelete c f d kw ts) (parseDelete c f d' kw ts) := by
  unfold parseDelete
  split
  · right; rfl
  · rename_i hd r1 _
    lr_step (qlim_mono_all c.q f d d' h).2.2.2.2.1 (.from hd.2) r1
    cases fromItems c.q f d' (.from hd.2) r1 with
    | error er => right; rfl
    | ok v =>
      obtain ⟨frm, r2⟩ := v
      simp only
      lr_step usingPart_lim c f h r2
      cases usingPart c f d' r2 with
      | error er => right; rfl
      | ok v =>
        obtain ⟨us, r3⟩ := v
        simp only
        lr_step kwExprPart_lim c.q f h DK.WHERE r3
        cases kwExprPart c.q f d' DK.WHERE r3 with
        | error er => right; rfl
        | ok v =>
          obtain ⟨w, r4⟩ := v
          simp only
          lr_step retPart_lim c f h r4
          cases retPart c f d' r4 with
          | error er => right; rfl
          | ok v =>
            obtain ⟨ret, r5⟩ := v
            simp only
            lr_step deleteOrderPart_lim c f h r5
            cases deleteOrderPart c f d' r5 with
            | error er => right; rfl
            | ok v =>
              obtain ⟨ob, r6⟩ := v
              simp only
              lr_step deleteLimitPart_lim c f h r6
              right; rfl

theorem checkTail_lim (c : DCfg) (f : Nat) {d d' : Nat} (h : d ≤ d') (kw : Tok) (ts : List Tok) :
    LimR (checkTail c f d kw ts) (checkTail c f d' kw ts) := by
  unfold checkTail
  split
  · right; rfl
  · rename_i lp r _
    lr_step parseE_lim c.q f h r
    right; rfl

theorem defaultTail_lim (c : DCfg) (f : Nat) {d d' : Nat} (h : d ≤ d') (kw : Tok) (ts : List Tok) :
    LimR (defaultTail c f d kw ts) (defaultTail c f d' kw ts) := by
  unfold defaultTail
  lr_step parseE_lim c.q f h ts
  right; rfl

theorem colOption_lim (c : DCfg) (f : Nat) {d d' : Nat} (h : d ≤ d') (ts : List Tok) :
    LimR (colOption c f d ts) (colOption c f d' ts) := by
  unfold colOption
  repeat' split
  all_goals first
    | (right; rfl)
    | exact defaultTail_lim c f h _ _
    | exact checkTail_lim c f h _ _

theorem colOpts_lim (c : DCfg) (f : Nat) {d d' : Nat} (h : d ≤ d') :
    ∀ (n : Nat) (ts : List Tok), LimR (colOpts c f d n ts) (colOpts c f d' n ts) := by
  intro n
  induction n with
  | zero => intro ts; right; simp [colOpts]
  | succ n ih =>
    intro ts
    simp only [colOpts]
    split
    · right; rfl
    · lr_step colOption_lim c f h ts
      cases colOption c f d' ts with
      | error er => right; rfl
      | ok v =>
        obtain ⟨o, r⟩ := v
        cases o with
        | none dr => right; rfl
        | opt o =>
          simp only
          lr_step ih r
          right; rfl

theorem colTypePart_lim (c : DCfg) (f : Nat) {d d' : Nat} (h : d ≤ d') (ts : List Tok) :
    LimR (colTypePart c f d ts) (colTypePart c f d' ts) := by
  unfold colTypePart
  split
  · right; rfl
  · exact colType_lim c f h ts

theorem columnDef_lim (c : DCfg) (f : Nat) {d d' : Nat} (h : d ≤ d') (ts : List Tok) :
    LimR (columnDef c f d ts) (columnDef c f d' ts) := by
  unfold columnDef
  split
  · right; rfl
  · rename_i name r _
    lr_step colTypePart_lim c f h r
    cases colTypePart c f d' r with
    | error er => right; rfl
    | ok v =>
      obtain ⟨ty, r1⟩ := v
      simp only
      split
      · right; rfl
      · lr_step colOpts_lim c f h f r1
        right; rfl

theorem colLoop_lim (c : DCfg) (f : Nat) {d d' : Nat} (h : d ≤ d') :
    ∀ (n : Nat) (ts : List Tok), LimR (colLoop c f d n ts) (colLoop c f d' n ts) := by
  intro n
  induction n with
  | zero => intro ts; right; simp [colLoop]
  | succ n ih =>
    intro ts
    simp only [colLoop]
    split
    · right; rfl
    split
    · right; rfl
    lr_step columnDef_lim c f h ts
    cases columnDef c f d' ts with
    | error er => right; rfl
    | ok v =>
      obtain ⟨cd, r1⟩ := v
      simp only
      cases colEnd c.tc r1 with
      | bad => right; rfl
      | close cm rp r2 => right; rfl
      | more cm r2 =>
        simp only
        lr_step ih r2
        right; rfl

theorem parseColumns_lim (c : DCfg) (f : Nat) {d d' : Nat} (h : d ≤ d') (ts : List Tok) :
    LimR (parseColumns c f d ts) (parseColumns c f d' ts) := by
  unfold parseColumns
  split
  · right; rfl
  · rename_i lp r _
    split
    · right; rfl
    · lr_step colLoop_lim c f h f r
      right; rfl

theorem parseCreate_lim (c : DCfg) (f : Nat) {d d' : Nat} (h : d ≤ d') (kw : Tok) (ts : List Tok) :
    LimR (parseCreate c f d kw ts) (parseCreate c f d' kw ts) := by
  unfold parseCreate
  split
  · right; rfl
  split
  · right; rfl
  split
  · right; rfl
  split
  · right; rfl
  · split
    · right; rfl
    · rename_i name r1 _
      split
      · right; rfl
      split
      · right; rfl
      lr_step parseColumns_lim c f h r1
      right; rfl

theorem mapRes_lim {α β : Type} (g : α → β) {x y : Res α} (h : LimR x y) : LimR (mapRes g x) (mapRes g y) := by
  rcases h with h | h
  · left; rw [h]; rfl
  · right; rw [h]

/-- **limit monotonicity of `parse_statement`** (statement model) -/
theorem parseStmt_lim (c : DCfg) (f : Nat) {L L' : Nat} (h : L ≤ L') (ts : List Tok) :
    LimR (parseStmt c f L ts) (parseStmt c f L' ts) := by
  cases L with
  | zero => left; simp [parseStmt]
  | succ d =>
    obtain ⟨d', rfl⟩ : ∃ e, L' = e + 1 := ⟨L' - 1, by omega⟩
    have hd : d ≤ d' := by omega
    unfold parseStmt
    cases ts with
    | nil => right; rfl
    | cons t r =>
      simp only
      split
      · exact mapRes_lim _ ((qlim_mono_all c.q f d d' hd).1 _)
      split
      · exact mapRes_lim _ (valuesQuery_lim c f hd _ _)
      split
      · exact mapRes_lim _ (parseInsert_lim c f hd _ _)
      split
      · exact mapRes_lim _ (parseUpdate_lim c f hd _ _)
      split
      · exact mapRes_lim _ (parseDelete_lim c f hd _ _)
      split
      · exact mapRes_lim _ (parseCreate_lim c f hd _ _)
      split
      · right; rfl
      split
      · exact mapRes_lim _ ((qlim_mono_all c.q f d d' hd).1 _)
      · right; rfl
      · right; rfl

theorem parseScript_lim (c : DCfg) (f : Nat) {L L' : Nat} (h : L ≤ L') (ts : List Tok) :
    parseScript c f L ts = .error (.stmt .rle) ∨ parseScript c f L ts = parseScript c f L' ts :=
  SqlVerif.Stmts.loop_congr stmtClass (parseStmt c f L) (parseStmt c f L') Pratt.Err.rle
    (fun ts' => parseStmt_lim c f h ts') _ _ _ _


theorem nameElem_ne_rle (ts : List Tok) : nameElem ts ≠ .error .rle := objectName_ne_rle _ _

theorem dtErr_rle {e : SqlVerif.DTy.Err} (h : dtErr e = .rle) : e = .rle := by
  cases e <;> simp [dtErr, syn] at h ⊢

theorem dialectOpt_ne_rle (ok : Bool) (t : Tok) (r : List Tok) : dialectOpt ok t r ≠ .error .rle := by
  unfold dialectOpt
  repeat' split
  all_goals (simp; done)

theorem colOptionTail_ne_rle (c : DCfg) (ts : List Tok) : colOptionTail c ts ≠ .error .rle := by
  unfold colOptionTail
  repeat' split
  all_goals first
    | (simp; done)
    | exact dialectOpt_ne_rle _ _ _

theorem commentTail_ne_rle (kw : Tok) (ts : List Tok) : commentTail kw ts ≠ .error .rle := by
  unfold commentTail
  split <;> simp

theorem ccTail_ne_rle (o : ColOpt) (ts : List Tok) : ccTail o ts ≠ .error .rle := by
  unfold ccTail
  split <;> simp

theorem rowBody_norle (c : DCfg) (f : Nat) {d : Nat} (rk ts : List Tok) (h : ts.length + 2 ≤ d) :
    rowBody c f d rk ts ≠ .error .rle := by
  unfold rowBody
  split
  · simp
  · rename_i lp r hs
    have h1 := eatSym_len hs
    split
    · simp
    · split
      · nr_err commaSepE_norle _ _ (fun _ _ _ => parseE_le) f r
          (fun ts' h' => parseE_norle c.q f ts' (by omega))
      · split <;> simp

theorem valuesRow_norle (c : DCfg) (f : Nat) {d : Nat} (ts : List Tok) (h : ts.length + 2 ≤ d) :
    valuesRow c f d ts ≠ .error .rle := by
  unfold valuesRow
  have := kwTail_le DK.ROW ts
  exact rowBody_norle c f _ _ (by omega)

theorem valuesQuery_norle (c : DCfg) (f : Nat) {d : Nat} (kw : Tok) (ts : List Tok) (h : ts.length + 3 ≤ d) :
    valuesQuery c f d kw ts ≠ .error .rle := by
  cases d with
  | zero => omega
  | succ d =>
    simp only [valuesQuery]
    split
    · nr_err commaSepE_norle _ _ (fun _ _ _ => valuesRow_le) f ts
        (fun ts' h' => valuesRow_norle c f ts' (by omega))
    · rename_i rows r1 hr
      have h1 := commaSepE_le _ _ (fun _ _ _ => valuesRow_le) _ _ _ _ hr
      split
      · simp
      · split
        · nr_err queryTail_norle c.q f r1 (by omega)
        · simp

theorem parseSource_norle (c : DCfg) (f : Nat) {d : Nat} (ts : List Tok) (h : ts.length + 2 ≤ d) :
    parseSource c f d ts ≠ .error .rle := by
  unfold parseSource
  split
  · rename_i kw r hk
    have h1 := eatKw_len hk
    split
    · nr_err valuesQuery_norle c f kw r (by omega)
    · simp
  · split
    · nr_err (qnorle_all c.q f).1 d ts h
    · simp

theorem parenIds_norle (c : DCfg) (f : Nat) (ae : Bool) (ts : List Tok) :
    parenIds c f ae ts ≠ .error .rle := by
  unfold parenIds
  split
  · simp
  · split
    · simp
    · split
      · nr_err commaSepE_norle _ _ (fun _ _ _ => identElem_le) f _
          (fun ts' _ => identElem_ne_rle ts')
      · split <;> simp

theorem retPart_norle (c : DCfg) (f : Nat) {d : Nat} (ts : List Tok) (h : ts.length + 2 ≤ d) :
    retPart c f d ts ≠ .error .rle := by
  unfold retPart
  split
  · rename_i kw r hk
    have h1 := eatKw_len hk
    split
    · nr_err commaSepE_norle _ _ (fun _ _ _ => selectItem_le) f r
        (fun ts' h' => selectItem_norle c.q f ts' (by omega))
    · simp
  · simp

theorem insertBody_norle (c : DCfg) (f : Nat) {d : Nat} (ts : List Tok) (h : ts.length + 2 ≤ d) :
    insertBody c f d ts ≠ .error .rle := by
  unfold insertBody
  split
  · simp
  · split
    · nr_err parenIds_norle c f _ ts
    · rename_i cols r1 hp
      have h1 := parenIds_le hp
      split
      · simp
      · split
        · simp
        · split
          · nr_err parseSource_norle c f r1 (by omega)
          · simp

theorem parseInsert_norle (c : DCfg) (f : Nat) {d : Nat} (kw : Tok) (ts : List Tok) (h : ts.length + 2 ≤ d) :
    parseInsert c f d kw ts ≠ .error .rle := by
  unfold parseInsert
  have h0 := kwTail_le DK.INTO ts
  have h0' := kwTail_le DK.TABLE (kwTail DK.INTO ts).2
  split
  · simp
  split
  · simp
  split
  · nr_err nameElem_ne_rle _
  · rename_i name r1 hn
    have h1 := nameElem_le hn
    split
    · simp
    split
    · simp
    split
    · nr_err insertBody_norle c f r1 (by omega)
    · rename_i cs r2 hb
      have h2 := insertBody_le hb
      split
      · simp
      · split
        · nr_err retPart_norle c f r2 (by omega)
        · simp

theorem factorPart_norle (c : QCfg) (f : Nat) {d : Nat} (ts : List Tok) (h : ts.length + 2 ≤ d) :
    factorPart c f d ts ≠ .error .rle := by
  unfold factorPart
  split
  · omega
  split
  · nr_err factorHead_ne_rle c ts
  · simp
  · rename_i lp r hfh
    have h1 := factorHead_lt hfh
    simp only at h1
    split
    · rename_i hq; exact absurd hq ((qnorle_all c f).1 _ _ (by omega))
    · simp
    · simp
    · split
      · simp
      · split
        · simp
        · split <;> simp

theorem twj_norle (c : QCfg) {d : Nat} : ∀ (f : Nat) (conn : Conn) (ts : List Tok), ts.length + 2 ≤ d →
    twj c f d conn ts ≠ .error .rle := by
  intro f
  induction f with
  | zero => intro conn ts h; simp [twj]
  | succ f ih =>
    intro conn ts hf
    simp only [twj]
    split
    · nr_err factorPart_norle c f ts (by omega)
    · rename_i fac r hfp
      have h1 := factorPart_lt hfp
      split
      · nr_err optCstr_norle c f _ r (by omega)
      · rename_i k ts1 hc
        have h2 := optCstr_le hc
        split
        · nr_err joinHead_ne_rle ts1
        · simp
        · rename_i jk toks r2 hj
          have h3 := joinHead_lt hj
          split
          · nr_err ih _ r2 (by omega)
          · simp

theorem assignTarget_norle (c : DCfg) (f : Nat) (ts : List Tok) :
    assignTarget c f ts ≠ .error .rle := by
  unfold assignTarget
  split
  · split
    · nr_err commaSepE_norle _ _ (fun _ _ _ => nameElem_le) f _
        (fun ts' _ => nameElem_ne_rle ts')
    · split
      · simp
      · split <;> simp
  · split
    · nr_err nameElem_ne_rle _
    · split <;> simp

theorem assignment_norle (c : DCfg) (f : Nat) {d : Nat} (ts : List Tok) (h : ts.length + 2 ≤ d) :
    assignment c f d ts ≠ .error .rle := by
  unfold assignment
  split
  · nr_err assignTarget_norle c f ts
  · rename_i tg r ht
    have h1 := assignTarget_le ht
    split
    · simp
    · rename_i eq r1 hs
      have h2 := eatSym_len hs
      split
      · nr_err parseE_norle c.q f r1 (by omega)
      · simp

theorem updateFromPart_norle (c : DCfg) (f : Nat) {d : Nat} (ts : List Tok) (h : ts.length + 2 ≤ d) :
    updateFromPart c f d ts ≠ .error .rle := by
  unfold updateFromPart
  split
  · simp
  · rename_i kw r hk
    have h1 := eatKw_len hk
    split
    · split
      · nr_err twj_norle c.q f _ r (by omega)
      · simp
    · simp

theorem parseUpdate_norle (c : DCfg) (f : Nat) {d : Nat} (kw : Tok) (ts : List Tok) (h : ts.length + 2 ≤ d) :
    parseUpdate c f d kw ts ≠ .error .rle := by
  unfold parseUpdate
  split
  · nr_err twj_norle c.q f _ ts h
  · rename_i tbl r1 ht
    have h1 := twj_lt _ _ _ _ _ _ _ ht
    split
    · simp
    · rename_i setKw r2 hk
      have h2 := eatKw_len hk
      split
      · nr_err commaSepE_norle _ _ (fun _ _ _ => assignment_le) f r2
          (fun ts' h' => assignment_norle c f ts' (by omega))
      · rename_i as r3 ha
        have h3 := commaSepE_le _ _ (fun _ _ _ => assignment_le) _ _ _ _ ha
        split
        · nr_err updateFromPart_norle c f r3 (by omega)
        · rename_i fr r4 hf
          have h4 := updateFromPart_le hf
          split
          · nr_err kwExprPart_norle c.q f _ r4 (by omega)
          · rename_i w r5 hw
            have h5 := kwExprPart_le hw
            split
            · nr_err retPart_norle c f r5 (by omega)
            · simp

theorem deleteHead_norle (c : DCfg) (f : Nat) (ts : List Tok) :
    deleteHead c f ts ≠ .error .rle := by
  unfold deleteHead
  split
  · simp
  · split
    · simp
    · split
      · nr_err commaSepE_norle _ _ (fun _ _ _ => nameElem_le) f ts
          (fun ts' _ => nameElem_ne_rle ts')
      · split
        · simp
        · split <;> simp

theorem usingPart_norle (c : DCfg) (f : Nat) {d : Nat} (ts : List Tok) (h : ts.length + 2 ≤ d) :
    usingPart c f d ts ≠ .error .rle := by
  unfold usingPart
  split
  · rename_i kw r hk
    have h1 := eatKw_len hk
    exact (qnorle_all c.q f).2.2.2.2.1 d _ r (by omega)
  · simp

theorem deleteOrderPart_norle (c : DCfg) (f : Nat) {d : Nat} (ts : List Tok) (h : ts.length + 2 ≤ d) :
    deleteOrderPart c f d ts ≠ .error .rle := by
  unfold deleteOrderPart
  split
  · rename_i kws r hk
    have h1 := eatKws_le hk
    split
    · nr_err commaSepE_norle _ _ (fun _ _ _ => orderByElem_le) f r
        (fun ts' h' => orderByElem_norle c.q f ts' (by omega))
    · simp
  · simp

theorem deleteLimitPart_norle (c : DCfg) (f : Nat) {d : Nat} (ts : List Tok) (h : ts.length + 2 ≤ d) :
    deleteLimitPart c f d ts ≠ .error .rle := by
  unfold deleteLimitPart
  split
  · rename_i kw r hk
    have h1 := eatKw_len hk
    split
    · simp
    · split
      · nr_err parseE_norle c.q f r (by omega)
      · simp
  · simp

theorem parseDelete_norle (c : DCfg) (f : Nat) {d : Nat} (kw : Tok) (ts : List Tok) (h : ts.length + 2 ≤ d) :
    parseDelete c f d kw ts ≠ .error .rle := by
  unfold parseDelete
  split
  · nr_err deleteHead_norle c f ts
  · rename_i hd r1 hh
    have h1 := deleteHead_lt hh
    split
    · nr_err (qnorle_all c.q f).2.2.2.2.1 d _ r1 (by omega)
    · rename_i frm r2 hf
      have h2 := fromItems_le hf
      split
      · nr_err usingPart_norle c f r2 (by omega)
      · rename_i us r3 hu
        have h3 := usingPart_le hu
        split
        · nr_err kwExprPart_norle c.q f _ r3 (by omega)
        · rename_i w r4 hw
          have h4 := kwExprPart_le hw
          split
          · nr_err retPart_norle c f r4 (by omega)
          · rename_i ret r5 hr
            have h5 := retPart_le hr
            split
            · nr_err deleteOrderPart_norle c f r5 (by omega)
            · rename_i ob r6 ho
              have h6 := deleteOrderPart_le ho
              split
              · nr_err deleteLimitPart_norle c f r6 (by omega)
              · simp

theorem colType_norle (c : DCfg) (f : Nat) {d : Nat} (ts : List Tok) (h : 1 ≤ d) :
    colType c f d ts ≠ .error .rle := by
  unfold colType
  cases hf : typeHeadForeign c ts with
  | true => simp
  | false =>
    simp only [Bool.false_eq_true, if_false]
    split
    · rename_i e he
      intro hc; simp at hc
      have := dtErr_rle hc; subst this
      exact SqlVerif.DTy.parseDataType_nonrec_norle c.dt f d _ (toDTok_nonrec c ts hf) h he
    · simp

theorem colTypePart_norle (c : DCfg) (f : Nat) {d : Nat} (ts : List Tok) (h : 1 ≤ d) :
    colTypePart c f d ts ≠ .error .rle := by
  unfold colTypePart
  split
  · simp
  · exact colType_norle c f ts h

theorem checkTail_norle (c : DCfg) (f : Nat) {d : Nat} (kw : Tok) (ts : List Tok) (h : ts.length + 2 ≤ d) :
    checkTail c f d kw ts ≠ .error .rle := by
  unfold checkTail
  split
  · simp
  · rename_i lp r hs
    have h1 := eatSym_len hs
    split
    · nr_err parseE_norle c.q f r (by omega)
    · split <;> simp

theorem referencesTail_norle (c : DCfg) (f : Nat) (kw : Tok) (ts : List Tok) :
    referencesTail c f kw ts ≠ .error .rle := by
  unfold referencesTail
  split
  · nr_err nameElem_ne_rle _
  · split
    · simp
    · split
      · nr_err parenIds_norle c f false _
      · split <;> simp

theorem defaultTail_norle (c : DCfg) (f : Nat) {d : Nat} (kw : Tok) (ts : List Tok) (h : ts.length + 2 ≤ d) :
    defaultTail c f d kw ts ≠ .error .rle := by
  unfold defaultTail
  split
  · nr_err parseE_norle c.q f ts h
  · simp

theorem colOption_norle (c : DCfg) (f : Nat) {d : Nat} (ts : List Tok) (h : ts.length + 2 ≤ d) :
    colOption c f d ts ≠ .error .rle := by
  unfold colOption
  repeat' split
  all_goals first
    | (simp; done)
    | exact colOptionTail_ne_rle _ _
    | exact commentTail_ne_rle _ _
    | exact ccTail_ne_rle _ _
    | (rename_i hk; have h1 := eatKw_len hk; exact defaultTail_norle c f _ _ (by omega))
    | (rename_i hk; have h1 := eatKw_len hk; exact checkTail_norle c f _ _ (by omega))
    | (rename_i hk; have h1 := eatKw_len hk; exact referencesTail_norle c f _ _)

theorem colOpts_norle (c : DCfg) (f : Nat) {d : Nat} : ∀ (n : Nat) (ts : List Tok),
    ts.length + 2 ≤ d → colOpts c f d n ts ≠ .error .rle := by
  intro n
  induction n with
  | zero => intro ts h; simp [colOpts]
  | succ n ih =>
    intro ts hf
    simp only [colOpts]
    split
    · simp
    · split
      · nr_err colOption_norle c f ts hf
      · split <;> simp
      · rename_i o r ho
        have h1 := colOption_opt_lt ho
        split
        · nr_err ih r (by omega)
        · simp

theorem columnDef_norle (c : DCfg) (f : Nat) {d : Nat} (ts : List Tok) (h : ts.length + 2 ≤ d) :
    columnDef c f d ts ≠ .error .rle := by
  unfold columnDef
  split
  · nr_err identElem_ne_rle ts
  · rename_i name r hi
    have h1 := identElem_le hi
    split
    · nr_err colTypePart_norle c f r (by omega)
    · rename_i ty r1 ht
      have h2 := colTypePart_le ht
      split
      · simp
      · split
        · nr_err colOpts_norle c f f r1 (by omega)
        · simp

theorem colLoop_norle (c : DCfg) (f : Nat) {d : Nat} : ∀ (n : Nat) (ts : List Tok),
    ts.length + 2 ≤ d → colLoop c f d n ts ≠ .error .rle := by
  intro n
  induction n with
  | zero => intro ts h; simp [colLoop]
  | succ n ih =>
    intro ts hf
    simp only [colLoop]
    split
    · simp
    split
    · simp
    split
    · nr_err columnDef_norle c f ts hf
    · rename_i cd r1 hc
      have h1 := columnDef_lt hc
      split
      · simp
      · simp
      · rename_i cm r2 he
        have h2 : r2.length ≤ r1.length := by len_of colEnd_more _ _ _ _ he
        split
        · nr_err ih r2 (by omega)
        · simp

theorem parseColumns_norle (c : DCfg) (f : Nat) {d : Nat} (ts : List Tok) (h : ts.length + 2 ≤ d) :
    parseColumns c f d ts ≠ .error .rle := by
  unfold parseColumns
  split
  · simp
  · rename_i lp r hs
    have h1 := eatSym_len hs
    split
    · simp
    · split
      · nr_err colLoop_norle c f f r (by omega)
      · simp

theorem parseCreate_norle (c : DCfg) (f : Nat) {d : Nat} (kw : Tok) (ts : List Tok) (h : ts.length + 2 ≤ d) :
    parseCreate c f d kw ts ≠ .error .rle := by
  unfold parseCreate
  have h0 := tempTail_le ts
  split
  · simp
  split
  · simp
  split
  · simp
  split
  · split <;> simp
  · rename_i tk r0 hk
    have h1 := eatKw_len hk
    have h2 := kwsTail_le [DK.IF, DK.NOT, DK.EXISTS] r0
    split
    · nr_err nameElem_ne_rle _
    · rename_i name r1 hn
      have h3 := nameElem_le hn
      split
      · simp
      split
      · simp
      split
      · nr_err parseColumns_norle c f r1 (by omega)
      · split <;> simp

theorem parseDrop_norle (c : DCfg) (f : Nat) (kw : Tok) (ts : List Tok) :
    parseDrop c f kw ts ≠ .error .rle := by
  unfold parseDrop
  split
  · simp
  · split
    · split <;> simp
    · split
      · nr_err commaSepE_norle _ _ (fun _ _ _ => nameElem_le) f _
          (fun ts' _ => nameElem_ne_rle ts')
      · split
        · simp
        · split <;> simp

/-- **the statement parser never reports the limit when it exceeds the number of tokens by three** -/
theorem parseStmt_norle (c : DCfg) (f : Nat) {limit : Nat} (ts : List Tok) (h : ts.length + 3 ≤ limit) :
    parseStmt c f limit ts ≠ .error .rle := by
  cases limit with
  | zero => omega
  | succ d =>
    unfold parseStmt
    cases ts with
    | nil => simp
    | cons t r =>
      simp only
      simp only [List.length_cons] at h
      split
      · exact mapRes_ne _ ((qnorle_all c.q f).1 _ _ (by simp; omega))
      split
      · exact mapRes_ne _ (valuesQuery_norle c f _ _ (by omega))
      split
      · exact mapRes_ne _ (parseInsert_norle c f _ _ (by omega))
      split
      · exact mapRes_ne _ (parseUpdate_norle c f _ _ (by omega))
      split
      · exact mapRes_ne _ (parseDelete_norle c f _ _ (by omega))
      split
      · exact mapRes_ne _ (parseCreate_norle c f _ _ (by omega))
      split
      · exact mapRes_ne _ (parseDrop_norle c f _ _)
      split
      · exact mapRes_ne _ ((qnorle_all c.q f).1 _ _ (by simp; omega))
      · simp
      · simp


theorem parseScript_norle (c : DCfg) (f : Nat) {limit : Nat} (ts : List Tok) (h : ts.length + 3 ≤ limit) :
    parseScript c f limit ts ≠ .error (.stmt .rle) := by
  intro hc
  obtain ⟨ts', h1, h2⟩ := SqlVerif.Stmts.loop_stmt_err stmtClass _
    (fun _ _ _ h => Nat.le_of_lt (parseStmt_lt h)) _ _ _ _ _ hc
  exact parseStmt_norle c f ts' (by omega) h2

end SqlVerif.Dml
